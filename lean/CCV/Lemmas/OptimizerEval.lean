import CCV.Lemmas.OptimizerEvalA
import CCV.Lemmas.OptimizerEvalB
import CCV.Lemmas.OptimizerEvalC
import CCV.Lemmas.OptimizerMetaValue
import CCV.Proofs.C09Values
/-
  The evaluator model satisfies the laws of the meta-operation pass (C06): `evLaws`.

  `semE T` (Lemmas/OptimizerEvalDefs.lean) is `CCV.EvalOps.evalOp` — the model of
  `SimpleEvaluator::evaluate_node` compared with the Rust evaluator on every run of C09 — lifted to
  typed values with failure.  This file shows

    * faithfulness: on arguments that have their types (`hasType`, i.e. `Value::check_type`),
      `liftE op` IS `evalOp op` with the type `TI.infer op` (`liftE_faithful`), and for the 28 total
      operations of C09 it succeeds with a value of that type (`liftE_total`); the executable guard
      `hasTypeB` is `hasType` (`hasTypeB_iff`);
    * `evLaws`: all eleven laws of `Optimizer.MetaLaws` and strictness of CreateTuple hold for
      `semE T` relative to the success predicate `okE` (left-hand side evaluates successfully).
      Two harmless table conditions: interned field names are distinct strings (`T.nm` injective),
      scalar-type codes decode to themselves.

  Why the side conditions are needed (the unconditional laws are FALSE for a strict evaluator):
    * `A2B(B2A_st x) = x` fails when `x` is not a bit array whose last dimension is `bits st`
      (B2A fails, hence A2B ∘ B2A fails, but `x` is a perfectly good value);
    * `TupleGet_j(CreateTuple vs) = vs[j]` fails when another component `vs[k]` failed;
    * `tyv (Get(a,[c])) = arr 0 st` fails when `c` is out of range (the Get fails);
    * `B2A_st(A2B x) = x` fails for the value `x = (array [] u8, [5])` of an INVALID type: A2B does
      not look at validity and yields `(array [8] bit, …)`, B2A yields `(scalar u8, [5])` ≠ `x`
      although both have the summary `arr 0 u8` (`b2a_a2b_counterexample` in OptimizerEvalC.lean).
      ciphercore never produces values of invalid types (`register_result`); accordingly the
      success predicate `okV` is "evaluated successfully, to a value of a valid type".
  In the Rust pass the guard is implicit: the pass runs on a type-checked graph whose nodes all
  evaluate, so the replaced node evaluated successfully (`ValOK`).
-/
namespace CCV.OptEval
open CCV CCV.TV CCV.TI CCV.EvalOps

/-! ### the executable type check is `hasType` -/

mutual
theorem hasTypeB_iff : ∀ (t : TV.Ty) (v : EV), hasTypeB t v = true ↔ hasType t v
  | .scalar st, .arr xs => by
    simp only [hasTypeB, hasType, flatOk, Bool.and_eq_true, beq_iff_eq, List.all_eq_true, decide_eq_true_eq]
  | .array s st, .arr xs => by
    simp only [hasTypeB, hasType, flatOk, Bool.and_eq_true, beq_iff_eq, List.all_eq_true, decide_eq_true_eq]
  | .vector n t, .vec vs => by
    simp only [hasTypeB, hasType, Bool.and_eq_true, beq_iff_eq, hasTypeBAll_iff t vs]
  | .tuple ts, .vec vs => by simp only [hasTypeB, hasType, hasTypeBL_iff ts vs]
  | .named fs, .vec vs => by simp only [hasTypeB, hasType, hasTypeBN_iff fs vs]
  | .scalar _, .vec _ | .array _ _, .vec _ | .vector _ _, .arr _ | .tuple _, .arr _ | .named _, .arr _ => by
    simp [hasTypeB, hasType]
theorem hasTypeBAll_iff : ∀ (t : TV.Ty) (vs : List EV), hasTypeBAll t vs = true ↔ ∀ v ∈ vs, hasType t v
  | _, [] => by simp [hasTypeBAll]
  | t, v :: vs => by
    simp only [hasTypeBAll, Bool.and_eq_true, hasTypeB_iff t v, hasTypeBAll_iff t vs, List.mem_cons,
      forall_eq_or_imp]
theorem hasTypeBL_iff : ∀ (ts : List TV.Ty) (vs : List EV), hasTypeBL ts vs = true ↔ hasTypeL ts vs
  | [], [] => by simp [hasTypeBL, hasTypeL]
  | t :: ts, v :: vs => by
    simp only [hasTypeBL, hasTypeL, Bool.and_eq_true, hasTypeB_iff t v, hasTypeBL_iff ts vs]
  | [], _ :: _ => by simp [hasTypeBL, hasTypeL]
  | _ :: _, [] => by simp [hasTypeBL, hasTypeL]
theorem hasTypeBN_iff : ∀ (fs : List (String × TV.Ty)) (vs : List EV), hasTypeBN fs vs = true ↔ hasTypeN fs vs
  | [], [] => by simp [hasTypeBN, hasTypeN]
  | (_, t) :: fs, v :: vs => by
    simp only [hasTypeBN, hasTypeN, Bool.and_eq_true, hasTypeB_iff t v, hasTypeBN_iff fs vs]
  | [], _ :: _ => by simp [hasTypeBN, hasTypeN]
  | _ :: _, [] => by simp [hasTypeBN, hasTypeN]
end

/-! ### faithfulness: `liftE` is `evalOp` on values that have their types -/

theorem allSome_map_some' {α : Type} : ∀ (ws : List α), allSome (ws.map some) = some ws
  | [] => rfl
  | w :: ws => by simp [allSome, allSome_map_some' ws]

theorem all_hasTypeB_of_hasTypeL : ∀ (ws : List (TV.Ty × EV)),
    hasTypeL (ws.map (·.1)) (ws.map (·.2)) → ws.all (fun w => hasTypeB w.1 w.2) = true
  | [], _ => rfl
  | w :: ws, h => by
    simp only [List.map_cons, hasTypeL] at h
    simp only [List.all_cons, Bool.and_eq_true]
    exact ⟨(hasTypeB_iff _ _).mpr h.1, all_hasTypeB_of_hasTypeL ws h.2⟩

/-- on arguments that pass `check_type`, `liftE op` is `evalOp op` together with the inferred type:
    it yields `(t, v)` iff type inference yields `t` and `evalOp` yields `v` -/
theorem liftE_faithful (op : TI.Op) (ws : List (TV.Ty × EV))
    (h : hasTypeL (ws.map (·.1)) (ws.map (·.2))) (t : TV.Ty) (v : EV) :
    liftE op (ws.map some) = some (t, v) ↔
      TI.infer op (ws.map (·.1)) = .ok t ∧ evalOp op (ws.map (·.1)) (ws.map (·.2)) = .ok v := by
  unfold liftE
  rw [allSome_map_some']
  simp only [all_hasTypeB_of_hasTypeL ws h, if_true]
  split
  · rename_i t' v' h1 h2
    rw [h1, h2]
    simp only [Option.some.injEq, Prod.mk.injEq, Except.ok.injEq]
  · rename_i hno
    constructor
    · intro hh; cases hh
    · intro hh; exact absurd hh.2 (hno t v hh.1)

/-- for the total operations of C09 (`C09.totalOp`), a node accepted by type inference evaluates
    successfully under `liftE`, to the value `evalOp` yields, and that value has the node's type -/
theorem liftE_total (op : TI.Op) (htot : C09.totalOp op = true) (ws : List (TV.Ty × EV)) (t : TV.Ty)
    (hval : ∀ ty ∈ ws.map (·.1), ty.isValid = true) (hinf : TI.infer op (ws.map (·.1)) = .ok t)
    (h : hasTypeL (ws.map (·.1)) (ws.map (·.2))) :
    ∃ v, evalOp op (ws.map (·.1)) (ws.map (·.2)) = .ok v ∧ liftE op (ws.map some) = some (t, v) ∧
      hasType t v := by
  obtain ⟨v, hv, hty⟩ := C09.eval_hasType op htot _ t _ hval hinf h
  refine ⟨v, hv, ?_, hty⟩
  exact (liftE_faithful op ws h t v).mpr ⟨hinf, hv⟩

/-! ### the laws -/

/-- evaluated successfully, to a value of a valid type -/
def okV (v : VE) : Prop := ∃ t e, v = some (t, e) ∧ t.isValid = true

def okVb : VE → Bool
  | some (t, _) => t.isValid
  | none => false

theorem okVb_spec {v : VE} (h : okVb v = true) : okV v := by
  match v, h with
  | some (t, e), h => exact ⟨t, e, rfl, h⟩

theorem okV.okE {v : VE} (h : okV v) : okE v := by
  obtain ⟨t, e, rfl, _⟩ := h; rfl

theorem isValid_of_allValid : ∀ (ts : List TV.Ty), allValid ts = true → ∀ t ∈ ts, t.isValid = true
  | [], _, t, ht => by cases ht
  | a :: ts, h, t, ht => by
    simp only [allValid, Bool.and_eq_true] at h
    rcases List.mem_cons.mp ht with rfl | ht
    · exact h.1
    · exact isValid_of_allValid ts h.2 t ht

theorem okV_createTuple (T : Tab) (vs : List VE) (h : okV (semE T .createTuple vs)) :
    ∀ v ∈ vs, okV v := by
  obtain ⟨t, e, h, _⟩ := h
  obtain ⟨us, rfl, _, hval, _⟩ := createTuple_inv (vs := vs) (w := (t, e)) h
  intro v hv
  obtain ⟨u, hu, rfl⟩ := List.mem_map.mp hv
  exact ⟨u.1, u.2, rfl, isValid_of_allValid _ hval u.1 (List.mem_map_of_mem hu)⟩

/-- the evaluator model satisfies the laws of the meta-operation pass, relative to successful
    evaluation of the replaced node -/
theorem evLaws (T : Tab) (hinj : Function.Injective T.nm) (hst : ∀ s, T.st (T.stc s) = s) :
    Optimizer.MetaLaws okV (semE T) (tyvE T) where
  tupleGet := fun vs j h hok => tupleGet_law T vs j h hok.okE
  namedGet := fun names vs j h hl hnd hok => namedGet_law T hinj names vs j h hl hnd hok.okE
  vectorGet := fun t vs vid c h hok => vectorGet_law T t vs vid c h hok.okE
  zipGet := fun vs i hok => zipGet_law T vs i hok.okE
  a2vGet := fun a vid c hok => a2vGet_law T a vid c hok.okE
  a2b_b2a := fun x st hok => a2b_b2a_law T x st hok.okE
  b2a_a2b := fun x nd st h hx hok => b2a_a2b_law_valid T hst x nd st h (by
    obtain ⟨t, e, rfl, hv⟩ := hx
    intro t' e' heq
    cases heq
    exact hv) hok.okE
  ty_get := fun a c st h hok => ty_get_law T a c st h hok.okE
  ty_getSlice := fun a c hok => ty_getSlice_law T a c hok.okE
  ty_vectorGet := fun v i e h hok => ty_vectorGet_law T v i e h hok.okE
  ty_createTuple := fun vs => ty_createTuple_law T vs
  ok_createTuple := fun vs h => okV_createTuple T vs h

end CCV.OptEval

/-! ### executable checks of the graph hypotheses (for concrete instances) -/

namespace CCV.Optimizer
variable {V : Type}

theorem tyOK_of_map {sem : Op → List V → V} {inp : Nat → V} {dv : V} {rnd : Nat → List V → V}
    {tyv : V → Ty} {ns : List Node}
    (h : (eval sem inp dv rnd ns).map tyv = ns.map (·.ty)) : TyOK sem inp dv rnd tyv ns := by
  intro i n hn
  have h1 := congrArg (fun l => l[i]?) h
  simp only [List.getElem?_map, hn, Option.map_some] at h1
  rw [List.getD_eq_getElem?_getD]
  cases hv : (eval sem inp dv rnd ns)[i]? with
  | none => rw [hv] at h1; simp at h1
  | some v => rw [hv] at h1; simpa using h1

theorem valOK_of_all {ok : V → Prop} {okb : V → Bool} (hb : ∀ v, okb v = true → ok v)
    {sem : Op → List V → V} {inp : Nat → V} {dv : V} {rnd : Nat → List V → V} {ns : List Node}
    (h : (eval sem inp dv rnd ns).all okb = true) : ValOK ok sem inp dv rnd ns := by
  intro i hi
  rw [List.all_eq_true] at h
  have hl : i < (eval sem inp dv rnd ns).length := by rw [eval_length]; exact hi
  rw [List.getD_eq_getElem?_getD, List.getElem?_eq_getElem hl]
  exact hb _ (h _ (List.getElem_mem hl))

def Ty.isVec : Ty → Bool
  | .vec _ => true
  | _ => false

theorem Ty.isVec_spec {t : Ty} (h : t.isVec = true) : ∃ e, t = .vec e := by
  cases t <;> simp [Ty.isVec] at h
  exact ⟨_, rfl⟩

/-- executable `VecWF` -/
def vecWFb (ns : List Node) : Bool :=
  ns.all fun n =>
    (!(n.op == .vectorGet) || (match n.deps.head? with
      | some d => (tyOf ns d).isVec
      | none => true)) &&
    (!(n.op == .zip) || n.deps.all fun d => (tyOf ns d).isVec)

theorem vecWF_of_check {ns : List Node} (h : vecWFb ns = true) : VecWF ns := by
  intro i n hn
  unfold vecWFb at h
  rw [List.all_eq_true] at h
  have := h n (List.mem_of_getElem? hn)
  simp only [Bool.and_eq_true, Bool.or_eq_true, Bool.not_eq_true', beq_eq_false_iff_ne, ne_eq] at this
  refine ⟨fun hop d hd => ?_, fun hop d hd => ?_⟩
  · rcases this.1 with h1 | h1
    · exact absurd hop h1
    · rw [hd] at h1; exact Ty.isVec_spec h1
  · rcases this.2 with h1 | h1
    · exact absurd hop h1
    · rw [List.all_eq_true] at h1; exact Ty.isVec_spec (h1 d hd)

/-- the constants pass folds nothing (every image has the operation of its source) -/
def noFold (oracle : Nat → Nat × Option Nat) (g : Graph) : Bool :=
  (List.range g.nodes.length).all fun i =>
    match (constants oracle g).2.getD i none with
    | some k => ((constants oracle g).1.nodes.getD k default).op == (g.nodes.getD i default).op
    | none => true

/-- … then the hypothesis `hor` of the constants pass holds vacuously -/
theorem hor_of_noFold {oracle : Nat → Nat × Option Nat} {g : Graph} (h : noFold oracle g = true)
    (sem : Op → List V → V) (val : Nat → V) :
    ∀ i k n n', Maps (constants oracle g).2 i k → g.nodes[i]? = some n →
      (constants oracle g).1.nodes[k]? = some n' → n'.op.isConstant → n'.op ≠ n.op →
      sem n'.op [] = val i := by
  intro i k n n' hm hn hk _ hne
  exfalso
  unfold noFold at h
  rw [List.all_eq_true] at h
  have := h i (List.mem_range.mpr (lt_of_getElem?_some hn))
  unfold Maps at hm
  simp only [List.getD_eq_getElem?_getD, hm, hn, hk, Option.getD_some, beq_iff_eq] at this
  exact hne this

end CCV.Optimizer
