import CCV.Model.Mask
import CCV.Lemmas.Pivot
/- Semantics of observer-classified protocol graphs and soundness of the discipline checker. -/
set_option linter.unusedSectionVars false
namespace CCV.Mask
open CCV.Pivot
variable {R : Type} [AddCommGroup R]

/-- value of a node.  `x` = the secrets (hidden inputs), `ρ` = the unknown tape; the observer's own
    inputs `own`, the masks it knows `kn` and the semantics `sem` of all other operations are
    parameters. -/
def evalNode (sem : Nat → List R → R) (own kn : Nat → R) (x ρ : Nat → R) (env : List R) (n : Node) : R :=
  let args := n.deps.map (fun d => env.getD d 0)
  match n.k with
  | .hid i => x i
  | .own i => own i
  | .tapeU v => ρ v
  | .tapeK v => kn v
  | .nop => args.getD 0 0
  | .add => args.getD 0 0 + args.getD 1 0
  | .sub => args.getD 0 0 - args.getD 1 0
  | .op tag => sem tag args

def evalRun (sem : Nat → List R → R) (own kn : Nat → R) (x ρ : Nat → R) :
    List Node → List R → List R
  | [], env => env
  | n :: g, env => evalRun sem own kn x ρ g (env ++ [evalNode sem own kn x ρ env n])

/-- what a class promises about the value under `upd ρ v a` (r') versus under `ρ` (r) -/
def Rel (ρ : Nat → R) (v : Nat) (a : R) : Cls → R → R → Prop
  | .indep, r, r' => r' = r
  | .pos, r, r' => r' = r + (a - ρ v)
  | .neg, r, r' => r' = r - (a - ρ v)
  | .bad, _, _ => True

theorem rel_clsAdd (ρ : Nat → R) (v : Nat) (a : R) (c1 c2 : Cls) (r1 r1' r2 r2' : R)
    (h1 : Rel ρ v a c1 r1 r1') (h2 : Rel ρ v a c2 r2 r2') :
    Rel ρ v a (clsAdd c1 c2) (r1 + r2) (r1' + r2') := by
  cases c1 <;> cases c2 <;> simp only [clsAdd, Rel] at * <;> first | trivial | (subst h1; subst h2; abel)

theorem rel_clsNeg (ρ : Nat → R) (v : Nat) (a : R) (c : Cls) (r r' : R) (h : Rel ρ v a c r r') :
    Rel ρ v a (clsNeg c) (-r) (-r') := by
  cases c <;> simp only [clsNeg, Rel] at * <;> first | trivial | (subst h; abel)

structure Inv (ρ : Nat → R) (v : Nat) (a : R) (cl : List Cls) (env env' : List R) : Prop where
  len1 : env.length = cl.length
  len2 : env'.length = cl.length
  rel : ∀ idx, idx < cl.length → Rel ρ v a (cl.getD idx .bad) (env.getD idx 0) (env'.getD idx 0)

section
variable (sem : Nat → List R → R) (own kn : Nat → R) (x ρ : Nat → R) (v : Nat) (a : R)

theorem getD_append_lt {α : Type} (l : List α) (y d : α) (i : Nat) (h : i < l.length) :
    (l ++ [y]).getD i d = l.getD i d := by
  simp [List.getD_eq_getElem?_getD, List.getElem?_append_left h]

theorem getD_append_eq {α : Type} (l : List α) (y d : α) : (l ++ [y]).getD l.length d = y := by
  simp [List.getD_eq_getElem?_getD]

theorem step_rel (cl : List Cls) (env env' : List R) (hI : Inv ρ v a cl env env') (n : Node)
    (hsc : ∀ d ∈ n.deps, d < cl.length) :
    Rel ρ v a (clsNode v cl n) (evalNode sem own kn x ρ env n) (evalNode sem own kn x (upd ρ v a) env' n) := by
  have hdep : ∀ d, d < cl.length → Rel ρ v a (cl.getD d .bad) (env.getD d 0) (env'.getD d 0) := hI.rel
  unfold clsNode evalNode
  cases hk : n.k with
  | hid i => simp [Rel]
  | own i => simp [Rel]
  | tapeK w => simp [Rel]
  | tapeU w =>
    simp only []
    by_cases e : w = v
    · subst e; simp only [if_true, Rel, upd_same]; abel
    · simp only [e, if_false, Rel]; exact upd_other ρ a e
  | nop =>
    simp only []
    by_cases h1 : n.deps.length = 1
    · simp only [h1, if_true]
      match hd : n.deps, h1 with
      | [d0], _ =>
        have := hdep d0 (hsc d0 (by rw [hd]; simp))
        simpa using this
    · simp only [h1, if_false, Rel]
  | add =>
    simp only []
    by_cases h2 : n.deps.length = 2
    · simp only [h2, if_true]
      match hd : n.deps, h2 with
      | [d0, d1], _ =>
        have r0 := hdep d0 (hsc d0 (by rw [hd]; simp))
        have r1 := hdep d1 (hsc d1 (by rw [hd]; simp))
        have := rel_clsAdd ρ v a _ _ _ _ _ _ r0 r1
        simpa using this
    · simp only [h2, if_false, Rel]
  | sub =>
    simp only []
    by_cases h2 : n.deps.length = 2
    · simp only [h2, if_true]
      match hd : n.deps, h2 with
      | [d0, d1], _ =>
        have r0 := hdep d0 (hsc d0 (by rw [hd]; simp))
        have r1 := rel_clsNeg ρ v a _ _ _ (hdep d1 (hsc d1 (by rw [hd]; simp)))
        have := rel_clsAdd ρ v a _ _ _ _ _ _ r0 r1
        simpa [sub_eq_add_neg] using this
    · simp only [h2, if_false, Rel]
  | op tag =>
    simp only []
    by_cases hall : n.deps.all (fun j => cl.getD j .bad == .indep) = true
    · simp only [hall, if_true, Rel]
      congr 1
      apply List.map_congr_left
      intro d hd
      have hi : cl.getD d .bad = .indep := by
        have := List.all_eq_true.mp hall d hd
        simpa using this
      have := hdep d (hsc d hd)
      rw [hi] at this
      exact this
    · simp only [hall, Rel]; trivial

theorem step_inv (cl : List Cls) (env env' : List R) (hI : Inv ρ v a cl env env') (n : Node)
    (hsc : ∀ d ∈ n.deps, d < cl.length) :
    Inv ρ v a (cl ++ [clsNode v cl n]) (env ++ [evalNode sem own kn x ρ env n])
      (env' ++ [evalNode sem own kn x (upd ρ v a) env' n]) := by
  refine ⟨by simp [hI.len1], by simp [hI.len2], ?_⟩
  intro idx hidx
  simp only [List.length_append, List.length_singleton] at hidx
  by_cases h : idx < cl.length
  · rw [getD_append_lt cl _ _ idx h, getD_append_lt env _ _ idx (by rw [hI.len1]; exact h),
      getD_append_lt env' _ _ idx (by rw [hI.len2]; exact h)]
    exact hI.rel idx h
  · have e : idx = cl.length := by omega
    subst e
    have e1 := getD_append_eq cl (clsNode v cl n) Cls.bad
    have e2 : (env ++ [evalNode sem own kn x ρ env n]).getD cl.length 0 = evalNode sem own kn x ρ env n := by
      rw [← hI.len1]; exact getD_append_eq _ _ _
    have e3 : (env' ++ [evalNode sem own kn x (upd ρ v a) env' n]).getD cl.length 0
        = evalNode sem own kn x (upd ρ v a) env' n := by
      rw [← hI.len2]; exact getD_append_eq _ _ _
    rw [e1, e2, e3]
    exact step_rel sem own kn x ρ v a cl env env' hI n hsc

theorem wellScoped_cons (n : Node) (g : List Node) (k : Nat) (h : wellScoped (n :: g) k = true) :
    (∀ d ∈ n.deps, d < k) ∧ wellScoped g (k + 1) = true := by
  simp only [wellScoped, Bool.and_eq_true, List.all_eq_true, decide_eq_true_eq] at h
  exact h

theorem run_inv : ∀ (g : List Node) (cl : List Cls) (env env' : List R),
    Inv ρ v a cl env env' → wellScoped g cl.length = true →
    Inv ρ v a (clsRun v g cl) (evalRun sem own kn x ρ g env) (evalRun sem own kn x (upd ρ v a) g env')
  | [], _, _, _, hI, _ => hI
  | n :: g, cl, env, env', hI, hw => by
    obtain ⟨hsc, hw'⟩ := wellScoped_cons n g _ hw
    simp only [clsRun, evalRun]
    apply run_inv g
    · exact step_inv sem own kn x ρ v a cl env env' hI n hsc
    · simpa using hw'

theorem clsRun_length : ∀ (g : List Node) (cl : List Cls), (clsRun v g cl).length = cl.length + g.length
  | [], cl => by simp [clsRun]
  | n :: g, cl => by simp [clsRun, clsRun_length g]; omega

/-- **soundness of the class analysis** -/
theorem clsRun_sound (g : List Node) (hw : wellScoped g 0 = true) (m : Nat) (hm : m < g.length) :
    Rel ρ v a ((clsRun v g []).getD m .bad) ((evalRun sem own kn x ρ g []).getD m 0)
      ((evalRun sem own kn x (upd ρ v a) g []).getD m 0) :=
  (run_inv sem own kn x ρ v a g [] [] [] ⟨rfl, rfl, fun _ h => absurd h (by simp)⟩ (by simpa using hw)).rel m
    (by rw [clsRun_length]; simpa using hm)

end

/-- the message system of a certificate: message = value of the node, pivot = certified variable,
    sign read off the class analysis -/
def toMsg (sem : Nat → List R → R) (own kn : Nat → R) (g : List Node) (mv : Nat × Nat) : Msg (Nat → R) R :=
  ⟨fun x ρ => (evalRun sem own kn x ρ g []).getD mv.1 0, mv.2, (clsRun mv.2 g []).getD mv.1 .bad == .neg⟩

theorem discOkAux_disc (sem : Nat → List R → R) (own kn : Nat → R) (g : List Node)
    (hw : wellScoped g 0 = true) : ∀ (cert : Cert), (∀ mv ∈ cert, mv.1 < g.length) →
    discOkAux g cert = true → Disc (cert.map (toMsg sem own kn g))
  | [], _, _ => Disc.nil
  | (m, v) :: rest, hr, h => by
    simp only [discOkAux, Bool.and_eq_true, Bool.or_eq_true, List.all_eq_true, beq_iff_eq] at h
    obtain ⟨⟨hcls, hrest⟩, haux⟩ := h
    have hm : m < g.length := hr (m, v) (by simp)
    simp only [List.map_cons]
    refine Disc.cons _ _ ?_ ?_ (discOkAux_disc sem own kn g hw rest (fun mv h => hr mv (by simp [h])) haux)
    · -- Shift
      intro x ρ a
      have := clsRun_sound sem own kn x ρ v a g hw m hm
      show (evalRun sem own kn x (upd ρ v a) g []).getD m 0
        = (evalRun sem own kn x ρ g []).getD m 0 + sg ((clsRun v g []).getD m .bad == .neg) (a - ρ v)
      rcases hcls with hc | hc
      · rw [hc] at this ⊢; simp only [Rel] at this; rw [this]; simp [sg]
      · rw [hc] at this ⊢; simp only [Rel] at this; rw [this]; simp [sg, sub_eq_add_neg]
    · intro m' hm'
      obtain ⟨mv', hmv', rfl⟩ := List.mem_map.mp hm'
      have hh := hrest mv' hmv'
      simp only [Bool.and_eq_true, beq_iff_eq, bne_iff_ne, ne_eq] at hh
      refine ⟨?_, ?_⟩
      · intro x ρ a
        have := clsRun_sound sem own kn x ρ v a g hw mv'.1 (hr mv' (by simp [hmv']))
        show (evalRun sem own kn x (upd ρ v a) g []).getD mv'.1 0 = (evalRun sem own kn x ρ g []).getD mv'.1 0
        rw [hh.1] at this; exact this
      · exact hh.2

/-- **soundness of the checker**: an accepted certificate is a disciplined message system -/
theorem discOk_disc (sem : Nat → List R → R) (own kn : Nat → R) (g : List Node) (cert : Cert)
    (h : discOk g cert = true) : Disc (cert.map (toMsg sem own kn g)) := by
  simp only [discOk, Bool.and_eq_true, List.all_eq_true, decide_eq_true_eq] at h
  exact discOkAux_disc sem own kn g h.1.1 cert (fun mv hmv => h.1.2 mv hmv) h.2

/- computable messages: no hidden input, no unknown tape variable in the cone -/

theorem comp_step (sem : Nat → List R → R) (own kn : Nat → R) (x x' ρ ρ' : Nat → R)
    (cb : List Bool) (env env' : List R) (hl1 : env.length = cb.length) (hl2 : env'.length = cb.length)
    (hrel : ∀ idx, idx < cb.length → cb.getD idx false = true → env.getD idx 0 = env'.getD idx 0)
    (n : Node) (hsc : ∀ d ∈ n.deps, d < cb.length) (hc : compNode cb n = true) :
    evalNode sem own kn x ρ env n = evalNode sem own kn x' ρ' env' n := by
  have hargs : n.deps.all (fun j => cb.getD j false) = true →
      n.deps.map (fun d => env.getD d 0) = n.deps.map (fun d => env'.getD d 0) := by
    intro h
    apply List.map_congr_left
    intro d hd
    exact hrel d (hsc d hd) (List.all_eq_true.mp h d hd)
  unfold compNode at hc
  unfold evalNode
  cases hk : n.k with
  | hid i => rw [hk] at hc; exact absurd hc (by simp)
  | tapeU w => rw [hk] at hc; exact absurd hc (by simp)
  | own i => rfl
  | tapeK w => rfl
  | nop => rw [hk] at hc; simp only [] at hc ⊢; rw [hargs hc]
  | add => rw [hk] at hc; simp only [] at hc ⊢; rw [hargs hc]
  | sub => rw [hk] at hc; simp only [] at hc ⊢; rw [hargs hc]
  | op tag => rw [hk] at hc; simp only [] at hc ⊢; rw [hargs hc]

theorem comp_run (sem : Nat → List R → R) (own kn : Nat → R) (x x' ρ ρ' : Nat → R) :
    ∀ (g : List Node) (cb : List Bool) (env env' : List R),
    env.length = cb.length → env'.length = cb.length →
    (∀ idx, idx < cb.length → cb.getD idx false = true → env.getD idx 0 = env'.getD idx 0) →
    wellScoped g cb.length = true →
    ∀ idx, (compRun g cb).getD idx false = true →
      (evalRun sem own kn x ρ g env).getD idx 0 = (evalRun sem own kn x' ρ' g env').getD idx 0
  | [], cb, env, env', _, _, hrel, _, idx, h => by
    simp only [compRun, evalRun] at *
    by_cases hi : idx < cb.length
    · exact hrel idx hi h
    · have : cb.getD idx false = false := by
        simp [List.getD_eq_getElem?_getD, List.getElem?_eq_none (by omega : cb.length ≤ idx)]
      rw [this] at h; exact absurd h (by decide)
  | n :: g, cb, env, env', hl1, hl2, hrel, hw, idx, h => by
    obtain ⟨hsc, hw'⟩ := wellScoped_cons n g _ hw
    simp only [compRun, evalRun] at *
    apply comp_run sem own kn x x' ρ ρ' g (cb ++ [compNode cb n]) _ _ (by simp [hl1]) (by simp [hl2]) _
      (by simpa using hw') idx h
    intro j hj hcj
    simp only [List.length_append, List.length_singleton] at hj
    by_cases hlt : j < cb.length
    · rw [getD_append_lt cb _ _ j hlt] at hcj
      rw [getD_append_lt env _ _ j (by omega), getD_append_lt env' _ _ j (by omega)]
      exact hrel j hlt hcj
    · have e : j = cb.length := by omega
      subst e
      rw [getD_append_eq] at hcj
      have e2 : (env ++ [evalNode sem own kn x ρ env n]).getD cb.length 0 = evalNode sem own kn x ρ env n := by
        rw [← hl1]; exact getD_append_eq _ _ _
      have e3 : (env' ++ [evalNode sem own kn x' ρ' env' n]).getD cb.length 0 = evalNode sem own kn x' ρ' env' n := by
        rw [← hl2]; exact getD_append_eq _ _ _
      rw [e2, e3]
      exact comp_step sem own kn x x' ρ ρ' cb env env' hl1 hl2 hrel n hsc hcj

/-- a computable message has the same value whatever the secrets and the unknown tape are -/
theorem compOk_const (sem : Nat → List R → R) (own kn : Nat → R) (g : List Node) (ms : List Nat)
    (h : compOk g ms = true) (x x' ρ ρ' : Nat → R) :
    ms.map (fun m => (evalRun sem own kn x ρ g []).getD m 0)
      = ms.map (fun m => (evalRun sem own kn x' ρ' g []).getD m 0) := by
  simp only [compOk, Bool.and_eq_true, List.all_eq_true] at h
  apply List.map_congr_left
  intro m hm
  exact comp_run sem own kn x x' ρ ρ' g [] [] [] rfl rfl (fun _ hi => absurd hi (by simp)) (by simpa using h.1) m
    (h.2 m hm)

end CCV.Mask
