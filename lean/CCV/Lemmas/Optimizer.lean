import CCV.Model.Optimizer
/-
  Semantics of the optimiser IR (generic in the operation semantics) and the generic soundness
  argument used by C06: a pass whose result *structurally refines* the source (every mapped node
  is sent to a node with the same operation and the re-mapped dependencies, or to a constant with
  the right value) preserves the value of every mapped node.
-/
namespace CCV.Optimizer

variable {V : Type}

/-- value of one node given the values `env` of the earlier nodes: the `nin`-th input value for an
    Input node, the oracle draw `rnd idx` for a randomising node (keyed by the node id `idx`), and
    `sem op args` for everything else (PRF included: a deterministic function of its key) -/
def nodeVal (sem : Op → List V → V) (inp : Nat → V) (dv : V) (rnd : Nat → List V → V)
    (env : List V) (nin idx : Nat) (n : Node) : V :=
  match n.op with
  | .input _ => inp nin
  | .random _ => rnd idx (n.deps.map fun d => env.getD d dv)
  | op => sem op (n.deps.map fun d => env.getD d dv)

def countIn (ns : List Node) : Nat := (ns.filter fun n => n.op.isInput).length

/-- evaluation of a node list given last-node-first -/
def evalRev (sem : Op → List V → V) (inp : Nat → V) (dv : V) (rnd : Nat → List V → V) :
    List Node → List V
  | [] => []
  | n :: rest =>
    evalRev sem inp dv rnd rest ++
      [nodeVal sem inp dv rnd (evalRev sem inp dv rnd rest) (countIn rest.reverse) rest.length n]

/-- values of all nodes of a graph, in node order: node k is evaluated from the values of the
    nodes before it; the j-th Input node (in node order) receives `inp j` -/
def eval (sem : Op → List V → V) (inp : Nat → V) (dv : V) (rnd : Nat → List V → V)
    (ns : List Node) : List V :=
  evalRev sem inp dv rnd ns.reverse

/-- the interface: Input nodes in order with operation (= type), name and type summary -/
def inputsOf (ns : List Node) : List (Op × Option Nat × Ty) :=
  (ns.filter fun n => n.op.isInput).map fun n => (n.op, n.name, n.ty)

def Closed (ns : List Node) : Prop := ∀ (k : Nat) (n : Node), ns[k]? = some n → ∀ d ∈ n.deps, d < k

section
variable (sem : Op → List V → V) (inp : Nat → V) (dv : V) (rnd : Nat → List V → V)

theorem eval_snoc (ns : List Node) (n : Node) :
    eval sem inp dv rnd (ns ++ [n]) =
      eval sem inp dv rnd ns ++
        [nodeVal sem inp dv rnd (eval sem inp dv rnd ns) (countIn ns) ns.length n] := by
  simp [eval, evalRev]

theorem evalRev_length (r : List Node) : (evalRev sem inp dv rnd r).length = r.length := by
  induction r with
  | nil => rfl
  | cons n r ih => simp [evalRev, ih]

theorem eval_length (ns : List Node) : (eval sem inp dv rnd ns).length = ns.length := by
  simp [eval, evalRev_length]

theorem evalRev_prefix (r base : List Node) :
    ∃ s, evalRev sem inp dv rnd (r ++ base) = evalRev sem inp dv rnd base ++ s := by
  induction r with
  | nil => exact ⟨[], by simp⟩
  | cons n r ih =>
    obtain ⟨s, hs⟩ := ih
    refine ⟨s ++ [nodeVal sem inp dv rnd (evalRev sem inp dv rnd (r ++ base))
      (countIn (r ++ base).reverse) (r ++ base).length n], ?_⟩
    simp only [List.cons_append, evalRev]
    rw [hs]
    simp

theorem eval_prefix (ns l : List Node) :
    ∃ s, eval sem inp dv rnd (ns ++ l) = eval sem inp dv rnd ns ++ s := by
  have := evalRev_prefix sem inp dv rnd l.reverse ns.reverse
  simpa [eval] using this

/-- the value of node k depends only on the nodes up to k -/
theorem eval_getD_append (ns l : List Node) (k : Nat) (hk : k < ns.length) :
    (eval sem inp dv rnd (ns ++ l)).getD k dv = (eval sem inp dv rnd ns).getD k dv := by
  obtain ⟨s, hs⟩ := eval_prefix sem inp dv rnd ns l
  rw [hs]
  have : k < (eval sem inp dv rnd ns).length := by rw [eval_length]; exact hk
  simp [List.getD_eq_getElem?_getD, List.getElem?_append_left this]

theorem nodeVal_congr (env env' : List V) (nin idx : Nat) (n : Node)
    (h : ∀ d ∈ n.deps, env.getD d dv = env'.getD d dv) :
    nodeVal sem inp dv rnd env nin idx n = nodeVal sem inp dv rnd env' nin idx n := by
  have : (n.deps.map fun d => env.getD d dv) = (n.deps.map fun d => env'.getD d dv) :=
    List.map_congr_left h
  unfold nodeVal
  rw [this]

/-- in a closed graph, node k has the value `nodeVal` computes from the final environment -/
theorem eval_spec (ns : List Node) (hc : Closed ns) (k : Nat) (n : Node) (hn : ns[k]? = some n) :
    (eval sem inp dv rnd ns).getD k dv =
      nodeVal sem inp dv rnd (eval sem inp dv rnd ns) (countIn (ns.take k)) k n := by
  have hk : k < ns.length := by
    rcases Nat.lt_or_ge k ns.length with h | h
    · exact h
    · rw [List.getElem?_eq_none_iff.mpr h] at hn; cases hn
  have hsplit : ns = (ns.take k ++ [n]) ++ ns.drop (k + 1) := by
    have h1 : ns.take (k + 1) = ns.take k ++ [n] := by
      rw [List.take_add_one, hn]; rfl
    rw [← h1, List.take_append_drop]
  have hlen : (ns.take k).length = k := by simp [List.length_take]; omega
  -- value at k is decided by the prefix
  have e1 : (eval sem inp dv rnd ns).getD k dv =
      (eval sem inp dv rnd (ns.take k ++ [n])).getD k dv := by
    conv => lhs; rw [hsplit]
    apply eval_getD_append
    simp [hlen]
  rw [e1, eval_snoc]
  have hl : (eval sem inp dv rnd (ns.take k)).length = k := by rw [eval_length, hlen]
  rw [List.getD_eq_getElem?_getD, List.getElem?_append_right (by omega)]
  simp only [hl, Nat.sub_self, List.getElem?_cons_zero, Option.getD_some, hlen]
  apply nodeVal_congr
  intro d hd
  have hdk : d < k := hc k n hn d hd
  have := eval_getD_append sem inp dv rnd (ns.take k) (ns.drop k) d (by omega)
  rw [List.take_append_drop] at this
  exact this.symm

end

/-- `m i = some k` -/
def Maps (m : Mapping) (i k : Nat) : Prop := m[i]? = some (some k)

theorem look_of_maps {m : Mapping} {i k : Nat} (h : Maps m i k) : look m i = k := by
  unfold look Maps at *
  simp [List.getD_eq_getElem?_getD, h]

/-- structural refinement: what the three "copying" passes guarantee about (source, result, mapping) -/
structure Refines (src out : List Node) (m : Mapping) : Prop where
  closedOut : Closed out
  bound : ∀ i k, Maps m i k → i < src.length ∧ k < out.length
  /-- a mapped node is sent to a node with the same operation and the re-mapped dependencies
      (all of which are mapped), unless it is sent to a Constant node -/
  img : ∀ i k n, Maps m i k → src[i]? = some n →
    ∃ n', out[k]? = some n' ∧
      ((n'.op = n.op ∧ n'.deps = n.deps.map (look m) ∧ ∀ d ∈ n.deps, ∃ kd, Maps m d kd) ∨
       (n'.op.isConstant ∧ n'.op ≠ n.op ∧ n'.deps = [] ∧ !n.op.isInput ∧ !n.op.isRandom))
  /-- Input nodes keep their rank among the Input nodes -/
  inputs : ∀ i k n, Maps m i k → src[i]? = some n → n.op.isInput →
    countIn (out.take k) = countIn (src.take i)

section
variable (sem : Op → List V → V) (inp : Nat → V) (dv : V)

/-- the generic soundness argument -/
theorem Refines.sound {src out : List Node} {m : Mapping} (R : Refines src out m)
    (hsrc : Closed src) (rO rN : Nat → List V → V)
    (hrnd : ∀ i k n, Maps m i k → src[i]? = some n → n.op.isRandom → rN k = rO i)
    (hconst : ∀ i k n n', Maps m i k → src[i]? = some n → out[k]? = some n' → n'.op.isConstant → n'.op ≠ n.op →
      sem n'.op [] = (eval sem inp dv rO src).getD i dv) :
    ∀ i k, Maps m i k →
      (eval sem inp dv rN out).getD k dv = (eval sem inp dv rO src).getD i dv := by
  intro i
  induction i using Nat.strongRecOn with
  | _ i ih =>
    intro k hik
    obtain ⟨hi, hk⟩ := R.bound i k hik
    have hn : src[i]? = some src[i] := List.getElem?_eq_getElem hi
    obtain ⟨n', hn', hcase⟩ := R.img i k src[i] hik hn
    rw [eval_spec sem inp dv rN out R.closedOut k n' hn',
        eval_spec sem inp dv rO src hsrc i src[i] hn]
    rcases hcase with ⟨hop, hdeps, hmapped⟩ | ⟨hc, hne, hd0, hni, hnr⟩
    · -- same operation, re-mapped dependencies
      have hargs : (n'.deps.map fun d => (eval sem inp dv rN out).getD d dv) =
          (src[i].deps.map fun d => (eval sem inp dv rO src).getD d dv) := by
        rw [hdeps, List.map_map]
        apply List.map_congr_left
        intro d hd
        obtain ⟨kd, hkd⟩ := hmapped d hd
        have hdi : d < i := hsrc i src[i] hn d hd
        simp only [Function.comp]
        rw [look_of_maps hkd]
        exact ih d hdi kd hkd
      unfold nodeVal
      rw [hargs, hop]
      cases hsi : src[i].op with
      | input t =>
        have := R.inputs i k src[i] hik hn (by simp [hsi, Op.isInput])
        simp [this]
      | random t =>
        have := hrnd i k src[i] hik hn (by simp [hsi, Op.isRandom])
        simp [this]
      | _ => rfl
    · -- folded to a constant
      have h1 := hconst i k src[i] n' hik hn hn' hc hne
      rw [eval_spec sem inp dv rO src hsrc i src[i] hn] at h1
      rw [← h1]
      unfold nodeVal
      rw [hd0]
      cases hop : n'.op <;> simp_all [Op.isConstant]

end

/- ---------------- bookkeeping for passes that extend the mapping by one entry per node ---------- -/

theorem maps_lt {m : Mapping} {i k : Nat} (h : Maps m i k) : i < m.length := by
  unfold Maps at h
  rcases Nat.lt_or_ge i m.length with h' | h'
  · exact h'
  · rw [List.getElem?_eq_none_iff.mpr h'] at h; cases h

theorem maps_append_left {m : Mapping} {x : Option Nat} {i k : Nat} (h : Maps m i k) :
    Maps (m ++ [x]) i k := by
  unfold Maps at *
  rw [List.getElem?_append_left (maps_lt h)]; exact h

theorem maps_append_cases {m : Mapping} {x : Option Nat} {i k : Nat} (h : Maps (m ++ [x]) i k) :
    Maps m i k ∨ (i = m.length ∧ x = some k) := by
  unfold Maps at *
  rcases Nat.lt_or_ge i m.length with h' | h'
  · left; rwa [List.getElem?_append_left h'] at h
  · right
    rw [List.getElem?_append_right h'] at h
    rcases Nat.eq_zero_or_pos (i - m.length) with h0 | h0
    · rw [h0] at h; simp at h; exact ⟨by omega, h⟩
    · have : i - m.length = (i - m.length - 1) + 1 := by omega
      rw [this] at h; simp at h

theorem maps_append_new (m : Mapping) (k : Nat) : Maps (m ++ [some k]) m.length k := by
  unfold Maps; simp

theorem look_append_left (m : Mapping) (x : Option Nat) (d : Nat) (h : d < m.length) :
    look (m ++ [x]) d = look m d := by
  unfold look
  simp [List.getD_eq_getElem?_getD, List.getElem?_append_left h]

theorem map_look_append (m : Mapping) (x : Option Nat) (ds : List Nat)
    (h : ∀ d ∈ ds, d < m.length) : ds.map (look (m ++ [x])) = ds.map (look m) :=
  List.map_congr_left fun d hd => look_append_left m x d (h d hd)

theorem countIn_append (a b : List Node) : countIn (a ++ b) = countIn a + countIn b := by
  simp [countIn]

theorem closed_snoc {out : List Node} {n : Node} (h : Closed out) (hn : ∀ d ∈ n.deps, d < out.length) :
    Closed (out ++ [n]) := by
  intro k n' hk d hd
  rcases Nat.lt_or_ge k out.length with h' | h'
  · rw [List.getElem?_append_left h'] at hk; exact h k n' hk d hd
  · rw [List.getElem?_append_right h'] at hk
    rcases Nat.eq_zero_or_pos (k - out.length) with h0 | h0
    · rw [h0] at hk; simp at hk; subst hk; have := hn d hd; omega
    · have : k - out.length = (k - out.length - 1) + 1 := by omega
      rw [this] at hk; simp at hk

/-- what the image `k` of the node `n` just processed has to satisfy w.r.t. the extended mapping -/
def ImgOK (out : List Node) (m : Mapping) (n : Node) (k : Nat) : Prop :=
  ∃ n', out[k]? = some n' ∧
    ((n'.op = n.op ∧ n'.deps = n.deps.map (look m) ∧ ∀ d ∈ n.deps, ∃ kd, Maps m d kd) ∨
     (n'.op.isConstant ∧ n'.op ≠ n.op ∧ n'.deps = [] ∧ !n.op.isInput ∧ !n.op.isRandom))

/-- one step of a pass: the result graph grows by `ext`, the mapping by the entry `x` -/
theorem Refines.extend {pre out : List Node} {m : Mapping} (R : Refines pre out m)
    (hlen : m.length = pre.length) (n : Node) (ext : List Node) (x : Option Nat)
    (hclosed : Closed (out ++ ext))
    (hx : ∀ k, x = some k → k < (out ++ ext).length ∧ ImgOK (out ++ ext) m n k ∧
      (n.op.isInput → countIn ((out ++ ext).take k) = countIn pre)) :
    Refines (pre ++ [n]) (out ++ ext) (m ++ [x]) := by
  constructor
  · exact hclosed
  · intro i k h
    rcases maps_append_cases h with h | ⟨hi, hx'⟩
    · have := R.bound i k h; simp; omega
    · have := (hx k hx').1; simp at *; omega
  · intro i k n0 h hn0
    rcases maps_append_cases h with h | ⟨hi, hx'⟩
    · obtain ⟨hi, hk⟩ := R.bound i k h
      rw [List.getElem?_append_left hi] at hn0
      obtain ⟨n', hn', hc⟩ := R.img i k n0 h hn0
      refine ⟨n', by rw [List.getElem?_append_left hk]; exact hn', ?_⟩
      rcases hc with ⟨h1, h2, h3⟩ | hc
      · left
        refine ⟨h1, ?_, fun d hd => ?_⟩
        · rw [h2, map_look_append]
          intro d hd; obtain ⟨kd, hkd⟩ := h3 d hd; exact maps_lt hkd
        · obtain ⟨kd, hkd⟩ := h3 d hd; exact ⟨kd, maps_append_left hkd⟩
      · right; exact hc
    · subst hi
      rw [hlen] at hn0
      simp at hn0; subst hn0
      obtain ⟨_, ⟨n', hn', hc⟩, _⟩ := hx k hx'
      refine ⟨n', hn', ?_⟩
      rcases hc with ⟨h1, h2, h3⟩ | hc
      · left
        refine ⟨h1, ?_, fun d hd => ?_⟩
        · rw [h2, map_look_append]
          intro d hd; obtain ⟨kd, hkd⟩ := h3 d hd; exact maps_lt hkd
        · obtain ⟨kd, hkd⟩ := h3 d hd; exact ⟨kd, maps_append_left hkd⟩
      · right; exact hc
  · intro i k n0 h hn0 hin
    rcases maps_append_cases h with h | ⟨hi, hx'⟩
    · obtain ⟨hi, hk⟩ := R.bound i k h
      rw [List.getElem?_append_left hi] at hn0
      have := R.inputs i k n0 h hn0 hin
      rw [List.take_append_of_le_length (by omega), List.take_append_of_le_length (by omega)]
      exact this
    · subst hi
      rw [hlen] at hn0 ⊢
      simp at hn0; subst hn0
      have := (hx k hx').2.2 hin
      rw [this]; simp

theorem Refines.nil : Refines [] [] [] := by
  constructor
  · intro k n h; simp at h
  · intro i k h; simp [Maps] at h
  · intro i k n h; simp [Maps] at h
  · intro i k n h; simp [Maps] at h

end CCV.Optimizer
