import CCV.Model.Ops
import CCV.Model.Spec
import CCV.Lemmas.Shape
import CCV.Lemmas.Kernels
import CCV.Lemmas.OpsPerm
import CCV.Lemmas.OpsMat
/-
  Gemm (`evaluate_gemm` / `general_gemm` / `evaluate_transpose_array`): the evaluator-shaped model
  `CCV.Ops.gemm` computes `R[β,i,j] = Σ_k A'[bc β,i,k] · B'[bc β,k,j]` mod 2^w.
-/
namespace CCV.Ops
open CCV CCV.Shape

/-! ### generic list helpers -/

/-- `mapM id` over a list of successful results -/
theorem mapM_id_ok' (l : List (Except String Nat)) (vs : List Nat) (h : l = vs.map Except.ok) :
    l.mapM id = .ok vs := by
  subst h
  induction vs with
  | nil => rfl
  | cons a l ih =>
    simp only [List.map_cons, List.mapM_cons, ih, id]
    rfl

theorem gemm_flatMap_congr {α β : Type} (l : List α) (f g : α → List β) (h : ∀ a ∈ l, f a = g a) :
    l.flatMap f = l.flatMap g := by
  induction l with
  | nil => rfl
  | cons a l ih =>
    simp only [List.flatMap_cons]
    rw [h a List.mem_cons_self, ih (fun x hx => h x (List.mem_cons_of_mem _ hx))]

theorem gemm_flatMap_range_length {α : Type} (n L : Nat) (f : Nat → List α)
    (hf : ∀ b, b < n → (f b).length = L) : ((List.range n).flatMap f).length = n * L := by
  induction n with
  | zero => simp
  | succ n ih =>
    rw [List.range_succ, List.flatMap_append, List.length_append,
      ih (fun b hb => hf b (by omega))]
    simp only [List.flatMap_cons, List.flatMap_nil, List.append_nil, hf n (by omega)]
    rw [Nat.add_mul, Nat.one_mul]

/-- blocks of constant length `L`: block `b`, offset `p` -/
theorem gemm_flatMap_range_getD (n L : Nat) (f : Nat → List Nat)
    (hf : ∀ b, b < n → (f b).length = L) (b p : Nat) (hb : b < n) (hp : p < L) :
    ((List.range n).flatMap f).getD (b * L + p) 0 = (f b).getD p 0 := by
  induction n with
  | zero => omega
  | succ n ih =>
    have hl := gemm_flatMap_range_length n L f (fun b hb => hf b (by omega))
    rw [List.range_succ, List.flatMap_append]
    simp only [List.flatMap_cons, List.flatMap_nil, List.append_nil, List.getD_eq_getElem?_getD]
    simp only [List.getD_eq_getElem?_getD] at ih
    by_cases hbn : b = n
    · subst hbn
      rw [List.getElem?_append_right (by rw [hl]; omega), hl]
      congr 2; omega
    · have hb' : b < n := by omega
      have h1 : (b + 1) * L ≤ n * L := Nat.mul_le_mul_right L hb'
      rw [Nat.add_mul, Nat.one_mul] at h1
      rw [List.getElem?_append_left (by rw [hl]; omega)]
      exact ih (fun b hb => hf b (by omega)) hb'

theorem gemm_slice_length (l : List Nat) (a n : Nat) (h : a + n ≤ l.length) :
    (slice l a n).length = n := by
  simp only [slice, List.length_take, List.length_drop]; omega

/-- two row slices zipped = the list of pairs read by position -/
theorem zip_slice_eq (e0 e1 : List Nat) (a b K : Nat) (ha : a + K ≤ e0.length)
    (hb : b + K ≤ e1.length) :
    (slice e0 a K).zip (slice e1 b K)
      = (List.range K).map fun k => (e0.getD (a + k) 0, e1.getD (b + k) 0) := by
  apply List.ext_getElem
  · simp only [List.length_zip, gemm_slice_length _ _ _ ha, gemm_slice_length _ _ _ hb,
      List.length_map, List.length_range, Nat.min_self]
  · intro k h1 h2
    simp only [List.length_map, List.length_range] at h2
    simp only [List.getElem_zip, List.getElem_map, List.getElem_range, slice, List.getElem_take,
      List.getElem_drop, List.getD_eq_getElem?_getD]
    rw [List.getElem?_eq_getElem (by omega), List.getElem?_eq_getElem (by omega)]
    rfl

/-! ### `general_gemm` -/

theorem gemm_getD_last2 (b : List Nat) (P Q : Nat) :
    (b ++ [P, Q]).getD ((b ++ [P, Q]).length - 1) 0 = Q ∧
      (b ++ [P, Q]).getD ((b ++ [P, Q]).length - 2) 0 = P := by
  have h1 : (b ++ [P, Q]).length - 1 = b.length + 1 := by
    simp only [List.length_append, List.length_cons, List.length_nil]; omega
  have h2 : (b ++ [P, Q]).length - 2 = b.length := by
    simp only [List.length_append, List.length_cons, List.length_nil]; omega
  rw [h1, h2]
  simp [List.getD_eq_getElem?_getD]

/-- number of steps of `(0..P*L).step_by(L)` -/
theorem gemm_count (P L : Nat) (hL : 0 < L) : (P * L + L - 1) / L = P := by
  have h : P * L + L - 1 = L * P + (L - 1) := by rw [Nat.mul_comm]; omega
  rw [h, Nat.mul_add_div hL, Nat.div_eq_of_lt (by omega)]
  rfl

/-- start position of the operand matrix (shape `ba ++ [P, K]`) for the result matrix number
    `flat β br` (result shape `br ++ [N, M]`) -/
theorem gemm_block_start (ba br β : List Nat) (N M P K : Nat) (ha : bcOK ba br) (hβ : validIdx β br)
    (hN : 0 < N) (hM : 0 < M) :
    indexToNumber ((numberToIndex (flat β br * (N * M)) (br ++ [N, M])).drop
        ((br ++ [N, M]).length - (ba ++ [P, K]).length)) (ba ++ [P, K])
      = flat (bcIdx ba β) ba * (P * K) := by
  have hv : validIdx (β ++ [0, 0]) (br ++ [N, M]) := validIdx_append hβ (validIdx_pair hN hM)
  have hf : flat (β ++ [0, 0]) (br ++ [N, M]) = flat β br * (N * M) := by
    rw [flat_append (validIdx_length hβ)]; simp [flat, prod]
  rw [← hf, numberToIndex_flat hv]
  have hla := ha.1
  have e1 : (br ++ [N, M]).length - (ba ++ [P, K]).length = br.length - ba.length := by
    simp only [List.length_append, List.length_cons, List.length_nil]; omega
  have hl : (β.drop (br.length - ba.length)).length = ba.length := by
    rw [List.length_drop, validIdx_length hβ]; omega
  rw [e1, List.drop_append_of_le_length (by rw [validIdx_length hβ]; omega),
    indexToNumber_append _ _ _ _ hl, (broadcast_index_law ha hβ).1]
  simp [indexToNumber, i2nAux, prod]

theorem gemm_block_le (f P i N K : Nat) (hf : f < P) (hi : i < N) :
    f * (N * K) + i * K + K ≤ P * (N * K) := by
  have h1 : (i + 1) * K ≤ N * K := Nat.mul_le_mul_right K hi
  have h2 : (f + 1) * (N * K) ≤ P * (N * K) := Nat.mul_le_mul_right _ hf
  rw [Nat.add_mul, Nat.one_mul] at h1 h2
  omega

/-- entry `(β, i, j)` of the result of `general_gemm` -/
def gemmEntry (st : ST) (e0 e1 ba bb : List Nat) (N K M : Nat) (β : List Nat) (i j : Nat) : Nat :=
  dotFold addU128 mulU128 (modulus st)
    ((List.range K).map fun k => (e0.getD (flat (bcIdx ba β ++ [i, k]) (ba ++ [N, K])) 0,
                                  e1.getD (flat (bcIdx bb β ++ [j, k]) (bb ++ [M, K])) 0))

theorem gemm_prod2 (b : List Nat) (P Q : Nat) : prod (b ++ [P, Q]) = prod b * (P * Q) := by
  rw [prod_append]; simp [prod]

theorem gemm_flat2 (γ b : List Nat) (h : γ.length = b.length) (i k P Q : Nat) :
    flat (γ ++ [i, k]) (b ++ [P, Q]) = flat γ b * (P * Q) + i * Q + k := by
  rw [flat_append h]; simp [flat, prod, Nat.add_assoc]

theorem gemm_entry_ok (st : ST) (ba bb br e0 e1 : List Nat) (N K M : Nat)
    (ha : bcOK ba br) (hb : bcOK bb br)
    (h0 : e0.length = prod (ba ++ [N, K])) (h1 : e1.length = prod (bb ++ [M, K]))
    (β : List Nat) (i j : Nat) (hβ : validIdx β br) (hi : i < N) (hj : j < M) :
    dotU128 (slice e0 (flat (bcIdx ba β) ba * (N * K) + i * K) K)
        (slice e1 (flat (bcIdx bb β) bb * (M * K) + j * K) K) (modulus st)
      = .ok (gemmEntry st e0 e1 ba bb N K M β i j) := by
  have va := (broadcast_index_law ha hβ).2
  have vb := (broadcast_index_law hb hβ).2
  have la : flat (bcIdx ba β) ba * (N * K) + i * K + K ≤ e0.length := by
    rw [h0, gemm_prod2]; exact gemm_block_le _ _ _ _ _ (flat_lt va) hi
  have lb : flat (bcIdx bb β) bb * (M * K) + j * K + K ≤ e1.length := by
    rw [h1, gemm_prod2]; exact gemm_block_le _ _ _ _ _ (flat_lt vb) hj
  have hne : ¬ (slice e0 (flat (bcIdx ba β) ba * (N * K) + i * K) K).length
      ≠ (slice e1 (flat (bcIdx bb β) bb * (M * K) + j * K) K).length := by
    rw [gemm_slice_length _ _ _ la, gemm_slice_length _ _ _ lb]; simp
  simp only [dotU128, if_neg hne, gemmEntry]
  rw [zip_slice_eq _ _ _ _ _ la lb]
  congr 2
  apply List.map_congr_left
  intro k _
  rw [gemm_flat2 _ _ (validIdx_length va), gemm_flat2 _ _ (validIdx_length vb)]

/-- one result matrix -/
theorem gemm_block (st : ST) (ba bb br e0 e1 : List Nat) (N K M : Nat)
    (ha : bcOK ba br) (hb : bcOK bb br) (hN : 0 < N) (hM : 0 < M)
    (h0 : e0.length = prod (ba ++ [N, K])) (h1 : e1.length = prod (bb ++ [M, K]))
    (β : List Nat) (hβ : validIdx β br) :
    ((List.range N).flatMap fun i => (List.range M).map fun j =>
      dotU128
        (slice e0 (indexToNumber ((numberToIndex (flat β br * (N * M)) (br ++ [N, M])).drop
          ((br ++ [N, M]).length - (ba ++ [N, K]).length)) (ba ++ [N, K]) + i * K) K)
        (slice e1 (indexToNumber ((numberToIndex (flat β br * (N * M)) (br ++ [N, M])).drop
          ((br ++ [N, M]).length - (bb ++ [M, K]).length)) (bb ++ [M, K]) + j * K) K) (modulus st))
      = ((List.range N).flatMap fun i => (List.range M).map fun j =>
          gemmEntry st e0 e1 ba bb N K M β i j).map Except.ok := by
  rw [gemm_block_start ba br β N M N K ha hβ hN hM, gemm_block_start bb br β N M M K hb hβ hN hM,
    List.map_flatMap]
  apply gemm_flatMap_congr
  intro i hi
  rw [List.map_map]
  apply List.map_congr_left
  intro j hj
  exact gemm_entry_ok st ba bb br e0 e1 N K M ha hb h0 h1 β i j hβ (List.mem_range.mp hi)
    (List.mem_range.mp hj)

theorem gemm_flatMap_map_ok (n c : Nat) (F : Nat → List (Except String Nat)) (G : Nat → List Nat)
    (h : ∀ b, b < n → F (b * c) = (G b).map Except.ok) :
    ((List.range n).map (· * c)).flatMap F = ((List.range n).flatMap G).map Except.ok := by
  rw [List.flatMap_map, List.map_flatMap]
  apply gemm_flatMap_congr
  intro b hb
  exact h b (List.mem_range.mp hb)

/-- general_gemm: operands `A : ba ++ [N, K]`, `B : bb ++ [M, K]` (already in "row·row" form),
    result `br ++ [N, M]` -/
theorem generalGemm_spec (st : ST) (ba bb br e0 e1 : List Nat) (N K M : Nat)
    (ha : bcOK ba br) (hb' : bcOK bb br) (hN : 0 < N) (hM : 0 < M) (hpos : pos br)
    (h0 : e0.length = prod (ba ++ [N, K])) (h1 : e1.length = prod (bb ++ [M, K]))
    (β : List Nat) (i j : Nat) (hβ : validIdx β br) (hi : i < N) (hj : j < M) :
    ∃ r, generalGemm st e0 (ba ++ [N, K]) e1 (bb ++ [M, K]) (br ++ [N, M]) = .ok r ∧
      r.length = prod (br ++ [N, M]) ∧
      r.getD (flat (β ++ [i, j]) (br ++ [N, M])) 0
        = dotFold addU128 mulU128 (modulus st)
            ((List.range K).map fun k => (e0.getD (flat (bcIdx ba β ++ [i, k]) (ba ++ [N, K])) 0,
                                          e1.getD (flat (bcIdx bb β ++ [j, k]) (bb ++ [M, K])) 0)) := by
  have hNM : 0 < N * M := Nat.mul_pos hN hM
  obtain ⟨hq0, hn0⟩ := gemm_getD_last2 ba N K
  obtain ⟨hq1, hn1⟩ := gemm_getD_last2 bb M K
  have hres := gemm_prod2 br N M
  have hrow : ∀ (b i : Nat), ((List.range M).map fun j =>
      gemmEntry st e0 e1 ba bb N K M (numberToIndex b br) i j).length = M := by
    intro b i; simp only [List.length_map, List.length_range]
  have hblk : ∀ b, ((List.range N).flatMap fun i => (List.range M).map fun j =>
      gemmEntry st e0 e1 ba bb N K M (numberToIndex b br) i j).length = N * M :=
    fun b => gemm_flatMap_range_length N M _ (fun i _ => hrow b i)
  refine ⟨(List.range (prod br)).flatMap fun b => (List.range N).flatMap fun i =>
    (List.range M).map fun j => gemmEntry st e0 e1 ba bb N K M (numberToIndex b br) i j, ?_, ?_, ?_⟩
  · apply mapM_id_ok'
    simp only [hq1, hn0, hn1, hres, gemm_count _ _ hNM]
    apply gemm_flatMap_map_ok
    intro b hb
    have hv := numberToIndex_valid hpos hb
    have key := gemm_block st ba bb br e0 e1 N K M ha hb' hN hM h0 h1 (numberToIndex b br) hv
    rw [flat_numberToIndex hpos hb] at key
    exact key
  · rw [hres]
    exact gemm_flatMap_range_length _ _ _ (fun b _ => hblk b)
  · have hp : i * M + j < N * M := by
      have h : (i + 1) * M ≤ N * M := Nat.mul_le_mul_right M hi
      rw [Nat.add_mul, Nat.one_mul] at h
      omega
    rw [gemm_flat2 _ _ (validIdx_length hβ), Nat.add_assoc,
      gemm_flatMap_range_getD _ _ _ (fun b _ => hblk b) _ _ (flat_lt hβ) hp,
      numberToIndex_flat hβ,
      gemm_flatMap_range_getD _ _ _
        (fun i _ => by simp only [List.length_map, List.length_range]) _ _ hi hj,
      getD_map_range _ _ _ hj]
    rfl

example : generalGemm .u8 [1, 2, 3, 4] [2, 2] [5, 6, 7, 8] [2, 2] [2, 2] = .ok [17, 23, 39, 53] := by rfl

/-! ### `evaluate_transpose_array` -/

theorem transposeShape_last2 (b : List Nat) (P Q : Nat) :
    transposeShape (b ++ [P, Q]) true = b ++ [Q, P] := by
  obtain ⟨h1, h2⟩ := gemm_getD_last2 b P Q
  have hl : (b ++ [P, Q]).length - 2 = b.length := by
    simp only [List.length_append, List.length_cons, List.length_nil]; omega
  have hlt : 1 < (b ++ [P, Q]).length := by
    simp only [List.length_append, List.length_cons, List.length_nil]; omega
  simp only [transposeShape, hlt, and_self, if_true, h1, h2]
  rw [hl, List.take_left]

theorem transposeShape_false (s : List Nat) : transposeShape s false = s := by
  simp [transposeShape]

theorem transposePermutation_add2 (n : Nat) :
    transposePermutation (n + 2) = List.range n ++ [n + 1, n] := by
  have h : ¬ n + 2 = 1 := by omega
  simp only [transposePermutation, if_neg h, Nat.add_sub_cancel]
  rfl

theorem gemm_swap_map (c : List Nat) (x y : Nat) :
    ((List.range c.length ++ [c.length + 1, c.length]).map fun j => (c ++ [x, y]).getD j 0)
      = c ++ [y, x] := by
  have h : ((List.range c.length).map fun j => (c ++ [x, y]).getD j 0) = c := by
    apply List.ext_getElem
    · simp
    · intro i h1 h2
      simp [List.getD_eq_getElem?_getD, List.getElem?_append_left h2, List.getElem?_eq_getElem h2]
  rw [List.map_append, h]
  simp [List.getD_eq_getElem?_getD]

theorem transposeArray_length (values shape : List Nat) :
    (transposeArray values shape).length = values.length := by
  simp only [transposeArray, permuteAxes]
  rw [foldl_set_length]
  simp

/-- transposing the last two axes: `T[β ++ [j, i]] = A[β ++ [i, j]]` -/
theorem transposeArray_spec (values b : List Nat) (P Q : Nat)
    (hlen : values.length = prod (b ++ [P, Q])) (hpos : pos (b ++ [P, Q]))
    (β : List Nat) (i j : Nat) (hβ : validIdx β b) (hi : i < P) (hj : j < Q) :
    (transposeArray values (b ++ [P, Q])).getD (flat (β ++ [j, i]) (b ++ [Q, P])) 0
      = values.getD (flat (β ++ [i, j]) (b ++ [P, Q])) 0 := by
  have hlβ := validIdx_length hβ
  have hlen2 : (b ++ [Q, P]).length = b.length + 2 := by
    simp only [List.length_append, List.length_cons, List.length_nil]
  have hpl : (List.range b.length ++ [b.length + 1, b.length]).length = (b ++ [P, Q]).length := by
    simp only [List.length_append, List.length_cons, List.length_nil, List.length_range]
  have hnd : (List.range b.length ++ [b.length + 1, b.length]).Nodup := by
    rw [List.nodup_append]
    refine ⟨List.nodup_range, by simp, ?_⟩
    intro a ha c hc
    simp only [List.mem_range] at ha
    simp only [List.mem_cons, List.not_mem_nil, or_false] at hc
    omega
  have hlt : ∀ k ∈ List.range b.length ++ [b.length + 1, b.length], k < (b ++ [P, Q]).length := by
    intro k hk
    simp only [List.mem_append, List.mem_range, List.mem_cons, List.not_mem_nil, or_false] at hk
    simp only [List.length_append, List.length_cons, List.length_nil]
    omega
  have key := permuteAxes_spec values (b ++ [P, Q]) _ hlen hpos hpl hnd hlt (β ++ [i, j])
    (validIdx_append hβ (validIdx_pair hi hj))
  simp only [Spec.ofFlat] at key
  rw [gemm_swap_map b P Q] at key
  rw [← hlβ, gemm_swap_map β i j, hlβ] at key
  simp only [transposeArray]
  rw [transposeShape_last2, hlen2, transposePermutation_add2]
  exact key

example : transposeArray [1, 2, 3, 4, 5, 6, 7, 8, 9, 10, 11, 12] [2, 2, 3]
    = [1, 4, 2, 5, 3, 6, 7, 10, 8, 11, 9, 12] := by decide

/-! ### `evaluate_gemm` -/

theorem gemm_getD_map_low (st : ST) (r : List Nat) (p : Nat) :
    (r.map (low st)).getD p 0 = low st (r.getD p 0) := by
  simp only [List.getD_eq_getElem?_getD, List.getElem?_map]
  cases r[p]? with
  | none => simp [low]
  | some v => simp

/-- preparation of one operand: stored with shape `b ++ [Q, P]` when the flag `t` is set (then it is
    transposed), else with shape `b ++ [P, Q]`; the prepared array has shape `b ++ [P, Q]` -/
theorem gemm_operand (st : ST) (t : Bool) (b xs : List Nat) (P Q : Nat)
    (hpos : pos b) (hP : 0 < P) (hQ : 0 < Q) (hx : xs.length = prod b * (P * Q)) :
    transposeShape (b ++ (if t then [Q, P] else [P, Q])) t = b ++ [P, Q] ∧
    (if t then transposeArray (xs.map (ext st)) (b ++ (if t then [Q, P] else [P, Q]))
      else xs.map (ext st)).length = prod (b ++ [P, Q]) ∧
    ∀ γ i k, validIdx γ b → i < P → k < Q →
      (if t then transposeArray (xs.map (ext st)) (b ++ (if t then [Q, P] else [P, Q]))
        else xs.map (ext st)).getD (flat (γ ++ [i, k]) (b ++ [P, Q])) 0
        = ext st (xs.getD (flat (γ ++ (if t then [k, i] else [i, k]))
            (b ++ (if t then [Q, P] else [P, Q]))) 0) := by
  cases t
  · simp only [Bool.false_eq_true, if_false]
    refine ⟨transposeShape_false _, by rw [List.length_map, hx, gemm_prod2], ?_⟩
    intro γ i k _ _ _
    exact getD_map_ext st xs _
  · simp only [if_true]
    have hl : (xs.map (ext st)).length = prod (b ++ [Q, P]) := by
      rw [List.length_map, hx, gemm_prod2, Nat.mul_comm Q P]
    have hp : pos (b ++ [Q, P]) := by
      intro d hd
      rcases List.mem_append.mp hd with h | h
      · exact hpos d h
      · simp only [List.mem_cons, List.not_mem_nil, or_false] at h
        rcases h with rfl | rfl <;> assumption
    refine ⟨transposeShape_last2 b Q P, ?_, ?_⟩
    · rw [transposeArray_length, List.length_map, hx, gemm_prod2]
    · intro γ i k hγ hi hk
      rw [transposeArray_spec (xs.map (ext st)) b Q P hl hp γ k i hγ hk hi, getD_map_ext]

/-- Gemm with transposition flags, broadcast batch dimensions, all scalar types:
    `R[β,i,j] = Σ_k A'[bc β, i, k] · B'[bc β, k, j]` mod 2^w, where `A'`/`B'` are the operands with the
    last two axes swapped when the flag is set. -/
theorem gemm_spec (st : ST) (t0 t1 : Bool) (ba bb br xs ys : List Nat) (N K M : Nat)
    (ha : bcOK ba br) (hb : bcOK bb br) (hN : 0 < N) (hK : 0 < K) (hM : 0 < M)
    (hpa : pos ba) (hpb : pos bb) (hpr : pos br)
    (hx : xs.length = prod ba * (N * K)) (hy : ys.length = prod bb * (K * M))
    (β : List Nat) (i j : Nat) (hβ : validIdx β br) (hi : i < N) (hj : j < M) :
    ∃ r, gemm st t0 t1 (ba ++ (if t0 then [K, N] else [N, K])) xs
        (bb ++ (if t1 then [M, K] else [K, M])) ys (br ++ [N, M]) = .ok r ∧
      r.getD (flat (β ++ [i, j]) (br ++ [N, M])) 0
        = st.ofInt (Spec.sumTo K fun k =>
            st.toInt (Spec.ofFlat (ba ++ (if t0 then [K, N] else [N, K])) xs
              (bcIdx ba β ++ (if t0 then [k, i] else [i, k]))) *
            st.toInt (Spec.ofFlat (bb ++ (if t1 then [M, K] else [K, M])) ys
              (bcIdx bb β ++ (if t1 then [j, k] else [k, j])))) := by
  have va := (broadcast_index_law ha hβ).2
  have vb := (broadcast_index_law hb hβ).2
  have hy' : ys.length = prod bb * (M * K) := by rw [hy, Nat.mul_comm K M]
  obtain ⟨sA, lA, gA⟩ := gemm_operand st t0 ba xs N K hpa hN hK hx
  obtain ⟨sB, lB, gB⟩ := gemm_operand st (!t1) bb ys M K hpb hM hK hy'
  have eB : (if (!t1) = true then [K, M] else [M, K]) = (if t1 = true then [M, K] else [K, M]) := by
    cases t1 <;> rfl
  rw [eB] at sB lB gB
  obtain ⟨r, hr, _, hget⟩ := generalGemm_spec st ba bb br _ _ N K M ha hb hN hM hpr lA lB β i j hβ hi hj
  refine ⟨r.map (low st), ?_, ?_⟩
  · simp only [gemm]
    rw [sA, sB, hr]
  · rw [gemm_getD_map_low, hget]
    have hps : ((List.range K).map fun k =>
        ((if t0 = true then transposeArray (xs.map (ext st)) (ba ++ (if t0 = true then [K, N] else [N, K]))
            else xs.map (ext st)).getD (flat (bcIdx ba β ++ [i, k]) (ba ++ [N, K])) 0,
         (if (!t1) = true then transposeArray (ys.map (ext st)) (bb ++ (if t1 = true then [M, K] else [K, M]))
            else ys.map (ext st)).getD (flat (bcIdx bb β ++ [j, k]) (bb ++ [M, K])) 0))
        = ((List.range K).map fun k =>
            (xs.getD (flat (bcIdx ba β ++ (if t0 = true then [k, i] else [i, k]))
                (ba ++ (if t0 = true then [K, N] else [N, K]))) 0,
             ys.getD (flat (bcIdx bb β ++ (if (!t1) = true then [k, j] else [j, k]))
                (bb ++ (if t1 = true then [M, K] else [K, M]))) 0)).map
            fun p => (ext st p.1, ext st p.2) := by
      rw [List.map_map]
      apply List.map_congr_left
      intro k hk
      have hk := List.mem_range.mp hk
      simp only [Function.comp]
      rw [gA _ _ _ va hi hk, gB _ _ _ vb hj hk]
    rw [hps, dotFold_spec, List.map_map]
    cases t1 <;> rfl

/-- u8, no transposition of the data (`t1 = true`: `B` is given as `M×K`): `A·Bᵀ` -/
example : gemm .u8 false true [2, 2] [1, 2, 3, 4] [2, 2] [5, 6, 7, 8] [2, 2] = .ok [17, 23, 39, 53] := by rfl
/-- i8, `t0 = true` (`A` stored as `K×N` = 2×2, one batch of size 1 broadcast against 2),
    `t1 = false` (`B` stored as `K×M` = 2×1, batch 2): `R[b] = Aᵀ · B[b]` -/
example : gemm .i8 true false [1, 2, 2] [1, 2, 255, 3] [2, 2, 1] [5, 254, 1, 1] [2, 2, 1]
    = .ok [7, 4, 0, 5] := by rfl

end CCV.Ops
