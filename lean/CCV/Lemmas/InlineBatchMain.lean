import CCV.Lemmas.InlineBatch
import CCV.Lemmas.InlineBatchElem
import CCV.Lemmas.InlineBatchLayout
import CCV.Lemmas.OpsStruct
/-
  C07, batched small-state inliner: assembly.  The elementwise facts (`maskToValue_spec`,
  `oneHotEncode_spec`: Lemmas/InlineBatchElem.lean) and the layout facts (`stackMappings_spec`,
  `permuteInitial_spec`, `masksArr_spec`: Lemmas/InlineBatchLayout.lean) are combined with the
  matrix-product half (Lemmas/InlineBatch.lean) into `iterSmallB_eq_ref`.
-/
namespace CCV.InlineBatch
open CCV CCV.Shape CCV.Ops CCV.Inline

/-- the contract of the small-state strategy (exponential_inliner.rs, doc comment of
    `inline_iterate_small_state`): the body maps BIT arrays of the state shape to BIT arrays of the
    state shape, and row `β` of the new state depends only on row `β` of the old state (and on the
    input): `g β` is the transition function of row `β` on masks. -/
structure RowWise {I : Type} (B : List Nat) (K : Nat) (G : List Nat → I → List Nat)
    (g : List Nat → Nat → I → Nat) : Prop where
  wf : ∀ S x, WF (B ++ [K]) S → WF (B ++ [K]) (G S x)
  row : ∀ S x β, WF (B ++ [K]) S → validIdx β B → rowNat B K (G S x) β = g β (rowNat B K S β) x

/-- transition matrix of row `β` for input `x`, `false` outside `D × D` -/
def Fm {I : Type} (K : Nat) (gβ : Nat → I → Nat) (x : I) : Mat :=
  fun i j => decide (i < 2 ^ K) && decide (j < 2 ^ K) && (gβ i x == j)

theorem getD_eq_get {α : Type} (l : List α) (d : α) (i : Nat) (h : i < l.length) : l.getD i d = l[i] := by
  simp [List.getD_eq_getElem?_getD, h]

theorem toNat_beq_one (b : Bool) : (b.toNat == 1) = b := by cases b <;> rfl

theorem maskToValue_WF (B : List Nat) (K m : Nat) (hB : pos B) (hK : 1 ≤ K) :
    WF (B ++ [K]) (maskToValue (B ++ [K]) K m) :=
  ⟨(maskToValue_spec B K m hB hK).1, (maskToValue_spec B K m hB hK).2.1⟩

theorem rowNat_mask (B : List Nat) (K m : Nat) (hB : pos B) (hK : 1 ≤ K) (hm : m < 2 ^ K)
    (β : List Nat) (hβ : validIdx β B) : rowNat B K (maskToValue (B ++ [K]) K m) β = m := by
  unfold rowNat
  rw [natOfBits_congr K _ (fun k => m.testBit k) (fun k hk => by
    rw [(maskToValue_spec B K m hB hK).2.2 β k hβ hk, toNat_beq_one])]
  exact natOfBits_testBit K m hm

theorem rowNat_lt (B : List Nat) (K : Nat) (S β : List Nat) : rowNat B K S β < 2 ^ K := natOfBits_lt K _

theorem g_closed {I : Type} {B : List Nat} {K : Nat} {G : List Nat → I → List Nat} {g : List Nat → Nat → I → Nat}
    (hG : RowWise B K G g) (hB : pos B) (hK : 1 ≤ K) (β : List Nat) (hβ : validIdx β B) (m : Nat) (x : I)
    (hm : m < 2 ^ K) : g β m x < 2 ^ K := by
  have := hG.row (maskToValue (B ++ [K]) K m) x β (maskToValue_WF B K m hB hK) hβ
  rw [rowNat_mask B K m hB hK hm β hβ] at this
  rw [← this]
  exact rowNat_lt _ _ _ _

theorem Rep_Fm {I : Type} (K : Nat) (gβ : Nat → I → Nat) (hg : ∀ st x, st < 2 ^ K → gβ st x < 2 ^ K) (x : I) :
    Rep (2 ^ K) (Fm K gβ x) (fun st => gβ st x) := by
  intro i hi j
  simp only [Fm, hi, decide_true, Bool.true_and]
  by_cases hj : j < 2 ^ K
  · simp [hj]
  · have := hg i x hi
    have hne : ¬ (gβ i x = j) := by omega
    simp [hj, hne]

theorem maskConstants_length (B : List Nat) (K : Nat) : (maskConstants B K).length = 2 ^ K := by
  simp [maskConstants]

theorem maskConstants_getD (B : List Nat) (K m : Nat) (hm : m < 2 ^ K) :
    (maskConstants B K).getD m [] = maskToValue (B ++ [K]) K m := by
  simp [maskConstants, List.getD_eq_getElem?_getD, hm]

/-- `create_mappings`: the block of row `β` of the mapping of step `i` is the transition matrix of
    row `β` for input `i` -/
theorem createMappings_rowMat {I : Type} (B : List Nat) (K : Nat) (G : List Nat → I → List Nat)
    (g : List Nat → Nat → I → Nat) (hG : RowWise B K G g) (hB : pos B) (hK : 1 ≤ K) (xs : List I)
    (β : List Nat) (hβ : validIdx β B) :
    (createMappings B K G xs).map (rowMat B (2 ^ K) β) = xs.map (Fm K (g β)) := by
  have hwfG : ∀ mc ∈ maskConstants B K, ∀ x, WF (B ++ [K]) (G mc x) := by
    intro mc hmc x
    simp only [maskConstants, List.mem_map, List.mem_range] at hmc
    obtain ⟨m, _, rfl⟩ := hmc
    exact hG.wf _ x (maskToValue_WF B K m hB hK)
  have hrow : ∀ row ∈ (xs.map fun x => (maskConstants B K).map fun mc => oneHotEncode B K (G mc x)),
      row.length = 2 ^ K ∧ ∀ oh ∈ row, oh.length = 2 ^ K * prod B := by
    intro row hr
    simp only [List.mem_map] at hr
    obtain ⟨x, _, rfl⟩ := hr
    refine ⟨by simp [maskConstants_length], ?_⟩
    intro oh hoh
    simp only [List.mem_map] at hoh
    obtain ⟨mc, hmc, rfl⟩ := hoh
    exact (oneHotEncode_spec B K _ hB hK (hwfG mc hmc x)).1
  have hP := stackMappings_spec B K _ hB hrow
  unfold createMappings
  apply List.ext_getElem
  · simp only [List.length_map]; rw [hP.1]; simp
  · intro i h1 h2
    simp only [List.length_map] at h2
    simp only [List.getElem_map]
    have hi : i < (xs.map fun x => (maskConstants B K).map fun mc => oneHotEncode B K (G mc x)).length := by
      simpa using h2
    have hPi := (hP.2 i hi).2
    rw [← getD_eq_get _ [] _ (by simpa using h1)]
    funext a b
    simp only [rowMat, Fm]
    by_cases ha : a < 2 ^ K
    · by_cases hb : b < 2 ^ K
      · simp only [ha, hb, decide_true, Bool.true_and]
        rw [hPi β a b hβ ha hb]
        have e1 : (xs.map fun x => (maskConstants B K).map fun mc => oneHotEncode B K (G mc x)).getD i []
            = (maskConstants B K).map fun mc => oneHotEncode B K (G mc xs[i]) := by
          rw [getD_eq_get _ [] _ hi, List.getElem_map]
        have e2 : ((maskConstants B K).map fun mc => oneHotEncode B K (G mc xs[i])).getD a []
            = oneHotEncode B K (G (maskToValue (B ++ [K]) K a) xs[i]) := by
          have hl : a < ((maskConstants B K).map fun mc => oneHotEncode B K (G mc xs[i])).length := by
            simp [maskConstants_length, ha]
          rw [getD_eq_get _ [] _ hl, List.getElem_map]
          congr 2
          have := maskConstants_getD B K a ha
          rw [getD_eq_get _ [] _ (by rw [maskConstants_length]; exact ha)] at this
          exact this
        rw [e1, e2]
        have hwf := hG.wf _ xs[i] (maskToValue_WF B K a hB hK)
        rw [(oneHotEncode_spec B K _ hB hK hwf).2.2 b β hb hβ, toNat_mod_two_beq,
          hG.row _ xs[i] β (maskToValue_WF B K a hB hK) hβ, rowNat_mask B K a hB hK ha β hβ]
      · simp [hb]
    · simp [ha]

theorem extractS_foldl_gen {I : Type} (K : Nat) (F : I → Mat) (gβ : Nat → I → Nat)
    (hF : ∀ x, Rep (2 ^ K) (F x) (fun st => gβ st x)) (hg : ∀ st x, st < 2 ^ K → gβ st x < 2 ^ K)
    (s : Nat) (hs : s < 2 ^ K) : ∀ (xs : List I) (M : Mat) (p : Nat → Nat), Rep (2 ^ K) M p →
    (∀ i, i < 2 ^ K → p i < 2 ^ K) →
    extractS K s ((xs.map F).foldl (matMul (2 ^ K)) M) = xs.foldl gβ (p s)
  | [], M, p, hM, hp => by simpa using extractS_Rep K M p s hM hs (hp s hs)
  | x :: xs, M, p, hM, hp => by
    simp only [List.map_cons, List.foldl_cons]
    exact extractS_foldl_gen K F gβ hF hg s hs xs _ (fun i => gβ (p i) x)
      (Rep_mul _ M (F x) p _ hM (hF x) hp) (fun i hi => hg _ x (hp i hi))

theorem extractS_scanAux_gen {I : Type} (K : Nat) (F : I → Mat) (gβ : Nat → I → Nat)
    (hF : ∀ x, Rep (2 ^ K) (F x) (fun st => gβ st x)) (hg : ∀ st x, st < 2 ^ K → gβ st x < 2 ^ K)
    (s : Nat) (hs : s < 2 ^ K) : ∀ (xs : List I) (M : Mat) (p : Nat → Nat), Rep (2 ^ K) M p →
    (∀ i, i < 2 ^ K → p i < 2 ^ K) →
    (scanAux (matMul (2 ^ K)) M (xs.map F)).map (extractS K s) = stepScan gβ (p s) xs
  | [], _, _, _, _ => rfl
  | x :: xs, M, p, hM, hp => by
    have hM' := Rep_mul _ M (F x) p _ hM (hF x) hp
    have hp' : ∀ i, i < 2 ^ K → gβ (p i) x < 2 ^ K := fun i hi => hg _ x (hp i hi)
    simp only [List.map_cons, scanAux, stepScan]
    rw [extractS_scanAux_gen K F gβ hF hg s hs xs _ (fun i => gβ (p i) x) hM' hp',
      extractS_Rep K _ (fun i => gβ (p i) x) s hM' hs (hp' s hs)]

/-- row `β` of `extract_state_from_mapping(mapping)` is `extractS` of the row's initial state and the
    row's block of the mapping -/
theorem rowNat_extractState (B : List Nat) (K : Nat) (hB : pos B) (hK : 1 ≤ K) (s : List Nat)
    (hs : WF (B ++ [K]) s) (β : List Nat) (hβ : validIdx β B) (p : List Nat) :
    rowNat B K (extractState B K (permuteInitial B K (oneHotEncode B K s)) (masksArr B K) p) β
      = extractS K (rowNat B K s β) (rowMat B (2 ^ K) β p) := by
  have hE := oneHotEncode_spec B K s hB hK hs
  have hP2 := permuteInitial_spec B K _ hB hE.1
  have hP3 := masksArr_spec B K hB hK (by
    intro mc hmc
    simp only [maskConstants, List.mem_map, List.mem_range] at hmc
    obtain ⟨m, _, rfl⟩ := hmc
    exact (maskToValue_spec B K m hB hK).1)
  unfold rowNat extractS
  apply natOfBits_congr
  intro k hk
  rw [extractState_entry B K β hβ k hk _ _ p (by
    intro m hm
    rw [hP3.2 β m k hβ hm hk, maskConstants_getD B K m hm, (maskToValue_spec B K m hB hK).2.2 β k hβ hk]),
    toNat_beq_one]
  congr 1
  funext j
  simp only [vecMul]
  apply xsum_congr
  intro i hi
  congr 1
  rw [hP2.2 β i hβ hi, hE.2.2 i β hi hβ, toNat_mod_two_beq]
  rfl

theorem natOfBits_inj : ∀ (K : Nat) (f g : Nat → Bool), natOfBits K f = natOfBits K g →
    ∀ k, k < K → f k = g k
  | 0, _, _, _, _, hk => by omega
  | K + 1, f, g, h, k, hk => by
    simp only [natOfBits] at h
    have h0 : f 0 = g 0 := by
      rcases hf : f 0 with _ | _ <;> rcases hg : g 0 with _ | _ <;>
        simp only [hf, hg, Bool.toNat_false, Bool.toNat_true] at h <;>
        first | rfl | (exfalso; omega)
    have h1 : natOfBits K (fun b => f (b + 1)) = natOfBits K (fun b => g (b + 1)) := by
      rw [h0] at h; omega
    cases k with
    | zero => exact h0
    | succ k => exact natOfBits_inj K _ _ h1 k (by omega)

/-- two arrays of shape `B ++ [K]` with the same entries at all valid indices are equal -/
theorem flat_ext (B : List Nat) (K : Nat) (hB : pos B) (hK : 1 ≤ K) (X T : List Nat)
    (hlX : X.length = prod (B ++ [K])) (hlT : T.length = prod (B ++ [K]))
    (h : ∀ β k, validIdx β B → k < K →
      X.getD (flat (β ++ [k]) (B ++ [K])) 0 = T.getD (flat (β ++ [k]) (B ++ [K])) 0) : X = T := by
  have hpos : pos (B ++ [K]) := by
    intro d hd
    rcases List.mem_append.mp hd with h1 | h1
    · exact hB d h1
    · simp at h1; omega
  apply List.ext_getElem (by rw [hlX, hlT])
  intro n h1 h2
  have hn : n < prod (B ++ [K]) := by rw [← hlX]; exact h1
  have hv := numberToIndex_valid hpos hn
  have hf := flat_numberToIndex hpos hn
  have hlen := validIdx_length hv
  have hsplit : numberToIndex n (B ++ [K]) =
      (numberToIndex n (B ++ [K])).take B.length ++ (numberToIndex n (B ++ [K])).drop B.length :=
    (List.take_append_drop _ _).symm
  rw [hsplit] at hv
  have hinv := validIdx_append_inv (by simp [hlen]) hv
  generalize hβ : (numberToIndex n (B ++ [K])).take B.length = β at hsplit hinv
  generalize hκ : (numberToIndex n (B ++ [K])).drop B.length = κ at hsplit hinv
  match κ, hinv.2 with
  | [k], hk2 =>
    simp only [validIdx, and_true] at hk2
    have := h β k hinv.1 hk2
    rw [← hsplit, hf] at this
    rw [List.getD_eq_getElem?_getD, List.getD_eq_getElem?_getD, List.getElem?_eq_getElem h1,
      List.getElem?_eq_getElem h2] at this
    simpa using this
  | [], hk2 => simp [validIdx] at hk2
  | _ :: _ :: _, hk2 => simp [validIdx] at hk2

/-- the extracted array is the array `T` as soon as all its rows are the rows of `T` -/
theorem extractState_eq (B : List Nat) (K : Nat) (hB : pos B) (hK : 1 ≤ K) (s : List Nat)
    (hs : WF (B ++ [K]) s) (p T : List Nat) (hT : WF (B ++ [K]) T)
    (h : ∀ β, validIdx β B → extractS K (rowNat B K s β) (rowMat B (2 ^ K) β p) = rowNat B K T β) :
    extractState B K (permuteInitial B K (oneHotEncode B K s)) (masksArr B K) p = T := by
  apply flat_ext B K hB hK _ _ (extractState_length _ _ _ _ _) hT.1
  intro β k hβ hk
  have hr := rowNat_extractState B K hB hK s hs β hβ p
  rw [h β hβ] at hr
  have hbits := natOfBits_inj K _ _ hr k hk
  have hE := oneHotEncode_spec B K s hB hK hs
  have hP3 := masksArr_spec B K hB hK (by
    intro mc hmc
    simp only [maskConstants, List.mem_map, List.mem_range] at hmc
    obtain ⟨m, _, rfl⟩ := hmc
    exact (maskToValue_spec B K m hB hK).1)
  have hent := extractState_entry B K β hβ k hk (permuteInitial B K (oneHotEncode B K s)) (masksArr B K) p (by
    intro m hm
    rw [hP3.2 β m k hβ hm hk, maskConstants_getD B K m hm, (maskToValue_spec B K m hB hK).2.2 β k hβ hk])
  rw [hent] at hbits ⊢
  rw [toNat_beq_one] at hbits
  rw [hbits]
  have hlt := hT.2 (flat (β ++ [k]) (B ++ [K]))
  generalize T.getD (flat (β ++ [k]) (B ++ [K])) 0 = v at hlt ⊢
  have : v = 0 ∨ v = 1 := by omega
  rcases this with rfl | rfl <;> rfl

theorem zero_valid : ∀ (B : List Nat), pos B → validIdx (B.map fun _ => 0) B
  | [], _ => trivial
  | _ :: ds, h => ⟨(pos_cons h).1, zero_valid ds (pos_cons h).2⟩

/-- lists of mappings: extraction gives the list `Ts` as soon as it does so row by row -/
theorem map_extractState_eq (B : List Nat) (K : Nat) (hB : pos B) (hK : 1 ≤ K) (s : List Nat)
    (hs : WF (B ++ [K]) s) : ∀ (l Ts : List (List Nat)), (∀ T ∈ Ts, WF (B ++ [K]) T) →
    (∀ β, validIdx β B → l.map (fun p => extractS K (rowNat B K s β) (rowMat B (2 ^ K) β p))
      = Ts.map (fun T => rowNat B K T β)) →
    l.map (extractState B K (permuteInitial B K (oneHotEncode B K s)) (masksArr B K)) = Ts
  | [], [], _, _ => rfl
  | [], _ :: _, _, h => by have := h _ (zero_valid B hB); simp at this
  | _ :: _, [], _, h => by have := h _ (zero_valid B hB); simp at this
  | p :: l, T :: Ts, hT, h => by
    simp only [List.map_cons]
    rw [extractState_eq B K hB hK s hs p T (hT T (by simp)) (fun β hβ => by
      have := h β hβ; simp only [List.map_cons, List.cons.injEq] at this; exact this.1),
      map_extractState_eq B K hB hK s hs l Ts (fun T' hT' => hT T' (by simp [hT'])) (fun β hβ => by
      have := h β hβ; simp only [List.map_cons, List.cons.injEq] at this; exact this.2)]

/-! reference loop on the batched body, row by row -/

theorem foldl_WF {I : Type} {B : List Nat} {K : Nat} {G : List Nat → I → List Nat} {g : List Nat → Nat → I → Nat}
    (hG : RowWise B K G g) : ∀ (xs : List I) (s : List Nat), WF (B ++ [K]) s → WF (B ++ [K]) (xs.foldl G s)
  | [], _, hs => hs
  | x :: xs, s, hs => foldl_WF hG xs _ (hG.wf s x hs)

theorem foldl_rowNat {I : Type} {B : List Nat} {K : Nat} {G : List Nat → I → List Nat} {g : List Nat → Nat → I → Nat}
    (hG : RowWise B K G g) (β : List Nat) (hβ : validIdx β B) : ∀ (xs : List I) (s : List Nat), WF (B ++ [K]) s →
    rowNat B K (xs.foldl G s) β = xs.foldl (g β) (rowNat B K s β)
  | [], _, _ => rfl
  | x :: xs, s, hs => by
    simp only [List.foldl_cons]
    rw [foldl_rowNat hG β hβ xs _ (hG.wf s x hs), hG.row s x β hs hβ]

theorem stepScan_WF {I : Type} {B : List Nat} {K : Nat} {G : List Nat → I → List Nat} {g : List Nat → Nat → I → Nat}
    (hG : RowWise B K G g) : ∀ (xs : List I) (s : List Nat), WF (B ++ [K]) s →
    ∀ T ∈ stepScan G s xs, WF (B ++ [K]) T
  | [], _, _, _, h => by simp [stepScan] at h
  | x :: xs, s, hs, T, h => by
    simp only [stepScan, List.mem_cons] at h
    rcases h with rfl | h
    · exact hG.wf s x hs
    · exact stepScan_WF hG xs _ (hG.wf s x hs) T h

theorem stepScan_rowNat {I : Type} {B : List Nat} {K : Nat} {G : List Nat → I → List Nat} {g : List Nat → Nat → I → Nat}
    (hG : RowWise B K G g) (β : List Nat) (hβ : validIdx β B) : ∀ (xs : List I) (s : List Nat), WF (B ++ [K]) s →
    (stepScan G s xs).map (fun T => rowNat B K T β) = stepScan (g β) (rowNat B K s β) xs
  | [], _, _ => rfl
  | x :: xs, s, hs => by
    simp only [stepScan, List.map_cons]
    rw [stepScan_rowNat hG β hβ xs _ (hG.wf s x hs), hG.row s x β hs hβ]

theorem stepScan_getLast_cons {S I : Type} (step : S → I → S) : ∀ (xs : List I) (x : I) (s : S),
    (stepScan step s (x :: xs)).getLast? = some ((x :: xs).foldl step s)
  | [], _, _ => rfl
  | y :: ys, x, s => by
    have := stepScan_getLast_cons step ys y (step s x)
    simp only [stepScan, List.foldl_cons, List.getLast?_cons_cons] at this ⊢
    exact this

end CCV.InlineBatch

namespace CCV.InlineBatch
open CCV CCV.Shape CCV.Ops CCV.Inline

/-- **batched small-state inlining = reference loop on the batched body** -/
theorem iterSmallB_eq_ref {I O : Type} (B : List Nat) (K : Nat) (hB : pos B) (hK : 1 ≤ K)
    (G : List Nat → I → List Nat × O) (g : List Nat → Nat → I → Nat)
    (hG : RowWise B K (fun st x => (G st x).1) g) (level : Level) (emptyOut : Bool) (unit : O)
    (hu : emptyOut = true → ∀ o : O, o = unit) (s : List Nat) (hs : WF (B ++ [K]) s) (xs : List I) :
    iterSmallB level B K emptyOut unit G s xs = iterRef G s xs := by
  unfold iterSmallB
  cases xs with
  | nil => rfl
  | cons x t =>
    simp only [List.isEmpty_cons, Bool.false_eq_true, if_false]
    rw [iterRef_closed]
    have hms := fun β hβ => createMappings_rowMat B K (fun st x => (G st x).1) g hG hB hK (x :: t) β hβ
    have hg : ∀ β, validIdx β B → ∀ st x', st < 2 ^ K → g β st x' < 2 ^ K :=
      fun β hβ st x' hst => g_closed hG hB hK β hβ st x' hst
    have hRep := fun β hβ => Rep_Fm K (g β) (hg β hβ)
    have hhom := fun β hβ => (fun a b => combine_rowMat B K β hβ a b)
    generalize hms_def : createMappings B K (fun st x => (G st x).1) (x :: t) = ms at hms ⊢
    split
    · rename_i he
      have hp : ∀ β, validIdx β B → (logDepthSum (combine B K) ms).map (rowMat B (2 ^ K) β)
          = some ((t.map (Fm K (g β))).foldl (matMul (2 ^ K)) (Fm K (g β) x)) := by
        intro β hβ
        rw [← logDepthSum_map (rowMat B (2 ^ K) β) (combine B K) (matMul (2 ^ K)) (hhom β hβ), hms β hβ,
          logDepthSum_eq (matMul_assoc _)]
        rfl
      cases hL : logDepthSum (combine B K) ms with
      | none =>
        have := hp _ (zero_valid B hB)
        rw [hL] at this
        simp at this
      | some p =>
        simp only [Option.getD_some, List.foldl_cons]
        congr 1
        · apply extractState_eq B K hB hK s hs p _ (foldl_WF hG t _ (hG.wf s x hs))
          intro β hβ
          have hpβ := hp β hβ
          rw [hL] at hpβ
          simp only [Option.map_some, Option.some.injEq] at hpβ
          rw [hpβ, extractS_foldl_gen K (Fm K (g β)) (g β) (hRep β hβ) (hg β hβ) _ (rowNat_lt _ _ _ _) t _ _
            (hRep β hβ x) (fun i hi => hg β hβ i x hi),
            foldl_rowNat hG β hβ t _ (hG.wf s x hs), hG.row s x β hs hβ]
        · rw [all_unit_list unit (hu he) (List.map _ _), all_unit_list unit (hu he) (List.zipWith _ _ _)]
          simp [stepScan_length, List.replicate_succ]
    · generalize hps_def : pick level (x :: t).length (combine B K) ms = ps
      have hps : ∀ β, validIdx β B → ps.map (rowMat B (2 ^ K) β)
          = Fm K (g β) x :: scanAux (matMul (2 ^ K)) (Fm K (g β) x) (t.map (Fm K (g β))) := by
        intro β hβ
        rw [← hps_def, ← pick_map (rowMat B (2 ^ K) β) (combine B K) (matMul (2 ^ K)) (hhom β hβ), hms β hβ,
          pick_eq (matMul_assoc _)]
        rfl
      have hstates : ps.map (extractState B K (permuteInitial B K (oneHotEncode B K s)) (masksArr B K))
          = stepScan (fun a b => (G a b).1) s (x :: t) := by
        apply map_extractState_eq B K hB hK s hs _ _ (stepScan_WF hG (x :: t) s hs)
        intro β hβ
        rw [stepScan_rowNat hG β hβ (x :: t) s hs]
        have e : ps.map (fun p => extractS K (rowNat B K s β) (rowMat B (2 ^ K) β p))
            = (ps.map (rowMat B (2 ^ K) β)).map (extractS K (rowNat B K s β)) := by
          simp [List.map_map, Function.comp_def]
        rw [e, hps β hβ]
        simp only [List.map_cons, stepScan]
        rw [extractS_scanAux_gen K (Fm K (g β)) (g β) (hRep β hβ) (hg β hβ) _ (rowNat_lt _ _ _ _) t _ _
            (hRep β hβ x) (fun i hi => hg β hβ i x hi),
          extractS_Rep K _ _ _ (hRep β hβ x) (rowNat_lt _ _ _ _) (hg β hβ _ x (rowNat_lt _ _ _ _))]
      rw [hstates]
      congr 1
      have hl := congrArg List.getLast? hstates
      rw [List.getLast?_map, stepScan_getLast_cons] at hl
      cases hq : ps.getLast? with
      | none => rw [hq] at hl; simp at hl
      | some q =>
        rw [hq] at hl
        simp only [Option.map_some, Option.some.injEq] at hl
        simp only [Option.getD_some]
        exact hl

/-- row `β` of the batched reference loop is the reference loop of row `β` -/
theorem iterRef_row {I O : Type} (B : List Nat) (K : Nat) (G : List Nat → I → List Nat × O)
    (g : List Nat → Nat → I → Nat) (hG : RowWise B K (fun st x => (G st x).1) g) (unit : O)
    (s : List Nat) (hs : WF (B ++ [K]) s) (xs : List I) (β : List Nat) (hβ : validIdx β B) :
    rowNat B K (iterRef G s xs).1 β = (iterRef (fun st x => (g β st x, unit)) (rowNat B K s β) xs).1 := by
  rw [iterRef_closed, iterRef_closed]
  exact foldl_rowNat hG β hβ xs s hs

end CCV.InlineBatch
