import CCV.Model.Instantiate
/-!
  Theorems about the instantiation pass modelled in `CCV.Model.Instantiate` (Part 2):

  * `instantiate_total` (T1): the pass succeeds on a well-formed context whose custom operations lie
    in an instantiable, acyclic, injectively named set, given enough fuel;
  * `instantiate_replaces` (T2): in the result every custom node is a `Call` of the graph cached for
    exactly its `(operation, types)`, and that graph carries the instantiation's name;
  * `instantiate_names_nodup` (T3): the graph names of the result are pairwise distinct;
  * `instantiate_eval` (T4): the result context computes the same function as the source context
    with custom nodes evaluated by the library's definition.

  Each theorem is followed by a non-vacuity example on a small concrete library (`exLib`).
-/
namespace CCV.Instantiate
variable {Op Ty P : Type} [DecidableEq Op] [DecidableEq Ty]
set_option linter.unusedSectionVars false

/-! ### generic `mapM` on `Except` -/

theorem mapM_except_nil {ε α β : Type} (f : α → Except ε β) : List.mapM f [] = .ok [] := by
  simp [pure, Except.pure]

theorem mapM_except_cons {ε α β : Type} (f : α → Except ε β) (a : α) (l : List α) :
    List.mapM f (a :: l) =
      match f a with
      | .error e => .error e
      | .ok b => match List.mapM f l with
        | .error e => .error e
        | .ok bs => .ok (b :: bs) := by
  rw [List.mapM_cons]
  cases f a with
  | error e => rfl
  | ok b =>
    cases List.mapM f l with
    | error e => rfl
    | ok bs => rfl

/-- inversion of a successful `mapM` -/
theorem mapM_except_ok {ε α β : Type} (f : α → Except ε β) :
    ∀ (l : List α) (l' : List β), List.mapM f l = .ok l' →
      l'.length = l.length ∧ ∀ (n : Nat) a, l[n]? = some a → ∃ b, l'[n]? = some b ∧ f a = .ok b := by
  intro l
  induction l with
  | nil =>
    intro l' h
    rw [mapM_except_nil] at h
    cases h
    simp
  | cons a l ih =>
    intro l' h
    rw [mapM_except_cons] at h
    split at h
    · cases h
    · rename_i b hb
      split at h
      · cases h
      · rename_i bs hbs
        cases h
        obtain ⟨hl, hn⟩ := ih bs hbs
        refine ⟨by simp [hl], ?_⟩
        intro n x hx
        cases n with
        | zero => simp at hx; subst hx; exact ⟨b, by simp, hb⟩
        | succ n => simp at hx; simpa using hn n x hx

/-- a `mapM` all of whose steps succeed succeeds -/
theorem mapM_except_total {ε α β : Type} (f : α → Except ε β) :
    ∀ (l : List α), (∀ a ∈ l, ∃ b, f a = .ok b) → ∃ l', List.mapM f l = .ok l' := by
  intro l
  induction l with
  | nil => intro _; exact ⟨[], mapM_except_nil f⟩
  | cons a l ih =>
    intro h
    obtain ⟨b, hb⟩ := h a (by simp)
    obtain ⟨bs, hbs⟩ := ih (fun x hx => h x (by simp [hx]))
    exact ⟨b :: bs, by rw [mapM_except_cons, hb, hbs]⟩

theorem foldlM_except_cons {ε α β : Type} (f : β → α → Except ε β) (b : β) (a : α) (l : List α) :
    List.foldlM f b (a :: l) =
      match f b a with
      | .error e => .error e
      | .ok b' => List.foldlM f b' l := by
  rw [List.foldlM_cons]
  cases f b a <;> rfl

theorem foldlM_except_nil {ε α β : Type} (f : β → α → Except ε β) (b : β) :
    List.foldlM f b [] = .ok b := rfl
/-! ### the graph mapping built by `glueGraphs` -/

/-- the graph mapping after `k` graphs were appended to a result of length `base` -/
def shiftMap (base k : Nat) : List Nat := (List.range k).map (base + ·)

theorem shiftMap_length (base k : Nat) : (shiftMap base k).length = k := by simp [shiftMap]

theorem shiftMap_getElem? (base k x : Nat) :
    (shiftMap base k)[x]? = if x < k then some (base + x) else none := by
  simp only [shiftMap, List.getElem?_map]
  by_cases h : x < k
  · simp [h]
  · simp [h]

theorem shiftMap_zero (base : Nat) : shiftMap base 0 = [] := rfl

theorem shiftMap_succ' (base k : Nat) : shiftMap base (k + 1) = base :: shiftMap (base + 1) k := by
  apply List.ext_getElem?
  intro n
  cases n with
  | zero => simp [shiftMap_getElem?]
  | succ n =>
    simp only [List.getElem?_cons_succ, shiftMap_getElem?]
    by_cases h : n < k
    · simp [h]; omega
    · simp [h]

theorem mem_shiftMap {base k y : Nat} (h : y ∈ shiftMap base k) : base ≤ y := by
  simp [shiftMap] at h
  omega

/-! ### `cacheGet`, `mapIdx`, `glueNode`, `glueGraph`, `glueGraphs` -/

theorem cacheGet_cons (i : Inst Op Ty) (gi : Nat) (cache : List (Inst Op Ty × Nat)) (j : Inst Op Ty) :
    cacheGet ((i, gi) :: cache) j = if i = j then some gi else cacheGet cache j := by
  by_cases h : i = j <;> simp [cacheGet, h]

theorem cacheGet_nil (j : Inst Op Ty) : cacheGet ([] : List (Inst Op Ty × Nat)) j = none := rfl

theorem mapIdx_ok (gmap gd gd' : List Nat) (h : mapIdx gmap gd = .ok gd') :
    gd'.length = gd.length ∧
      ∀ (n : Nat) x, gd[n]? = some x → ∃ y, gd'[n]? = some y ∧ gmap[x]? = some y := by
  obtain ⟨hl, hn⟩ := mapM_except_ok _ _ _ h
  refine ⟨hl, ?_⟩
  intro n x hx
  obtain ⟨y, hy, hf⟩ := hn n x hx
  refine ⟨y, hy, ?_⟩
  split at hf
  · rename_i g' hg; cases hf; exact hg
  · cases hf

theorem mapIdx_total (gmap gd : List Nat) (h : ∀ x ∈ gd, x < gmap.length) :
    ∃ gd', mapIdx gmap gd = .ok gd' := by
  apply mapM_except_total
  intro x hx
  have hlt := h x hx
  refine ⟨gmap[x], ?_⟩
  simp [List.getElem?_eq_getElem hlt]

theorem glueNode_plain_ok {callP : P} {cache : List (Inst Op Ty × Nat)} {gmap : List Nat}
    {p : P} {gd ds : List Nat} {rn : RNode P}
    (h : glueNode callP cache gmap (.plain p gd ds) = .ok rn) :
    ∃ gd', mapIdx gmap gd = .ok gd' ∧ rn = ⟨p, gd', ds⟩ := by
  simp only [glueNode] at h
  split at h
  · rename_i gd' hgd; cases h; exact ⟨gd', hgd, rfl⟩
  · cases h

theorem glueNode_custom_ok {callP : P} {cache : List (Inst Op Ty × Nat)} {gmap : List Nat}
    {i : Inst Op Ty} {ds : List Nat} {rn : RNode P}
    (h : glueNode callP cache gmap (.custom i ds) = .ok rn) :
    ∃ gi, cacheGet cache i = some gi ∧ rn = ⟨callP, [gi], ds⟩ := by
  simp only [glueNode] at h
  split at h
  · rename_i gi hgi; cases h; exact ⟨gi, hgi, rfl⟩
  · cases h

theorem glueGraph_ok {callP : P} {cache : List (Inst Op Ty × Nat)} {gmap : List Nat}
    {g : Graph Op Ty P} {rg : RGraph P} (h : glueGraph callP cache gmap g = .ok rg) :
    ∃ ns, g.nodes.mapM (glueNode callP cache gmap) = .ok ns ∧ rg = ⟨none, ns, g.out⟩ := by
  simp only [glueGraph] at h
  split at h
  · rename_i ns hns; cases h; exact ⟨ns, hns, rfl⟩
  · cases h

theorem glueGraph_total (callP : P) (cache : List (Inst Op Ty × Nat)) (gmap : List Nat)
    (g : Graph Op Ty P)
    (hcu : ∀ i ds, Node.custom i ds ∈ g.nodes → ∃ gi, cacheGet cache i = some gi)
    (hpl : ∀ p gd ds, Node.plain p gd ds ∈ g.nodes → ∀ x ∈ gd, x < gmap.length) :
    ∃ rg, glueGraph callP cache gmap g = .ok rg := by
  have : ∃ ns, g.nodes.mapM (glueNode callP cache gmap) = .ok ns := by
    apply mapM_except_total
    intro n hn
    cases n with
    | plain p gd ds =>
      obtain ⟨gd', hgd'⟩ := mapIdx_total gmap gd (hpl p gd ds hn)
      exact ⟨⟨p, gd', ds⟩, by simp [glueNode, hgd']⟩
    | custom i ds =>
      obtain ⟨gi, hgi⟩ := hcu i ds hn
      exact ⟨⟨callP, [gi], ds⟩, by simp [glueNode, hgi]⟩
  obtain ⟨ns, hns⟩ := this
  exact ⟨⟨none, ns, g.out⟩, by simp [glueGraph, hns]⟩

/-- inversion of a successful `glueGraphs`: the graphs are appended one by one, graph `k` is glued
    with the mapping extended by the `k` graphs before it -/
theorem glueGraphs_ok (callP : P) (cache : List (Inst Op Ty × Nat)) :
    ∀ (gs : List (Graph Op Ty P)) (res : List (RGraph P)) (gmap : List Nat)
      (res' : List (RGraph P)) (gmap' : List Nat),
      glueGraphs callP cache gs res gmap = .ok (res', gmap') →
      ∃ rgs, res' = res ++ rgs ∧ rgs.length = gs.length ∧
        gmap' = gmap ++ shiftMap res.length gs.length ∧
        ∀ (k : Nat) g, gs[k]? = some g → ∃ rg, rgs[k]? = some rg ∧
          glueGraph callP cache (gmap ++ shiftMap res.length k) g = .ok rg := by
  intro gs
  induction gs with
  | nil =>
    intro res gmap res' gmap' h
    simp only [glueGraphs] at h
    cases h
    exact ⟨[], by simp [shiftMap_zero]⟩
  | cons g gs ih =>
    intro res gmap res' gmap' h
    simp only [glueGraphs] at h
    split at h
    · cases h
    · rename_i rg hrg
      obtain ⟨rgs, h1, h2, h3, h4⟩ := ih _ _ _ _ h
      refine ⟨rg :: rgs, by simp [h1], by simp [h2], ?_, ?_⟩
      · rw [h3, List.length_cons, shiftMap_succ']; simp
      · intro k g' hk
        cases k with
        | zero =>
          simp at hk; subst hk
          exact ⟨rg, by simp, by simpa [shiftMap_zero] using hrg⟩
        | succ k =>
          simp at hk
          obtain ⟨rg', hr1, hr2⟩ := h4 k g' hk
          refine ⟨rg', by simpa using hr1, ?_⟩
          rw [shiftMap_succ']
          simpa using hr2

theorem glueGraphs_total (callP : P) (cache : List (Inst Op Ty × Nat)) :
    ∀ (gs : List (Graph Op Ty P)) (res : List (RGraph P)) (gmap : List Nat),
      (∀ (k : Nat) g, gs[k]? = some g →
        ∃ rg, glueGraph callP cache (gmap ++ shiftMap res.length k) g = .ok rg) →
      ∃ out, glueGraphs callP cache gs res gmap = .ok out := by
  intro gs
  induction gs with
  | nil => intro res gmap _; exact ⟨(res, gmap), rfl⟩
  | cons g gs ih =>
    intro res gmap h
    obtain ⟨rg, hrg⟩ := h 0 g (by simp)
    simp only [shiftMap_zero, List.append_nil] at hrg
    simp only [glueGraphs, hrg]
    apply ih
    intro k g' hk
    obtain ⟨rg', hrg'⟩ := h (k + 1) g' (by simpa using hk)
    rw [shiftMap_succ'] at hrg'
    exact ⟨rg', by simpa using hrg'⟩

/-! ## T1: totality -/

/-- graph dependencies point to earlier graphs, the main graph exists (guaranteed by construction
    in the code) -/
def WfCtx (c : Ctx Op Ty P) : Prop :=
  c.main < c.graphs.length ∧
  ∀ (k : Nat) g, c.graphs[k]? = some g → ∀ p gd ds, Node.plain p gd ds ∈ g.nodes → ∀ x ∈ gd, x < k

/-- the instantiations in `S` can be instantiated, their bodies are well formed and use only
    instantiations in `S` of smaller rank (= the dependency graph restricted to `S` is acyclic) -/
def Acyclic (lib : Inst Op Ty → Except String (Ctx Op Ty P)) (S : Inst Op Ty → Prop)
    (rank : Inst Op Ty → Nat) : Prop :=
  ∀ i, S i → ∃ body, lib i = .ok body ∧ WfCtx body ∧ ∀ j ∈ body.uses, S j ∧ rank j < rank i

theorem mem_uses {c : Ctx Op Ty P} {i : Inst Op Ty} :
    i ∈ c.uses ↔ ∃ g ∈ c.graphs, ∃ ds, Node.custom i ds ∈ g.nodes := by
  simp only [Ctx.uses, List.mem_flatMap, List.mem_filterMap]
  constructor
  · rintro ⟨g, hg, n, hn, hi⟩
    cases n with
    | plain p gd ds => simp [Node.inst?] at hi
    | custom j ds => simp [Node.inst?] at hi; subst hi; exact ⟨g, hg, ds, hn⟩
  · rintro ⟨g, hg, ds, hn⟩
    exact ⟨g, hg, _, hn, rfl⟩

/-! ### executable check of `WfCtx`, and the running example -/

/-- executable check of the dependency condition of `WfCtx` for graph number `k` -/
def wfGraphB (k : Nat) (g : Graph Op Ty P) : Bool :=
  g.nodes.all fun n => match n with
    | .plain _ gd _ => gd.all (· < k)
    | .custom _ _ => true

def wfGraphsB : Nat → List (Graph Op Ty P) → Bool
  | _, [] => true
  | k, g :: gs => wfGraphB k g && wfGraphsB (k + 1) gs

/-- executable check of `WfCtx` -/
def wfCtxB (c : Ctx Op Ty P) : Bool := decide (c.main < c.graphs.length) && wfGraphsB 0 c.graphs

theorem wfGraphsB_sound : ∀ (gs : List (Graph Op Ty P)) (k0 : Nat), wfGraphsB k0 gs = true →
    ∀ (k : Nat) g, gs[k]? = some g → wfGraphB (k0 + k) g = true := by
  intro gs
  induction gs with
  | nil => intro k0 _ k g hk; simp at hk
  | cons g gs ih =>
    intro k0 h k g' hk
    simp only [wfGraphsB, Bool.and_eq_true] at h
    cases k with
    | zero => simp at hk; subst hk; exact h.1
    | succ k =>
      simp at hk
      have := ih (k0 + 1) h.2 k g' hk
      rw [show k0 + (k + 1) = k0 + 1 + k by omega]; exact this

theorem WfCtx_of_check (c : Ctx Op Ty P) (h : wfCtxB c = true) : WfCtx c := by
  simp only [wfCtxB, Bool.and_eq_true, decide_eq_true_eq] at h
  refine ⟨h.1, ?_⟩
  intro k g hk p gd ds hp x hx
  have hg := wfGraphsB_sound c.graphs 0 h.2 k g hk
  simp only [wfGraphB, List.all_eq_true] at hg
  have := hg _ hp
  simp only [List.all_eq_true, decide_eq_true_eq] at this
  simpa using this x hx

/-! The running example: operation 0 = "Not" (body: input, not), operation 1 = "Or" (body: two
    inputs, three nested `Not`s and an and); payloads 99 = Call, 1 = not, 2 = and, 10 + k = input k.
    The context has a graph using `Or` and `Not` and a main graph calling it. -/

def exNot : Ctx Nat Nat Nat := ⟨[⟨[.plain 10 [] [], .plain 1 [] [0]], 1⟩], 0⟩
def exOr (t : List Nat) : Ctx Nat Nat Nat :=
  ⟨[⟨[.plain 10 [] [], .plain 11 [] [], .custom ⟨0, t⟩ [0], .custom ⟨0, t⟩ [1],
      .plain 2 [] [2, 3], .custom ⟨0, t⟩ [4]], 5⟩], 0⟩
def exLib (i : Inst Nat Nat) : Except String (Ctx Nat Nat Nat) :=
  if i.op = 0 then .ok exNot else if i.op = 1 then .ok (exOr (i.tys.take 1)) else .error "unknown"
def exName (i : Inst Nat Nat) : String := if i.op = 0 then "Not" else "Or"
def exCtx : Ctx Nat Nat Nat :=
  ⟨[⟨[.plain 10 [] [], .plain 11 [] [], .custom ⟨1, [7, 7]⟩ [0, 1], .custom ⟨0, [7]⟩ [2]], 3⟩,
    ⟨[.plain 10 [] [], .plain 11 [] [], .plain 99 [0] [0, 1]], 2⟩], 1⟩

def exResult : RCtx Nat × List (Inst Nat Nat × Nat) :=
  (⟨[⟨some "Not", [⟨10, [], []⟩, ⟨1, [], [0]⟩], 1⟩,
     ⟨some "Or", [⟨10, [], []⟩, ⟨11, [], []⟩, ⟨99, [0], [0]⟩, ⟨99, [0], [1]⟩, ⟨2, [], [2, 3]⟩,
        ⟨99, [0], [4]⟩], 5⟩,
     ⟨none, [⟨10, [], []⟩, ⟨11, [], []⟩, ⟨99, [1], [0, 1]⟩, ⟨99, [0], [2]⟩], 3⟩,
     ⟨none, [⟨10, [], []⟩, ⟨11, [], []⟩, ⟨99, [2], [0, 1]⟩], 2⟩], 3⟩,
   [(⟨1, [7, 7]⟩, 1), (⟨0, [7]⟩, 0)])

theorem ex_run : instantiate 99 exName exLib 2 exCtx = .ok exResult := by rfl

abbrev exS (i : Inst Nat Nat) : Prop := i = ⟨0, [7]⟩ ∨ i = ⟨1, [7, 7]⟩
abbrev exRank (i : Inst Nat Nat) : Nat := i.op

theorem ex_acyclic : Acyclic exLib exS exRank := by
  intro i hi
  rcases hi with rfl | rfl
  · exact ⟨exNot, rfl, WfCtx_of_check _ rfl, by decide⟩
  · exact ⟨exOr [7], rfl, WfCtx_of_check _ rfl, by decide⟩

theorem ex_inj : ∀ i j, exS i → exS j → exName i = exName j → i = j := by
  rintro i j (rfl | rfl) (rfl | rfl) h
  · rfl
  · exact absurd h (by decide)
  · exact absurd h (by decide)
  · rfl

theorem visit_zero (lib : Inst Op Ty → Except String (Ctx Op Ty P)) (done i) :
    visit lib 0 done i =
      if i ∈ done then .ok done else .error "Circular dependency among instantiations" := by
  rw [visit]

theorem visit_succ (lib : Inst Op Ty → Except String (Ctx Op Ty P)) (fuel done i) :
    visit lib (fuel + 1) done i = if i ∈ done then .ok done else
      match lib i with
        | .error e => .error e
        | .ok body =>
          match body.uses.foldlM (fun d j => visit lib fuel d j) done with
          | .error e => .error e
          | .ok done' => .ok (done' ++ [i]) := by
  rw [visit]; rfl

/-- `done` is duplicate free, inside `S`, and every element comes after everything its body uses -/
def Sorted (lib : Inst Op Ty → Except String (Ctx Op Ty P)) (S : Inst Op Ty → Prop)
    (done : List (Inst Op Ty)) : Prop :=
  done.Nodup ∧ ∀ (n : Nat) i, done[n]? = some i →
    S i ∧ ∃ body, lib i = .ok body ∧ ∀ j ∈ body.uses, j ∈ done.take n

theorem Sorted.nil (lib : Inst Op Ty → Except String (Ctx Op Ty P)) (S) : Sorted lib S [] :=
  ⟨List.nodup_nil, by simp⟩

theorem Sorted.snoc {lib : Inst Op Ty → Except String (Ctx Op Ty P)} {S : Inst Op Ty → Prop}
    {done : List (Inst Op Ty)} {i : Inst Op Ty} {body : Ctx Op Ty P}
    (h : Sorted lib S done) (hi : i ∉ done) (hS : S i) (hb : lib i = .ok body)
    (hu : ∀ j ∈ body.uses, j ∈ done) : Sorted lib S (done ++ [i]) := by
  refine ⟨?_, ?_⟩
  · rw [List.nodup_append]
    refine ⟨h.1, by simp, ?_⟩
    intro a ha b hb hab
    simp at hb; subst hb; subst hab; exact hi ha
  · intro n x hx
    by_cases hn : n < done.length
    · rw [List.getElem?_append_left hn] at hx
      obtain ⟨h1, b, h2, h3⟩ := h.2 n x hx
      refine ⟨h1, b, h2, ?_⟩
      rw [List.take_append_of_le_length (Nat.le_of_lt hn)]
      exact h3
    · have hlen : n = done.length := by
        have : n < (done ++ [i]).length := by
          apply Classical.byContradiction; intro hc
          rw [List.getElem?_eq_none (by omega)] at hx; cases hx
        simp at this; omega
      subst hlen
      simp at hx; subst hx
      refine ⟨hS, body, hb, ?_⟩
      simpa using hu

/-- the conclusion of the `visit` lemmas: success, invariant kept, `done` kept, targets reached,
    everything new has rank at most that of a target -/
def VisitPost (lib : Inst Op Ty → Except String (Ctx Op Ty P)) (S : Inst Op Ty → Prop)
    (rank : Inst Op Ty → Nat) (done : List (Inst Op Ty)) (js : List (Inst Op Ty))
    (r : Except String (List (Inst Op Ty))) : Prop :=
  ∃ done', r = .ok done' ∧ Sorted lib S done' ∧ (∀ x ∈ done, x ∈ done') ∧ (∀ j ∈ js, j ∈ done') ∧
    ∀ x ∈ done', x ∈ done ∨ ∃ j ∈ js, rank x ≤ rank j

theorem visitAll_post {lib : Inst Op Ty → Except String (Ctx Op Ty P)} {S : Inst Op Ty → Prop}
    {rank : Inst Op Ty → Nat} {fuel : Nat}
    (ih : ∀ done i, Sorted lib S done → S i → rank i < fuel →
      VisitPost lib S rank done [i] (visit lib fuel done i)) :
    ∀ (js : List (Inst Op Ty)) (done : List (Inst Op Ty)), Sorted lib S done →
      (∀ j ∈ js, S j ∧ rank j < fuel) →
      VisitPost lib S rank done js (js.foldlM (fun d j => visit lib fuel d j) done) := by
  intro js
  induction js with
  | nil =>
    intro done hd _
    exact ⟨done, rfl, hd, fun _ h => h, by simp, fun x hx => Or.inl hx⟩
  | cons j js ihjs =>
    intro done hd hjs
    obtain ⟨hSj, hrj⟩ := hjs j (by simp)
    obtain ⟨d1, e1, s1, k1, t1, r1⟩ := ih done j hd hSj hrj
    obtain ⟨d2, e2, s2, k2, t2, r2⟩ := ihjs d1 s1 (fun x hx => hjs x (by simp [hx]))
    refine ⟨d2, ?_, s2, fun x hx => k2 x (k1 x hx), ?_, ?_⟩
    · rw [foldlM_except_cons, e1]; exact e2
    · intro x hx
      rcases List.mem_cons.1 hx with rfl | hx
      · exact k2 _ (t1 _ (by simp))
      · exact t2 x hx
    · intro x hx
      rcases r2 x hx with h | ⟨y, hy, hr⟩
      · rcases r1 x h with h | ⟨y, hy, hr⟩
        · exact Or.inl h
        · simp at hy; subst hy; exact Or.inr ⟨y, by simp, hr⟩
      · exact Or.inr ⟨y, by simp [hy], hr⟩

theorem visit_post {lib : Inst Op Ty → Except String (Ctx Op Ty P)} {S : Inst Op Ty → Prop}
    {rank : Inst Op Ty → Nat} (hac : Acyclic lib S rank) :
    ∀ (fuel : Nat) (done : List (Inst Op Ty)) (i : Inst Op Ty), Sorted lib S done → S i →
      rank i < fuel → VisitPost lib S rank done [i] (visit lib fuel done i) := by
  intro fuel
  induction fuel with
  | zero => intro done i _ _ h; omega
  | succ fuel ih =>
    intro done i hd hS hr
    rw [visit_succ]
    by_cases hi : i ∈ done
    · simp only [hi, if_true]
      exact ⟨done, rfl, hd, fun _ h => h, by simpa using hi, fun x hx => Or.inl hx⟩
    · simp only [hi, if_false]
      obtain ⟨body, hb, _, hu⟩ := hac i hS
      rw [hb]
      obtain ⟨d1, e1, s1, k1, t1, r1⟩ := visitAll_post ih body.uses done hd
        (fun j hj => ⟨(hu j hj).1, by have := (hu j hj).2; omega⟩)
      simp only [e1]
      have hi1 : i ∉ d1 := by
        intro hc
        rcases r1 i hc with h | ⟨j, hj, hrj⟩
        · exact hi h
        · have := (hu j hj).2; omega
      refine ⟨d1 ++ [i], rfl, s1.snoc hi1 hS hb t1, ?_, by simp, ?_⟩
      · intro x hx; simp [k1 x hx]
      · intro x hx
        rcases List.mem_append.1 hx with hx | hx
        · rcases r1 x hx with h | ⟨j, hj, hrj⟩
          · exact Or.inl h
          · exact Or.inr ⟨i, by simp, by have := (hu j hj).2; omega⟩
        · simp at hx; subst hx; exact Or.inr ⟨x, by simp, Nat.le_refl _⟩

theorem Sorted.mem_S {lib : Inst Op Ty → Except String (Ctx Op Ty P)} {S : Inst Op Ty → Prop}
    {done : List (Inst Op Ty)} (h : Sorted lib S done) {x : Inst Op Ty} (hx : x ∈ done) : S x := by
  obtain ⟨n, hn⟩ := List.mem_iff_getElem?.1 hx
  exact (h.2 n x hn).1

/-! ### `setName` -/

/-- what `setName` does to a graph -/
def named (nm : String) (g : RGraph P) : RGraph P := { g with name := some nm }

theorem setName_ok {res res'' : List (RGraph P)} {gi : Nat} {nm : String}
    (h : setName res gi nm = .ok res'') :
    (∀ g ∈ res, g.name ≠ some nm) ∧ res'' = res.modify gi (named nm) := by
  simp only [setName] at h
  split at h
  · cases h
  · rename_i hany
    cases h
    refine ⟨?_, rfl⟩
    intro g hg hn
    apply hany
    simp only [List.any_eq_true]
    exact ⟨g, hg, by simp [hn]⟩

theorem setName_total {res : List (RGraph P)} (gi : Nat) {nm : String}
    (h : ∀ g ∈ res, g.name ≠ some nm) : setName res gi nm = .ok (res.modify gi (named nm)) := by
  have : res.any (fun g => g.name == some nm) = false := by
    rw [List.any_eq_false]
    intro g hg
    simpa using h g hg
  simp only [setName, this]
  rfl

theorem mem_modify {α : Type} {f : α → α} {l : List α} {n : Nat} {x : α}
    (h : x ∈ l.modify n f) : x ∈ l ∨ ∃ y ∈ l, x = f y := by
  obtain ⟨k, hk⟩ := List.mem_iff_getElem?.1 h
  rw [List.getElem?_modify] at hk
  cases hl : l[k]? with
  | none => rw [hl] at hk; cases hk
  | some y =>
    rw [hl] at hk
    have hy : y ∈ l := List.mem_iff_getElem?.2 ⟨k, hl⟩
    simp only [Option.map_eq_map, Option.map_some, Option.some.injEq] at hk
    by_cases hnk : n = k
    · simp only [hnk, if_true] at hk; exact Or.inr ⟨y, hy, hk.symm⟩
    · simp only [hnk, if_false] at hk; exact Or.inl (hk ▸ hy)

theorem glueGraphs_ok_unnamed {callP : P} {cache : List (Inst Op Ty × Nat)}
    {gs : List (Graph Op Ty P)} {res : List (RGraph P)} {gmap : List Nat} {rgs : List (RGraph P)}
    (hlen : rgs.length = gs.length)
    (h : ∀ (k : Nat) g, gs[k]? = some g → ∃ rg, rgs[k]? = some rg ∧
          glueGraph callP cache (gmap ++ shiftMap res.length k) g = .ok rg) :
    ∀ rg ∈ rgs, rg.name = none := by
  intro rg hrg
  obtain ⟨k, hk⟩ := List.mem_iff_getElem?.1 hrg
  have hlt : k < gs.length := by
    apply Classical.byContradiction; intro hc
    rw [List.getElem?_eq_none (by omega)] at hk; cases hk
  obtain ⟨rg', h1, h2⟩ := h k gs[k] (List.getElem?_eq_getElem hlt)
  rw [hk] at h1; cases h1
  obtain ⟨ns, _, e⟩ := glueGraph_ok h2
  rw [e]

/-- gluing a well-formed context whose custom nodes are all cached succeeds -/
theorem glueGraphs_total_wf (callP : P) (cache : List (Inst Op Ty × Nat)) (c : Ctx Op Ty P)
    (res : List (RGraph P)) (hc : WfCtx c) (hu : ∀ j ∈ c.uses, ∃ gi, cacheGet cache j = some gi) :
    ∃ rgs, glueGraphs callP cache c.graphs res [] =
        .ok (res ++ rgs, shiftMap res.length c.graphs.length) ∧
      rgs.length = c.graphs.length ∧ (∀ rg ∈ rgs, rg.name = none) ∧
      (shiftMap res.length c.graphs.length)[c.main]? = some (res.length + c.main) := by
  have : ∃ out, glueGraphs callP cache c.graphs res [] = .ok out := by
    apply glueGraphs_total
    intro k g hk
    apply glueGraph_total
    · intro i ds hi
      exact hu i (mem_uses.2 ⟨g, List.mem_iff_getElem?.2 ⟨k, hk⟩, ds, hi⟩)
    · intro p gd ds hp x hx
      simpa [shiftMap_length] using hc.2 k g hk p gd ds hp x hx
  obtain ⟨⟨res', gmap⟩, hout⟩ := this
  obtain ⟨rgs, h1, h2, h3, h4⟩ := glueGraphs_ok _ _ _ _ _ _ _ hout
  refine ⟨rgs, ?_, h2, glueGraphs_ok_unnamed h2 h4, ?_⟩
  · rw [hout, h1, h3]; simp
  · rw [shiftMap_getElem?]; simp [hc.1]

/-- the `glueInsts` loop succeeds on a sorted list and caches all of it -/
theorem glueInsts_total (callP : P) (nameOf : Inst Op Ty → String)
    {lib : Inst Op Ty → Except String (Ctx Op Ty P)} {S : Inst Op Ty → Prop}
    {rank : Inst Op Ty → Nat} (hac : Acyclic lib S rank)
    (hinj : ∀ i j, S i → S j → nameOf i = nameOf j → i = j)
    {order : List (Inst Op Ty)} (hord : Sorted lib S order) :
    ∀ (is pre : List (Inst Op Ty)) (res : List (RGraph P)) (cache : List (Inst Op Ty × Nat)),
      order = pre ++ is →
      (∀ j ∈ pre, ∃ gi, cacheGet cache j = some gi) →
      (∀ g ∈ res, ∀ nm, g.name = some nm → ∃ j ∈ pre, nm = nameOf j) →
      ∃ res' cache', glueInsts callP nameOf lib is res cache = .ok (res', cache') ∧
        ∀ j ∈ order, ∃ gi, cacheGet cache' j = some gi := by
  intro is
  induction is with
  | nil =>
    intro pre res cache ho h1 _
    refine ⟨res, cache, rfl, ?_⟩
    simpa [ho] using h1
  | cons i is ih =>
    intro pre res cache ho h1 h2
    have hget : order[pre.length]? = some i := by simp [ho]
    obtain ⟨hSi, body, hb, hu⟩ := hord.2 _ _ hget
    have htake : order.take pre.length = pre := by simp [ho]
    rw [htake] at hu
    have hipre : i ∉ pre := by
      have hnd := hord.1
      rw [ho, List.nodup_append] at hnd
      intro hc
      exact hnd.2.2 i hc i (by simp) rfl
    obtain ⟨body', hb', hwf, _⟩ := hac i hSi
    rw [hb] at hb'; cases hb'
    obtain ⟨rgs, e1, _, hun, e2⟩ := glueGraphs_total_wf callP cache body res hwf
      (fun j hj => h1 j (hu j hj))
    have hfresh : ∀ g ∈ res ++ rgs, g.name ≠ some (nameOf i) := by
      intro g hg hn
      rcases List.mem_append.1 hg with hg | hg
      · obtain ⟨j, hj, e⟩ := h2 g hg _ hn
        have hSj : S j := hord.mem_S (by simp [ho, hj])
        have := hinj i j hSi hSj e
        subst this; exact hipre hj
      · rw [hun g hg] at hn; cases hn
    simp only [glueInsts, hb, e1, e2, setName_total _ hfresh]
    apply ih (pre ++ [i])
    · simp [ho]
    · intro j hj
      rw [cacheGet_cons]
      by_cases hij : i = j
      · simp [hij]
      · simp only [hij, if_false]
        rcases List.mem_append.1 hj with hj | hj
        · exact h1 j hj
        · simp at hj; exact absurd hj.symm hij
    · intro g hg nm hn
      rcases mem_modify hg with hg | ⟨y, _, e⟩
      · rcases List.mem_append.1 hg with hg | hg
        · obtain ⟨j, hj, e⟩ := h2 g hg nm hn
          exact ⟨j, by simp [hj], e⟩
        · rw [hun g hg] at hn; cases hn
      · subst e
        simp only [named, Option.some.injEq] at hn
        exact ⟨i, by simp, hn.symm⟩

/-- **T1**: on a well-formed context whose custom operations lie in an acyclic, instantiable,
    injectively named set, with fuel above the ranks, the pass succeeds. -/
theorem instantiate_total (callP : P) (nameOf : Inst Op Ty → String)
    (lib : Inst Op Ty → Except String (Ctx Op Ty P)) (S : Inst Op Ty → Prop)
    (rank : Inst Op Ty → Nat) (fuel : Nat) (c : Ctx Op Ty P)
    (hac : Acyclic lib S rank) (hc : WfCtx c) (hS : ∀ j ∈ c.uses, S j)
    (hinj : ∀ i j, S i → S j → nameOf i = nameOf j → i = j)
    (hfuel : ∀ j ∈ c.uses, rank j < fuel) :
    ∃ r, instantiate callP nameOf lib fuel c = .ok r := by
  obtain ⟨order, e1, hsorted, _, huses, _⟩ :=
    visitAll_post (visit_post hac fuel) c.uses [] (Sorted.nil lib S)
      (fun j hj => ⟨hS j hj, hfuel j hj⟩)
  obtain ⟨res, cache, e2, hcache⟩ := glueInsts_total callP nameOf hac hinj hsorted order [] [] []
    (by simp) (by simp) (by simp)
  obtain ⟨rgs, e3, _, _, e4⟩ := glueGraphs_total_wf callP cache c res hc
    (fun j hj => hcache j (huses j hj))
  refine ⟨(⟨res ++ rgs, res.length + c.main⟩, cache), ?_⟩
  simp only [instantiate, visitAll, e1, e2, e3, e4]

/-- non-vacuity of T1 -/
example : ∃ r, instantiate 99 exName exLib 2 exCtx = .ok r :=
  instantiate_total 99 exName exLib exS exRank 2 exCtx ex_acyclic (WfCtx_of_check _ rfl)
    (by decide) ex_inj (by decide)

/-! ## Inversion of a successful pass -/

/-- `rgs` are the graphs `gs` glued on top of a result of length `base` -/
def Glued (callP : P) (cache : List (Inst Op Ty × Nat)) (gs : List (Graph Op Ty P)) (base : Nat)
    (rgs : List (RGraph P)) : Prop :=
  rgs.length = gs.length ∧ ∀ (k : Nat) g, gs[k]? = some g → ∃ rg, rgs[k]? = some rg ∧
    glueGraph callP cache (shiftMap base k) g = .ok rg

theorem glueGraphs_ok_nil {callP : P} {cache : List (Inst Op Ty × Nat)}
    {gs : List (Graph Op Ty P)} {res res' : List (RGraph P)} {gmap' : List Nat}
    (h : glueGraphs callP cache gs res [] = .ok (res', gmap')) :
    ∃ rgs, res' = res ++ rgs ∧ gmap' = shiftMap res.length gs.length ∧
      Glued callP cache gs res.length rgs := by
  obtain ⟨rgs, h1, h2, h3, h4⟩ := glueGraphs_ok _ _ _ _ _ _ _ h
  exact ⟨rgs, h1, by simpa using h3, h2, by simpa using h4⟩

theorem Glued.unnamed {callP : P} {cache : List (Inst Op Ty × Nat)} {gs : List (Graph Op Ty P)}
    {base : Nat} {rgs : List (RGraph P)} (h : Glued callP cache gs base rgs) :
    ∀ rg ∈ rgs, rg.name = none := by
  intro rg hrg
  obtain ⟨k, hk⟩ := List.mem_iff_getElem?.1 hrg
  have hlt : k < gs.length := by
    apply Classical.byContradiction; intro hc
    rw [List.getElem?_eq_none (by have := h.1; omega)] at hk; cases hk
  obtain ⟨rg', h1, h2⟩ := h.2 k gs[k] (List.getElem?_eq_getElem hlt)
  rw [hk] at h1; cases h1
  obtain ⟨ns, _, e⟩ := glueGraph_ok h2
  rw [e]

theorem instantiate_ok {callP : P} {nameOf : Inst Op Ty → String}
    {lib : Inst Op Ty → Except String (Ctx Op Ty P)} {fuel : Nat} {c : Ctx Op Ty P}
    {r : RCtx P} {cache : List (Inst Op Ty × Nat)}
    (h : instantiate callP nameOf lib fuel c = .ok (r, cache)) :
    ∃ order res rgs, visitAll lib fuel [] c.uses = .ok order ∧
      glueInsts callP nameOf lib order [] [] = .ok (res, cache) ∧
      Glued callP cache c.graphs res.length rgs ∧ c.main < c.graphs.length ∧
      r = ⟨res ++ rgs, res.length + c.main⟩ := by
  simp only [instantiate] at h
  split at h
  · cases h
  · rename_i order ho
    split at h
    · cases h
    · rename_i res cache' hg
      split at h
      · cases h
      · rename_i res' gmap hgl
        split at h
        · cases h
        · rename_i m hm
          cases h
          obtain ⟨rgs, h1, h2, h3⟩ := glueGraphs_ok_nil hgl
          subst h1 h2
          rw [shiftMap_getElem?] at hm
          split at hm
          · rename_i hlt
            cases hm
            exact ⟨order, res, rgs, ho, hg, h3, hlt, rfl⟩
          · cases hm

/-- invariant induction over the `glueInsts` loop: one step glues the body on top of the result
    and names the graph of the body's main graph with a fresh name -/
theorem glueInsts_induct {callP : P} {nameOf : Inst Op Ty → String}
    {lib : Inst Op Ty → Except String (Ctx Op Ty P)}
    (Inv : List (RGraph P) → List (Inst Op Ty × Nat) → Prop)
    (step : ∀ i body res cache rgs, Inv res cache → lib i = .ok body →
      Glued callP cache body.graphs res.length rgs → body.main < body.graphs.length →
      (∀ g ∈ res ++ rgs, g.name ≠ some (nameOf i)) →
      Inv ((res ++ rgs).modify (res.length + body.main) (named (nameOf i)))
        ((i, res.length + body.main) :: cache)) :
    ∀ (is : List (Inst Op Ty)) (res : List (RGraph P)) (cache : List (Inst Op Ty × Nat))
      (res' : List (RGraph P)) (cache' : List (Inst Op Ty × Nat)), Inv res cache →
      glueInsts callP nameOf lib is res cache = .ok (res', cache') → Inv res' cache' := by
  intro is
  induction is with
  | nil =>
    intro res cache res' cache' hinv h
    simp only [glueInsts] at h
    cases h; exact hinv
  | cons i is ih =>
    intro res cache res' cache' hinv h
    simp only [glueInsts] at h
    split at h
    · cases h
    · rename_i body hb
      split at h
      · cases h
      · rename_i res1 gmap hgl
        split at h
        · cases h
        · rename_i gi hgi
          split at h
          · cases h
          · rename_i res2 hsn
            obtain ⟨rgs, h1, h2, h3⟩ := glueGraphs_ok_nil hgl
            subst h1 h2
            rw [shiftMap_getElem?] at hgi
            split at hgi
            · rename_i hlt
              cases hgi
              obtain ⟨hfresh, e⟩ := setName_ok hsn
              subst e
              exact ih _ _ _ _ (step i body res cache rgs hinv hb h3 hlt hfresh) h
            · cases hgi

/-! ## T2: every custom node is replaced by a call of the graph cached for its instantiation -/

theorem mapIdx_ok_mem {gmap gd gd' : List Nat} (h : mapIdx gmap gd = .ok gd') :
    ∀ y ∈ gd', y ∈ gmap := by
  obtain ⟨hl, hn⟩ := mapIdx_ok _ _ _ h
  intro y hy
  obtain ⟨n, hny⟩ := List.mem_iff_getElem?.1 hy
  have hlt : n < gd.length := by
    apply Classical.byContradiction; intro hc
    rw [List.getElem?_eq_none (by omega)] at hny; cases hny
  obtain ⟨y', h1, h2⟩ := hn n gd[n] (List.getElem?_eq_getElem hlt)
  rw [hny] at h1; cases h1
  exact List.mem_iff_getElem?.2 ⟨_, h2⟩

/-- every cache entry points to a graph named after its instantiation -/
def CacheNamed (nameOf : Inst Op Ty → String) (res : List (RGraph P))
    (cache : List (Inst Op Ty × Nat)) : Prop :=
  ∀ i gi, cacheGet cache i = some gi → ∃ cg, res[gi]? = some cg ∧ cg.name = some (nameOf i)

theorem glueInsts_cacheNamed {callP : P} {nameOf : Inst Op Ty → String}
    {lib : Inst Op Ty → Except String (Ctx Op Ty P)} {is : List (Inst Op Ty)}
    {res : List (RGraph P)} {cache : List (Inst Op Ty × Nat)}
    (h : glueInsts callP nameOf lib is [] [] = .ok (res, cache)) : CacheNamed nameOf res cache := by
  refine glueInsts_induct (CacheNamed nameOf) ?_ is [] [] res cache ?_ h
  · intro i body res cache rgs hinv _ hgl hlt _ j gj hj
    rw [cacheGet_cons] at hj
    have hlen : res.length + body.main < (res ++ rgs).length := by
      have := hgl.1; simp; omega
    by_cases hij : i = j
    · simp only [hij, if_true, Option.some.injEq] at hj
      subst hj; subst hij
      refine ⟨named (nameOf i) (res ++ rgs)[res.length + body.main], ?_, rfl⟩
      rw [List.getElem?_modify, List.getElem?_eq_getElem hlen]
      simp
    · simp only [hij, if_false] at hj
      obtain ⟨cg, h1, h2⟩ := hinv j gj hj
      have hlt' : gj < res.length := by
        apply Classical.byContradiction; intro hc
        rw [List.getElem?_eq_none (by omega)] at h1; cases h1
      refine ⟨cg, ?_, h2⟩
      rw [List.getElem?_modify, List.getElem?_append_left hlt', h1]
      have : ¬ res.length + body.main = gj := by omega
      simp [this]
  · intro i gi hi
    rw [cacheGet_nil] at hi; cases hi

/-- **T2**: the result is the instantiated graphs followed by the graphs of `c`, node for node;
    every custom node became a `Call` of the graph cached for exactly its `(op, types)`, which
    carries the name of that instantiation; plain nodes keep payload and node dependencies, their
    graph dependencies point into the copied part. -/
theorem instantiate_replaces {callP : P} {nameOf : Inst Op Ty → String}
    {lib : Inst Op Ty → Except String (Ctx Op Ty P)} {fuel : Nat} {c : Ctx Op Ty P}
    {r : RCtx P} {cache : List (Inst Op Ty × Nat)}
    (h : instantiate callP nameOf lib fuel c = .ok (r, cache)) :
    ∃ pre tail, r.graphs = pre ++ tail ∧ tail.length = c.graphs.length ∧
      r.main = pre.length + c.main ∧
      ∀ (k : Nat) g, c.graphs[k]? = some g → ∃ rg, tail[k]? = some rg ∧ rg.name = none ∧
        rg.out = g.out ∧ rg.nodes.length = g.nodes.length ∧
        (∀ (n : Nat) i ds, g.nodes[n]? = some (.custom i ds) →
          ∃ gi cg, rg.nodes[n]? = some ⟨callP, [gi], ds⟩ ∧ cacheGet cache i = some gi ∧
            pre[gi]? = some cg ∧ cg.name = some (nameOf i)) ∧
        (∀ (n : Nat) p gd ds, g.nodes[n]? = some (.plain p gd ds) →
          ∃ gd', rg.nodes[n]? = some ⟨p, gd', ds⟩ ∧ gd'.length = gd.length ∧
            ∀ x ∈ gd', pre.length ≤ x) := by
  obtain ⟨order, res, rgs, _, hgi, hgl, _, e⟩ := instantiate_ok h
  subst e
  have hcn := glueInsts_cacheNamed hgi
  refine ⟨res, rgs, rfl, hgl.1, rfl, ?_⟩
  intro k g hk
  obtain ⟨rg, hrg, hglue⟩ := hgl.2 k g hk
  obtain ⟨ns, hns, e⟩ := glueGraph_ok hglue
  subst e
  obtain ⟨hlen, hnodes⟩ := mapM_except_ok _ _ _ hns
  refine ⟨_, hrg, rfl, rfl, hlen, ?_, ?_⟩
  · intro n i ds hn
    obtain ⟨b, hb, hgn⟩ := hnodes n _ hn
    obtain ⟨gi, hc, e⟩ := glueNode_custom_ok hgn
    subst e
    obtain ⟨cg, h1, h2⟩ := hcn i gi hc
    exact ⟨gi, cg, hb, hc, h1, h2⟩
  · intro n p gd ds hn
    obtain ⟨b, hb, hgn⟩ := hnodes n _ hn
    obtain ⟨gd', hm, e⟩ := glueNode_plain_ok hgn
    subst e
    refine ⟨gd', hb, (mapIdx_ok _ _ _ hm).1, ?_⟩
    intro x hx
    exact mem_shiftMap (mapIdx_ok_mem hm x hx)

/-- T2 on the example: the hypothesis holds (`ex_run`), so the conclusion does -/
example := instantiate_replaces ex_run

/-- … and it is the expected one: `Or [7,7]` of graph 0, node 2 became `Call` of graph 1, named "Or" -/
example : (exResult.1.graphs[2]?.bind (·.nodes[2]?)) = some ⟨99, [1], [0, 1]⟩ ∧
    cacheGet exResult.2 ⟨1, [7, 7]⟩ = some 1 ∧
    (exResult.1.graphs[1]?.bind (·.name)) = some (exName ⟨1, [7, 7]⟩) := by decide

/-! ## T3: graph names are pairwise distinct -/

theorem names_modify_mem {res : List (RGraph P)} {gi : Nat} {nm x : String}
    (h : x ∈ (res.modify gi (named nm)).filterMap (·.name)) :
    x = nm ∨ x ∈ res.filterMap (·.name) := by
  rw [List.mem_filterMap] at h
  obtain ⟨g, hg, hx⟩ := h
  rcases mem_modify hg with hg | ⟨y, _, e⟩
  · exact Or.inr (List.mem_filterMap.2 ⟨g, hg, hx⟩)
  · subst e; simp only [named, Option.some.injEq] at hx; exact Or.inl hx.symm

theorem names_modify_nodup {nm : String} : ∀ (res : List (RGraph P)) (gi : Nat),
    (res.filterMap (·.name)).Nodup → (∀ g ∈ res, g.name ≠ some nm) →
    ((res.modify gi (named nm)).filterMap (·.name)).Nodup := by
  intro res
  induction res with
  | nil => intro gi _ _; simp
  | cons g res ih =>
    intro gi hnd hfresh
    have hnm : nm ∉ res.filterMap (·.name) := by
      intro hc
      obtain ⟨g', hg', e⟩ := List.mem_filterMap.1 hc
      exact hfresh g' (by simp [hg']) e
    have hres : (res.filterMap (·.name)).Nodup := by
      cases hg : g.name with
      | none => simpa [List.filterMap_cons, hg] using hnd
      | some x =>
        rw [List.filterMap_cons_some (f := fun g : RGraph P => g.name) hg] at hnd
        exact (List.nodup_cons.1 hnd).2
    cases gi with
    | zero =>
      simp only [List.modify_zero_cons, List.filterMap_cons, named]
      exact List.nodup_cons.2 ⟨hnm, hres⟩
    | succ gi =>
      have ih' := ih gi hres (fun g' hg' => hfresh g' (by simp [hg']))
      simp only [List.modify_succ_cons, List.filterMap_cons]
      cases hg : g.name with
      | none => simpa using ih'
      | some x =>
        simp only
        refine List.nodup_cons.2 ⟨?_, ih'⟩
        intro hc
        rcases names_modify_mem hc with e | hm
        · exact hfresh g (by simp) (by rw [hg, e])
        · rw [List.filterMap_cons_some (f := fun g : RGraph P => g.name) hg] at hnd
          exact (List.nodup_cons.1 hnd).1 hm

/-- **T3**: the graph names of the result are pairwise distinct. -/
theorem instantiate_names_nodup {callP : P} {nameOf : Inst Op Ty → String}
    {lib : Inst Op Ty → Except String (Ctx Op Ty P)} {fuel : Nat} {c : Ctx Op Ty P}
    {r : RCtx P} {cache : List (Inst Op Ty × Nat)}
    (h : instantiate callP nameOf lib fuel c = .ok (r, cache)) :
    (r.graphs.filterMap (·.name)).Nodup := by
  obtain ⟨order, res, rgs, _, hgi, hgl, _, e⟩ := instantiate_ok h
  subst e
  have happ : ∀ (res rgs : List (RGraph P)), (∀ rg ∈ rgs, rg.name = none) →
      (res ++ rgs).filterMap (·.name) = res.filterMap (·.name) := by
    intro res rgs hun
    rw [List.filterMap_append, List.filterMap_eq_nil_iff.2 hun, List.append_nil]
  have hres : (res.filterMap (·.name)).Nodup := by
    refine glueInsts_induct (fun res _ => (res.filterMap (·.name)).Nodup) ?_ order [] [] res cache
      (by simp) hgi
    intro i body res cache rgs hinv _ hgl _ hfresh
    apply names_modify_nodup _ _ _ hfresh
    rw [happ res rgs hgl.unnamed]; exact hinv
  show ((res ++ rgs).filterMap (·.name)).Nodup
  rw [happ res rgs hgl.unnamed]; exact hres

/-- non-vacuity of T3 -/
example : (exResult.1.graphs.filterMap (·.name)).Nodup := instantiate_names_nodup ex_run
example : exResult.1.graphs.filterMap (·.name) = ["Not", "Or"] := by decide

/-! ## T4: the pass preserves the meaning -/

section Eval
variable {V : Type}

theorem mapM_except_cons_ok {ε α β : Type} {f : α → Except ε β} {a : α} {l : List α} {l' : List β}
    (h : List.mapM f (a :: l) = .ok l') :
    ∃ b bs, f a = .ok b ∧ List.mapM f l = .ok bs ∧ l' = b :: bs := by
  rw [mapM_except_cons] at h
  split at h
  · cases h
  · rename_i b hb
    split at h
    · cases h
    · rename_i bs hbs
      cases h
      exact ⟨b, bs, hb, hbs, rfl⟩

theorem getElem?_append_add {α : Type} (A B : List α) (k : Nat) :
    (A ++ B)[A.length + k]? = B[k]? := by
  rw [List.getElem?_append_right (by omega)]
  congr 1
  omega

/-- the shape of `semsR` and `sems`: every step appends one function computed from the earlier -/
def accum {α β : Type} (F : List β → α → β) (init : List β) (gs : List α) : List β :=
  gs.foldl (fun fs g => fs ++ [F fs g]) init

theorem semsR_eq_accum (sem : P → List (Fn V) → List V → List V → Option V)
    (gs : List (RGraph P)) : semsR sem gs = accum (evalRGraph sem) [] gs := rfl

theorem sems_eq_accum (sem : P → List (Fn V) → List V → List V → Option V)
    (cust : Inst Op Ty → Fn V) (gs : List (Graph Op Ty P)) :
    sems sem cust gs = accum (evalGraph sem cust) [] gs := rfl

theorem accum_snoc {α β : Type} (F : List β → α → β) (init : List β) (gs : List α) (g : α) :
    accum F init (gs ++ [g]) = accum F init gs ++ [F (accum F init gs) g] := by
  simp [accum, List.foldl_append]

theorem accum_length {α β : Type} (F : List β → α → β) :
    ∀ (gs : List α) (init : List β), (accum F init gs).length = init.length + gs.length := by
  intro gs
  induction gs with
  | nil => intro init; rfl
  | cons g gs ih =>
    intro init
    show (accum F (init ++ [F init g]) gs).length = _
    rw [ih]; simp; omega

theorem accum_modify {α β : Type} (F : List β → α → β) (f : α → α)
    (hf : ∀ fs g, F fs (f g) = F fs g) :
    ∀ (gs : List α) (n : Nat) (init : List β), accum F init (gs.modify n f) = accum F init gs := by
  intro gs
  induction gs with
  | nil => intro n init; simp
  | cons g gs ih =>
    intro n init
    cases n with
    | zero =>
      simp only [List.modify_zero_cons]
      show accum F (init ++ [F init (f g)]) gs = accum F (init ++ [F init g]) gs
      rw [hf]
    | succ n =>
      simp only [List.modify_succ_cons]
      show accum F _ (gs.modify n f) = accum F _ gs
      rw [ih]

theorem length_semsR (sem : P → List (Fn V) → List V → List V → Option V) (gs : List (RGraph P)) :
    (semsR sem gs).length = gs.length := by
  rw [semsR_eq_accum, accum_length]; simp

theorem length_sems (sem : P → List (Fn V) → List V → List V → Option V)
    (cust : Inst Op Ty → Fn V) (gs : List (Graph Op Ty P)) :
    (sems sem cust gs).length = gs.length := by
  rw [sems_eq_accum, accum_length]; simp

/-- naming a graph does not change the functions -/
theorem semsR_modify_named (sem : P → List (Fn V) → List V → List V → Option V)
    (gs : List (RGraph P)) (n : Nat) (nm : String) :
    semsR sem (gs.modify n (named nm)) = semsR sem gs :=
  accum_modify (evalRGraph sem) (named nm) (fun _ _ => rfl) gs n []

theorem mapIdx_cons_ok {gmap : List Nat} {x : Nat} {gd gd' : List Nat}
    (h : mapIdx gmap (x :: gd) = .ok gd') :
    ∃ y ys, gmap[x]? = some y ∧ mapIdx gmap gd = .ok ys ∧ gd' = y :: ys := by
  obtain ⟨y, ys, h1, h2, h3⟩ := mapM_except_cons_ok h
  refine ⟨y, ys, ?_, h2, h3⟩
  split at h1
  · rename_i g' hg; cases h1; exact hg
  · cases h1

/-- mapped graph dependencies denote the same functions -/
theorem mapIdx_eval (A F0 : List (Fn V)) : ∀ (gd gd' : List Nat),
    mapIdx (shiftMap A.length F0.length) gd = .ok gd' →
    gd'.mapM (fun g => (A ++ F0)[g]?) = gd.mapM (fun g => F0[g]?) := by
  intro gd
  induction gd with
  | nil =>
    intro gd' h
    have : gd' = [] := by
      have := (mapIdx_ok _ _ _ h).1
      simpa using this
    subst this; rfl
  | cons x gd ih =>
    intro gd' h
    obtain ⟨y, ys, h1, h2, h3⟩ := mapIdx_cons_ok h
    subst h3
    rw [shiftMap_getElem?] at h1
    split at h1
    · cases h1
      rw [List.mapM_cons, List.mapM_cons, ih ys h2, getElem?_append_add]
    · cases h1

variable (sem : P → List (Fn V) → List V → List V → Option V) (cust : Inst Op Ty → Fn V)

/-- one glued node evaluates like its source node -/
theorem stepR_glueNode {callP : P} (hcall : ∀ f args ds, sem callP [f] args ds = f ds)
    {cache : List (Inst Op Ty × Nat)} {A F0 : List (Fn V)}
    (hcache : ∀ i gi, cacheGet cache i = some gi → A[gi]? = some (cust i))
    {n : Node Op Ty P} {rn : RNode P}
    (h : glueNode callP cache (shiftMap A.length F0.length) n = .ok rn)
    (args : List V) (acc : Option (List V)) :
    stepR sem (A ++ F0) args acc rn = step sem cust F0 args acc n := by
  cases acc with
  | none => rfl
  | some vs =>
    cases n with
    | plain p gd ds =>
      obtain ⟨gd', hm, e⟩ := glueNode_plain_ok h
      subst e
      simp only [stepR, step]
      rw [mapIdx_eval A F0 gd gd' hm]
    | custom i ds =>
      obtain ⟨gi, hc, e⟩ := glueNode_custom_ok h
      subst e
      have hA := hcache i gi hc
      have hlt : gi < A.length := by
        apply Classical.byContradiction; intro hn
        rw [List.getElem?_eq_none (by omega)] at hA; cases hA
      have hg : [gi].mapM (fun g => (A ++ F0)[g]?) = some [cust i] := by
        rw [List.mapM_cons, List.getElem?_append_left hlt, hA]; rfl
      simp only [stepR, step, hg]
      cases ds.mapM (fun d => vs[d]?) with
      | none => rfl
      | some dv => simp only [hcall]

theorem foldl_glueNode {callP : P} (hcall : ∀ f args ds, sem callP [f] args ds = f ds)
    {cache : List (Inst Op Ty × Nat)} {A F0 : List (Fn V)}
    (hcache : ∀ i gi, cacheGet cache i = some gi → A[gi]? = some (cust i)) (args : List V) :
    ∀ (nodes : List (Node Op Ty P)) (ns : List (RNode P)) (acc : Option (List V)),
      nodes.mapM (glueNode callP cache (shiftMap A.length F0.length)) = .ok ns →
      ns.foldl (stepR sem (A ++ F0) args) acc = nodes.foldl (step sem cust F0 args) acc := by
  intro nodes
  induction nodes with
  | nil =>
    intro ns acc h
    have : ns = [] := by simpa using (mapM_except_ok _ _ _ h).1
    subst this; rfl
  | cons n nodes ih =>
    intro ns acc h
    obtain ⟨b, bs, h1, h2, h3⟩ := mapM_except_cons_ok h
    subst h3
    simp only [List.foldl_cons]
    rw [stepR_glueNode sem cust hcall hcache h1, ih bs _ h2]

/-- a glued graph, evaluated on top of the instantiated graphs `A`, computes what the source graph
    computes with custom nodes evaluated by `cust` -/
theorem evalRGraph_glueGraph {callP : P} (hcall : ∀ f args ds, sem callP [f] args ds = f ds)
    {cache : List (Inst Op Ty × Nat)} {A F0 : List (Fn V)}
    (hcache : ∀ i gi, cacheGet cache i = some gi → A[gi]? = some (cust i))
    {g : Graph Op Ty P} {rg : RGraph P}
    (h : glueGraph callP cache (shiftMap A.length F0.length) g = .ok rg) :
    evalRGraph sem (A ++ F0) rg = evalGraph sem cust F0 g := by
  obtain ⟨ns, hns, e⟩ := glueGraph_ok h
  subst e
  funext args
  simp only [evalRGraph, evalGraph]
  rw [foldl_glueNode sem cust hcall hcache args g.nodes ns _ hns]

/-- the functions of glued graphs are the functions of the source graphs -/
theorem semsR_glued {callP : P} (hcall : ∀ f args ds, sem callP [f] args ds = f ds)
    {cache : List (Inst Op Ty × Nat)} {res : List (RGraph P)}
    (hcache : ∀ i gi, cacheGet cache i = some gi → (semsR sem res)[gi]? = some (cust i))
    {gs : List (Graph Op Ty P)} {rgs : List (RGraph P)}
    (hgl : Glued callP cache gs res.length rgs) :
    semsR sem (res ++ rgs) = semsR sem res ++ sems sem cust gs := by
  have key : ∀ n, n ≤ gs.length →
      semsR sem (res ++ rgs.take n) = semsR sem res ++ sems sem cust (gs.take n) := by
    intro n
    induction n with
    | zero => intro _; simp [sems]
    | succ n ih =>
      intro hn
      have hg : gs[n]? = some gs[n] := List.getElem?_eq_getElem (by omega)
      obtain ⟨rg, hrg, hglue⟩ := hgl.2 n _ hg
      rw [List.take_add_one, List.take_add_one, hrg, hg]
      simp only [Option.toList_some]
      rw [← List.append_assoc, semsR_eq_accum, accum_snoc, ← semsR_eq_accum, sems_eq_accum,
        accum_snoc, ← sems_eq_accum, ih (by omega), List.append_assoc]
      congr 2
      have hlen : (sems sem cust (gs.take n)).length = n := by
        rw [length_sems, List.length_take]; omega
      have hglue' : glueGraph callP cache
          (shiftMap (semsR sem res).length (sems sem cust (gs.take n)).length) gs[n] = .ok rg := by
        rw [length_semsR, hlen]; exact hglue
      rw [evalRGraph_glueGraph sem cust hcall hcache hglue']
  have h := key gs.length (Nat.le_refl _)
  rw [List.take_length, ← hgl.1, List.take_length] at h
  exact h

/-- every cache entry points to a graph computing the library's function -/
theorem glueInsts_cacheSem {callP : P} (hcall : ∀ f args ds, sem callP [f] args ds = f ds)
    {nameOf : Inst Op Ty → String} {lib : Inst Op Ty → Except String (Ctx Op Ty P)}
    (hcust : ∀ i body, lib i = .ok body → cust i = evalCtx sem cust body)
    {is : List (Inst Op Ty)} {res : List (RGraph P)} {cache : List (Inst Op Ty × Nat)}
    (h : glueInsts callP nameOf lib is [] [] = .ok (res, cache)) :
    ∀ i gi, cacheGet cache i = some gi → (semsR sem res)[gi]? = some (cust i) := by
  refine glueInsts_induct
    (fun res cache => ∀ i gi, cacheGet cache i = some gi → (semsR sem res)[gi]? = some (cust i))
    ?_ is [] [] res cache ?_ h
  · intro i body res cache rgs hinv hb hgl hlt _ j gj hj
    rw [semsR_modify_named, semsR_glued sem cust hcall hinv hgl]
    rw [cacheGet_cons] at hj
    by_cases hij : i = j
    · simp only [hij, if_true, Option.some.injEq] at hj
      subst hj; subst hij
      rw [← length_semsR sem res, getElem?_append_add]
      have hm : body.main < (sems sem cust body.graphs).length := by rw [length_sems]; exact hlt
      rw [List.getElem?_eq_getElem hm, hcust i body hb]
      congr 1
      funext args
      simp only [evalCtx, List.getElem?_eq_getElem hm]
    · simp only [hij, if_false] at hj
      have h1 := hinv j gj hj
      have hlt' : gj < (semsR sem res).length := by
        apply Classical.byContradiction; intro hc
        rw [List.getElem?_eq_none (by omega)] at h1; cases h1
      rw [List.getElem?_append_left hlt', h1]
  · intro i gi hi
    rw [cacheGet_nil] at hi; cases hi

/-- **T4**: if `Call` applies the called graph's function to the node's dependencies and `cust` is
    the library's definition of the custom operations (the evaluation of the instantiated body,
    nested custom nodes evaluated by `cust` again), the result context computes what the source
    context computes. -/
theorem instantiate_eval {callP : P} {nameOf : Inst Op Ty → String}
    {lib : Inst Op Ty → Except String (Ctx Op Ty P)} {fuel : Nat} {c : Ctx Op Ty P}
    {r : RCtx P} {cache : List (Inst Op Ty × Nat)}
    (hcall : ∀ f args ds, sem callP [f] args ds = f ds)
    (hcust : ∀ i body, lib i = .ok body → cust i = evalCtx sem cust body)
    (h : instantiate callP nameOf lib fuel c = .ok (r, cache)) :
    evalRCtx sem r = evalCtx sem cust c := by
  obtain ⟨order, res, rgs, _, hgi, hgl, _, e⟩ := instantiate_ok h
  subst e
  have hcache := glueInsts_cacheSem sem cust hcall hcust hgi
  funext args
  simp only [evalRCtx, evalCtx]
  rw [semsR_glued sem cust hcall hcache hgl, ← length_semsR sem res, getElem?_append_add]

end Eval

/-- a semantics for the example: 99 = Call, 1 = not, 2 = and, 10 + k = k-th input -/
def exSem (p : Nat) (fs : List (Fn Bool)) (args ds : List Bool) : Option Bool :=
  if p = 99 then (match fs with | [f] => f ds | _ => none)
  else if p = 1 then (match ds with | [a] => some (!a) | _ => none)
  else if p = 2 then (match ds with | [a, b] => some (a && b) | _ => none)
  else args[p - 10]?

def exNotFn : Fn Bool := fun ds => match ds with | a :: _ => some (!a) | _ => none
def exOrFn : Fn Bool := fun ds => match ds with | a :: b :: _ => some (a || b) | _ => none
/-- the library's functions, stated directly -/
def exCust (i : Inst Nat Nat) : Fn Bool :=
  if i.op = 0 then exNotFn else if i.op = 1 then exOrFn else fun _ => none

theorem ex_hcall : ∀ (f : Fn Bool) args ds, exSem 99 [f] args ds = f ds := fun _ _ _ => rfl

theorem ex_hcust : ∀ i body, exLib i = .ok body → exCust i = evalCtx exSem exCust body := by
  intro i body hb
  obtain ⟨op, tys⟩ := i
  match op, hb with
  | 0, hb =>
    cases hb
    funext args
    match args with
    | [] => rfl
    | a :: _ => rfl
  | 1, hb =>
    cases hb
    funext args
    match args with
    | [] => rfl
    | [a] => rfl
    | a :: b :: _ => cases a <;> cases b <;> rfl
  | n + 2, hb => simp [exLib] at hb

example : evalRCtx exSem exResult.1 = evalCtx exSem exCust exCtx :=
  instantiate_eval exSem exCust ex_hcall ex_hcust ex_run

example : evalRCtx exSem exResult.1 [false, false] = some true ∧
    evalRCtx exSem exResult.1 [true, false] = some false := by decide

end CCV.Instantiate
