import CCV.Model.Shuffle
import CCV.Lemmas.PivotMul
/- Semantics of the sort-protocol skeleton in an arbitrary group (permutations under composition) and
   soundness of `freshOk`: an accepted certificate is a disciplined message system (`PivotMul.Disc`). -/
set_option linter.unusedSectionVars false
namespace CCV.Shuffle
open CCV.PivotMul
variable {G : Type} [Group G]

/-- value of a node: `x` = the inputs of the protocol graph, `ρ` = the fresh shared permutations; `sem` =
    the semantics of all other operations (arbitrary) -/
def evalNode (sem : Nat → List G → G) (x ρ : Nat → G) (env : List G) (n : Node) : G :=
  let args := n.deps.map (fun d => env.getD d 1)
  match n.k with
  | .hid i => x i
  | .mask v => ρ v
  | .mul => args.getD 0 1 * args.getD 1 1
  | .op tag => sem tag args

def evalRun (sem : Nat → List G → G) (x ρ : Nat → G) : List Node → List G → List G
  | [], env => env
  | n :: g, env => evalRun sem x ρ g (env ++ [evalNode sem x ρ env n])

/-- what a class promises about the value under `upd ρ v a` (r') versus under `ρ` (r) -/
def Rel (ρ : Nat → G) (v : Nat) (a : G) : Cls → G → G → Prop
  | .indep, r, r' => r' = r
  | .pos, r, r' => r' = r * (ρ v)⁻¹ * a
  | .bad, _, _ => True

theorem rel_clsMul (ρ : Nat → G) (v : Nat) (a : G) (c1 c2 : Cls) (r1 r1' r2 r2' : G)
    (h1 : Rel ρ v a c1 r1 r1') (h2 : Rel ρ v a c2 r2 r2') :
    Rel ρ v a (clsMul c1 c2) (r1 * r2) (r1' * r2') := by
  cases c1 <;> cases c2 <;> simp only [clsMul, Rel] at * <;>
    first | trivial | (subst h1; subst h2; simp [mul_assoc])

structure Inv (ρ : Nat → G) (v : Nat) (a : G) (cl : List Cls) (env env' : List G) : Prop where
  len1 : env.length = cl.length
  len2 : env'.length = cl.length
  rel : ∀ idx, idx < cl.length → Rel ρ v a (cl.getD idx .bad) (env.getD idx 1) (env'.getD idx 1)

theorem getD_append_lt {α : Type} (l : List α) (y d : α) (i : Nat) (h : i < l.length) :
    (l ++ [y]).getD i d = l.getD i d := by
  simp [List.getD_eq_getElem?_getD, List.getElem?_append_left h]

theorem getD_append_eq {α : Type} (l : List α) (y d : α) : (l ++ [y]).getD l.length d = y := by
  simp [List.getD_eq_getElem?_getD]

section
variable (sem : Nat → List G → G) (x ρ : Nat → G) (v : Nat) (a : G)

theorem step_rel (cl : List Cls) (env env' : List G) (hI : Inv ρ v a cl env env') (n : Node)
    (hsc : ∀ d ∈ n.deps, d < cl.length) :
    Rel ρ v a (clsNode v cl n) (evalNode sem x ρ env n) (evalNode sem x (upd ρ v a) env' n) := by
  have hdep : ∀ d, d < cl.length → Rel ρ v a (cl.getD d .bad) (env.getD d 1) (env'.getD d 1) := hI.rel
  unfold clsNode evalNode
  cases hk : n.k with
  | hid i => simp [Rel]
  | mask w =>
    simp only []
    by_cases e : w = v
    · subst e; simp only [if_true, Rel, upd_same]; simp
    · simp only [e, if_false, Rel]; exact upd_other ρ a e
  | mul =>
    simp only []
    by_cases h2 : n.deps.length = 2
    · simp only [h2, if_true]
      match hd : n.deps, h2 with
      | [d0, d1], _ =>
        have r0 := hdep d0 (hsc d0 (by rw [hd]; simp))
        have r1 := hdep d1 (hsc d1 (by rw [hd]; simp))
        have := rel_clsMul ρ v a _ _ _ _ _ _ r0 r1
        simpa using this
    · simp only [h2, if_false, Rel]
  | op tag =>
    simp only []
    by_cases hall : n.deps.all (fun j => cl.getD j .bad == .indep) = true
    · simp only [hall, if_true, Rel]
      congr 1
      apply List.map_congr_left
      intro d hd
      have hi : cl.getD d .bad = .indep := by
        have := List.all_eq_true.mp hall d hd
        simpa using this
      have := hdep d (hsc d hd)
      rw [hi] at this
      exact this
    · simp only [hall, Rel]; trivial

theorem step_inv (cl : List Cls) (env env' : List G) (hI : Inv ρ v a cl env env') (n : Node)
    (hsc : ∀ d ∈ n.deps, d < cl.length) :
    Inv ρ v a (cl ++ [clsNode v cl n]) (env ++ [evalNode sem x ρ env n])
      (env' ++ [evalNode sem x (upd ρ v a) env' n]) := by
  refine ⟨by simp [hI.len1], by simp [hI.len2], ?_⟩
  intro idx hidx
  simp only [List.length_append, List.length_singleton] at hidx
  by_cases h : idx < cl.length
  · rw [getD_append_lt cl _ _ idx h, getD_append_lt env _ _ idx (by rw [hI.len1]; exact h),
      getD_append_lt env' _ _ idx (by rw [hI.len2]; exact h)]
    exact hI.rel idx h
  · have e : idx = cl.length := by omega
    subst e
    have e1 := getD_append_eq cl (clsNode v cl n) Cls.bad
    have e2 : (env ++ [evalNode sem x ρ env n]).getD cl.length 1 = evalNode sem x ρ env n := by
      rw [← hI.len1]; exact getD_append_eq _ _ _
    have e3 : (env' ++ [evalNode sem x (upd ρ v a) env' n]).getD cl.length 1
        = evalNode sem x (upd ρ v a) env' n := by
      rw [← hI.len2]; exact getD_append_eq _ _ _
    rw [e1, e2, e3]
    exact step_rel sem x ρ v a cl env env' hI n hsc

theorem wellScoped_cons (n : Node) (g : List Node) (k : Nat) (h : wellScoped (n :: g) k = true) :
    (∀ d ∈ n.deps, d < k) ∧ wellScoped g (k + 1) = true := by
  simp only [wellScoped, Bool.and_eq_true, List.all_eq_true, decide_eq_true_eq] at h
  exact h

theorem run_inv : ∀ (g : List Node) (cl : List Cls) (env env' : List G),
    Inv ρ v a cl env env' → wellScoped g cl.length = true →
    Inv ρ v a (clsRun v g cl) (evalRun sem x ρ g env) (evalRun sem x (upd ρ v a) g env')
  | [], _, _, _, hI, _ => hI
  | n :: g, cl, env, env', hI, hw => by
    obtain ⟨hsc, hw'⟩ := wellScoped_cons n g _ hw
    simp only [clsRun, evalRun]
    apply run_inv g
    · exact step_inv sem x ρ v a cl env env' hI n hsc
    · simpa using hw'

theorem clsRun_length : ∀ (g : List Node) (cl : List Cls), (clsRun v g cl).length = cl.length + g.length
  | [], cl => by simp [clsRun]
  | n :: g, cl => by simp [clsRun, clsRun_length g]; omega

/-- **soundness of the class analysis** -/
theorem clsRun_sound (g : List Node) (hw : wellScoped g 0 = true) (m : Nat) (hm : m < g.length) :
    Rel ρ v a ((clsRun v g []).getD m .bad) ((evalRun sem x ρ g []).getD m 1)
      ((evalRun sem x (upd ρ v a) g []).getD m 1) :=
  (run_inv sem x ρ v a g [] [] [] ⟨rfl, rfl, fun _ h => absurd h (by simp)⟩ (by simpa using hw)).rel m
    (by rw [clsRun_length]; simpa using hm)

end

/-- the opened values as a message system -/
def toMsg (sem : Nat → List G → G) (g : List Node) (ov : Nat × Nat) : Msg (Nat → G) G :=
  ⟨fun x ρ => (evalRun sem x ρ g []).getD ov.1 1, ov.2⟩

theorem freshOkAux_disc (sem : Nat → List G → G) (g : List Node) (hw : wellScoped g 0 = true) :
    ∀ (cert : Cert), (∀ ov ∈ cert, ov.1 < g.length) →
    freshOkAux g cert = true → Disc (cert.map (toMsg sem g))
  | [], _, _ => Disc.nil
  | (o, v) :: rest, hr, h => by
    simp only [freshOkAux, Bool.and_eq_true, List.all_eq_true, beq_iff_eq] at h
    obtain ⟨⟨hcls, hrest⟩, haux⟩ := h
    have ho : o < g.length := hr (o, v) (by simp)
    simp only [List.map_cons]
    refine Disc.cons _ _ ?_ ?_ (freshOkAux_disc sem g hw rest (fun ov h => hr ov (by simp [h])) haux)
    · -- RShift
      intro x ρ
      have := clsRun_sound sem x ρ v 1 g hw o ho
      rw [hcls] at this
      simp only [Rel] at this
      show (evalRun sem x ρ g []).getD o 1 = (evalRun sem x (upd ρ v 1) g []).getD o 1 * ρ v
      rw [this]; simp
    · intro m' hm'
      obtain ⟨ov', hov', rfl⟩ := List.mem_map.mp hm'
      have hh := hrest ov' hov'
      simp only [Bool.and_eq_true, beq_iff_eq, bne_iff_ne, ne_eq] at hh
      refine ⟨?_, ?_⟩
      · intro x ρ a
        have := clsRun_sound sem x ρ v a g hw ov'.1 (hr ov' (by simp [hov']))
        show (evalRun sem x (upd ρ v a) g []).getD ov'.1 1 = (evalRun sem x ρ g []).getD ov'.1 1
        rw [hh.1] at this; exact this
      · exact hh.2

/-- **soundness of the checker** -/
theorem freshOk_disc (sem : Nat → List G → G) (g : List Node) (cert : Cert)
    (h : freshOk g cert = true) : Disc (cert.map (toMsg sem g)) := by
  simp only [freshOk, Bool.and_eq_true, List.all_eq_true, decide_eq_true_eq] at h
  exact freshOkAux_disc sem g h.1.1.1 cert (fun ov hov => h.1.1.2 ov hov) h.2

end CCV.Shuffle
