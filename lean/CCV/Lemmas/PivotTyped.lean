import CCV.Lemmas.Pivot
/-
  The mask discipline with TYPES.

  The nodes of a compiled graph carry values of different types (arrays of different shapes and scalar
  types).  All of them are modelled inside one additive commutative group `R` (think of the product of
  all carrier groups); a type is a predicate on `R` closed under 0, + and − (a subgroup: one factor of
  the product).  A tape variable `v` ranges over its own type `H v` only — the real tape is uniform on
  the TYPED tapes, not on all of `ℕ → R`.

  `exists_sim_typed` strengthens `Pivot.exists_sim`: if every message takes its values in the type of
  its pivot (on typed tapes and admissible secrets), the simulation maps typed tapes to typed tapes, in
  both directions.  Hence it restricts to a bijection of the typed tapes (`Proofs/C03.lean`,
  `typed_discipline_hides`).
-/
set_option linter.unusedSectionVars false
namespace CCV.Pivot
variable {R X : Type} [AddCommGroup R]

/-- a family of types (subgroups of `R`), one per tape variable -/
structure Types (R : Type) [AddCommGroup R] where
  H : Nat → R → Prop
  zero : ∀ v, H v 0
  add : ∀ v a b, H v a → H v b → H v (a + b)
  neg : ∀ v a, H v a → H v (-a)

theorem Types.sub (T : Types R) (v : Nat) (a b : R) (ha : T.H v a) (hb : T.H v b) : T.H v (a - b) := by
  rw [sub_eq_add_neg]; exact T.add v a (-b) ha (T.neg v b hb)

theorem Types.sg (T : Types R) (v : Nat) (b : Bool) (a : R) (ha : T.H v a) : T.H v (sg b a) := by
  cases b
  · simpa [Pivot.sg] using ha
  · simpa [Pivot.sg] using T.neg v a ha

/-- every coordinate of the tape lies in its type -/
def TypedTape (T : Types R) (ρ : Nat → R) : Prop := ∀ v, T.H v (ρ v)

theorem TypedTape.upd {T : Types R} {ρ : Nat → R} (h : TypedTape T ρ) (v : Nat) (a : R) (ha : T.H v a) :
    TypedTape T (upd ρ v a) := by
  intro w
  by_cases e : w = v
  · subst e; rw [upd_same]; exact ha
  · rw [upd_other ρ a e]; exact h w

/-- the message takes its values in the type of its pivot -/
def MsgTyped (T : Types R) (PX : X → Prop) (m : Msg X R) : Prop :=
  ∀ x ρ, PX x → TypedTape T ρ → T.H m.piv (m.f x ρ)

/-- a simulation that respects the types -/
structure SimT (T : Types R) (msgs : List (Msg X R)) (x x' : X) (σ τ : (Nat → R) → (Nat → R)) : Prop
    extends Sim msgs x x' σ τ where
  typedσ : ∀ ρ, TypedTape T ρ → TypedTape T (σ ρ)
  typedτ : ∀ ρ, TypedTape T ρ → TypedTape T (τ ρ)

/-- **the discipline is sound on typed tapes** -/
theorem exists_sim_typed (T : Types R) (PX : X → Prop) : ∀ (msgs : List (Msg X R)), Disc msgs →
    (∀ m ∈ msgs, MsgTyped T PX m) → ∀ x x' : X, PX x → PX x' →
    ∃ σ τ : (Nat → R) → (Nat → R), SimT T msgs x x' σ τ
  | [], _, _, x, x', _, _ =>
    ⟨id, id, ⟨⟨fun _ => rfl, fun _ => rfl, fun _ m hm => absurd hm (by simp), fun _ _ _ => rfl,
      fun _ _ _ => rfl, fun _ _ _ _ => rfl, fun _ _ _ _ => rfl⟩, fun _ h => h, fun _ h => h⟩⟩
  | m :: rest, .cons _ _ hs hind hrest, hty, x, x', hx, hx' => by
    obtain ⟨σ0, τ0, S⟩ := exists_sim_typed T PX rest hrest (fun m' hm' => hty m' (by simp [hm'])) x x' hx hx'
    have hmty : MsgTyped T PX m := hty m (by simp)
    have hp : ∀ m' ∈ rest, m.piv ≠ m'.piv ∧ IndepOf m' m.piv :=
      fun m' hm' => ⟨fun h => (hind m' hm').2 h.symm, (hind m' hm').1⟩
    have hpne : ∀ m' ∈ rest, m.piv ≠ m'.piv := fun m' hm' => (hp m' hm').1
    let D : (Nat → R) → (Nat → R) → R := fun r t => sg m.neg (m.f x r - m.f x' t)
    have hDty : ∀ r t, TypedTape T r → TypedTape T t → T.H m.piv (D r t) := fun r t hr ht =>
      T.sg _ _ _ (T.sub _ _ _ (hmty x r hx hr) (hmty x' t hx' ht))
    let σ : (Nat → R) → (Nat → R) := fun ρ =>
      upd (σ0 ρ) m.piv (σ0 ρ m.piv + D ρ (σ0 ρ))
    let τ : (Nat → R) → (Nat → R) := fun ρ' =>
      upd (τ0 (upd ρ' m.piv 0)) m.piv (ρ' m.piv - D (τ0 (upd ρ' m.piv 0)) (upd ρ' m.piv 0))
    have hD : ∀ (r t : Nat → R), r m.piv = t m.piv →
        D r t = D (upd r m.piv 0) (upd t m.piv 0) := by
      intro r t h
      show sg m.neg (m.f x r - m.f x' t) = sg m.neg (m.f x (upd r m.piv 0) - m.f x' (upd t m.piv 0))
      rw [shift_zero m hs x r, shift_zero m hs x' t, h]
      congr 1; abel
    have hσ0p : ∀ ρ, σ0 ρ m.piv = ρ m.piv := fun ρ => S.fixσ ρ _ hpne
    have hτ0p : ∀ ρ, τ0 ρ m.piv = ρ m.piv := fun ρ => S.fixτ ρ _ hpne
    have hcσ : ∀ ρ a, σ0 (upd ρ m.piv a) = upd (σ0 ρ) m.piv a := S.commσ _ hp
    have hcτ : ∀ ρ a, τ0 (upd ρ m.piv a) = upd (τ0 ρ) m.piv a := S.commτ _ hp
    refine ⟨σ, τ, ⟨⟨?_, ?_, ?_, ?_, ?_, ?_, ?_⟩, ?_, ?_⟩⟩
    · intro ρ
      show upd (τ0 (upd (σ ρ) m.piv 0)) m.piv
          ((σ ρ) m.piv - D (τ0 (upd (σ ρ) m.piv 0)) (upd (σ ρ) m.piv 0)) = ρ
      have e1 : upd (σ ρ) m.piv 0 = σ0 (upd ρ m.piv 0) := by
        show upd (upd (σ0 ρ) m.piv _) m.piv 0 = _
        rw [upd_upd, hcσ]
      have e2 : τ0 (upd (σ ρ) m.piv 0) = upd ρ m.piv 0 := by rw [e1, S.left]
      have e3 : (σ ρ) m.piv = ρ m.piv + D ρ (σ0 ρ) := by
        show upd (σ0 ρ) m.piv _ m.piv = _
        rw [upd_same, hσ0p]
      have e4 : D ρ (σ0 ρ) = D (upd ρ m.piv 0) (σ0 (upd ρ m.piv 0)) := by
        rw [hD ρ (σ0 ρ) (hσ0p ρ).symm, hcσ]
      rw [e2, e3, e1, e4]
      have : ρ m.piv + D (upd ρ m.piv 0) (σ0 (upd ρ m.piv 0)) - D (upd ρ m.piv 0) (σ0 (upd ρ m.piv 0)) = ρ m.piv := by
        abel
      rw [this, upd_upd, upd_self]
    · intro ρ'
      let r0 := τ0 (upd ρ' m.piv 0)
      have hr0 : σ0 r0 = upd ρ' m.piv 0 := S.right _
      have hr0p : r0 m.piv = 0 := by
        show τ0 (upd ρ' m.piv 0) m.piv = 0
        rw [hτ0p, upd_same]
      let r := upd r0 m.piv (ρ' m.piv - D r0 (upd ρ' m.piv 0))
      show upd (σ0 r) m.piv (σ0 r m.piv + D r (σ0 r)) = ρ'
      have e1 : σ0 r = upd (upd ρ' m.piv 0) m.piv (ρ' m.piv - D r0 (upd ρ' m.piv 0)) := by
        show σ0 (upd r0 m.piv _) = _
        rw [hcσ, hr0]
      have e1' : σ0 r = upd ρ' m.piv (ρ' m.piv - D r0 (upd ρ' m.piv 0)) := by rw [e1, upd_upd]
      have e2 : D r (σ0 r) = D r0 (upd ρ' m.piv 0) := by
        have hrp : r m.piv = (σ0 r) m.piv := by rw [hσ0p]
        rw [hD r (σ0 r) hrp]
        have a1 : upd r m.piv 0 = r0 := by
          show upd (upd r0 m.piv _) m.piv 0 = r0
          rw [upd_upd]; conv_rhs => rw [← upd_self r0 m.piv, hr0p]
        have a2 : upd (σ0 r) m.piv 0 = upd ρ' m.piv 0 := by rw [e1', upd_upd]
        rw [a1, a2]
      rw [e2, e1', upd_same, upd_upd]
      have : ρ' m.piv - D r0 (upd ρ' m.piv 0) + D r0 (upd ρ' m.piv 0) = ρ' m.piv := by abel
      rw [this, upd_self]
    · intro ρ m' hm'
      simp only [List.mem_cons] at hm'
      rcases hm' with rfl | hm'
      · show m'.f x ρ = m'.f x' (upd (σ0 ρ) m'.piv (σ0 ρ m'.piv + D ρ (σ0 ρ)))
        rw [hs x' (σ0 ρ)]
        have : σ0 ρ m'.piv + D ρ (σ0 ρ) - σ0 ρ m'.piv = D ρ (σ0 ρ) := by abel
        rw [this]
        show m'.f x ρ = m'.f x' (σ0 ρ) + sg m'.neg (sg m'.neg (m'.f x ρ - m'.f x' (σ0 ρ)))
        rw [sg_sg]; abel
      · show m'.f x ρ = m'.f x' (upd (σ0 ρ) m.piv _)
        rw [(hind m' hm').1 x' (σ0 ρ), S.align ρ m' hm']
    · intro ρ v hv
      have hvp : v ≠ m.piv := hv m (by simp)
      show upd (σ0 ρ) m.piv _ v = ρ v
      rw [upd_other _ _ hvp]
      exact S.fixσ ρ v (fun m' hm' => hv m' (by simp [hm']))
    · intro ρ' v hv
      have hvp : v ≠ m.piv := hv m (by simp)
      show upd (τ0 (upd ρ' m.piv 0)) m.piv _ v = ρ' v
      rw [upd_other _ _ hvp, S.fixτ _ v (fun m' hm' => hv m' (by simp [hm'])), upd_other _ _ hvp]
    · intro u hu ρ a
      have hup : u ≠ m.piv := (hu m (by simp)).1
      have hum : IndepOf m u := (hu m (by simp)).2
      have hu0 : ∀ m' ∈ rest, u ≠ m'.piv ∧ IndepOf m' u := fun m' hm' => hu m' (by simp [hm'])
      show upd (σ0 (upd ρ u a)) m.piv (σ0 (upd ρ u a) m.piv + D (upd ρ u a) (σ0 (upd ρ u a)))
        = upd (upd (σ0 ρ) m.piv (σ0 ρ m.piv + D ρ (σ0 ρ))) u a
      rw [S.commσ u hu0 ρ a]
      have d : D (upd ρ u a) (upd (σ0 ρ) u a) = D ρ (σ0 ρ) := by
        show sg m.neg (m.f x (upd ρ u a) - m.f x' (upd (σ0 ρ) u a)) = sg m.neg (m.f x ρ - m.f x' (σ0 ρ))
        rw [hum x ρ a, hum x' (σ0 ρ) a]
      rw [d, upd_other _ _ (Ne.symm hup), upd_comm _ _ _ hup]
    · intro u hu ρ' a
      have hup : u ≠ m.piv := (hu m (by simp)).1
      have hum : IndepOf m u := (hu m (by simp)).2
      have hu0 : ∀ m' ∈ rest, u ≠ m'.piv ∧ IndepOf m' u := fun m' hm' => hu m' (by simp [hm'])
      show upd (τ0 (upd (upd ρ' u a) m.piv 0)) m.piv
          ((upd ρ' u a) m.piv - D (τ0 (upd (upd ρ' u a) m.piv 0)) (upd (upd ρ' u a) m.piv 0))
        = upd (upd (τ0 (upd ρ' m.piv 0)) m.piv (ρ' m.piv - D (τ0 (upd ρ' m.piv 0)) (upd ρ' m.piv 0))) u a
      rw [upd_comm ρ' a 0 hup, S.commτ u hu0, upd_other _ _ (Ne.symm hup)]
      have d : D (upd (τ0 (upd ρ' m.piv 0)) u a) (upd (upd ρ' m.piv 0) u a)
          = D (τ0 (upd ρ' m.piv 0)) (upd ρ' m.piv 0) := by
        show sg m.neg (m.f x (upd _ u a) - m.f x' (upd _ u a)) = sg m.neg (m.f x _ - m.f x' _)
        rw [hum x _ a, hum x' _ a]
      rw [d, upd_comm _ _ _ hup]
    · -- σ keeps typed tapes typed
      intro ρ hρ
      have h0 : TypedTape T (σ0 ρ) := S.typedσ ρ hρ
      exact h0.upd m.piv _ (T.add _ _ _ (h0 m.piv) (hDty ρ (σ0 ρ) hρ h0))
    · -- τ keeps typed tapes typed
      intro ρ' hρ'
      have h1 : TypedTape T (upd ρ' m.piv 0) := hρ'.upd m.piv 0 (T.zero _)
      have h2 : TypedTape T (τ0 (upd ρ' m.piv 0)) := S.typedτ _ h1
      exact h2.upd m.piv _ (T.sub _ _ _ (hρ' m.piv) (hDty _ _ h2 h1))

end CCV.Pivot
