import CCV.Model.Ops
import CCV.Model.Spec
import CCV.Lemmas.Shape
import CCV.Lemmas.Kernels
import CCV.Lemmas.Bytes
import CCV.Lemmas.OpsPerm
/-!
  Plaintext `Truncate`, `A2B` / `B2A` (byte-level re-interpretation through the codecs of bytes.rs)
  and `ApplyPermutation` of the evaluator model.
-/
namespace CCV.Ops
open CCV CCV.Shape

/-! ### Truncate -/

theorem tdiv_bounds (v : Int) (s : Nat) :
    (0 ≤ v → 0 ≤ Int.tdiv v s ∧ Int.tdiv v s ≤ v) ∧ (v ≤ 0 → v ≤ Int.tdiv v s ∧ Int.tdiv v s ≤ 0) := by
  constructor
  · intro h
    exact ⟨Int.tdiv_nonneg h (Int.natCast_nonneg s), Int.tdiv_le_self _ h⟩
  · intro h
    have h0 : 0 ≤ -v := by omega
    have e : v = -(-v) := by omega
    have h1 := Int.tdiv_nonneg h0 (Int.natCast_nonneg s)
    have h2 := Int.tdiv_le_self (s : Int) h0
    rw [Int.neg_tdiv] at h1 h2
    omega

/-- unsigned types: no bound on the scale -/
theorem truncElem_unsigned (st : ST) (h : st.signed = false) (scale r : Nat) (hr : r < 2 ^ st.bits) :
    truncElem st scale r = r / scale := by
  have hle : r / scale ≤ r := Nat.div_le_self _ _
  simp only [truncElem, h, ext, Bool.false_eq_true, false_and, if_false, low]
  exact Nat.mod_eq_of_lt (by omega)

theorem asI128_ext (st : ST) (hsg : st.signed = true) (r : Nat) (hr : r < 2 ^ st.bits) :
    asI128 (ext st r) = st.toInt r := by
  cases st <;> first | exact absurd hsg (by decide) | skip
  all_goals
    simp only [ST.bits] at hr
    simp only [asI128, ext, ST.toInt, ST.signed, ST.bits, true_and]
    split <;> split <;> omega

theorem toInt_signed_bounds (st : ST) (hsg : st.signed = true) (r : Nat) :
    -((2 ^ (st.bits - 1) : Nat) : Int) ≤ st.toInt r ∧ st.toInt r < ((2 ^ (st.bits - 1) : Nat) : Int) ∧
      ¬ ((2 ^ st.bits / 2 : Nat) : Int) ≤ st.toInt r := by
  cases st <;> first | exact absurd hsg (by decide) | skip
  all_goals
    simp only [ST.toInt, ST.signed, ST.bits, true_and]
    split <;> omega

set_option linter.unusedVariables false in
/-- plaintext Truncate: every entry is the denoted integer divided by `scale`, rounding toward zero,
    back in the type.  (Signed types need `scale ≤ i128::MAX`, which the type checker enforces; in
    the model `scale` is an unbounded `Nat`, so `hs`, `hs'` are not used by the proof: for
    `scale = 0` both sides are `0` because `Int.tdiv _ 0 = 0`.) -/
theorem truncElem_spec (st : ST) (scale r : Nat) (hs : 0 < scale) (hs' : scale < 2 ^ 127) (hr : r < 2 ^ st.bits) :
    truncElem st scale r = st.ofInt (Int.tdiv (st.toInt r) scale) := by
  by_cases hsg : st.signed = false
  · rw [truncElem_unsigned st hsg scale r hr]
    have : st.toInt r = (r : Int) := by
      simp only [ST.toInt, hsg, Bool.false_eq_true, false_and, if_false, Nat.mod_eq_of_lt hr]
    rw [this, ← Int.ofNat_tdiv, ofInt_natCast]
    exact (Nat.mod_eq_of_lt (by have := Nat.div_le_self r scale; omega)).symm
  · have hsg : st.signed = true := by simpa using hsg
    have hA := asI128_ext st hsg r hr
    have hC := toInt_signed_bounds st hsg r
    have hb := tdiv_bounds (st.toInt r) scale
    simp only [truncElem, hsg, if_true, hA]
    generalize st.toInt r = v at *
    cases st <;> first | exact absurd hsg (by decide) | skip
    all_goals
      simp only [ST.bits] at hC
      simp only [modulus, ST.bits, low, Bytes.asU128, ST.ofInt, Nat.reduceEqDiff, if_false, if_true]
    case i128 =>
      generalize hq : v.tdiv scale = q at *
      omega
    all_goals
      rw [if_neg hC.2.2]
      generalize hq : v.tdiv scale = q at *
      split <;> omega
/-- the whole array -/
theorem truncate_spec (st : ST) (scale : Nat) (xs : List Nat) (hs : 0 < scale) (hs' : scale < 2 ^ 127)
    (hx : ∀ x ∈ xs, x < 2 ^ st.bits) :
    truncate st scale xs = xs.map fun r => st.ofInt (Int.tdiv (st.toInt r) scale) :=
  List.map_congr_left fun r hr => truncElem_spec st scale r hs hs' (hx r hr)

example : truncate .i8 3 [249, 7, 128] = [254, 2, 214] := by decide

/-- non-vacuity: i8 `-7 / 3 = -2 ↦ 254`; u128 above 2^64; i128 `-7 / 2 = -3`; i64 -/
example : truncElem .i8 3 249 = 254 := by decide
example : truncElem .u128 (2 ^ 64) (2 ^ 100 + 7) = 2 ^ 36 := by decide
example : truncElem .i128 2 (2 ^ 128 - 7) = 2 ^ 128 - 3 := by decide
example : truncElem .i64 10 (2 ^ 64 - 25) = 2 ^ 64 - 2 := by decide

/-! ### A2B -/

theorem vecToBytes_nonbit (st : ST) (hst : st ≠ .bit) (l : List Int) :
    Bytes.vecToBytes st l = .ok (l.flatMap fun x => Bytes.leBytes (Bytes.asU128 x) st.byteLen) := by
  cases st <;> first | exact absurd rfl hst | rfl

theorem bits_eq_byteLen (st : ST) (hst : st ≠ .bit) : st.bits = 8 * st.byteLen := by
  cases st <;> first | exact absurd rfl hst | rfl

theorem asU128_natCast (x : Nat) (h : x < 2 ^ 128) : Bytes.asU128 (x : Int) = x := by
  unfold Bytes.asU128
  rw [← Int.natCast_emod, Int.toNat_natCast, Nat.mod_eq_of_lt h]

theorem unpackByte_eq (x : Nat) :
    Bytes.unpackByte (x % 256) = (List.range 8).map fun k => x / 2 ^ k % 2 := by
  have : List.range 8 = [0, 1, 2, 3, 4, 5, 6, 7] := rfl
  rw [this]
  simp only [Bytes.unpackByte, List.map_cons, List.map_nil, Nat.reducePow]
  have h0 : x % 256 % 2 = x / 1 % 2 := by omega
  have h1 : x % 256 / 2 % 2 = x / 2 % 2 := by omega
  have h2 : x % 256 / 4 % 2 = x / 4 % 2 := by omega
  have h3 : x % 256 / 8 % 2 = x / 8 % 2 := by omega
  have h4 : x % 256 / 16 % 2 = x / 16 % 2 := by omega
  have h5 : x % 256 / 32 % 2 = x / 32 % 2 := by omega
  have h6 : x % 256 / 64 % 2 = x / 64 % 2 := by omega
  have h7 : x % 256 / 128 % 2 = x / 128 % 2 := by omega
  rw [h0, h1, h2, h3, h4, h5, h6, h7]

/-- the bits of the first `bl` little-endian bytes are the first `8 bl` bits -/
theorem leBytes_unpack (x bl : Nat) :
    (Bytes.leBytes x bl).flatMap Bytes.unpackByte = (List.range (8 * bl)).map fun k => x / 2 ^ k % 2 := by
  induction bl generalizing x with
  | zero => rfl
  | succ bl ih =>
    rw [show 8 * (bl + 1) = 8 + 8 * bl by omega, List.range_add, List.map_append, List.map_map]
    simp only [Bytes.leBytes, List.flatMap_cons, ih, unpackByte_eq]
    congr 1
    apply List.map_congr_left
    intro k _
    simp only [Function.comp]
    rw [Nat.div_div_eq_div_mul, Nat.pow_add]

theorem flatMap_congr' {α β : Type} (l : List α) (f g : α → List β) (h : ∀ a ∈ l, f a = g a) :
    l.flatMap f = l.flatMap g := by
  induction l with
  | nil => rfl
  | cons a l ih =>
    rw [List.flatMap_cons, List.flatMap_cons, h a List.mem_cons_self,
      ih (fun b hb => h b (List.mem_cons_of_mem _ hb))]

theorem length_flatMap_const {α β : Type} (l : List α) (f : α → List β) (n : Nat)
    (h : ∀ a ∈ l, (f a).length = n) : (l.flatMap f).length = l.length * n := by
  induction l with
  | nil => simp
  | cons a l ih =>
    rw [List.flatMap_cons, List.length_append, h a List.mem_cons_self,
      ih (fun b hb => h b (List.mem_cons_of_mem _ hb)), List.length_cons, Nat.add_mul, Nat.one_mul,
      Nat.add_comm]

/-- A2B: the bits of every residue, least significant first (`w` bits per element) -/
theorem a2b_spec (st : ST) (hst : st ≠ .bit) (xs : List Nat) (hx : ∀ x ∈ xs, x < 2 ^ st.bits) :
    a2b st xs = .ok (xs.flatMap fun x => (List.range st.bits).map fun k => x / 2 ^ k % 2) := by
  have hbits := bits_eq_byteLen st hst
  have hmain : ((xs.map Int.ofNat).flatMap fun x => Bytes.leBytes (Bytes.asU128 x) st.byteLen).flatMap
      Bytes.unpackByte = xs.flatMap fun x => (List.range st.bits).map fun k => x / 2 ^ k % 2 := by
    rw [List.flatMap_assoc, List.flatMap_map]
    apply flatMap_congr'
    intro x hxm
    have h128 : x < 2 ^ 128 := Nat.lt_of_lt_of_le (hx x hxm) (Nat.pow_le_pow_right (by decide) (bits_le st))
    show (Bytes.leBytes (Bytes.asU128 ((x : Nat) : Int)) st.byteLen).flatMap Bytes.unpackByte = _
    rw [asU128_natCast x h128, leBytes_unpack, hbits]
  unfold a2b
  rw [vecToBytes_nonbit st hst]
  show Except.ok ((((xs.map Int.ofNat).flatMap fun x => Bytes.leBytes (Bytes.asU128 x) st.byteLen).flatMap
      Bytes.unpackByte).take (xs.length * st.bits)) = _
  rw [hmain, List.take_of_length_le]
  rw [length_flatMap_const _ _ st.bits (fun a _ => by simp)]
  exact Nat.le_refl _

example : a2b .u8 [5, 255] = .ok [1, 0, 1, 0, 0, 0, 0, 0, 1, 1, 1, 1, 1, 1, 1, 1] := rfl
example : a2b .i16 [65534] = .ok [0, 1, 1, 1, 1, 1, 1, 1, 1, 1, 1, 1, 1, 1, 1, 1] := rfl

/-! ### B2A -/

theorem chunks8_nil {α : Type} : Bytes.chunks8 ([] : List α) = [] := by
  rw [Bytes.chunks8]; simp

theorem chunks8_ne_nil {α : Type} (xs : List α) (h : xs ≠ []) :
    Bytes.chunks8 xs = xs.take 8 :: Bytes.chunks8 (xs.drop 8) := by
  rw [Bytes.chunks8]; simp [h]

/-- chunking a block of `8 n` elements followed by anything -/
theorem chunks8_append {α : Type} (n : Nat) (a b : List α) (ha : a.length = 8 * n) :
    Bytes.chunks8 (a ++ b) = Bytes.chunks8 a ++ Bytes.chunks8 b := by
  induction n generalizing a with
  | zero =>
    have : a = [] := List.eq_nil_of_length_eq_zero (by omega)
    subst this
    rw [chunks8_nil]; rfl
  | succ n ih =>
    have hne : a ≠ [] := by intro h; subst h; simp at ha
    have hne' : a ++ b ≠ [] := by simp [hne]
    rw [chunks8_ne_nil _ hne', chunks8_ne_nil _ hne,
      List.take_append_of_le_length (by omega), List.drop_append_of_le_length (by omega),
      ih (a.drop 8) (by rw [List.length_drop]; omega)]
    rfl

theorem chunks8_length {α : Type} (n : Nat) (a : List α) (ha : a.length = 8 * n) :
    (Bytes.chunks8 a).length = n := by
  induction n generalizing a with
  | zero =>
    have : a = [] := List.eq_nil_of_length_eq_zero (by omega)
    subst this
    rw [chunks8_nil]; rfl
  | succ n ih =>
    have hne : a ≠ [] := by intro h; subst h; simp at ha
    rw [chunks8_ne_nil _ hne, List.length_cons, ih (a.drop 8) (by rw [List.length_drop]; omega)]

theorem chunks8_flatMap {α : Type} (n : Nat) (cs : List (List α)) (hc : ∀ c ∈ cs, c.length = 8 * n) :
    Bytes.chunks8 (cs.flatMap id) = cs.flatMap Bytes.chunks8 := by
  induction cs with
  | nil => exact chunks8_nil
  | cons c cs ih =>
    rw [List.flatMap_cons, List.flatMap_cons, id, chunks8_append n c _ (hc c List.mem_cons_self),
      ih (fun d hd => hc d (List.mem_cons_of_mem _ hd))]

theorem chunks8_map {α β : Type} (f : α → β) (n : Nat) (a : List α) (ha : a.length ≤ n) :
    Bytes.chunks8 (a.map f) = (Bytes.chunks8 a).map (List.map f) := by
  induction n generalizing a with
  | zero =>
    have : a = [] := List.eq_nil_of_length_eq_zero (by omega)
    subst this
    rw [List.map_nil, chunks8_nil, chunks8_nil]; rfl
  | succ n ih =>
    by_cases hne : a = []
    · subst hne; rw [List.map_nil, chunks8_nil, chunks8_nil]; rfl
    · have hne' : a.map f ≠ [] := by simpa using hne
      have hpos : 0 < a.length := List.length_pos_iff.mpr hne
      rw [chunks8_ne_nil _ hne', chunks8_ne_nil _ hne, List.map_cons, ← List.map_take, ← List.map_drop,
        ih (a.drop 8) (by rw [List.length_drop]; omega)]

theorem packBits_append (a b : List Nat) :
    Bytes.packBits (a ++ b) = Bytes.packBits a + 2 ^ a.length * Bytes.packBits b := by
  induction a with
  | nil => simp [Bytes.packBits]
  | cons x a ih =>
    simp only [List.cons_append, Bytes.packBits, ih, List.length_cons, Nat.pow_succ]
    rw [Nat.mul_add, Nat.add_assoc, ← Nat.mul_assoc, Nat.mul_comm 2 (2 ^ a.length)]

theorem packBits_lt (c : List Nat) (h : ∀ b ∈ c, b < 2) : Bytes.packBits c < 2 ^ c.length := by
  induction c with
  | nil => simp [Bytes.packBits]
  | cons x c ih =>
    have hx := h x List.mem_cons_self
    have := ih (fun b hb => h b (List.mem_cons_of_mem _ hb))
    simp only [Bytes.packBits, List.length_cons, Nat.pow_succ]
    omega

/-- the little-endian value of the packed bytes is the packed value of all bits -/
theorem fromLE_chunks8 (n : Nat) (c : List Nat) (hn : c.length ≤ n) :
    Bytes.fromLE ((Bytes.chunks8 c).map Bytes.packBits) = Bytes.packBits c := by
  induction n generalizing c with
  | zero =>
    have : c = [] := List.eq_nil_of_length_eq_zero (by omega)
    subst this
    rw [chunks8_nil]; rfl
  | succ n ih =>
    by_cases hne : c = []
    · subst hne; rw [chunks8_nil]; rfl
    · have hpos : 0 < c.length := List.length_pos_iff.mpr hne
      rw [chunks8_ne_nil _ hne, List.map_cons, Bytes.fromLE,
        ih (c.drop 8) (by rw [List.length_drop]; omega)]
      conv => rhs; rw [← List.take_append_drop 8 c, packBits_append]
      by_cases h8 : 8 ≤ c.length
      · rw [List.length_take, Nat.min_eq_left h8]
      · have : c.drop 8 = [] := List.drop_eq_nil_of_le (by omega)
        rw [this]; simp [Bytes.packBits]

theorem chunksExact_flatMap (k : Nat) (bs : List (List Nat)) (hb : ∀ b ∈ bs, b.length = k) :
    Bytes.chunksExact k bs.length (bs.flatMap id) = bs := by
  induction bs with
  | nil => rfl
  | cons b bs ih =>
    have hl := hb b List.mem_cons_self
    rw [List.length_cons, List.flatMap_cons, id, Bytes.chunksExact,
      List.take_append_of_le_length (by omega), List.drop_append_of_le_length (by omega),
      List.take_of_length_le (by omega), List.drop_of_length_le (by omega), List.nil_append,
      ih (fun d hd => hb d (List.mem_cons_of_mem _ hd))]

private theorem ite_mod_eq (c : Prop) [Decidable c] (a b m v : Nat) (ha : a % m = v) (hb : b % m = v) :
    (if c then a else b) % m = v := by
  split <;> assumption

theorem low_signPad (st : ST) (hst : st ≠ .bit) (v : Nat) (hv : v < 2 ^ st.bits) :
    low st (Bytes.signPad 128 st v) = v := by
  cases st <;> first | exact absurd rfl hst | skip
  all_goals
    simp only [ST.bits] at hv
    simp only [low, Bytes.signPad, ST.byteLen, ST.bits, ST.signed, Bool.false_eq_true, false_and,
      true_and, if_false, Nat.reduceAdd, Nat.reduceDiv, Nat.reduceMul, Nat.reduceLT, if_true]
  all_goals first
    | exact Nat.mod_eq_of_lt hv
    | (apply ite_mod_eq
       · rw [Bytes.or_mask v _ 128 hv (by decide)]; omega
       · exact Nat.mod_eq_of_lt hv)

theorem vecU128FromBytes_nonbit (st : ST) (hst : st ≠ .bit) (bytes : List Nat) :
    Bytes.vecU128FromBytes st bytes =
      if bytes.length % st.byteLen != 0 then .error "Incompatible vector and scalar type"
      else .ok ((Bytes.chunksExact st.byteLen (bytes.length / st.byteLen) bytes).map
        (fun c => Bytes.signPad 128 st (Bytes.fromLE (c.take (128 / 8))))) := by
  cases st <;> first | exact absurd rfl hst | rfl

private theorem map_toNat_ofNat (c : List Nat) : (c.map Int.ofNat).map Int.toNat = c := by
  induction c with
  | nil => rfl
  | cons a c ih => rw [List.map_cons, List.map_cons, ih]; rfl

/-- B2A: `w` bits (least significant first) per element give `Σ b_k 2^k` -/
theorem b2a_spec (st : ST) (hst : st ≠ .bit) (cs : List (List Nat)) (hc : ∀ c ∈ cs, c.length = st.bits ∧ ∀ b ∈ c, b < 2) :
    b2a st (cs.flatMap id) = .ok (cs.map Bytes.packBits) := by
  have hbits := bits_eq_byteLen st hst
  have hblpos : 0 < st.byteLen := by cases st <;> first | exact absurd rfl hst | decide
  have hbl16 : st.byteLen ≤ 16 := by cases st <;> decide
  have hc8 : ∀ c ∈ cs, c.length = 8 * st.byteLen := fun c h => hbits ▸ (hc c h).1
  let G : List Nat → List Nat := fun c => (Bytes.chunks8 c).map Bytes.packBits
  have hG : ∀ b ∈ cs.map G, b.length = st.byteLen := by
    intro b hb
    obtain ⟨c, hcm, rfl⟩ := List.mem_map.mp hb
    simp only [G, List.length_map]
    exact chunks8_length _ c (hc8 c hcm)
  have hall : ((cs.flatMap id).map Int.ofNat).all Bytes.isBit = true := by
    rw [List.all_eq_true]; intro x hx
    simp only [List.mem_map, List.mem_flatMap, id] at hx
    obtain ⟨b, ⟨c, hcm, hbc⟩, rfl⟩ := hx
    have := (hc c hcm).2 b hbc
    have : b = 0 ∨ b = 1 := by omega
    rcases this with rfl | rfl <;> rfl
  have hbytes : (Bytes.chunks8 ((cs.flatMap id).map Int.ofNat)).map (fun c => Bytes.packBits (c.map Int.toNat))
      = (cs.map G).flatMap id := by
    rw [chunks8_map _ _ _ (Nat.le_refl _), List.map_map, chunks8_flatMap _ cs hc8, List.map_flatMap,
      List.flatMap_map]
    apply flatMap_congr'
    intro c _
    simp only [G, id]
    apply List.map_congr_left
    intro d _
    simp only [Function.comp_apply, map_toNat_ofNat]
  have e1 : Bytes.vecToBytes .bit ((cs.flatMap id).map Int.ofNat) = .ok ((cs.map G).flatMap id) := by
    simp only [Bytes.vecToBytes, Bytes.bitsToBytes, hall, if_true, hbytes]
  have hlen : ((cs.map G).flatMap id).length = cs.length * st.byteLen := by
    exact (length_flatMap_const (cs.map G) id st.byteLen hG).trans (by rw [List.length_map])
  have e2 : Bytes.vecU128FromBytes st ((cs.map G).flatMap id) = .ok ((cs.map G).map
      (fun c => Bytes.signPad 128 st (Bytes.fromLE (c.take (128 / 8))))) := by
    rw [vecU128FromBytes_nonbit st hst, hlen, Nat.mul_mod_left, Nat.mul_div_cancel _ hblpos]
    have := chunksExact_flatMap st.byteLen (cs.map G) hG
    rw [List.length_map] at this
    rw [this]; rfl
  unfold b2a
  rw [e1]
  show (Bytes.vecU128FromBytes st ((cs.map G).flatMap id)).map _ = _
  rw [e2]
  show Except.ok (((cs.map G).map _).map (low st)) = _
  congr 1
  rw [List.map_map, List.map_map]
  apply List.map_congr_left
  intro c hcm
  have hcl := hc8 c hcm
  simp only [Function.comp, G]
  rw [List.take_of_length_le (by rw [List.length_map, chunks8_length _ c hcl]; omega),
    fromLE_chunks8 _ c (Nat.le_refl _)]
  apply low_signPad st hst
  rw [← (hc c hcm).1]
  exact packBits_lt c (hc c hcm).2

example : b2a .u8 [1, 0, 1, 0, 0, 0, 0, 0, 1, 1, 1, 1, 1, 1, 1, 1] = .ok [5, 255] := by
  with_unfolding_all rfl
example : b2a .i16 ([[0, 1, 1, 1, 1, 1, 1, 1, 1, 1, 1, 1, 1, 1, 1, 1], [1, 0, 1, 0, 0, 0, 0, 0, 1, 0, 0, 0, 0, 0, 0, 0]].flatMap id)
    = .ok [65534, 261] := by
  with_unfolding_all rfl
/-- the hypotheses of `b2a_spec` are satisfiable -/
example : b2a .i16 ([[0, 1, 1, 1, 1, 1, 1, 1, 1, 1, 1, 1, 1, 1, 1, 1], [1, 0, 1, 0, 0, 0, 0, 0, 1, 0, 0, 0, 0, 0, 0, 0]].flatMap id)
    = .ok [65534, 261] :=
  b2a_spec .i16 (by decide) _ (by decide)

theorem packBits_bits (x n : Nat) :
    Bytes.packBits ((List.range n).map fun k => x / 2 ^ k % 2) = x % 2 ^ n := by
  induction n with
  | zero => simp [Bytes.packBits, Nat.mod_one]
  | succ n ih =>
    rw [List.range_succ, List.map_append, packBits_append, ih, List.length_map, List.length_range,
      Nat.pow_succ, Nat.mod_mul]
    simp [Bytes.packBits]

/-- round trip -/
theorem b2a_a2b (st : ST) (hst : st ≠ .bit) (xs : List Nat) (hx : ∀ x ∈ xs, x < 2 ^ st.bits) :
    ∃ bits, a2b st xs = .ok bits ∧ b2a st bits = .ok xs := by
  refine ⟨_, a2b_spec st hst xs hx, ?_⟩
  let B : Nat → List Nat := fun x => (List.range st.bits).map fun k => x / 2 ^ k % 2
  have e : (xs.flatMap fun x => (List.range st.bits).map fun k => x / 2 ^ k % 2)
      = (xs.map B).flatMap id := by
    rw [List.flatMap_map]; rfl
  rw [e, b2a_spec st hst (xs.map B)]
  · congr 1
    rw [List.map_map]
    conv => rhs; rw [← List.map_id xs]
    apply List.map_congr_left
    intro x hxm
    simp only [Function.comp, B, id]
    rw [packBits_bits, Nat.mod_eq_of_lt (hx x hxm)]
  · intro c hcm
    obtain ⟨x, _, rfl⟩ := List.mem_map.mp hcm
    refine ⟨by simp [B], ?_⟩
    intro b hb
    obtain ⟨k, _, rfl⟩ := List.mem_map.mp hb
    exact Nat.mod_lt _ (by decide)

example : ∃ bits, a2b .i8 [200, 3] = .ok bits ∧ b2a .i8 bits = .ok [200, 3] :=
  ⟨[0, 0, 0, 1, 0, 0, 1, 1, 1, 1, 0, 0, 0, 0, 0, 0], rfl, by with_unfolding_all rfl⟩

/-! ### ApplyPermutation -/

theorem eraseDups_of_nodup (l : List Nat) (h : l.Nodup) : l.eraseDups = l := by
  induction l with
  | nil => simp
  | cons a l ih =>
    rw [List.eraseDups_cons]
    have hn := List.nodup_cons.mp h
    have hf : l.filter (fun b => !b == a) = l := by
      apply List.filter_eq_self.mpr
      intro b hb
      have : b ≠ a := fun e => hn.1 (e ▸ hb)
      simp [this]
    rw [hf, ih hn.2]

theorem mapM_id_map_ok {α : Type} (l : List α) :
    (l.map (Except.ok (ε := String))).mapM id = Except.ok l := by
  induction l with
  | nil => rfl
  | cons a l ih =>
    simp only [List.map_cons, List.mapM_cons, ih, id]
    rfl

private theorem flatMap_id_singleton {α β : Type} (p : List α) (f : α → β) :
    (p.map fun ie => [f ie]).flatMap id = p.map f := by
  induction p with
  | nil => rfl
  | cons a p ih => rw [List.map_cons, List.flatMap_cons, ih]; rfl

/-- `gather` along the only axis of a 1-d array -/
theorem gather_1d (xs p : List Nat) (hlt : ∀ v ∈ p, v < xs.length) :
    gather [xs.length] xs p 0 = .ok (p.map fun ie => xs.getD ie 0) := by
  have hL : ((List.range 1).flatMap fun ai => p.map fun ie =>
      if xs.length ≤ ie then (Except.error "Incorrect index" : Except String (List Nat))
      else Except.ok (slice xs ((ai * xs.length + ie) * 1) 1))
      = (p.map fun ie => [xs.getD ie 0]).map Except.ok := by
    rw [show List.range 1 = [0] from rfl, List.flatMap_cons, List.flatMap_nil, List.append_nil,
      List.map_map]
    apply List.map_congr_left
    intro ie hie
    have h := hlt ie hie
    simp only [Nat.not_le.mpr h, if_false, Function.comp, slice, Nat.zero_mul, Nat.zero_add,
      Nat.mul_one]
    congr 1
    rw [List.getD_eq_getElem?_getD, List.getElem?_eq_getElem h, Option.getD_some]
    rw [List.drop_eq_getElem_cons h]; rfl
  have e : gather [xs.length] xs p 0 = (((List.range 1).flatMap fun ai => p.map fun ie =>
      if xs.length ≤ ie then (Except.error "Incorrect index" : Except String (List Nat))
      else Except.ok (slice xs ((ai * xs.length + ie) * 1) 1)).mapM id).map (·.flatMap id) := rfl
  rw [e, hL, mapM_id_map_ok]
  show Except.ok ((p.map fun ie => [xs.getD ie 0]).flatMap id) = _
  rw [flatMap_id_singleton]

/-- ApplyPermutation on a 1-d payload with a valid permutation `p` of `0..n-1`:
    plain: `R[i] = A[p[i]]`; inverse: `R[p[i]] = A[i]` -/
theorem applyPermutation_spec (xs p : List Nat) (hlen : p.length = xs.length) (hnd : p.Nodup) (hlt : ∀ v ∈ p, v < p.length) :
    (∃ r, applyPermutation false [xs.length] xs p = .ok r ∧ r.length = xs.length ∧ ∀ i, i < xs.length → r.getD i 0 = xs.getD (p.getD i 0) 0) ∧
    (∃ r, applyPermutation true [xs.length] xs p = .ok r ∧ r.length = xs.length ∧ ∀ i, i < xs.length → r.getD (p.getD i 0) 0 = xs.getD i 0) := by
  have hlt' : ∀ v ∈ p, v < xs.length := fun v hv => hlen ▸ hlt v hv
  have hcheck : ((p.filter (· < xs.length)).eraseDups).length = xs.length := by
    have hf : p.filter (· < xs.length) = p :=
      List.filter_eq_self.mpr (fun a ha => by simpa using hlt' a ha)
    rw [hf, eraseDups_of_nodup p hnd, hlen]
  constructor
  · refine ⟨p.map fun ie => xs.getD ie 0, ?_, by simp [hlen], ?_⟩
    · simp only [applyPermutation, List.headD_cons, Bool.false_eq_true, if_false]
      rw [if_neg (fun h => h hcheck)]
      exact gather_1d xs p hlt'
    · intro i hi
      have hi' : i < p.length := hlen ▸ hi
      simp [List.getD_eq_getElem?_getD, hi']
  · obtain ⟨r, hr, hrl, hri⟩ := inversePermutation_spec p hnd hlt
    simp only [inversePermutation, hnd, not_true_eq_false, if_false] at hr
    have hmem : ∀ i, i < p.length → p.getD i 0 ∈ p := by
      intro i hi
      simp [List.getD_eq_getElem?_getD, hi]
    -- `r` is again in range: every entry of `r` is some `r[p[j]] = j`
    have hsurj := mem_of_nodup_lt rfl hnd hlt
    have hrlt : ∀ v ∈ r, v < xs.length := by
      intro v hv
      obtain ⟨k, hk, rfl⟩ := List.mem_iff_getElem.mp hv
      obtain ⟨j, hj, hjk⟩ := List.mem_iff_getElem.mp (hsurj k (hrl ▸ hk))
      have := hri j hj
      simp only [List.getD_eq_getElem?_getD, List.getElem?_eq_getElem hj, Option.getD_some, hjk,
        List.getElem?_eq_getElem hk] at this
      omega
    refine ⟨r.map fun ie => xs.getD ie 0, ?_, by simp [hrl, hlen], ?_⟩
    · simp only [applyPermutation, List.headD_cons, if_true, hr]
      rw [if_neg (fun h => h hcheck)]
      exact gather_1d xs r hrlt
    · intro i hi
      have hi' : i < p.length := hlen ▸ hi
      have hpi : p.getD i 0 < r.length := hrl ▸ hlt _ (hmem i hi')
      have := hri i hi'
      rw [List.getD_eq_getElem?_getD, List.getElem?_map, List.getElem?_eq_getElem hpi, Option.map_some,
        Option.getD_some]
      rw [List.getD_eq_getElem?_getD, List.getElem?_eq_getElem hpi, Option.getD_some] at this
      rw [this]

example : applyPermutation true [3] [10, 20, 30] [2, 0, 1] = .ok [20, 30, 10] := rfl
example : applyPermutation false [3] [10, 20, 30] [2, 0, 1] = .ok [30, 10, 20] := rfl
end CCV.Ops
