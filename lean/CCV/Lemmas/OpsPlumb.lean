import CCV.Model.OpsExt
import CCV.Lemmas.OpsCuckoo
/-!
  Zip / Repeat / tuple plumbing of the evaluator as value-level identities.
-/
namespace CCV.Ops
open CCV

theorem mapM_option_isSome {α β : Type} (g : α → Option β) (l : List α) (h : ∀ a ∈ l, (g a).isSome) :
    ∃ r, l.mapM g = some r := by
  induction l with
  | nil => exact ⟨[], by simp⟩
  | cons a l ih =>
    obtain ⟨r, hr⟩ := ih (fun b hb => h b (List.mem_cons_of_mem _ hb))
    obtain ⟨y, hy⟩ := Option.isSome_iff_exists.mp (h a List.mem_cons_self)
    exact ⟨y :: r, by rw [List.mapM_cons, hy, hr]; rfl⟩

/-- a round of the Zip loop succeeds while every vector still has an entry; the row collects the
    `index`-th entries in the order of the operands -/
theorem zipRow_spec {α : Type} (values : List (List α)) (n index : Nat) (hl : ∀ v ∈ values, v.length = n)
    (hi : index < n) :
    ∃ row, zipRow values index = some row ∧ row.length = values.length ∧
      ∀ (k : Nat) (v : List α), values[k]? = some v → row[k]? = v[index]? := by
  obtain ⟨row, hrow⟩ := mapM_option_isSome (fun v : List α => v[index]?) values (fun v hv => by
    have := hl v hv
    show (v[index]?).isSome = true
    rw [List.getElem?_eq_getElem (by omega)]
    rfl)
  obtain ⟨hlen, hval⟩ := mapM_option_some _ _ _ hrow
  refine ⟨row, hrow, hlen, ?_⟩
  intro k v hk
  have hk' : k < values.length := (List.getElem?_eq_some_iff.mp hk).1
  obtain ⟨a, y, h1, h2, h3⟩ := hval k hk'
  rw [hk] at h1
  cases h1
  rw [h3, h2]

theorem zipLoop_spec {α : Type} (values : List (List α)) (n : Nat) (hl : ∀ v ∈ values, v.length = n) :
    ∀ fuel index, index + fuel = n →
      (zipLoop values fuel index).length = fuel ∧
      ∀ j, j < fuel → (zipLoop values fuel index)[j]? = zipRow values (index + j) := by
  intro fuel
  induction fuel with
  | zero => intro index _; exact ⟨rfl, fun j hj => absurd hj (Nat.not_lt_zero j)⟩
  | succ fuel ih =>
    intro index hn
    obtain ⟨row, hrow, _, _⟩ := zipRow_spec values n index hl (by omega)
    obtain ⟨hlen, hval⟩ := ih (index + 1) (by omega)
    have e : zipLoop values (fuel + 1) index = row :: zipLoop values fuel (index + 1) := by
      rw [zipLoop, hrow]
    rw [e]
    refine ⟨by simp [hlen], ?_⟩
    intro j hj
    cases j with
    | zero => simp [hrow]
    | succ j =>
      rw [List.getElem?_cons_succ, hval j (by omega)]
      congr 1
      omega

/-- **Zip** of `k ≥ 1` vectors of the same length `n` (type inference): `n` rows,
    `result[i][k] = values[k][i]`. -/
theorem zip_spec {α : Type} (values : List (List α)) (n : Nat) (hne : values ≠ [])
    (hl : ∀ v ∈ values, v.length = n) :
    (zip values).length = n ∧
    ∀ i, i < n → ∃ row, (zip values)[i]? = some row ∧ row.length = values.length ∧
      ∀ (k : Nat) (v : List α), values[k]? = some v → row[k]? = v[i]? := by
  have hhead : (values.headD []).length = n := by
    cases values with
    | nil => exact absurd rfl hne
    | cons v vs => exact hl v List.mem_cons_self
  obtain ⟨hlen, hval⟩ := zipLoop_spec values n hl n 0 (by omega)
  unfold zip
  rw [hhead]
  refine ⟨hlen, ?_⟩
  intro i hi
  obtain ⟨row, hrow, hrl, hrv⟩ := zipRow_spec values n i hl hi
  refine ⟨row, ?_, hrl, hrv⟩
  rw [hval i hi, Nat.zero_add, hrow]

example : zip [[1, 2, 3], [4, 5, 6]] = [[1, 4], [2, 5], [3, 6]] := by decide

/-- **Repeat(n)**: a vector of `n` copies -/
theorem repeat_spec {α : Type} (n : Nat) (v : α) :
    (repeatV n v).length = n ∧ ∀ i, i < n → (repeatV n v)[i]? = some v := by
  refine ⟨by simp [repeatV], ?_⟩
  intro i hi
  simp [repeatV, hi]

/-- **CreateTuple / CreateVector then TupleGet / VectorGet** return the operand -/
theorem tuple_get_spec {α : Type} (vs : List α) (id : Nat) :
    tupleGet (createTuple vs) id = vs[id]? ∧
    (∀ v, vs[id]? = some v → vectorGet (createTuple vs) id = .ok v) ∧
    (vs.length ≤ id → ∃ e, vectorGet (createTuple vs) id = .error e) := by
  refine ⟨rfl, ?_, ?_⟩
  · intro v hv
    simp [vectorGet, createTuple, hv]
  · intro h
    refine ⟨"Index out of range", ?_⟩
    simp [vectorGet, createTuple, List.getElem?_eq_none h]

/-- **NamedTupleGet**: the value of the first field with that name -/
theorem namedTupleGet_spec {α : Type} (names : List String) (vs : List α) (name : String) (id : Nat)
    (h : names.findIdx? (· == name) = some id) : namedTupleGet names vs name = vs[id]? := by
  simp [namedTupleGet, h]

example : namedTupleGet ["a", "b", "c"] [10, 20, 30] "b" = some 20 := by decide

end CCV.Ops
