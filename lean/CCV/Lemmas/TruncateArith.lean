import CCV.Model.Truncate
/-
  Helper lemmas for C05, part 1: pure `Nat`/`Int` arithmetic (core only, no Mathlib).
-/
namespace CCV.Truncate

/-- carry lemma of probabilistic truncation: `(x+R)/K − R/K ∈ {x/K, x/K + 1}`, with the exact
    condition for the `+1`. -/
theorem add_div_carry (x R K : Nat) (hK : 0 < K) :
    (x + R) / K = x / K + R / K + (if K ≤ x % K + R % K then 1 else 0) :=
  Nat.add_div hK

/-- AND with the single bit `2^i`, then shift down: the bit itself. -/
theorem and_bit_div (r i : Nat) : (r &&& 2 ^ i) / 2 ^ i = r / 2 ^ i % 2 := by
  have e : r &&& 2 ^ i = r / 2 ^ i % 2 ^ 1 * 2 ^ i := by
    apply Nat.eq_of_testBit_eq
    intro j
    rw [Nat.testBit_and, Nat.testBit_two_pow, Nat.testBit_mul_two_pow, Nat.testBit_mod_two_pow,
      Nat.testBit_div_two_pow]
    by_cases hj : i = j
    · subst hj; simp
    · by_cases h2 : i ≤ j
      · have : ¬ (j - i < 1) := by omega
        simp [hj, this]
      · simp [hj, h2]
  rw [e, Nat.mul_div_cancel _ (Nat.two_pow_pos i), Nat.pow_one]

/-- AND with the bit range mask `2^h − 2^k` (bits k..h−1). -/
theorem and_range_mask (r k h : Nat) (hkh : k ≤ h) :
    r &&& (2 ^ h - 2 ^ k) = r % 2 ^ h / 2 ^ k * 2 ^ k := by
  have e : 2 ^ h - 2 ^ k = (2 ^ (h - k) - 1) * 2 ^ k := by
    rw [Nat.sub_mul, ← Nat.pow_add, Nat.sub_add_cancel hkh, Nat.one_mul]
  rw [e]
  apply Nat.eq_of_testBit_eq
  intro i
  rw [Nat.testBit_and, Nat.testBit_mul_two_pow, Nat.testBit_mul_two_pow, Nat.testBit_two_pow_sub_one,
    Nat.testBit_div_two_pow, Nat.testBit_mod_two_pow]
  by_cases hi : k ≤ i
  · have hik : i - k + k = i := by omega
    simp only [hi, hik, decide_true, Bool.true_and]
    by_cases h2 : i < h
    · have : i - k < h - k := by omega
      simp [h2, this]
    · have : ¬ (i - k < h - k) := by omega
      simp [h2, this]
  · simp [hi]

/-- the arithmetic heart of steps 8–11: with `H = K·P = 2^(s-1)`, `X < H` (the shifted input),
    `r < 2H` (the mask), `c = (X + r) mod 2H`: `(r_msb xor c_msb)·P + (c/K mod P) = (X + r mod H)/K`. -/
theorem core_arith (K P X r : Nat) (hK : 0 < K) (hX : X < K * P) (hr : r < 2 * (K * P)) :
    (r / (K * P) + (X + r) % (2 * (K * P)) / (K * P)
        - 2 * (r / (K * P)) * ((X + r) % (2 * (K * P)) / (K * P))) * P
      + (X + r) % (2 * (K * P)) / K % P = (X + r % (K * P)) / K := by
  have hP : 0 < P := by
    rcases Nat.eq_zero_or_pos P with h | h
    · subst h; simp at hX
    · exact h
  generalize hH : K * P = H at *
  have hHpos : 0 < H := by omega
  have small : ∀ t, t < H → t / H = 0 ∧ t / K % P = t / K := by
    intro t ht
    refine ⟨Nat.div_eq_of_lt ht, Nat.mod_eq_of_lt ?_⟩
    exact Nat.div_lt_of_lt_mul (by rw [hH]; exact ht)
  have big : ∀ t, t < H → (H + t) / H = 1 ∧ (H + t) / K = P + t / K := by
    intro t ht
    constructor
    · have : (H + t) / H = 1 + t / H := by
        have := Nat.mul_add_div hHpos 1 t
        rw [Nat.mul_one] at this; exact this
      rw [this, Nat.div_eq_of_lt ht]
    · rw [← hH]; exact Nat.mul_add_div hK P t
  by_cases hrH : r < H
  · -- r_msb = 0
    have hr0 : r / H = 0 := Nat.div_eq_of_lt hrH
    have hrl : r % H = r := Nat.mod_eq_of_lt hrH
    have hc : (X + r) % (2 * H) = X + r := Nat.mod_eq_of_lt (by omega)
    rw [hr0, hrl, hc]
    by_cases ht : X + r < H
    · obtain ⟨h1, h2⟩ := small (X + r) ht
      rw [h1, h2]; simp
    · obtain ⟨h1, h2⟩ := big (X + r - H) (by omega)
      have e : H + (X + r - H) = X + r := by omega
      rw [e] at h1 h2
      obtain ⟨_, h4⟩ := small (X + r - H) (by omega)
      rw [h1, h2, Nat.add_mod_left, h4]; simp
  · -- r_msb = 1
    have hr1 : r / H = 1 := by
      obtain ⟨h1, _⟩ := big (r - H) (by omega)
      have e : H + (r - H) = r := by omega
      rw [e] at h1; exact h1
    have hrl : r % H = r - H := by
      rw [Nat.mod_eq_sub_mod (by omega), Nat.mod_eq_of_lt (by omega)]
    rw [hr1, hrl]
    by_cases ht : X + (r - H) < H
    · have hc : (X + r) % (2 * H) = H + (X + (r - H)) := by
        rw [Nat.mod_eq_of_lt (by omega)]; omega
      obtain ⟨h1, h2⟩ := big (X + (r - H)) ht
      obtain ⟨_, h4⟩ := small (X + (r - H)) ht
      rw [hc, h1, h2, Nat.add_mod_left, h4]; simp
    · have hc : (X + r) % (2 * H) = X + (r - H) - H := by
        rw [Nat.mod_eq_sub_mod (by omega), Nat.mod_eq_of_lt (by omega)]; omega
      obtain ⟨h1, h2⟩ := small (X + (r - H) - H) (by omega)
      obtain ⟨_, h4⟩ := big (X + (r - H) - H) (by omega)
      have e : H + (X + (r - H) - H) = X + (r - H) := by omega
      rw [e] at h4
      rw [hc, h1, h2, h4]; simp

/-! ### plaintext truncation -/

theorem two_pow_pred (s : Nat) (hs : 1 ≤ s) : 2 ^ s = 2 * 2 ^ (s - 1) := by
  have : s = (s - 1) + 1 := by omega
  rw [this, Nat.pow_succ]; simp; omega

theorem sint_of_lt (s v : Nat) (h : v < 2 ^ (s - 1)) : sint s v = (v : Int) := by
  unfold sint; rw [if_neg (by omega)]

theorem sint_of_ge (s v : Nat) (h : 2 ^ (s - 1) ≤ v) : sint s v = (v : Int) - ((2 ^ s : Nat) : Int) := by
  unfold sint; rw [if_pos h]

/-- bounds of the two's complement reading -/
theorem sint_bounds (s v : Nat) (hs : 1 ≤ s) (hv : v < 2 ^ s) :
    -((2 ^ (s - 1) : Nat) : Int) ≤ sint s v ∧ sint s v < ((2 ^ (s - 1) : Nat) : Int) := by
  have h2 := two_pow_pred s hs
  unfold sint; split <;> omega

/-- `ofInt` inverts `sint` -/
theorem ofInt_sint (s v : Nat) (hs : 1 ≤ s) (hv : v < 2 ^ s) : ofInt s (sint s v) = v := by
  unfold ofInt sint
  have hM : (0 : Int) < ((2 ^ s : Nat) : Int) := by have := Nat.two_pow_pos s; omega
  split
  · rw [Int.sub_emod_right, Int.emod_eq_of_lt (by omega) (by omega)]; omega
  · rw [Int.emod_eq_of_lt (by omega) (by omega)]; omega

/-- unsigned plaintext truncation is floor division (by definition) -/
theorem truncPlain_unsigned (s d v : Nat) : truncPlain s false d v = v / d := by
  simp [truncPlain]

/-- signed plaintext truncation: Rust `/` = `Int.tdiv` (rounds toward zero) on the two's
    complement readings, result reduced modulo `2^s`. -/
theorem truncPlain_signed (s d v : Nat) (hs : 1 ≤ s) (hv : v < 2 ^ s) (hd : 1 ≤ d) :
    truncPlain s true d v = ofInt s (Int.tdiv (sint s v) (d : Int)) := by
  obtain ⟨hlo, hhi⟩ := sint_bounds s v hs hv
  have h2 := two_pow_pred s hs
  have hdpos : (0 : Int) < (d : Int) := by omega
  simp only [truncPlain, if_true, ofInt]
  generalize hq : (sint s v).tdiv (d : Int) = q
  -- |q| ≤ |sint v|
  have hq1 : -((2 ^ (s - 1) : Nat) : Int) ≤ q ∧ q < ((2 ^ (s - 1) : Nat) : Int) := by
    rcases Int.le_total 0 (sint s v) with h | h
    · have h0 : 0 ≤ q := by rw [← hq]; exact Int.tdiv_nonneg h (by omega)
      have h1 : q ≤ sint s v := by
        rw [← hq, Int.tdiv_eq_ediv_of_nonneg h]; exact Int.ediv_le_self _ h
      omega
    · have hn : (-(sint s v)).tdiv (d : Int) = -q := by rw [Int.neg_tdiv, hq]
      have h0 : 0 ≤ -q := by rw [← hn]; exact Int.tdiv_nonneg (by omega) (by omega)
      have h1 : -q ≤ -(sint s v) := by
        rw [← hn, Int.tdiv_eq_ediv_of_nonneg (by omega)]; exact Int.ediv_le_self _ (by omega)
      omega
  by_cases hneg : q < 0
  · rw [if_pos hneg]
    have : q % ((2 ^ s : Nat) : Int) = q + ((2 ^ s : Nat) : Int) := by
      rw [← Int.add_emod_right, Int.emod_eq_of_lt (by omega) (by omega)]
    rw [this]
  · rw [if_neg hneg, Int.emod_eq_of_lt (by omega) (by omega)]

/-- the result of signed plaintext truncation read back as an integer: exactly `tdiv` -/
theorem sint_truncPlain (s d v : Nat) (hs : 1 ≤ s) (hv : v < 2 ^ s) (hd : 1 ≤ d) :
    sint s (truncPlain s true d v) = Int.tdiv (sint s v) (d : Int) := by
  obtain ⟨hlo, hhi⟩ := sint_bounds s v hs hv
  have h2 := two_pow_pred s hs
  simp only [truncPlain, if_true]
  generalize hq : (sint s v).tdiv (d : Int) = q
  have hq1 : -((2 ^ (s - 1) : Nat) : Int) ≤ q ∧ q < ((2 ^ (s - 1) : Nat) : Int) := by
    rcases Int.le_total 0 (sint s v) with h | h
    · have h0 : 0 ≤ q := by rw [← hq]; exact Int.tdiv_nonneg h (by omega)
      have h1 : q ≤ sint s v := by
        rw [← hq, Int.tdiv_eq_ediv_of_nonneg h]; exact Int.ediv_le_self _ h
      omega
    · have hn : (-(sint s v)).tdiv (d : Int) = -q := by rw [Int.neg_tdiv, hq]
      have h0 : 0 ≤ -q := by rw [← hn]; exact Int.tdiv_nonneg (by omega) (by omega)
      have h1 : -q ≤ -(sint s v) := by
        rw [← hn, Int.tdiv_eq_ediv_of_nonneg (by omega)]; exact Int.ediv_le_self _ (by omega)
      omega
  unfold sint
  by_cases hneg : q < 0
  · rw [if_pos hneg]; split <;> omega
  · rw [if_neg hneg]; split <;> omega

/-- on values below `2^(s-1)` (non-negative in either reading) both truncations are `v / d` -/
theorem truncPlain_small (s d v : Nat) (signed : Bool) (hv : v < 2 ^ (s - 1)) :
    truncPlain s signed d v = v / d := by
  cases signed
  · exact truncPlain_unsigned s d v
  · simp only [truncPlain, if_true]
    rw [sint_of_lt s v hv, Int.tdiv_eq_ediv_of_nonneg (by omega)]
    have : ¬ ((v : Int) / (d : Int) < 0) := by
      have : (0 : Int) ≤ (v : Int) / (d : Int) := Int.ediv_nonneg (by omega) (by omega)
      omega
    rw [if_neg this]
    have : (v : Int) / (d : Int) = ((v / d : Nat) : Int) := by simp
    rw [this]; exact Int.toNat_natCast _

/-! ### general divisor: share-wise `tdiv` -/

/-- truncating two addends toward zero loses or gains at most one unit. -/
theorem tdiv_add_bound (a b d : Int) (hd : 0 < d) :
    Int.tdiv a d + Int.tdiv b d - Int.tdiv (a + b) d ≤ 1 ∧
    -1 ≤ Int.tdiv a d + Int.tdiv b d - Int.tdiv (a + b) d := by
  have key : ∀ z : Int, z = Int.tdiv z d * d + Int.tmod z d ∧
      (0 ≤ z → 0 ≤ Int.tmod z d ∧ Int.tmod z d < d) ∧ (z < 0 → -d < Int.tmod z d ∧ Int.tmod z d ≤ 0) := by
    intro z
    refine ⟨(Int.tdiv_mul_add_tmod z d).symm, ?_, ?_⟩
    · intro hz; exact ⟨Int.tmod_nonneg _ hz, Int.tmod_lt_of_pos _ hd⟩
    · intro hz
      have h1 : (-z).tmod d = -(z.tmod d) := Int.neg_tmod z d
      have h2 := Int.tmod_nonneg (b := d) (a := -z) (by omega)
      have h3 := Int.tmod_lt_of_pos (-z) hd
      omega
  obtain ⟨ea, pa, na⟩ := key a
  obtain ⟨eb, pb, nb⟩ := key b
  obtain ⟨es, ps, ns⟩ := key (a + b)
  generalize Int.tdiv a d = qa at *
  generalize Int.tdiv b d = qb at *
  generalize Int.tdiv (a + b) d = qs at *
  generalize Int.tmod a d = ra at *
  generalize Int.tmod b d = rb at *
  generalize Int.tmod (a + b) d = rs at *
  -- (qa + qb - qs) * d = rs - ra - rb, and |rs - ra - rb| < 2d
  have hmul : (qa + qb - qs) * d = rs - ra - rb := by
    have : (qa + qb - qs) * d = qa * d + qb * d - qs * d := by
      rw [Int.sub_mul, Int.add_mul]
    omega
  have hlt : rs - ra - rb < 2 * d ∧ -(2 * d) < rs - ra - rb := by
    rcases Int.lt_or_le a 0 with h1 | h1 <;> rcases Int.lt_or_le b 0 with h2 | h2 <;>
      rcases Int.lt_or_le (a + b) 0 with h3 | h3 <;> omega
  constructor
  · apply Int.not_lt.mp
    intro h
    have : 2 * d ≤ (qa + qb - qs) * d := Int.mul_le_mul_of_nonneg_right (by omega) (by omega)
    omega
  · apply Int.not_lt.mp
    intro h
    have : (qa + qb - qs) * d ≤ (-2) * d := Int.mul_le_mul_of_nonneg_right (by omega) (by omega)
    omega

end CCV.Truncate
