import CCV.Model.Shape

/-!
  Lemmas about the index arithmetic model `CCV.Model.Shape`: row-major bijection
  (`indexToNumber` / `numberToIndex`), broadcasting index law, `broadcastToShape` entrywise.
-/
namespace CCV.Shape

/-! ### basic facts -/

theorem pos_cons {d : Nat} {ds : List Nat} (h : pos (d :: ds)) : 0 < d ∧ pos ds :=
  ⟨h d (List.mem_cons_self), fun x hx => h x (List.mem_cons_of_mem _ hx)⟩

theorem prod_pos {shape : List Nat} (h : pos shape) : 0 < prod shape := by
  induction shape with
  | nil => simp [prod]
  | cons d ds ih =>
    have ⟨hd, hds⟩ := pos_cons h
    simp only [prod]
    exact Nat.mul_pos hd (ih hds)

theorem validIdx_pos {idx shape : List Nat} (h : validIdx idx shape) : pos shape := by
  induction shape generalizing idx with
  | nil => intro d hd; cases hd
  | cons d ds ih =>
    cases idx with
    | nil => simp [validIdx] at h
    | cons x xs =>
      simp only [validIdx] at h
      intro e he
      rcases List.mem_cons.mp he with rfl | he
      · omega
      · exact ih h.2 e he

theorem validIdx_length {idx shape : List Nat} (h : validIdx idx shape) :
    idx.length = shape.length := by
  induction shape generalizing idx with
  | nil => cases idx with
    | nil => rfl
    | cons x xs => simp [validIdx] at h
  | cons d ds ih =>
    cases idx with
    | nil => simp [validIdx] at h
    | cons x xs =>
      simp only [validIdx] at h
      simp [ih h.2]

theorem i2nAux_eq (acc : Nat) (idx shape : List Nat) :
    i2nAux acc idx shape = acc * prod shape + i2nAux 0 idx shape := by
  induction shape generalizing acc idx with
  | nil => simp [i2nAux, prod]
  | cons d ds ih =>
    simp only [i2nAux, prod]
    rw [ih (acc * d + _), ih (0 * d + _)]
    simp only [Nat.zero_mul, Nat.zero_add, Nat.add_mul, Nat.mul_assoc, Nat.add_assoc]

/-- one step of the Horner loop -/
theorem indexToNumber_cons (x d : Nat) (xs ds : List Nat) :
    indexToNumber (x :: xs) (d :: ds) = (x % d) * prod ds + indexToNumber xs ds := by
  simp only [indexToNumber, i2nAux, List.headD_cons, List.tail_cons, Nat.zero_mul, Nat.zero_add]
  rw [i2nAux_eq]

/-- on valid indices `index_to_number` is the row-major position -/
theorem indexToNumber_eq_flat {idx shape : List Nat} (h : validIdx idx shape) :
    indexToNumber idx shape = flat idx shape := by
  induction shape generalizing idx with
  | nil => cases idx with
    | nil => rfl
    | cons x xs => simp [validIdx] at h
  | cons d ds ih =>
    cases idx with
    | nil => simp [validIdx] at h
    | cons x xs =>
      simp only [validIdx] at h
      rw [indexToNumber_cons, ih h.2, Nat.mod_eq_of_lt h.1]
      simp only [flat]

theorem flat_lt {idx shape : List Nat} (h : validIdx idx shape) : flat idx shape < prod shape := by
  induction shape generalizing idx with
  | nil => cases idx with
    | nil => simp [flat, prod]
    | cons x xs => simp [validIdx] at h
  | cons d ds ih =>
    cases idx with
    | nil => simp [validIdx] at h
    | cons x xs =>
      simp only [validIdx] at h
      simp only [flat, prod]
      have h2 := ih h.2
      have h3 : (x + 1) * prod ds ≤ d * prod ds := Nat.mul_le_mul_right _ h.1
      rw [Nat.add_mul, Nat.one_mul] at h3
      omega

/-! ### `numberToIndex` -/

theorem numberToIndex_cons {d : Nat} (hd : 0 < d) (n : Nat) (ds : List Nat) :
    numberToIndex n (d :: ds) = (n / prod ds) :: numberToIndex (n % prod ds) ds := by
  simp only [numberToIndex, n2iAux, prod, Nat.mul_div_cancel_left _ hd]

theorem numberToIndex_valid {shape : List Nat} (hp : pos shape) {n : Nat} (hn : n < prod shape) :
    validIdx (numberToIndex n shape) shape := by
  induction shape generalizing n with
  | nil => simp [numberToIndex, n2iAux, validIdx]
  | cons d ds ih =>
    have ⟨hd, hds⟩ := pos_cons hp
    rw [numberToIndex_cons hd]
    simp only [validIdx]
    simp only [prod] at hn
    refine ⟨?_, ih hds (Nat.mod_lt _ (prod_pos hds))⟩
    apply Nat.div_lt_of_lt_mul
    rw [Nat.mul_comm]; exact hn

theorem flat_numberToIndex {shape : List Nat} (hp : pos shape) {n : Nat} (hn : n < prod shape) :
    flat (numberToIndex n shape) shape = n := by
  induction shape generalizing n with
  | nil =>
    simp only [prod] at hn
    simp only [numberToIndex, n2iAux, flat]; omega
  | cons d ds ih =>
    have ⟨hd, hds⟩ := pos_cons hp
    rw [numberToIndex_cons hd]
    simp only [flat]
    rw [ih hds (Nat.mod_lt _ (prod_pos hds)), Nat.mul_comm]
    exact Nat.div_add_mod n (prod ds)

/-- index bijection, direction 1 -/
theorem indexToNumber_numberToIndex {shape : List Nat} (hp : pos shape) {n : Nat}
    (hn : n < prod shape) : indexToNumber (numberToIndex n shape) shape = n := by
  rw [indexToNumber_eq_flat (numberToIndex_valid hp hn), flat_numberToIndex hp hn]

theorem numberToIndex_flat {idx shape : List Nat} (h : validIdx idx shape) :
    numberToIndex (flat idx shape) shape = idx := by
  induction shape generalizing idx with
  | nil => cases idx with
    | nil => rfl
    | cons x xs => simp [validIdx] at h
  | cons d ds ih =>
    cases idx with
    | nil => simp [validIdx] at h
    | cons x xs =>
      have hp := pos_cons (validIdx_pos h)
      simp only [validIdx] at h
      rw [numberToIndex_cons hp.1]
      simp only [flat]
      have hlt := flat_lt h.2
      have hP := prod_pos hp.2
      have h1 : (x * prod ds + flat xs ds) / prod ds = x := by
        rw [Nat.mul_comm, Nat.mul_add_div hP, Nat.div_eq_of_lt hlt, Nat.add_zero]
      have h2 : (x * prod ds + flat xs ds) % prod ds = flat xs ds := by
        rw [Nat.mul_comm, Nat.mul_add_mod, Nat.mod_eq_of_lt hlt]
      rw [h1, h2, ih h.2]

/-- index bijection, direction 2 -/
theorem numberToIndex_indexToNumber {idx shape : List Nat} (h : validIdx idx shape) :
    numberToIndex (indexToNumber idx shape) shape = idx := by
  rw [indexToNumber_eq_flat h, numberToIndex_flat h]

/-! ### broadcasting -/

/-- general fact about `(List.range n).map f` read with getD -/
theorem getD_map_range (n : Nat) (f : Nat → Nat) (i : Nat) (h : i < n) :
    ((List.range n).map f).getD i 0 = f i := by
  simp [List.getD, h]

/-- aligned (equally long) version of the broadcasting index law -/
theorem bcAligned_index_law {s rs J : List Nat} (hb : bcAligned s rs) (hJ : validIdx J rs) :
    indexToNumber J s = flat (List.zipWith (fun d x => if d = 1 then 0 else x) s J) s ∧
      validIdx (List.zipWith (fun d x => if d = 1 then 0 else x) s J) s := by
  induction s generalizing rs J with
  | nil =>
    cases rs with
    | nil => cases J with
      | nil => simp [indexToNumber, i2nAux, flat, validIdx]
      | cons x xs => simp [validIdx] at hJ
    | cons r rs => simp [bcAligned] at hb
  | cons d ds ih =>
    cases rs with
    | nil => simp [bcAligned] at hb
    | cons r rs =>
      cases J with
      | nil => simp [validIdx] at hJ
      | cons x xs =>
        simp only [bcAligned] at hb
        simp only [validIdx] at hJ
        have ⟨e, v⟩ := ih hb.2 hJ.2
        rw [indexToNumber_cons, e]
        simp only [List.zipWith_cons_cons, flat, validIdx]
        by_cases h1 : d = 1
        · subst h1
          simp [v, Nat.mod_one]
        · have hdr : d = r := by rcases hb.1 with h | h; exact absurd h h1; exact h
          subst hdr
          simp only [h1, if_false, Nat.mod_eq_of_lt hJ.1]
          exact ⟨trivial, hJ.1, v⟩

theorem validIdx_drop {I sr : List Nat} (h : validIdx I sr) (k : Nat) :
    validIdx (I.drop k) (sr.drop k) := by
  induction k generalizing I sr with
  | zero => simpa using h
  | succ k ih =>
    cases sr with
    | nil => cases I with
      | nil => simpa using h
      | cons x xs => simp [validIdx] at h
    | cons d ds =>
      cases I with
      | nil => simp [validIdx] at h
      | cons x xs =>
        simp only [validIdx] at h
        simpa using ih h.2

/-- broadcasting index law: what the evaluator computes (drop the leading digits, then
    `index_to_number` with its `% d`) is the row-major position of the NumPy broadcast index -/
theorem broadcast_index_law {s sr I : List Nat} (hb : bcOK s sr) (hI : validIdx I sr) :
    indexToNumber (I.drop (sr.length - s.length)) s = flat (bcIdx s I) s ∧
      validIdx (bcIdx s I) s := by
  have hl := validIdx_length hI
  have := bcAligned_index_law hb.2 (validIdx_drop hI (sr.length - s.length))
  simp only [bcIdx, hl]
  exact this

/-- `broadcast_to_shape` entrywise -/
theorem broadcastToShape_getD (arr : List Nat) {s sr I : List Nat} (hb : bcOK s sr)
    (hI : validIdx I sr) :
    (broadcastToShape arr s sr).getD (flat I sr) 0 = arr.getD (flat (bcIdx s I) s) 0 := by
  unfold broadcastToShape
  rw [getD_map_range _ _ _ (flat_lt hI), numberToIndex_flat hI, (broadcast_index_law hb hI).1]

theorem broadcastToShape_length (arr s sr : List Nat) :
    (broadcastToShape arr s sr).length = prod sr := by
  simp [broadcastToShape]

/-! ### concatenation -/

theorem prod_append (s1 s2 : List Nat) : prod (s1 ++ s2) = prod s1 * prod s2 := by
  induction s1 with
  | nil => simp [prod]
  | cons d ds ih => simp only [List.cons_append, prod, ih, Nat.mul_assoc]

/-- flat position of a concatenated index: the prefix selects a block of `prod` of the rest -/
theorem flat_append {i1 s1 : List Nat} (h1 : i1.length = s1.length) (i2 s2 : List Nat) :
    flat (i1 ++ i2) (s1 ++ s2) = flat i1 s1 * prod s2 + flat i2 s2 := by
  induction s1 generalizing i1 with
  | nil =>
    cases i1 with
    | nil => simp [flat]
    | cons x xs => simp at h1
  | cons d ds ih =>
    cases i1 with
    | nil => simp at h1
    | cons x xs =>
      simp only [List.length_cons, Nat.add_right_cancel_iff] at h1
      simp only [List.cons_append, flat, ih h1, prod_append, Nat.add_mul, Nat.mul_assoc,
        Nat.add_assoc]

theorem validIdx_append {i1 s1 i2 s2 : List Nat} (h1 : validIdx i1 s1) (h2 : validIdx i2 s2) :
    validIdx (i1 ++ i2) (s1 ++ s2) := by
  induction s1 generalizing i1 with
  | nil =>
    cases i1 with
    | nil => simpa using h2
    | cons x xs => simp [validIdx] at h1
  | cons d ds ih =>
    cases i1 with
    | nil => simp [validIdx] at h1
    | cons x xs =>
      simp only [validIdx] at h1
      simp only [List.cons_append, validIdx]
      exact ⟨h1.1, ih h1.2⟩

/-! ### concrete sanity instances -/

example : numberToIndex 17 [2, 3, 4] = [1, 1, 1] := by decide
example : indexToNumber [1, 1, 1] [2, 3, 4] = 17 := by decide
example : flat [1, 2, 3] [2, 3, 4] = 23 := by decide
/-- size-1 axis: shape `[3,1]` broadcast to `[2,3,2]` repeats every entry twice, whole block twice -/
example : broadcastToShape [10, 20, 30] [3, 1] [2, 3, 2]
    = [10, 10, 20, 20, 30, 30, 10, 10, 20, 20, 30, 30] := by decide
example : bcIdx [3, 1] [1, 2, 1] = [2, 0] := by decide

end CCV.Shape
