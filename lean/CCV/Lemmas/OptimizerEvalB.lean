import CCV.Lemmas.OptimizerEvalDefs
import CCV.Lemmas.EvalOps3
/-
  Laws of the evaluator instance `semE` of the optimiser-IR semantics, part B: the rewrite
  `VectorGet(ArrayToVector(a), Constant c)` → `Get(a, [c])` (1-dimensional `a`) /
  `GetSlice(a, [SingleIndex c, Ellipsis])` (otherwise) is value preserving whenever the left-hand
  side evaluates successfully, and the type summaries of the created nodes.
-/
namespace CCV.OptEval
open CCV CCV.TV CCV.TI CCV.EvalOps

/-! ### `allSome` / `liftE`: inversion and construction -/

private theorem allSome_inv {α : Type} : ∀ (vs : List (Option α)) (ws : List α),
    allSome vs = some ws → vs = ws.map some
  | [], ws, h => by
    simp only [allSome, Option.some.injEq] at h
    subst h; rfl
  | none :: _, ws, h => by simp [allSome] at h
  | some a :: r, ws, h => by
    simp only [allSome] at h
    cases hr : allSome r with
    | none => rw [hr] at h; cases h
    | some l =>
      rw [hr] at h
      injection h with h
      subst h
      simp [allSome_inv r l hr]

private theorem allSome_map_some {α : Type} : ∀ ws : List α, allSome (ws.map some) = some ws
  | [] => rfl
  | a :: ws => by simp [allSome, allSome_map_some ws]

private theorem okE_iff {v : VE} : okE v ↔ ∃ r, v = some r := by
  cases v with
  | none => simp [okE]
  | some r => simp [okE]

/-- inversion of a successful `liftE` -/
private theorem liftE_inv {op : TI.Op} {vs : List VE} {r : TV.Ty × EV} (h : liftE op vs = some r) :
    ∃ ws : List (TV.Ty × EV), vs = ws.map some ∧ ws.all (fun w => hasTypeB w.1 w.2) = true ∧
      infer op (ws.map (·.1)) = .ok r.1 ∧ evalOp op (ws.map (·.1)) (ws.map (·.2)) = .ok r.2 := by
  unfold liftE at h
  cases ha : allSome vs with
  | none => rw [ha] at h; cases h
  | some ws =>
    rw [ha] at h
    simp only [] at h
    by_cases hall : ws.all (fun w => hasTypeB w.1 w.2) = true
    · rw [if_pos hall] at h
      cases hi : infer op (ws.map (·.1)) with
      | error e => rw [hi] at h; cases h
      | ok t =>
        cases he : evalOp op (ws.map (·.1)) (ws.map (·.2)) with
        | error e => rw [hi, he] at h; cases h
        | ok v =>
          rw [hi, he] at h
          injection h with h
          subst h
          exact ⟨ws, allSome_inv vs ws ha, hall, hi, he⟩
    · rw [if_neg hall] at h; cases h

/-- inversion of a successful unary `liftE` -/
private theorem liftE_inv1 {op : TI.Op} {a : VE} {r : TV.Ty × EV} (h : liftE op [a] = some r) :
    ∃ (ta : TV.Ty) (va : EV), a = some (ta, va) ∧ hasTypeB ta va = true ∧
      infer op [ta] = .ok r.1 ∧ evalOp op [ta] [va] = .ok r.2 := by
  obtain ⟨ws, h1, h2, h3, h4⟩ := liftE_inv h
  match ws, h1, h2, h3, h4 with
  | [(ta, va)], h1, h2, h3, h4 =>
    simp only [List.map_cons, List.map_nil, List.cons.injEq, and_true] at h1
    refine ⟨ta, va, h1, ?_, h3, h4⟩
    simpa using h2

/-- inversion of a successful binary `liftE` -/
private theorem liftE_inv2 {op : TI.Op} {a b : VE} {r : TV.Ty × EV} (h : liftE op [a, b] = some r) :
    ∃ (ta : TV.Ty) (va : EV) (tb : TV.Ty) (vb : EV), a = some (ta, va) ∧ b = some (tb, vb) ∧
      hasTypeB ta va = true ∧ hasTypeB tb vb = true ∧
      infer op [ta, tb] = .ok r.1 ∧ evalOp op [ta, tb] [va, vb] = .ok r.2 := by
  obtain ⟨ws, h1, h2, h3, h4⟩ := liftE_inv h
  match ws, h1, h2, h3, h4 with
  | [(ta, va), (tb, vb)], h1, h2, h3, h4 =>
    simp only [List.map_cons, List.map_nil, List.cons.injEq, and_true] at h1
    simp only [List.all_cons, List.all_nil, Bool.and_true, Bool.and_eq_true] at h2
    exact ⟨ta, va, tb, vb, h1.1, h1.2, h2.1, h2.2, h3, h4⟩

/-- construction of a successful unary `liftE` -/
private theorem liftE_mk1 {op : TI.Op} {ta : TV.Ty} {va : EV} {t : TV.Ty} {v : EV}
    (hall : hasTypeB ta va = true)
    (hi : infer op [ta] = .ok t) (he : evalOp op [ta] [va] = .ok v) :
    liftE op [some (ta, va)] = some (t, v) := by
  unfold liftE
  simp only [allSome, List.all_cons, List.all_nil, Bool.and_true, hall, if_true, List.map_cons,
    List.map_nil, hi, he]

private theorem infer_mk {op : TI.Op} {tys : List TV.Ty} {t : TV.Ty}
    (ha : arityOk op tys.length = true) (hr : inferRaw op tys = .ok t) (hv : t.isValid = true) :
    infer op tys = .ok t := by
  unfold infer
  rw [if_neg (by simp [ha]), hr]
  simp only []
  rw [if_neg (by simp [hv])]

private theorem hasTypeB_array {s : List Nat} {st : ST} {v : EV}
    (h : hasTypeB (.array s st) v = true) :
    ∃ xs, v = .arr xs ∧ xs.length = Shape.prod s := by
  cases v with
  | arr xs =>
    simp only [hasTypeB, Bool.and_eq_true, beq_iff_eq] at h
    exact ⟨xs, rfl, h.1⟩
  | vec vs => simp [hasTypeB] at h

/-! ### the slice `[SingleIndex c, Ellipsis]`: type side -/

private theorem sliceLoop_full (d : Nat) : ∀ (fuel cur cnt : Nat), cur ≤ d → d - cur < fuel →
    sliceLoop d (d : Int) 1 fuel (cur : Int) cnt = .ok (cnt + (d - cur)) := by
  intro fuel
  induction fuel with
  | zero => intro cur cnt _ h; omega
  | succ fuel ih =>
    intro cur cnt hle hf
    unfold sliceLoop
    by_cases hcd : cur = d
    · subst hcd
      rw [if_pos (by omega)]
      simp
    · rw [if_neg (by omega), if_neg (by omega)]
      have e : (cur : Int) + 1 = ((cur + 1 : Nat) : Int) := by omega
      rw [e, ih (cur + 1) (cnt + 1) (by omega) (by omega)]
      congr 1
      omega

private theorem sliceShape1d_full (d : Nat) (h : 0 < d) :
    sliceShape1d d (.sub none none none) = .ok (some d) := by
  have hl := sliceLoop_full d (d + 1) 0 0 (by omega) (by omega)
  simp only [Int.natCast_zero, Nat.zero_add, Nat.sub_zero] at hl
  simp [sliceShape1d, normalizeSub, hl]
  omega

private theorem sliceShape1d_full_zero :
    ∀ r, sliceShape1d 0 (.sub none none none) ≠ .ok r := by
  intro r h
  simp [sliceShape1d, normalizeSub, sliceLoop] at h

private theorem sliceShapeGo_full : ∀ (ds r : List Nat),
    sliceShapeGo ds (List.replicate ds.length (.sub none none none)) = .ok r ↔
      (r = ds ∧ Shape.pos ds)
  | [], r => by
    simp [sliceShapeGo, Shape.pos]
  | d :: ds, r => by
    have ih := sliceShapeGo_full ds
    simp only [List.length_cons, List.replicate_succ, sliceShapeGo]
    by_cases hd : 0 < d
    · rw [sliceShape1d_full d hd]
      simp only []
      cases hgo : sliceShapeGo ds (List.replicate ds.length (.sub none none none)) with
      | error e =>
        simp only [false_iff, reduceCtorEq]
        rintro ⟨rfl, hp⟩
        have := (ih ds).mpr ⟨rfl, (Shape.pos_cons hp).2⟩
        rw [hgo] at this; cases this
      | ok r' =>
        obtain ⟨rfl, hp⟩ := (ih r').mp hgo
        simp only [Except.ok.injEq]
        constructor
        · rintro rfl
          refine ⟨rfl, ?_⟩
          intro x hx
          rcases List.mem_cons.mp hx with rfl | hx
          · exact hd
          · exact hp x hx
        · rintro ⟨rfl, _⟩; rfl
    · have h0 : d = 0 := by omega
      subst h0
      constructor
      · intro h
        cases h1 : sliceShape1d 0 (.sub none none none) with
        | error e => rw [h1] at h; cases h
        | ok o => exact absurd h1 (sliceShape1d_full_zero o)
      · rintro ⟨_, hp⟩
        exact absurd (hp 0 (by simp)) (by omega)

private theorem getSliceShape_single_ellipsis (s : List Nat) (c : Nat) (r : List Nat) :
    TI.getSliceShape s [.single (Int.ofNat c), .ellipsis] = .ok r ↔
      ∃ d, s = d :: r ∧ c < d ∧ Shape.pos r := by
  cases s with
  | nil =>
    simp [TI.getSliceShape, TI.getCleanSlice, cleanGo]
  | cons d ds =>
    have hclean : TI.getCleanSlice (d :: ds).length [.single (Int.ofNat c), .ellipsis] =
        .ok (.single (Int.ofNat c) :: List.replicate ds.length (.sub none none none)) := by
      have e : ¬ ((((ds.length + 1 : Nat) : Int)) - ((2 : Nat) : Int) + 1 < 0) := by omega
      simp only [TI.getCleanSlice, cleanGo, List.length_cons, List.length_nil, Nat.zero_add,
        Nat.reduceAdd, if_neg e]
      simp
    simp only [TI.getSliceShape, hclean, sliceShapeGo, sliceShape1d]
    have e1 : ¬ (Int.ofNat c < 0) := by simp
    rw [if_neg e1]
    by_cases hcd : c < d
    · rw [if_neg (by simp; omega)]
      simp only []
      rw [sliceShapeGo_full]
      constructor
      · rintro ⟨rfl, hp⟩; exact ⟨d, rfl, hcd, hp⟩
      · rintro ⟨d', h1, _, hp⟩
        injection h1 with h1 h2
        exact ⟨h2.symm, h2 ▸ hp⟩
    · rw [if_pos (by simp; omega)]
      simp only [false_iff, reduceCtorEq]
      rintro ⟨d', h1, h2, _⟩
      injection h1 with h1 _
      omega

/-! ### the slice `[SingleIndex c, Ellipsis]`: value side -/

private theorem getCleanSliceSE (n : Nat) (c : Int) :
    Slices.getCleanSlice (n + 1) [.single c, .ellipsis] =
      .ok (.single c :: List.replicate n (.sub none none none)) := by
  have e1 : (Slices.SE.single c == Slices.SE.ellipsis) = false := by
    apply Bool.eq_false_iff.mpr; intro h; simp at h
  have e2 : (Slices.SE.ellipsis == Slices.SE.ellipsis) = true := by simp
  have e3 : ((n + 1 : Nat) : Int) - ((2 : Nat) : Int) + 1 = (n : Int) := by omega
  simp only [Slices.getCleanSlice, List.filter, e1, e2, List.length_cons, List.length_nil,
    List.any_cons, List.any_nil, List.flatMap_cons, List.flatMap_nil, e3, Int.toNat_natCast]
  simp

private theorem slice1dIndex_full (d x : Nat) : Slices.slice1dIndex d none none none x = .ok x := by
  simp [Slices.slice1dIndex, Slices.normalizeSubarray]

private theorem sliceIndexLoop_full : ∀ (ds idx : List Nat) (j : Nat), idx.length = ds.length →
    Slices.sliceIndexLoop ds (List.replicate ds.length (.sub none none none)) idx j =
      .ok (idx, j + ds.length)
  | [], idx, j, h => by
    have : idx = [] := List.length_eq_zero_iff.mp h
    subst this
    simp [Slices.sliceIndexLoop]
  | d :: ds, [], j, h => by simp at h
  | d :: ds, x :: idx, j, h => by
    have ih := sliceIndexLoop_full ds idx (j + 1) (by simpa using h)
    simp only [List.length_cons, List.replicate_succ, Slices.sliceIndexLoop, slice1dIndex_full, ih]
    congr 2
    omega

private theorem sliceIndex_single_ellipsis (d c : Nat) (ds idx : List Nat)
    (hl : idx.length = ds.length) :
    Slices.sliceIndex (d :: ds) [.single (Int.ofNat c), .ellipsis] idx = .ok (c :: idx) := by
  have e1 : (0 : Int) ≤ Int.ofNat c := by simp
  have e2 : ¬ (Int.ofNat c < 0) := by simp
  have e3 : (Int.ofNat c).toNat = c := rfl
  simp only [Slices.sliceIndex, List.length_cons, getCleanSliceSE, Slices.sliceIndexLoop, if_pos e1,
    if_neg e2, sliceIndexLoop_full ds idx 0 hl, Nat.zero_add, e3]
  split
  · rfl
  · rw [if_neg (by simp [hl])]

private theorem mapM_ok_of_forall {α β : Type} (f : α → Except String β) (g : α → β) :
    ∀ l : List α, (∀ a ∈ l, f a = .ok (g a)) → l.mapM f = .ok (l.map g)
  | [], _ => rfl
  | a :: l, h => by
    rw [List.mapM_cons, h a (by simp), mapM_ok_of_forall f g l (fun b hb => h b (by simp [hb]))]
    rfl

private theorem map_range_eq_slice (xs : List Nat) (a n : Nat) (h : a + n ≤ xs.length) :
    (List.range n).map (fun i => xs.getD (a + i) 0) = Ops.slice xs a n := by
  apply List.ext_getElem
  · simp [Ops.slice]; omega
  · intro i h1 h2
    simp only [List.length_map, List.length_range] at h1
    simp [Ops.slice, List.getD_eq_getElem?_getD, List.getElem?_eq_getElem (show a + i < xs.length by omega)]

private theorem getSlice_single_ellipsis (d c : Nat) (ds xs : List Nat)
    (hp : Shape.pos ds) (hc : c < d) (hlen : xs.length = d * Shape.prod ds) :
    Ops.getSlice (d :: ds) xs [.single (Int.ofNat c), .ellipsis] ds =
      .ok (Ops.slice xs (c * Shape.prod ds) (Shape.prod ds)) := by
  unfold Ops.getSlice
  rw [mapM_ok_of_forall _ (fun i => xs.getD (c * Shape.prod ds + i) 0)]
  · rw [map_range_eq_slice]
    have : (c + 1) * Shape.prod ds ≤ d * Shape.prod ds := Nat.mul_le_mul_right _ hc
    rw [Nat.add_mul, Nat.one_mul] at this
    omega
  · intro i hi
    have hi' : i < Shape.prod ds := List.mem_range.mp hi
    have hv := Shape.numberToIndex_valid hp hi'
    rw [sliceIndex_single_ellipsis d c ds _ (Shape.validIdx_length hv)]
    simp only []
    rw [Shape.indexToNumber_cons, Nat.mod_eq_of_lt hc, Shape.indexToNumber_numberToIndex hp hi']

/-! ### inversion of the three operations -/

/-- a successful `ArrayToVector` -/
private theorem a2v_inv {a : VE} {t : TV.Ty} {v : EV} (h : liftE .arrayToVector [a] = some (t, v)) :
    ∃ d rest st xs, a = some (.array (d :: rest) st, .arr xs) ∧
      hasTypeB (.array (d :: rest) st) (.arr xs) = true ∧
      xs.length = d * Shape.prod rest ∧
      v = .vec ((Ops.arrayToVector (d :: rest) xs).map .arr) ∧
      ((rest = [] ∧ t = .vector d (.scalar st)) ∨
       (rest ≠ [] ∧ (Ty.array rest st).isValid = true ∧ t = .vector d (.array rest st))) := by
  obtain ⟨ta, va, rfl, hb, hi, he⟩ := liftE_inv1 h
  have hr := infer_ok_raw hi
  have hvalid := infer_result_valid hi rfl
  simp only [] at hi he hr hvalid
  cases ta with
  | array s st =>
    obtain ⟨xs, rfl, hlen⟩ := hasTypeB_array hb
    simp only [evalOp, hi, un, Except.ok.injEq, dimsE] at he
    simp only [inferRaw, inferArrayToVector] at hr
    cases s with
    | nil =>
      simp at hr
      subst hr
      simp [Ty.isValid, isValidShape] at hvalid
    | cons d rest =>
      refine ⟨d, rest, st, xs, rfl, hb, by simpa [Shape.prod] using hlen, he.symm, ?_⟩
      cases rest with
      | nil =>
        simp at hr
        exact Or.inl ⟨rfl, hr.symm⟩
      | cons e rest' =>
        simp at hr
        subst hr
        simp only [Ty.isValid] at hvalid
        exact Or.inr ⟨by simp, by simpa [Ty.isValid] using hvalid, rfl⟩
  | scalar sa => simp [inferRaw, inferArrayToVector] at hr
  | vector n e => simp [inferRaw, inferArrayToVector] at hr
  | tuple ts => simp [inferRaw, inferArrayToVector] at hr
  | named fs => simp [inferRaw, inferArrayToVector] at hr

/-- a successful `VectorGet` with a constant index -/
private theorem vget_inv {n c : Nat} {et : TV.Ty} {cs : List EV} {r : TV.Ty × EV}
    (h : liftE .vectorGet [some (.vector n et, .vec cs), some (.scalar .u64, .arr [c])] = some r) :
    c < n ∧ r.1 = et ∧ cs[c]? = some r.2 := by
  obtain ⟨ta, va, tb, vb, h1, h2, _, _, hi, he⟩ := liftE_inv2 h
  cases h1; cases h2
  have hr := infer_ok_raw hi
  simp [inferRaw, inferVectorGet, Ty.beq] at hr
  simp only [evalOp, hi] at he
  by_cases hc : n ≤ c
  · rw [if_pos hc] at he; cases he
  · rw [if_neg hc] at he
    refine ⟨by omega, hr.symm, ?_⟩
    cases hg : cs[c]? with
    | none => rw [hg] at he; cases he
    | some x => rw [hg] at he; injection he with he; rw [he]

private theorem a2v_row (d c : Nat) (rest xs : List Nat) (hc : c < d) (hp : 0 < Shape.prod rest)
    (hlen : xs.length = d * Shape.prod rest) :
    ((Ops.arrayToVector (d :: rest) xs).map EV.arr)[c]? =
      some (.arr (Ops.slice xs (c * Shape.prod rest) (Shape.prod rest))) := by
  have hdiv : xs.length / Shape.prod rest = d := by rw [hlen, Nat.mul_div_cancel _ hp]
  simp only [Ops.arrayToVector, Ops.chunks, List.drop_one, List.tail_cons, hdiv, List.map_map,
    List.getElem?_map, List.getElem?_range hc]
  rfl

/-- the left-hand side: what a successful `VectorGet(ArrayToVector(a), Constant c)` computes -/
private theorem lhs_inv (T : Tab) (a : VE) (vid c : Nat) (r : TV.Ty × EV)
    (h : semE T .vectorGet [semE T .arrayToVector [a], semE T (.constant vid (some c)) []] = some r) :
    ∃ d rest st xs, a = some (.array (d :: rest) st, .arr xs) ∧
      hasTypeB (.array (d :: rest) st) (.arr xs) = true ∧
      xs.length = d * Shape.prod rest ∧ c < d ∧ Shape.pos rest ∧
      (rest ≠ [] → (Ty.array rest st).isValid = true) ∧
      r = (if rest = [] then .scalar st else .array rest st,
           .arr (Ops.slice xs (c * Shape.prod rest) (Shape.prod rest))) := by
  simp only [semE] at h
  have h' := h
  obtain ⟨ws, hws, _⟩ := liftE_inv h'
  match ws, hws with
  | [x, k], hws =>
    simp only [List.map_cons, List.map_nil, List.cons.injEq, and_true] at hws
    obtain ⟨hx, hk⟩ := hws
    obtain ⟨tx, vx⟩ := x
    by_cases hc64 : c < 2 ^ 64
    · rw [if_pos hc64] at hk h
      obtain ⟨d, rest, st, xs, rfl, hb, hlen, rfl, hcase⟩ := a2v_inv hx
      rw [hx] at h
      have hpos : Shape.pos rest := by
        rcases hcase with ⟨rfl, _⟩ | ⟨_, hp, _⟩
        · intro y hy; simp at hy
        · exact (valid_array hp).2
      have hval : rest ≠ [] → (Ty.array rest st).isValid = true := by
        rcases hcase with ⟨rfl, _⟩ | ⟨_, hp, _⟩
        · intro hne; exact absurd rfl hne
        · exact fun _ => hp
      obtain ⟨r1, r2⟩ := r
      rcases hcase with ⟨hrest, rfl⟩ | ⟨hrest, _, rfl⟩
      all_goals
        obtain ⟨hcd, h1, h2⟩ := vget_inv h
        rw [a2v_row d c rest xs hcd (Shape.prod_pos hpos) hlen] at h2
        simp only [Option.some.injEq] at h1 h2
        refine ⟨d, rest, st, xs, rfl, hb, hlen, hcd, hpos, hval, ?_⟩
        simp [hrest, ← h1, ← h2]
    · rw [if_neg hc64] at hk; cases hk

/-! ### the right-hand sides -/

private theorem get_eval (d c : Nat) (st : ST) (xs : List Nat) (hc : c < d)
    (hb : hasTypeB (.array [d] st) (.arr xs) = true) :
    liftE (.get [c]) [some (.array [d] st, .arr xs)] = some (.scalar st, .arr (Ops.slice xs c 1)) := by
  have hi : infer (.get [c]) [.array [d] st] = .ok (.scalar st) :=
    infer_mk (by simp [arityOk, numDeps]) (by simp [inferRaw, inferGet, allLt, hc]) (by simp [Ty.isValid])
  refine liftE_mk1 hb hi ?_
  simp only [evalOp, hi, un, dimsE]
  simp [Ops.get, Shape.indexToNumber, Shape.i2nAux, Shape.prod, Nat.mod_eq_of_lt hc]

private theorem getSlice_eval (d c e : Nat) (rest : List Nat) (st : ST) (xs : List Nat) (hc : c < d)
    (hv : (Ty.array (e :: rest) st).isValid = true)
    (hlen : xs.length = d * Shape.prod (e :: rest))
    (hb : hasTypeB (.array (d :: e :: rest) st) (.arr xs) = true) :
    liftE (.getSlice [.single (Int.ofNat c), .ellipsis]) [some (.array (d :: e :: rest) st, .arr xs)] =
      some (.array (e :: rest) st,
        .arr (Ops.slice xs (c * Shape.prod (e :: rest)) (Shape.prod (e :: rest)))) := by
  have hp : Shape.pos (e :: rest) := (valid_array hv).2
  have hs : TI.getSliceShape (d :: e :: rest) [.single (Int.ofNat c), .ellipsis] = .ok (e :: rest) :=
    (getSliceShape_single_ellipsis _ _ _).mpr ⟨d, rfl, hc, hp⟩
  have hi : infer (.getSlice [.single (Int.ofNat c), .ellipsis]) [.array (d :: e :: rest) st] =
      .ok (.array (e :: rest) st) :=
    infer_mk (by simp [arityOk, numDeps]) (by simp only [inferRaw, inferGetSlice, hs]; simp [arrOrScalar]) hv
  refine liftE_mk1 hb hi ?_
  simp only [evalOp, hi, un, dimsE, List.map_cons, List.map_nil, toSE]
  rw [getSlice_single_ellipsis d c (e :: rest) xs hp hc hlen]
  rfl

/-! ### the laws -/

theorem a2vGet_law (T : Tab) (a : VE) (vid c : Nat)
    (hok : okE (semE T .vectorGet [semE T .arrayToVector [a], semE T (.constant vid (some c)) []])) :
    semE T .vectorGet [semE T .arrayToVector [a], semE T (.constant vid (some c)) []] =
      match tyvE T a with
      | .arr 1 _ => semE T (.get c) [a]
      | _ => semE T (.getSlice c) [a] := by
  obtain ⟨r, hr⟩ := okE_iff.mp hok
  obtain ⟨d, rest, st, xs, rfl, hb, hlen, hcd, hpos, hval, rfl⟩ := lhs_inv T a vid c r hr
  rw [hr]
  cases rest with
  | nil =>
    simp only [tyvE, sumTy, List.length_cons, List.length_nil, Nat.zero_add, semE]
    rw [get_eval d c st xs hcd hb]
    simp [Shape.prod]
  | cons e rest =>
    simp only [tyvE, sumTy, List.length_cons, semE]
    rw [getSlice_eval d c e rest st xs hcd (hval (by simp)) hlen hb]
    simp

theorem ty_get_law (T : Tab) (a : VE) (c st : Nat) (h : tyvE T a = .arr 1 st)
    (hok : okE (semE T (.get c) [a])) : tyvE T (semE T (.get c) [a]) = .arr 0 st := by
  obtain ⟨r, hr⟩ := okE_iff.mp hok
  rw [hr]
  simp only [semE] at hr
  obtain ⟨ta, va, rfl, _, hi, _⟩ := liftE_inv1 hr
  have hraw := infer_ok_raw hi
  obtain ⟨r1, r2⟩ := r
  simp only [inferRaw] at hraw
  cases ta with
  | array s st0 =>
    simp only [tyvE, sumTy, Optimizer.Ty.arr.injEq] at h
    obtain ⟨h1, h2⟩ := h
    simp only [inferGet, List.length_cons, List.length_nil, Nat.zero_add, h1] at hraw
    rw [if_neg (by omega)] at hraw
    split at hraw
    · cases hraw
    · simp only [if_true, Except.ok.injEq] at hraw
      subst hraw
      simp [tyvE, sumTy, h2]
  | scalar sa => simp [inferGet] at hraw
  | vector n e => simp [inferGet] at hraw
  | tuple ts => simp [inferGet] at hraw
  | named fs => simp [inferGet] at hraw

theorem ty_getSlice_law (T : Tab) (a : VE) (c : Nat) (hok : okE (semE T (.getSlice c) [a])) :
    tyvE T (semE T (.getSlice c) [a]) =
      match tyvE T a with
      | .arr nd st => .arr (nd - 1) st
      | _ => .other := by
  obtain ⟨r, hr⟩ := okE_iff.mp hok
  rw [hr]
  simp only [semE] at hr
  obtain ⟨ta, va, rfl, _, hi, _⟩ := liftE_inv1 hr
  have hraw := infer_ok_raw hi
  obtain ⟨r1, r2⟩ := r
  simp only [inferRaw] at hraw
  cases ta with
  | array s st0 =>
    simp only [inferGetSlice] at hraw
    cases hs : TI.getSliceShape s [.single (Int.ofNat c), .ellipsis] with
    | error e => rw [hs] at hraw; cases hraw
    | ok ns =>
      rw [hs] at hraw
      simp only [Except.ok.injEq] at hraw
      subst hraw
      obtain ⟨d, rfl, _, _⟩ := (getSliceShape_single_ellipsis _ _ _).mp hs
      cases ns with
      | nil => simp [tyvE, sumTy, arrOrScalar]
      | cons e ns => simp [tyvE, sumTy, arrOrScalar]
  | scalar sa => simp [inferGetSlice] at hraw
  | vector n e => simp [inferGetSlice] at hraw
  | tuple ts => simp [inferGetSlice] at hraw
  | named fs => simp [inferGetSlice] at hraw

end CCV.OptEval
