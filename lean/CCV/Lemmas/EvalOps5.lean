import CCV.Lemmas.EvalOps4
/-
  Helper lemmas for the value-level half of C09, part 5 (GetSlice totality):
  the two models of slices.rs — the `CCV.TI` copy used by the typing rule (`infer (.getSlice sl)`) and
  the `CCV.Slices` copy used by the evaluator model (`Ops.getSlice`) — agree on every accepted slice
  (`get_clean_slice`, `get_slice_shape`), and on an accepted slice the evaluator loop of
  `Ops.getSlice` never fails.
-/
namespace CCV.EvalOps
open CCV CCV.TV CCV.Shape
open CCV.TI hiding prod broadcastShapes transposeShape

/-! ### `get_clean_slice`: the two copies agree -/

theorem toSE_beq_ellipsis (x : SliceEl) : (toSE x == Slices.SE.ellipsis) = (x == SliceEl.ellipsis) := by
  cases x <;> simp [toSE]

/-- the expansion step of `Slices.getCleanSlice` -/
def padF (n : Nat) : Slices.SE → List Slices.SE :=
  fun x => if x == Slices.SE.ellipsis then List.replicate n (Slices.SE.sub none none none) else [x]

theorem cleanGo_agree (rank len : Nat) : ∀ (sl clean : List SliceEl), cleanGo rank len sl = .ok clean →
    clean.map toSE = (sl.map toSE).flatMap (padF ((rank : Int) - (len : Int) + 1).toNat) ∧
    ((sl.map toSE).any (· == Slices.SE.ellipsis) = true → ¬ ((rank : Int) - (len : Int) + 1 < 0))
  | [], clean, h => by
    simp only [cleanGo] at h
    injection h with h; subst h
    simp
  | x :: xs, clean, h => by
    cases x with
    | ellipsis =>
      simp only [cleanGo] at h
      split at h; · cases h
      rename_i hpad
      cases hr : cleanGo rank len xs with
      | error e => rw [hr] at h; cases h
      | ok r =>
        rw [hr] at h
        injection h with h; subst h
        obtain ⟨i1, _⟩ := cleanGo_agree rank len xs r hr
        refine ⟨?_, fun _ => hpad⟩
        have e : rank + 1 - len = ((rank : Int) - (len : Int) + 1).toNat := by omega
        simp only [List.map_append, List.map_replicate, List.map_cons, List.flatMap_cons, toSE, i1, e]
        simp [padF]
    | single i =>
      simp only [cleanGo] at h
      cases hr : cleanGo rank len xs with
      | error e => rw [hr] at h; cases h
      | ok r =>
        rw [hr] at h
        injection h with h; subst h
        obtain ⟨i1, i2⟩ := cleanGo_agree rank len xs r hr
        refine ⟨?_, ?_⟩
        · simp only [List.map_cons, List.flatMap_cons, toSE, i1]
          simp [padF]
        · intro hany
          apply i2
          simpa [toSE] using hany
    | sub b e s =>
      simp only [cleanGo] at h
      cases hr : cleanGo rank len xs with
      | error e => rw [hr] at h; cases h
      | ok r =>
        rw [hr] at h
        injection h with h; subst h
        obtain ⟨i1, i2⟩ := cleanGo_agree rank len xs r hr
        refine ⟨?_, ?_⟩
        · simp only [List.map_cons, List.flatMap_cons, toSE, i1]
          simp [padF]
        · intro hany
          apply i2
          simpa [toSE] using hany

theorem filter_ellipsis_length (sl : List SliceEl) :
    ((sl.map toSE).filter (· == Slices.SE.ellipsis)).length = (sl.filter (fun x => x == SliceEl.ellipsis)).length := by
  induction sl with
  | nil => rfl
  | cons x xs ih =>
    simp only [List.map_cons, List.filter_cons, toSE_beq_ellipsis]
    split <;> simp [ih]

/-- on an accepted slice, the `CCV.Slices` copy of `get_clean_slice` returns the same clean slice -/
theorem getCleanSlice_agree {rank : Nat} {sl clean : List SliceEl} (h : TI.getCleanSlice rank sl = .ok clean) :
    Slices.getCleanSlice rank (sl.map toSE) = .ok (clean.map toSE) := by
  unfold TI.getCleanSlice at h
  split at h; · cases h
  rename_i hmult
  cases hg : cleanGo rank sl.length sl with
  | error e => rw [hg] at h; cases h
  | ok r =>
    rw [hg] at h
    simp only [] at h
    split at h; · cases h
    rename_i hlong
    injection h with h; subst h
    obtain ⟨i1, i2⟩ := cleanGo_agree rank sl.length sl r hg
    unfold Slices.getCleanSlice
    rw [if_neg (by rw [filter_ellipsis_length]; exact hmult)]
    simp only [List.length_map]
    rw [if_neg (fun hc => i2 hc.1 hc.2)]
    have e : ((sl.map toSE).flatMap fun x =>
        if x == Slices.SE.ellipsis then
          List.replicate ((rank : Int) - (sl.length : Int) + 1).toNat (Slices.SE.sub none none none)
        else [x]) = r.map toSE := i1.symm
    rw [e]
    rw [if_neg (by simpa using hlong)]

/-! ### `get_slice_shape`: the two copies agree -/

theorem sliceLoop_eq_countLoop (dim : Nat) (e s : Int) : ∀ (fuel : Nat) (cur : Int) (cnt : Nat),
    sliceLoop dim e s fuel cur cnt = Slices.countLoop dim e s fuel cur cnt
  | 0, _, _ => rfl
  | fuel + 1, cur, cnt => by
    simp only [sliceLoop, Slices.countLoop]
    split
    · rfl
    · split
      · rfl
      · exact sliceLoop_eq_countLoop dim e s fuel _ _

theorem sliceShape1d_agree {d : Nat} {el : SliceEl} {r : Option Nat} (h : sliceShape1d d el = .ok r) :
    Slices.getSliceShape1d d (toSE el) = .ok r := by
  cases el with
  | single i =>
    simp only [sliceShape1d] at h
    simp only [toSE, Slices.getSliceShape1d]
    exact h
  | sub b e s =>
    simp only [sliceShape1d] at h
    simp only [toSE, Slices.getSliceShape1d]
    have en : Slices.normalizeSubarray d b e s = normalizeSub d b e s := rfl
    rw [en]
    cases hn : normalizeSub d b e s with
    | error m => rw [hn] at h; cases h
    | ok tr =>
      obtain ⟨bg, en_, sp⟩ := tr
      rw [hn] at h
      simp only [] at h ⊢
      rw [← sliceLoop_eq_countLoop]
      cases hl : sliceLoop d en_ sp (d + 1) bg 0 with
      | error m => rw [hl] at h; cases h
      | ok c =>
        rw [hl] at h
        simp only [] at h ⊢
        cases c with
        | zero => simp at h
        | succ c => simpa using h
  | ellipsis => simp [sliceShape1d] at h

theorem sliceShapeGo_agree : ∀ (shape : List Nat) (clean : List SliceEl) (rs : List Nat),
    sliceShapeGo shape clean = .ok rs → Slices.sliceShapeLoop shape (clean.map toSE) = .ok rs
  | [], _, rs, h => by
    simp only [sliceShapeGo] at h
    simp only [Slices.sliceShapeLoop]
    exact h
  | d :: ds, [], rs, h => by
    simp only [sliceShapeGo] at h
    cases hr : sliceShapeGo ds [] with
    | error e => rw [hr] at h; cases h
    | ok r =>
      rw [hr] at h
      injection h with h; subst h
      have := sliceShapeGo_agree ds [] r hr
      simp only [List.map_nil] at this
      simp only [List.map_nil, Slices.sliceShapeLoop, this]
      rfl
  | d :: ds, el :: els, rs, h => by
    simp only [sliceShapeGo] at h
    cases h1 : sliceShape1d d el with
    | error e => rw [h1] at h; cases h
    | ok r1 =>
      rw [h1] at h
      have a1 := sliceShape1d_agree h1
      cases r1 with
      | none =>
        simp only [] at h
        have := sliceShapeGo_agree ds els rs h
        simp only [List.map_cons, Slices.sliceShapeLoop, a1, this]
      | some c =>
        simp only [] at h
        cases hr : sliceShapeGo ds els with
        | error e => rw [hr] at h; cases h
        | ok r =>
          rw [hr] at h
          injection h with h; subst h
          have := sliceShapeGo_agree ds els r hr
          simp only [List.map_cons, Slices.sliceShapeLoop, a1, this]

/-- **the two models of slices.rs agree on every accepted slice**: if the typing rule's copy of
    `get_slice_shape` accepts with result shape `rs`, the evaluator model's copy computes the same
    clean slice and the same shape -/
theorem getSliceShape_agree {shape : List Nat} {sl : List SliceEl} {rs : List Nat}
    (h : TI.getSliceShape shape sl = .ok rs) :
    ∃ clean, Slices.getCleanSlice shape.length (sl.map toSE) = .ok clean ∧
      Slices.sliceShapeLoop shape clean = .ok rs ∧ Slices.getSliceShape shape (sl.map toSE) = .ok rs := by
  unfold TI.getSliceShape at h
  cases hc : TI.getCleanSlice shape.length sl with
  | error e => rw [hc] at h; cases h
  | ok clean =>
    rw [hc] at h
    simp only [] at h
    have a1 := getCleanSlice_agree hc
    have a2 := sliceShapeGo_agree shape clean rs h
    refine ⟨clean.map toSE, a1, a2, ?_⟩
    unfold Slices.getSliceShape
    rw [a1]
    exact a2

/-! ### totality of the evaluator loop -/

/-- scalar result (every axis is consumed by a single index): the index loop reads no result digit -/
theorem sliceIndexLoop_scalar : ∀ (shape : List Nat) (clean : List Slices.SE) (idx : List Nat) (j : Nat),
    Slices.sliceShapeLoop shape clean = .ok [] → ∃ r, Slices.sliceIndexLoop shape clean idx j = .ok (r, j)
  | [], _, idx, j, _ => ⟨[], by simp [Slices.sliceIndexLoop]⟩
  | d :: ds, [], idx, j, h => by
    simp only [Slices.sliceShapeLoop] at h
    cases hr : Slices.sliceShapeLoop ds [] with
    | error m => rw [hr] at h; cases h
    | ok rest => rw [hr] at h; cases h
  | d :: ds, se :: ses, idx, j, h => by
    simp only [Slices.sliceShapeLoop] at h
    cases h1 : Slices.getSliceShape1d d se with
    | error m => rw [h1] at h; cases h
    | ok r =>
      cases hrest : Slices.sliceShapeLoop ds ses with
      | error m => rw [h1, hrest] at h; cases h
      | ok rest =>
        rw [h1, hrest] at h
        cases se with
        | ellipsis => simp [Slices.getSliceShape1d] at h1
        | single i =>
          have hr := Slices.getSliceShape1d_single_none d i r h1
          subst hr
          simp only [] at h
          injection h with h; subst h
          obtain ⟨r', hr'⟩ := sliceIndexLoop_scalar ds ses idx j hrest
          have hrange := (Slices.single_spec d i).mp h1
          have hreal : ¬ ((if 0 ≤ i then i else i + (d : Int)) < 0) := by split <;> omega
          refine ⟨(if 0 ≤ i then i else i + (d : Int)).toNat :: r', ?_⟩
          simp only [Slices.sliceIndexLoop, if_neg hreal, hr']
        | sub b e s =>
          obtain ⟨c, hr⟩ := Slices.getSliceShape1d_sub_some d b e s r h1
          subst hr
          simp only [] at h
          injection h with h
          cases h

theorem mapM_ok_of_forall {α : Type} (f : α → Except String Nat) : ∀ (l : List α),
    (∀ a ∈ l, ∃ b, f a = .ok b) → ∃ r, l.mapM f = .ok r
  | [], _ => ⟨[], rfl⟩
  | a :: l, h => by
    obtain ⟨b, hb⟩ := h a (by simp)
    obtain ⟨r, hr⟩ := mapM_ok_of_forall f l (fun x hx => h x (by simp [hx]))
    exact ⟨b :: r, by rw [List.mapM_cons, hb, hr]; rfl⟩

/-- **GetSlice totality** for the evaluator model: on a slice accepted by `Slices.getSliceShape` with
    result shape `rs` (all dimensions positive) the loop of `Ops.getSlice` over the result dimensions
    (`[1]` for a scalar result) returns a value -/
theorem getSlice_total (shape xs : List Nat) (sl : List Slices.SE) (rs : List Nat) (st : ST)
    (hs : Slices.getSliceShape shape sl = .ok rs) (hp : pos rs) :
    ∃ r, Ops.getSlice shape xs sl (dimsE (arrOrScalar rs st)) = .ok r := by
  unfold Ops.getSlice
  apply mapM_ok_of_forall
  intro i hi
  have hi := List.mem_range.mp hi
  unfold Slices.getSliceShape at hs
  cases hc : Slices.getCleanSlice shape.length sl with
  | error m => rw [hc] at hs; cases hs
  | ok clean =>
    rw [hc] at hs
    simp only [] at hs
    have key : ∃ di, Slices.sliceIndex shape sl (numberToIndex i (dimsE (arrOrScalar rs st))) = .ok di := by
      unfold Slices.sliceIndex
      rw [hc]
      simp only []
      cases rs with
      | nil =>
        obtain ⟨r, hr⟩ := sliceIndexLoop_scalar shape clean (numberToIndex i (dimsE (arrOrScalar [] st))) 0 hs
        rw [hr]
        have hi0 : i = 0 := by
          simp only [arrOrScalar, List.isEmpty_nil, if_true, dimsE, prod, Nat.mul_one] at hi
          omega
        subst hi0
        have e : numberToIndex 0 (dimsE (arrOrScalar [] st)) = [0] := by
          simp [arrOrScalar, dimsE, numberToIndex, n2iAux, prod]
        rw [e]
        exact ⟨r, by simp⟩
      | cons d ds =>
        have e : dimsE (arrOrScalar (d :: ds) st) = d :: ds := rfl
        rw [e] at hi ⊢
        have hJ := numberToIndex_valid hp hi
        obtain ⟨i1, _⟩ := Slices.sliceLoops_spec shape clean (d :: ds) _ 0 hs hJ
        rw [i1]
        simp only [Nat.zero_add]
        refine ⟨Slices.specIndex shape clean (numberToIndex i (d :: ds)), ?_⟩
        split
        · rfl
        · simp
    obtain ⟨di, hdi⟩ := key
    exact ⟨_, by rw [hdi]⟩

end CCV.EvalOps
