import CCV.Model.Ops
import CCV.Model.Spec
import CCV.Lemmas.Shape

/-!
  Scatter-write loops of the evaluator (`result[target(i)] = values[i]`, `result[target(i)] += …`):
  generic lemmas, `InversePermutation`, `PermuteAxes`.
-/
namespace CCV.Ops
open CCV CCV.Shape

/-! ### generic scatter-write -/

theorem getD_set_self (l : List Nat) (k v : Nat) (h : k < l.length) : (l.set k v).getD k 0 = v := by
  simp [List.getD_eq_getElem?_getD, h]

theorem getD_set_ne (l : List Nat) (k p v : Nat) (h : k ≠ p) : (l.set k v).getD p 0 = l.getD p 0 := by
  simp [List.getD_eq_getElem?_getD, h]

/-- any loop that only `set`s cells keeps the length -/
theorem foldl_setg_length (l : List Nat) (tgt : Nat → Nat) (g : List Nat → Nat → Nat)
    (init : List Nat) :
    (l.foldl (fun res i => res.set (tgt i) (g res i)) init).length = init.length := by
  induction l generalizing init with
  | nil => rfl
  | cons a l ih => simp only [List.foldl_cons]; rw [ih]; simp

theorem foldl_set_length (n : Nat) (tgt val : Nat → Nat) (init : List Nat) :
    ((List.range n).foldl (fun res i => res.set (tgt i) (val i)) init).length = init.length :=
  foldl_setg_length (List.range n) tgt (fun _ i => val i) init

/-- generic scatter-write: if the targets are pairwise distinct and in range, the cell `tgt i`
    ends up with `val i` -/
theorem foldl_set_getD (n : Nat) (tgt val : Nat → Nat) (init : List Nat)
    (hin : ∀ i, i < n → tgt i < init.length)
    (hinj : ∀ i j, i < n → j < n → tgt i = tgt j → i = j)
    (i : Nat) (hi : i < n) :
    ((List.range n).foldl (fun res i => res.set (tgt i) (val i)) init).getD (tgt i) 0 = val i := by
  induction n with
  | zero => omega
  | succ n ih =>
    rw [List.range_succ, List.foldl_append]
    simp only [List.foldl_cons, List.foldl_nil]
    by_cases hin' : i = n
    · subst hin'
      have hl := foldl_set_length i tgt val init
      exact getD_set_self _ _ _ (by rw [hl]; exact hin i (by omega))
    · have hne : tgt n ≠ tgt i := fun h => hin' (hinj n i (by omega) (by omega) h).symm
      have := ih (fun k hk => hin k (by omega))
        (fun a b ha hb => hinj a b (by omega) (by omega)) (by omega)
      rw [getD_set_ne _ _ _ _ hne]; exact this

example : (List.range 3).foldl (fun res i => res.set ([2, 0, 1].getD i 0) (10 + i)) [0, 0, 0]
    = [11, 12, 10] := by decide

/-- generic scatter-add (Sum over axes): cell `p` ends with `init[p] + Σ {val i | tgt i = p}` up to
    the modular add -/
theorem foldl_scatter_add (n : Nat) (tgt val : Nat → Nat) (add : Nat → Nat → Nat) (init : List Nat)
    (p : Nat) (hp : p < init.length) :
    ((List.range n).foldl (fun res i => res.set (tgt i) (add (res.getD (tgt i) 0) (val i))) init).getD p 0
      = (((List.range n).filter fun i => tgt i = p).foldl (fun acc i => add acc (val i))
          (init.getD p 0)) := by
  induction n with
  | zero => rfl
  | succ n ih =>
    rw [List.range_succ, List.foldl_append, List.filter_append, List.foldl_append]
    simp only [List.foldl_cons, List.foldl_nil]
    have hl := foldl_setg_length (List.range n) tgt
      (fun res i => add (res.getD (tgt i) 0) (val i)) init
    by_cases hn : tgt n = p
    · subst hn
      simp only [decide_true, List.filter_cons_of_pos, List.filter_nil, List.foldl_cons,
        List.foldl_nil, ← ih]
      exact getD_set_self _ _ _ (by rw [hl]; exact hp)
    · simp only [hn, decide_false, Bool.false_eq_true, not_false_eq_true,
        List.filter_cons_of_neg, List.filter_nil, List.foldl_nil, ← ih]
      exact getD_set_ne _ _ _ _ hn

example : (List.range 4).foldl (fun res i => res.set (i % 2) (res.getD (i % 2) 0 + (i + 1))) [0, 0]
    = [4, 6] := by decide

/-! ### InversePermutation -/

/-- body of the loop of `execute_inverse_permutation` -/
private def invStep (values : List Nat) (res : List Nat) (i : Nat) : Except String (List Nat) :=
  if values.length ≤ values.getD i 0 then
    Except.error "Input array doesn't contain a valid permutation"
  else Except.ok (res.set (values.getD i 0) i)

theorem executeInversePermutation_eq (values : List Nat) :
    executeInversePermutation values
      = (List.range values.length).foldlM (invStep values) (List.replicate values.length 0) := rfl

/-- when every visited value is in range the monadic loop is the pure scatter-write -/
theorem foldlM_invStep_ok (values : List Nat) (l : List Nat) (init : List Nat)
    (h : ∀ i ∈ l, values.getD i 0 < values.length) :
    l.foldlM (invStep values) init
      = .ok (l.foldl (fun res i => res.set (values.getD i 0) i) init) := by
  induction l generalizing init with
  | nil => rfl
  | cons a l ih =>
    have ha : ¬ values.length ≤ values.getD a 0 := by
      have := h a List.mem_cons_self; omega
    rw [List.foldlM_cons]
    simp only [invStep, ha, if_false, List.foldl_cons]
    exact ih _ (fun i hi => h i (List.mem_cons_of_mem _ hi))

/-- a failing step makes the loop fail -/
theorem foldlM_invStep_err (values : List Nat) (l : List Nat) (init : List Nat)
    (h : ∃ i ∈ l, values.length ≤ values.getD i 0) :
    ∃ e, l.foldlM (invStep values) init = .error e := by
  induction l generalizing init with
  | nil => obtain ⟨i, hi, _⟩ := h; cases hi
  | cons a l ih =>
    rw [List.foldlM_cons]
    by_cases ha : values.length ≤ values.getD a 0
    · exact ⟨_, by simp only [invStep, ha, if_true]; rfl⟩
    · obtain ⟨i, hi, hv⟩ := h
      have hil : i ∈ l := by
        rcases List.mem_cons.mp hi with rfl | h'
        · exact absurd hv ha
        · exact h'
      obtain ⟨e, he⟩ := ih (init.set (values.getD a 0) a) ⟨i, hil, hv⟩
      exact ⟨e, by simp only [invStep, ha, if_false]; exact he⟩

/-- InversePermutation: on a permutation of 0..n-1 the result `r` satisfies `r[values[i]] = i` -/
theorem inversePermutation_spec (values : List Nat) (hnd : values.Nodup)
    (hlt : ∀ v ∈ values, v < values.length) :
    ∃ r, inversePermutation values = .ok r ∧ r.length = values.length ∧
      ∀ i, i < values.length → r.getD (values.getD i 0) 0 = i := by
  have hin : ∀ i, i < values.length → values.getD i 0 < values.length := by
    intro i hi
    apply hlt
    simp [List.getD_eq_getElem?_getD, hi]
  have hinj : ∀ i j, i < values.length → j < values.length →
      values.getD i 0 = values.getD j 0 → i = j := by
    intro i j hi hj h
    simp only [List.getD_eq_getElem?_getD, List.getElem?_eq_getElem hi,
      List.getElem?_eq_getElem hj, Option.getD_some] at h
    have hp := List.pairwise_iff_getElem.mp hnd
    rcases Nat.lt_trichotomy i j with hlt' | heq | hgt
    · exact absurd h (hp i j hi hj hlt')
    · exact heq
    · exact absurd h.symm (hp j i hj hi hgt)
  refine ⟨(List.range values.length).foldl (fun res i => res.set (values.getD i 0) i)
    (List.replicate values.length 0), ?_, ?_, ?_⟩
  · simp only [inversePermutation, hnd, not_true_eq_false, if_false]
    rw [executeInversePermutation_eq, foldlM_invStep_ok]
    intro i hi
    exact hin i (List.mem_range.mp hi)
  · rw [foldl_set_length]; simp
  · intro i hi
    exact foldl_set_getD values.length (fun i => values.getD i 0) (fun i => i) _
      (by simpa using hin) hinj i hi

example : inversePermutation [2, 0, 3, 1] = .ok [1, 3, 0, 2] := by rfl

/-- anything else is rejected -/
theorem inversePermutation_err (values : List Nat)
    (h : ¬ values.Nodup ∨ ∃ v ∈ values, values.length ≤ v) :
    ∃ e, inversePermutation values = .error e := by
  by_cases hnd : values.Nodup
  · rcases h with h | ⟨v, hv, hle⟩
    · exact absurd hnd h
    · simp only [inversePermutation, hnd, not_true_eq_false, if_false]
      rw [executeInversePermutation_eq]
      apply foldlM_invStep_err
      obtain ⟨i, hi, rfl⟩ := List.mem_iff_getElem.mp hv
      exact ⟨i, List.mem_range.mpr hi, by simpa [List.getD_eq_getElem?_getD, hi] using hle⟩
  · refine ⟨"Input array doesn't contain a valid permutation", ?_⟩
    simp only [inversePermutation, hnd, not_false_eq_true, if_true]

example : ∃ e, inversePermutation [2, 0, 2, 1] = .error e := ⟨_, rfl⟩
example : ∃ e, inversePermutation [2, 0, 4, 1] = .error e := ⟨_, rfl⟩

/-! ### PermuteAxes -/

theorem validIdx_getD {I s : List Nat} (h : validIdx I s) (k : Nat) (hk : k < s.length) :
    I.getD k 0 < s.getD k 0 := by
  induction s generalizing I k with
  | nil => simp at hk
  | cons d ds ih =>
    cases I with
    | nil => simp [validIdx] at h
    | cons x xs =>
      simp only [validIdx] at h
      cases k with
      | zero => simpa using h.1
      | succ k =>
        have := ih h.2 k (by simpa using hk)
        simpa using this

theorem validIdx_iff_getD (I s : List Nat) :
    validIdx I s ↔ I.length = s.length ∧ ∀ k, k < s.length → I.getD k 0 < s.getD k 0 := by
  constructor
  · intro h; exact ⟨validIdx_length h, fun k hk => validIdx_getD h k hk⟩
  · intro ⟨hl, hd⟩
    induction s generalizing I with
    | nil => cases I with
      | nil => trivial
      | cons x xs => simp at hl
    | cons d ds ih =>
      cases I with
      | nil => simp at hl
      | cons x xs =>
        simp only [validIdx]
        refine ⟨by simpa using hd 0 (by simp), ih xs (by simpa using hl) ?_⟩
        intro k hk
        simpa using hd (k + 1) (by simpa using hk)

/-- the permuted index is a valid index of the permuted shape -/
theorem validIdx_map_getD {I shape : List Nat} (h : validIdx I shape) (perm : List Nat)
    (hlt : ∀ j ∈ perm, j < shape.length) :
    validIdx (perm.map fun j => I.getD j 0) (perm.map fun j => shape.getD j 0) := by
  induction perm with
  | nil => trivial
  | cons a l ih =>
    simp only [List.map_cons, validIdx]
    exact ⟨validIdx_getD h a (hlt a List.mem_cons_self),
      ih (fun j hj => hlt j (List.mem_cons_of_mem _ hj))⟩

theorem prod_perm {l₁ l₂ : List Nat} (h : l₁.Perm l₂) : prod l₁ = prod l₂ := by
  induction h with
  | nil => rfl
  | cons x _ ih => simp only [prod, ih]
  | swap x y l => simp only [prod]; exact Nat.mul_left_comm y x (prod l)
  | trans _ _ ih1 ih2 => exact ih1.trans ih2

/-- pigeonhole: a duplicate-free list of `n` numbers below `n` contains every number below `n` -/
theorem mem_of_nodup_lt {perm : List Nat} {n : Nat} (hpl : perm.length = n) (hnd : perm.Nodup)
    (hlt : ∀ j ∈ perm, j < n) (k : Nat) (hk : k < n) : k ∈ perm := by
  apply Classical.byContradiction
  intro hnot
  have hsub : perm ⊆ (List.range n).erase k := by
    intro x hx
    have hxk : x ≠ k := fun h => hnot (h ▸ hx)
    exact (List.mem_erase_of_ne hxk).2 (List.mem_range.mpr (hlt x hx))
  have h1 := List.Nodup.length_le_of_subset hnd hsub
  have h2 : ((List.range n).erase k).length = n - 1 := by
    rw [List.length_erase]; simp [hk]
  omega

theorem perm_range_of_nodup_lt {perm : List Nat} {n : Nat} (hpl : perm.length = n)
    (hnd : perm.Nodup) (hlt : ∀ j ∈ perm, j < n) : perm.Perm (List.range n) := by
  rw [List.perm_ext_iff_of_nodup hnd List.nodup_range]
  intro a
  exact ⟨fun h => List.mem_range.mpr (hlt a h),
    fun h => mem_of_nodup_lt hpl hnd hlt a (List.mem_range.mp h)⟩

theorem map_getD_range (s : List Nat) : ((List.range s.length).map fun j => s.getD j 0) = s := by
  apply List.ext_getElem
  · simp
  · intro i h1 h2
    simp [List.getD_eq_getElem?_getD, h2]

/-- a permutation of the axes keeps the number of elements -/
theorem prod_map_perm {shape perm : List Nat} (hpl : perm.length = shape.length)
    (hnd : perm.Nodup) (hlt : ∀ j ∈ perm, j < shape.length) :
    prod (perm.map fun j => shape.getD j 0) = prod shape := by
  have hp := perm_range_of_nodup_lt hpl hnd hlt
  rw [prod_perm (hp.map _), map_getD_range]

/-- `flat` is injective on valid indices -/
theorem flat_inj {I J s : List Nat} (hI : validIdx I s) (hJ : validIdx J s)
    (h : flat I s = flat J s) : I = J := by
  rw [← numberToIndex_flat hI, ← numberToIndex_flat hJ, h]

/-- two indices of a shape that agree on every axis named in `perm` (which names all of them) are equal -/
theorem eq_of_map_getD_eq {I J shape perm : List Nat} (hI : I.length = shape.length)
    (hJ : J.length = shape.length) (hsurj : ∀ k, k < shape.length → k ∈ perm)
    (h : (perm.map fun j => I.getD j 0) = perm.map fun j => J.getD j 0) : I = J := by
  apply List.ext_getElem (hI.trans hJ.symm)
  intro k h1 h2
  have hk := hsurj k (hI ▸ h1)
  have := (List.map_inj_left.mp h) k hk
  simpa [List.getD_eq_getElem?_getD, h1, h2] using this

/-- PermuteAxes (numpy.transpose): `R[J] = A[I]` whenever `J_k = I_{perm k}`; `perm` a permutation
    of the axes -/
theorem permuteAxes_spec (values shape perm : List Nat) (hlen : values.length = prod shape)
    (hpos : pos shape) (hpl : perm.length = shape.length) (hnd : perm.Nodup)
    (hlt : ∀ j ∈ perm, j < shape.length) :
    Spec.permuteRel (Spec.ofFlat shape values)
      (Spec.ofFlat (perm.map fun j => shape.getD j 0)
        (permuteAxes values shape perm (perm.map fun j => shape.getD j 0)))
      shape perm := by
  intro I hI
  simp only [Spec.ofFlat]
  have hprod := prod_map_perm hpl hnd hlt
  have hsurj := mem_of_nodup_lt hpl hnd hlt
  -- the target function of the loop
  let outShape := perm.map fun j => shape.getD j 0
  let tgt : Nat → Nat := fun i =>
    indexToNumber (perm.map fun j => (numberToIndex i shape).getD j 0) outShape
  have htgt : ∀ i, i < values.length →
      tgt i = flat (perm.map fun j => (numberToIndex i shape).getD j 0) outShape ∧
      validIdx (perm.map fun j => (numberToIndex i shape).getD j 0) outShape ∧
      validIdx (numberToIndex i shape) shape := by
    intro i hi
    have hv := numberToIndex_valid hpos (hlen ▸ hi)
    have hv' := validIdx_map_getD hv perm hlt
    exact ⟨indexToNumber_eq_flat hv', hv', hv⟩
  have hin : ∀ i, i < values.length → tgt i < (List.replicate values.length 0).length := by
    intro i hi
    obtain ⟨e, hv', _⟩ := htgt i hi
    rw [e, List.length_replicate, hlen, ← hprod]
    exact flat_lt hv'
  have hinj : ∀ i j, i < values.length → j < values.length → tgt i = tgt j → i = j := by
    intro i j hi hj h
    obtain ⟨ei, hvi', hvi⟩ := htgt i hi
    obtain ⟨ej, hvj', hvj⟩ := htgt j hj
    rw [ei, ej] at h
    have hm := flat_inj hvi' hvj' h
    have hIJ := eq_of_map_getD_eq (validIdx_length hvi) (validIdx_length hvj) hsurj hm
    have h1 := flat_numberToIndex hpos (n := i) (hlen ▸ hi)
    have h2 := flat_numberToIndex hpos (n := j) (hlen ▸ hj)
    rw [hIJ] at h1
    exact h1.symm.trans h2
  have hi : flat I shape < values.length := hlen ▸ flat_lt hI
  have key := foldl_set_getD values.length tgt (fun i => values.getD i 0)
    (List.replicate values.length 0) hin hinj (flat I shape) hi
  have e : tgt (flat I shape) = flat (perm.map fun j => I.getD j 0) outShape := by
    have := (htgt _ hi).1
    rw [numberToIndex_flat hI] at this
    exact this
  rw [e] at key
  exact key

example : permuteAxes [0, 1, 2, 3, 4, 5] [2, 3] [1, 0] [3, 2] = [0, 3, 1, 4, 2, 5] := by decide
example : permuteAxes (List.range 24) [2, 3, 4] [2, 0, 1] [4, 2, 3]
    = [0, 4, 8, 12, 16, 20, 1, 5, 9, 13, 17, 21, 2, 6, 10, 14, 18, 22, 3, 7, 11, 15, 19, 23] := by
  decide

end CCV.Ops
