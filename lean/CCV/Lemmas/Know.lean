import CCV.Model.Know
/- Soundness of the holder analysis: lemmas. -/
namespace CCV.Know
variable {A : Type}

/-- party `p`'s value `vp` agrees with the global value `vg` on every component it holds -/
def Agree (p : Nat) : HT → Val A → Val A → Prop
  | .leaf m, vp, vg => PS.mem p m = true → vp = vg
  | .nil, vp, vg => vp = vg
  | .cons h t, .cons a b, .cons a' b' => Agree p h a a' ∧ Agree p t b b'
  | .cons _ _, _, _ => False

theorem PS.mem_inter (p : Nat) (a b : PS) :
    PS.mem p (PS.inter a b) = (PS.mem p a && PS.mem p b) := by
  unfold PS.mem PS.inter; split <;> simp

theorem PS.mem_single (p o : Nat) (hp : p < 3) : PS.mem p (PS.single o) = true → p = o := by
  unfold PS.mem PS.single
  match p, hp with
  | 0, _ => simp; intro h; exact h.symm
  | 1, _ => simp; intro h; exact h.symm
  | 2, _ => simp; intro h; exact h.symm

theorem PS.mem_none (p : Nat) : PS.mem p PS.none = false := by
  unfold PS.mem PS.none; split <;> rfl

theorem PS.mem_lt (p : Nat) (m : PS) : PS.mem p m = true → p < 3 := by
  unfold PS.mem; split <;> simp

theorem PS.mem_insert (p r : Nat) (m : PS) :
    PS.mem p (PS.insert r m) = true → PS.mem p m = true ∨ p = r := by
  unfold PS.mem PS.insert
  split <;> simp <;> intro h <;> rcases h with h | h <;> simp [h]

theorem PS.mem_erase (p r : Nat) (m : PS) :
    PS.mem p (PS.erase r m) = true → PS.mem p m = true ∧ p ≠ r := by
  unfold PS.mem PS.erase
  split <;> simp <;> intro h1 h2 <;> exact ⟨h1, fun h => h2 h.symm⟩

theorem PS.mem_subset (p : Nat) (a b : PS) (h : PS.subset a b = true) :
    PS.mem p a = true → PS.mem p b = true := by
  unfold PS.subset at h; unfold PS.mem
  simp only [Bool.and_eq_true, Bool.or_eq_true, Bool.not_eq_true'] at h
  obtain ⟨⟨h0, h1⟩, h2⟩ := h
  split
  · intro ha; rcases h0 with h | h
    · rw [h] at ha; exact absurd ha (by decide)
    · exact h
  · intro ha; rcases h1 with h | h
    · rw [h] at ha; exact absurd ha (by decide)
    · exact h
  · intro ha; rcases h2 with h | h
    · rw [h] at ha; exact absurd ha (by decide)
    · exact h
  · intro ha; exact absurd ha (by decide)

/-- a party that holds every component holds the whole value -/
theorem agree_meet (p : Nat) : ∀ (t : HT) (vp vg : Val A),
    Agree p t vp vg → PS.mem p (meet t) = true → vp = vg
  | .leaf _, _, _, h, hm => h hm
  | .nil, _, _, h, _ => h
  | .cons h t, .cons a b, .cons a' b', ⟨h1, h2⟩, hm => by
    simp only [meet, PS.mem_inter, Bool.and_eq_true] at hm
    rw [agree_meet p h a a' h1 hm.1, agree_meet p t b b' h2 hm.2]
  | .cons _ _, .atom _, _, h, _ => absurd h (by simp [Agree])
  | .cons _ _, .nil, _, h, _ => absurd h (by simp [Agree])
  | .cons _ _, .cons _ _, .atom _, h, _ => absurd h (by simp [Agree])
  | .cons _ _, .cons _ _, .nil, h, _ => absurd h (by simp [Agree])

theorem agree_refl (p : Nat) : ∀ (t : HT) (v : Val A), Agree p t v v → True := fun _ _ _ => trivial

/-- equal values agree with any *leaf* / nil tree -/
theorem agree_leaf_of_eq (p : Nat) (m : PS) (v : Val A) : Agree p (.leaf m) v v := fun _ => rfl

theorem agree_nth (p : Nat) : ∀ (j : Nat) (t : HT) (vp vg : Val A),
    Agree p t vp vg → Agree p (nthHT j t) (nthV j vp) (nthV j vg)
  | _, .leaf m, vp, vg, h => by
    have : ∀ j, nthHT j (.leaf m) = .leaf m := by intro j; cases j <;> rfl
    rw [this]; intro hm; rw [h hm]
  | _, .nil, vp, vg, h => by
    have : ∀ j, nthHT j .nil = .nil := by intro j; cases j <;> rfl
    rw [this]; have h' : vp = vg := h
    rw [h']; rfl
  | 0, .cons h t, .cons a b, .cons a' b', ⟨h1, _⟩ => h1
  | j + 1, .cons h t, .cons a b, .cons a' b', ⟨_, h2⟩ => agree_nth p j t b b' h2
  | _, .cons _ _, .atom _, _, h => absurd h (by simp [Agree])
  | _, .cons _ _, .nil, _, h => absurd h (by simp [Agree])
  | _, .cons _ _, .cons _ _, .atom _, h => absurd h (by simp [Agree])
  | _, .cons _ _, .cons _ _, .nil, h => absurd h (by simp [Agree])

theorem agree_mkTup (p : Nat) : ∀ (ts : List HT) (vps vgs : List (Val A)),
    ts.length = vps.length → ts.length = vgs.length →
    (∀ i, i < ts.length → Agree p (ts.getD i (.leaf PS.none)) (vps.getD i .nil) (vgs.getD i .nil)) →
    Agree p (mkHT ts) (mkTup vps) (mkTup vgs)
  | [], [], [], _, _, _ => rfl
  | t :: ts, v :: vps, w :: vgs, h1, h2, h => by
    refine ⟨?_, ?_⟩
    · have := h 0 (by simp)
      simpa using this
    · apply agree_mkTup p ts vps vgs (by simpa using h1) (by simpa using h2)
      intro i hi
      have := h (i + 1) (by simp; omega)
      simpa using this
  | [], _ :: _, _, h1, _, _ => by simp at h1
  | [], [], _ :: _, _, h2, _ => by simp at h2
  | _ :: _, [], _, h1, _, _ => by simp at h1
  | _ :: _, _ :: _, [], _, h2, _ => by simp at h2

/-- membership in the running intersection of `meet`s -/
theorem mem_foldl_inter (p : Nat) : ∀ (ts : List HT) (acc : PS),
    PS.mem p (ts.foldl (fun acc t => PS.inter acc (meet t)) acc) = true →
    PS.mem p acc = true ∧ ∀ t ∈ ts, PS.mem p (meet t) = true
  | [], acc, h => ⟨h, by simp⟩
  | t :: ts, acc, h => by
    have ih := mem_foldl_inter p ts (PS.inter acc (meet t)) h
    rw [PS.mem_inter, Bool.and_eq_true] at ih
    refine ⟨ih.1.1, ?_⟩
    intro t' ht'
    simp only [List.mem_cons] at ht'
    rcases ht' with rfl | h'
    · exact ih.1.2
    · exact ih.2 t' h'

/-- one send marker, a party other than the receiver: its value is unchanged -/
theorem agree_send_other (p s r : Nat) (hpr : p ≠ r) : ∀ (t : HT) (vp vg : Val A),
    Agree p t vp vg → Agree p (sendHT s r t) vp vg
  | .leaf m, vp, vg, h => by
    simp only [sendHT]; intro hm
    apply h
    split at hm
    · rcases PS.mem_insert _ _ _ hm with h' | h'
      · exact h'
      · exact absurd h' hpr
    · exact (PS.mem_erase _ _ _ hm).1
  | .nil, _, _, h => h
  | .cons h t, .cons a b, .cons a' b', ⟨h1, h2⟩ =>
    ⟨agree_send_other p s r hpr h a a' h1, agree_send_other p s r hpr t b b' h2⟩
  | .cons _ _, .atom _, _, h => absurd h (by simp [Agree])
  | .cons _ _, .nil, _, h => absurd h (by simp [Agree])
  | .cons _ _, .cons _ _, .atom _, h => absurd h (by simp [Agree])
  | .cons _ _, .cons _ _, .nil, h => absurd h (by simp [Agree])

/-- one send marker, the receiver: it now has the sender's value, and holds exactly the
    components the sender held -/
theorem agree_send_recv (s r : Nat) : ∀ (t : HT) (vs vg : Val A),
    Agree s t vs vg → Agree r (sendHT s r t) vs vg
  | .leaf m, vs, vg, h => by
    simp only [sendHT]; intro hm
    split at hm
    · rename_i hs; exact h hs
    · exact absurd rfl (PS.mem_erase _ _ _ hm).2
  | .nil, _, _, h => h
  | .cons h t, .cons a b, .cons a' b', ⟨h1, h2⟩ =>
    ⟨agree_send_recv s r h a a' h1, agree_send_recv s r t b b' h2⟩
  | .cons _ _, .atom _, _, h => absurd h (by simp [Agree])
  | .cons _ _, .nil, _, h => absurd h (by simp [Agree])
  | .cons _ _, .cons _ _, .atom _, h => absurd h (by simp [Agree])
  | .cons _ _, .cons _ _, .nil, h => absurd h (by simp [Agree])

theorem agree_sends : ∀ (sends : List (Nat × Nat)) (t : HT) (v : Nat → Val A) (vg : Val A),
    (∀ p, Agree p t (v p) vg) →
    ∀ p, Agree p (applySendsHT sends t) (applySends sends v p) vg
  | [], _, _, _, h => h
  | (s, r) :: rest, t, v, vg, h => by
    apply agree_sends rest
    intro p
    by_cases hp : p = r
    · subst hp; simp only [if_true]; exact agree_send_recv s p t (v s) vg (h s)
    · simp only [hp, if_false]; exact agree_send_other p s r hp t (v p) vg (h p)

end CCV.Know
