import CCV.Lemmas.TypedValue
import CCV.Lemmas.TVArray
import CCV.Lemmas.TVShape
/- JSON round trip of typed values: containers and the scalar leaf -/
namespace CCV.TV
open CCV CCV.Bytes

mutual
/-- every byte of the value is a byte -/
def bytesOk : Val → Bool
  | .bytes bs => bs.all (fun b => decide (b < 256))
  | .vec vs => bytesOkL vs
def bytesOkL : List Val → Bool
  | [] => true
  | v :: vs => bytesOk v && bytesOkL vs
end

mutual
/-- types whose JSON form determines them: valid, no empty vector, no empty named tuple
    (the two blind spots of the format, see known findings) -/
def expressible : Ty → Bool
  | .scalar _ => true
  | .array sh _ => isValidShape sh
  | .vector n t => decide (0 < n) && expressible t
  | .tuple ts => expressibleL ts
  | .named fs => !fs.isEmpty && nodupB (fs.map (·.1)) && expressibleN fs
def expressibleL : List Ty → Bool
  | [] => true
  | t :: ts => expressible t && expressibleL ts
def expressibleN : List (String × Ty) → Bool
  | [] => true
  | (_, t) :: fs => expressible t && expressibleN fs
end

mutual
theorem isValid_of_expressible : ∀ t : Ty, expressible t = true → t.isValid = true
  | .scalar _, _ => rfl
  | .array sh _, h => by simpa [expressible, Ty.isValid] using h
  | .vector n t, h => by
    simp only [expressible, Bool.and_eq_true] at h
    simp only [Ty.isValid]; exact isValid_of_expressible t h.2
  | .tuple ts, h => by
    simp only [expressible] at h
    simp only [Ty.isValid]; exact allValid_of_expressibleL ts h
  | .named fs, h => by
    simp only [expressible, Bool.and_eq_true] at h
    simp only [Ty.isValid, Bool.and_eq_true]; exact ⟨h.1.2, allValidN_of_expressibleN fs h.2⟩
theorem allValid_of_expressibleL : ∀ ts : List Ty, expressibleL ts = true → allValid ts = true
  | [], _ => rfl
  | t :: ts, h => by
    simp only [expressibleL, Bool.and_eq_true] at h
    simp only [allValid, Bool.and_eq_true]
    exact ⟨isValid_of_expressible t h.1, allValid_of_expressibleL ts h.2⟩
theorem allValidN_of_expressibleN : ∀ fs : List (String × Ty), expressibleN fs = true → allValidN fs = true
  | [], _ => rfl
  | (_, t) :: fs, h => by
    simp only [expressibleN, Bool.and_eq_true] at h
    simp only [allValidN, Bool.and_eq_true]
    exact ⟨isValid_of_expressible t h.1, allValidN_of_expressibleN fs h.2⟩
end

mutual
theorem Ty.beq_refl : ∀ t : Ty, t.beq t = true
  | .scalar _ => by simp [Ty.beq]
  | .array _ _ => by simp [Ty.beq]
  | .vector _ t => by simp [Ty.beq, Ty.beq_refl t]
  | .tuple ts => by simp [Ty.beq, beqL_refl ts]
  | .named fs => by simp [Ty.beq, beqN_refl fs]
theorem beqL_refl : ∀ ts : List Ty, beqL ts ts = true
  | [] => rfl
  | t :: ts => by simp [beqL, Ty.beq_refl t, beqL_refl ts]
theorem beqN_refl : ∀ fs : List (String × Ty), beqN fs fs = true
  | [] => rfl
  | (_, t) :: fs => by simp [beqN, Ty.beq_refl t, beqN_refl fs]
end

/-! ### the object forms -/

theorem ofJ_tvObj_typed (kind ty : String) (vj : J) (d : SDM) (h : ofJ vj = some d) :
    ofJ (tvObj kind (some ty) vj) = finishMap { kind := some kind, ty := some ty, value := some d } := by
  simp [tvObj, ofJ, ofJF, h]

theorem ofJ_tvObj_untyped (kind : String) (vj : J) (d : SDM) (h : ofJ vj = some d) :
    ofJ (tvObj kind none vj) = finishMap { kind := some kind, value := some d } := by
  simp [tvObj, ofJ, ofJF, h]

theorem ofJ_record (n : String) (vj : J) (d : SDM) (h : ofJ vj = some d) :
    ofJ (.obj [("name", .str n), ("value", vj)]) = finishMap { name := some n, value := some d } := by
  simp [ofJ, ofJF, h]

theorem parse_name (st : ST) : ST.parse st.name = some st := by cases st <;> decide


/-- the round-trip statement for one typed value -/
def RT (t : Ty) (v : Val) : Prop :=
  ∃ j v', toJ t v = some j ∧ ofJ j = some (.val (t, v')) ∧ checkB t v' = true ∧ isEqual t v v' = true

theorem rt_scalar_nonbit (st : ST) (h : st ≠ .bit) (bs : List Nat)
    (hc : checkB (.scalar st) (.bytes bs) = true) (hb : ∀ b ∈ bs, b < 256) :
    RT (.scalar st) (.bytes bs) := by
  have hl : bs.length = st.byteLen := by
    simp only [checkB, checkArrayType, numel_nil, beq_iff_eq] at hc
    simp only [ST.byteLen]; omega
  have hdec : vecU128FromBytes st bs = .ok [signPad 128 st (fromLE (bs.take (128 / 8)))] := by
    have := vecFromBytesW_flatMap 128 st h (fun _ : Unit => bs) [()] (by simp [hl])
    simpa [vecU128FromBytes] using this
  obtain ⟨x, hx, hle⟩ := elem_back st h bs hl hb
  have hto : toU128 (.bytes bs) st = .ok (signPad 128 st (fromLE (bs.take (128 / 8)))) := by
    simp [toU128, hdec]
  have hfrom : fromScalar x st = some (.scalar st, .bytes bs) := by
    simp [fromScalar, vecToBytes_ne_bit st h, hle]
  refine ⟨tvObj "scalar" (some st.name) (.num (castTo st (signPad 128 st (fromLE (bs.take (128 / 8)))))),
    .bytes bs, by simp only [toJ, hto], ?_, hc, by simp [isEqual, bytesEq_refl]⟩
  rw [ofJ_tvObj_typed "scalar" st.name _ (.arr [x] []) (by simp [ofJ, hx])]
  simp [finishMap, parse_name, hfrom]

theorem rt_scalar_bit (bs : List Nat)
    (hc : checkB (.scalar .bit) (.bytes bs) = true) (hb : ∀ b ∈ bs, b < 256) :
    RT (.scalar .bit) (.bytes bs) := by
  have hl : bs.length = 1 := by
    simpa [checkB, checkArrayType, numel_nil, ST.bits] using hc
  match bs, hl with
  | [b], _ =>
    have hb' : b < 256 := hb b (by simp)
    have hto : toU128 (.bytes [b]) .bit = .ok (b % 2) := by
      simp [toU128, vecU128FromBytes, vecFromBytesW, unpackByte]
    have hnum : numToU128 (castTo .bit (b % 2)) = some (b % 2) := by
      have e : castTo .bit (b % 2) = ((b % 2 % 256 : Nat) : Int) := rfl
      rw [e, numToU128_of_range _ (by omega) (by omega), asU128_ofNat]; congr 1; omega
    have hfrom : fromScalar (b % 2) .bit = some (.scalar .bit, .bytes [b % 2]) := by
      have : bitsToBytes [((b % 2 : Nat) : Int)] = .ok [b % 2] := by
        rw [bitsToBytes_ok _ (by intro x hx; simp at hx; omega)]
        simp [chunks8_ne_nil, chunks8_nil, packBits]; omega
      simp only [fromScalar, vecToBytes, this]
    refine ⟨tvObj "scalar" (some ST.bit.name) (.num (castTo .bit (b % 2))), .bytes [b % 2], by simp only [toJ, hto], ?_, by simp [checkB, checkArrayType, numel_nil, ST.bits],
      by simp [isEqual, bytesEq, ST.bits]⟩
    rw [ofJ_tvObj_typed "scalar" ST.bit.name _ (.arr [b % 2] []) (by simp [ofJ, hnum])]
    simp [finishMap, parse_name, hfrom]


theorem rt_scalar (st : ST) (bs : List Nat)
    (hc : checkB (.scalar st) (.bytes bs) = true) (hb : ∀ b ∈ bs, b < 256) :
    RT (.scalar st) (.bytes bs) := by
  by_cases h : st = .bit
  · subst h; exact rt_scalar_bit bs hc hb
  · exact rt_scalar_nonbit st h bs hc hb

/-! ### containers -/

def RTL (ts : List Ty) (vs : List Val) : Prop :=
  ∃ js vs', toJL ts vs = some js ∧
    ofJL js = some (List.zipWith (fun t v' => SDM.val (t, v')) ts vs') ∧
    checkL ts vs' = true ∧ isEqualL ts vs vs' = true ∧ vs'.length = ts.length

def RTN (fs : List (String × Ty)) (vs : List Val) : Prop :=
  ∃ js vs', toJN fs vs = some js ∧
    ofJL js = some (List.zipWith (fun f v' => SDM.named [(f.1, (f.2, v'))]) fs vs') ∧
    checkN fs vs' = true ∧ isEqualN fs vs vs' = true ∧ vs'.length = fs.length

def RTV (t : Ty) (vs : List Val) : Prop :=
  ∃ js vs', vs.mapM (fun v => if checkOk v t then toJ t v else none) = some js ∧
    ofJL js = some (vs'.map (fun v' => SDM.val (t, v'))) ∧
    (∀ v' ∈ vs', checkB t v' = true) ∧ isEqualV t vs vs' = true ∧ vs'.length = vs.length

theorem rtl_nil : RTL [] [] := ⟨[], [], by simp [toJL], by simp [ofJL], by simp [checkL], by simp [isEqualL], rfl⟩

theorem rtl_cons (t : Ty) (v : Val) (ts : List Ty) (vs : List Val) (hv : t.isValid = true)
    (hc : checkB t v = true) (h1 : RT t v) (h2 : RTL ts vs) : RTL (t :: ts) (v :: vs) := by
  obtain ⟨j, v', a1, a2, a3, a4⟩ := h1
  obtain ⟨js, vs', b1, b2, b3, b4, b5⟩ := h2
  refine ⟨j :: js, v' :: vs', ?_, ?_, ?_, ?_, ?_⟩
  · simp [toJL, checkOk, hv, hc, a1, b1]
  · simp [ofJL, a2, b2]
  · simp [checkL, a3, b3]
  · simp [isEqualL, a4, b4]
  · simp [b5]

theorem rtn_nil : RTN [] [] := ⟨[], [], by simp [toJN], by simp [ofJL], by simp [checkN], by simp [isEqualN], rfl⟩

theorem rtn_cons (n : String) (t : Ty) (v : Val) (fs : List (String × Ty)) (vs : List Val)
    (hv : t.isValid = true) (hc : checkB t v = true) (h1 : RT t v) (h2 : RTN fs vs) :
    RTN ((n, t) :: fs) (v :: vs) := by
  obtain ⟨j, v', a1, a2, a3, a4⟩ := h1
  obtain ⟨js, vs', b1, b2, b3, b4, b5⟩ := h2
  refine ⟨.obj [("name", .str n), ("value", j)] :: js, v' :: vs', ?_, ?_, ?_, ?_, ?_⟩
  · simp [toJN, checkOk, hv, hc, a1, b1]
  · rw [ofJL, ofJ_record n j _ a2, b2]
    simp [finishMap]
  · simp [checkN, a3, b3]
  · simp [isEqualN, a4, b4]
  · simp [b5]

theorem rtv_of (t : Ty) (hv : t.isValid = true) (vs : List Val)
    (h : ∀ v ∈ vs, checkB t v = true ∧ RT t v) : RTV t vs := by
  induction vs with
  | nil => exact ⟨[], [], rfl, by simp [ofJL], by simp, by simp [isEqualV], rfl⟩
  | cons v vs ih =>
    obtain ⟨hc, j, v', a1, a2, a3, a4⟩ := h v (by simp)
    obtain ⟨js, vs', b1, b2, b3, b4, b5⟩ := ih (fun w hw => h w (by simp [hw]))
    refine ⟨j :: js, v' :: vs', ?_, ?_, ?_, ?_, ?_⟩
    · have hok : checkOk v t = true := by simp [checkOk, hv, hc]
      rw [List.mapM_cons]; simp only [hok, if_true, a1, b1]; rfl
    · simp [ofJL, a2, b2]
    · intro w hw
      rcases List.mem_cons.1 hw with rfl | hw
      · exact a3
      · exact b3 w hw
    · simp [isEqualV, a4, b4]
    · simp [b5]


theorem allVal_zipWith (ts : List Ty) (vs : List Val) :
    allVal (List.zipWith (fun t v' => SDM.val (t, v')) ts vs) = some (ts.zip vs) := by
  induction ts generalizing vs with
  | nil => simp [allVal]
  | cons t ts ih =>
    cases vs with
    | nil => simp [allVal]
    | cons v vs => simp [allVal, ih]

theorem finishSeq_vals (ts : List Ty) (vs : List Val) :
    finishSeq (List.zipWith (fun t v' => SDM.val (t, v')) ts vs) = some (.vec (ts.zip vs)) := by
  cases ts with
  | nil => simp [finishSeq]
  | cons t ts =>
    cases vs with
    | nil => simp [finishSeq]
    | cons v vs =>
      have := allVal_zipWith (t :: ts) (v :: vs)
      simp only [List.zipWith_cons_cons] at this
      simp only [List.zipWith_cons_cons, finishSeq, this]; rfl

theorem rt_tuple (ts : List Ty) (vs : List Val) (he : allValid ts = true) (h : RTL ts vs) :
    RT (.tuple ts) (.vec vs) := by
  obtain ⟨js, vs', b1, b2, b3, b4, b5⟩ := h
  refine ⟨tvObj "tuple" none (.arr js), .vec vs', by simp [toJ, b1], ?_, by simpa [checkB] using b3,
    by simpa [isEqual] using b4⟩
  have hv : ofJ (.arr js) = some (.vec (ts.zip vs')) := by
    simp [ofJ, b2, finishSeq_vals]
  rw [ofJ_tvObj_untyped "tuple" _ _ hv]
  have h1 : (ts.zip vs').map (·.1) = ts := by
    rw [List.map_fst_zip]; omega
  have h2 : (ts.zip vs').map (·.2) = vs' := by
    rw [List.map_snd_zip]; omega
  simp [finishMap, tupleFrom, h1, h2, checkOk, Ty.isValid, he, checkB, b3]


theorem allVal_map (t : Ty) (vs : List Val) :
    allVal (vs.map (fun v' => SDM.val (t, v'))) = some (vs.map (fun v' => (t, v'))) := by
  induction vs with
  | nil => simp [allVal]
  | cons v vs ih => simp [allVal, ih]

theorem rt_vector (n : Nat) (t : Ty) (vs : List Val) (hn : 0 < n) (hl : vs.length = n)
    (h : RTV t vs) : RT (.vector n t) (.vec vs) := by
  obtain ⟨js, vs', b1, b2, b3, b4, b5⟩ := h
  refine ⟨tvObj "vector" none (.arr js), .vec vs', by simp [toJ, hl, b1], ?_, ?_, by simpa [isEqual] using b4⟩
  · have hne : vs' ≠ [] := by
      intro e; rw [e] at b5; simp at b5; omega
    have hv : ofJ (.arr js) = some (.vec (vs'.map (fun v' => (t, v')))) := by
      simp only [ofJ, b2, Option.bind_some]
      cases vs' with
      | nil => exact absurd rfl hne
      | cons w ws =>
        have := allVal_map t (w :: ws)
        simp only [List.map_cons] at this
        simp only [List.map_cons, finishSeq, this]; rfl
    rw [ofJ_tvObj_untyped "vector" _ _ hv]
    cases vs' with
    | nil => exact absurd rfl hne
    | cons w ws =>
      have hlen : (w :: ws).length = n := by omega
      simp [finishMap, vectorFrom, Ty.beq_refl, Function.comp_def] at hlen ⊢
      omega
  · simp only [checkB, Bool.and_eq_true, decide_eq_true_eq, List.all_eq_true]
    exact ⟨by omega, b3⟩

theorem allNamed_zipWith (fs : List (String × Ty)) (vs : List Val) :
    allNamed (List.zipWith (fun f v' => SDM.named [(f.1, (f.2, v'))]) fs vs)
      = some (List.zipWith (fun f v' => (f.1, (f.2, v'))) fs vs) := by
  induction fs generalizing vs with
  | nil => simp [allNamed]
  | cons f fs ih =>
    cases vs with
    | nil => simp [allNamed]
    | cons v vs => simp [allNamed, ih]

theorem checkOk_all_of_checkN (fs : List (String × Ty)) (vs : List Val) (hv : allValidN fs = true)
    (hc : checkN fs vs = true) :
    (List.zipWith (fun f v' => (f.1, (f.2, v'))) fs vs).all (fun f => checkOk f.2.2 f.2.1) = true := by
  induction fs generalizing vs with
  | nil => simp
  | cons f fs ih =>
    obtain ⟨n, t⟩ := f
    cases vs with
    | nil => simp
    | cons v vs =>
      simp only [allValidN, Bool.and_eq_true] at hv
      simp only [checkN, Bool.and_eq_true] at hc
      simp only [List.zipWith_cons_cons, List.all_cons, Bool.and_eq_true]
      exact ⟨by simp [checkOk, hv.1, hc.1], ih vs hv.2 hc.2⟩

theorem zipWith_types (fs : List (String × Ty)) (vs : List Val) (hl : vs.length = fs.length) :
    (List.zipWith (fun f v' => (f.1, (f.2, v'))) fs vs).map (fun f => (f.1, f.2.1)) = fs ∧
    (List.zipWith (fun f v' => (f.1, (f.2, v'))) fs vs).map (·.2.2) = vs := by
  induction fs generalizing vs with
  | nil => cases vs <;> simp_all
  | cons f fs ih =>
    cases vs with
    | nil => simp at hl
    | cons v vs =>
      have := ih vs (by simpa using hl)
      simp [this.1, this.2]

theorem rt_named (fs : List (String × Ty)) (vs : List Val) (hne : fs ≠ [])
    (hv : (Ty.named fs).isValid = true) (h : RTN fs vs) : RT (.named fs) (.vec vs) := by
  obtain ⟨js, vs', b1, b2, b3, b4, b5⟩ := h
  refine ⟨tvObj "named tuple" none (.arr js), .vec vs', by simp [toJ, b1], ?_, by simpa [checkB] using b3,
    by simpa [isEqual] using b4⟩
  have hvalid := hv
  simp only [Ty.isValid, Bool.and_eq_true] at hvalid
  obtain ⟨f, fs', rfl⟩ := List.exists_cons_of_ne_nil hne
  obtain ⟨w, ws, rfl⟩ : ∃ w ws, vs' = w :: ws := by
    cases vs' with
    | nil => simp at b5
    | cons w ws => exact ⟨w, ws, rfl⟩
  have hz := allNamed_zipWith (f :: fs') (w :: ws)
  have hv' : ofJ (.arr js) = some (.named (List.zipWith (fun f v' => (f.1, (f.2, v'))) (f :: fs') (w :: ws))) := by
    simp only [ofJ, b2, Option.bind_some]
    simp only [List.zipWith_cons_cons] at hz ⊢
    simp only [finishSeq, hz]; rfl
  rw [ofJ_tvObj_untyped "named tuple" _ _ hv']
  have hall := checkOk_all_of_checkN (f :: fs') (w :: ws) hvalid.2 b3
  have htypes := zipWith_types (f :: fs') (w :: ws) b5
  simp only [finishMap]
  simp only [namedFrom, hall, if_true]
  simp only [List.zipWith_cons_cons] at htypes ⊢
  simp only [htypes.1, htypes.2]
  simp [checkOk, hv, checkB, b3]

/-! ### arrays and the type-recursive assembly -/

theorem rt_array (sh : List Nat) (st : ST) (bs : List Nat) (hs : isValidShape sh = true)
    (hc : checkB (.array sh st) (.bytes bs) = true) (hb : ∀ b ∈ bs, b < 256) :
    RT (.array sh st) (.bytes bs) := by
  have hl : bs.length = (numel sh * st.bits + 7) / 8 := by
    simpa [checkB, checkArrayType] using hc
  obtain ⟨r, g, bs', h1, h2, h3, h4, h5, _, h7⟩ := array_back st (numel sh) sh rfl bs hl hb
  obtain ⟨j, k1, k2⟩ := shaped_back st g sh hs r h2 h3
  refine ⟨tvObj "array" (some st.name) j, .bytes bs', by simp [toJ, hs, h1, k1], ?_, ?_, by simpa [isEqual] using h7⟩
  · rw [ofJ_tvObj_typed "array" st.name j _ k2]
    have h4' : vecToBytes st (List.map ((fun x : Nat => (x : Int)) ∘ g) r) = .ok bs' := by
      rw [← List.map_map]; exact h4
    simp [finishMap, parse_name, fromNdarray, h2, h4']
  · simp only [checkB, checkArrayType, beq_iff_eq]; omega

theorem bytesOk_bytes (bs : List Nat) (h : bytesOk (.bytes bs) = true) : ∀ b ∈ bs, b < 256 := by
  simpa [bytesOk] using h

mutual
theorem rt_all : ∀ (t : Ty) (v : Val), expressible t = true → checkB t v = true → bytesOk v = true → RT t v
  | .scalar st, .bytes bs, _, hc, hb => rt_scalar st bs hc (bytesOk_bytes bs hb)
  | .array sh st, .bytes bs, he, hc, hb =>
    rt_array sh st bs (by simpa [expressible] using he) hc (bytesOk_bytes bs hb)
  | .vector n t, .vec vs, he, hc, hb => by
    simp only [expressible, Bool.and_eq_true, decide_eq_true_eq] at he
    simp only [checkB, Bool.and_eq_true, decide_eq_true_eq, List.all_eq_true] at hc
    have hbs : ∀ v ∈ vs, bytesOk v = true := by
      simp only [bytesOk] at hb
      clear hc
      induction vs with
      | nil => simp
      | cons w ws ih =>
        simp only [bytesOkL, Bool.and_eq_true] at hb
        intro v hv
        rcases List.mem_cons.1 hv with rfl | hv
        · exact hb.1
        · exact ih hb.2 v hv
    exact rt_vector n t vs he.1 hc.1
      (rtv_of t (isValid_of_expressible t he.2) vs
        (fun v hv => ⟨hc.2 v hv, rt_all t v he.2 (hc.2 v hv) (hbs v hv)⟩))
  | .tuple ts, .vec vs, he, hc, hb => by
    simp only [expressible] at he
    simp only [checkB] at hc
    simp only [bytesOk] at hb
    exact rt_tuple ts vs (allValid_of_expressibleL ts he) (rt_allL ts vs he hc hb)
  | .named fs, .vec vs, he, hc, hb => by
    have hv := isValid_of_expressible _ he
    simp only [expressible, Bool.and_eq_true] at he
    simp only [checkB] at hc
    simp only [bytesOk] at hb
    have hne : fs ≠ [] := by
      intro e; rw [e] at he; simp at he
    exact rt_named fs vs hne hv (rt_allN fs vs he.2 hc hb)
  | .scalar _, .vec _, _, hc, _ => by simp [checkB] at hc
  | .array _ _, .vec _, _, hc, _ => by simp [checkB] at hc
  | .vector _ _, .bytes _, _, hc, _ => by simp [checkB] at hc
  | .tuple _, .bytes _, _, hc, _ => by simp [checkB] at hc
  | .named _, .bytes _, _, hc, _ => by simp [checkB] at hc
theorem rt_allL : ∀ (ts : List Ty) (vs : List Val), expressibleL ts = true → checkL ts vs = true →
    bytesOkL vs = true → RTL ts vs
  | [], [], _, _, _ => rtl_nil
  | t :: ts, v :: vs, he, hc, hb => by
    simp only [expressibleL, Bool.and_eq_true] at he
    simp only [checkL, Bool.and_eq_true] at hc
    simp only [bytesOkL, Bool.and_eq_true] at hb
    exact rtl_cons t v ts vs (isValid_of_expressible t he.1) hc.1 (rt_all t v he.1 hc.1 hb.1)
      (rt_allL ts vs he.2 hc.2 hb.2)
  | [], _ :: _, _, hc, _ => by simp [checkL] at hc
  | _ :: _, [], _, hc, _ => by simp [checkL] at hc
theorem rt_allN : ∀ (fs : List (String × Ty)) (vs : List Val), expressibleN fs = true →
    checkN fs vs = true → bytesOkL vs = true → RTN fs vs
  | [], [], _, _, _ => rtn_nil
  | (n, t) :: fs, v :: vs, he, hc, hb => by
    simp only [expressibleN, Bool.and_eq_true] at he
    simp only [checkN, Bool.and_eq_true] at hc
    simp only [bytesOkL, Bool.and_eq_true] at hb
    exact rtn_cons n t v fs vs (isValid_of_expressible t he.1) hc.1 (rt_all t v he.1 hc.1 hb.1)
      (rt_allN fs vs he.2 hc.2 hb.2)
  | [], _ :: _, _, hc, _ => by simp [checkN] at hc
  | _ :: _, [], _, hc, _ => by simp [checkN] at hc
end

end CCV.TV
