import CCV.Model.Slices
import CCV.Model.Spec
import CCV.Model.Ops
import CCV.Lemmas.Shape
/-
  Slice lemmas (C10): every slice accepted by the model of slices.rs means what Python's
  `slice(b, e, s).indices(dim)` / NumPy basic slicing says.
-/
namespace CCV.Slices
open CCV CCV.Shape

/-- decidable equality of results, for the `decide` examples only -/
@[instance_reducible] private def exceptDecEq {α : Type} [DecidableEq α] : DecidableEq (Except String α)
  | .ok a, .ok b => if h : a = b then isTrue (by rw [h]) else isFalse (by intro h'; cases h'; exact h rfl)
  | .error a, .error b => if h : a = b then isTrue (by rw [h]) else isFalse (by intro h'; cases h'; exact h rfl)
  | .ok _, .error _ => isFalse (by intro h; cases h)
  | .error _, .ok _ => isFalse (by intro h; cases h)
attribute [local instance] exceptDecEq

/-! ### the counting loop -/

/-- the counting loop: if it returns `c` then exactly `c - cnt` further elements `cur + k·step` were
    counted, each inside `[0, dim)` and not yet past `e`, and the next one is past `e` -/
theorem countLoop_spec (dim : Nat) (e step : Int) (hs : step ≠ 0) (fuel : Nat) (cur : Int) (cnt c : Nat)
    (h : countLoop dim e step fuel cur cnt = .ok c) :
    cnt ≤ c ∧
    (∀ k : Nat, k < c - cnt → 0 ≤ cur + step * k ∧ cur + step * k < dim ∧
        (if 0 < step then cur + step * k < e else cur + step * k > e)) ∧
    (if 0 < step then e ≤ cur + step * ((c - cnt : Nat) : Int) else cur + step * ((c - cnt : Nat) : Int) ≤ e) := by
  induction fuel generalizing cur cnt with
  | zero => simp [countLoop] at h
  | succ fuel ih =>
    unfold countLoop at h
    split at h
    · rename_i hstop
      cases h
      refine ⟨Nat.le_refl _, ?_, ?_⟩
      · intro k hk; omega
      · simp only [Nat.sub_self, Int.natCast_zero, Int.mul_zero, Int.add_zero]
        split <;> omega
    · rename_i hstop
      split at h
      · cases h
      · rename_i hin
        obtain ⟨h1, h2, h3⟩ := ih _ _ h
        have key : ∀ k : Nat, cur + step + step * (k : Int) = cur + step * ((k + 1 : Nat) : Int) := by
          intro k
          rw [Int.natCast_succ, Int.mul_add, Int.mul_one]; omega
        refine ⟨by omega, ?_, ?_⟩
        · intro k hk
          cases k with
          | zero =>
            simp only [Int.natCast_zero, Int.mul_zero, Int.add_zero]
            refine ⟨by omega, by omega, ?_⟩
            split <;> omega
          | succ k =>
            rw [← key]
            exact h2 k (by omega)
        · have hc : c - cnt = (c - (cnt + 1)) + 1 := by omega
          rw [hc, ← key]
          exact h3

example : countLoop 5 (-1) (-2) 6 4 0 = .ok 3 := by decide

/-! ### one axis -/

/-- normalised begin of `normalize_subarray` -/
def nBegin (dim : Nat) (b : Option Int) (step : Int) : Int :=
  let b0 := b.getD (if 0 < step then 0 else (dim : Int) - 1)
  if b0 < 0 then b0 + dim else b0

/-- normalised end of `normalize_subarray` -/
def nEnd (dim : Nat) (e : Option Int) (step : Int) : Int :=
  match e with
  | some x => if 0 ≤ x then x else x + dim
  | none => if 0 < step then (dim : Int) else -1

theorem normalizeSubarray_eq (dim : Nat) (b e s : Option Int) :
    normalizeSubarray dim b e s =
      if s.getD 1 = 0 then .error "Slice step can't be zero"
      else .ok (nBegin dim b (s.getD 1), nEnd dim e (s.getD 1), s.getD 1) := rfl

theorem getSliceShape1d_sub_ok (dim : Nat) (b e s : Option Int) (c : Nat)
    (h : getSliceShape1d dim (.sub b e s) = .ok (some c)) :
    s.getD 1 ≠ 0 ∧ c ≠ 0 ∧
    countLoop dim (nEnd dim e (s.getD 1)) (s.getD 1) (dim + 1) (nBegin dim b (s.getD 1)) 0 = .ok c := by
  simp only [getSliceShape1d] at h
  rw [normalizeSubarray_eq] at h
  by_cases h0 : s.getD 1 = 0
  · simp [h0] at h
  · simp only [if_neg h0] at h
    refine ⟨h0, ?_⟩
    split at h
    · cases h
    · cases h
    · rename_i c' hne hc
      cases h
      exact ⟨hne, hc⟩

/-- monotonicity facts about `step * j` that `omega` cannot derive itself -/
theorem mul_facts (step : Int) (j c : Nat) :
    (0 < step → 0 ≤ step * (j : Int)) ∧ (step < 0 → step * (j : Int) ≤ 0) ∧
    (0 < step → c ≤ j → step * (c : Int) ≤ step * (j : Int)) ∧
    (step < 0 → c ≤ j → step * (j : Int) ≤ step * (c : Int)) := by
  refine ⟨?_, ?_, ?_, ?_⟩
  · intro h; exact Int.mul_nonneg (by omega) (by omega)
  · intro h; exact Int.mul_nonpos_of_nonpos_of_nonneg (by omega) (by omega)
  · intro h hcj; exact Int.mul_le_mul_of_nonneg_left (by omega) (by omega)
  · intro h hcj; exact Int.mul_le_mul_of_nonpos_left (by omega) (by omega)

/-- one sub-array axis: an accepted slice `b:e:s` of an axis of size `dim` selects exactly the
    elements of Python's `range(*slice(b,e,s).indices(dim))`, in order, all inside the axis -/
theorem slice1d_spec (dim : Nat) (b e s : Option Int) (c : Nat)
    (h : getSliceShape1d dim (.sub b e s) = .ok (some c)) :
    s.getD 1 ≠ 0 ∧ 0 < c ∧
    (∀ j : Nat, j < c ↔ Spec.inRange (Spec.pyStart dim b (s.getD 1)) (Spec.pyStop dim e (s.getD 1)) (s.getD 1) j) ∧
    (∀ j : Nat, j < c →
        slice1dIndex dim b e s j = .ok (Spec.pyStart dim b (s.getD 1) + s.getD 1 * j).toNat ∧
        0 ≤ Spec.pyStart dim b (s.getD 1) + s.getD 1 * j ∧ Spec.pyStart dim b (s.getD 1) + s.getD 1 * j < dim) := by
  obtain ⟨hs, hc0, hcl⟩ := getSliceShape1d_sub_ok dim b e s c h
  have hnorm := normalizeSubarray_eq dim b e s
  rw [if_neg hs] at hnorm
  generalize s.getD 1 = step at *
  obtain ⟨-, hel, hfin⟩ := countLoop_spec dim _ step hs _ _ 0 c hcl
  simp only [Nat.sub_zero] at hel hfin
  have hcpos : 0 < c := by omega
  -- element 0 is inside the axis, hence the start was not clamped
  have h0 := hel 0 hcpos
  simp only [Int.natCast_zero, Int.mul_zero, Int.add_zero] at h0
  have hb : nBegin dim b step = Spec.pyStart dim b step := by
    obtain ⟨h01, h02, -⟩ := h0
    revert h01 h02
    unfold nBegin Spec.pyStart
    cases b with
    | none => simp only [Option.getD_none]; split <;> split <;> omega
    | some x =>
      simp only [Option.getD_some, Int.max_def, Int.min_def]
      split <;> split <;> split <;> omega
  rw [hb] at hel hfin hnorm
  clear h0 hb hcl
  generalize Spec.pyStart dim b step = st at *
  refine ⟨hs, hcpos, ?_, ?_⟩
  · intro j
    obtain ⟨m1, m2, m3, m4⟩ := mul_facts step j c
    have helj := hel j
    have hel0 := hel 0 hcpos
    simp only [Int.natCast_zero, Int.mul_zero, Int.add_zero] at hel0
    unfold Spec.inRange
    generalize step * (j : Int) = t at *
    generalize step * (c : Int) = tc at *
    revert helj hel0 hfin
    unfold nEnd Spec.pyStop
    cases e with
    | none =>
      simp only []
      by_cases hpos : 0 < step
      · simp only [if_pos hpos]; intro hfin helj hel0; constructor <;> intro hj <;> omega
      · simp only [if_neg hpos]; intro hfin helj hel0; constructor <;> intro hj <;> omega
    | some x =>
      simp only [Int.max_def, Int.min_def]
      by_cases hpos : 0 < step
      · simp only [if_pos hpos]; intro hfin helj hel0
        constructor
        · intro hj; have := helj hj; split <;> split <;> split at this <;> omega
        · intro hj
          apply Classical.byContradiction
          intro hnj
          have := m3 hpos (by omega)
          have := m1 hpos
          revert hj hfin; split <;> split <;> split <;> omega
      · simp only [if_neg hpos]; intro hfin helj hel0
        constructor
        · intro hj; have := helj hj; split <;> split <;> split at this <;> omega
        · intro hj
          apply Classical.byContradiction
          intro hnj
          have := m4 (by omega) (by omega)
          have := m2 (by omega)
          revert hj hfin; split <;> split <;> split <;> omega
  · intro j hj
    obtain ⟨e1, e2, -⟩ := hel j hj
    refine ⟨?_, e1, e2⟩
    unfold slice1dIndex
    rw [hnorm]
    simp only []
    rw [if_neg (by omega)]

example : getSliceShape1d 5 (.sub (some (-1)) none (some (-2))) = .ok (some 3) := by decide
example : slice1dIndex 5 (some (-1)) none (some (-2)) 2 = .ok 0 := by decide
example : getSliceShape1d 7 (.sub (some 1) (some (-1)) (some 2)) = .ok (some 3) := by decide
example : slice1dIndex 7 (some 1) (some (-1)) (some 2) 2 = .ok 5 := by decide

/-- a single index `i` (negative = from the end) is accepted iff it is inside the axis
    (and then means `i mod dim`, see `single_index`) -/
theorem single_spec (dim : Nat) (i : Int) :
    getSliceShape1d dim (.single i) = .ok none ↔ (-(dim : Int) ≤ i ∧ i < dim) := by
  simp only [getSliceShape1d]
  by_cases hi : i < 0
  · simp only [if_pos hi]
    split
    · constructor
      · intro h; cases h
      · intro h; omega
    · constructor
      · intro _; omega
      · intro _; rfl
  · simp only [if_neg hi]
    split
    · constructor
      · intro h; cases h
      · intro h; omega
    · constructor
      · intro _; omega
      · intro _; rfl

example : getSliceShape1d 5 (.single (-5)) = .ok none := by decide
example : getSliceShape1d 5 (.single 5) ≠ .ok none := by decide

/-- the index read for an accepted single index `i` is `i mod dim` (what `sliceIndexLoop` computes) -/
theorem single_index (dim : Nat) (i : Int) (h : -(dim : Int) ≤ i ∧ i < dim) :
    (if 0 ≤ i then i else i + dim) = i % (dim : Int) := by
  split
  · rw [Int.emod_eq_of_lt (by omega) (by omega)]
  · rw [← Int.add_emod_right, Int.emod_eq_of_lt (by omega) (by omega)]

/-! ### ellipsis expansion -/

theorem filter_noEllipsis (sl : List SE) (hne : ∀ x ∈ sl, x ≠ SE.ellipsis) :
    sl.filter (· == SE.ellipsis) = [] := by
  rw [List.filter_eq_nil_iff]
  intro x hx
  simpa using hne x hx

theorem any_noEllipsis (sl : List SE) (hne : ∀ x ∈ sl, x ≠ SE.ellipsis) :
    sl.any (· == SE.ellipsis) = false := by
  rw [List.any_eq_false]
  intro x hx
  simpa using hne x hx

theorem flatMap_noEllipsis (n : Nat) (sl : List SE) (hne : ∀ x ∈ sl, x ≠ SE.ellipsis) :
    (sl.flatMap fun x =>
        if x == SE.ellipsis then List.replicate n (SE.sub none none none) else [x]) = sl := by
  induction sl with
  | nil => rfl
  | cons a l ih =>
    have ha : a ≠ SE.ellipsis := hne a (by simp)
    have hl : ∀ x ∈ l, x ≠ SE.ellipsis := fun x hx => hne x (by simp [hx])
    rw [List.flatMap_cons, ih hl]
    simp [ha]

/-- an ellipsis-free slice is its own clean slice -/
theorem getCleanSlice_noEllipsis (rank : Nat) (sl : List SE) (hne : ∀ x ∈ sl, x ≠ SE.ellipsis)
    (hl : sl.length ≤ rank) :
    getCleanSlice rank sl = .ok sl := by
  unfold getCleanSlice
  simp only [filter_noEllipsis sl hne, any_noEllipsis sl hne, flatMap_noEllipsis _ sl hne]
  simp
  omega

/-- one ellipsis expands to `rank - len + 1` full axes -/
theorem getCleanSlice_ellipsis (rank : Nat) (pre post : List SE) (hpre : ∀ x ∈ pre, x ≠ SE.ellipsis)
    (hpost : ∀ x ∈ post, x ≠ SE.ellipsis) (hl : pre.length + post.length ≤ rank) :
    getCleanSlice rank (pre ++ [SE.ellipsis] ++ post)
      = .ok (pre ++ List.replicate (rank - pre.length - post.length) (SE.sub none none none) ++ post) := by
  unfold getCleanSlice
  have hpad : ((rank : Int) - ((pre ++ [SE.ellipsis] ++ post).length : Int) + 1).toNat
      = rank - pre.length - post.length := by
    simp only [List.length_append, List.length_cons, List.length_nil]; omega
  simp only [hpad, List.filter_append, filter_noEllipsis pre hpre, filter_noEllipsis post hpost,
    List.flatMap_append, flatMap_noEllipsis _ pre hpre, flatMap_noEllipsis _ post hpost]
  simp
  rw [if_neg (by omega), if_neg (by omega)]

example : getCleanSlice 4 [.single 1, .ellipsis, .sub none none (some (-1))]
    = .ok [.single 1, .sub none none none, .sub none none none, .sub none none (some (-1))] := by decide
example : getSliceShape [5, 4, 3] [.sub (some (-1)) none (some (-2)), .ellipsis, .single (-1)] = .ok [3, 4] := by
  decide

/-! ### all axes: the source index of a result index, NumPy style -/

/-- NumPy basic slicing, index side (clean slice, i.e. the ellipsis already expanded): a single
    index `i` reads position `i mod d` and consumes no result digit; a sub-array `b:e:s` maps the
    result digit `x` to `start + s·x` with Python's normalised start; axes beyond the slice are
    taken whole. -/
def specIndex : List Nat → List SE → List Nat → List Nat
  | [], _, _ => []
  | _ :: ds, [], J => J.headD 0 :: specIndex ds [] J.tail
  | d :: ds, .single i :: ses, J => (i % (d : Int)).toNat :: specIndex ds ses J
  | d :: ds, .sub b _ s :: ses, J =>
    (Spec.pyStart d b (s.getD 1) + s.getD 1 * (J.headD 0 : Nat)).toNat :: specIndex ds ses J.tail
  | _ :: ds, .ellipsis :: ses, J => 0 :: specIndex ds ses J

theorem getSliceShape1d_single_none (d : Nat) (i : Int) (r : Option Nat)
    (h : getSliceShape1d d (.single i) = .ok r) : r = none := by
  cases r with
  | none => rfl
  | some c =>
    exfalso
    simp only [getSliceShape1d] at h
    generalize (if i < 0 then i + (d : Int) else i) = ind at h
    split at h <;> cases h

theorem getSliceShape1d_sub_some (d : Nat) (b e s : Option Int) (r : Option Nat)
    (h : getSliceShape1d d (.sub b e s) = .ok r) : ∃ c, r = some c := by
  simp only [getSliceShape1d] at h
  split at h
  · cases h
  · split at h
    · cases h
    · cases h
    · cases h; exact ⟨_, rfl⟩

/-- the two loops of slices.rs against the NumPy reading: if the shape loop accepts a clean slice
    with result shape `rd`, then for every valid result index `J` the index loop returns the
    NumPy source index, which is a valid index of the sliced array, and consumes all of `J`. -/
theorem sliceLoops_spec (shape : List Nat) (clean : List SE) (rd J : List Nat) (j : Nat)
    (h : sliceShapeLoop shape clean = .ok rd) (hJ : validIdx J rd) :
    sliceIndexLoop shape clean J j = .ok (specIndex shape clean J, j + J.length) ∧
    validIdx (specIndex shape clean J) shape := by
  induction shape generalizing clean rd J j with
  | nil =>
    simp only [sliceShapeLoop] at h
    cases h
    cases J with
    | nil => simp [sliceIndexLoop, specIndex, validIdx]
    | cons x xs => simp [validIdx] at hJ
  | cons d ds ih =>
    cases clean with
    | nil =>
      simp only [sliceShapeLoop] at h
      cases hrest : sliceShapeLoop ds [] with
      | error m => rw [hrest] at h; cases h
      | ok rest =>
        rw [hrest] at h
        cases h
        cases J with
        | nil => simp [validIdx] at hJ
        | cons x xs =>
          obtain ⟨hx, hxs⟩ := hJ
          obtain ⟨i1, i2⟩ := ih [] rest xs (j + 1) hrest hxs
          simp only [sliceIndexLoop, i1, specIndex, List.headD_cons, List.tail_cons, validIdx,
            List.length_cons]
          exact ⟨by congr 2; omega, hx, i2⟩
    | cons se ses =>
      simp only [sliceShapeLoop] at h
      cases h1 : getSliceShape1d d se with
      | error m => rw [h1] at h; cases h
      | ok r =>
        cases hrest : sliceShapeLoop ds ses with
        | error m => rw [h1, hrest] at h; cases h
        | ok rest =>
          rw [h1, hrest] at h
          cases se with
          | ellipsis => simp [getSliceShape1d] at h1
          | single i =>
            have hr := getSliceShape1d_single_none d i r h1
            subst hr
            cases h
            obtain ⟨i1, i2⟩ := ih ses rest J j hrest hJ
            have hrange := (single_spec d i).mp h1
            have hmod := single_index d i hrange
            have hreal : ¬ (i % (d : Int) < 0) := by rw [← hmod]; split <;> omega
            have hlt : (i % (d : Int)).toNat < d := by rw [← hmod]; split <;> omega
            simp only [sliceIndexLoop, hmod, if_neg hreal, i1, specIndex, validIdx]
            exact ⟨trivial, hlt, i2⟩
          | sub b e s =>
            obtain ⟨c, hr⟩ := getSliceShape1d_sub_some d b e s r h1
            subst hr
            cases h
            cases J with
            | nil => simp [validIdx] at hJ
            | cons x xs =>
              obtain ⟨hx, hxs⟩ := hJ
              obtain ⟨i1, i2⟩ := ih ses rest xs (j + 1) hrest hxs
              obtain ⟨-, -, -, hidx⟩ := slice1d_spec d b e s c h1
              obtain ⟨e1, e2, e3⟩ := hidx x hx
              simp only [sliceIndexLoop, e1, i1, specIndex, List.headD_cons, List.tail_cons, validIdx,
                List.length_cons]
              exact ⟨by congr 2; omega, by omega, i2⟩

/-- `get_slice_shape` / `slice_index` against the NumPy reading, for ellipsis-free slices (an
    ellipsis is first expanded, see `getCleanSlice_ellipsis`): every valid result index reads the
    NumPy source index, which lies inside the sliced array. -/
theorem sliceIndex_spec (shape : List Nat) (sl : List SE) (rd J : List Nat)
    (hne : ∀ x ∈ sl, x ≠ SE.ellipsis)
    (h : getSliceShape shape sl = .ok rd) (hJ : validIdx J rd) :
    sliceIndex shape sl J = .ok (specIndex shape sl J) ∧ validIdx (specIndex shape sl J) shape := by
  unfold getSliceShape at h
  unfold sliceIndex
  cases hc : getCleanSlice shape.length sl with
  | error m => rw [hc] at h; cases h
  | ok clean =>
    have hlen : sl.length ≤ shape.length := by
      apply Classical.byContradiction
      intro hgt
      unfold getCleanSlice at hc
      simp only [filter_noEllipsis sl hne, any_noEllipsis sl hne, flatMap_noEllipsis _ sl hne] at hc
      simp at hc
      rw [if_pos (by omega)] at hc
      cases hc
    rw [getCleanSlice_noEllipsis _ sl hne hlen] at hc
    cases hc
    rw [getCleanSlice_noEllipsis _ sl hne hlen] at h
    simp only at h
    obtain ⟨i1, i2⟩ := sliceLoops_spec shape sl rd J 0 h hJ
    refine ⟨?_, i2⟩
    simp only [i1, Nat.zero_add]
    split
    · rfl
    · simp

example : specIndex [5, 4, 3] [.sub (some (-1)) none (some (-2)), .sub none none none, .single (-1)] [2, 3]
    = [0, 3, 2] := by decide
example : sliceIndex [5, 4, 3] [.sub (some (-1)) none (some (-2)), .sub none none none, .single (-1)] [2, 3]
    = .ok [0, 3, 2] := by decide

/-! ### GetSlice -/

/-- a successful `mapM` in `Except` computes every entry with the mapped function -/
theorem mapM_ok_getD {α : Type} (f : α → Except String Nat) (l : List α) (r : List Nat)
    (h : l.mapM f = .ok r) :
    r.length = l.length ∧ ∀ i (hi : i < l.length), f l[i] = .ok (r.getD i 0) := by
  induction l generalizing r with
  | nil =>
    simp only [List.mapM_nil] at h
    cases h
    exact ⟨rfl, fun i hi => absurd hi (Nat.not_lt_zero _)⟩
  | cons a l ih =>
    rw [List.mapM_cons] at h
    cases hfa : f a with
    | error m => rw [hfa] at h; cases h
    | ok y =>
      cases hl : l.mapM f with
      | error m => rw [hfa, hl] at h; cases h
      | ok ys =>
        rw [hfa, hl] at h
        cases h
        obtain ⟨ih1, ih2⟩ := ih ys hl
        refine ⟨by simp [ih1], ?_⟩
        intro i hi
        cases i with
        | zero => simpa using hfa
        | succ i =>
          have := ih2 i (by simpa using hi)
          simpa using this

/-- GetSlice entrywise: if the evaluator's loop succeeds, entry `i` of the result is the source
    element at the index computed by `sliceIndex` -/
theorem getSlice_entry (shape xs : List Nat) (sl : List SE) (rd : List Nat) (r : List Nat)
    (h : Ops.getSlice shape xs sl rd = .ok r) (i : Nat) (hi : i < prod rd) :
    ∃ di, sliceIndex shape sl (numberToIndex i rd) = .ok di ∧ r.getD i 0 = xs.getD (indexToNumber di shape) 0 := by
  unfold Ops.getSlice at h
  obtain ⟨-, h2⟩ := mapM_ok_getD _ _ _ h
  have := h2 i (by simpa using hi)
  simp only [List.getElem_range] at this
  cases hsi : sliceIndex shape sl (numberToIndex i rd) with
  | error m => rw [hsi] at this; cases this
  | ok di =>
    rw [hsi] at this
    exact ⟨di, rfl, (Except.ok.inj this).symm⟩

/-- GetSlice = NumPy basic slicing, entrywise (ellipsis-free slice accepted with result shape
    `rd`): the result read at the row-major position of a valid result index `I` is the source
    array at the NumPy source index. -/
theorem getSlice_spec (shape xs : List Nat) (sl : List SE) (rd r : List Nat)
    (hne : ∀ x ∈ sl, x ≠ SE.ellipsis) (hs : getSliceShape shape sl = .ok rd)
    (h : Ops.getSlice shape xs sl rd = .ok r) (I : List Nat) (hI : validIdx I rd) :
    validIdx (specIndex shape sl I) shape ∧
    r.getD (flat I rd) 0 = Spec.ofFlat shape xs (specIndex shape sl I) := by
  obtain ⟨di, h1, h2⟩ := getSlice_entry shape xs sl rd r h (flat I rd) (flat_lt hI)
  rw [numberToIndex_flat hI] at h1
  obtain ⟨s1, s2⟩ := sliceIndex_spec shape sl rd I hne hs hI
  rw [s1] at h1
  cases h1
  refine ⟨s2, ?_⟩
  rw [h2, indexToNumber_eq_flat s2]
  rfl

example : Ops.getSlice [2, 5] [0, 1, 2, 3, 4, 5, 6, 7, 8, 9] [.ellipsis, .sub (some (-1)) none (some (-2))] [2, 3]
    = .ok [4, 2, 0, 9, 7, 5] := by decide
example : sliceIndex [2, 5] [.ellipsis, .sub (some (-1)) none (some (-2))] (numberToIndex 4 [2, 3]) = .ok [1, 2] := by
  decide

end CCV.Slices
