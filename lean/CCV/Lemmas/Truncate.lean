import CCV.Lemmas.TruncateArith
import Mathlib.Data.ZMod.Basic
import Mathlib.Tactic.Ring
import Mathlib.Tactic.LinearCombination
/-
  Helper lemmas for C05, part 2: cancellation of the masks modulo `2^s` (in `ZMod (2^s)`).
-/
namespace CCV.Truncate

/-- the (shifted) secret `TruncateMPC2K` works on: `x0' + x1 + x2 mod 2^s`, where step 0 added
    `2^(s-2)` to the first share of a signed input -/
def shifted (s : Nat) (signed : Bool) (x0 x1 x2 : Nat) : Nat :=
  ((if signed = true then addm (2 ^ s) x0 (2 ^ (s - 2)) else x0) + x1 + x2) % 2 ^ s

theorem zmod_subm (M a b : Nat) (hM : 0 < M) : ((subm M a b : Nat) : ZMod M) = (a : ZMod M) - b := by
  have h : b % M ≤ M := (Nat.mod_lt _ hM).le
  unfold subm
  push_cast [ZMod.natCast_mod, Nat.cast_sub h, ZMod.natCast_self]
  ring

theorem zmod_addm (M a b : Nat) : ((addm M a b : Nat) : ZMod M) = (a : ZMod M) + b := by
  unfold addm; push_cast [ZMod.natCast_mod]; ring

theorem zmod_mulm (M a b : Nat) : ((mulm M a b : Nat) : ZMod M) = (a : ZMod M) * b := by
  unfold mulm; push_cast [ZMod.natCast_mod]; ring

/-- the value `c` revealed in step 8 is `x' + r mod 2^s`: the masks `r0` cancel -/
theorem c_eq (s : Nat) (signed : Bool) (x0 x1 x2 r r0 : Nat) :
    addm (2 ^ s) (addm (2 ^ s) (addm (2 ^ s) (if signed = true then addm (2 ^ s) x0 (2 ^ (s - 2)) else x0) x1) r0)
      (addm (2 ^ s) x2 (subm (2 ^ s) r r0)) = (shifted s signed x0 x1 x2 + r) % 2 ^ s := by
  have hM : 0 < 2 ^ s := Nat.two_pow_pos s
  have l : addm (2 ^ s) (addm (2 ^ s) (addm (2 ^ s) (if signed = true then addm (2 ^ s) x0 (2 ^ (s - 2)) else x0) x1) r0)
      (addm (2 ^ s) x2 (subm (2 ^ s) r r0)) % 2 ^ s = ((shifted s signed x0 x1 x2 + r) % 2 ^ s) % 2 ^ s := by
    rw [← ZMod.natCast_eq_natCast_iff']
    unfold shifted
    simp only [zmod_addm, zmod_subm _ _ _ hM, ZMod.natCast_mod, Nat.cast_add]
    ring
  rw [Nat.mod_mod] at l
  rw [← l]
  show _ = ((_ + _) % 2 ^ s) % 2 ^ s
  rw [Nat.mod_mod]; rfl

/-- Normal form of the revealed output of `trunc2k`: all of `r0, rmsb0, rtr0, y0, y2` cancel. -/
theorem reveal_trunc2k_zmod (s k : Nat) (hk : k ≠ 0) (signed : Bool) (x0 x1 x2 : Nat) (m : Masks2K) :
    ((reveal s (trunc2k s k signed x0 x1 x2 m).shares : Nat) : ZMod (2 ^ s)) =
      (((truncPlain s false (2 ^ (s - 1)) (m.r &&& 2 ^ (s - 1)) : Nat) : ZMod (2 ^ s))
          + ((truncPlain s false (2 ^ (s - 1)) ((shifted s signed x0 x1 x2 + m.r) % 2 ^ s) : Nat) : ZMod (2 ^ s))
          - 2 * ((truncPlain s false (2 ^ (s - 1)) (m.r &&& 2 ^ (s - 1)) : Nat) : ZMod (2 ^ s))
              * ((truncPlain s false (2 ^ (s - 1)) ((shifted s signed x0 x1 x2 + m.r) % 2 ^ s) : Nat) : ZMod (2 ^ s)))
        * ((2 ^ (s - 1 - k) : Nat) : ZMod (2 ^ s))
      - ((truncPlain s signed (2 ^ k) (m.r &&& (2 ^ (s - 1) - 2 ^ k)) : Nat) : ZMod (2 ^ s))
      + ((truncPlain s false (2 ^ k) ((shifted s signed x0 x1 x2 + m.r) % 2 ^ s) &&& (2 ^ (s - 1 - k) - 1) : Nat) : ZMod (2 ^ s))
      - (if signed = true then ((2 ^ (s - 2 - k) : Nat) : ZMod (2 ^ s)) else 0) := by
  have hM : 0 < 2 ^ s := Nat.two_pow_pos s
  have hc := c_eq s signed x0 x1 x2 m.r m.r0
  simp only [trunc2k, if_neg hk, Out2K.shares, reveal]
  rw [hc]
  generalize (shifted s signed x0 x1 x2 + m.r) % 2 ^ s = c
  generalize truncPlain s false (2 ^ (s - 1)) (m.r &&& 2 ^ (s - 1)) = rmsb
  generalize truncPlain s false (2 ^ (s - 1)) c = cmsb
  generalize truncPlain s signed (2 ^ k) (m.r &&& (2 ^ (s - 1) - 2 ^ k)) = rtr
  generalize truncPlain s false (2 ^ k) c &&& (2 ^ (s - 1 - k) - 1) = ctm
  cases signed <;>
    simp only [zmod_addm, zmod_subm _ _ _ hM, zmod_mulm, ZMod.natCast_mod, Nat.cast_add, if_true,
      Bool.false_eq_true, if_false, Nat.cast_ofNat] <;>
    ring

/-- from a congruence in `ZMod (2^s)` to the canonical residue -/
theorem eq_ofInt_of_zmod (s R : Nat) (z : Int)
    (h : ((R % 2 ^ s : Nat) : ZMod (2 ^ s)) = ((z : Int) : ZMod (2 ^ s))) : R % 2 ^ s = ofInt s z := by
  have h' : (((R % 2 ^ s : Nat) : Int) : ZMod (2 ^ s)) = ((z : Int) : ZMod (2 ^ s)) := by
    rw [Int.cast_natCast]; exact h
  have h2 := (ZMod.intCast_eq_intCast_iff' _ _ _).mp h'
  unfold ofInt
  rw [← h2, ← Int.natCast_mod, Nat.mod_mod, Int.toNat_natCast]

/-- Steps 1–15 in terms of the shifted input `X = shifted …` (`X < 2^(s-1)`): the revealed value is
    `X / 2^k + w − [signed] 2^(s-2-k)` modulo `2^s`, with `w = 1` exactly when the low `k` bits of
    `X` and of the mask `r` produce a carry. -/
theorem reveal_trunc2k_shifted (s k : Nat) (hk1 : 1 ≤ k) (hks : k + 1 ≤ s) (signed : Bool)
    (x0 x1 x2 : Nat) (m : Masks2K) (hr : m.r < 2 ^ s)
    (hX : shifted s signed x0 x1 x2 < 2 ^ (s - 1)) :
    ((reveal s (trunc2k s k signed x0 x1 x2 m).shares : Nat) : ZMod (2 ^ s)) =
      ((shifted s signed x0 x1 x2 / 2 ^ k
         + (if 2 ^ k ≤ shifted s signed x0 x1 x2 % 2 ^ k + m.r % 2 ^ k then 1 else 0) : Nat) : ZMod (2 ^ s))
      - (if signed = true then ((2 ^ (s - 2 - k) : Nat) : ZMod (2 ^ s)) else 0) := by
  rw [reveal_trunc2k_zmod s k (by omega)]
  generalize shifted s signed x0 x1 x2 = X at *
  have hH : 2 ^ k * 2 ^ (s - 1 - k) = 2 ^ (s - 1) := by rw [← Nat.pow_add]; congr 1; omega
  have hM : 2 * 2 ^ (s - 1) = 2 ^ s := (two_pow_pred s (by omega)).symm
  have hKpos : 0 < 2 ^ k := Nat.two_pow_pos k
  have hHpos : 0 < 2 ^ (s - 1) := Nat.two_pow_pos _
  have hclt : (X + m.r) % 2 ^ s < 2 ^ s := Nat.mod_lt _ (Nat.two_pow_pos s)
  -- the pieces, as plain arithmetic
  have e1 : truncPlain s false (2 ^ (s - 1)) (m.r &&& 2 ^ (s - 1)) = m.r / 2 ^ (s - 1) := by
    rw [truncPlain_unsigned, and_bit_div]
    apply Nat.mod_eq_of_lt
    apply Nat.div_lt_of_lt_mul; omega
  have e2 : truncPlain s signed (2 ^ k) (m.r &&& (2 ^ (s - 1) - 2 ^ k)) = m.r % 2 ^ (s - 1) / 2 ^ k := by
    rw [and_range_mask m.r k (s - 1) (by omega), truncPlain_small, Nat.mul_div_cancel _ hKpos]
    have h1 := Nat.div_mul_le_self (m.r % 2 ^ (s - 1)) (2 ^ k)
    have h2 := Nat.mod_lt m.r hHpos
    omega
  have e3 : truncPlain s false (2 ^ k) ((X + m.r) % 2 ^ s) &&& (2 ^ (s - 1 - k) - 1)
      = (X + m.r) % 2 ^ s / 2 ^ k % 2 ^ (s - 1 - k) := by
    rw [truncPlain_unsigned, Nat.and_two_pow_sub_one_eq_mod]
  have e4 : truncPlain s false (2 ^ (s - 1)) ((X + m.r) % 2 ^ s) = (X + m.r) % 2 ^ s / 2 ^ (s - 1) :=
    truncPlain_unsigned _ _ _
  rw [e1, e2, e3, e4]
  -- the arithmetic heart
  have N := core_arith (2 ^ k) (2 ^ (s - 1 - k)) X m.r hKpos (by rw [hH]; exact hX) (by rw [hH, hM]; exact hr)
  rw [hH, hM] at N
  rw [add_div_carry X (m.r % 2 ^ (s - 1)) (2 ^ k) hKpos] at N
  have hmm : m.r % 2 ^ (s - 1) % 2 ^ k = m.r % 2 ^ k :=
    Nat.mod_mod_of_dvd _ (Nat.pow_dvd_pow 2 (by omega))
  rw [hmm] at N
  -- both MSBs are bits
  have hrm : m.r / 2 ^ (s - 1) < 2 := by apply Nat.div_lt_of_lt_mul; omega
  have hcm : (X + m.r) % 2 ^ s / 2 ^ (s - 1) < 2 := by apply Nat.div_lt_of_lt_mul; omega
  generalize m.r / 2 ^ (s - 1) = rm at *
  generalize (X + m.r) % 2 ^ s / 2 ^ (s - 1) = cm at *
  generalize (X + m.r) % 2 ^ s / 2 ^ k % 2 ^ (s - 1 - k) = ctm at *
  generalize m.r % 2 ^ (s - 1) / 2 ^ k = rtr at *
  generalize (if 2 ^ k ≤ X % 2 ^ k + m.r % 2 ^ k then 1 else 0) = w at *
  have hb : ((rm + cm - 2 * rm * cm : Nat) : ZMod (2 ^ s)) = (rm : ZMod (2 ^ s)) + cm - 2 * rm * cm := by
    have h1 : rm = 0 ∨ rm = 1 := by omega
    have h2 : cm = 0 ∨ cm = 1 := by omega
    rcases h1 with h1 | h1 <;> rcases h2 with h2 | h2 <;> subst h1 <;> subst h2 <;> norm_num
  have N' := congrArg (Nat.cast : Nat → ZMod (2 ^ s)) N
  push_cast only [Nat.cast_add, Nat.cast_mul] at N'
  rw [hb] at N'
  push_cast at N'
  push_cast
  linear_combination N'

end CCV.Truncate
