import CCV.Model.InlineBatch
/-
  Shared vocabulary for the lemmas about the batched small-state inliner model (C07).
-/
namespace CCV.InlineBatch
open CCV CCV.Shape CCV.Inline

/-- `a` is a BIT array of shape `shape`: right length, every entry 0 or 1
    (`getD` reads 0 outside the list, so the second clause is about the entries) -/
def WF (shape a : List Nat) : Prop := a.length = prod shape ∧ ∀ p, a.getD p 0 < 2

/-- the `K`-bit state in row `β` of a state array of shape `B ++ [K]`, as a mask (bit `k` of the
    mask = entry `[β, k]`, as `mask_to_value`) -/
def rowNat (B : List Nat) (K : Nat) (S β : List Nat) : Nat :=
  natOfBits K (fun k => S.getD (flat (β ++ [k]) (B ++ [K])) 0 == 1)

end CCV.InlineBatch
