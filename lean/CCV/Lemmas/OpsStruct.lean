import CCV.Model.Ops
import CCV.Model.Spec
import CCV.Lemmas.Shape
import Mathlib.Tactic.Ring
import Mathlib.Tactic.Linarith

/-!
  Structural operations of the evaluator model (`get`, `stack`, `gather`, `arrayToVector`,
  `vectorToArray`, `concatenate`) agree entrywise with the index-function specification.
-/
namespace CCV.Ops
open CCV CCV.Shape

/-! ### generic list facts -/

/-- reading a sub-slice `&l[a .. a+n]` -/
theorem slice_getD (l : List Nat) (a n i : Nat) (h : i < n) :
    (slice l a n).getD i 0 = l.getD (a + i) 0 := by
  simp [slice, List.getD_eq_getElem?_getD, h, List.getElem?_drop]

theorem slice_length (l : List Nat) (a n : Nat) (h : a + n ≤ l.length) :
    (slice l a n).length = n := by
  simp only [slice, List.length_take, List.length_drop]; omega

/-- flatMap with variable block lengths: position = (sum of earlier block lengths) + i -/
theorem flatMap_getElem?_var {α β : Type} (l : List α) (f : α → List β) (t i : Nat)
    (ht : t < l.length) (hi : i < (f l[t]).length) :
    (l.flatMap f)[((l.take t).map fun a => (f a).length).sum + i]? = (f l[t])[i]? := by
  induction l generalizing t with
  | nil => simp at ht
  | cons a l ih =>
    cases t with
    | zero =>
      simp only [List.getElem_cons_zero] at hi
      simp [List.flatMap_cons, List.getElem?_append_left hi]
    | succ t =>
      simp only [List.length_cons, Nat.add_lt_add_iff_right] at ht
      simp only [List.getElem_cons_succ] at hi
      simp only [List.flatMap_cons, List.take_succ_cons, List.map_cons, List.sum_cons,
        List.getElem_cons_succ]
      rw [List.getElem?_append_right (by omega)]
      rw [← ih t ht hi]
      congr 1; omega

/-- flatMap of blocks of constant length `n` (generic) -/
theorem flatMap_getElem?_const {α β : Type} (l : List α) (f : α → List β) (n : Nat)
    (hf : ∀ a ∈ l, (f a).length = n) (t i : Nat) (ht : t < l.length) (hi : i < n) :
    (l.flatMap f)[t * n + i]? = (f l[t])[i]? := by
  have hs : ∀ (l : List α), (∀ a ∈ l, (f a).length = n) → ∀ t, t ≤ l.length →
      ((l.take t).map fun a => (f a).length).sum = t * n := by
    intro l
    induction l with
    | nil => intro _ t ht; simp at ht; subst ht; simp
    | cons a l ih =>
      intro hf t ht
      cases t with
      | zero => simp
      | succ t =>
        simp only [List.length_cons, Nat.add_le_add_iff_right] at ht
        simp only [List.take_succ_cons, List.map_cons, List.sum_cons]
        rw [ih (fun b hb => hf b (List.mem_cons_of_mem _ hb)) t ht, hf a List.mem_cons_self]
        rw [Nat.add_mul]; omega
  have hl : (f l[t]).length = n := hf _ (List.getElem_mem ht)
  rw [← hs l hf t (Nat.le_of_lt ht)]
  exact flatMap_getElem?_var l f t i ht (by omega)

/-- flatMap of blocks of constant length `n`: block `t`, offset `i` -/
theorem flatMap_getD_const {α : Type} (l : List α) (f : α → List Nat) (n : Nat)
    (hf : ∀ a ∈ l, (f a).length = n)
    (t i : Nat) (ht : t < l.length) (hi : i < n) (d : α) :
    (l.flatMap f).getD (t * n + i) 0 = (f (l.getD t d)).getD i 0 := by
  simp only [List.getD_eq_getElem?_getD]
  rw [flatMap_getElem?_const l f n hf t i ht hi]
  simp [ht]

/-! ### Get -/

/-- Get: `R[J] = A[sub ++ J]` -/
theorem get_spec (shape xs sub J : List Nat) (_hk : sub.length ≤ shape.length)
    (hs : validIdx sub (shape.take sub.length)) (hJ : validIdx J (shape.drop sub.length)) :
    (get shape xs sub).getD (flat J (shape.drop sub.length)) 0
      = Spec.get (Spec.ofFlat shape xs) sub J := by
  have hsh : flat (sub ++ J) shape
      = flat (sub ++ J) (shape.take sub.length ++ shape.drop sub.length) := by
    rw [List.take_append_drop]
  simp only [get, Spec.get, Spec.ofFlat]
  rw [slice_getD _ _ _ _ (flat_lt hJ), indexToNumber_eq_flat hs, hsh,
    flat_append (validIdx_length hs)]

example : get [2, 3] [10, 11, 12, 20, 21, 22] [1] = [20, 21, 22] := by decide

/-! ### Stack -/

theorem getD_mem {α : Type} (l : List α) (t : Nat) (ht : t < l.length) (d : α) : l.getD t d ∈ l := by
  simp only [List.getD_eq_getElem?_getD, List.getElem?_eq_getElem ht, Option.getD_some]
  exact List.getElem_mem ht

/-- Stack of arrays/scalars (dims `[1]` for scalars): `R[O ++ J] = input_{pos O}[broadcast J]` -/
theorem stack_spec (outer inner : List Nat) (inputs : List (List Nat × List Nat)) (O J : List Nat)
    (hin : inner ≠ []) (hO : validIdx O outer) (hJ : validIdx J inner)
    (hlen : inputs.length = prod outer) (hb : ∀ p ∈ inputs, bcOK p.1 inner) :
    (stack outer inputs (outer ++ inner)).getD (flat (O ++ J) (outer ++ inner)) 0
      = Spec.ofFlat (inputs.getD (flat O outer) ([], [])).1 (inputs.getD (flat O outer) ([], [])).2
          (bcIdx (inputs.getD (flat O outer) ([], [])).1 J) := by
  have hne : outer ++ inner ≠ outer := by
    intro h
    have := congrArg List.length h
    simp only [List.length_append] at this
    have : inner.length = 0 := by omega
    exact hin (List.length_eq_zero_iff.mp this)
  have ht : flat O outer < inputs.length := hlen ▸ flat_lt hO
  simp only [stack, hne, if_false, List.drop_left, Spec.ofFlat]
  rw [flat_append (validIdx_length hO)]
  rw [flatMap_getD_const inputs (fun p => broadcastToShape p.2 p.1 inner) (prod inner)
    (fun p _ => broadcastToShape_length _ _ _) _ _ ht (flat_lt hJ) ([], [])]
  exact broadcastToShape_getD _ (hb _ (getD_mem _ _ ht _)) hJ

example : stack [2] [([1], [7]), ([2], [8, 9])] [2, 2] = [7, 7, 8, 9] := by decide

/-- Stack of scalars only (result shape = outer shape) -/
theorem stack_scalars_spec (outer : List Nat) (inputs : List (List Nat × List Nat)) (O : List Nat)
    (hO : validIdx O outer) (hlen : inputs.length = prod outer) (hb : ∀ p ∈ inputs, p.1 = [1]) :
    (stack outer inputs outer).getD (flat O outer) 0
      = (inputs.getD (flat O outer) ([], [])).2.getD 0 0 := by
  have ht : flat O outer < inputs.length := hlen ▸ flat_lt hO
  simp only [stack, if_true]
  have h := flatMap_getD_const inputs (fun p => broadcastToShape p.2 p.1 [1]) (prod [1])
    (fun p _ => broadcastToShape_length _ _ _) (flat O outer) 0 ht (by decide) ([], [])
  simp only [prod, Nat.mul_one, Nat.add_zero] at h
  rw [h, hb _ (getD_mem _ _ ht _)]
  have hv : validIdx [0] [1] := by simp [validIdx]
  have hbc : bcOK [1] [1] := by simp [bcOK, bcAligned]
  have := broadcastToShape_getD (inputs.getD (flat O outer) ([], [])).2 hbc hv
  simpa [flat, prod, bcIdx] using this

example : stack [2, 2] [([1], [5]), ([1], [6]), ([1], [7]), ([1], [8])] [2, 2] = [5, 6, 7, 8] := by
  decide

/-! ### Gather -/

theorem mapM_id_ok {ε α : Type} (l : List α) :
    (l.map (Except.ok (ε := ε))).mapM id = Except.ok l := by
  induction l with
  | nil => rfl
  | cons a l ih =>
    simp only [List.map_cons, List.mapM_cons, ih, id]
    rfl

theorem mapM_id_error {ε α : Type} (l : List (Except ε α)) (e : ε) (h : Except.error e ∈ l) :
    ∃ e', l.mapM id = Except.error e' := by
  induction l with
  | nil => simp at h
  | cons a l ih =>
    rw [List.mapM_cons]
    cases a with
    | error e1 => exact ⟨e1, rfl⟩
    | ok v =>
      have hm : Except.error e ∈ l := by
        rcases List.mem_cons.mp h with h | h
        · cases h
        · exact h
      obtain ⟨e', he'⟩ := ih hm
      exact ⟨e', by rw [he']; rfl⟩

theorem split_axis (l : List Nat) (axis : Nat) (h : axis < l.length) :
    l = l.take axis ++ [l.getD axis 0] ++ l.drop (axis + 1) := by
  simp [List.getD_eq_getElem?_getD, h]

theorem flatMap_map_getElem? {α β : Type} (N : Nat) (l : List α) (g : Nat → α → β) (t q : Nat)
    (ht : t < N) (hq : q < l.length) :
    ((List.range N).flatMap fun ai => l.map (g ai))[t * l.length + q]? = some (g t l[q]) := by
  rw [flatMap_getElem?_const (List.range N) (fun ai => l.map (g ai)) l.length
    (fun a _ => by simp) t q (by simpa using ht) hq]
  simp [hq]

theorem block_bound (t N ie d rs : Nat) (ht : t < N) (hie : ie < d) :
    (t * d + ie) * rs + rs ≤ N * d * rs := by
  have h1 : (t + 1) * d ≤ N * d := Nat.mul_le_mul_right d ht
  rw [Nat.add_mul, Nat.one_mul] at h1
  have h2 : (t * d + ie + 1) * rs ≤ N * d * rs := Nat.mul_le_mul_right rs (by omega)
  rw [Nat.add_mul, Nat.one_mul] at h2
  exact h2

/-- The statement of `gather_spec` as originally given.  It is FALSE without a hypothesis relating
    `xs.length` to `prod shape` (see the counterexample below: a too short `xs` makes the copied
    rows shorter than `rowSize`, so later rows move to the left). -/
def gather_specStatement : Prop :=
  ∀ (shape xs indices ishape : List Nat) (axis : Nat) (_haxis : axis < shape.length)
    (_hidx : ∀ x ∈ indices, x < shape.getD axis 0) (_hil : indices.length = prod ishape)
    (P Q R : List Nat) (_hP : validIdx P (shape.take axis)) (_hQ : validIdx Q ishape)
    (_hR : validIdx R (shape.drop (axis + 1))),
    ∃ r, gather shape xs indices axis = .ok r ∧
      r.getD (flat (P ++ Q ++ R) (shape.take axis ++ ishape ++ shape.drop (axis + 1))) 0
        = Spec.ofFlat shape xs (P ++ [indices.getD (flat Q ishape) 0] ++ R)

/-- counterexample to `gather_specStatement`: shape `[2,2]`, `xs = [1,2,3]` (one entry short),
    `indices = [1,0]`, axis 0: the result is `[3,1,2]`, and `R[1,0] = 2 ≠ A[0,0] = 1`. -/
example : gather [2, 2] [1, 2, 3] [1, 0] 0 = .ok [3, 1, 2] ∧
    ([3, 1, 2] : List Nat).getD (flat ([] ++ [1] ++ [0]) ([] ++ [2] ++ [2])) 0 = 2 ∧
    Spec.ofFlat [2, 2] [1, 2, 3] ([] ++ [([1, 0] : List Nat).getD (flat [1] [2]) 0] ++ [0]) = 1 :=
  ⟨rfl, by decide, by decide⟩

/-- Gather (numpy.take along `axis`): `R[P ++ Q ++ R'] = A[P ++ [indices[Q]] ++ R']`.
    Proved with the additional hypothesis `hxs : prod shape ≤ xs.length` (the value really holds
    the whole array); everything else as in `gather_specStatement`. -/
theorem gather_spec_partial (shape xs indices ishape : List Nat) (axis : Nat)
    (haxis : axis < shape.length) (hxs : prod shape ≤ xs.length)
    (hidx : ∀ x ∈ indices, x < shape.getD axis 0) (hil : indices.length = prod ishape)
    (P Q R : List Nat) (hP : validIdx P (shape.take axis)) (hQ : validIdx Q ishape)
    (hR : validIdx R (shape.drop (axis + 1))) :
    ∃ r, gather shape xs indices axis = .ok r ∧
      r.getD (flat (P ++ Q ++ R) (shape.take axis ++ ishape ++ shape.drop (axis + 1))) 0
        = Spec.ofFlat shape xs (P ++ [indices.getD (flat Q ishape) 0] ++ R) := by
  -- abbreviations
  generalize hN : prod (shape.take axis) = N at *
  generalize hrs : prod (shape.drop (axis + 1)) = rs at *
  generalize hd : shape.getD axis 0 = d at *
  have hshape := split_axis shape axis haxis
  rw [hd] at hshape
  have hprod : prod shape = N * d * rs := by
    rw [hshape, prod_append, prod_append, hN, hrs]; simp [prod]
  -- all entries of the list of rows are `ok`
  let g : Nat → Nat → List Nat := fun ai ie => slice xs ((ai * d + ie) * rs) rs
  have hL : ((List.range N).flatMap fun ai => indices.map fun ie =>
      if d ≤ ie then (Except.error "Incorrect index" : Except String (List Nat))
      else Except.ok (slice xs ((ai * d + ie) * rs) rs))
      = ((List.range N).flatMap fun ai => indices.map (g ai)).map Except.ok := by
    rw [List.map_flatMap]
    congr 1; funext ai
    rw [List.map_map]
    apply List.map_congr_left
    intro ie hie
    simp [g, Nat.not_le.mpr (hidx ie hie)]
  refine ⟨((List.range N).flatMap fun ai => indices.map (g ai)).flatMap id, ?_, ?_⟩
  · simp only [gather, hN, hrs, hd]
    rw [hL, mapM_id_ok]; rfl
  · have ht : flat P (shape.take axis) < N := hN ▸ flat_lt hP
    have hq : flat Q ishape < indices.length := hil ▸ flat_lt hQ
    have hr : flat R (shape.drop (axis + 1)) < rs := hrs ▸ flat_lt hR
    have hie : indices[flat Q ishape] < d := hidx _ (List.getElem_mem hq)
    -- position on the left
    rw [flat_append (by simp [validIdx_length hP, validIdx_length hQ]),
      flat_append (validIdx_length hP), hrs, ← hil]
    -- row
    have hrow := flatMap_map_getElem? N indices g _ _ ht hq
    obtain ⟨hlt, hget⟩ := List.getElem?_eq_some_iff.mp hrow
    have hlen : ∀ v ∈ ((List.range N).flatMap fun ai => indices.map (g ai)), v.length = rs := by
      intro v hv
      simp only [List.mem_flatMap, List.mem_range, List.mem_map] at hv
      obtain ⟨ai, hai, ie, hie, rfl⟩ := hv
      apply slice_length
      have := block_bound ai N ie d rs hai (hidx ie hie)
      omega
    simp only [List.getD_eq_getElem?_getD]
    rw [flatMap_getElem?_const _ id rs hlen _ _ hlt hr, hget]
    simp only [id, g, ← List.getD_eq_getElem?_getD, Spec.ofFlat]
    rw [slice_getD _ _ _ _ hr]
    -- position on the right
    conv => rhs; rw [hshape]
    rw [flat_append (by simp [validIdx_length hP]), flat_append (validIdx_length hP)]
    simp [flat, prod, List.getD_eq_getElem?_getD, hq, hrs]

example : gather [3, 2] [10, 11, 20, 21, 30, 31] [2, 0, 2] 0 = .ok [30, 31, 10, 11, 30, 31] := rfl

/-- an out-of-range index is a run-time error -/
theorem gather_err (shape xs indices : List Nat) (axis : Nat) (hpos : 0 < prod (shape.take axis))
    (hbad : ∃ x ∈ indices, shape.getD axis 0 ≤ x) :
    ∃ e, gather shape xs indices axis = .error e := by
  obtain ⟨x, hx, hle⟩ := hbad
  have hmem : (Except.error "Incorrect index" : Except String (List Nat)) ∈
      ((List.range (prod (shape.take axis))).flatMap fun ai => indices.map fun ie =>
        if shape.getD axis 0 ≤ ie then (Except.error "Incorrect index" : Except String (List Nat))
        else Except.ok (slice xs ((ai * shape.getD axis 0 + ie) * prod (shape.drop (axis + 1)))
          (prod (shape.drop (axis + 1))))) := by
    simp only [List.mem_flatMap, List.mem_range, List.mem_map]
    exact ⟨0, hpos, x, hx, if_pos hle⟩
  obtain ⟨e', he'⟩ := mapM_id_error _ _ hmem
  refine ⟨e', ?_⟩
  simp only [gather]
  rw [he']; rfl

example : gather [3, 2] [10, 11, 20, 21, 30, 31] [2, 3] 0 = .error "Incorrect index" := rfl

/-! ### ArrayToVector / VectorToArray -/

/-- ArrayToVector: row `t` of the vector is `A[t, …]` -/
theorem arrayToVector_spec (d : Nat) (rest xs : List Nat) (hlen : xs.length = d * prod rest)
    (hp : 0 < prod rest) (t : Nat) (ht : t < d) (J : List Nat) (hJ : validIdx J rest) :
    ((arrayToVector (d :: rest) xs).getD t []).getD (flat J rest) 0
      = Spec.ofFlat (d :: rest) xs (t :: J) := by
  have hdiv : xs.length / prod rest = d := by rw [hlen, Nat.mul_div_cancel _ hp]
  simp only [arrayToVector, chunks, List.drop_one, List.tail_cons, hdiv, Spec.ofFlat, flat]
  have hrow : ((List.range d).map fun i => slice xs (i * prod rest) (prod rest)).getD t []
      = slice xs (t * prod rest) (prod rest) := by
    rw [List.getD_eq_getElem?_getD, List.getElem?_map, List.getElem?_range ht]
    rfl
  rw [hrow]
  exact slice_getD _ _ _ _ (flat_lt hJ)

example : arrayToVector [2, 3] [1, 2, 3, 4, 5, 6] = [[1, 2, 3], [4, 5, 6]] := by decide

theorem flatMap_slices (k d : Nat) (xs : List Nat) (hlen : xs.length = d * k) :
    ((List.range d).flatMap fun i => slice xs (i * k) k) = xs := by
  induction d generalizing xs with
  | zero =>
    simp only [Nat.zero_mul, List.length_eq_zero_iff] at hlen
    simp [hlen]
  | succ d ih =>
    rw [List.range_succ_eq_map, List.flatMap_cons, List.flatMap_map]
    have h1 : slice xs (0 * k) k = xs.take k := by simp [slice]
    have h2 : ∀ i, slice xs ((i + 1) * k) k = slice (xs.drop k) (i * k) k := by
      intro i
      simp only [slice, List.drop_drop]
      congr 2
      rw [Nat.add_mul]; omega
    simp only [h1, h2]
    rw [ih (xs.drop k) (by rw [List.length_drop, hlen, Nat.add_mul]; omega)]
    exact List.take_append_drop k xs

/-- the round trip VectorToArray ∘ ArrayToVector is the identity -/
theorem vectorToArray_arrayToVector (d : Nat) (rest xs : List Nat) (hlen : xs.length = d * prod rest)
    (hp : 0 < prod rest) :
    vectorToArray (arrayToVector (d :: rest) xs) = xs := by
  have hdiv : xs.length / prod rest = d := by rw [hlen, Nat.mul_div_cancel _ hp]
  simp only [vectorToArray, arrayToVector, chunks, List.drop_one, List.tail_cons, hdiv,
    List.flatMap_map, id]
  exact flatMap_slices _ _ _ hlen

example : vectorToArray (arrayToVector [2, 3] [1, 2, 3, 4, 5, 6]) = [1, 2, 3, 4, 5, 6] := by decide

/-! ### Concatenate -/

theorem sum_map_mul {α : Type} (l : List α) (f : α → Nat) (c : Nat) :
    (l.map fun a => f a * c).sum = (l.map f).sum * c := by
  induction l with
  | nil => simp
  | cons a l ih => simp [ih, Nat.add_mul]

theorem sum_take_le {α : Type} (l : List α) (f : α → Nat) (t : Nat) (ht : t < l.length) :
    ((l.take t).map f).sum + f l[t] ≤ (l.map f).sum := by
  induction l generalizing t with
  | nil => simp at ht
  | cons a l ih =>
    cases t with
    | zero => simp
    | succ t =>
      simp only [List.length_cons, Nat.add_lt_add_iff_right] at ht
      have := ih t ht
      simp only [List.take_succ_cons, List.map_cons, List.sum_cons, List.getElem_cons_succ]
      omega

theorem slice_getElem? (l : List Nat) (a n i : Nat) (h : i < n) :
    (slice l a n)[i]? = l[a + i]? := by
  simp [slice, h, List.getElem?_drop]

/-- the two-level block decomposition of `concatenate` -/
theorem concatenate_core (axis : Nat) (inputs : List (List Nat × List Nat)) (sr : List Nat)
    (N IL S : Nat) (hN : prod (sr.take axis) = N) (hIL : prod (sr.drop (axis + 1)) = IL)
    (hin : ∀ p ∈ inputs, p.2.length = N * p.1.getD axis 0 * IL)
    (hS : S = (inputs.map fun p => p.1.getD axis 0).sum)
    (t : Nat) (ht : t < inputs.length) (a x r : Nat)
    (ha : a < N) (hx : x < inputs[t].1.getD axis 0) (hr : r < IL) :
    (concatenate axis inputs sr)[a * (S * IL)
        + (((inputs.take t).map fun p => p.1.getD axis 0).sum * IL + (x * IL + r))]?
      = inputs[t].2[a * inputs[t].1.getD axis 0 * IL + (x * IL + r)]? := by
  have hblk : ∀ ai, ai < N → ∀ p ∈ inputs,
      (slice p.2 (ai * p.1.getD axis 0 * IL) (p.1.getD axis 0 * IL)).length
        = p.1.getD axis 0 * IL := by
    intro ai hai p hp
    apply slice_length
    rw [hin p hp]
    have : (ai + 1) * (p.1.getD axis 0 * IL) ≤ N * (p.1.getD axis 0 * IL) :=
      Nat.mul_le_mul_right _ hai
    nlinarith
  have hoff := sum_take_le inputs (fun p => p.1.getD axis 0) t ht
  rw [← hS] at hoff
  have hi2 : x * IL + r < inputs[t].1.getD axis 0 * IL := by
    have : (x + 1) * IL ≤ inputs[t].1.getD axis 0 * IL := Nat.mul_le_mul_right _ hx
    nlinarith
  have hi1 : ((inputs.take t).map fun p => p.1.getD axis 0).sum * IL + (x * IL + r) < S * IL := by
    have : (((inputs.take t).map fun p => p.1.getD axis 0).sum + inputs[t].1.getD axis 0) * IL
        ≤ S * IL := Nat.mul_le_mul_right _ hoff
    nlinarith
  simp only [concatenate, hN, hIL]
  -- outer blocks
  rw [flatMap_getElem?_const (List.range N) _ (S * IL) ?_ a _ (by simpa using ha) hi1]
  · -- inner blocks
    simp only [List.getElem_range]
    have hsum : ((inputs.take t).map fun p => p.1.getD axis 0).sum * IL
        = ((inputs.take t).map fun p : List Nat × List Nat =>
            (slice p.2 (a * p.1.getD axis 0 * IL) (p.1.getD axis 0 * IL)).length).sum := by
      rw [← sum_map_mul]
      congr 1
      apply List.map_congr_left
      intro p hp
      exact (hblk a ha p (List.mem_of_mem_take hp)).symm
    rw [hsum]
    rw [flatMap_getElem?_var inputs
      (fun p : List Nat × List Nat => slice p.2 (a * p.1.getD axis 0 * IL) (p.1.getD axis 0 * IL))
      t _ ht (by rw [hblk a ha _ (List.getElem_mem ht)]; exact hi2)]
    exact slice_getElem? _ _ _ _ hi2
  · intro ai hai
    rw [List.length_flatMap]
    have hai' : ai < N := by simpa using hai
    have : (inputs.map fun p : List Nat × List Nat =>
        (slice p.2 (ai * p.1.getD axis 0 * IL) (p.1.getD axis 0 * IL)).length)
        = inputs.map fun p => p.1.getD axis 0 * IL :=
      List.map_congr_left fun p hp => hblk ai hai' p hp
    rw [this, sum_map_mul, hS]

theorem getElem?_eq_of_getD (s r : List Nat) (hl : s.length = r.length) (k : Nat)
    (h : s.getD k 0 = r.getD k 0) : s[k]? = r[k]? := by
  by_cases hk : k < s.length
  · have hk' : k < r.length := hl ▸ hk
    simp only [List.getD_eq_getElem?_getD, List.getElem?_eq_getElem hk,
      List.getElem?_eq_getElem hk', Option.getD_some] at h
    rw [List.getElem?_eq_getElem hk, List.getElem?_eq_getElem hk', h]
  · have hk' : ¬ k < r.length := hl ▸ hk
    rw [List.getElem?_eq_none (by omega), List.getElem?_eq_none (by omega)]

theorem take_drop_eq (s r : List Nat) (axis : Nat) (hl : s.length = r.length)
    (h : ∀ k, k ≠ axis → s.getD k 0 = r.getD k 0) :
    s.take axis = r.take axis ∧ s.drop (axis + 1) = r.drop (axis + 1) := by
  constructor
  · apply List.ext_getElem?
    intro i
    simp only [List.getElem?_take]
    split
    · exact getElem?_eq_of_getD s r hl i (h i (by omega))
    · rfl
  · apply List.ext_getElem?
    intro i
    simp only [List.getElem?_drop]
    exact getElem?_eq_of_getD s r hl _ (h _ (by omega))

theorem validIdx_append_inv {i1 s1 i2 s2 : List Nat} (hl : i1.length = s1.length)
    (h : validIdx (i1 ++ i2) (s1 ++ s2)) : validIdx i1 s1 ∧ validIdx i2 s2 := by
  induction s1 generalizing i1 with
  | nil =>
    cases i1 with
    | nil => exact ⟨trivial, by simpa using h⟩
    | cons x xs => simp at hl
  | cons d ds ih =>
    cases i1 with
    | nil => simp at hl
    | cons x xs =>
      simp only [List.length_cons, Nat.add_right_cancel_iff] at hl
      simp only [List.cons_append, validIdx] at h
      have := ih hl h.2
      exact ⟨⟨h.1, this.1⟩, this.2⟩

/-- Concatenate along `axis`: input `t` lands at offset `Σ_{u<t} shape_u[axis]` on that axis -/
theorem concatenate_spec (axis : Nat) (inputs : List (List Nat × List Nat)) (sr : List Nat)
    (haxis : axis < sr.length)
    (hshape : ∀ p ∈ inputs, p.1.length = sr.length ∧
      (∀ k, k ≠ axis → p.1.getD k 0 = sr.getD k 0) ∧ p.2.length = prod p.1)
    (hsum : sr.getD axis 0 = (inputs.map fun p => p.1.getD axis 0).sum)
    (t : Nat) (ht : t < inputs.length) (I : List Nat)
    (hI : validIdx I (inputs.getD t ([], [])).1) :
    (concatenate axis inputs sr).getD
        (flat (I.set axis (I.getD axis 0 + ((inputs.take t).map fun p => p.1.getD axis 0).sum)) sr) 0
      = Spec.ofFlat (inputs.getD t ([], [])).1 (inputs.getD t ([], [])).2 I := by
  have hpt : inputs.getD t ([], []) = inputs[t] := by simp [List.getD_eq_getElem?_getD, ht]
  rw [hpt] at hI ⊢
  -- every input shape is `take axis sr ++ [n] ++ drop (axis+1) sr`
  have hsplit : ∀ p ∈ inputs,
      p.1 = sr.take axis ++ [p.1.getD axis 0] ++ sr.drop (axis + 1) := by
    intro p hp
    obtain ⟨hlen, hk, _⟩ := hshape p hp
    obtain ⟨hT, hD⟩ := take_drop_eq _ _ axis hlen hk
    have := split_axis p.1 axis (by omega)
    rw [hT, hD] at this
    exact this
  have hin : ∀ p ∈ inputs,
      p.2.length = prod (sr.take axis) * p.1.getD axis 0 * prod (sr.drop (axis + 1)) := by
    intro p hp
    rw [(hshape p hp).2.2]
    conv => lhs; rw [hsplit p hp]
    rw [prod_append, prod_append]; simp [prod]
  have hmem := List.getElem_mem ht
  have hss := hsplit _ hmem
  have hsr := split_axis sr axis haxis
  have hIl := validIdx_length hI
  have hIax : axis < I.length := by rw [hIl, (hshape _ hmem).1]; exact haxis
  have hIs := split_axis I axis hIax
  have hv : validIdx (I.take axis ++ [I.getD axis 0] ++ I.drop (axis + 1))
      (sr.take axis ++ [inputs[t].1.getD axis 0] ++ sr.drop (axis + 1)) := by
    rw [← hIs, ← hss]; exact hI
  have hlP : (I.take axis).length = (sr.take axis).length := by
    simp only [List.length_take]; omega
  obtain ⟨hv1, hR⟩ := validIdx_append_inv (by simp only [List.length_append, hlP, List.length_cons, List.length_nil]) hv
  obtain ⟨hP, hx⟩ := validIdx_append_inv hlP hv1
  simp only [validIdx, and_true] at hx
  have hcore := concatenate_core axis inputs sr _ _ _ rfl rfl hin hsum t ht
    (flat (I.take axis) (sr.take axis)) (I.getD axis 0) (flat (I.drop (axis + 1)) (sr.drop (axis + 1)))
    (flat_lt hP) hx (flat_lt hR)
  have hcore' := congrArg (fun o => o.getD 0) hcore
  simp only [← List.getD_eq_getElem?_getD] at hcore'
  have h1 : flat (I.set axis (I.getD axis 0 + ((inputs.take t).map fun p => p.1.getD axis 0).sum)) sr
      = flat (I.take axis) (sr.take axis) * (sr.getD axis 0 * prod (sr.drop (axis + 1)))
        + (((inputs.take t).map fun p => p.1.getD axis 0).sum * prod (sr.drop (axis + 1))
          + (I.getD axis 0 * prod (sr.drop (axis + 1))
            + flat (I.drop (axis + 1)) (sr.drop (axis + 1)))) := by
    rw [List.set_eq_take_append_cons_drop, if_pos hIax]
    conv => lhs; rw [hsr]
    rw [← List.singleton_append, ← List.append_assoc,
      flat_append (by simp only [List.length_append, hlP, List.length_cons, List.length_nil]),
      flat_append hlP]
    simp only [flat, prod]
    ring
  have h2 : flat I inputs[t].1
      = flat (I.take axis) (sr.take axis) * inputs[t].1.getD axis 0 * prod (sr.drop (axis + 1))
        + (I.getD axis 0 * prod (sr.drop (axis + 1))
          + flat (I.drop (axis + 1)) (sr.drop (axis + 1))) := by
    calc flat I inputs[t].1
        = flat (I.take axis ++ [I.getD axis 0] ++ I.drop (axis + 1))
            (sr.take axis ++ [inputs[t].1.getD axis 0] ++ sr.drop (axis + 1)) := by
          rw [← hIs, ← hss]
      _ = _ := by
          rw [flat_append (by simp only [List.length_append, hlP, List.length_cons, List.length_nil]),
            flat_append hlP]
          simp only [flat, prod]
          ring
  simp only [Spec.ofFlat]
  rw [h1, h2]
  exact hcore'

example : concatenate 1 [([2, 1], [1, 2]), ([2, 2], [3, 4, 5, 6])] [2, 3] = [1, 3, 4, 2, 5, 6] := by
  decide

end CCV.Ops
