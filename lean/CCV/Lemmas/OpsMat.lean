import CCV.Model.Ops
import CCV.Model.Spec
import CCV.Lemmas.Shape
import CCV.Lemmas.Kernels
/-
  Arithmetic with broadcasting, MixedMultiply, Sum (all axes), Dot and Matmul:
  the evaluator-shaped model `CCV.Ops` computes the NumPy-style index semantics `CCV.Spec`.
-/
namespace CCV.Ops
open CCV CCV.Shape

/-! ### helpers -/

theorem ext_zero (st : ST) : ext st 0 = 0 := by
  unfold ext
  split
  · rename_i h
    have : 0 < 2 ^ (st.bits - 1) := Nat.pow_pos (by decide)
    omega
  · rfl

theorem getD_map_ext (st : ST) (xs : List Nat) (k : Nat) :
    (xs.map (ext st)).getD k 0 = ext st (xs.getD k 0) := by
  simp only [List.getD_eq_getElem?_getD, List.getElem?_map]
  cases xs[k]? with
  | none => simp [ext_zero]
  | some v => simp

theorem zipK_ok (f : Nat → Nat → Option Nat → Nat) (a b : List Nat) (m : Option Nat)
    (h : a.length = b.length) : zipK f a b m = .ok (List.zipWith (fun x y => f x y m) a b) := by
  simp [zipK, h]

theorem getD_map_zipWith (f : Nat → Nat → Nat) (g : Nat → Nat) (a b : List Nat) (i : Nat)
    (ha : i < a.length) (hb : i < b.length) :
    ((List.zipWith f a b).map g).getD i 0 = g (f (a.getD i 0) (b.getD i 0)) := by
  simp [List.getD_eq_getElem?_getD, List.getElem?_zipWith, List.getElem?_eq_getElem ha,
    List.getElem?_eq_getElem hb]

/-! ### Add / Subtract / Multiply -/

/-- the integer operation of each arithmetic op -/
def Arith.int : Arith → Int → Int → Int
  | .add => (· + ·) | .sub => (· - ·) | .mul => (· * ·)

theorem arith_kernel (op : Arith) (st : ST) (a b : Nat) :
    low st (op.kernel (ext st a) (ext st b) (modulus st)) = st.ofInt (op.int (st.toInt a) (st.toInt b)) := by
  cases op
  · exact add_kernel st a b
  · exact sub_kernel st a b
  · exact mul_kernel st a b

/-- Add / Subtract / Multiply with NumPy broadcasting, all 11 scalar types, all shapes, all values:
    the evaluator-shaped computation succeeds, has `prod sr` entries, and entry `I` is the integer
    operation on the broadcast operands modulo 2^w. -/
theorem arith_spec (op : Arith) (st : ST) (s1 xs s2 ys sr : List Nat) (h1 : bcOK s1 sr) (h2 : bcOK s2 sr) :
    ∃ r, arith op st s1 xs s2 ys sr = .ok r ∧ r.length = prod sr ∧
      ∀ I, validIdx I sr →
        r.getD (flat I sr) 0 = Spec.arith st op.int (Spec.ofFlat s1 xs) s1 (Spec.ofFlat s2 ys) s2 I := by
  have hl : (broadcastToShape (xs.map (ext st)) s1 sr).length
      = (broadcastToShape (ys.map (ext st)) s2 sr).length := by
    rw [broadcastToShape_length, broadcastToShape_length]
  refine ⟨(List.zipWith (fun x y => op.kernel x y (modulus st))
    (broadcastToShape (xs.map (ext st)) s1 sr) (broadcastToShape (ys.map (ext st)) s2 sr)).map (low st),
    ?_, ?_, ?_⟩
  · unfold arith
    simp only [zipK_ok _ _ _ _ hl]
  · simp only [List.length_map, List.length_zipWith, broadcastToShape_length, Nat.min_self]
  · intro I hI
    have hlt := flat_lt hI
    rw [getD_map_zipWith _ _ _ _ _ (by rw [broadcastToShape_length]; exact hlt)
      (by rw [broadcastToShape_length]; exact hlt)]
    rw [broadcastToShape_getD _ h1 hI, broadcastToShape_getD _ h2 hI, getD_map_ext, getD_map_ext,
      arith_kernel]
    rfl

/-- non-vacuity: i8 `[1,2,3] - [[5],[250]]` (shape `[3]` and `[2,1]` broadcast to `[2,3]`) -/
example : arith .sub .i8 [3] [1, 2, 3] [2, 1] [5, 250] [2, 3] = .ok [252, 253, 254, 7, 8, 9] := by rfl
example : arith .mul .u128 [1] [2 ^ 127 + 1] [2] [2, 3] [2] = .ok [2, 2 ^ 127 + 3] := by rfl

/-! ### MixedMultiply -/

/-- MixedMultiply (integer array × bit array) -/
theorem mixedMultiply_spec (st : ST) (s1 xs s2 bits sr : List Nat) (h1 : bcOK s1 sr) (h2 : bcOK s2 sr) :
    ∃ r, mixedMultiply st s1 xs s2 bits sr = .ok r ∧ r.length = prod sr ∧
      ∀ I, validIdx I sr →
        r.getD (flat I sr) 0 = Spec.mixedMultiply st (Spec.ofFlat s1 xs) s1 (Spec.ofFlat s2 bits) s2 I := by
  have hl : (broadcastToShape (xs.map (ext st)) s1 sr).length
      = (broadcastToShape bits s2 sr).length := by
    rw [broadcastToShape_length, broadcastToShape_length]
  refine ⟨(List.zipWith (fun x y => mulU128 x y (modulus st))
    (broadcastToShape (xs.map (ext st)) s1 sr) (broadcastToShape bits s2 sr)).map (low st),
    ?_, ?_, ?_⟩
  · unfold mixedMultiply
    simp only [zipK_ok _ _ _ _ hl]
  · simp only [List.length_map, List.length_zipWith, broadcastToShape_length, Nat.min_self]
  · intro I hI
    have hlt := flat_lt hI
    rw [getD_map_zipWith _ _ _ _ _ (by rw [broadcastToShape_length]; exact hlt)
      (by rw [broadcastToShape_length]; exact hlt)]
    rw [broadcastToShape_getD _ h1 hI, broadcastToShape_getD _ h2 hI, getD_map_ext,
      mixed_mul_kernel]
    rfl

example : mixedMultiply .i16 [2, 2] [65535, 7, 9, 65000] [2] [1, 0] [2, 2] = .ok [65535, 0, 9, 0] := by
  rfl

/-! ### Sum over all axes -/

/-- Sum over all axes (scalar result) -/
theorem sumAll_spec (st : ST) (shape xs axes : List Nat) :
    sum st shape xs axes none = [Spec.sumAll st xs] := by
  simp only [sum, Spec.sumAll, sumFold_spec]

example : sum .i8 [2, 2] [255, 255, 3, 128] [0, 1] none = [129] := by decide

/-! ### the accumulation loop -/

theorem sumTo_congr (K : Nat) (f g : Nat → Int) (h : ∀ k, k < K → f k = g k) :
    Spec.sumTo K f = Spec.sumTo K g := by
  unfold Spec.sumTo
  congr 1
  apply List.map_congr_left
  intro k hk
  exact h k (List.mem_range.mp hk)

/-- the accumulation loop of dot/matmul is the integer sum of products mod 2^w -/
theorem dotAcc_spec (st : ST) (xs ys : List Nat) (f0 f1 : Nat → Nat) (K : Nat) :
    low st (dotAcc (modulus st) (xs.map (ext st)) (ys.map (ext st)) f0 f1 K)
      = st.ofInt (Spec.sumTo K fun k => st.toInt (xs.getD (f0 k) 0) * st.toInt (ys.getD (f1 k) 0)) := by
  unfold dotAcc
  have h : (List.range K).map (fun j => ((xs.map (ext st)).getD (f0 j) 0, (ys.map (ext st)).getD (f1 j) 0))
      = ((List.range K).map fun k => (xs.getD (f0 k) 0, ys.getD (f1 k) 0)).map
          fun p => (ext st p.1, ext st p.2) := by
    rw [List.map_map]
    apply List.map_congr_left
    intro k _
    simp only [getD_map_ext, Function.comp]
  rw [h, dotFold_spec, List.map_map]
  rfl

example : low .i8 (dotAcc (modulus .i8) ([255, 3].map (ext .i8)) ([2, 252].map (ext .i8)) id id 2) = 242 := by
  decide

/-- the loop with position functions that agree with `g0`, `g1` below `K` -/
theorem dotAcc_spec' (st : ST) (xs ys : List Nat) (f0 f1 g0 g1 : Nat → Nat) (K : Nat)
    (h0 : ∀ k, k < K → f0 k = g0 k) (h1 : ∀ k, k < K → f1 k = g1 k) :
    low st (dotAcc (modulus st) (xs.map (ext st)) (ys.map (ext st)) f0 f1 K)
      = st.ofInt (Spec.sumTo K fun k => st.toInt (xs.getD (g0 k) 0) * st.toInt (ys.getD (g1 k) 0)) := by
  rw [dotAcc_spec]
  congr 1
  apply sumTo_congr
  intro k hk
  rw [h0 k hk, h1 k hk]

/-! ### 1-d · 1-d -/

theorem flat_single (k K : Nat) : flat [k] [K] = k := by
  simp [flat, prod]

/-- Dot / Matmul of two 1-d arrays of length `K` -/
theorem dot11_spec (st : ST) (K : Nat) (xs ys sr : List Nat) :
    dot st [K] xs [K] ys sr = [Spec.dot11 st (Spec.ofFlat [K] xs) (Spec.ofFlat [K] ys) K] := by
  simp only [dot, List.length_singleton, and_self, if_true, List.headD_cons, dotAcc_spec,
    Spec.dot11, Spec.ofFlat, flat_single, id]

theorem matmul11_spec (st : ST) (K : Nat) (xs ys sr : List Nat) :
    matmul st [K] xs [K] ys sr = [Spec.dot11 st (Spec.ofFlat [K] xs) (Spec.ofFlat [K] ys) K] := by
  simp only [matmul, List.length_singleton, and_self, if_true, List.headD_cons, dotAcc_spec,
    Spec.dot11, Spec.ofFlat, flat_single, id]

example : dot .i8 [2] [255, 3] [2] [2, 252] [1] = [242] := by decide
example : matmul .u64 [2] [2 ^ 63, 3] [2] [2, 5] [1] = [15] := by decide

/-! ### N-d · 1-d -/

theorem validIdx_single {k K : Nat} (h : k < K) : validIdx [k] [K] := by
  simp only [validIdx, h, and_self]

theorem validIdx_pair {a b A B : Nat} (ha : a < A) (hb : b < B) : validIdx [a, b] [A, B] := by
  simp only [validIdx, ha, hb, and_self]

/-- Dot of an N-d array with a 1-d array: sum product over the last axis of the first operand -/
theorem dotN1_spec (st : ST) (s0 xs ys : List Nat) (K : Nat) (hr : 1 ≤ s0.length) (I : List Nat) (hI : validIdx I s0) :
    (dot st (s0 ++ [K]) xs [K] ys s0).getD (flat I s0) 0
      = Spec.dotN1 st (Spec.ofFlat (s0 ++ [K]) xs) (Spec.ofFlat [K] ys) K I := by
  have hlen := validIdx_length hI
  have hne : ¬ ((s0 ++ [K]).length = 1 ∧ [K].length = 1) := by
    simp only [List.length_append, List.length_singleton]; omega
  simp only [dot, if_neg hne]
  rw [getD_map_range _ _ _ (flat_lt hI)]
  simp only [numberToIndex_flat hI, List.length_singleton, Nat.lt_irrefl, if_false, List.headD_cons]
  refine dotAcc_spec' st xs ys _ _ (fun k => flat (I ++ [k]) (s0 ++ [K])) (fun k => flat [k] [K]) K ?_ ?_
  · intro k hk
    have h : (s0 ++ [K]).length - 1 = I.length := by
      simp only [List.length_append, List.length_singleton]; omega
    rw [h, List.take_length, indexToNumber_eq_flat (validIdx_append hI (validIdx_single hk))]
  · intro k hk
    exact indexToNumber_eq_flat (validIdx_single hk)

/-- i8, `[[1,-1],[2,3]] · [5,-2] = [7, 4]` -/
example : dot .i8 [2, 2] [1, 255, 2, 3] [2] [5, 254] [2] = [7, 4] := by decide

/-! ### N-d · M-d -/

set_option linter.unusedVariables false in
/-- Dot of an N-d array with an M-d array (M ≥ 2):
    `dot(A,B)[I0 ++ J0 ++ [m]] = Σ_k A[I0 ++ [k]] · B[J0 ++ [k, m]]`
    (the hypothesis `hK` of the requested statement is not needed by the proof) -/
theorem dotNN_spec (st : ST) (a0 b0 xs ys : List Nat) (K M : Nat)
    (I0 J0 : List Nat) (m : Nat) (hI : validIdx I0 a0) (hJ : validIdx J0 b0) (hm : m < M) (hK : 0 < K) :
    (dot st (a0 ++ [K]) xs (b0 ++ [K, M]) ys (a0 ++ b0 ++ [M])).getD (flat (I0 ++ J0 ++ [m]) (a0 ++ b0 ++ [M])) 0
      = st.ofInt (Spec.sumTo K fun k =>
          st.toInt (Spec.ofFlat (a0 ++ [K]) xs (I0 ++ [k])) * st.toInt (Spec.ofFlat (b0 ++ [K, M]) ys (J0 ++ [k, m]))) := by
  have hlI := validIdx_length hI
  have hlJ := validIdx_length hJ
  have hv : validIdx (I0 ++ J0 ++ [m]) (a0 ++ b0 ++ [M]) :=
    validIdx_append (validIdx_append hI hJ) (validIdx_single hm)
  have hne : ¬ ((a0 ++ [K]).length = 1 ∧ (b0 ++ [K, M]).length = 1) := by
    simp only [List.length_append, List.length_cons, List.length_nil]; omega
  have h1 : 1 < (b0 ++ [K, M]).length := by
    simp only [List.length_append, List.length_cons, List.length_nil]; omega
  have hmid : (b0 ++ [K, M]).getD ((b0 ++ [K, M]).length - 2) 0 = K := by
    have : (b0 ++ [K, M]).length - 2 = b0.length := by
      simp only [List.length_append, List.length_cons, List.length_nil]; omega
    rw [this]
    simp [List.getD_eq_getElem?_getD]
  simp only [dot, if_neg hne]
  rw [getD_map_range _ _ _ (flat_lt hv)]
  simp only [numberToIndex_flat hv, if_pos h1, hmid]
  unfold Spec.ofFlat
  refine dotAcc_spec' st xs ys _ _ (fun k => flat (I0 ++ [k]) (a0 ++ [K]))
    (fun k => flat (J0 ++ [k, m]) (b0 ++ [K, M])) K ?_ ?_
  · intro k hk
    have h : (a0 ++ [K]).length - 1 = I0.length := by
      simp only [List.length_append, List.length_singleton]; omega
    rw [h, List.append_assoc, List.take_left,
      indexToNumber_eq_flat (validIdx_append hI (validIdx_single hk))]
  · intro k hk
    have h : (a0 ++ [K]).length - 1 = I0.length := by
      simp only [List.length_append, List.length_singleton]; omega
    rw [h, List.append_assoc, List.drop_left]
    have h2 : (J0 ++ [m]).length - 1 = J0.length := by
      simp only [List.length_append, List.length_singleton]; omega
    rw [h2]
    have h3 : insertAt (J0 ++ [m]) J0.length k = J0 ++ [k, m] := by
      unfold insertAt
      rw [List.take_left, List.drop_left]
      simp only [List.append_assoc, List.cons_append, List.nil_append]
    rw [h3, indexToNumber_eq_flat (validIdx_append hJ (validIdx_pair hk hm))]

/-- i8, `A = [[1,-1],[2,3]]` (2×2), `B` of shape 2×2×2; `dot(A,B)[i,b,m] = Σ_k A[i,k]·B[b,k,m]` -/
example : dot .i8 [2, 2] [1, 255, 2, 3] [2, 2, 2] [1, 2, 3, 4, 5, 6, 7, 8] [2, 2, 2]
    = [254, 254, 254, 254, 11, 16, 31, 36] := by decide

/-! ### matmul, rank ≥ 2, broadcast batch dimensions -/

theorem i2nAux_append (acc : Nat) (J s T t : List Nat) (h : J.length = s.length) :
    i2nAux acc (J ++ T) (s ++ t) = i2nAux (i2nAux acc J s) T t := by
  induction s generalizing acc J with
  | nil =>
    cases J with
    | nil => simp only [List.nil_append, i2nAux]
    | cons x xs => simp at h
  | cons d ds ih =>
    cases J with
    | nil => simp at h
    | cons x xs =>
      simp only [List.length_cons, Nat.add_right_cancel_iff] at h
      simp only [List.cons_append, i2nAux, List.headD_cons, List.tail_cons]
      exact ih _ xs h

/-- `index_to_number` of a concatenated index (prefix as long as the prefix of the shape) -/
theorem indexToNumber_append (J s T t : List Nat) (h : J.length = s.length) :
    indexToNumber (J ++ T) (s ++ t) = indexToNumber J s * prod t + indexToNumber T t := by
  unfold indexToNumber
  rw [i2nAux_append _ _ _ _ _ h, i2nAux_eq]

/-- broadcast law with extra (valid) trailing digits -/
theorem broadcast_index_law_append {s sr β T t : List Nat} (hb : bcOK s sr) (hβ : validIdx β sr)
    (hT : validIdx T t) :
    indexToNumber (β.drop (sr.length - s.length) ++ T) (s ++ t) = flat (bcIdx s β ++ T) (s ++ t) := by
  have ⟨e, v⟩ := broadcast_index_law hb hβ
  have hl : (β.drop (sr.length - s.length)).length = s.length := by
    rw [List.length_drop, validIdx_length hβ]
    have := hb.1
    omega
  rw [indexToNumber_append _ _ _ _ hl, e, indexToNumber_eq_flat hT, flat_append (validIdx_length v)]

set_option linter.unusedVariables false in
/-- Matmul of two arrays of rank ≥ 2 with broadcast batch dimensions (NumPy matmul)
    (the hypothesis `hK` of the requested statement is not needed by the proof) -/
theorem matmul_spec (st : ST) (ba bb br xs ys : List Nat) (N K M : Nat)
    (ha : bcOK ba br) (hb : bcOK bb br) (hK : 0 < K)
    (β : List Nat) (i j : Nat) (hβ : validIdx β br) (hi : i < N) (hj : j < M) :
    (matmul st (ba ++ [N, K]) xs (bb ++ [K, M]) ys (br ++ [N, M])).getD (flat (β ++ [i, j]) (br ++ [N, M])) 0
      = st.ofInt (Spec.sumTo K fun k =>
          st.toInt (Spec.ofFlat (ba ++ [N, K]) xs (bcIdx ba β ++ [i, k])) *
          st.toInt (Spec.ofFlat (bb ++ [K, M]) ys (bcIdx bb β ++ [k, j]))) := by
  have hlβ := validIdx_length hβ
  have hla := ha.1
  have hlb := hb.1
  have hv : validIdx (β ++ [i, j]) (br ++ [N, M]) := validIdx_append hβ (validIdx_pair hi hj)
  have hne : ¬ ((ba ++ [N, K]).length = 1 ∧ (bb ++ [K, M]).length = 1) := by
    simp only [List.length_append, List.length_cons, List.length_nil]; omega
  have h0 : ¬ (ba ++ [N, K]).length = 1 := by
    simp only [List.length_append, List.length_cons, List.length_nil]; omega
  have h1 : ¬ (bb ++ [K, M]).length = 1 := by
    simp only [List.length_append, List.length_cons, List.length_nil]; omega
  have hmid : (bb ++ [K, M]).getD ((bb ++ [K, M]).length - 2) 0 = K := by
    have : (bb ++ [K, M]).length - 2 = bb.length := by
      simp only [List.length_append, List.length_cons, List.length_nil]; omega
    rw [this]
    simp [List.getD_eq_getElem?_getD]
  simp only [matmul, if_neg hne, if_neg h0, if_neg h1]
  rw [getD_map_range _ _ _ (flat_lt hv)]
  simp only [numberToIndex_flat hv, hmid]
  unfold Spec.ofFlat
  refine dotAcc_spec' st xs ys _ _ (fun k => flat (bcIdx ba β ++ [i, k]) (ba ++ [N, K]))
    (fun k => flat (bcIdx bb β ++ [k, j]) (bb ++ [K, M])) K ?_ ?_
  · intro k hk
    have e1 : (br ++ [N, M]).length - (ba ++ [N, K]).length = br.length - ba.length := by
      simp only [List.length_append, List.length_cons, List.length_nil]; omega
    have e2 : (ba ++ [N, K]).length - 1 = ba.length + 1 := by
      simp only [List.length_append, List.length_cons, List.length_nil]; omega
    have hl : (β.drop (br.length - ba.length)).length = ba.length := by
      rw [List.length_drop]; omega
    have e3 : ((β ++ [i, j]).drop (br.length - ba.length)).take (ba.length + 1) ++ [k]
        = β.drop (br.length - ba.length) ++ [i, k] := by
      rw [List.drop_append_of_le_length (by omega)]
      have : β.drop (br.length - ba.length) ++ [i, j] = (β.drop (br.length - ba.length) ++ [i]) ++ [j] := by
        simp only [List.append_assoc, List.cons_append, List.nil_append]
      rw [this, List.take_left' (by simp only [List.length_append, List.length_singleton, hl])]
      simp only [List.append_assoc, List.cons_append, List.nil_append]
    rw [e1, e2, e3]
    exact broadcast_index_law_append ha hβ (validIdx_pair hi hk)
  · intro k hk
    have e1 : (br ++ [N, M]).length - (bb ++ [K, M]).length = br.length - bb.length := by
      simp only [List.length_append, List.length_cons, List.length_nil]; omega
    have e2 : (bb ++ [K, M]).length - 2 = bb.length := by
      simp only [List.length_append, List.length_cons, List.length_nil]; omega
    have hl : (β.drop (br.length - bb.length)).length = bb.length := by
      rw [List.length_drop]; omega
    have e3 : ((β ++ [i, j]).drop (br.length - bb.length)).set bb.length k
        = β.drop (br.length - bb.length) ++ [k, j] := by
      rw [List.drop_append_of_le_length (by omega), List.set_append_right _ _ (by omega), hl]
      simp only [Nat.sub_self, List.set_cons_zero]
    rw [e1, e2, e3]
    exact broadcast_index_law_append hb hβ (validIdx_pair hk hj)

/-- batch broadcast: `A` of shape 1×2×2 (one matrix), `B` of shape 2×2×1 (two column vectors), i8 -/
example : matmul .i8 [1, 2, 2] [1, 255, 2, 3] [2, 2, 1] [5, 254, 1, 1] [2, 2, 1] = [7, 4, 0, 5] := by decide

end CCV.Ops
