import CCV.Model.Reshare
/-
  Planner safety (C01, T9): definitions and the invariants of `compute_graph_resharing` and
  `sanity_pass` (model: CCV/Model/Reshare.lean).  The theorems are collected in
  CCV/Proofs/C01Reshare.lean.
-/
namespace CCV.C01
open CCV.Reshare

/-- a product (Multiply/Dot/Matmul/Gemm) whose operands are all private: translated to the ABY3
    product protocol, whose result is a 3-out-of-3 sharing -/
def AllPrivProduct (g : Graph) (n : Node) : Prop := n.cls = .product ∧ allPriv g n = true

/-- `Unres g P i`: with the plan `P` (= the nodes that get a `reshare` appended), the compiled value
    of node `i` is a 3-out-of-3 sharing that has not been reshared:
    * a private×private product outside the plan, or
    * a private node outside the plan one of whose operands is unreshared (share-wise translation:
      party `j` can only compute component `j`). -/
inductive Unres (g : Graph) (P : List Nat) : Nat → Prop
  | prod {i : Nat} {n : Node} : g.nodes[i]? = some n → n.priv = true → i ∉ P →
      AllPrivProduct g n → Unres g P i
  | prop {i : Nat} {n : Node} {d : Nat} : g.nodes[i]? = some n → n.priv = true → i ∉ P →
      d ∈ n.deps → Unres g P d → Unres g P i

/-- the compiled translation of `n` runs a protocol that reads replicated (2-out-of-3) operands:
    Join, JoinWithColumnMasks, Truncate, A2B, B2A, Sort (and GetSlice, by the planner's policy);
    a product of private operands; MixedMultiply / ApplyPermutation with private bits / permutation -/
def NeedsReplicated (g : Graph) (n : Node) : Prop :=
  n.priv = true ∧
    (n.cls = .need2 ∨ AllPrivProduct g n ∨
      (n.cls = .cond1 ∧ ∃ d0 d1 ds, n.deps = d0 :: d1 :: ds ∧ privAt g d1 = true))

/-- graphs as ciphercore builds them: operands precede the node, inputs have no operands -/
structure WF (g : Graph) : Prop where
  order : ∀ (i : Nat) (n : Node), g.nodes[i]? = some n → ∀ d ∈ n.deps, d < i
  inputs : ∀ (i : Nat) (n : Node), g.nodes[i]? = some n → n.cls = .input → n.deps = []

/-- operands of broadcasting operations (arrays / scalars) have a positive size in bits -/
def PosSizes (g : Graph) : Prop :=
  ∀ (i : Nat) (n : Node), g.nodes[i]? = some n → n.bcast = true → ∀ d ∈ n.deps, 0 < sizeAt g d

/-! ### sets as lists -/

theorem mem_ins {x y : Nat} {s : List Nat} : y ∈ ins x s ↔ y = x ∨ y ∈ s := by
  unfold ins
  split
  · constructor
    · intro h; exact Or.inr h
    · rintro (h | h)
      · subst h; assumption
      · exact h
  · simp

theorem mem_del {x y : Nat} {s : List Nat} : y ∈ del x s ↔ y ∈ s ∧ y ≠ x := by
  simp [del]

theorem mem_ensure_U (ds : List Nat) (s : St) (x : Nat) :
    x ∈ (ensureDeps ds s).unreshared ↔ x ∈ s.unreshared ∧ x ∉ ds := by
  induction ds generalizing s with
  | nil => simp [ensureDeps]
  | cons d ds ih =>
    rw [ensureDeps, ih]
    by_cases hd : d ∈ s.unreshared
    · simp only [hd, if_true, mem_del, List.mem_cons, not_or]
      constructor
      · rintro ⟨⟨a, b⟩, c⟩; exact ⟨a, b, c⟩
      · rintro ⟨a, b, c⟩; exact ⟨⟨a, b⟩, c⟩
    · simp only [hd, if_false, List.mem_cons, not_or]
      constructor
      · rintro ⟨a, c⟩; exact ⟨a, fun e => hd (e ▸ a), c⟩
      · rintro ⟨a, _, c⟩; exact ⟨a, c⟩

theorem mem_ensure_R (ds : List Nat) (s : St) (x : Nat) :
    x ∈ (ensureDeps ds s).toReshare ↔ x ∈ s.toReshare ∨ (x ∈ s.unreshared ∧ x ∈ ds) := by
  induction ds generalizing s with
  | nil => simp [ensureDeps]
  | cons d ds ih =>
    rw [ensureDeps, ih]
    by_cases hd : d ∈ s.unreshared
    · simp only [hd, if_true, mem_del, mem_ins, List.mem_cons]
      constructor
      · rintro ((h | h) | ⟨⟨a, _⟩, c⟩)
        · subst h; exact Or.inr ⟨hd, Or.inl rfl⟩
        · exact Or.inl h
        · exact Or.inr ⟨a, Or.inr c⟩
      · rintro (h | ⟨a, (h | h)⟩)
        · exact Or.inl (Or.inr h)
        · exact Or.inl (Or.inl h)
        · by_cases e : x = d
          · exact Or.inl (Or.inl e)
          · exact Or.inr ⟨⟨a, e⟩, h⟩
    · simp only [hd, if_false, List.mem_cons]
      constructor
      · rintro (h | ⟨a, c⟩)
        · exact Or.inl h
        · exact Or.inr ⟨a, Or.inr c⟩
      · rintro (h | ⟨a, (h | h)⟩)
        · exact Or.inl h
        · subst h; exact absurd a hd
        · exact Or.inr ⟨a, h⟩

theorem unresSize_zero (g : Graph) (u ds : List Nat) (h : unresSize g u ds = 0) :
    ∀ d ∈ ds, d ∈ u → sizeAt g d = 0 := by
  induction ds with
  | nil => intro d hd; cases hd
  | cons e ds ih =>
    intro d hd hu
    simp only [unresSize] at h
    rcases List.mem_cons.1 hd with rfl | hd
    · have : (if d ∈ u then sizeAt g d else 0) = 0 := by omega
      simpa [hu] using this
    · exact ih (by omega) d hd hu

theorem any_mem_false {u ds : List Nat} (h : ds.any (fun d => decide (d ∈ u)) = false) :
    ∀ d ∈ ds, d ∉ u := by
  intro d hd hu
  have : ds.any (fun d => decide (d ∈ u)) = true := List.any_eq_true.2 ⟨d, hd, by simpa using hu⟩
  rw [h] at this; cases this

theorem any_mem_true {u ds : List Nat} (h : ds.any (fun d => decide (d ∈ u)) = true) :
    ∃ d ∈ ds, d ∈ u := by
  obtain ⟨d, hd, hu⟩ := List.any_eq_true.1 h
  exact ⟨d, hd, by simpa using hu⟩

/-! ### facts about `Unres` -/

theorem unres_mono {g : Graph} {P P' : List Nat} (h : ∀ x, x ∈ P → x ∈ P') {i : Nat}
    (u : Unres g P' i) : Unres g P i := by
  induction u with
  | prod hn hp hi ha => exact .prod hn hp (fun c => hi (h _ c)) ha
  | prop hn hp hi hd _ ih => exact .prop hn hp (fun c => hi (h _ c)) hd ih

theorem unres_not_mem {g : Graph} {P : List Nat} {i : Nat} (u : Unres g P i) : i ∉ P := by
  cases u <;> assumption

/-- inversion at a known node -/
theorem unres_inv {g : Graph} {P : List Nat} {i : Nat} {n : Node} (hn : g.nodes[i]? = some n)
    (u : Unres g P i) :
    n.priv = true ∧ i ∉ P ∧ (AllPrivProduct g n ∨ ∃ d ∈ n.deps, Unres g P d) := by
  cases u with
  | prod hn' hp hi ha =>
    rw [hn] at hn'; cases hn'
    exact ⟨hp, hi, Or.inl ha⟩
  | prop hn' hp hi hd hu =>
    rw [hn] at hn'; cases hn'
    exact ⟨hp, hi, Or.inr ⟨_, hd, hu⟩⟩

theorem unres_unfold (g : Graph) (P : List Nat) (i : Nat) :
    Unres g P i ↔ ∃ n, g.nodes[i]? = some n ∧ n.priv = true ∧ i ∉ P ∧
      (AllPrivProduct g n ∨ ∃ d ∈ n.deps, Unres g P d) := by
  constructor
  · intro u
    cases u with
    | prod hn hp hi ha => exact ⟨_, hn, hp, hi, Or.inl ha⟩
    | prop hn hp hi hd hu => exact ⟨_, hn, hp, hi, Or.inr ⟨_, hd, hu⟩⟩
  · rintro ⟨n, hn, hp, hi, ha | ⟨d, hd, hu⟩⟩
    · exact .prod hn hp hi ha
    · exact .prop hn hp hi hd hu

theorem unres_lt {g : Graph} {P : List Nat} {i : Nat} (u : Unres g P i) : i < g.nodes.length := by
  cases u with
  | prod hn _ _ _ => exact (List.getElem?_eq_some_iff.1 hn).1
  | prop hn _ _ _ _ => exact (List.getElem?_eq_some_iff.1 hn).1

theorem privAt_of {g : Graph} {i : Nat} {n : Node} (hn : g.nodes[i]? = some n) :
    privAt g i = n.priv := by
  simp [privAt, hn]

theorem unres_priv {g : Graph} {P : List Nat} {i : Nat} (u : Unres g P i) : privAt g i = true := by
  cases u with
  | prod hn hp _ _ => rw [privAt_of hn]; exact hp
  | prop hn hp _ _ _ => rw [privAt_of hn]; exact hp

/-- removing from the plan a node that is not a private product and has no unreshared operand
    does not make anything unreshared -/
theorem unres_del {g : Graph} {R : List Nat} {i : Nat} {n : Node} (hn : g.nodes[i]? = some n)
    (hprod : ¬ AllPrivProduct g n) (hdeps : ∀ d ∈ n.deps, ¬ Unres g R d) {m : Nat}
    (u : Unres g (del i R) m) : Unres g R m := by
  induction u with
  | @prod m n' hn' hp hi ha =>
    by_cases e : m = i
    · subst e; rw [hn] at hn'; cases hn'; exact absurd ha hprod
    · exact .prod hn' hp (fun c => hi (mem_del.2 ⟨c, e⟩)) ha
  | @prop m n' d hn' hp hi hd _ ih =>
    by_cases e : m = i
    · subst e; rw [hn] at hn'; cases hn'; exact absurd ih (hdeps d hd)
    · exact .prop hn' hp (fun c => hi (mem_del.2 ⟨c, e⟩)) hd ih

/-! ### first loop of `compute_graph_resharing` -/

/-- what one iteration of the first loop guarantees, whatever match arm is taken -/
structure StepOK (g : Graph) (k : Nat) (n : Node) (s s' : St) : Prop where
  /-- `nodes_to_reshare` only grows -/
  hR : ∀ x, x ∈ s.toReshare → x ∈ s'.toReshare
  /-- a node leaves `unreshared_nodes` only by entering `nodes_to_reshare` -/
  hU : ∀ x, x ∈ s.unreshared → x ∈ s'.unreshared ∨ x ∈ s'.toReshare
  /-- if node `k` is really 3-out-of-3 it is recorded as such -/
  hk : (∀ m, m < k → Unres g s'.toReshare m → m ∈ s'.unreshared) →
        Unres g s'.toReshare k → k ∈ s'.unreshared
  /-- a node reading replicated shares has no unreshared operand -/
  hs : (∀ m, m < k → Unres g s'.toReshare m → m ∈ s'.unreshared) →
        NeedsReplicated g n → ∀ d ∈ n.deps, ¬ Unres g s'.toReshare d

theorem needsReplicated_cases {g : Graph} {n : Node} (h : NeedsReplicated g n) :
    n.cls = .need2 ∨ AllPrivProduct g n ∨ (n.cls = .cond1 ∧ ∃ d0 d1 ds, n.deps = d0 :: d1 :: ds ∧ privAt g d1 = true) :=
  h.2

/-- the state is unchanged and the node cannot be unreshared -/
theorem stepOK_id {g : Graph} {k : Nat} {n : Node} {s : St}
    (hno : (∀ m, m < k → Unres g s.toReshare m → m ∈ s.unreshared) → ¬ Unres g s.toReshare k)
    (hnr : ¬ NeedsReplicated g n) : StepOK g k n s s :=
  ⟨fun _ h => h, fun _ h => Or.inl h, fun H u => absurd u (hno H), fun _ h => absurd h hnr⟩

/-- after `ensure_dependencies_are_reshared(node)` no operand of the node is unreshared -/
theorem ensure_no_unres {g : Graph} {k : Nat} {n : Node} {s : St} (wf : WF g)
    (hn : g.nodes[k]? = some n)
    (H : ∀ m, m < k → Unres g (ensureDeps n.deps s).toReshare m → m ∈ (ensureDeps n.deps s).unreshared) :
    ∀ d ∈ n.deps, ¬ Unres g (ensureDeps n.deps s).toReshare d := by
  intro d hd u
  have := H d (wf.order k n hn d hd) u
  exact ((mem_ensure_U _ _ _).1 this).2 hd

theorem stepOK_ensure {g : Graph} {k : Nat} {n : Node} {s : St} (wf : WF g)
    (hn : g.nodes[k]? = some n) (hprod : ¬ AllPrivProduct g n) :
    StepOK g k n s (ensureDeps n.deps s) where
  hR x h := (mem_ensure_R _ _ _).2 (Or.inl h)
  hU x h := by
    by_cases e : x ∈ n.deps
    · exact Or.inr ((mem_ensure_R _ _ _).2 (Or.inr ⟨h, e⟩))
    · exact Or.inl ((mem_ensure_U _ _ _).2 ⟨h, e⟩)
  hk H u := by
    rcases (unres_inv hn u).2.2 with h | ⟨d, hd, hu⟩
    · exact absurd h hprod
    · exact absurd hu (ensure_no_unres wf hn H d hd)
  hs H _ := ensure_no_unres wf hn H

theorem stepOK_product {g : Graph} {k : Nat} {n : Node} {s : St} (wf : WF g)
    (hn : g.nodes[k]? = some n) :
    StepOK g k n s { ensureDeps n.deps s with unreshared := ins k (ensureDeps n.deps s).unreshared } where
  hR x h := (mem_ensure_R _ _ _).2 (Or.inl h)
  hU x h := by
    by_cases e : x ∈ n.deps
    · exact Or.inr ((mem_ensure_R _ _ _).2 (Or.inr ⟨h, e⟩))
    · exact Or.inl (mem_ins.2 (Or.inr ((mem_ensure_U _ _ _).2 ⟨h, e⟩)))
  hk _ _ := mem_ins.2 (Or.inl rfl)
  hs H _ := by
    intro d hd u
    have hlt := wf.order k n hn d hd
    have := H d hlt u
    rcases mem_ins.1 this with e | h
    · omega
    · exact ((mem_ensure_U _ _ _).1 h).2 hd

theorem stepOK_localOp {g : Graph} {k : Nat} {n : Node} {s : St} (wf : WF g) (ps : PosSizes g)
    (hn : g.nodes[k]? = some n) (hprod : ¬ AllPrivProduct g n) (hnr : ¬ NeedsReplicated g n) :
    StepOK g k n s (localOp g k n s) := by
  have insOK : StepOK g k n s { s with unreshared := ins k s.unreshared } :=
    ⟨fun _ h => h, fun _ h => Or.inl (mem_ins.2 (Or.inr h)), fun _ _ => mem_ins.2 (Or.inl rfl),
     fun _ h => absurd h hnr⟩
  have idOK : (∀ d ∈ n.deps, d ∉ s.unreshared) → StepOK g k n s s := by
    intro hno
    refine stepOK_id (fun H u => ?_) hnr
    rcases (unres_inv hn u).2.2 with h | ⟨d, hd, hu⟩
    · exact hprod h
    · exact hno d hd (H d (wf.order k n hn d hd) hu)
  unfold localOp
  by_cases hb : n.bcast = true
  · simp only [hb, if_true]
    by_cases h1 : n.size > unresSize g s.unreshared n.deps
    · simp only [h1, if_true]; exact stepOK_ensure wf hn hprod
    · simp only [h1, if_false]
      by_cases h2 : unresSize g s.unreshared n.deps > 0
      · simp only [h2, if_true]; exact insOK
      · simp only [h2, if_false]
        refine idOK (fun d hd hu => ?_)
        have z := unresSize_zero g s.unreshared n.deps (by omega) d hd hu
        have := ps k n hn hb d hd
        omega
  · simp only [hb]
    by_cases h1 : n.deps.any (fun d => decide (d ∈ s.unreshared)) = true
    · simp only [h1, if_true]; exact insOK
    · simp only [h1]
      exact idOK (any_mem_false (by simpa using h1))

theorem mainStep_ok {g : Graph} {k : Nat} {n : Node} {s s' : St} (wf : WF g) (ps : PosSizes g)
    (hn : g.nodes[k]? = some n) (h : mainStep g k n s = some s') : StepOK g k n s s' := by
  unfold mainStep at h
  cases hp : n.priv with
  | false =>
    rw [hp] at h
    simp only [if_true, Option.some.injEq] at h
    subst h
    exact stepOK_id (fun _ u => by have := (unres_inv hn u).1; rw [hp] at this; cases this)
      (fun hnr => by have := hnr.1; rw [hp] at this; cases this)
  | true =>
    rw [hp] at h
    simp only [Bool.true_eq_false, if_false] at h
    cases hc : n.cls with
    | other => rw [hc] at h; cases h
    | input =>
      rw [hc] at h; simp only [Option.some.injEq] at h; subst h
      refine stepOK_id (fun _ u => ?_) ?_
      · rcases (unres_inv hn u).2.2 with ha | ⟨d, hd, _⟩
        · have := ha.1; rw [hc] at this; cases this
        · rw [wf.inputs k n hn hc] at hd; cases hd
      · intro hnr
        rcases hnr.2 with h | h | h
        · rw [hc] at h; cases h
        · have := h.1; rw [hc] at this; cases this
        · have := h.1; rw [hc] at this; cases this
    | loc =>
      rw [hc] at h; simp only [Option.some.injEq] at h; subst h
      refine stepOK_localOp wf ps hn (fun ha => ?_) (fun hnr => ?_)
      · have := ha.1; rw [hc] at this; cases this
      · rcases hnr.2 with h | h | h
        · rw [hc] at h; cases h
        · have := h.1; rw [hc] at this; cases this
        · have := h.1; rw [hc] at this; cases this
    | need2 =>
      rw [hc] at h; simp only [Option.some.injEq] at h; subst h
      exact stepOK_ensure wf hn (fun ha => by have := ha.1; rw [hc] at this; cases this)
    | product =>
      rw [hc] at h
      by_cases ha : allPriv g n = true
      · simp only [ha, if_true, Option.some.injEq] at h; subst h
        exact stepOK_product wf hn
      · simp only [ha] at h
        simp only [Bool.false_eq_true, if_false, Option.some.injEq] at h
        subst h
        refine stepOK_localOp wf ps hn (fun hx => ha hx.2) (fun hnr => ?_)
        rcases hnr.2 with h | h | h
        · rw [hc] at h; cases h
        · exact ha h.2
        · have := h.1; rw [hc] at this; cases this
    | cond1 =>
      rw [hc] at h
      have hprod : ¬ AllPrivProduct g n := fun ha => by have := ha.1; rw [hc] at this; cases this
      match hd : n.deps with
      | [] => rw [hd] at h; cases h
      | [_] => rw [hd] at h; cases h
      | d0 :: d1 :: ds =>
        rw [hd] at h
        by_cases h1 : privAt g d1 = true
        · simp only [h1, if_true, Option.some.injEq] at h; subst h
          rw [← hd]; exact stepOK_ensure wf hn hprod
        · simp only [h1] at h
          simp only [Bool.false_eq_true, if_false, Option.some.injEq] at h
          subst h
          refine stepOK_localOp wf ps hn hprod (fun hnr => ?_)
          rcases hnr.2 with h | h | ⟨_, e0, e1, es, he, hp1⟩
          · rw [hc] at h; cases h
          · exact hprod h
          · rw [hd] at he; cases he; exact h1 hp1

/-- invariant of the first loop after the first `k` nodes -/
structure MainInv (g : Graph) (k : Nat) (s : St) : Prop where
  /-- `unreshared_nodes` over-approximates the nodes that are really 3-out-of-3 under the current plan -/
  recd : ∀ m, m < k → Unres g s.toReshare m → m ∈ s.unreshared
  /-- every processed node that reads replicated shares has no unreshared operand -/
  safe : ∀ j n, j < k → g.nodes[j]? = some n → NeedsReplicated g n →
      ∀ d ∈ n.deps, ¬ Unres g s.toReshare d

theorem mainInv_step {g : Graph} {k : Nat} {n : Node} {s s' : St}
    (hn : g.nodes[k]? = some n) (ok : StepOK g k n s s') (inv : MainInv g k s) :
    MainInv g (k + 1) s' := by
  have H : ∀ m, m < k → Unres g s'.toReshare m → m ∈ s'.unreshared := by
    intro m hm u
    rcases ok.hU m (inv.recd m hm (unres_mono ok.hR u)) with h | h
    · exact h
    · exact absurd h (unres_not_mem u)
  constructor
  · intro m hm u
    by_cases e : m = k
    · subst e; exact ok.hk H u
    · exact H m (by omega) u
  · intro j n' hj hn' hnr d hd u
    by_cases e : j = k
    · subst e; rw [hn] at hn'; cases hn'
      exact ok.hs H hnr d hd u
    · exact inv.safe j n' (by omega) hn' hnr d hd (unres_mono ok.hR u)

theorem getElem?_split {α : Type} {l pre : List α} {x : α} {rest : List α} {k : Nat}
    (h : l = pre ++ x :: rest) (hk : pre.length = k) : l[k]? = some x := by
  subst h; subst hk; simp

theorem mainPass_inv {g : Graph} (wf : WF g) (ps : PosSizes g) :
    ∀ (ns pre : List Node) (k : Nat) (s s' : St), g.nodes = pre ++ ns → pre.length = k →
      mainPass g ns k s = some s' → MainInv g k s →
      MainInv g g.nodes.length s' ∧ (∀ x, x ∈ s.toReshare → x ∈ s'.toReshare) := by
  intro ns
  induction ns with
  | nil =>
    intro pre k s s' hg hk h inv
    simp only [mainPass, Option.some.injEq] at h; subst h
    have : g.nodes.length = k := by rw [hg]; simp [hk]
    rw [this]; exact ⟨inv, fun _ h => h⟩
  | cons n ns ih =>
    intro pre k s s' hg hk h inv
    have hn := getElem?_split hg hk
    simp only [mainPass] at h
    cases hs : mainStep g k n s with
    | none => rw [hs] at h; cases h
    | some s1 =>
      rw [hs] at h
      have ok := mainStep_ok wf ps hn hs
      have := ih (pre ++ [n]) (k + 1) s1 s' (by rw [hg]; simp) (by simp [hk]) h (mainInv_step hn ok inv)
      exact ⟨this.1, fun x hx => this.2 x (ok.hR x hx)⟩

/-! ### `sanity_pass` -/

/-- `unreshared_nodes` over-approximates the really unreshared nodes -/
def RecAll (g : Graph) (s : St) : Prop := ∀ m, Unres g s.toReshare m → m ∈ s.unreshared

theorem sanityStep_inv {g : Graph} {i : Nat} {n : Node} {s : St} (hn : g.nodes[i]? = some n)
    (inv : RecAll g s) :
    RecAll g (sanityStep g i n s) ∧
      (∀ m, Unres g (sanityStep g i n s).toReshare m → Unres g s.toReshare m) := by
  unfold sanityStep
  by_cases hskip : n.cls = .product ∧ allPriv g n = true
  · simp only [hskip, and_self, if_true]; exact ⟨inv, fun _ h => h⟩
  · simp only [hskip, if_false]
    by_cases hA : anyUnres s.unreshared n.deps = false
    · have hno : ∀ d ∈ n.deps, d ∉ s.unreshared := any_mem_false hA
      have hdeps : ∀ d ∈ n.deps, ¬ Unres g s.toReshare d := fun d hd u => hno d hd (inv d u)
      have hi : ¬ Unres g s.toReshare i := by
        intro u
        rcases (unres_inv hn u).2.2 with h | ⟨d, hd, hu⟩
        · exact hskip h
        · exact hdeps d hd hu
      have back : ∀ m, Unres g (if i ∈ s.toReshare ∧ anyUnres s.unreshared n.deps = false then del i s.toReshare else s.toReshare) m →
          Unres g s.toReshare m := by
        intro m u
        by_cases c : i ∈ s.toReshare ∧ anyUnres s.unreshared n.deps = false
        · rw [if_pos c] at u; exact unres_del hn hskip hdeps u
        · rw [if_neg c] at u; exact u
      refine ⟨fun m u => ?_, back⟩
      have um := back m u
      have hm := inv m um
      show m ∈ (if i ∈ s.unreshared ∧ anyUnres s.unreshared n.deps = false then del i s.unreshared else s.unreshared)
      by_cases c : i ∈ s.unreshared ∧ anyUnres s.unreshared n.deps = false
      · rw [if_pos c]
        exact mem_del.2 ⟨hm, fun e => hi (e ▸ um)⟩
      · rw [if_neg c]; exact hm
    · have hA' : anyUnres s.unreshared n.deps = true := by
        cases h : anyUnres s.unreshared n.deps
        · exact absurd h hA
        · rfl
      simp only [hA', Bool.true_eq_false, and_false, if_false]; exact ⟨inv, fun _ h => h⟩

theorem sanityPass_inv {g : Graph} :
    ∀ (ns pre : List Node) (k : Nat) (s : St), g.nodes = pre ++ ns → pre.length = k → RecAll g s →
      RecAll g (sanityPass g ns k s) ∧
        (∀ m, Unres g (sanityPass g ns k s).toReshare m → Unres g s.toReshare m) := by
  intro ns
  induction ns with
  | nil => intro pre k s _ _ inv; exact ⟨inv, fun _ h => h⟩
  | cons n ns ih =>
    intro pre k s hg hk inv
    have hn := getElem?_split hg hk
    have st := sanityStep_inv hn inv
    have := ih (pre ++ [n]) (k + 1) (sanityStep g k n s) (by rw [hg]; simp) (by simp [hk]) st.1
    simp only [sanityPass]
    exact ⟨this.1, fun m u => st.2 m (this.2 m u)⟩

/-- the state after the first loop and the output fix, and how the final plan relates to it -/
theorem compute_spec {g : Graph} (wf : WF g) (ps : PosSizes g) {s : St} (h : compute g = some s) :
    ∃ s1 : St, MainInv g g.nodes.length s1 ∧
      (∀ m, Unres g s.toReshare m → Unres g (outFix g s1).toReshare m) ∧
      (∀ x, x ∈ s1.toReshare → x ∈ (outFix g s1).toReshare) ∧
      (g.out ∈ s1.unreshared → g.out ∈ (outFix g s1).toReshare) := by
  unfold compute at h
  cases hm : mainPass g g.nodes 0 ⟨[], []⟩ with
  | none => rw [hm] at h; cases h
  | some s1 =>
    rw [hm] at h; simp only [Option.some.injEq] at h; subst h
    have inv0 : MainInv g 0 ⟨[], []⟩ := ⟨fun m hm => by omega, fun j _ hj => by omega⟩
    have m1 := (mainPass_inv wf ps g.nodes [] 0 ⟨[], []⟩ s1 (by simp) rfl hm inv0).1
    have hsub : ∀ x, x ∈ s1.toReshare → x ∈ (outFix g s1).toReshare := by
      intro x hx; unfold outFix; split
      · exact mem_ins.2 (Or.inr hx)
      · exact hx
    have rec2 : RecAll g (outFix g s1) := by
      intro m u
      have : m ∈ s1.unreshared := m1.recd m (unres_lt u) (unres_mono hsub u)
      unfold outFix; split <;> exact this
    refine ⟨s1, m1, (sanityPass_inv g.nodes [] 0 _ (by simp) rfl rec2).2, hsub, ?_⟩
    intro ho; unfold outFix; rw [if_pos ho]; exact mem_ins.2 (Or.inl rfl)

/-! ### only private nodes enter the two sets -/

def PrivInv (g : Graph) (s : St) : Prop :=
  (∀ x, x ∈ s.toReshare → privAt g x = true) ∧ (∀ x, x ∈ s.unreshared → privAt g x = true)

theorem privInv_ensure {g : Graph} (ds : List Nat) {s : St} (h : PrivInv g s) :
    PrivInv g (ensureDeps ds s) := by
  constructor
  · intro x hx
    rcases (mem_ensure_R _ _ _).1 hx with a | ⟨a, _⟩
    · exact h.1 x a
    · exact h.2 x a
  · intro x hx; exact h.2 x ((mem_ensure_U _ _ _).1 hx).1

theorem privInv_ins {g : Graph} {k : Nat} {s : St} (hk : privAt g k = true) (h : PrivInv g s) :
    PrivInv g { s with unreshared := ins k s.unreshared } := by
  refine ⟨h.1, fun x hx => ?_⟩
  rcases mem_ins.1 hx with e | a
  · rw [e]; exact hk
  · exact h.2 x a

theorem privInv_localOp {g : Graph} {k : Nat} {n : Node} {s : St} (hk : privAt g k = true)
    (h : PrivInv g s) : PrivInv g (localOp g k n s) := by
  unfold localOp
  split
  · simp only []
    split
    · exact privInv_ensure _ h
    · split
      · exact privInv_ins hk h
      · exact h
  · split
    · exact privInv_ins hk h
    · exact h

theorem privInv_mainStep {g : Graph} {k : Nat} {n : Node} {s s' : St} (hn : g.nodes[k]? = some n)
    (hs : mainStep g k n s = some s') (h : PrivInv g s) : PrivInv g s' := by
  unfold mainStep at hs
  cases hp : n.priv with
  | false => rw [hp] at hs; simp only [if_true, Option.some.injEq] at hs; subst hs; exact h
  | true =>
    have hk : privAt g k = true := by rw [privAt_of hn]; exact hp
    rw [hp] at hs
    simp only [Bool.true_eq_false, if_false] at hs
    split at hs
    · cases hs
    · cases hs; exact h
    · cases hs; exact privInv_localOp hk h
    · split at hs
      · cases hs; exact privInv_ins (s := ensureDeps n.deps s) hk (privInv_ensure _ h)
      · cases hs; exact privInv_localOp hk h
    · cases hs; exact privInv_ensure _ h
    · split at hs
      · split at hs
        · cases hs; exact privInv_ensure _ h
        · cases hs; exact privInv_localOp hk h
      · cases hs

theorem privInv_mainPass {g : Graph} :
    ∀ (ns pre : List Node) (k : Nat) (s s' : St), g.nodes = pre ++ ns → pre.length = k →
      mainPass g ns k s = some s' → PrivInv g s → PrivInv g s' := by
  intro ns
  induction ns with
  | nil => intro pre k s s' _ _ h inv; simp only [mainPass, Option.some.injEq] at h; subst h; exact inv
  | cons n ns ih =>
    intro pre k s s' hg hk h inv
    have hn := getElem?_split hg hk
    simp only [mainPass] at h
    cases hs : mainStep g k n s with
    | none => rw [hs] at h; cases h
    | some s1 =>
      rw [hs] at h
      exact ih (pre ++ [n]) (k + 1) s1 s' (by rw [hg]; simp) (by simp [hk]) h (privInv_mainStep hn hs inv)

theorem sanityStep_sub (g : Graph) (i : Nat) (n : Node) (s : St) :
    (∀ x, x ∈ (sanityStep g i n s).toReshare → x ∈ s.toReshare) ∧
      (∀ x, x ∈ (sanityStep g i n s).unreshared → x ∈ s.unreshared) := by
  unfold sanityStep
  split
  · exact ⟨fun _ h => h, fun _ h => h⟩
  · constructor
    · intro x hx; simp only [] at hx
      split at hx
      · exact (mem_del.1 hx).1
      · exact hx
    · intro x hx; simp only [] at hx
      split at hx
      · exact (mem_del.1 hx).1
      · exact hx

theorem sanityPass_sub (g : Graph) : ∀ (ns : List Node) (k : Nat) (s : St),
    (∀ x, x ∈ (sanityPass g ns k s).toReshare → x ∈ s.toReshare) ∧
      (∀ x, x ∈ (sanityPass g ns k s).unreshared → x ∈ s.unreshared) := by
  intro ns
  induction ns with
  | nil => intro k s; exact ⟨fun _ h => h, fun _ h => h⟩
  | cons n ns ih =>
    intro k s
    have a := ih (k + 1) (sanityStep g k n s)
    have b := sanityStep_sub g k n s
    simp only [sanityPass]
    exact ⟨fun x hx => b.1 x (a.1 x hx), fun x hx => b.2 x (a.2 x hx)⟩

theorem privInv_outFix {g : Graph} {s1 : St} (p1 : PrivInv g s1) : PrivInv g (outFix g s1) := by
  unfold outFix
  split
  · rename_i ho
    refine ⟨fun x hx => ?_, p1.2⟩
    rcases mem_ins.1 hx with e | a
    · rw [e]; exact p1.2 _ ho
    · exact p1.1 x a
  · exact p1

theorem compute_priv {g : Graph} {s : St} (h : compute g = some s) : PrivInv g s := by
  unfold compute at h
  cases hm : mainPass g g.nodes 0 ⟨[], []⟩ with
  | none => rw [hm] at h; cases h
  | some s1 =>
    rw [hm] at h; simp only [Option.some.injEq] at h; subst h
    have p1 : PrivInv g s1 :=
      privInv_mainPass g.nodes [] 0 ⟨[], []⟩ s1 (by simp) rfl hm
        (And.intro (fun x hx => by cases hx) (fun x hx => by cases hx))
    have p2 : PrivInv g (outFix g s1) := privInv_outFix p1
    have sub := sanityPass_sub g g.nodes 0 (outFix g s1)
    exact ⟨fun x hx => p2.1 x (sub.1 x hx), fun x hx => p2.2 x (sub.2 x hx)⟩

/-! ### minimality: the two sets stay disjoint, and `sanity_pass` makes `unreshared_nodes` exact -/

/-- how one iteration of the first loop moves elements between the two sets -/
def Frame (k : Nat) (s s' : St) : Prop :=
  (∀ x, x ∈ s'.unreshared → (x ∈ s.unreshared ∧ (x ∈ s'.toReshare → x ∈ s.toReshare)) ∨ x = k) ∧
    (∀ x, x ∈ s'.toReshare → x ∈ s.toReshare ∨ x ∈ s.unreshared)

theorem frame_id (k : Nat) (s : St) : Frame k s s :=
  ⟨fun _ h => Or.inl ⟨h, fun r => r⟩, fun _ h => Or.inl h⟩

theorem frame_ensure (k : Nat) (ds : List Nat) (s : St) : Frame k s (ensureDeps ds s) := by
  constructor
  · intro x hx
    have hu := (mem_ensure_U _ _ _).1 hx
    refine Or.inl ⟨hu.1, fun hr => ?_⟩
    rcases (mem_ensure_R _ _ _).1 hr with a | ⟨_, b⟩
    · exact a
    · exact absurd b hu.2
  · intro x hx
    rcases (mem_ensure_R _ _ _).1 hx with a | ⟨a, _⟩
    · exact Or.inl a
    · exact Or.inr a

theorem frame_ins {k : Nat} {s s' : St} (f : Frame k s s') :
    Frame k s { s' with unreshared := ins k s'.unreshared } := by
  refine ⟨fun x hx => ?_, f.2⟩
  rcases mem_ins.1 hx with e | a
  · exact Or.inr e
  · exact f.1 x a

theorem frame_localOp (g : Graph) (k : Nat) (n : Node) (s : St) : Frame k s (localOp g k n s) := by
  unfold localOp
  split
  · simp only []
    split
    · exact frame_ensure k _ s
    · split
      · exact frame_ins (frame_id k s)
      · exact frame_id k s
  · split
    · exact frame_ins (frame_id k s)
    · exact frame_id k s

theorem frame_mainStep {g : Graph} {k : Nat} {n : Node} {s s' : St}
    (hs : mainStep g k n s = some s') : Frame k s s' := by
  unfold mainStep at hs
  cases hp : n.priv with
  | false => rw [hp] at hs; simp only [if_true, Option.some.injEq] at hs; subst hs; exact frame_id k s
  | true =>
    rw [hp] at hs
    simp only [Bool.true_eq_false, if_false] at hs
    split at hs
    · cases hs
    · cases hs; exact frame_id k s
    · cases hs; exact frame_localOp g k n s
    · split at hs
      · cases hs; exact frame_ins (frame_ensure k _ s)
      · cases hs; exact frame_localOp g k n s
    · cases hs; exact frame_ensure k _ s
    · split at hs
      · split at hs
        · cases hs; exact frame_ensure k _ s
        · cases hs; exact frame_localOp g k n s
      · cases hs

/-- during the first loop: both sets contain processed nodes only, and they are disjoint -/
def DisjInv (k : Nat) (s : St) : Prop :=
  (∀ x, x ∈ s.unreshared → x < k) ∧ (∀ x, x ∈ s.toReshare → x < k) ∧
    (∀ x, x ∈ s.unreshared → x ∉ s.toReshare)

theorem disjInv_step {k : Nat} {s s' : St} (f : Frame k s s') (h : DisjInv k s) :
    DisjInv (k + 1) s' := by
  refine ⟨fun x hx => ?_, fun x hx => ?_, fun x hx hr => ?_⟩
  · rcases f.1 x hx with ⟨a, _⟩ | e
    · have := h.1 x a; omega
    · omega
  · rcases f.2 x hx with a | a
    · have := h.2.1 x a; omega
    · have := h.1 x a; omega
  · rcases f.1 x hx with ⟨a, b⟩ | e
    · exact h.2.2 x a (b hr)
    · subst e
      rcases f.2 x hr with a | a
      · have := h.2.1 x a; omega
      · have := h.1 x a; omega

theorem disjInv_mainPass {g : Graph} :
    ∀ (ns : List Node) (k : Nat) (s s' : St), mainPass g ns k s = some s' → DisjInv k s →
      ∃ k', DisjInv k' s' := by
  intro ns
  induction ns with
  | nil => intro k s s' h inv; simp only [mainPass, Option.some.injEq] at h; subst h; exact ⟨k, inv⟩
  | cons n ns ih =>
    intro k s s' h inv
    simp only [mainPass] at h
    cases hs : mainStep g k n s with
    | none => rw [hs] at h; cases h
    | some s1 =>
      rw [hs] at h
      exact ih (k + 1) s1 s' h (disjInv_step (frame_mainStep hs) inv)

/-- no node uses the output node as an operand (the output is the last live node) -/
def OutputUnused (g : Graph) : Prop :=
  ∀ (i : Nat) (n : Node), g.nodes[i]? = some n → g.out ∉ n.deps

/-- a reshared node would be 3-out-of-3 if it were not reshared -/
def Needed (g : Graph) (P : List Nat) (i : Nat) : Prop :=
  ∃ n, g.nodes[i]? = some n ∧ (AllPrivProduct g n ∨ ∃ d ∈ n.deps, Unres g P d)

/-- invariant of `sanity_pass` after the first `k` nodes -/
structure SanInv (g : Graph) (k : Nat) (s : St) : Prop where
  priv : PrivInv g s
  disj : ∀ x, x ∈ s.unreshared → x ∈ s.toReshare → x = g.out
  /-- `unreshared_nodes` is exact on the processed nodes (the output node is kept in both sets) -/
  exact : ∀ m, m < k → m ≠ g.out → m ∈ s.unreshared → Unres g s.toReshare m
  /-- every processed node still in the plan is needed -/
  needed : ∀ i, i < k → i ∈ s.toReshare → Needed g s.toReshare i

theorem sanInv_step {g : Graph} (wf : WF g) (hu : OutputUnused g) {k : Nat} {n : Node} {s : St}
    (hn : g.nodes[k]? = some n) (inv : SanInv g k s) : SanInv g (k + 1) (sanityStep g k n s) := by
  have sub := sanityStep_sub g k n s
  have mono : ∀ m, Unres g s.toReshare m → Unres g (sanityStep g k n s).toReshare m :=
    fun m u => unres_mono sub.1 u
  have hpk : ∀ x, x ∈ s.unreshared ∨ x ∈ s.toReshare → x = k → n.priv = true := by
    intro x hx e
    subst e
    rw [← privAt_of hn]
    rcases hx with a | a
    · exact inv.priv.2 _ a
    · exact inv.priv.1 _ a
  -- an operand recorded as unreshared really is
  have hdep : ∀ d ∈ n.deps, d ∈ s.unreshared → Unres g s.toReshare d := by
    intro d hd hdu
    exact inv.exact d (wf.order k n hn d hd) (fun e => hu k n hn (e ▸ hd)) hdu
  refine ⟨⟨fun x hx => inv.priv.1 x (sub.1 x hx), fun x hx => inv.priv.2 x (sub.2 x hx)⟩,
    fun x hx hr => inv.disj x (sub.2 x hx) (sub.1 x hr), ?_, ?_⟩
  · intro m hm hmo hmu
    by_cases e : m = k
    · subst e
      have hmU := sub.2 m hmu
      have hnotR : m ∉ s.toReshare := fun r => hmo (inv.disj m hmU r)
      have hp := hpk m (Or.inl hmU) rfl
      apply mono
      by_cases hskip : n.cls = .product ∧ allPriv g n = true
      · exact .prod hn hp hnotR hskip
      · -- kept in `unreshared_nodes`: some operand is recorded, hence really, unreshared
        unfold sanityStep at hmu
        simp only [hskip, if_false] at hmu
        cases hA : anyUnres s.unreshared n.deps with
        | false =>
          rw [hA] at hmu
          simp only [hmU, and_self, if_true] at hmu
          exact absurd rfl (mem_del.1 hmu).2
        | true =>
          obtain ⟨d, hd, hdu⟩ := any_mem_true hA
          exact .prop hn hp hnotR hd (hdep d hd hdu)
    · exact mono m (inv.exact m (by omega) hmo (sub.2 m hmu))
  · intro i hi hir
    by_cases e : i = k
    · subst e
      refine ⟨n, hn, ?_⟩
      by_cases hskip : n.cls = .product ∧ allPriv g n = true
      · exact Or.inl hskip
      · have hiR := sub.1 i hir
        unfold sanityStep at hir
        simp only [hskip, if_false] at hir
        cases hA : anyUnres s.unreshared n.deps with
        | false =>
          rw [hA] at hir
          simp only [hiR, and_self, if_true] at hir
          exact absurd rfl (mem_del.1 hir).2
        | true =>
          obtain ⟨d, hd, hdu⟩ := any_mem_true hA
          exact Or.inr ⟨d, hd, mono d (hdep d hd hdu)⟩
    · obtain ⟨n', hn', h⟩ := inv.needed i (by omega) (sub.1 i hir)
      refine ⟨n', hn', ?_⟩
      rcases h with a | ⟨d, hd, u⟩
      · exact Or.inl a
      · exact Or.inr ⟨d, hd, mono d u⟩

theorem sanInv_pass {g : Graph} (wf : WF g) (hu : OutputUnused g) :
    ∀ (ns pre : List Node) (k : Nat) (s : St), g.nodes = pre ++ ns → pre.length = k → SanInv g k s →
      SanInv g g.nodes.length (sanityPass g ns k s) := by
  intro ns
  induction ns with
  | nil =>
    intro pre k s hg hk inv
    have : g.nodes.length = k := by rw [hg]; simp [hk]
    rw [this]; exact inv
  | cons n ns ih =>
    intro pre k s hg hk inv
    have hn := getElem?_split hg hk
    simp only [sanityPass]
    exact ih (pre ++ [n]) (k + 1) _ (by rw [hg]; simp) (by simp [hk]) (sanInv_step wf hu hn inv)

theorem compute_needed {g : Graph} (wf : WF g) (hu : OutputUnused g) {s : St}
    (h : compute g = some s) : ∀ i, i ∈ s.toReshare → Needed g s.toReshare i := by
  have hp := compute_priv h
  unfold compute at h
  cases hm : mainPass g g.nodes 0 ⟨[], []⟩ with
  | none => rw [hm] at h; cases h
  | some s1 =>
    rw [hm] at h; simp only [Option.some.injEq] at h; subst h
    have p1 : PrivInv g s1 :=
      privInv_mainPass g.nodes [] 0 ⟨[], []⟩ s1 (by simp) rfl hm
        (And.intro (fun x hx => by cases hx) (fun x hx => by cases hx))
    obtain ⟨k', d1⟩ := disjInv_mainPass g.nodes 0 ⟨[], []⟩ s1 hm
      (And.intro (fun x hx => by cases hx) (And.intro (fun x hx => by cases hx) (fun x hx => by cases hx)))
    have inv0 : SanInv g 0 (outFix g s1) := by
      refine ⟨privInv_outFix p1, ?_, fun m hm => by omega, fun i hi => by omega⟩
      intro x hx hr
      unfold outFix at hx hr
      split at hx
      · rename_i ho
        rw [if_pos ho] at hr
        rcases mem_ins.1 hr with e | a
        · exact e
        · exact absurd a (d1.2.2 x hx)
      · rename_i ho
        rw [if_neg ho] at hr
        exact absurd hr (d1.2.2 x hx)
    have fin := sanInv_pass wf hu g.nodes [] 0 _ (by simp) rfl inv0
    intro i hi
    have hlt : i < g.nodes.length := by
      have := hp.1 i hi
      unfold privAt at this
      cases hn : g.nodes[i]? with
      | none => rw [hn] at this; cases this
      | some n => exact (List.getElem?_eq_some_iff.1 hn).1
    exact fin.needed i hlt hi

/-! ### the executable `unresAll` decides `Unres` -/

theorem getD_append_lt {acc : List Bool} {b : Bool} {j : Nat} (h : j < acc.length) :
    (acc ++ [b]).getD j false = acc.getD j false := by
  simp [List.getD_eq_getElem?_getD, List.getElem?_append_left h]

theorem getD_append_eq {acc : List Bool} {b : Bool} : (acc ++ [b]).getD acc.length false = b := by
  simp [List.getD_eq_getElem?_getD]

theorem unresList_spec {g : Graph} (wf : WF g) (P : List Nat) :
    ∀ (ns pre : List Node) (k : Nat) (acc : List Bool), g.nodes = pre ++ ns → pre.length = k →
      acc.length = k → (∀ j, j < k → (acc.getD j false = true ↔ Unres g P j)) →
      (unresList g P ns k acc).length = g.nodes.length ∧
        ∀ j, j < g.nodes.length → ((unresList g P ns k acc).getD j false = true ↔ Unres g P j) := by
  intro ns
  induction ns with
  | nil =>
    intro pre k acc hg hk hl inv
    have : g.nodes.length = k := by rw [hg]; simp [hk]
    simp only [unresList]
    rw [this]; exact ⟨hl, inv⟩
  | cons n ns ih =>
    intro pre k acc hg hk hl inv
    have hn := getElem?_split hg hk
    simp only [unresList]
    refine ih (pre ++ [n]) (k + 1) _ (by rw [hg]; simp) (by simp [hk]) (by simp [hl]) ?_
    intro j hj
    by_cases e : j = k
    · subst e
      rw [← hl, getD_append_eq, hl]
      rw [unres_unfold]
      constructor
      · intro hb
        simp only [Bool.and_eq_true, Bool.or_eq_true, Bool.not_eq_true', decide_eq_false_iff_not,
          decide_eq_true_eq, List.any_eq_true] at hb
        obtain ⟨⟨hp, hi⟩, h⟩ := hb
        refine ⟨n, hn, hp, hi, ?_⟩
        rcases h with ⟨hc, ha⟩ | ⟨d, hd, hu⟩
        · exact Or.inl ⟨hc, ha⟩
        · exact Or.inr ⟨d, hd, (inv d (wf.order j n hn d hd)).1 hu⟩
      · rintro ⟨n', hn', hp, hi, h⟩
        rw [hn] at hn'; cases hn'
        simp only [Bool.and_eq_true, Bool.or_eq_true, Bool.not_eq_true', decide_eq_false_iff_not,
          decide_eq_true_eq, List.any_eq_true]
        refine ⟨⟨hp, hi⟩, ?_⟩
        rcases h with ha | ⟨d, hd, hu⟩
        · exact Or.inl ⟨ha.1, ha.2⟩
        · exact Or.inr ⟨d, hd, (inv d (wf.order j n hn d hd)).2 hu⟩
    · have hlt : j < acc.length := by omega
      rw [getD_append_lt hlt]
      exact inv j (by omega)

end CCV.C01
