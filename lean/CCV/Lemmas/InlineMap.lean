import CCV.Lemmas.Inline
/-
  Map naturality: a homomorphism `h : α → β` from `(α, f)` to `(β, f')` commutes with every
  depth-optimised prefix/sum algorithm of the inliner (first components only; traces are ignored).
-/
namespace CCV.Inline

section MapNaturality

variable {α β : Type} (h : α → β) (f : α → α → α) (f' : β → β → β)

/-! ### log_depth_sum -/

theorem pairUp_map (hom : ∀ a b, h (f a b) = f' (h a) (h b)) :
    ∀ (l : List α), (pairUp f' (l.map h)).1 = (pairUp f l).1.map h
  | [] => rfl
  | [_] => rfl
  | a :: b :: rest => by
    simp only [List.map_cons, pairUp, pairUp_map hom rest, hom]

theorem ldLoop_map (hom : ∀ a b, h (f a b) = f' (h a) (h b)) :
    ∀ (fuel : Nat) (c : List α), (ldLoop f' fuel (c.map h)).1 = (ldLoop f fuel c).1.map h
  | 0, _ => rfl
  | fuel + 1, c => by
    unfold ldLoop
    simp only [List.length_map]
    split
    · simp only
      rw [pairUp_map h f f' hom, ldLoop_map hom fuel]
    · rfl

theorem logDepthSum_map (hom : ∀ a b, h (f a b) = f' (h a) (h b)) (items : List α) :
    logDepthSum f' (items.map h) = (logDepthSum f items).map h := by
  unfold logDepthSum logDepthSumT
  cases items with
  | nil => rfl
  | cons a l =>
    simp only [List.length_map]
    simp only [List.map_cons, List.isEmpty_cons, Bool.false_eq_true, if_false]
    rw [← List.map_cons, ldLoop_map h f f' hom, List.head?_map]

/-! ### binary ascent -/

theorem baStep_map (hom : ∀ a b, h (f a b) = f' (h a) (h b)) (depth : Nat) (c : List α) :
    (baStep f' depth (c.map h)).1 = (baStep f depth c).1.map h := by
  simp only [baStep, List.map_append, List.map_take, List.map_zipWith, hom]
  rw [← List.map_drop, List.zipWith_map]

theorem baLoop_map (hom : ∀ a b, h (f a b) = f' (h a) (h b)) :
    ∀ (fuel depth : Nat) (c : List α), (baLoop f' fuel depth (c.map h)).1 = (baLoop f fuel depth c).1.map h
  | 0, _, _ => rfl
  | fuel + 1, depth, c => by
    unfold baLoop
    simp only [List.length_map]
    split
    · simp only
      rw [baStep_map h f f' hom, baLoop_map hom fuel]
    · rfl

theorem prefixBinaryAscent_map (hom : ∀ a b, h (f a b) = f' (h a) (h b)) (items : List α) :
    prefixBinaryAscent f' (items.map h) = (prefixBinaryAscent f items).map h := by
  unfold prefixBinaryAscent prefixBinaryAscentT
  rw [List.length_map]
  exact baLoop_map h f f' hom _ _ _

/-! ### sqrt trick -/

theorem sqrtPass1_map (hom : ∀ a b, h (f a b) = f' (h a) (h b)) (block : Nat) :
    ∀ (xs : List α) (i : Nat) (prev : α),
      (sqrtPass1 f' block i (h prev) (xs.map h)).1 = (sqrtPass1 f block i prev xs).1.map h
  | [], _, _ => by simp [sqrtPass1]
  | x :: xs, i, prev => by
    by_cases hm : i % block = 0
    · simp only [List.map_cons, sqrtPass1, hm, ne_eq, not_true_eq_false, if_false]
      rw [sqrtPass1_map hom block xs]
    · simp only [List.map_cons, sqrtPass1, hm, ne_eq, not_false_eq_true, if_true]
      rw [← hom, sqrtPass1_map hom block xs]

theorem sqrtPass2_map (hom : ∀ a b, h (f a b) = f' (h a) (h b)) (block : Nat) :
    ∀ (ys : List α) (i : Nat) (carry prev : α),
      (sqrtPass2 f' block i (h carry) (h prev) (ys.map h)).1
        = (sqrtPass2 f block i carry prev ys).1.map h
  | [], _, _, _ => by simp [sqrtPass2]
  | y :: ys, i, carry, prev => by
    by_cases hlt : i < block
    · simp only [List.map_cons, sqrtPass2, hlt, if_true]
      rw [sqrtPass2_map hom block ys]
    · by_cases hm : i % block = 0
      · simp only [List.map_cons, sqrtPass2, hlt, hm, if_true, if_false]
        rw [← hom, sqrtPass2_map hom block ys]
      · simp only [List.map_cons, sqrtPass2, hlt, hm, if_false]
        rw [← hom, sqrtPass2_map hom block ys]

theorem prefixSqrtBT_map (hom : ∀ a b, h (f a b) = f' (h a) (h b)) (block : Nat) :
    ∀ (items : List α), (prefixSqrtBT f' block (items.map h)).1 = (prefixSqrtBT f block items).1.map h
  | [] => rfl
  | x :: xs => by
    simp only [List.map_cons, prefixSqrtBT]
    rw [← List.map_cons, sqrtPass1_map h f f' hom, sqrtPass2_map h f f' hom]

theorem prefixSqrt_map (hom : ∀ a b, h (f a b) = f' (h a) (h b)) (items : List α) :
    prefixSqrt f' (items.map h) = (prefixSqrt f items).map h := by
  unfold prefixSqrt prefixSqrtT
  rw [List.length_map]
  exact prefixSqrtBT_map h f f' hom _ _

/-! ### segment tree -/

theorem stBuild_map (hom : ∀ a b, h (f a b) = f' (h a) (h b)) :
    ∀ (fuel : Nat) (c : List α),
      (stBuild f' fuel (c.map h)).1 = (stBuild f fuel c).1.map (List.map h)
  | 0, _ => rfl
  | fuel + 1, c => by
    unfold stBuild
    simp only [List.length_map]
    split
    · simp only [List.map_cons]
      rw [pairUp_map h f f' hom, stBuild_map hom fuel]
    · rfl

theorem stDownRest_map (hom : ∀ a b, h (f a b) = f' (h a) (h b)) :
    ∀ (l : List α) (p : α) (ups : List α),
      (stDownRest f' (h p) (l.map h) (ups.map h)).1 = (stDownRest f p l ups).1.map h
  | [], _, _ => by simp [stDownRest]
  | [e], _, _ => by simp [stDownRest, hom]
  | e :: e' :: rest, p, [] => by simp [stDownRest, hom]
  | e :: e' :: rest, p, p' :: ups => by
    simp only [List.map_cons, stDownRest, hom]
    rw [stDownRest_map hom rest p' ups]

theorem stDown_map (hom : ∀ a b, h (f a b) = f' (h a) (h b)) :
    ∀ (l ups : List α), (stDown f' (l.map h) (ups.map h)).1 = (stDown f l ups).1.map h
  | [], _ => by simp [stDown]
  | [e], _ => by simp [stDown]
  | e0 :: e1 :: rest, [] => by simp [stDown]
  | e0 :: e1 :: rest, p0 :: ups => by
    simp only [List.map_cons, stDown]
    rw [stDownRest_map h f f' hom rest p0 ups]

theorem stDescend_map (hom : ∀ a b, h (f a b) = f' (h a) (h b)) :
    ∀ (ls : List (List α)), (stDescend f' (ls.map (List.map h))).1 = (stDescend f ls).1.map h
  | [] => rfl
  | [_] => rfl
  | l :: r :: rs => by
    simp only [List.map_cons, stDescend]
    rw [← List.map_cons, stDescend_map hom (r :: rs), stDown_map h f f' hom]

theorem prefixSegmentTree_map (hom : ∀ a b, h (f a b) = f' (h a) (h b)) (items : List α) :
    prefixSegmentTree f' (items.map h) = (prefixSegmentTree f items).map h := by
  unfold prefixSegmentTree prefixSegmentTreeT
  cases items with
  | nil => rfl
  | cons a l =>
    simp only [List.length_map]
    simp only [List.map_cons, List.isEmpty_cons, Bool.false_eq_true, if_false]
    rw [← List.map_cons, stBuild_map h f f' hom, stDescend_map h f f' hom]

/-! ### pick -/

theorem pick_map (hom : ∀ a b, h (f a b) = f' (h a) (h b)) (level : Level) (n : Nat) (items : List α) :
    pick level n f' (items.map h) = (pick level n f items).map h := by
  unfold pick pickT
  cases level with
  | extreme => exact prefixBinaryAscent_map h f f' hom items
  | default =>
    simp only
    split
    · exact prefixSqrt_map h f f' hom items
    · exact prefixSegmentTree_map h f f' hom items

/-! ### the specification functions -/

theorem scanAux_map (hom : ∀ a b, h (f a b) = f' (h a) (h b)) :
    ∀ (xs : List α) (acc : α), scanAux f' (h acc) (xs.map h) = (scanAux f acc xs).map h
  | [], _ => rfl
  | x :: xs, acc => by
    simp only [List.map_cons, scanAux, hom]
    rw [← hom, scanAux_map hom xs]

theorem scanl1_map (hom : ∀ a b, h (f a b) = f' (h a) (h b)) (items : List α) :
    scanl1 f' (items.map h) = (scanl1 f items).map h := by
  cases items with
  | nil => rfl
  | cons x xs => simp only [List.map_cons, scanl1, scanAux_map h f f' hom]

theorem foldl_map_hom (hom : ∀ a b, h (f a b) = f' (h a) (h b)) :
    ∀ (xs : List α) (acc : α), (xs.map h).foldl f' (h acc) = h (xs.foldl f acc)
  | [], _ => rfl
  | x :: xs, acc => by
    simp only [List.map_cons, List.foldl_cons]
    rw [← hom, foldl_map_hom hom xs]

theorem sumO_map (hom : ∀ a b, h (f a b) = f' (h a) (h b)) (items : List α) :
    sumO f' (items.map h) = (sumO f items).map h := by
  cases items with
  | nil => rfl
  | cons x xs => simp only [List.map_cons, sumO, Option.map_some, foldl_map_hom h f f' hom]

end MapNaturality

end CCV.Inline
