import CCV.Lemmas.TypedValue
/- `ShapedArray::serialize` followed by `visit_seq`: nested JSON lists parse back to the flat
   element list and the same shape -/
namespace CCV.TV
open CCV CCV.Bytes

/-! ### numel -/

theorem foldl_mul_acc (a : Nat) (s : List Nat) :
    List.foldl (· * ·) a s = a * List.foldl (· * ·) 1 s := by
  induction s generalizing a with
  | nil => simp
  | cons d s ih =>
    simp only [List.foldl_cons]
    rw [ih (a * d), ih (1 * d), Nat.one_mul, Nat.mul_assoc]

theorem numel_cons (d : Nat) (s : List Nat) : numel (d :: s) = d * numel s := by
  unfold numel
  simp only [List.foldl_cons]
  rw [foldl_mul_acc, Nat.one_mul]

theorem numel_singleton (d : Nat) : numel [d] = d := by
  rw [numel_cons, numel_nil, Nat.mul_one]

theorem numel_pos (s : List Nat) (h : ∀ d ∈ s, 0 < d) : 0 < numel s := by
  induction s with
  | nil => rw [numel_nil]; exact Nat.one_pos
  | cons d s ih =>
    rw [numel_cons]
    exact Nat.mul_pos (h d (by simp)) (ih (fun x hx => h x (by simp [hx])))

/-- what the serializer needs from `is_valid_shape`: non-empty, no zero dimension -/
theorem isValidShape_facts (s : List Nat) (h : isValidShape s = true) :
    s ≠ [] ∧ ∀ d ∈ s, 0 < d := by
  simp only [isValidShape, Bool.and_eq_true, Bool.not_eq_true', List.isEmpty_eq_false_iff,
    List.all_eq_true, decide_eq_true_eq] at h
  exact ⟨h.1.1, h.1.2⟩

/-! ### chunksExact -/

theorem length_chunksExact (k n : Nat) (xs : List Nat) : (chunksExact k n xs).length = n := by
  induction n generalizing xs with
  | zero => rfl
  | succ n ih => simp [chunksExact, ih]

theorem chunksExact_mem_length (k n : Nat) (xs : List Nat) (h : xs.length = n * k) :
    ∀ c ∈ chunksExact k n xs, c.length = k := by
  induction n generalizing xs with
  | zero => intro c hc; simp [chunksExact] at hc
  | succ n ih =>
    intro c hc
    simp only [chunksExact, List.mem_cons] at hc
    rw [Nat.succ_mul] at h
    rcases hc with rfl | hc
    · rw [List.length_take]; omega
    · exact ih (xs.drop k) (by rw [List.length_drop]; omega) c hc

theorem chunksExact_mem_sub (k n : Nat) (xs : List Nat) :
    ∀ c ∈ chunksExact k n xs, ∀ a ∈ c, a ∈ xs := by
  induction n generalizing xs with
  | zero => intro c hc; simp [chunksExact] at hc
  | succ n ih =>
    intro c hc a ha
    simp only [chunksExact, List.mem_cons] at hc
    rcases hc with rfl | hc
    · exact List.mem_of_mem_take ha
    · exact List.mem_of_mem_drop (ih (xs.drop k) c hc a ha)

theorem chunksExact_flatten (k n : Nat) (xs : List Nat) (h : xs.length = n * k) :
    (chunksExact k n xs).flatten = xs := by
  induction n generalizing xs with
  | zero =>
    have : xs = [] := List.eq_nil_of_length_eq_zero (by omega)
    subst this; rfl
  | succ n ih =>
    rw [Nat.succ_mul] at h
    simp only [chunksExact, List.flatten_cons]
    rw [ih (xs.drop k) (by rw [List.length_drop]; omega), List.take_append_drop]

/-! ### mapM / ofJL / allArr / finishSeq on mapped lists -/

theorem mapM_some_of_forall {α β : Type} (f : α → Option β) (h : α → β) (cs : List α)
    (hf : ∀ c ∈ cs, f c = some (h c)) : cs.mapM f = some (cs.map h) := by
  induction cs with
  | nil => rfl
  | cons c cs ih =>
    rw [List.mapM_cons, hf c (by simp), ih (fun x hx => hf x (by simp [hx]))]
    rfl

theorem ofJL_map {α : Type} (f : α → J) (h : α → SDM) (cs : List α)
    (hf : ∀ c ∈ cs, ofJ (f c) = some (h c)) : ofJL (cs.map f) = some (cs.map h) := by
  induction cs with
  | nil => simp [ofJL]
  | cons c cs ih =>
    simp only [List.map_cons, ofJL]
    rw [hf c (by simp), ih (fun x hx => hf x (by simp [hx]))]

theorem allArr_map {α : Type} (F : α → List Nat) (s : List Nat) (cs : List α) :
    allArr (cs.map fun c => SDM.arr (F c) s) = some (cs.flatMap F) := by
  induction cs with
  | nil => rfl
  | cons c cs ih => simp [allArr, ih]

theorem finishSeq_map {α : Type} (F : α → List Nat) (s : List Nat) (cs : List α) (hne : cs ≠ []) :
    finishSeq (cs.map fun c => SDM.arr (F c) s) = some (.arr (cs.flatMap F) (cs.length :: s)) := by
  cases cs with
  | nil => exact absurd rfl hne
  | cons c cs =>
    have h := allArr_map F s (c :: cs)
    simp only [List.map_cons] at h
    simp only [List.map_cons, finishSeq, h, Option.map_some, List.length_cons, List.length_map]

/-- reading a JSON list whose elements parse to arrays of one common shape -/
theorem ofJ_arr_map {α : Type} (f : α → J) (F : α → List Nat) (s : List Nat) (cs : List α)
    (hne : cs ≠ []) (hf : ∀ c ∈ cs, ofJ (f c) = some (.arr (F c) s)) :
    ofJ (.arr (cs.map f)) = some (.arr (cs.flatMap F) (cs.length :: s)) := by
  rw [ofJ, ofJL_map f (fun c => SDM.arr (F c) s) cs hf, Option.bind_some, finishSeq_map F s cs hne]

theorem flatMap_singleton_map (g : Nat → Nat) (r : List Nat) :
    r.flatMap (fun a => [g a]) = r.map g := by
  induction r with
  | nil => rfl
  | cons a r ih => simp [List.flatMap_cons, ih]

/-! ### the one-dimensional case -/

theorem shaped_back_1d (st : ST) (g : Nat → Nat) (d : Nat) (hd : 0 < d)
    (r : List Nat) (hl : r.length = d)
    (hg : ∀ a ∈ r, numToU128 (castTo st a) = some (g a)) :
    ∃ j, shapedJ st [d] r = some j ∧ ofJ j = some (.arr (r.map g) [d]) := by
  refine ⟨_, rfl, ?_⟩
  have hne : r ≠ [] := by intro h; subst h; simp at hl; omega
  rw [ofJ_arr_map (fun a => J.num (castTo st a)) (fun a => [g a]) [] r hne
    (fun a ha => by rw [ofJ, hg a ha]; rfl), flatMap_singleton_map, hl]

/-! ### the general case -/

theorem shaped_back_aux (st : ST) (g : Nat → Nat) (shape : List Nat) (hne : shape ≠ [])
    (hpos : ∀ d ∈ shape, 0 < d) (r : List Nat) (hl : r.length = numel shape)
    (hg : ∀ a ∈ r, numToU128 (castTo st a) = some (g a)) :
    ∃ j, shapedJ st shape r = some j ∧ ofJ j = some (.arr (r.map g) shape) := by
  induction shape generalizing r with
  | nil => exact absurd rfl hne
  | cons d s ih =>
    cases s with
    | nil =>
      rw [numel_singleton] at hl
      exact shaped_back_1d st g d (hpos d (by simp)) r hl hg
    | cons d' rest =>
      have hd : 0 < d := hpos d (by simp)
      have hpos' : ∀ x ∈ d' :: rest, 0 < x := fun x hx => hpos x (List.mem_cons_of_mem _ hx)
      have hm : 0 < numel (d' :: rest) := numel_pos _ hpos'
      rw [numel_cons] at hl
      generalize hmdef : numel (d' :: rest) = m at hl hm
      have hmod : r.length % d = 0 := by rw [hl]; exact Nat.mul_mod_right _ _
      have hdiv : r.length / d = m := by rw [hl]; exact Nat.mul_div_cancel_left _ hd
      have hlen : r.length = d * m := hl
      -- the chunks
      have hcl := chunksExact_mem_length m d r hlen
      have hcs := chunksExact_mem_sub m d r
      have hih : ∀ c ∈ chunksExact m d r,
          ∃ j, shapedJ st (d' :: rest) c = some j ∧ ofJ j = some (.arr (c.map g) (d' :: rest)) :=
        fun c hc => ih (by simp) hpos' c (by rw [hcl c hc, hmdef])
          (fun a ha => hg a (hcs c hc a ha))
      let h : List Nat → J := fun c => (shapedJ st (d' :: rest) c).getD .null
      have hsh : ∀ c ∈ chunksExact m d r, shapedJ st (d' :: rest) c = some (h c) := by
        intro c hc
        rcases hih c hc with ⟨j, hj, _⟩
        simp only [h, hj, Option.getD_some]
      have hof : ∀ c ∈ chunksExact m d r, ofJ (h c) = some (.arr (c.map g) (d' :: rest)) := by
        intro c hc
        rcases hih c hc with ⟨j, hj, hj2⟩
        simp only [h, hj, Option.getD_some, hj2]
      have hcne : chunksExact m d r ≠ [] := by
        intro e
        have := length_chunksExact m d r
        rw [e] at this; simp at this; omega
      refine ⟨.arr ((chunksExact m d r).map h), ?_, ?_⟩
      · rw [shapedJ, if_neg (by omega), if_neg (by simp [hmod]), hdiv, if_neg (by omega),
          mapM_some_of_forall _ h _ hsh]
        rfl
      · have hfl : List.flatMap (fun c => List.map g c) (chunksExact m d r) = r.map g := by
          rw [List.flatMap_def, ← List.map_flatten, chunksExact_flatten m d r hlen]
        rw [ofJ_arr_map h (fun c => c.map g) (d' :: rest) _ hcne hof, length_chunksExact, hfl]

/-- the nested JSON lists written by `ShapedArray::serialize` parse back (visit_seq) to the flat
    element list and the same shape -/
theorem shaped_back (st : ST) (g : Nat → Nat) (shape : List Nat) (hs : isValidShape shape = true)
    (r : List Nat) (hl : r.length = numel shape)
    (hg : ∀ a ∈ r, numToU128 (castTo st a) = some (g a)) :
    ∃ j, shapedJ st shape r = some j ∧ ofJ j = some (.arr (r.map g) shape) :=
  shaped_back_aux st g shape (isValidShape_facts shape hs).1 (isValidShape_facts shape hs).2 r hl hg

end CCV.TV
