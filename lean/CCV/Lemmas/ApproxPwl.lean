import CCV.Model.Approx
/-
  C20, piecewise-linear approximation: wrap arithmetic, the bottom-up tree lookup, the bucket
  selection of `pwlEval`, and the "bucket contains x" facts of `Truncate`.  Core only (no Mathlib).
  Everything is proved for all widths `s` and all depths `L` (induction, no sampling).
-/
namespace CCV.Approx

/-- `v` is a value denoted by some residue of the (signed / unsigned) type of width `s`. -/
def InRange (sg : Bool) (s : Nat) (v : Int) : Prop :=
  if sg = true then -(2:Int)^(s-1) ≤ v ∧ v < 2^(s-1) else 0 ≤ v ∧ v < 2^s

/-! ### 1. wrap -/

theorem two_pow_pred (s : Nat) (h : 1 ≤ s) : (2:Int) ^ s = 2 * 2 ^ (s - 1) := by
  obtain ⟨k, rfl⟩ : ∃ k, s = k + 1 := ⟨s - 1, by omega⟩
  rw [Int.pow_succ, Int.mul_comm]; rfl

theorem two_pow_pos' (n : Nat) : (0:Int) < 2 ^ n := Int.pow_pos (by decide)

theorem inRange_zero (sg : Bool) (s : Nat) : InRange sg s 0 := by
  have hP := two_pow_pos' (s - 1)
  have hM := two_pow_pos' s
  cases sg
  · simp only [InRange]; exact ⟨Int.le_refl 0, hM⟩
  · simp only [InRange, if_true]; omega

theorem wrap_of_inRange {sg : Bool} {s : Nat} {v : Int} (h : 1 ≤ s) (hv : InRange sg s v) :
    wrap sg s v = v := by
  have hM := two_pow_pred s h
  cases sg
  · simp only [InRange, Bool.false_eq_true, if_false] at hv
    simp only [wrap, Bool.false_eq_true, if_false]
    exact Int.emod_eq_of_lt hv.1 hv.2
  · simp only [InRange, if_true] at hv
    simp only [wrap, if_true]
    rw [Int.emod_eq_of_lt (by omega) (by omega)]; omega

theorem wrap_inRange {sg : Bool} {s : Nat} {v : Int} (h : 1 ≤ s) : InRange sg s (wrap sg s v) := by
  have hM := two_pow_pred s h
  have hP := two_pow_pos' s
  cases sg
  · simp only [InRange, wrap, Bool.false_eq_true, if_false]
    exact ⟨Int.emod_nonneg _ (by omega), Int.emod_lt_of_pos _ hP⟩
  · simp only [InRange, wrap, if_true]
    have h1 := Int.emod_nonneg (v + 2 ^ (s - 1)) (b := 2 ^ s) (by omega)
    have h2 := Int.emod_lt_of_pos (v + 2 ^ (s - 1)) hP
    omega

/-- wrapping an operand first does not change a wrapped sum. -/
theorem wrap_wrap_add (sg : Bool) (s : Nat) (a b : Int) :
    wrap sg s (wrap sg s a + b) = wrap sg s (a + b) := by
  cases sg
  · simp only [wrap, Bool.false_eq_true, if_false]
    exact Int.emod_add_emod _ _ _
  · simp only [wrap, if_true]
    have e : (a + 2 ^ (s - 1)) % 2 ^ s - 2 ^ (s - 1) + b + 2 ^ (s - 1)
        = (a + 2 ^ (s - 1)) % 2 ^ s + b := by omega
    rw [e, Int.emod_add_emod]
    have e2 : a + 2 ^ (s - 1) + b = a + b + 2 ^ (s - 1) := by omega
    rw [e2]

theorem wrap_add_wrap (sg : Bool) (s : Nat) (a b : Int) :
    wrap sg s (a + wrap sg s b) = wrap sg s (a + b) := by
  rw [Int.add_comm, wrap_wrap_add, Int.add_comm]

theorem wrap_wrap (sg : Bool) (s : Nat) (a : Int) : wrap sg s (wrap sg s a) = wrap sg s a := by
  have := wrap_wrap_add sg s a 0
  simpa using this

theorem add_inRange {sg : Bool} {s : Nat} (a b : Int) (h : 1 ≤ s) : InRange sg s (add sg s a b) :=
  wrap_inRange h

/-- `(o - e) + e = o`: the odd entry is recovered exactly when the selection bit is set. -/
theorem add_sub_cancel_wrap {sg : Bool} {s : Nat} {o : Int} (e : Int) (h : 1 ≤ s)
    (ho : InRange sg s o) : add sg s (sub sg s o e) e = o := by
  simp only [add, sub]
  rw [wrap_wrap_add]
  have : o - e + e = o := by omega
  rw [this, wrap_of_inRange h ho]

theorem add_zero_left {sg : Bool} {s : Nat} {e : Int} (h : 1 ≤ s) (he : InRange sg s e) :
    add sg s 0 e = e := by
  simp only [add, Int.zero_add]; exact wrap_of_inRange h he

theorem add_zero_right {sg : Bool} {s : Nat} {e : Int} (h : 1 ≤ s) (he : InRange sg s e) :
    add sg s e 0 = e := by
  simp only [add, Int.add_zero]; exact wrap_of_inRange h he

example : wrap true 8 200 = -56 := by decide
example : add true 8 (sub true 8 (-128) 127) 127 = -128 := by decide
example : add false 8 (sub false 8 3 250) 250 = 3 := by decide

/-! ### 2. tree lookup -/

theorem treeLevel_inRange {sg : Bool} {s : Nat} {bit : Bool} (h : 1 ≤ s) :
    ∀ (vals : List Int) (v : Int), v ∈ treeLevel sg s bit vals → InRange sg s v
  | e :: o :: rest, v, hv => by
    simp only [treeLevel, List.mem_cons] at hv
    rcases hv with rfl | hv
    · exact wrap_inRange h
    · exact treeLevel_inRange h rest v hv
  | [], v, hv => by simp [treeLevel] at hv
  | [_], v, hv => by simp [treeLevel] at hv

/-- one level: `2m` in-range entries become `m`, entry `k` is entry `2k + bit` of the input. -/
theorem treeLevel_spec {sg : Bool} {s : Nat} (bit : Bool) (h : 1 ≤ s) :
    ∀ (m : Nat) (vals : List Int), vals.length = 2 * m → (∀ v ∈ vals, InRange sg s v) →
      (treeLevel sg s bit vals).length = m ∧
      ∀ k, k < m → (treeLevel sg s bit vals).getD k 0
        = vals.getD (2 * k + (if bit = true then 1 else 0)) 0
  | 0, vals, hl, _ => by
    have : vals = [] := List.eq_nil_of_length_eq_zero (by omega)
    subst this
    exact ⟨rfl, fun k hk => absurd hk (Nat.not_lt_zero k)⟩
  | m + 1, [], hl, _ => by simp at hl
  | m + 1, [_], hl, _ => by simp at hl; omega
  | m + 1, e :: o :: rest, hl, hr => by
    have ih := treeLevel_spec bit h m rest (by simp at hl; omega)
      (fun v hv => hr v (by simp [hv]))
    have he : InRange sg s e := hr e (by simp)
    have ho : InRange sg s o := hr o (by simp)
    refine ⟨by simp [treeLevel, ih.1], ?_⟩
    intro k hk
    cases k with
    | zero =>
      cases bit
      · simp [treeLevel, add_zero_left h he]
      · simp [treeLevel, add_sub_cancel_wrap e h ho]
    | succ k =>
      have e2 : 2 * (k + 1) + (if bit = true then 1 else 0)
          = (2 * k + (if bit = true then 1 else 0)) + 1 + 1 := by omega
      rw [e2]
      simp only [treeLevel, List.getD_cons_succ]
      exact ih.2 k (by omega)

theorem treeRetrieve_eq_aux {sg : Bool} {s : Nat} (h : 1 ≤ s) :
    ∀ (L idx : Nat) (vals : List Int), vals.length = 2 ^ L → (∀ v ∈ vals, InRange sg s v) →
      treeRetrieve sg s idx L vals = vals.getD (idx % 2 ^ L) 0
  | 0, idx, vals, hl, _ => by
    match vals, hl with
    | [v], _ => simp [treeRetrieve, Nat.mod_one]
  | L + 1, idx, vals, hl, hr => by
    have hl2 : vals.length = 2 * 2 ^ L := by rw [hl, Nat.pow_succ]; omega
    obtain ⟨h1, h2⟩ := treeLevel_spec (idx % 2 == 1) h (2 ^ L) vals hl2 hr
    simp only [treeRetrieve]
    rw [treeRetrieve_eq_aux h L (idx / 2) _ h1 (treeLevel_inRange h _),
      h2 _ (Nat.mod_lt _ (Nat.two_pow_pos L))]
    congr 1
    rw [Nat.pow_succ, Nat.mul_comm (2 ^ L) 2, Nat.mod_mul]
    have : idx % 2 = 0 ∨ idx % 2 = 1 := by omega
    rcases this with h0 | h0 <;> simp [h0] <;> omega

/-- the bottom-up tree lookup returns table entry `idx mod 2^L`, for every depth `L`. -/
theorem treeRetrieve_eq {sg : Bool} {s idx L : Nat} {vals : List Int} (h : 1 ≤ s)
    (hl : vals.length = 2 ^ L) (hr : ∀ v ∈ vals, InRange sg s v) :
    treeRetrieve sg s idx L vals = vals.getD (idx % 2 ^ L) 0 :=
  treeRetrieve_eq_aux h L idx vals hl hr

example : treeRetrieve true 64 5 3 [10, 11, 12, 13, 14, 15, 16, 17] = 15 := by decide
example : treeRetrieve true 8 13 3 [-128, 127, -1, 0, 100, -100, 5, 6] = -100 := by decide

/-! ### 4. Truncate: which arguments land in bucket `j` -/

theorem trunc_eq_iff_of_nonneg {y D : Int} (j : Int) (hD : 0 < D) (hy : 0 ≤ y) :
    trunc y D = j ↔ j * D ≤ y ∧ y < (j + 1) * D := by
  unfold trunc
  rw [Int.tdiv_eq_ediv_of_nonneg hy, ← Int.le_ediv_iff_mul_le hD, ← Int.ediv_lt_iff_lt_mul hD]
  omega

/-- toward-zero rounding: arguments in `(-D, 0)` go to bucket `0`, not `-1`. -/
theorem trunc_eq_zero_of_small_neg {y D : Int} (h1 : -D < y) (h2 : y < 0) : trunc y D = 0 := by
  unfold trunc
  have e : y = -(-y) := by omega
  rw [e, Int.neg_tdiv, Int.tdiv_eq_ediv_of_nonneg (by omega),
    Int.ediv_eq_zero_of_lt (by omega) (by omega)]
  rfl

example : trunc 37 10 = 3 ↔ 3 * 10 ≤ (37:Int) ∧ (37:Int) < (3 + 1) * 10 :=
  trunc_eq_iff_of_nonneg 3 (by decide) (by decide)
example : trunc (-7) 10 = 0 := trunc_eq_zero_of_small_neg (by decide) (by decide)
example : trunc (-7) 10 = 0 := by decide

/-! ### 3. bucket selection of `pwlEval` -/

theorem headD_eq_getD (l : List Int) : l.headD 0 = l.getD 0 0 := by cases l <;> rfl

theorem getD_inRange {sg : Bool} {s : Nat} {l : List Int} (hr : ∀ v ∈ l, InRange sg s v)
    (k : Nat) : InRange sg s (l.getD k 0) := by
  rw [List.getD_eq_getElem?_getD]
  by_cases hk : k < l.length
  · rw [List.getElem?_eq_getElem hk]; exact hr _ (List.getElem_mem hk)
  · rw [List.getElem?_eq_none (by omega)]; exact inRange_zero sg s

theorem mem_zipWith_exists {f : Int → Int → Int} :
    ∀ (as bs : List Int) (v : Int), v ∈ List.zipWith f as bs → ∃ a b, v = f a b
  | [], _, v, hv => by simp at hv
  | _ :: _, [], v, hv => by simp at hv
  | a :: as, b :: bs, v, hv => by
    simp only [List.zipWith_cons_cons, List.mem_cons] at hv
    rcases hv with rfl | hv
    · exact ⟨a, b, rfl⟩
    · exact mem_zipWith_exists as bs v hv

theorem pwlVals_inRange {sg : Bool} {s : Nat} (t : Pwl) (x : Int) (h : 1 ≤ s) :
    ∀ v ∈ pwlVals sg s t x, InRange sg s v := by
  intro v hv
  obtain ⟨a, b, rfl⟩ := mem_zipWith_exists _ _ v hv
  exact wrap_inRange h

theorem pwlVals_length (sg : Bool) (s : Nat) (t : Pwl) (x : Int)
    (hb : t.betas.length = t.alphas.length) : (pwlVals sg s t x).length = t.alphas.length := by
  simp [pwlVals, List.length_zipWith, hb]

theorem getD_take_drop_one (vals : List Int) {k n : Nat} (hk : k < n) :
    ((vals.drop 1).take n).getD k 0 = vals.getD (k + 1) 0 := by
  simp [List.getD_eq_getElem?_getD, hk]

theorem natCast_two_pow (n : Nat) : ((2 ^ n : Nat) : Int) = (2:Int) ^ n := by
  rw [Int.natCast_pow]; rfl

/-- the stored residue of a signed value: `sc` if non-negative, else `sc + 2^s`. -/
theorem residue_cast {s : Nat} {sc : Int} (h : 1 ≤ s) (hr : InRange true s sc) :
    (residue s sc : Int) = if 0 ≤ sc then sc else sc + 2 ^ s := by
  have hM := two_pow_pred s h
  have hP := two_pow_pos' (s - 1)
  simp only [InRange, if_true] at hr
  unfold residue
  rw [Int.toNat_of_nonneg (Int.emod_nonneg _ (by omega))]
  split
  · exact Int.emod_eq_of_lt (by omega) (by omega)
  · rw [← Int.add_emod_right]; exact Int.emod_eq_of_lt (by omega) (by omega)

theorem pwlIsLeft_iff {s : Nat} {sc : Int} (h : 1 ≤ s) (hr : InRange true s sc) :
    pwlIsLeft s sc = true ↔ sc < 0 := by
  have hM := two_pow_pred s h
  have hc := residue_cast h hr
  simp only [InRange, if_true] at hr
  unfold pwlIsLeft
  rw [decide_eq_true_iff, ← Int.ofNat_le, natCast_two_pow, hc]
  split <;> omega

theorem pwlIsRight_iff {s : Nat} {sc : Int} (L : Nat) (h : 1 ≤ s) (hr : InRange true s sc) :
    pwlIsRight s L sc = true ↔ 2 ^ L ≤ sc := by
  have hL := two_pow_pos' L
  have hl := pwlIsLeft_iff h hr
  have hc := residue_cast h hr
  unfold pwlIsRight
  by_cases hneg : sc < 0
  · have : pwlIsLeft s sc = true := hl.2 hneg
    simp only [this, Bool.not_true, Bool.and_false, Bool.false_eq_true, false_iff]
    omega
  · have hf : pwlIsLeft s sc = false := by
      cases hb : pwlIsLeft s sc
      · rfl
      · exact absurd (hl.1 hb) hneg
    simp only [InRange, if_true] at hr
    rw [if_pos (by omega)] at hc
    have hlt : residue s sc < 2 ^ (s - 1) := by
      rw [← Int.ofNat_lt, natCast_two_pow, hc]; exact hr.2
    rw [hf, Nat.mod_eq_of_lt hlt]
    simp only [Bool.not_false, Bool.and_true, decide_eq_true_iff, ne_eq, Nat.div_eq_zero_iff,
      not_or, Nat.not_lt]
    have hiff : (2:Int) ^ L ≤ sc ↔ (2:Nat) ^ L ≤ residue s sc := by
      rw [← Int.ofNat_le, natCast_two_pow, hc]
    rw [hiff]
    have : (2:Nat) ^ L ≠ 0 := Nat.ne_of_gt (Nat.two_pow_pos L)
    exact ⟨fun h => h.2, fun h => ⟨this, h⟩⟩

/-- index of the table entry selected for scaled argument `sc`: `0` = left outside bucket,
    `2^L + 1` = right outside bucket, `1 + sc` inside. -/
def pwlBucket (L : Nat) (sc : Int) : Nat :=
  if sc < 0 then 0 else if 2 ^ L ≤ sc then 2 ^ L + 1 else 1 + sc.toNat

/-- **selection theorem**: the masked sum `main·isMain + left·isLeft + right·isRight` is the
    single table value `wrap (alpha_j * x + beta_j)` of the bucket `j = pwlBucket L sc`. -/
theorem pwlEval_eq {s : Nat} {t : Pwl} {x : Int} (hs : 2 ≤ s)
    (ha : t.alphas.length = 2 ^ t.logBuckets + 2) (hb : t.betas.length = t.alphas.length)
    (_hL : t.logBuckets + 1 < s) (hsc : InRange true s (pwlScaled true s t x)) :
    pwlEval true s t x
      = trunc ((pwlVals true s t x).getD (pwlBucket t.logBuckets (pwlScaled true s t x)) 0)
          (2 ^ t.precision) := by
  have h1 : 1 ≤ s := by omega
  have hlen := pwlVals_length true s t x hb
  have hin := pwlVals_inRange (sg := true) t x h1
  have hleft := pwlIsLeft_iff h1 hsc
  have hright := pwlIsRight_iff t.logBuckets h1 hsc
  have hc := residue_cast h1 hsc
  have hL := two_pow_pos' t.logBuckets
  unfold pwlEval
  simp only []
  generalize hV : pwlVals true s t x = V at *
  generalize hS : pwlScaled true s t x = sc at *
  congr 1
  by_cases hneg : sc < 0
  · -- left outside bucket
    have e1 : pwlIsLeft s sc = true := hleft.2 hneg
    have e2 : pwlIsRight s t.logBuckets sc = false := by
      cases hb : pwlIsRight s t.logBuckets sc
      · rfl
      · have := hright.1 hb; omega
    have e3 : pwlBucket t.logBuckets sc = 0 := by simp [pwlBucket, hneg]
    simp only [e1, e2, e3, Bool.not_true, Bool.not_false, Bool.false_and, if_true,
      Bool.false_eq_true, if_false]
    rw [headD_eq_getD, add_zero_left h1 (getD_inRange hin 0), add_zero_right h1 (getD_inRange hin 0)]
  · have e1 : pwlIsLeft s sc = false := by
      cases hb : pwlIsLeft s sc
      · rfl
      · exact absurd (hleft.1 hb) hneg
    by_cases hbig : 2 ^ t.logBuckets ≤ sc
    · -- right outside bucket
      have e2 : pwlIsRight s t.logBuckets sc = true := hright.2 hbig
      have e3 : pwlBucket t.logBuckets sc = 2 ^ t.logBuckets + 1 := by
        simp [pwlBucket, hneg, hbig]
      have e4 : t.alphas.length - 1 = 2 ^ t.logBuckets + 1 := by omega
      simp only [e1, e2, e3, e4, Bool.not_true, Bool.not_false, Bool.and_false, if_true,
        Bool.false_eq_true, if_false]
      rw [add_zero_left h1 (inRange_zero true s), add_zero_left h1 (getD_inRange hin _)]
    · -- main bucket `1 + sc`
      have e2 : pwlIsRight s t.logBuckets sc = false := by
        cases hb : pwlIsRight s t.logBuckets sc
        · rfl
        · exact absurd (hright.1 hb) hbig
      have e3 : pwlBucket t.logBuckets sc = 1 + sc.toNat := by
        simp [pwlBucket, hneg, hbig]
      rw [if_pos (by omega)] at hc
      have hres : residue s sc = sc.toNat := by omega
      have hlt : sc.toNat < 2 ^ t.logBuckets := by
        rw [← Int.ofNat_lt, natCast_two_pow]; omega
      have hinT : ∀ v ∈ (V.drop 1).take (2 ^ t.logBuckets), InRange true s v :=
        fun v hv => hin v (List.mem_of_mem_drop (List.mem_of_mem_take hv))
      have hlenT : ((V.drop 1).take (2 ^ t.logBuckets)).length = 2 ^ t.logBuckets := by
        simp [List.length_take, hlen, ha]
      simp only [e1, e2, e3, Bool.not_false, Bool.and_true, if_true, Bool.false_eq_true, if_false]
      rw [treeRetrieve_eq h1 hlenT hinT, hres, Nat.mod_mod, Nat.mod_eq_of_lt hlt,
        getD_take_drop_one V hlt, Nat.add_comm 1]
      rw [add_zero_right h1 (getD_inRange hin _), add_zero_right h1 (getD_inRange hin _)]

/-- the scaled argument is a value of the type whenever the divisor is positive. -/
theorem pwlScaled_inRange {s : Nat} (t : Pwl) (x : Int) (h : 1 ≤ s) (hd : 0 < t.divisor) :
    InRange true s (pwlScaled true s t x) := by
  have hw : InRange true s (sub true s x t.leftFp) := wrap_inRange h
  unfold pwlScaled trunc
  generalize sub true s x t.leftFp = w at hw
  simp only [InRange, if_true] at hw ⊢
  have hP := two_pow_pos' (s - 1)
  by_cases hn : 0 ≤ w
  · rw [Int.tdiv_eq_ediv_of_nonneg hn]
    have := Int.ediv_le_self t.divisor hn
    have := Int.ediv_nonneg hn (Int.le_of_lt hd)
    omega
  · have e : w = -(-w) := by omega
    rw [e, Int.neg_tdiv, Int.tdiv_eq_ediv_of_nonneg (by omega)]
    have := Int.ediv_le_self t.divisor (a := -w) (by omega)
    have := Int.ediv_nonneg (a := -w) (by omega) (Int.le_of_lt hd)
    omega

/-- a small table: `L = 2` (4 main buckets + 2 outside), width 16, `x ↦ 3x+1 | 2x | x+5 | 7 | -x | 9`. -/
def exPwl : Pwl :=
  { logBuckets := 2, precision := 1, leftFp := -20, divisor := 10,
    alphas := [3, 2, 1, 0, -1, 0], betas := [1, 0, 5, 7, 0, 9] }

example : exPwl.alphas.length = 2 ^ exPwl.logBuckets + 2 ∧ exPwl.betas.length = exPwl.alphas.length
    ∧ exPwl.logBuckets + 1 < 16 ∧ 0 < exPwl.divisor := by decide
-- x = -45: scaled = trunc (-25) 10 = -2 < 0, left outside bucket 0: (3·(-45)+1) / 2 = -67
example : pwlEval true 16 exPwl (-45) = -67 ∧ pwlBucket 2 (pwlScaled true 16 exPwl (-45)) = 0 := by
  decide
-- x = -25: scaled = trunc (-5) 10 = 0 (toward zero), FIRST MAIN bucket 1: (2·(-25)) / 2 = -25
example : pwlEval true 16 exPwl (-25) = -25 ∧ pwlBucket 2 (pwlScaled true 16 exPwl (-25)) = 1 := by
  decide
-- x = 5: scaled = 2, main bucket 3: 7 / 2 = 3
example : pwlEval true 16 exPwl 5 = 3 ∧ pwlBucket 2 (pwlScaled true 16 exPwl 5) = 3 := by decide
-- x = 100: scaled = 12 ≥ 4, right outside bucket 5: 9 / 2 = 4
example : pwlEval true 16 exPwl 100 = 4 ∧ pwlBucket 2 (pwlScaled true 16 exPwl 100) = 5 := by
  decide
example : pwlEval true 16 exPwl 5
    = trunc ((pwlVals true 16 exPwl 5).getD (pwlBucket 2 (pwlScaled true 16 exPwl 5)) 0) (2 ^ 1) :=
  pwlEval_eq (by decide) (by decide) (by decide) (by decide)
    (pwlScaled_inRange exPwl 5 (by decide) (by decide))

end CCV.Approx
