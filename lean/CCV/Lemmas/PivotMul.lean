import Mathlib.Algebra.Group.Basic
/-
  The mask discipline in an arbitrary (NOT necessarily commutative) group — e.g. permutations under
  composition: an opened value is `b · t` where `t` is a fresh uniform group element (the shared random
  permutation π of a shuffle) and `b` (the permutation being hidden) is computed from the secrets and
  from OLDER masks in any way.

  Messages are listed LAST FIRST.  Each message has a pivot that enters it by right multiplication
  (`RShift`: `f x ρ = f x (ρ with the pivot set to 1) · ρ pivot`), and no EARLIER message depends on
  that pivot.  `exists_sim`: for any two secret vectors there are mutually inverse maps of tapes that
  align all messages and move only pivot coordinates.
-/
namespace CCV.PivotMul
variable {G X : Type}

/-- update one coordinate of a tape -/
def upd (ρ : Nat → G) (v : Nat) (a : G) : Nat → G := fun w => if w = v then a else ρ w

@[simp] theorem upd_same (ρ : Nat → G) (v : Nat) (a : G) : upd ρ v a v = a := by simp [upd]

theorem upd_other (ρ : Nat → G) {v w : Nat} (a : G) (h : w ≠ v) : upd ρ v a w = ρ w := by
  simp [upd, h]

theorem upd_comm (ρ : Nat → G) {u v : Nat} (a b : G) (h : u ≠ v) :
    upd (upd ρ u a) v b = upd (upd ρ v b) u a := by
  funext w
  by_cases h1 : w = v
  · subst h1; simp [upd, Ne.symm h]
  · by_cases h2 : w = u
    · subst h2; simp [upd, h]
    · simp [upd, h1, h2]

@[simp] theorem upd_upd (ρ : Nat → G) (v : Nat) (a b : G) : upd (upd ρ v a) v b = upd ρ v b := by
  funext w; by_cases h : w = v <;> simp [upd, h]

@[simp] theorem upd_self (ρ : Nat → G) (v : Nat) : upd ρ v (ρ v) = ρ := by
  funext w; by_cases h : w = v <;> simp [upd, h]

structure Msg (X G : Type) where
  f : X → (Nat → G) → G
  piv : Nat

/-- the message does not depend on coordinate `u` of the tape -/
def IndepOf (m : Msg X G) (u : Nat) : Prop := ∀ x ρ a, m.f x (upd ρ u a) = m.f x ρ

variable [Group G]

/-- the pivot enters the message by right multiplication -/
def RShift (m : Msg X G) : Prop := ∀ x ρ, m.f x ρ = m.f x (upd ρ m.piv 1) * ρ m.piv

/-- the discipline, messages listed LAST FIRST -/
inductive Disc : List (Msg X G) → Prop
  | nil : Disc []
  | cons (m : Msg X G) (rest : List (Msg X G)) :
      RShift m → (∀ m' ∈ rest, IndepOf m' m.piv ∧ m'.piv ≠ m.piv) → Disc rest → Disc (m :: rest)

structure Sim (msgs : List (Msg X G)) (x x' : X) (σ τ : (Nat → G) → (Nat → G)) : Prop where
  left : ∀ ρ, τ (σ ρ) = ρ
  right : ∀ ρ, σ (τ ρ) = ρ
  align : ∀ ρ, ∀ m ∈ msgs, m.f x ρ = m.f x' (σ ρ)
  fixσ : ∀ ρ v, (∀ m ∈ msgs, v ≠ m.piv) → σ ρ v = ρ v
  fixτ : ∀ ρ v, (∀ m ∈ msgs, v ≠ m.piv) → τ ρ v = ρ v
  commσ : ∀ u, (∀ m ∈ msgs, u ≠ m.piv ∧ IndepOf m u) → ∀ ρ a, σ (upd ρ u a) = upd (σ ρ) u a
  commτ : ∀ u, (∀ m ∈ msgs, u ≠ m.piv ∧ IndepOf m u) → ∀ ρ a, τ (upd ρ u a) = upd (τ ρ) u a

theorem exists_sim : ∀ (msgs : List (Msg X G)), Disc msgs → ∀ x x' : X,
    ∃ σ τ : (Nat → G) → (Nat → G), Sim msgs x x' σ τ
  | [], _, x, x' =>
    ⟨id, id, ⟨fun _ => rfl, fun _ => rfl, fun _ m hm => absurd hm (by simp), fun _ _ _ => rfl,
      fun _ _ _ => rfl, fun _ _ _ _ => rfl, fun _ _ _ _ => rfl⟩⟩
  | m :: rest, .cons _ _ hs hind hrest, x, x' => by
    obtain ⟨σ0, τ0, S⟩ := exists_sim rest hrest x x'
    have hp : ∀ m' ∈ rest, m.piv ≠ m'.piv ∧ IndepOf m' m.piv :=
      fun m' hm' => ⟨fun h => (hind m' hm').2 h.symm, (hind m' hm').1⟩
    have hpne : ∀ m' ∈ rest, m.piv ≠ m'.piv := fun m' hm' => (hp m' hm').1
    -- the left factor that turns the x'-message into the x-message; blind to the pivot coordinate
    let E : (Nat → G) → (Nat → G) → G := fun r t =>
      (m.f x' (upd t m.piv 1))⁻¹ * m.f x (upd r m.piv 1)
    have hE1 : ∀ r t a, E (upd r m.piv a) t = E r t := by
      intro r t a; show _ * m.f x (upd (upd r m.piv a) m.piv 1) = _; rw [upd_upd]
    have hE2 : ∀ r t a, E r (upd t m.piv a) = E r t := by
      intro r t a; show (m.f x' (upd (upd t m.piv a) m.piv 1))⁻¹ * _ = _; rw [upd_upd]
    let σ : (Nat → G) → (Nat → G) := fun ρ => upd (σ0 ρ) m.piv (E ρ (σ0 ρ) * ρ m.piv)
    let τ : (Nat → G) → (Nat → G) := fun ρ' => upd (τ0 ρ') m.piv ((E (τ0 ρ') ρ')⁻¹ * ρ' m.piv)
    have hσ0p : ∀ ρ, σ0 ρ m.piv = ρ m.piv := fun ρ => S.fixσ ρ _ hpne
    have hτ0p : ∀ ρ, τ0 ρ m.piv = ρ m.piv := fun ρ => S.fixτ ρ _ hpne
    have hcσ : ∀ ρ a, σ0 (upd ρ m.piv a) = upd (σ0 ρ) m.piv a := S.commσ _ hp
    have hcτ : ∀ ρ a, τ0 (upd ρ m.piv a) = upd (τ0 ρ) m.piv a := S.commτ _ hp
    refine ⟨σ, τ, ⟨?_, ?_, ?_, ?_, ?_, ?_, ?_⟩⟩
    · -- left inverse
      intro ρ
      show upd (τ0 (σ ρ)) m.piv ((E (τ0 (σ ρ)) (σ ρ))⁻¹ * (σ ρ) m.piv) = ρ
      have e1 : τ0 (σ ρ) = upd ρ m.piv (E ρ (σ0 ρ) * ρ m.piv) := by
        show τ0 (upd (σ0 ρ) m.piv _) = _
        rw [hcτ, S.left]
      have e2 : E (τ0 (σ ρ)) (σ ρ) = E ρ (σ0 ρ) := by
        rw [e1, hE1]; show E ρ (upd (σ0 ρ) m.piv _) = _; rw [hE2]
      have e3 : (σ ρ) m.piv = E ρ (σ0 ρ) * ρ m.piv := by
        show upd (σ0 ρ) m.piv _ m.piv = _; rw [upd_same]
      rw [e2, e3, e1, upd_upd, inv_mul_cancel_left, upd_self]
    · -- right inverse
      intro ρ'
      show upd (σ0 (τ ρ')) m.piv (E (τ ρ') (σ0 (τ ρ')) * (τ ρ') m.piv) = ρ'
      have e1 : σ0 (τ ρ') = upd ρ' m.piv ((E (τ0 ρ') ρ')⁻¹ * ρ' m.piv) := by
        show σ0 (upd (τ0 ρ') m.piv _) = _
        rw [hcσ, S.right]
      have e2 : E (τ ρ') (σ0 (τ ρ')) = E (τ0 ρ') ρ' := by
        rw [e1, hE2]; show E (upd (τ0 ρ') m.piv _) ρ' = _; rw [hE1]
      have e3 : (τ ρ') m.piv = (E (τ0 ρ') ρ')⁻¹ * ρ' m.piv := by
        show upd (τ0 ρ') m.piv _ m.piv = _; rw [upd_same]
      rw [e2, e3, e1, upd_upd, mul_inv_cancel_left, upd_self]
    · -- alignment
      intro ρ m' hm'
      simp only [List.mem_cons] at hm'
      rcases hm' with rfl | hm'
      · show m'.f x ρ = m'.f x' (upd (σ0 ρ) m'.piv (E ρ (σ0 ρ) * ρ m'.piv))
        rw [hs x' (upd (σ0 ρ) m'.piv _), upd_upd, upd_same, hs x ρ]
        show _ = m'.f x' (upd (σ0 ρ) m'.piv 1) *
          ((m'.f x' (upd (σ0 ρ) m'.piv 1))⁻¹ * m'.f x (upd ρ m'.piv 1) * ρ m'.piv)
        rw [mul_assoc, mul_inv_cancel_left]
      · show m'.f x ρ = m'.f x' (upd (σ0 ρ) m.piv _)
        rw [(hind m' hm').1 x' (σ0 ρ), S.align ρ m' hm']
    · -- σ fixes non-pivots
      intro ρ v hv
      have hvp : v ≠ m.piv := hv m (by simp)
      show upd (σ0 ρ) m.piv _ v = ρ v
      rw [upd_other _ _ hvp]
      exact S.fixσ ρ v (fun m' hm' => hv m' (by simp [hm']))
    · -- τ fixes non-pivots
      intro ρ' v hv
      have hvp : v ≠ m.piv := hv m (by simp)
      show upd (τ0 ρ') m.piv _ v = ρ' v
      rw [upd_other _ _ hvp]
      exact S.fixτ ρ' v (fun m' hm' => hv m' (by simp [hm']))
    · -- σ commutes with independent coordinates
      intro u hu ρ a
      have hup : u ≠ m.piv := (hu m (by simp)).1
      have hum : IndepOf m u := (hu m (by simp)).2
      have hu0 : ∀ m' ∈ rest, u ≠ m'.piv ∧ IndepOf m' u := fun m' hm' => hu m' (by simp [hm'])
      show upd (σ0 (upd ρ u a)) m.piv (E (upd ρ u a) (σ0 (upd ρ u a)) * (upd ρ u a) m.piv)
        = upd (upd (σ0 ρ) m.piv (E ρ (σ0 ρ) * ρ m.piv)) u a
      rw [S.commσ u hu0 ρ a]
      have d : E (upd ρ u a) (upd (σ0 ρ) u a) = E ρ (σ0 ρ) := by
        show (m.f x' (upd (upd (σ0 ρ) u a) m.piv 1))⁻¹ * m.f x (upd (upd ρ u a) m.piv 1)
          = (m.f x' (upd (σ0 ρ) m.piv 1))⁻¹ * m.f x (upd ρ m.piv 1)
        rw [upd_comm (σ0 ρ) a 1 hup, upd_comm ρ a 1 hup, hum x' _ a, hum x _ a]
      rw [d, upd_other _ _ (Ne.symm hup), upd_comm _ _ _ hup]
    · -- τ commutes with independent coordinates
      intro u hu ρ' a
      have hup : u ≠ m.piv := (hu m (by simp)).1
      have hum : IndepOf m u := (hu m (by simp)).2
      have hu0 : ∀ m' ∈ rest, u ≠ m'.piv ∧ IndepOf m' u := fun m' hm' => hu m' (by simp [hm'])
      show upd (τ0 (upd ρ' u a)) m.piv ((E (τ0 (upd ρ' u a)) (upd ρ' u a))⁻¹ * (upd ρ' u a) m.piv)
        = upd (upd (τ0 ρ') m.piv ((E (τ0 ρ') ρ')⁻¹ * ρ' m.piv)) u a
      rw [S.commτ u hu0 ρ' a]
      have d : E (upd (τ0 ρ') u a) (upd ρ' u a) = E (τ0 ρ') ρ' := by
        show (m.f x' (upd (upd ρ' u a) m.piv 1))⁻¹ * m.f x (upd (upd (τ0 ρ') u a) m.piv 1)
          = (m.f x' (upd ρ' m.piv 1))⁻¹ * m.f x (upd (τ0 ρ') m.piv 1)
        rw [upd_comm ρ' a 1 hup, upd_comm (τ0 ρ') a 1 hup, hum x' _ a, hum x _ a]
      rw [d, upd_other _ _ (Ne.symm hup), upd_comm _ _ _ hup]

end CCV.PivotMul
