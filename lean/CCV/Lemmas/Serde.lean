import CCV.Model.Serde
/-
  Definitions (well-formedness, deep equality, canonical form) and helper lemmas for C12.
-/
namespace CCV.Serde

/-- keys of a table -/
def keys {K V : Type} (t : List (K × V)) : List K := t.map (·.1)

/-- node `n` at position `k` of graph number `gi` of `gs` respects the builder's checks -/
def NodeWF (gs : List Graph) (gi k : Nat) (n : Node) : Prop :=
  (∀ d ∈ n.deps, d < k) ∧
  (∀ h ∈ n.gdeps, h < gi ∧ ∃ g, gs[h]? = some g ∧ g.finalized = true)

def GraphWF (gs : List Graph) (gi : Nat) (g : Graph) : Prop :=
  (∀ k n, g.nodes[k]? = some n → NodeWF gs gi k n) ∧
  (∀ o, g.output = some o → o < g.nodes.length) ∧
  (g.finalized = true → g.output ≠ none)

/-- The invariant the builder API maintains (create_graph / add_node / set_output_node / finalize /
    set_main_graph / set_*_name / add_*_annotation / Context::finalize), on the abstract state. -/
structure WF (c : Ctx) : Prop where
  graphs : ∀ gi g, c.graphs[gi]? = some g → GraphWF c.graphs gi g
  main : ∀ m, c.main = some m → ∃ g, c.graphs[m]? = some g ∧ g.finalized = true
  fin : c.finalized = true → c.main ≠ none ∧ ∀ g ∈ c.graphs, g.finalized = true
  gnKeys : (keys c.graphNames).Nodup
  gnRange : ∀ e ∈ c.graphNames, e.1 < c.graphs.length
  gnVals : (c.graphNames.map (·.2)).Nodup
  nnKeys : (keys c.nodeNames).Nodup
  nnRange : ∀ e ∈ c.nodeNames, nodeInRange c.graphs e.1 = true
  nnVals : (c.nodeNames.map (fun e => (e.1.1, e.2))).Nodup
  gaKeys : (keys c.graphAnns).Nodup
  gaRange : ∀ e ∈ c.graphAnns, e.1 < c.graphs.length
  gaNonempty : ∀ e ∈ c.graphAnns, e.2 ≠ []
  naKeys : (keys c.nodeAnns).Nodup
  naRange : ∀ e ∈ c.nodeAnns, nodeInRange c.graphs e.1 = true
  naNonempty : ∀ e ∈ c.nodeAnns, e.2 ≠ []

/-- `contexts_deep_equal` (graphs.rs:4787): flags, graphs node by node, main graph, and the four
    tables compared as hash maps (= as association lists up to order) -/
structure DeepEq (c d : Ctx) : Prop where
  finalized : c.finalized = d.finalized
  graphs : c.graphs = d.graphs
  main : c.main = d.main
  graphNames : c.graphNames.Perm d.graphNames
  nodeNames : c.nodeNames.Perm d.nodeNames
  graphAnns : c.graphAnns.Perm d.graphAnns
  nodeAnns : c.nodeAnns.Perm d.nodeAnns

/-- the same context with its tables listed in key order -/
def canon (c : Ctx) : Ctx :=
  { c with
    graphNames := sortBy ltNat c.graphNames
    nodeNames := sortBy ltPair c.nodeNames
    graphAnns := sortBy ltNat c.graphAnns
    nodeAnns := sortBy ltPair c.nodeAnns }

/-- strictly increasing keys (⇒ duplicate-free, order canonical) -/
def SortedBy {K V : Type} (lt : K → K → Bool) (t : List (K × V)) : Prop :=
  t.Pairwise (fun a b => lt a.1 b.1 = true)

def TablesSorted (c : Ctx) : Prop :=
  SortedBy ltNat c.graphNames ∧ SortedBy ltPair c.nodeNames ∧
  SortedBy ltNat c.graphAnns ∧ SortedBy ltPair c.nodeAnns

/-! ### order facts -/

structure StrictTotal {K : Type} (lt : K → K → Bool) : Prop where
  irrefl : ∀ a, lt a a = false
  trans : ∀ a b c, lt a b = true → lt b c = true → lt a c = true
  total : ∀ a b, lt a b = false → lt b a = false → a = b

theorem strictTotal_ltNat : StrictTotal ltNat where
  irrefl := by intro a; simp [ltNat]
  trans := by intro a b c; simp [ltNat]; omega
  total := by intro a b; simp [ltNat]; omega

theorem strictTotal_ltPair : StrictTotal ltPair where
  irrefl := by intro a; simp [ltPair]
  trans := by
    rintro ⟨a1, a2⟩ ⟨b1, b2⟩ ⟨c1, c2⟩
    simp [ltPair]; omega
  total := by
    rintro ⟨a1, a2⟩ ⟨b1, b2⟩
    simp [ltPair]; omega

theorem StrictTotal.asymm {K : Type} {lt : K → K → Bool} (h : StrictTotal lt) {a b : K}
    (hab : lt a b = true) : lt b a = false := by
  cases hba : lt b a with
  | false => rfl
  | true =>
    have := h.trans a b a hab hba
    rw [h.irrefl] at this
    cases this

theorem StrictTotal.ne {K : Type} {lt : K → K → Bool} (h : StrictTotal lt) {a b : K}
    (hab : lt a b = true) : a ≠ b := by
  intro e; subst e; rw [h.irrefl] at hab; cases hab

/-! ### insertion sort -/

section sort
variable {K V : Type} {lt : K → K → Bool}

theorem insertBy_perm (e : K × V) (l : List (K × V)) : (insertBy lt e l).Perm (e :: l) := by
  induction l with
  | nil => exact List.Perm.refl _
  | cons x xs ih =>
    unfold insertBy
    split
    · exact (ih.cons x).trans (List.Perm.swap e x xs)
    · exact List.Perm.refl _

theorem sortBy_perm (l : List (K × V)) : (sortBy lt l).Perm l := by
  induction l with
  | nil => exact List.Perm.refl _
  | cons x xs ih =>
    unfold sortBy
    exact (insertBy_perm x _).trans (ih.cons x)

theorem keys_perm {l l' : List (K × V)} (h : l.Perm l') : (keys l).Perm (keys l') :=
  h.map _

theorem mem_sortBy {l : List (K × V)} {x : K × V} : x ∈ sortBy lt l ↔ x ∈ l :=
  (sortBy_perm l).mem_iff

theorem keys_sortBy_nodup {l : List (K × V)} : (keys (sortBy lt l)).Nodup ↔ (keys l).Nodup :=
  (keys_perm (sortBy_perm l)).nodup_iff

theorem insertBy_sorted (h : StrictTotal lt) (e : K × V) (l : List (K × V))
    (hs : SortedBy lt l) (hne : ∀ x ∈ l, x.1 ≠ e.1) : SortedBy lt (insertBy lt e l) := by
  induction l with
  | nil => simp [insertBy, SortedBy]
  | cons x xs ih =>
    unfold SortedBy at hs
    rw [List.pairwise_cons] at hs
    unfold insertBy
    split
    next hlt =>
      unfold SortedBy
      rw [List.pairwise_cons]
      refine ⟨?_, ih hs.2 (fun y hy => hne y (List.mem_cons_of_mem _ hy))⟩
      intro y hy
      rw [(insertBy_perm e xs).mem_iff, List.mem_cons] at hy
      rcases hy with rfl | hy
      · exact hlt
      · exact hs.1 y hy
    next hlt =>
      have hlt' : lt x.1 e.1 = false := by simpa using hlt
      have hex : lt e.1 x.1 = true := by
        cases hc : lt e.1 x.1 with
        | true => rfl
        | false => exact absurd (h.total _ _ hlt' hc) (hne x (List.mem_cons_self ..))
      unfold SortedBy
      rw [List.pairwise_cons, List.pairwise_cons]
      refine ⟨?_, hs⟩
      intro y hy
      rw [List.mem_cons] at hy
      rcases hy with rfl | hy
      · exact hex
      · exact h.trans _ _ _ hex (hs.1 y hy)

theorem sortBy_sorted (h : StrictTotal lt) (l : List (K × V)) (hn : (keys l).Nodup) :
    SortedBy lt (sortBy lt l) := by
  induction l with
  | nil => simp [sortBy, SortedBy]
  | cons x xs ih =>
    simp only [keys, List.map_cons, List.nodup_cons] at hn
    unfold sortBy
    refine insertBy_sorted h x _ (ih hn.2) ?_
    intro y hy hyx
    rw [mem_sortBy] at hy
    exact hn.1 (hyx ▸ List.mem_map_of_mem hy)

theorem SortedBy.keys_nodup (h : StrictTotal lt) {l : List (K × V)} (hs : SortedBy lt l) :
    (keys l).Nodup := by
  induction l with
  | nil => simp [keys]
  | cons x xs ih =>
    unfold SortedBy at hs
    rw [List.pairwise_cons] at hs
    simp only [keys, List.map_cons, List.nodup_cons]
    refine ⟨?_, ih hs.2⟩
    intro hm
    rcases List.mem_map.1 hm with ⟨y, hy, hyx⟩
    exact h.ne (hs.1 y hy) hyx.symm

theorem sortBy_of_sorted (h : StrictTotal lt) (l : List (K × V)) (hs : SortedBy lt l) :
    sortBy lt l = l := by
  induction l with
  | nil => rfl
  | cons x xs ih =>
    unfold SortedBy at hs
    rw [List.pairwise_cons] at hs
    unfold sortBy
    rw [ih hs.2]
    cases xs with
    | nil => rfl
    | cons y ys =>
      unfold insertBy
      rw [h.asymm (hs.1 y (List.mem_cons_self ..))]
      simp

theorem sorted_perm_eq (h : StrictTotal lt) {l₁ l₂ : List (K × V)}
    (h₁ : SortedBy lt l₁) (h₂ : SortedBy lt l₂) (hp : l₁.Perm l₂) : l₁ = l₂ := by
  induction l₁ generalizing l₂ with
  | nil => exact hp.nil_eq
  | cons a as ih =>
    cases l₂ with
    | nil => exact absurd hp.length_eq (by simp)
    | cons b bs =>
      unfold SortedBy at h₁ h₂
      rw [List.pairwise_cons] at h₁ h₂
      have ha : a ∈ b :: bs := hp.mem_iff.1 (List.mem_cons_self ..)
      have hb : b ∈ a :: as := hp.mem_iff.2 (List.mem_cons_self ..)
      have hab : a = b := by
        rw [List.mem_cons] at ha hb
        rcases ha with ha | ha
        · exact ha
        · rcases hb with hb | hb
          · exact hb.symm
          · have := h.asymm (h₁.1 b hb)
            rw [h₂.1 a ha] at this
            cases this
      subst hab
      rw [ih h₁.2 h₂.2 hp.cons_inv]

theorem sortBy_eq_of_perm (h : StrictTotal lt) {l l' : List (K × V)} (hp : l.Perm l')
    (hn : (keys l).Nodup) : sortBy lt l = sortBy lt l' :=
  sorted_perm_eq h (sortBy_sorted h l hn)
    (sortBy_sorted h l' ((keys_perm hp).nodup_iff.1 hn))
    ((sortBy_perm l).trans (hp.trans (sortBy_perm l').symm))

end sort

/-! ### graph replay -/

/-- the checks `recoverGraph prev` performs on a graph -/
def GraphOk (prev : List Graph) (g : Graph) : Prop :=
  (∀ j n, g.nodes[j]? = some n → nodeOk prev j n = true) ∧
  (∀ o, g.output = some o → o < g.nodes.length) ∧
  (g.finalized = true → g.output ≠ none)

theorem recoverNodes_ok {prev : List Graph} {k : Nat} {ns ns' : List Node}
    (h : recoverNodes prev k ns = .ok ns') :
    ns' = ns ∧ ∀ j n, ns[j]? = some n → nodeOk prev (k + j) n = true := by
  induction ns generalizing k ns' with
  | nil =>
    simp only [recoverNodes, Except.ok.injEq] at h
    subst h; simp
  | cons n rest ih =>
    unfold recoverNodes at h
    split at h
    next hok =>
      split at h
      next r hr =>
        simp only [Except.ok.injEq] at h
        subst h
        obtain ⟨e, hr'⟩ := ih hr
        subst e
        refine ⟨rfl, ?_⟩
        intro j m hj
        cases j with
        | zero => simp at hj; subst hj; exact hok
        | succ j =>
          simp at hj
          have := hr' j m hj
          rwa [show k + 1 + j = k + (j + 1) by omega] at this
      next => cases h
    next => cases h

theorem recoverNodes_of_ok {prev : List Graph} {k : Nat} {ns : List Node}
    (h : ∀ j n, ns[j]? = some n → nodeOk prev (k + j) n = true) :
    recoverNodes prev k ns = .ok ns := by
  induction ns generalizing k with
  | nil => rfl
  | cons n rest ih =>
    unfold recoverNodes
    have h0 : nodeOk prev k n = true := by simpa using h 0 n (by simp)
    rw [if_pos h0]
    rw [ih (k := k + 1)]
    intro j m hj
    have := h (j + 1) m (by simpa using hj)
    rwa [show k + (j + 1) = k + 1 + j by omega] at this

theorem recoverGraph_ok {prev : List Graph} {sg g : Graph} (h : recoverGraph prev sg = .ok g) :
    g = sg ∧ GraphOk prev sg := by
  unfold recoverGraph at h
  split at h
  next => cases h
  next nodes hn =>
    obtain ⟨e, hn'⟩ := recoverNodes_ok hn
    subst e
    obtain ⟨f, ns, out⟩ := sg
    simp only at h hn'
    split at h
    next _ o =>
      split at h
      next hlt =>
        simp only [Except.ok.injEq] at h
        subst h
        refine ⟨rfl, ?_, ?_, ?_⟩
        · intro j n hj; simpa using hn' j n hj
        · intro o' ho'; simp at ho'; subst ho'; exact hlt
        · intro _; simp
      next => cases h
    next =>
      split at h
      next => cases h
      next hf =>
        simp only [Except.ok.injEq] at h
        subst h
        have hf' : f = false := by simpa using hf
        subst hf'
        refine ⟨rfl, ?_, ?_, ?_⟩
        · intro j n hj; simpa using hn' j n hj
        · intro o' ho'; simp at ho'
        · intro hc; simp at hc

theorem recoverGraph_of_ok {prev : List Graph} {sg : Graph} (h : GraphOk prev sg) :
    recoverGraph prev sg = .ok sg := by
  obtain ⟨h1, h2, h3⟩ := h
  obtain ⟨f, ns, out⟩ := sg
  unfold recoverGraph
  simp only at h1 h2 h3 ⊢
  rw [recoverNodes_of_ok (k := 0) (by intro j n hj; simpa using h1 j n hj)]
  cases out with
  | some o => simp [h2 o rfl]
  | none =>
    cases f with
    | true => exact absurd rfl (h3 rfl)
    | false => simp

theorem recoverGraphs_ok {prev l r : List Graph} (h : recoverGraphs prev l = .ok r) :
    r = prev ++ l ∧ ∀ i g, l[i]? = some g → GraphOk (prev ++ l.take i) g := by
  induction l generalizing prev with
  | nil =>
    simp only [recoverGraphs, Except.ok.injEq] at h
    subst h; simp
  | cons sg rest ih =>
    unfold recoverGraphs at h
    split at h
    next g hg =>
      obtain ⟨e, hok⟩ := recoverGraph_ok hg
      subst e
      obtain ⟨e, hrest⟩ := ih h
      refine ⟨by simp [e], ?_⟩
      intro i g' hi
      cases i with
      | zero => simp at hi; subst hi; simpa using hok
      | succ i =>
        simp at hi
        simpa using hrest i g' hi
    next => cases h

theorem recoverGraphs_of_ok {prev l : List Graph}
    (h : ∀ i g, l[i]? = some g → GraphOk (prev ++ l.take i) g) :
    recoverGraphs prev l = .ok (prev ++ l) := by
  induction l generalizing prev with
  | nil => simp [recoverGraphs]
  | cons sg rest ih =>
    unfold recoverGraphs
    rw [recoverGraph_of_ok (by simpa using h 0 sg (by simp))]
    simp only
    rw [ih, List.append_assoc, List.singleton_append]
    intro i g hi
    simpa using h (i + 1) g (by simpa using hi)

theorem gdepOk_take {gs : List Graph} {gi h : Nat} :
    gdepOk (gs.take gi) h = true ↔ h < gi ∧ ∃ g, gs[h]? = some g ∧ g.finalized = true := by
  unfold gdepOk
  rw [List.getElem?_take]
  by_cases hlt : h < gi
  · simp only [hlt, if_true, true_and]
    cases gs[h]? with
    | none => simp
    | some g => simp
  · simp [hlt]

theorem nodeOk_take {gs : List Graph} {gi k : Nat} {n : Node} :
    nodeOk (gs.take gi) k n = true ↔ NodeWF gs gi k n := by
  unfold nodeOk NodeWF
  simp only [Bool.and_eq_true, List.all_eq_true, decide_eq_true_eq, gdepOk_take]

theorem graphOk_take {gs : List Graph} {gi : Nat} {g : Graph} :
    GraphOk (gs.take gi) g ↔ GraphWF gs gi g := by
  unfold GraphOk GraphWF
  simp only [nodeOk_take]

theorem recoverGraphs_nil_ok {l r : List Graph} (h : recoverGraphs [] l = .ok r) :
    r = l ∧ ∀ gi g, l[gi]? = some g → GraphWF l gi g := by
  obtain ⟨e, hok⟩ := recoverGraphs_ok h
  refine ⟨by simpa using e, ?_⟩
  intro gi g hg
  have := hok gi g hg
  rw [List.nil_append] at this
  exact graphOk_take.1 this

theorem recoverGraphs_nil_of_wf {l : List Graph} (h : ∀ gi g, l[gi]? = some g → GraphWF l gi g) :
    recoverGraphs [] l = .ok l := by
  have := recoverGraphs_of_ok (prev := []) (l := l) (by
    intro i g hg
    rw [List.nil_append]
    exact graphOk_take.2 (h i g hg))
  simpa using this

theorem recoverMain_ok {gs : List Graph} {m r : Option Nat} (h : recoverMain gs m = .ok r) :
    r = m ∧ ∀ x, m = some x → ∃ g, gs[x]? = some g ∧ g.finalized = true := by
  unfold recoverMain at h
  split at h
  · simp only [Except.ok.injEq] at h; subst h; simp
  next x =>
    split at h
    · cases h
    next g hg =>
      split at h
      next hf =>
        simp only [Except.ok.injEq] at h; subst h
        refine ⟨rfl, ?_⟩
        intro y hy; simp at hy; subst hy
        exact ⟨g, hg, hf⟩
      · cases h

theorem recoverMain_of_ok {gs : List Graph} {m : Option Nat}
    (h : ∀ x, m = some x → ∃ g, gs[x]? = some g ∧ g.finalized = true) :
    recoverMain gs m = .ok m := by
  cases m with
  | none => rfl
  | some x =>
    obtain ⟨g, hg, hf⟩ := h x rfl
    simp [recoverMain, hg, hf]

/-! ### name tables -/

theorem hasKey_iff {K V : Type} [DecidableEq K] {t : List (K × V)} {k : K} :
    hasKey t k = true ↔ k ∈ keys t := by
  simp only [hasKey, keys, List.any_eq_true, decide_eq_true_eq, List.mem_map]

theorem nodup_map_snoc {α β : Type} {f : α → β} {acc : List α} {e : α} :
    ((acc ++ [e]).map f).Nodup ↔ (acc.map f).Nodup ∧ ∀ x ∈ acc, f x ≠ f e := by
  simp only [List.map_append, List.map_cons, List.map_nil, List.nodup_append]
  constructor
  · rintro ⟨h1, _, h3⟩
    refine ⟨h1, ?_⟩
    intro x hx
    exact h3 (f x) (List.mem_map_of_mem hx) (f e) (by simp)
  · rintro ⟨h1, h2⟩
    refine ⟨h1, by simp, ?_⟩
    intro a ha b hb
    simp only [List.mem_singleton] at hb
    subst hb
    rcases List.mem_map.1 ha with ⟨x, hx, rfl⟩
    exact h2 x hx

theorem nodup_map_mid {α β : Type} {f : α → β} {acc rest : List α} {e : α}
    (h : ((acc ++ e :: rest).map f).Nodup) : ∀ x ∈ acc, f x ≠ f e := by
  simp only [List.map_append, List.map_cons, List.nodup_append] at h
  intro x hx
  exact h.2.2 (f x) (List.mem_map_of_mem hx) (f e) (by simp)

theorem append_cons_snoc {α : Type} (acc : List α) (e : α) (rest : List α) :
    acc ++ e :: rest = (acc ++ [e]) ++ rest := by simp

theorem setGraphNames_ok {acc l t : List (Nat × Nat)} (h : setGraphNames acc l = .ok t)
    (hk : (keys acc).Nodup) (hv : (acc.map (·.2)).Nodup) :
    t = acc ++ l ∧ (keys t).Nodup ∧ (t.map (·.2)).Nodup := by
  induction l generalizing acc with
  | nil =>
    simp only [setGraphNames, Except.ok.injEq] at h
    subst h; simp [hk, hv]
  | cons e rest ih =>
    unfold setGraphNames at h
    split at h
    · cases h
    next hkey =>
      split at h
      · cases h
      next hval =>
        have hkey' : e.1 ∉ keys acc := fun hm => hkey (hasKey_iff.2 hm)
        have hk' : (keys (acc ++ [e])).Nodup := by
          unfold keys
          rw [nodup_map_snoc]
          refine ⟨hk, ?_⟩
          intro x hx hxe
          exact hkey' (hxe ▸ List.mem_map_of_mem hx)
        have hv' : ((acc ++ [e]).map (·.2)).Nodup := by
          rw [nodup_map_snoc]
          refine ⟨hv, ?_⟩
          intro x hx hxe
          apply hval
          simp only [List.any_eq_true, decide_eq_true_eq]
          exact ⟨x, hx, hxe⟩
        have := ih h hk' hv'
        rwa [← append_cons_snoc] at this

theorem setGraphNames_of_nodup {acc l : List (Nat × Nat)} (hk : (keys (acc ++ l)).Nodup)
    (hv : ((acc ++ l).map (·.2)).Nodup) : setGraphNames acc l = .ok (acc ++ l) := by
  induction l generalizing acc with
  | nil => simp [setGraphNames]
  | cons e rest ih =>
    unfold setGraphNames
    have h1 : ¬ (hasKey acc e.1 = true) := by
      rw [hasKey_iff]
      intro hm
      rcases List.mem_map.1 hm with ⟨x, hx, hxe⟩
      exact nodup_map_mid hk x hx hxe
    have h2 : ¬ (acc.any (fun x => decide (x.2 = e.2)) = true) := by
      simp only [List.any_eq_true, decide_eq_true_eq]
      rintro ⟨x, hx, hxe⟩
      exact nodup_map_mid hv x hx hxe
    rw [if_neg h1, if_neg h2]
    have := ih (acc := acc ++ [e]) (append_cons_snoc .. ▸ hk) (append_cons_snoc .. ▸ hv)
    rwa [← append_cons_snoc] at this

theorem setNodeNames_ok {acc l t : List ((Nat × Nat) × Nat)} (h : setNodeNames acc l = .ok t)
    (hk : (keys acc).Nodup) (hv : (acc.map (fun e => (e.1.1, e.2))).Nodup) :
    t = acc ++ l ∧ (keys t).Nodup ∧ (t.map (fun e => (e.1.1, e.2))).Nodup := by
  induction l generalizing acc with
  | nil =>
    simp only [setNodeNames, Except.ok.injEq] at h
    subst h; simp [hk, hv]
  | cons e rest ih =>
    unfold setNodeNames at h
    split at h
    · cases h
    next hkey =>
      split at h
      · cases h
      next hval =>
        have hkey' : e.1 ∉ keys acc := fun hm => hkey (hasKey_iff.2 hm)
        have hk' : (keys (acc ++ [e])).Nodup := by
          unfold keys
          rw [nodup_map_snoc]
          refine ⟨hk, ?_⟩
          intro x hx hxe
          exact hkey' (hxe ▸ List.mem_map_of_mem hx)
        have hv' : ((acc ++ [e]).map (fun e => (e.1.1, e.2))).Nodup := by
          rw [nodup_map_snoc]
          refine ⟨hv, ?_⟩
          intro x hx hxe
          apply hval
          simp only [List.any_eq_true, decide_eq_true_eq]
          simp only [Prod.mk.injEq] at hxe
          exact ⟨x, hx, hxe⟩
        have := ih h hk' hv'
        rwa [← append_cons_snoc] at this

theorem setNodeNames_of_nodup {acc l : List ((Nat × Nat) × Nat)} (hk : (keys (acc ++ l)).Nodup)
    (hv : ((acc ++ l).map (fun e => (e.1.1, e.2))).Nodup) :
    setNodeNames acc l = .ok (acc ++ l) := by
  induction l generalizing acc with
  | nil => simp [setNodeNames]
  | cons e rest ih =>
    unfold setNodeNames
    have h1 : ¬ (hasKey acc e.1 = true) := by
      rw [hasKey_iff]
      intro hm
      rcases List.mem_map.1 hm with ⟨x, hx, hxe⟩
      exact nodup_map_mid hk x hx hxe
    have h2 : ¬ (acc.any (fun x => decide (x.1.1 = e.1.1 ∧ x.2 = e.2)) = true) := by
      simp only [List.any_eq_true, decide_eq_true_eq]
      rintro ⟨x, hx, hxe⟩
      exact nodup_map_mid hv x hx (by simp only [Prod.mk.injEq]; exact hxe)
    rw [if_neg h1, if_neg h2]
    have := ih (acc := acc ++ [e]) (append_cons_snoc .. ▸ hk) (append_cons_snoc .. ▸ hv)
    rwa [← append_cons_snoc] at this

/-! ### annotation tables -/

section anns
variable {K : Type}

/-- invariant of an annotation table under `pushAnn` with keys satisfying `P` -/
def AnnInv (P : K → Prop) (t : List (K × List Nat)) : Prop :=
  (keys t).Nodup ∧ (∀ e ∈ t, e.2 ≠ []) ∧ (∀ e ∈ t, P e.1)

theorem annInv_nil (P : K → Prop) : AnnInv P ([] : List (K × List Nat)) := by
  simp [AnnInv, keys]

variable [DecidableEq K]

theorem mem_keys_pushAnn {k x : K} {a : Nat} {t : List (K × List Nat)} :
    x ∈ keys (pushAnn k a t) ↔ x ∈ keys t ∨ x = k := by
  induction t with
  | nil => simp [pushAnn, keys]
  | cons e es ih =>
    unfold pushAnn
    split
    next hek =>
      simp only [keys, List.map_cons, List.mem_cons]
      constructor
      · intro h; exact .inl h
      · rintro (h | h)
        · exact h
        · exact .inl (h.trans hek.symm)
    next hek =>
      simp only [keys, List.map_cons, List.mem_cons] at ih ⊢
      rw [ih]
      constructor
      · rintro (h | h | h)
        · exact .inl (.inl h)
        · exact .inl (.inr h)
        · exact .inr h
      · rintro ((h | h) | h)
        · exact .inl h
        · exact .inr (.inl h)
        · exact .inr (.inr h)

theorem pushAnn_inv {P : K → Prop} {k : K} {a : Nat} {t : List (K × List Nat)} (hP : P k)
    (h : AnnInv P t) : AnnInv P (pushAnn k a t) := by
  induction t with
  | nil => simp [pushAnn, AnnInv, keys, hP]
  | cons e es ih =>
    obtain ⟨h1, h2, h3⟩ := h
    simp only [keys, List.map_cons, List.nodup_cons] at h1
    have ih' := ih ⟨h1.2, fun x hx => h2 x (List.mem_cons_of_mem _ hx),
      fun x hx => h3 x (List.mem_cons_of_mem _ hx)⟩
    unfold pushAnn
    split
    next hek =>
      refine ⟨?_, ?_, ?_⟩
      · simpa only [keys, List.map_cons, List.nodup_cons] using h1
      · intro x hx
        rw [List.mem_cons] at hx
        rcases hx with rfl | hx
        · simp
        · exact h2 x (List.mem_cons_of_mem _ hx)
      · intro x hx
        rw [List.mem_cons] at hx
        rcases hx with rfl | hx
        · exact h3 e (List.mem_cons_self ..)
        · exact h3 x (List.mem_cons_of_mem _ hx)
    next hek =>
      obtain ⟨i1, i2, i3⟩ := ih'
      refine ⟨?_, ?_, ?_⟩
      · simp only [keys, List.map_cons, List.nodup_cons]
        refine ⟨?_, i1⟩
        intro hm
        rcases (mem_keys_pushAnn (t := es)).1 hm with hm | hm
        · exact h1.1 hm
        · exact hek hm
      · intro x hx
        rw [List.mem_cons] at hx
        rcases hx with rfl | hx
        · exact h2 _ (List.mem_cons_self ..)
        · exact i2 x hx
      · intro x hx
        rw [List.mem_cons] at hx
        rcases hx with rfl | hx
        · exact h3 _ (List.mem_cons_self ..)
        · exact i3 x hx

theorem foldl_pushAnn_inv {P : K → Prop} {k : K} {as : List Nat} {t : List (K × List Nat)}
    (hP : P k) (h : AnnInv P t) : AnnInv P (as.foldl (fun t a => pushAnn k a t) t) := by
  induction as generalizing t with
  | nil => exact h
  | cons a as ih => exact ih (pushAnn_inv hP h)

theorem addAnns_inv {inRange : K → Bool} {acc l t : List (K × List Nat)}
    (h : addAnns inRange acc l = .ok t) (hacc : AnnInv (fun k => inRange k = true) acc) :
    AnnInv (fun k => inRange k = true) t := by
  induction l generalizing acc with
  | nil =>
    simp only [addAnns, Except.ok.injEq] at h
    subst h; exact hacc
  | cons e rest ih =>
    unfold addAnns at h
    split at h
    next hr => exact ih h (foldl_pushAnn_inv (P := fun k => inRange k = true) hr hacc)
    next => cases h

theorem pushAnn_of_not_mem {k : K} {a : Nat} {t : List (K × List Nat)} (h : k ∉ keys t) :
    pushAnn k a t = t ++ [(k, [a])] := by
  induction t with
  | nil => rfl
  | cons e es ih =>
    simp only [keys, List.map_cons, List.mem_cons, not_or] at h
    unfold pushAnn
    rw [if_neg (fun hc => h.1 hc.symm), ih h.2]
    rfl

theorem pushAnn_last {k : K} {a : Nat} {pre : List (K × List Nat)} {xs : List Nat}
    (h : k ∉ keys pre) : pushAnn k a (pre ++ [(k, xs)]) = pre ++ [(k, xs ++ [a])] := by
  induction pre with
  | nil => simp [pushAnn]
  | cons e es ih =>
    simp only [keys, List.map_cons, List.mem_cons, not_or] at h
    rw [List.cons_append]
    unfold pushAnn
    rw [if_neg (fun hc => h.1 hc.symm), ih h.2]
    rfl

theorem foldl_pushAnn_last {k : K} {as : List Nat} {pre : List (K × List Nat)} {xs : List Nat}
    (h : k ∉ keys pre) :
    as.foldl (fun t a => pushAnn k a t) (pre ++ [(k, xs)]) = pre ++ [(k, xs ++ as)] := by
  induction as generalizing xs with
  | nil => simp
  | cons a as ih =>
    rw [List.foldl_cons, pushAnn_last h, ih]
    simp

theorem foldl_pushAnn_new {k : K} {as : List Nat} {acc : List (K × List Nat)}
    (h : k ∉ keys acc) (hne : as ≠ []) :
    as.foldl (fun t a => pushAnn k a t) acc = acc ++ [(k, as)] := by
  cases as with
  | nil => exact absurd rfl hne
  | cons a as =>
    rw [List.foldl_cons, pushAnn_of_not_mem h, foldl_pushAnn_last h]
    simp

theorem addAnns_of_ok {inRange : K → Bool} {acc l : List (K × List Nat)}
    (hk : (keys (acc ++ l)).Nodup) (hl : ∀ e ∈ l, e.2 ≠ [] ∧ inRange e.1 = true) :
    addAnns inRange acc l = .ok (acc ++ l) := by
  induction l generalizing acc with
  | nil => simp [addAnns]
  | cons e rest ih =>
    unfold addAnns
    obtain ⟨hne, hr⟩ := hl e (List.mem_cons_self ..)
    have hnm : e.1 ∉ keys acc := by
      intro hm
      rcases List.mem_map.1 hm with ⟨x, hx, hxe⟩
      exact nodup_map_mid hk x hx hxe
    rw [if_pos hr, foldl_pushAnn_new hnm hne]
    have := ih (acc := acc ++ [e]) (append_cons_snoc .. ▸ hk)
      (fun x hx => hl x (List.mem_cons_of_mem _ hx))
    rwa [← append_cons_snoc] at this

end anns

/-! ### assembling `recover ∘ toSer` -/

theorem recover_toSer {c : Ctx} (h : WF c) : recover (toSer c) = .ok (canon c) := by
  obtain ⟨f, gs, m, gn, nn, ga, na⟩ := c
  obtain ⟨w1, w2, w3, w4, w5, w6, w7, w8, w9, w10, w11, w12, w13, w14, w15⟩ := h
  simp only at w1 w2 w3 w4 w5 w6 w7 w8 w9 w10 w11 w12 w13 w14 w15
  have e1 : recoverGraphs [] gs = .ok gs := recoverGraphs_nil_of_wf w1
  have e2 : recoverMain gs m = .ok m := recoverMain_of_ok w2
  have e3 : (sortBy ltNat gn).all (fun e => graphInRange gs e.1) = true := by
    simp only [List.all_eq_true, mem_sortBy, graphInRange, decide_eq_true_eq]
    exact w5
  have e4 : (sortBy ltPair nn).all (fun e => nodeInRange gs e.1) = true := by
    simp only [List.all_eq_true, mem_sortBy]
    exact w8
  have e5 : setGraphNames [] (sortBy ltNat gn) = .ok (sortBy ltNat gn) := by
    have := setGraphNames_of_nodup (acc := []) (l := sortBy ltNat gn)
      (by rw [List.nil_append]; exact keys_sortBy_nodup.2 w4)
      (by rw [List.nil_append]; exact ((sortBy_perm gn).map _).nodup_iff.2 w6)
    simpa using this
  have e6 : setNodeNames [] (sortBy ltPair nn) = .ok (sortBy ltPair nn) := by
    have := setNodeNames_of_nodup (acc := []) (l := sortBy ltPair nn)
      (by rw [List.nil_append]; exact keys_sortBy_nodup.2 w7)
      (by rw [List.nil_append]; exact ((sortBy_perm nn).map _).nodup_iff.2 w9)
    simpa using this
  have e7 : addAnns (graphInRange gs) [] (sortBy ltNat ga) = .ok (sortBy ltNat ga) := by
    have := addAnns_of_ok (inRange := graphInRange gs) (acc := []) (l := sortBy ltNat ga)
      (by rw [List.nil_append]; exact keys_sortBy_nodup.2 w10)
      (fun e he => ⟨w12 e (mem_sortBy.1 he), by
        simp only [graphInRange, decide_eq_true_eq]; exact w11 e (mem_sortBy.1 he)⟩)
    simpa using this
  have e8 : addAnns (nodeInRange gs) [] (sortBy ltPair na) = .ok (sortBy ltPair na) := by
    have := addAnns_of_ok (inRange := nodeInRange gs) (acc := []) (l := sortBy ltPair na)
      (by rw [List.nil_append]; exact keys_sortBy_nodup.2 w13)
      (fun e he => ⟨w15 e (mem_sortBy.1 he), w14 e (mem_sortBy.1 he)⟩)
    simpa using this
  unfold recover toSer canon
  simp only [e1, e2, e3, e4, e5, e6, e7, e8, Bool.not_true]
  cases f with
  | false => simp
  | true =>
    obtain ⟨hm, hall⟩ := w3 rfl
    have e9 : gs.all (fun g => g.finalized) = true := by
      simp only [List.all_eq_true]; exact hall
    have e10 : m.isSome = true := by
      cases m with
      | none => exact absurd rfl hm
      | some _ => rfl
    simp [e9, e10]

theorem canon_perm (c : Ctx) : DeepEq c (canon c) where
  finalized := rfl
  graphs := rfl
  main := rfl
  graphNames := (sortBy_perm _).symm
  nodeNames := (sortBy_perm _).symm
  graphAnns := (sortBy_perm _).symm
  nodeAnns := (sortBy_perm _).symm

theorem canon_of_sorted {c : Ctx} (hs : TablesSorted c) : canon c = c := by
  obtain ⟨f, gs, m, gn, nn, ga, na⟩ := c
  obtain ⟨h1, h2, h3, h4⟩ := hs
  simp only at h1 h2 h3 h4
  simp only [canon, sortBy_of_sorted strictTotal_ltNat _ h1, sortBy_of_sorted strictTotal_ltPair _ h2,
    sortBy_of_sorted strictTotal_ltNat _ h3, sortBy_of_sorted strictTotal_ltPair _ h4]

theorem toSer_tablesSorted {c : Ctx} (h : WF c) :
    SortedBy ltNat (toSer c).graphNames ∧ SortedBy ltPair (toSer c).nodeNames ∧
    SortedBy ltNat (toSer c).graphAnns ∧ SortedBy ltPair (toSer c).nodeAnns :=
  ⟨sortBy_sorted strictTotal_ltNat _ h.gnKeys, sortBy_sorted strictTotal_ltPair _ h.nnKeys,
   sortBy_sorted strictTotal_ltNat _ h.gaKeys, sortBy_sorted strictTotal_ltPair _ h.naKeys⟩

theorem toSer_canon {c : Ctx} (h : WF c) : toSer (canon c) = toSer c := by
  obtain ⟨h1, h2, h3, h4⟩ := toSer_tablesSorted h
  simp only [toSer] at h1 h2 h3 h4
  simp only [toSer, canon, sortBy_of_sorted strictTotal_ltNat _ h1,
    sortBy_of_sorted strictTotal_ltPair _ h2, sortBy_of_sorted strictTotal_ltNat _ h3,
    sortBy_of_sorted strictTotal_ltPair _ h4]

theorem toSer_eq_of_deepEq {c d : Ctx} (hc : WF c) (h : DeepEq c d) : toSer c = toSer d := by
  obtain ⟨h1, h2, h3, h4, h5, h6, h7⟩ := h
  simp only [toSer, h1, h2, h3, sortBy_eq_of_perm strictTotal_ltNat h4 hc.gnKeys,
    sortBy_eq_of_perm strictTotal_ltPair h5 hc.nnKeys, sortBy_eq_of_perm strictTotal_ltNat h6 hc.gaKeys,
    sortBy_eq_of_perm strictTotal_ltPair h7 hc.naKeys]

/-! ### analysing a successful `recover` -/

theorem recover_ok {s : SerCtx} {c : Ctx} (h : recover s = .ok c) :
    WF c ∧ c.graphs = s.graphs ∧ c.main = s.main ∧ c.finalized = s.finalized := by
  unfold recover at h
  split at h
  · cases h
  next gs hgs =>
  split at h
  · cases h
  next main hmain =>
  split at h
  · cases h
  next hgnr =>
  split at h
  · cases h
  next hnnr =>
  split at h
  · cases h
  next gn hgn =>
  split at h
  · cases h
  next nn hnn =>
  split at h
  · cases h
  next ga hga =>
  split at h
  · cases h
  next na hna =>
  obtain ⟨eg, hgwf⟩ := recoverGraphs_nil_ok hgs
  obtain ⟨em, hmwf⟩ := recoverMain_ok hmain
  obtain ⟨egn, hgnk, hgnv⟩ := setGraphNames_ok hgn (by simp [keys]) (by simp)
  obtain ⟨enn, hnnk, hnnv⟩ := setNodeNames_ok hnn (by simp [keys]) (by simp)
  obtain ⟨ga1, ga2, ga3⟩ := addAnns_inv hga (annInv_nil _)
  obtain ⟨na1, na2, na3⟩ := addAnns_inv hna (annInv_nil _)
  rw [List.nil_append] at egn enn
  subst eg em egn enn
  simp only [Bool.not_eq_true', Bool.not_eq_false, List.all_eq_true] at hgnr hnnr
  have mk : ∀ f : Bool, (f = true → s.main ≠ none ∧ ∀ g ∈ s.graphs, g.finalized = true) →
      WF ⟨f, s.graphs, s.main, s.graphNames, s.nodeNames, ga, na⟩ := by
    intro f hf
    exact
      { graphs := hgwf
        main := hmwf
        fin := hf
        gnKeys := hgnk
        gnRange := fun e he => by simpa [graphInRange] using hgnr e he
        gnVals := hgnv
        nnKeys := hnnk
        nnRange := hnnr
        nnVals := hnnv
        gaKeys := ga1
        gaRange := fun e he => by simpa [graphInRange] using ga3 e he
        gaNonempty := ga2
        naKeys := na1
        naRange := na3
        naNonempty := na2 }
  split at h
  next hfin =>
    split at h
    next hc =>
      simp only [Except.ok.injEq] at h
      subst h
      simp only [Bool.and_eq_true, List.all_eq_true] at hc
      refine ⟨mk true (fun _ => ⟨?_, hc.1⟩), rfl, rfl, hfin.symm⟩
      intro hn
      rw [hn] at hc
      simp at hc
    · cases h
  next hfin =>
    simp only [Except.ok.injEq] at h
    subst h
    refine ⟨mk false (fun hc => by cases hc), rfl, rfl, ?_⟩
    simpa using hfin

/-! ### a concrete instance for the non-vacuity examples -/

/-- Bool projection of an `Except` (for `decide`) -/
def isOk {α : Type} : Except String α → Bool
  | .ok _ => true
  | .error _ => false

/-- the serialisable context listing the tables of `c` in the given order (no sorting) -/
def Ctx.asSer (c : Ctx) : SerCtx :=
  ⟨c.finalized, c.graphs, c.main, c.graphNames, c.nodeNames, c.nodeAnns, c.graphAnns⟩

/-- a context is well formed as soon as the replay accepts it with its tables listed as they are -/
theorem wf_of_recover_asSer {c : Ctx} (h : recover c.asSer = .ok c) : WF c := (recover_ok h).1

/-- two graphs, the second calling the first (node 2 of graph 1 has `gdeps = [0]`); names and
    annotations deliberately not in key order -/
def exCtx : Ctx :=
  { finalized := true
    graphs := [ ⟨true, [⟨1,[],[]⟩, ⟨1,[],[]⟩, ⟨2,[0,1],[]⟩], some 2⟩,
                ⟨true, [⟨1,[],[]⟩, ⟨1,[],[]⟩, ⟨5,[0,1],[0]⟩, ⟨4,[2,0],[]⟩], some 3⟩ ]
    main := some 1
    graphNames := [(1, 7), (0, 3)]
    nodeNames := [((1,2), 5), ((0,0), 5), ((1,0), 9)]
    graphAnns := [(1, [2,0])]
    nodeAnns := [((1,3), [4]), ((0,2), [1,1])] }

theorem exCtx_wf : WF exCtx := wf_of_recover_asSer (by rfl)

/-- `exCtx` with every table listed in another order -/
def exCtx' : Ctx :=
  { exCtx with
    graphNames := [(0, 3), (1, 7)]
    nodeNames := [((1,0), 9), ((1,2), 5), ((0,0), 5)]
    nodeAnns := [((0,2), [1,1]), ((1,3), [4])] }

theorem exCtx'_wf : WF exCtx' := wf_of_recover_asSer (by rfl)

end CCV.Serde
