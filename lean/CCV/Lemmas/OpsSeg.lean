import CCV.Model.OpsExt
import CCV.Model.Spec
import CCV.Lemmas.Kernels
import CCV.Lemmas.OpsMat
import CCV.Lemmas.OpsStruct
import CCV.Lemmas.OpsReduce
/-!
  `SegmentCumSum`: the append loop of the evaluator computes the documented iteration
  `output[0] = v`, `output[i+1] = A[i] + B[i]·output[i]` (mod 2^w), and the iteration is the sum of
  the input rows since the last segment start (plus the first row when no segment has started).
-/
namespace CCV.Ops
open CCV CCV.Shape

/-! ### the documented iteration in closed form -/

theorem sumFrom_succ_of_le (s i : Nat) (a : Nat → Int) (h : s ≤ i) :
    Spec.sumFrom s (i + 1) a = Spec.sumFrom s i a + a i := by
  unfold Spec.sumFrom
  rw [List.range_succ, List.filter_append, List.map_append, List.sum_append]
  simp [h]

theorem sumFrom_self (i : Nat) (a : Nat → Int) : Spec.sumFrom i i a = 0 := by
  unfold Spec.sumFrom
  have : (List.range i).filter (fun x => decide (i ≤ x)) = [] := by
    apply List.filter_eq_nil_iff.mpr
    intro x hx
    have := List.mem_range.mp hx
    simp; omega
  rw [this]; rfl

/-- no segment start before row `i`: the first row plus all input rows so far -/
theorem segIter_all_ones (a : Nat → Int) (b : Nat → Nat) (v : Int) (i : Nat)
    (h : ∀ k, k < i → b k = 1) : Spec.segIter a b v i = v + Spec.sumFrom 0 i a := by
  induction i with
  | zero => simp [Spec.segIter, Spec.sumFrom]
  | succ i ih =>
    rw [Spec.segIter, h i (Nat.lt_succ_self i), ih (fun k hk => h k (Nat.lt_succ_of_lt hk)),
      sumFrom_succ_of_le 0 i a (Nat.zero_le i)]
    omega

/-- last segment start at row `s` (`B[s] = 0`, ones afterwards): the sum of the input rows `s..i-1` -/
theorem segIter_segment (a : Nat → Int) (b : Nat → Nat) (v : Int) (s i : Nat) (hs : s < i)
    (h0 : b s = 0) (h1 : ∀ k, s < k → k < i → b k = 1) :
    Spec.segIter a b v i = Spec.sumFrom s i a := by
  induction i with
  | zero => omega
  | succ i ih =>
    rw [Spec.segIter]
    by_cases hsi : s = i
    · subst hsi
      rw [h0, sumFrom_succ_of_le s s a (Nat.le_refl s), sumFrom_self]
      simp
    · have hlt : s < i := by omega
      rw [h1 i hlt (Nat.lt_succ_self i), ih hlt (fun k hk hki => h1 k hk (Nat.lt_succ_of_lt hki)),
        sumFrom_succ_of_le s i a (Nat.le_of_lt hlt)]
      omega

/-! ### the evaluator loop -/

theorem getD_zipWith (f : Nat → Nat → Nat) (l1 l2 : List Nat) (j : Nat) (h1 : j < l1.length)
    (h2 : j < l2.length) : (List.zipWith f l1 l2).getD j 0 = f (l1.getD j 0) (l2.getD j 0) := by
  simp [List.getD_eq_getElem?_getD, h1, h2]

theorem row_index_lt (i k R j : Nat) (hi : i ≤ k) (hj : j < R) : i * R + j < (k + 1) * R := by
  have h1 : (i + 1) * R ≤ (k + 1) * R := Nat.mul_le_mul_right R (by omega)
  rw [Nat.succ_mul] at h1
  omega

/-- loop invariant of `segmentCumSum` after `k` rounds -/
theorem seg_loop_inv (st : ST) (R : Nat) (xs bits first : List Nat) (hx : xs.length = bits.length * R)
    (hf : first.length = R) (hb : ∀ x ∈ bits, x < 2) (k : Nat) (hk : k ≤ bits.length) :
    let res := (List.range k).foldl (segStep (modulus st) R (xs.map (ext st)) bits) (first.map (ext st))
    res.length = (k + 1) * R ∧
    ∀ i j, i ≤ k → j < R →
      ((res.getD (i * R + j) 0 : Nat) : Int) % ((2 ^ st.bits : Nat) : Int)
        = Spec.segIter (fun t => st.toInt (xs.getD (t * R + j) 0)) (fun t => bits.getD t 0)
            (st.toInt (first.getD j 0)) i % ((2 ^ st.bits : Nat) : Int) := by
  induction k with
  | zero =>
    refine ⟨by simp [hf], ?_⟩
    intro i j hi hj
    have : i = 0 := by omega
    subst this
    simp only [List.range_zero, List.foldl_nil, Nat.zero_mul, Nat.zero_add, Spec.segIter]
    rw [getD_map_ext]
    exact (toInt_ext st _).symm
  | succ k ih =>
    obtain ⟨hlen, hval⟩ := ih (by omega)
    simp only [List.range_succ, List.foldl_append, List.foldl_cons, List.foldl_nil]
    generalize hres : (List.range k).foldl (segStep (modulus st) R (xs.map (ext st)) bits) (first.map (ext st)) = res at hlen hval
    have hkl : k < bits.length := by omega
    have hinp : k * R + R ≤ (xs.map (ext st)).length := by
      rw [List.length_map, hx]
      have := Nat.mul_le_mul_right R hkl
      rw [Nat.succ_mul] at this
      exact this
    have hsl1 : (slice (xs.map (ext st)) (k * R) R).length = R := slice_length _ _ _ hinp
    have hsl2 : (slice res (k * R) R).length = R := slice_length _ _ _ (by rw [hlen, Nat.succ_mul])
    have hrow : (segStep (modulus st) R (xs.map (ext st)) bits res k).length = (k + 1 + 1) * R := by
      unfold segStep
      simp only []
      rw [List.length_append, hlen]
      split
      · rw [hsl1, Nat.succ_mul (k + 1)]
      · rw [List.length_zipWith, hsl1, hsl2, Nat.min_self, Nat.succ_mul (k + 1)]
    refine ⟨hrow, ?_⟩
    intro i j hi hj
    by_cases hik : i ≤ k
    · -- earlier rows are untouched
      have hlt : i * R + j < res.length := by rw [hlen]; exact row_index_lt i k R j hik hj
      have : (segStep (modulus st) R (xs.map (ext st)) bits res k).getD (i * R + j) 0 = res.getD (i * R + j) 0 := by
        unfold segStep
        simp only [List.getD_eq_getElem?_getD]
        rw [List.getElem?_append_left hlt]
      rw [this]
      exact hval i j hik hj
    · have hi' : i = k + 1 := by omega
      subst hi'
      have hpos : (k + 1) * R + j = res.length + j := by rw [hlen]
      rw [Spec.segIter]
      have hbk : bits.getD k 0 < 2 := by
        apply hb
        simp [List.getD_eq_getElem?_getD, hkl]
      have hprev := hval k j (Nat.le_refl k) hj
      by_cases hb0 : bits.getD k 0 = 0
      · have : (segStep (modulus st) R (xs.map (ext st)) bits res k).getD ((k + 1) * R + j) 0
            = ext st (xs.getD (k * R + j) 0) := by
          unfold segStep
          simp only [hb0, if_true]
          rw [hpos, List.getD_eq_getElem?_getD, List.getElem?_append_right (Nat.le_add_right _ _),
            Nat.add_sub_cancel_left, ← List.getD_eq_getElem?_getD, slice_getD _ _ _ _ hj, getD_map_ext]
        rw [this, hb0]
        simp only [Int.natCast_zero, Int.zero_mul, Int.add_zero]
        exact (toInt_ext st _).symm
      · have hb1 : bits.getD k 0 = 1 := by omega
        have : (segStep (modulus st) R (xs.map (ext st)) bits res k).getD ((k + 1) * R + j) 0
            = addU128 (ext st (xs.getD (k * R + j) 0)) (res.getD (k * R + j) 0) (modulus st) := by
          unfold segStep
          simp only [hb0, if_false]
          rw [hpos, List.getD_eq_getElem?_getD, List.getElem?_append_right (Nat.le_add_right _ _),
            Nat.add_sub_cancel_left, ← List.getD_eq_getElem?_getD,
            getD_zipWith _ _ _ _ (by rw [hsl1]; exact hj) (by rw [hsl2]; exact hj),
            slice_getD _ _ _ _ hj, slice_getD _ _ _ _ hj, getD_map_ext]
        rw [this, hb1, addU128_emod]
        simp only [Int.natCast_one, Int.one_mul]
        exact add_congr _ _ _ _ _ (toInt_ext st _).symm hprev

/-- **SegmentCumSum, flat form**: `(n+1)·R` entries; entry `j` of row `i` is the documented
    iteration at `i`, reduced mod 2^w. -/
theorem segmentCumSum_flat (st : ST) (R : Nat) (xs bits first : List Nat) (hx : xs.length = bits.length * R)
    (hf : first.length = R) (hb : ∀ x ∈ bits, x < 2) :
    (segmentCumSum st R xs bits first).length = (bits.length + 1) * R ∧
    ∀ i j, i ≤ bits.length → j < R →
      (segmentCumSum st R xs bits first).getD (i * R + j) 0
        = st.ofInt (Spec.segIter (fun t => st.toInt (xs.getD (t * R + j) 0)) (fun t => bits.getD t 0)
            (st.toInt (first.getD j 0)) i) := by
  obtain ⟨hlen, hval⟩ := seg_loop_inv st R xs bits first hx hf hb bits.length (Nat.le_refl _)
  refine ⟨by unfold segmentCumSum; simp only [List.length_map]; exact hlen, ?_⟩
  intro i j hi hj
  unfold segmentCumSum
  simp only []
  rw [getD_map_low _ _ _ (by rw [hlen]; exact row_index_lt i _ R j hi hj), low_eq_ofInt]
  exact ofInt_congr _ _ _ (hval i j hi hj)

example : segmentCumSum .u8 1 [1, 2, 3, 4] [1, 0, 1, 1] [10] = [10, 11, 2, 5, 9] := by decide
example : segmentCumSum .i8 2 [1, 2, 3, 4, 250, 6] [1, 1, 0] [100, 127] = [100, 127, 101, 129, 104, 133, 250, 6] := by decide

end CCV.Ops
