import CCV.Lemmas.EvalOps
/-
  Helper lemmas for the value-level half of C09, part 2: typing lemmas of the remaining `CCV.Ops`
  functions (Gemm, Concatenate, A2B / B2A, ArrayToVector / VectorToArray, Gather,
  InversePermutation, GetSlice).
-/
namespace CCV.EvalOps
open CCV CCV.TV CCV.Shape
open CCV.TI hiding prod broadcastShapes transposeShape

/-! ### Gemm -/

theorem gemm_typed (st : ST) (t0 t1 : Bool) (ba bb br xs ys : List Nat) (N K M : Nat)
    (ha : bcOK ba br) (hb : bcOK bb br) (hN : 0 < N) (hK : 0 < K) (hM : 0 < M)
    (hpa : pos ba) (hpb : pos bb) (hpr : pos br)
    (hx : xs.length = prod ba * (N * K)) (hy : ys.length = prod bb * (K * M)) :
    ∃ r, Ops.gemm st t0 t1 (ba ++ (if t0 then [K, N] else [N, K])) xs
        (bb ++ (if t1 then [M, K] else [K, M])) ys (br ++ [N, M]) = .ok r ∧
      flatOk st (prod (br ++ [N, M])) r := by
  have hy' : ys.length = prod bb * (M * K) := by rw [hy, Nat.mul_comm K M]
  obtain ⟨sA, lA, _⟩ := Ops.gemm_operand st t0 ba xs N K hpa hN hK hx
  obtain ⟨sB, lB, _⟩ := Ops.gemm_operand st (!t1) bb ys M K hpb hM hK hy'
  have eB : (if (!t1) = true then [K, M] else [M, K]) = (if t1 = true then [M, K] else [K, M]) := by
    cases t1 <;> rfl
  rw [eB] at sB lB
  have h0 : 0 < prod br := prod_pos hpr
  obtain ⟨r, hr, hl, _⟩ := Ops.generalGemm_spec st ba bb br _ _ N K M ha hb hN hM hpr lA lB
    (numberToIndex 0 br) 0 0 (numberToIndex_valid hpr h0) hN hM
  refine ⟨r.map (Ops.low st), ?_, by simp [hl], map_low_bound st r⟩
  simp only [Ops.gemm]
  rw [sA, sB, hr]

/-! ### Concatenate -/

theorem prod_split_axis (s : List Nat) (axis : Nat) (h : axis < s.length) :
    prod s = prod (s.take axis) * s.getD axis 0 * prod (s.drop (axis + 1)) := by
  have e := congrArg prod (Ops.split_axis s axis h)
  rw [prod_append, prod_append] at e
  simp only [prod, Nat.mul_one] at e
  exact e

theorem concatenate_typed (st : ST) (axis : Nat) (inputs : List (List Nat × List Nat)) (sr : List Nat)
    (haxis : axis < sr.length)
    (hshape : ∀ p ∈ inputs, p.2.length = prod (sr.take axis) * p.1.getD axis 0 * prod (sr.drop (axis + 1)))
    (hb : ∀ p ∈ inputs, ∀ x ∈ p.2, x < 2 ^ st.bits)
    (hsum : sr.getD axis 0 = (inputs.map fun p => p.1.getD axis 0).sum) :
    flatOk st (prod sr) (Ops.concatenate axis inputs sr) := by
  simp only [Ops.concatenate]
  constructor
  · rw [length_flatMap_const _ _ ((inputs.map fun p => p.1.getD axis 0).sum * prod (sr.drop (axis + 1)))]
    · rw [List.length_range, prod_split_axis sr axis haxis, hsum, Nat.mul_assoc]
    · intro ai hai
      have hai := List.mem_range.mp hai
      rw [List.length_flatMap, ← Ops.sum_map_mul]
      congr 1
      apply List.map_congr_left
      intro p hp
      apply Ops.slice_length
      rw [hshape p hp]
      have h1 : (ai + 1) * (p.1.getD axis 0 * prod (sr.drop (axis + 1)))
          ≤ prod (sr.take axis) * (p.1.getD axis 0 * prod (sr.drop (axis + 1))) :=
        Nat.mul_le_mul_right _ hai
      rw [Nat.succ_mul] at h1
      rw [Nat.mul_assoc, Nat.mul_assoc]
      exact h1
  · intro x hx
    obtain ⟨ai, _, hx⟩ := List.mem_flatMap.mp hx
    obtain ⟨p, hp, hx⟩ := List.mem_flatMap.mp hx
    exact hb p hp x (mem_slice hx)

/-! ### A2B / B2A -/

theorem a2b_typed (st : ST) (hst : st ≠ .bit) (xs : List Nat) (hx : ∀ x ∈ xs, x < 2 ^ st.bits) :
    ∃ r, Ops.a2b st xs = .ok r ∧ flatOk .bit (xs.length * st.bits) r := by
  refine ⟨_, Ops.a2b_spec st hst xs hx, ?_, ?_⟩
  · exact length_flatMap_const _ _ _ (fun a _ => by simp)
  · intro b hb
    obtain ⟨x, _, hb⟩ := List.mem_flatMap.mp hb
    obtain ⟨k, _, rfl⟩ := List.mem_map.mp hb
    have e : (2 : Nat) ^ ST.bit.bits = 2 := rfl
    rw [e]
    exact Nat.mod_lt _ (by decide)

theorem b2a_typed (st : ST) (hst : st ≠ .bit) (d : Nat) (bits : List Nat) (hl : bits.length = d * st.bits)
    (hb : ∀ b ∈ bits, b < 2) : ∃ r, Ops.b2a st bits = .ok r ∧ flatOk st d r := by
  let cs : List (List Nat) := (List.range d).map fun i => Ops.slice bits (i * st.bits) st.bits
  have hcs : cs.flatMap id = bits := by
    simp only [cs, List.flatMap_map, id]
    exact Ops.flatMap_slices _ _ _ hl
  have hc : ∀ c ∈ cs, c.length = st.bits ∧ ∀ b ∈ c, b < 2 := by
    intro c hc
    obtain ⟨i, hi, rfl⟩ := List.mem_map.mp hc
    have hi := List.mem_range.mp hi
    refine ⟨?_, fun b hbm => hb b (mem_slice hbm)⟩
    apply Ops.slice_length
    rw [hl]
    have := Nat.mul_le_mul_right st.bits hi
    rw [Nat.succ_mul] at this
    exact this
  have h := Ops.b2a_spec st hst cs hc
  rw [hcs] at h
  refine ⟨_, h, by simp [cs], ?_⟩
  intro x hx
  obtain ⟨c, hcm, rfl⟩ := List.mem_map.mp hx
  have := Ops.packBits_lt c (hc c hcm).2
  rw [(hc c hcm).1] at this
  exact this

/-! ### ArrayToVector / VectorToArray -/

theorem arrayToVector_typed (st : ST) (d : Nat) (rest xs : List Nat) (hx : flatOk st (d * prod rest) xs)
    (hp : 0 < prod rest) :
    (Ops.arrayToVector (d :: rest) xs).length = d ∧
    ∀ row ∈ Ops.arrayToVector (d :: rest) xs, flatOk st (prod rest) row := by
  have hdiv : xs.length / prod rest = d := by rw [hx.1, Nat.mul_div_cancel _ hp]
  simp only [Ops.arrayToVector, Ops.chunks, List.drop_one, List.tail_cons, hdiv]
  refine ⟨by simp, ?_⟩
  intro row hrow
  obtain ⟨i, hi, rfl⟩ := List.mem_map.mp hrow
  have hi := List.mem_range.mp hi
  refine ⟨?_, fun x hxm => hx.2 x (mem_slice hxm)⟩
  apply Ops.slice_length
  rw [hx.1]
  have := Nat.mul_le_mul_right (prod rest) hi
  rw [Nat.succ_mul] at this
  exact this

theorem rowsOf_typed (st : ST) (k : Nat) : ∀ (vs : List EV),
    (∀ v ∈ vs, ∃ xs, v = .arr xs ∧ flatOk st k xs) →
    ∃ rs, rowsOf vs = some rs ∧ rs.length = vs.length ∧ ∀ r ∈ rs, flatOk st k r
  | [], _ => ⟨[], rfl, rfl, by simp⟩
  | v :: vs, h => by
    obtain ⟨xs, rfl, hxs⟩ := h v (by simp)
    obtain ⟨rs, hrs, hl, hr⟩ := rowsOf_typed st k vs (fun w hw => h w (by simp [hw]))
    refine ⟨xs :: rs, by simp [rowsOf, hrs], by simp [hl], ?_⟩
    intro r hrm
    rcases List.mem_cons.mp hrm with rfl | hrm
    · exact hxs
    · exact hr r hrm

theorem vectorToArray_typed (st : ST) (k : Nat) (rs : List (List Nat)) (h : ∀ r ∈ rs, flatOk st k r) :
    flatOk st (rs.length * k) (Ops.vectorToArray rs) := by
  simp only [Ops.vectorToArray]
  refine ⟨length_flatMap_const _ _ _ (fun r hr => (h r hr).1), ?_⟩
  intro x hx
  obtain ⟨r, hr, hx⟩ := List.mem_flatMap.mp hx
  exact (h r hr).2 x hx

/-! ### Gather -/

theorem pos_take {s : List Nat} (h : pos s) (k : Nat) : pos (s.take k) :=
  fun d hd => h d (List.mem_of_mem_take hd)

theorem pos_drop {s : List Nat} (h : pos s) (k : Nat) : pos (s.drop k) :=
  fun d hd => h d (List.mem_of_mem_drop hd)

theorem gather_typed (st : ST) (shape xs indices : List Nat) (axis : Nat) (haxis : axis < shape.length)
    (hp : pos shape) (hx : flatOk st (prod shape) xs) :
    ((∀ ie ∈ indices, ie < shape.getD axis 0) →
      ∃ r, Ops.gather shape xs indices axis = .ok r ∧
        flatOk st (prod (shape.take axis) * (indices.length * prod (shape.drop (axis + 1)))) r) ∧
    ((∃ ie ∈ indices, shape.getD axis 0 ≤ ie) → ∃ e, Ops.gather shape xs indices axis = .error e) := by
  refine ⟨?_, Ops.gather_err shape xs indices axis (prod_pos (pos_take hp axis))⟩
  intro hin
  simp only [Ops.gather]
  have e : ((List.range (prod (shape.take axis))).flatMap fun ai => indices.map fun ie =>
        if shape.getD axis 0 ≤ ie then (Except.error "Incorrect index" : Except String (List Nat))
        else Except.ok (Ops.slice xs ((ai * shape.getD axis 0 + ie) * prod (shape.drop (axis + 1)))
          (prod (shape.drop (axis + 1)))))
      = ((List.range (prod (shape.take axis))).flatMap fun ai => indices.map fun ie =>
          Ops.slice xs ((ai * shape.getD axis 0 + ie) * prod (shape.drop (axis + 1)))
            (prod (shape.drop (axis + 1)))).map Except.ok := by
    rw [List.map_flatMap]
    apply Ops.gemm_flatMap_congr
    intro ai _
    rw [List.map_map]
    apply List.map_congr_left
    intro ie hie
    have := hin ie hie
    simp only [Function.comp]
    rw [if_neg (by omega)]
  rw [e, Ops.mapM_id_ok]
  refine ⟨_, rfl, ?_, ?_⟩
  · have hrow : ∀ row ∈ ((List.range (prod (shape.take axis))).flatMap fun ai => indices.map fun ie =>
          Ops.slice xs ((ai * shape.getD axis 0 + ie) * prod (shape.drop (axis + 1)))
            (prod (shape.drop (axis + 1)))), (id row).length = prod (shape.drop (axis + 1)) := by
      intro row hrow
      obtain ⟨ai, hai, hrow⟩ := List.mem_flatMap.mp hrow
      obtain ⟨ie, hie, rfl⟩ := List.mem_map.mp hrow
      apply Ops.slice_length
      rw [hx.1, prod_split_axis shape axis haxis]
      exact Ops.block_bound ai _ ie _ _ (List.mem_range.mp hai) (hin ie hie)
    rw [length_flatMap_const _ _ _ hrow,
      length_flatMap_const _ _ indices.length (fun a _ => by simp), List.length_range, Nat.mul_assoc]
  · intro x hxm
    obtain ⟨row, hrow, hxm⟩ := List.mem_flatMap.mp hxm
    obtain ⟨ai, _, hrow⟩ := List.mem_flatMap.mp hrow
    obtain ⟨ie, _, rfl⟩ := List.mem_map.mp hrow
    exact hx.2 x (mem_slice hxm)

/-! ### InversePermutation -/

theorem inversePermutation_typed (st : ST) (values : List Nat) (hb : ∀ v ∈ values, v < 2 ^ st.bits) :
    (values.Nodup ∧ (∀ v ∈ values, v < values.length) →
      ∃ r, Ops.inversePermutation values = .ok r ∧ flatOk st values.length r) ∧
    (¬ (values.Nodup ∧ ∀ v ∈ values, v < values.length) →
      ∃ e, Ops.inversePermutation values = .error e) := by
  constructor
  · rintro ⟨hnd, hlt⟩
    obtain ⟨r, hr, hl, hget⟩ := Ops.inversePermutation_spec values hnd hlt
    refine ⟨r, hr, hl, ?_⟩
    intro x hx
    obtain ⟨p, hp, rfl⟩ := List.getElem_of_mem hx
    rw [hl] at hp
    have hpm := Ops.mem_of_nodup_lt rfl hnd hlt p hp
    obtain ⟨i, hi, hip⟩ := List.getElem_of_mem hpm
    have h1 := hget i hi
    have e1 : values.getD i 0 = p := by simp [List.getD_eq_getElem?_getD, hi, hip]
    rw [e1] at h1
    have e2 : r.getD p 0 = r[p] := by simp [List.getD_eq_getElem?_getD, hl, hp]
    rw [e2] at h1
    rw [h1]
    have hlast := Ops.mem_of_nodup_lt rfl hnd hlt (values.length - 1) (by omega)
    have := hb _ hlast
    omega
  · intro h
    apply Ops.inversePermutation_err
    by_cases hnd : values.Nodup
    · right
      apply Classical.byContradiction
      intro hne
      apply h
      refine ⟨hnd, fun v hv => ?_⟩
      apply Classical.byContradiction
      intro hge
      exact hne ⟨v, hv, by omega⟩
    · exact Or.inl hnd

/-! ### GetSlice (if the evaluator loop succeeds) -/

theorem getSlice_typed (st : ST) (shape xs : List Nat) (sl : List Slices.SE) (rd r : List Nat)
    (hx : ∀ x ∈ xs, x < 2 ^ st.bits) (h : Ops.getSlice shape xs sl rd = .ok r) :
    flatOk st (prod rd) r := by
  unfold Ops.getSlice at h
  obtain ⟨hl, hget⟩ := Slices.mapM_ok_getD _ _ _ h
  rw [List.length_range] at hl
  refine ⟨hl, ?_⟩
  intro x hxm
  obtain ⟨i, hi, rfl⟩ := List.getElem_of_mem hxm
  have hi' : i < (List.range (prod rd)).length := by rw [List.length_range, ← hl]; exact hi
  have hg := hget i hi'
  simp only [List.getElem_range] at hg
  have e2 : r.getD i 0 = r[i] := by simp [List.getD_eq_getElem?_getD, hi]
  rw [e2] at hg
  split at hg
  · cases hg
  · injection hg with hg
    rw [← hg]
    exact getD_bound (P := fun x => x < 2 ^ st.bits) xs _ (pow_pos2 st) hx

end CCV.EvalOps
