import CCV.Lemmas.SortRadix
/-
  Lemmas for C18, part 4: bit-string keys chunk by chunk; the radix loop; the final rank.
-/
namespace CCV.Sort

/-- order of rows by a key function, input position on ties (`Bool`-valued `stableLt`) -/
def keyLt (key : Nat → List Nat) (k i : Nat) : Bool :=
  lexLt (key k) (key i) || (key k == key i && decide (k < i))

theorem keyLt_true {key : Nat → List Nat} {k i : Nat} :
    keyLt key k i = true ↔ lexLt (key k) (key i) = true ∨ (key k = key i ∧ k < i) := by
  simp [keyLt]

theorem keyLt_iff_stableLt (keys : List (List Nat)) (k i : Nat) :
    keyLt (keys.getD · []) k i = true ↔ stableLt keys k i := keyLt_true

theorem keyLt_sto (key : Nat → List Nat) : IsSTO (keyLt key) := by
  refine ⟨?_, ?_, ?_⟩
  · intro a
    cases h : keyLt key a a with
    | false => rfl
    | true =>
      rcases keyLt_true.mp h with h1 | ⟨_, h1⟩
      · rw [lexLt_irrefl] at h1; cases h1
      · omega
  · intro a b c h1 h2
    rw [keyLt_true] at h1 h2 ⊢
    rcases h1 with h1 | ⟨e1, l1⟩ <;> rcases h2 with h2 | ⟨e2, l2⟩
    · exact Or.inl (lexLt_trans _ _ _ h1 h2)
    · exact Or.inl (e2 ▸ h1)
    · exact Or.inl (e1 ▸ h2)
    · exact Or.inr ⟨e1.trans e2, by omega⟩
  · intro a b
    cases h1 : lexLt (key a) (key b) with
    | true => exact Or.inl (keyLt_true.mpr (Or.inl h1))
    | false =>
      cases h2 : lexLt (key b) (key a) with
      | true => exact Or.inr (Or.inr (keyLt_true.mpr (Or.inl h2)))
      | false =>
        have e := lexLt_tri _ _ h1 h2
        rcases Nat.lt_trichotomy a b with h | h | h
        · exact Or.inl (keyLt_true.mpr (Or.inr ⟨e, h⟩))
        · exact Or.inr (Or.inl h)
        · exact Or.inr (Or.inr (keyLt_true.mpr (Or.inr ⟨e.symm, h⟩)))

/-! ### bit strings, most significant first -/

/-- value of a bit string, most significant first -/
def cv : List Nat → Nat
  | [] => 0
  | b :: bs => b * 2 ^ bs.length + cv bs

theorem foldl_cv (a : List Nat) (acc : Nat) :
    a.foldl (fun acc b => 2 * acc + b) acc = acc * 2 ^ a.length + cv a := by
  induction a generalizing acc with
  | nil => simp [cv]
  | cons x xs ih =>
    simp only [List.foldl_cons, ih, cv, List.length_cons, Nat.pow_succ]
    rw [Nat.add_mul, Nat.add_assoc]
    congr 1
    rw [Nat.mul_comm 2 acc, Nat.mul_assoc, Nat.mul_comm 2]

theorem chunkVal_eq_cv (a : List Nat) : chunkVal a = cv a := by
  simp [chunkVal, foldl_cv]

def IsBits (a : List Nat) : Prop := ∀ x ∈ a, x < 2

theorem cv_lt (a : List Nat) (h : IsBits a) : cv a < 2 ^ a.length := by
  induction a with
  | nil => simp [cv]
  | cons x xs ih =>
    have hx := h x List.mem_cons_self
    have := ih (fun y hy => h y (List.mem_cons_of_mem _ hy))
    simp only [cv, List.length_cons, Nat.pow_succ]
    have : x = 0 ∨ x = 1 := by omega
    rcases this with rfl | rfl <;> omega

theorem lexLt_iff_cv (a b : List Nat) (hl : a.length = b.length) (ha : IsBits a) (hb : IsBits b) :
    (lexLt a b = true ↔ cv a < cv b) ∧ (a = b ↔ cv a = cv b) := by
  induction a generalizing b with
  | nil =>
    cases b with
    | nil => simp [lexLt, cv]
    | cons y ys => simp at hl
  | cons x xs ih =>
    cases b with
    | nil => simp at hl
    | cons y ys =>
      simp only [List.length_cons, Nat.add_right_cancel_iff] at hl
      have hx := ha x List.mem_cons_self
      have hy := hb y List.mem_cons_self
      have hxs : IsBits xs := fun z hz => ha z (List.mem_cons_of_mem _ hz)
      have hys : IsBits ys := fun z hz => hb z (List.mem_cons_of_mem _ hz)
      obtain ⟨ih1, ih2⟩ := ih ys hl hxs hys
      have b1 := cv_lt xs hxs
      have b2 := cv_lt ys hys
      rw [hl] at b1
      simp only [lexLt, cv, hl, List.cons.injEq]
      have hx' : x = 0 ∨ x = 1 := by omega
      have hy' : y = 0 ∨ y = 1 := by omega
      rcases hx' with rfl | rfl <;> rcases hy' with rfl | rfl
      · simp only [Nat.lt_irrefl, if_false, Nat.zero_mul, Nat.zero_add, true_and]
        exact ⟨ih1, ih2⟩
      · simp only [Nat.zero_lt_one, if_true, Nat.zero_mul, Nat.zero_add, Nat.one_mul, true_iff]
        constructor
        · omega
        · constructor
          · intro h; omega
          · intro h; omega
      · simp only [Nat.not_lt_zero, if_false, Nat.zero_lt_one, if_true, Nat.zero_mul, Nat.zero_add, Nat.one_mul]
        constructor
        · constructor
          · intro h; cases h
          · intro h; omega
        · constructor
          · intro h; omega
          · intro h; omega
      · simp only [Nat.lt_irrefl, if_false, Nat.one_mul, true_and]
        constructor
        · rw [ih1]; omega
        · rw [ih2]; omega

theorem lexLt_append (a a' x y : List Nat) (hl : a.length = a'.length) :
    lexLt (a ++ x) (a' ++ y) = (lexLt a a' || (a == a' && lexLt x y)) := by
  induction a generalizing a' with
  | nil =>
    cases a' with
    | nil => simp [lexLt]
    | cons _ _ => simp at hl
  | cons u us ih =>
    cases a' with
    | nil => simp at hl
    | cons v vs =>
      simp only [List.length_cons, Nat.add_right_cancel_iff] at hl
      simp only [List.cons_append, lexLt, ih vs hl]
      by_cases h1 : u < v
      · simp [h1]
      · by_cases h2 : v < u
        · have : ¬ u = v := by omega
          simp [h1, h2, this]
        · have : u = v := by omega
          subst this
          simp

theorem isBits_take {a : List Nat} (h : IsBits a) (n : Nat) : IsBits (a.take n) :=
  fun x hx => h x (List.mem_of_mem_take hx)

theorem isBits_drop {a : List Nat} (h : IsBits a) (n : Nat) : IsBits (a.drop n) :=
  fun x hx => h x (List.mem_of_mem_drop hx)

/-- comparing the suffix from bit `t` = comparing the chunk `[t, t+chunk)` by value, then the
    suffix from `t + chunk` -/
theorem row_step (rk ri : List Nat) (hlen : rk.length = ri.length) (bk : IsBits rk) (bi : IsBits ri)
    (chunk t k i : Nat) :
    (chunkVal ((rk.drop t).take chunk) < chunkVal ((ri.drop t).take chunk) ∨
      (chunkVal ((rk.drop t).take chunk) = chunkVal ((ri.drop t).take chunk) ∧
        (lexLt (rk.drop (t + chunk)) (ri.drop (t + chunk)) = true ∨
          (rk.drop (t + chunk) = ri.drop (t + chunk) ∧ k < i)))) ↔
    (lexLt (rk.drop t) (ri.drop t) = true ∨ (rk.drop t = ri.drop t ∧ k < i)) := by
  have ek : (rk.drop t).take chunk ++ rk.drop (t + chunk) = rk.drop t := by
    have := List.take_append_drop chunk (rk.drop t)
    rw [List.drop_drop] at this
    exact this
  have ei : (ri.drop t).take chunk ++ ri.drop (t + chunk) = ri.drop t := by
    have := List.take_append_drop chunk (ri.drop t)
    rw [List.drop_drop] at this
    exact this
  have hl : ((rk.drop t).take chunk).length = ((ri.drop t).take chunk).length := by
    simp [hlen]
  obtain ⟨c1, c2⟩ := lexLt_iff_cv _ _ hl (isBits_take (isBits_drop bk t) chunk)
    (isBits_take (isBits_drop bi t) chunk)
  rw [chunkVal_eq_cv, chunkVal_eq_cv, ← c1, ← c2]
  conv => rhs; rw [← ek, ← ei, lexLt_append _ _ _ _ hl]
  simp only [Bool.or_eq_true, Bool.and_eq_true, beq_iff_eq]
  constructor
  · rintro (h | ⟨h1, h2 | ⟨h2, h3⟩⟩)
    · exact Or.inl (Or.inl h)
    · exact Or.inl (Or.inr ⟨h1, h2⟩)
    · exact Or.inr ⟨by rw [h1, h2], h3⟩
  · rintro ((h | ⟨h1, h2⟩) | ⟨h1, h2⟩)
    · exact Or.inl h
    · exact Or.inr ⟨h1, Or.inl h2⟩
    · obtain ⟨e1, e2⟩ := List.append_inj h1 hl
      exact Or.inr ⟨e1, Or.inr ⟨e2, h2⟩⟩

/-- well-formed key column: `n` rows of `b` bits -/
def KeysOk (b : Nat) (keys : List (List Nat)) : Prop := ∀ r ∈ keys, r.length = b ∧ IsBits r

/-- the row suffix from bit `t` -/
def sufKey (keys : List (List Nat)) (t k : Nat) : List Nat := (keys.getD k []).drop t

theorem getD_map_rows (keys : List (List Nat)) (f : List Nat → Nat) (k : Nat) (hk : k < keys.length) :
    (keys.map f).getD k 0 = f (keys.getD k []) := by
  simp [List.getD_eq_getElem?_getD, List.getElem?_map, List.getElem?_eq_getElem hk]

theorem getD_mem (keys : List (List Nat)) (k : Nat) (hk : k < keys.length) : keys.getD k [] ∈ keys := by
  simp [List.getD_eq_getElem?_getD, List.getElem?_eq_getElem hk]

theorem step_congr {b : Nat} {keys : List (List Nat)} (hw : KeysOk b keys) (chunk t : Nat) :
    rankOf (lexStep ((keys.map fun r => chunkVal ((r.drop t).take chunk)).getD · 0)
      (keyLt (sufKey keys (t + chunk)))) keys.length = rankOf (keyLt (sufKey keys t)) keys.length := by
  apply rankOf_congr
  intro k i hk hi
  rw [Bool.eq_iff_iff, lexStep_true, keyLt_true, keyLt_true, getD_map_rows _ _ _ hk, getD_map_rows _ _ _ hi]
  obtain ⟨l1, b1⟩ := hw _ (getD_mem keys k hk)
  obtain ⟨l2, b2⟩ := hw _ (getD_mem keys i hi)
  exact row_step _ _ (by omega) b1 b2 chunk t k i

theorem radixLoop_spec {b : Nat} {keys : List (List Nat)} (hw : KeysOk b keys) (chunk m : Nat)
    (pis : List (List Nat)) (hpis : ∀ pi ∈ pis, pi.Perm (List.range keys.length)) :
    radixLoop chunk keys (List.range m).reverse pis (rankOf (keyLt (sufKey keys (m * chunk))) keys.length) =
      some (rankOf (keyLt (sufKey keys 0)) keys.length) := by
  induction m generalizing pis with
  | zero => simp [radixLoop]
  | succ m ih =>
    rw [List.range_succ, List.reverse_append, List.reverse_singleton, List.singleton_append]
    simp only [radixLoop]
    have hpi : (pis.headD (List.range keys.length)).Perm (List.range keys.length) := by
      cases pis with
      | nil => exact List.Perm.refl _
      | cons p ps => exact hpis p List.mem_cons_self
    rw [radixRound_spec (keyLt_sto _) hpi (by simp)]
    have : (m + 1) * chunk = m * chunk + chunk := by rw [Nat.add_mul, Nat.one_mul]
    rw [this, step_congr hw chunk (m * chunk)]
    exact ih pis.tail (fun pi hpi => hpis pi (List.mem_of_mem_tail hpi))

theorem sigma0_congr {b : Nat} {keys : List (List Nat)} (hw : KeysOk b keys) (t : Nat) :
    countingRank (keys.map fun r => chunkVal (r.drop t)) = rankOf (keyLt (sufKey keys t)) keys.length := by
  rw [countingRank_eq, List.length_map]
  apply rankOf_congr
  intro k i hk hi
  rw [Bool.eq_iff_iff, lexStep_true, keyLt_true, getD_map_rows _ _ _ hk, getD_map_rows _ _ _ hi]
  obtain ⟨l1, b1⟩ := hw _ (getD_mem keys k hk)
  obtain ⟨l2, b2⟩ := hw _ (getD_mem keys i hi)
  obtain ⟨c1, c2⟩ := lexLt_iff_cv ((keys.getD k []).drop t) ((keys.getD i []).drop t)
    (by rw [List.length_drop, List.length_drop, l1, l2]) (isBits_drop b1 t) (isBits_drop b2 t)
  simp only [sufKey, chunkVal_eq_cv, idxLt, decide_eq_true_eq]
  rw [c1, c2]

theorem step0_div (chunk b : Nat) : (b - step0Size chunk b) / chunk * chunk = b - step0Size chunk b := by
  apply Nat.div_mul_cancel
  unfold step0Size
  split
  · rename_i h
    exact Nat.dvd_sub (Nat.dvd_of_mod_eq_zero h) (Nat.dvd_refl _)
  · exact Nat.dvd_sub_mod b

/-- the radix loop computes the rank permutation of the stable order by the whole key, whatever
    the chunk width and the shuffles -/
theorem radixRank_spec {b : Nat} {keys : List (List Nat)} (hw : KeysOk b keys) (chunk : Nat)
    (pis : List (List Nat)) (hpis : ∀ pi ∈ pis, pi.Perm (List.range keys.length)) :
    radixRank chunk b keys pis = some (rankOf (keyLt (keys.getD · [])) keys.length) := by
  unfold radixRank
  simp only []
  rw [sigma0_congr hw]
  have := radixLoop_spec hw chunk ((b - step0Size chunk b) / chunk) pis hpis
  rw [step0_div] at this
  rw [this]
  congr 2

end CCV.Sort
