import CCV.Lemmas.InlineBatchDefs
import CCV.Lemmas.Inline
import CCV.Lemmas.InlineMap
import CCV.Lemmas.Shape
import CCV.Lemmas.OpsMat
import CCV.Lemmas.OpsReduce
/-
  C07, batched small-state inliner: the matrix-product half.
  `rowMat β` reads the `D × D` block of row `β` of a batched mapping array as a GF(2) matrix; it is
  a homomorphism from the batched BIT `matmul` (`combine`) to `matMul D`, unconditionally (entries
  are read modulo 2, as the evaluator does), so every prefix algorithm commutes with it
  (Lemmas/InlineMap.lean).
-/
namespace CCV.InlineBatch
open CCV CCV.Shape CCV.Ops CCV.Inline

theorem bcAligned_refl : ∀ (s : List Nat), bcAligned s s
  | [] => trivial
  | _ :: ds => ⟨Or.inr rfl, bcAligned_refl ds⟩

theorem bcOK_self (s : List Nat) : bcOK s s := by
  refine ⟨Nat.le_refl _, ?_⟩
  rw [Nat.sub_self, List.drop_zero]
  exact bcAligned_refl s

theorem zipWith_bc : ∀ {B β : List Nat}, validIdx β B →
    List.zipWith (fun d x => if d = 1 then 0 else x) B β = β
  | [], [], _ => rfl
  | d :: ds, x :: xs, h => by
    simp only [validIdx] at h
    simp only [List.zipWith_cons_cons, zipWith_bc h.2]
    by_cases hd : d = 1
    · simp only [hd, if_true]; congr 1; omega
    · simp only [hd, if_false]
  | [], _ :: _, h => by simp [validIdx] at h
  | _ :: _, [], h => by simp [validIdx] at h

theorem bcIdx_self {B β : List Nat} (h : validIdx β B) : bcIdx B β = β := by
  unfold bcIdx
  rw [validIdx_length h, Nat.sub_self, List.drop_zero]
  exact zipWith_bc h

/-- a BIT dot product is the GF(2) sum of the products of the low bits -/
theorem bit_dot (a b : Nat → Nat) : ∀ (K : Nat),
    ST.bit.ofInt (Spec.sumTo K fun k => ST.bit.toInt (a k) * ST.bit.toInt (b k))
      = (xsum K fun k => (a k % 2 == 1) && (b k % 2 == 1)).toNat := by
  have key : ∀ K, (Spec.sumTo K fun k => ST.bit.toInt (a k) * ST.bit.toInt (b k)) % 2
      = (((xsum K fun k => (a k % 2 == 1) && (b k % 2 == 1)).toNat : Nat) : Int) := by
    intro K
    induction K with
    | zero => simp [Spec.sumTo, xsum]
    | succ K ih =>
      rw [sumTo_succ, Int.add_emod, ih]
      simp only [xsum]
      have ha : ST.bit.toInt (a K) = ((a K % 2 : Nat) : Int) := by simp [ST.toInt, ST.signed, ST.bits]
      have hb : ST.bit.toInt (b K) = ((b K % 2 : Nat) : Int) := by simp [ST.toInt, ST.signed, ST.bits]
      rw [ha, hb]
      rcases Nat.mod_two_eq_zero_or_one (a K) with h1 | h1 <;>
        rcases Nat.mod_two_eq_zero_or_one (b K) with h2 | h2 <;>
        cases hx : (xsum K fun k => (a k % 2 == 1) && (b k % 2 == 1)) <;>
        simp [h1, h2]
  intro K
  have := key K
  simp only [ST.ofInt, ST.bits]
  omega


theorem xsum_congr (p q : Nat → Bool) : ∀ (N : Nat), (∀ k, k < N → p k = q k) → xsum N p = xsum N q
  | 0, _ => rfl
  | N + 1, h => by
    simp only [xsum]
    rw [xsum_congr p q N (fun k hk => h k (by omega)), h N (by omega)]

theorem natOfBits_congr : ∀ (K : Nat) (f g : Nat → Bool), (∀ k, k < K → f k = g k) →
    natOfBits K f = natOfBits K g
  | 0, _, _, _ => rfl
  | K + 1, f, g, h => by
    simp only [natOfBits]
    rw [h 0 (by omega), natOfBits_congr K _ _ (fun k hk => h (k + 1) (by omega))]

theorem natOfBits_lt : ∀ (K : Nat) (f : Nat → Bool), natOfBits K f < 2 ^ K
  | 0, _ => by simp [natOfBits]
  | K + 1, f => by
    simp only [natOfBits]
    have := natOfBits_lt K (fun b => f (b + 1))
    rw [Nat.pow_succ]
    cases f 0 <;> simp <;> omega

/-- the `D × D` block of row `β` of an array of shape `B ++ [D, D]`, read as a GF(2) matrix
    (`false` outside `D × D`) -/
def rowMat (B : List Nat) (D : Nat) (β : List Nat) (A : List Nat) : Mat :=
  fun i j => decide (i < D) && decide (j < D) && (A.getD (flat (β ++ [i, j]) (B ++ [D, D])) 0 % 2 == 1)

theorem toNat_mod_two_beq (b : Bool) : (b.toNat % 2 == 1) = b := by cases b <;> rfl

/-- `MappingCombiner::combine` (batched BIT matmul) acts on every row as the GF(2) matrix product -/
theorem combine_rowMat (B : List Nat) (K : Nat) (β : List Nat) (hβ : validIdx β B) (a b : List Nat) :
    rowMat B (2 ^ K) β (combine B K a b) = matMul (2 ^ K) (rowMat B (2 ^ K) β a) (rowMat B (2 ^ K) β b) := by
  funext i j
  simp only [rowMat, matMul]
  by_cases hi : i < 2 ^ K
  · by_cases hj : j < 2 ^ K
    · simp only [hi, hj, decide_true, Bool.true_and]
      unfold combine
      simp only []
      rw [matmul_spec .bit B B B a b (2 ^ K) (2 ^ K) (2 ^ K) (bcOK_self B) (bcOK_self B)
        (Nat.pow_pos (by omega)) β i j hβ hi hj, bcIdx_self hβ]
      simp only [Spec.ofFlat]
      rw [bit_dot, toNat_mod_two_beq]
      apply xsum_congr
      intro k hk
      simp [hk]
    · simp only [hj, decide_false, Bool.and_false, Bool.false_and]
      rw [xsum_congr _ (fun _ => false) _ (fun k _ => by simp), xsum_false]
  · simp only [hi, decide_false, Bool.false_and]
    rw [xsum_congr _ (fun _ => false) _ (fun k _ => by simp), xsum_false]

theorem flat_row1 (B β : List Nat) (hβ : validIdx β B) (K k : Nat) :
    flat (β ++ [0, k]) (B ++ [1, K]) = flat (β ++ [k]) (B ++ [K]) := by
  rw [flat_append (validIdx_length hβ), flat_append (validIdx_length hβ)]
  simp [flat, prod]

theorem prod_row1 (B : List Nat) (K : Nat) : prod (B ++ [1, K]) = prod (B ++ [K]) := by
  rw [prod_append, prod_append]; simp [prod]

theorem matmul_length (st : ST) (b0 b1 xs ys sr : List Nat) (N K M K' : Nat) :
    (matmul st (b0 ++ [N, K]) xs (b1 ++ [K', M]) ys sr).length = prod sr := by
  unfold matmul
  have h : ¬ ((b0 ++ [N, K]).length = 1 ∧ (b1 ++ [K', M]).length = 1) := by simp
  simp only [h, if_false, List.length_map, List.length_range]

/-- row `β`, bit `k` of `extract_state_from_mapping`: the one-hot row vector of row `β` times the
    row's block of the mapping, decoded with the mask array -/
theorem extractState_entry (B : List Nat) (K : Nat) (β : List Nat) (hβ : validIdx β B) (k : Nat) (hk : k < K)
    (oh0 masks mapping : List Nat)
    (hm : ∀ m, m < 2 ^ K → masks.getD (flat (β ++ [m, k]) (B ++ [2 ^ K, K])) 0 = (m.testBit k).toNat) :
    (extractState B K oh0 masks mapping).getD (flat (β ++ [k]) (B ++ [K])) 0
      = (decodeBit (2 ^ K) (vecMul (2 ^ K)
          (fun j => oh0.getD (flat (β ++ [0, j]) (B ++ [1, 2 ^ K])) 0 % 2 == 1)
          (rowMat B (2 ^ K) β mapping)) k).toNat := by
  have hD : 0 < 2 ^ K := Nat.pow_pos (by omega)
  unfold extractState
  simp only []
  rw [← flat_row1 B β hβ K k,
    matmul_spec .bit B B B _ masks 1 (2 ^ K) K (bcOK_self B) (bcOK_self B) hD β 0 k hβ (by omega) hk,
    bcIdx_self hβ]
  simp only [Spec.ofFlat]
  rw [bit_dot]
  congr 1
  simp only [decodeBit]
  apply xsum_congr
  intro m hmD
  rw [hm m hmD, toNat_mod_two_beq]
  congr 1
  rw [matmul_spec .bit B B B oh0 mapping 1 (2 ^ K) (2 ^ K) (bcOK_self B) (bcOK_self B) hD β 0 m hβ
    (by omega) hmD, bcIdx_self hβ]
  simp only [Spec.ofFlat]
  rw [bit_dot, toNat_mod_two_beq]
  simp only [vecMul]
  apply xsum_congr
  intro i hi
  simp [rowMat, hi, hmD]

theorem extractState_length (B : List Nat) (K : Nat) (oh0 masks mapping : List Nat) :
    (extractState B K oh0 masks mapping).length = prod (B ++ [K]) := by
  unfold extractState
  simp only []
  rw [matmul_length, prod_row1]

end CCV.InlineBatch
