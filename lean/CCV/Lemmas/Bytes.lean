import CCV.Model.Bytes
/- helper lemmas for C13 (little-endian bytes, bit packing) -/
namespace CCV.Bytes

theorem fromLE_leBytes (n k : Nat) : fromLE (leBytes n k) = n % 256 ^ k := by
  induction k generalizing n with
  | zero => simp [leBytes, fromLE, Nat.mod_one]
  | succ k ih =>
    simp only [leBytes, fromLE, ih]
    rw [Nat.pow_succ, Nat.mul_comm (256 ^ k) 256, Nat.mod_mul]

theorem length_leBytes (n k : Nat) : (leBytes n k).length = k := by
  induction k generalizing n with
  | zero => rfl
  | succ k ih => simp [leBytes, ih]

theorem leBytes_lt (n k : Nat) : ∀ b ∈ leBytes n k, b < 256 := by
  induction k generalizing n with
  | zero => simp [leBytes]
  | succ k ih =>
    intro b hb
    simp only [leBytes, List.mem_cons] at hb
    rcases hb with h | h
    · omega
    · exact ih _ _ h

end CCV.Bytes

namespace CCV.Bytes

/-- OR with the sign mask `2^w - 2^i` of a value below `2^i` is addition (disjoint bit ranges). -/
theorem or_mask (r i w : Nat) (hr : r < 2 ^ i) (hiw : i ≤ w) :
    r ||| (2 ^ w - 2 ^ i) = r + (2 ^ w - 2 ^ i) := by
  have h : 2 ^ w - 2 ^ i = 2 ^ i * (2 ^ (w - i) - 1) := by
    rw [Nat.mul_sub, ← Nat.pow_add, Nat.mul_one]
    congr 2; omega
  rw [h, Nat.or_comm, ← Nat.two_pow_add_eq_or_of_lt hr, Nat.add_comm]

end CCV.Bytes

namespace CCV.Bytes

theorem take_leBytes (n k m : Nat) (h : k ≤ m) : (leBytes n k).take m = leBytes n k := by
  apply List.take_of_length_le; rw [length_leBytes]; exact h

end CCV.Bytes

namespace CCV.Bytes

/-! ### chunking of concatenated fixed-size records -/

theorem chunksExact_flatMap {α : Type} (k : Nat) (f : α → List Nat) (xs : List α)
    (hf : ∀ x ∈ xs, (f x).length = k) :
    chunksExact k xs.length (xs.flatMap f) = xs.map f := by
  induction xs with
  | nil => rfl
  | cons a t ih =>
    have ha : (f a).length = k := hf a (by simp)
    simp only [List.length_cons, chunksExact, List.flatMap_cons, List.map_cons]
    rw [List.take_left' ha, List.drop_left' ha, ih (fun x hx => hf x (by simp [hx]))]

theorem length_flatMap_const {α : Type} (k : Nat) (f : α → List Nat) (xs : List α)
    (hf : ∀ x ∈ xs, (f x).length = k) :
    (xs.flatMap f).length = xs.length * k := by
  induction xs with
  | nil => simp
  | cons a t ih =>
    simp only [List.flatMap_cons, List.length_append, List.length_cons]
    rw [ih (fun x hx => hf x (by simp [hx])), hf a (by simp), Nat.succ_mul]; omega

theorem mem_flatMap_lt {α : Type} (f : α → List Nat) (xs : List α)
    (hf : ∀ x ∈ xs, ∀ b ∈ f x, b < 256) : ∀ b ∈ xs.flatMap f, b < 256 := by
  intro b hb
  rcases List.mem_flatMap.1 hb with ⟨x, hx, hbx⟩
  exact hf x hx b hbx

theorem byteLen_pos (st : ST) : 0 < st.byteLen := by cases st <;> decide

theorem vecFromBytesW_ne_bit (w : Nat) (st : ST) (h : st ≠ .bit) (bytes : List Nat) :
    vecFromBytesW w st bytes =
      if bytes.length % st.byteLen != 0 then .error "Incompatible vector and scalar type"
      else .ok ((chunksExact st.byteLen (bytes.length / st.byteLen) bytes).map
        (fun c => signPad w st (fromLE (c.take (w / 8))))) := by
  cases st <;> first | exact absurd rfl h | rfl

theorem vecToBytes_ne_bit (st : ST) (h : st ≠ .bit) (xs : List Int) :
    vecToBytes st xs = .ok (xs.flatMap (fun x => leBytes (asU128 x) st.byteLen)) := by
  cases st <;> first | exact absurd rfl h | rfl

/-- reading back concatenated chunks of `byteLen` bytes each -/
theorem vecFromBytesW_flatMap {α : Type} (w : Nat) (st : ST) (h : st ≠ .bit) (f : α → List Nat)
    (xs : List α) (hf : ∀ x ∈ xs, (f x).length = st.byteLen) :
    vecFromBytesW w st (xs.flatMap f)
      = .ok (xs.map fun x => signPad w st (fromLE ((f x).take (w / 8)))) := by
  have hl := length_flatMap_const st.byteLen f xs hf
  have hpos := byteLen_pos st
  have hm : (xs.flatMap f).length % st.byteLen = 0 := by rw [hl]; exact Nat.mul_mod_left _ _
  have hd : (xs.flatMap f).length / st.byteLen = xs.length := by
    rw [hl]; exact Nat.mul_div_cancel _ hpos
  rw [vecFromBytesW_ne_bit w st h, hm, hd, chunksExact_flatMap _ f xs hf]
  simp [List.map_map, Function.comp_def]

end CCV.Bytes

namespace CCV.Bytes

theorem take_leBytes' (n k m : Nat) : (leBytes n k).take m = leBytes n (min m k) := by
  induction k generalizing n m with
  | zero => simp [leBytes]
  | succ k ih =>
    cases m with
    | zero => simp [leBytes]
    | succ m =>
      simp only [leBytes, List.take_succ_cons, ih]
      rw [Nat.succ_min_succ]; simp [leBytes]

end CCV.Bytes

/-! ### bit packing -/

namespace CCV.Bytes

/-- `k` low bits of `n`, LSB first -/
def unpackN : Nat → Nat → List Nat
  | _, 0 => []
  | n, k + 1 => n % 2 :: unpackN (n / 2) k

theorem unpackByte_eq (b : Nat) : unpackByte b = unpackN b 8 := by
  simp [unpackByte, unpackN, Nat.div_div_eq_div_mul]

theorem unpackN_zero (k : Nat) : unpackN 0 k = List.replicate k 0 := by
  induction k with
  | zero => rfl
  | succ k ih => simp [unpackN, ih, List.replicate_succ]

theorem unpackN_packBits (c : List Nat) (hc : ∀ y ∈ c, y ≤ 1) (k : Nat) (hk : c.length ≤ k) :
    unpackN (packBits c) k = c ++ List.replicate (k - c.length) 0 := by
  induction c generalizing k with
  | nil => simp [packBits, unpackN_zero]
  | cons a t ih =>
    cases k with
    | zero => simp at hk
    | succ k =>
      have ha : a ≤ 1 := hc a (by simp)
      have h1 : (a + 2 * packBits t) % 2 = a := by omega
      have h2 : (a + 2 * packBits t) / 2 = packBits t := by omega
      simp only [packBits, unpackN, h1, h2, List.cons_append, List.length_cons]
      rw [ih (fun y hy => hc y (by simp [hy])) k (by simpa using hk)]
      simp

theorem packBits_lt (c : List Nat) (hc : ∀ y ∈ c, y ≤ 1) : packBits c < 2 ^ c.length := by
  induction c with
  | nil => simp [packBits]
  | cons a t ih =>
    have ha : a ≤ 1 := hc a (by simp)
    have := ih (fun y hy => hc y (by simp [hy]))
    simp only [packBits, List.length_cons, Nat.pow_succ]
    omega

theorem chunks8_nil {α : Type} : chunks8 ([] : List α) = [] := by
  rw [chunks8]; simp

theorem chunks8_ne_nil {α : Type} (xs : List α) (h : xs ≠ []) :
    chunks8 xs = xs.take 8 :: chunks8 (xs.drop 8) := by
  rw [chunks8]; simp [h]

theorem chunks8_map {α β : Type} (f : α → β) (xs : List α) :
    chunks8 (xs.map f) = (chunks8 xs).map (List.map f) := by
  fun_induction chunks8 xs with
  | case1 => simp [chunks8_nil]
  | case2 xs h ih =>
    rw [chunks8_ne_nil _ (by simpa using h), List.map_cons, ← List.map_take, ← List.map_drop, ih]

theorem length_chunks8 {α : Type} (xs : List α) : (chunks8 xs).length = (xs.length + 7) / 8 := by
  fun_induction chunks8 xs with
  | case1 => simp
  | case2 xs h ih =>
    have : 0 < xs.length := List.length_pos_iff.2 h
    simp only [List.length_cons, ih, List.length_drop]; omega

theorem mem_chunks8 {α : Type} (xs : List α) : ∀ c ∈ chunks8 xs, c.length ≤ 8 ∧ ∀ y ∈ c, y ∈ xs := by
  fun_induction chunks8 xs with
  | case1 => simp
  | case2 xs h ih =>
    intro c hc
    rcases List.mem_cons.1 hc with rfl | hc
    · exact ⟨by simp [List.length_take]; omega, fun y hy => List.mem_of_mem_take hy⟩
    · exact ⟨(ih c hc).1, fun y hy => List.mem_of_mem_drop ((ih c hc).2 y hy)⟩

/-- unpacking the packed chunks gives the bits back, followed by zero stray bits -/
theorem unpack_pack_chunks8 (ys : List Nat) (hy : ∀ y ∈ ys, y ≤ 1) :
    ((chunks8 ys).map packBits).flatMap unpackByte
      = ys ++ List.replicate (8 * (chunks8 ys).length - ys.length) 0 := by
  fun_induction chunks8 ys with
  | case1 => simp
  | case2 ys h ih =>
    have ih := ih (fun y hy' => hy y (List.mem_of_mem_drop hy'))
    have hpos : 0 < ys.length := List.length_pos_iff.2 h
    simp only [List.map_cons, List.flatMap_cons, List.length_cons]
    rw [ih, unpackByte_eq, unpackN_packBits _ (fun y hy' => hy y (List.mem_of_mem_take hy')) 8
      (by simp [List.length_take]; omega)]
    by_cases h8 : 8 ≤ ys.length
    · have e1 : 8 - (List.take 8 ys).length = 0 := by simp [List.length_take]; omega
      have e2 : 8 * (chunks8 (List.drop 8 ys)).length - (List.drop 8 ys).length
          = 8 * ((chunks8 (List.drop 8 ys)).length + 1) - ys.length := by
        simp [List.length_drop]; omega
      rw [e1, e2]; simp [← List.append_assoc]
    · have hd : List.drop 8 ys = [] := List.drop_eq_nil_of_le (by omega)
      have ht : List.take 8 ys = ys := List.take_of_length_le (by omega)
      rw [hd, ht, chunks8_nil]; simp

end CCV.Bytes
namespace CCV.Bytes
theorem all_isBit_iff (xs : List Int) : xs.all isBit = true ↔ ∀ x ∈ xs, x = 0 ∨ x = 1 := by
  simp [isBit, List.all_eq_true]

theorem bitsToBytes_ok (xs : List Int) (h : ∀ x ∈ xs, x = 0 ∨ x = 1) :
    bitsToBytes xs = .ok ((chunks8 (xs.map Int.toNat)).map packBits) := by
  rw [bitsToBytes, if_pos ((all_isBit_iff xs).2 h), chunks8_map, List.map_map]; rfl

theorem toNat_bit_le (xs : List Int) (h : ∀ x ∈ xs, x = 0 ∨ x = 1) : ∀ y ∈ xs.map Int.toNat, y ≤ 1 := by
  intro y hy
  rcases List.mem_map.1 hy with ⟨x, hx, rfl⟩
  rcases h x hx with rfl | rfl <;> decide
end CCV.Bytes


/-! ### layout -/

namespace CCV.Bytes
theorem bits_eq_byteLen (st : ST) (h : st ≠ .bit) : st.bits = 8 * st.byteLen := by
  cases st <;> first | exact absurd rfl h | rfl

theorem vecFromBytesW_ok_iff (w : Nat) (st : ST) (bs : List Nat) :
    (∃ r, vecFromBytesW w st bs = .ok r) ↔ bs.length % st.byteLen = 0 := by
  by_cases h : st = .bit
  · subst h; simp [vecFromBytesW, ST.byteLen, ST.bits, Nat.mod_one]
  · rw [vecFromBytesW_ne_bit w st h]
    by_cases hm : bs.length % st.byteLen = 0
    · simp [hm]
    · simp [hm]
end CCV.Bytes

/-! ### the u64 writer -/

namespace CCV.Bytes

theorem leBytes_congr (n m k : Nat) (h : n % 256 ^ k = m % 256 ^ k) : leBytes n k = leBytes m k := by
  induction k generalizing n m with
  | zero => rfl
  | succ k ih =>
    rw [Nat.pow_succ, Nat.mul_comm, Nat.mod_mul, Nat.mod_mul] at h
    have h1 : n % 256 = m % 256 := by omega
    have h2 : n / 256 % 256 ^ k = m / 256 % 256 ^ k := by omega
    simp only [leBytes, h1, ih _ _ h2]

theorem leBytes_add (n a b : Nat) : leBytes n (a + b) = leBytes n a ++ leBytes (n / 256 ^ a) b := by
  induction a generalizing n with
  | zero => simp [leBytes]
  | succ a ih =>
    rw [Nat.succ_add]
    simp only [leBytes, ih, List.cons_append]
    rw [Nat.pow_succ, Nat.mul_comm, Nat.div_div_eq_div_mul]

theorem asU64_eq (x : Int) : asU64 x = asU128 x % 2 ^ 64 := by
  simp only [asU64, asU128]; omega

theorem elemU64_le8 (bl : Nat) (h : bl ≤ 8) (x : Int) :
    elemU64ToBytes bl x = leBytes (asU128 x) bl := by
  have h1 : min bl 8 = bl := Nat.min_eq_left h
  have h2 : bl - 8 = 0 := by omega
  simp only [elemU64ToBytes, h1, h2, List.replicate_zero, List.append_nil]
  apply leBytes_congr
  rw [asU64_eq]
  have : (2 : Nat) ^ 64 = 256 ^ 8 := by decide
  rw [this]
  exact Nat.mod_mod_of_dvd _ (Nat.pow_dvd_pow 256 h)

theorem elemU64_16 (x : Int)
    (h : (0 ≤ x ∧ x < 2 ^ 64) ∨ (-(2 ^ 64) ≤ x ∧ x < 0) ∨ (2 ^ 128 - 2 ^ 64 ≤ x ∧ x < 2 ^ 128)) :
    elemU64ToBytes 16 x = leBytes (asU128 x) 16 := by
  have e : leBytes (asU128 x) 16 = leBytes (asU128 x) 8 ++ leBytes (asU128 x / 256 ^ 8) 8 :=
    leBytes_add _ 8 8
  have e1 : leBytes (asU64 x) 8 = leBytes (asU128 x) 8 := by
    apply leBytes_congr; rw [asU64_eq]; omega
  have e0 : elemU64ToBytes 16 x = leBytes (asU64 x) 8 ++
      List.replicate 8 (if decide (0 ≤ x) && decide (x < (2 ^ 64 : Int)) then 0 else 255) := rfl
  rw [e, e0, e1]
  congr 1
  by_cases hx : 0 ≤ x ∧ x < 2 ^ 64
  · have : asU128 x / 256 ^ 8 = 0 := by simp only [asU128]; omega
    have hp : (decide (0 ≤ x) && decide (x < 2 ^ 64)) = true := by
      simp; omega
    rw [this, hp]; decide
  · have : asU128 x / 256 ^ 8 = 2 ^ 64 - 1 := by simp only [asU128]; omega
    have hp : (decide (0 ≤ x) && decide (x < 2 ^ 64)) = false := by
      simp; omega
    rw [this, hp]; decide
end CCV.Bytes
namespace CCV.Bytes
theorem flatMap_congr' {α β : Type} (f g : α → List β) (xs : List α) (h : ∀ x ∈ xs, f x = g x) :
    xs.flatMap f = xs.flatMap g := by
  induction xs with
  | nil => rfl
  | cons a t ih =>
    simp only [List.flatMap_cons]
    rw [h a (by simp), ih (fun x hx => h x (by simp [hx]))]
end CCV.Bytes
