import CCV.Model.Bytes
/- helper lemmas for C13 (little-endian bytes, bit packing) -/
namespace CCV.Bytes

theorem fromLE_leBytes (n k : Nat) : fromLE (leBytes n k) = n % 256 ^ k := by
  induction k generalizing n with
  | zero => simp [leBytes, fromLE, Nat.mod_one]
  | succ k ih =>
    simp only [leBytes, fromLE, ih]
    rw [Nat.pow_succ, Nat.mul_comm (256 ^ k) 256, Nat.mod_mul]

theorem length_leBytes (n k : Nat) : (leBytes n k).length = k := by
  induction k generalizing n with
  | zero => rfl
  | succ k ih => simp [leBytes, ih]

theorem leBytes_lt (n k : Nat) : ∀ b ∈ leBytes n k, b < 256 := by
  induction k generalizing n with
  | zero => simp [leBytes]
  | succ k ih =>
    intro b hb
    simp only [leBytes, List.mem_cons] at hb
    rcases hb with h | h
    · omega
    · exact ih _ _ h

end CCV.Bytes

namespace CCV.Bytes

/-- OR with the sign mask `2^w - 2^i` of a value below `2^i` is addition (disjoint bit ranges). -/
theorem or_mask (r i w : Nat) (hr : r < 2 ^ i) (hiw : i ≤ w) :
    r ||| (2 ^ w - 2 ^ i) = r + (2 ^ w - 2 ^ i) := by
  have h : 2 ^ w - 2 ^ i = 2 ^ i * (2 ^ (w - i) - 1) := by
    rw [Nat.mul_sub, ← Nat.pow_add, Nat.mul_one]
    congr 2; omega
  rw [h, Nat.or_comm, ← Nat.two_pow_add_eq_or_of_lt hr, Nat.add_comm]

end CCV.Bytes

namespace CCV.Bytes

theorem take_leBytes (n k m : Nat) (h : k ≤ m) : (leBytes n k).take m = leBytes n k := by
  apply List.take_of_length_le; rw [length_leBytes]; exact h

end CCV.Bytes
