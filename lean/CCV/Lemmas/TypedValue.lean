import CCV.Model.TypedValue
import CCV.Lemmas.Bytes
/- helper definitions and lemmas for the container / JSON part of C13 -/
namespace CCV.TV
open CCV CCV.Bytes

/-! ### the layout predicate of the property: byte length for scalars and arrays, same nesting
    structure for vectors, tuples and named tuples -/
mutual
inductive Layout : Ty → Val → Prop
  | scalar (st : ST) (bs : List Nat) : bs.length = (st.bits + 7) / 8 → Layout (.scalar st) (.bytes bs)
  | array (sh : List Nat) (st : ST) (bs : List Nat) :
      bs.length = (numel sh * st.bits + 7) / 8 → Layout (.array sh st) (.bytes bs)
  | vector (n : Nat) (t : Ty) (vs : List Val) :
      vs.length = n → (∀ v ∈ vs, Layout t v) → Layout (.vector n t) (.vec vs)
  | tuple (ts : List Ty) (vs : List Val) : LayoutL ts vs → Layout (.tuple ts) (.vec vs)
  | named (fs : List (String × Ty)) (vs : List Val) : LayoutL (fs.map (·.2)) vs → Layout (.named fs) (.vec vs)
inductive LayoutL : List Ty → List Val → Prop
  | nil : LayoutL [] []
  | cons (t : Ty) (v : Val) (ts : List Ty) (vs : List Val) : Layout t v → LayoutL ts vs → LayoutL (t :: ts) (v :: vs)
end

theorem numel_nil : numel [] = 1 := rfl

mutual
theorem layout_of_checkB : ∀ (t : Ty) (v : Val), checkB t v = true → Layout t v
  | .scalar st, .bytes bs, h => by
    simp only [checkB, checkArrayType, numel_nil, beq_iff_eq] at h
    exact .scalar st bs (by omega)
  | .array sh st, .bytes bs, h => by
    simp only [checkB, checkArrayType, beq_iff_eq] at h
    exact .array sh st bs h
  | .vector n t, .vec vs, h => by
    simp only [checkB, Bool.and_eq_true, decide_eq_true_eq, List.all_eq_true] at h
    exact .vector n t vs h.1 (fun v hv => layout_of_checkB t v (h.2 v hv))
  | .tuple ts, .vec vs, h => by
    simp only [checkB] at h
    exact .tuple ts vs (layoutL_of_checkL ts vs h)
  | .named fs, .vec vs, h => by
    simp only [checkB] at h
    exact .named fs vs (layoutL_of_checkN fs vs h)
  | .scalar _, .vec _, h => by simp [checkB] at h
  | .array _ _, .vec _, h => by simp [checkB] at h
  | .vector _ _, .bytes _, h => by simp [checkB] at h
  | .tuple _, .bytes _, h => by simp [checkB] at h
  | .named _, .bytes _, h => by simp [checkB] at h
theorem layoutL_of_checkL : ∀ (ts : List Ty) (vs : List Val), checkL ts vs = true → LayoutL ts vs
  | [], [], _ => .nil
  | t :: ts, v :: vs, h => by
    simp only [checkL, Bool.and_eq_true] at h
    exact .cons t v ts vs (layout_of_checkB t v h.1) (layoutL_of_checkL ts vs h.2)
  | [], _ :: _, h => by simp [checkL] at h
  | _ :: _, [], h => by simp [checkL] at h
theorem layoutL_of_checkN : ∀ (fs : List (String × Ty)) (vs : List Val),
    checkN fs vs = true → LayoutL (fs.map (·.2)) vs
  | [], [], _ => .nil
  | (_, t) :: fs, v :: vs, h => by
    simp only [checkN, Bool.and_eq_true] at h
    exact .cons t v _ vs (layout_of_checkB t v h.1) (layoutL_of_checkN fs vs h.2)
  | [], _ :: _, h => by simp [checkN] at h
  | _ :: _, [], h => by simp [checkN] at h
end

mutual
theorem checkB_of_layout : ∀ (t : Ty) (v : Val), Layout t v → checkB t v = true
  | .scalar st, .bytes bs, h => by
    cases h with | scalar _ _ h => simp only [checkB, checkArrayType, numel_nil, beq_iff_eq]; omega
  | .array sh st, .bytes bs, h => by
    cases h with | array _ _ _ h => simp only [checkB, checkArrayType, beq_iff_eq]; exact h
  | .vector n t, .vec vs, h => by
    cases h with
    | vector _ _ _ hl hv =>
      simp only [checkB, Bool.and_eq_true, decide_eq_true_eq, List.all_eq_true]
      exact ⟨hl, fun v hm => checkB_of_layout t v (hv v hm)⟩
  | .tuple ts, .vec vs, h => by
    cases h with | tuple _ _ h => simp only [checkB]; exact checkL_of_layoutL ts vs h
  | .named fs, .vec vs, h => by
    cases h with | named _ _ h => simp only [checkB]; exact checkN_of_layoutL fs vs h
  | .scalar _, .vec _, h => by cases h
  | .array _ _, .vec _, h => by cases h
  | .vector _ _, .bytes _, h => by cases h
  | .tuple _, .bytes _, h => by cases h
  | .named _, .bytes _, h => by cases h
theorem checkL_of_layoutL : ∀ (ts : List Ty) (vs : List Val), LayoutL ts vs → checkL ts vs = true
  | [], [], _ => rfl
  | t :: ts, v :: vs, h => by
    cases h with
    | cons _ _ _ _ h1 h2 =>
      simp only [checkL, Bool.and_eq_true]
      exact ⟨checkB_of_layout t v h1, checkL_of_layoutL ts vs h2⟩
  | [], _ :: _, h => by cases h
  | _ :: _, [], h => by cases h
theorem checkN_of_layoutL : ∀ (fs : List (String × Ty)) (vs : List Val),
    LayoutL (fs.map (·.2)) vs → checkN fs vs = true
  | [], [], _ => rfl
  | (_, t) :: fs, v :: vs, h => by
    cases h with
    | cons _ _ _ _ h1 h2 =>
      simp only [checkN, Bool.and_eq_true]
      exact ⟨checkB_of_layout t v h1, checkN_of_layoutL fs vs h2⟩
  | [], _ :: _, h => by cases h
  | _ :: _, [], h => by cases h
end

mutual
theorem checkB_zeroOf : ∀ t : Ty, checkB t (zeroOf t) = true
  | .scalar st => by simp [checkB, zeroOf, checkArrayType]
  | .array sh st => by simp [checkB, zeroOf, checkArrayType]
  | .vector n t => by
    simp only [checkB, zeroOf, Bool.and_eq_true, decide_eq_true_eq, List.all_eq_true, List.length_replicate, true_and]
    intro v hv
    rw [List.eq_of_mem_replicate hv]
    exact checkB_zeroOf t
  | .tuple ts => by simp only [checkB, zeroOf]; exact checkL_zeroOfL ts
  | .named fs => by simp only [checkB, zeroOf]; exact checkN_zeroOfN fs
theorem checkL_zeroOfL : ∀ ts : List Ty, checkL ts (zeroOfL ts) = true
  | [] => rfl
  | t :: ts => by simp only [checkL, zeroOfL, Bool.and_eq_true]; exact ⟨checkB_zeroOf t, checkL_zeroOfL ts⟩
theorem checkN_zeroOfN : ∀ fs : List (String × Ty), checkN fs (zeroOfN fs) = true
  | [] => rfl
  | (_, t) :: fs => by simp only [checkN, zeroOfN, Bool.and_eq_true]; exact ⟨checkB_zeroOf t, checkN_zeroOfN fs⟩
end

/-! ### numbers: decode, print, parse, encode -/

theorem leBytes_fromLE (bs : List Nat) (h : ∀ b ∈ bs, b < 256) : leBytes (fromLE bs) bs.length = bs := by
  induction bs with
  | nil => rfl
  | cons b bs ih =>
    have hb := h b (by simp)
    have ih' := ih (fun x hx => h x (by simp [hx]))
    simp only [fromLE, List.length_cons, leBytes]
    have e1 : (b + 256 * fromLE bs) % 256 = b := by omega
    have e2 : (b + 256 * fromLE bs) / 256 = fromLE bs := by omega
    rw [e1, e2, ih']

theorem fromLE_lt (bs : List Nat) (h : ∀ b ∈ bs, b < 256) : fromLE bs < 256 ^ bs.length := by
  induction bs with
  | nil => simp [fromLE]
  | cons b bs ih =>
    have hb := h b (by simp)
    have ih' := ih (fun x hx => h x (by simp [hx]))
    simp only [fromLE, List.length_cons, Nat.pow_succ]
    omega

theorem toInt_range (st : ST) (r : Nat) :
    -((2 ^ 127 : Nat) : Int) ≤ st.toInt r ∧ st.toInt r < ((2 ^ 128 : Nat) : Int) := by
  cases st <;> simp only [ST.toInt, ST.signed, ST.bits, Bool.false_eq_true, false_and, if_false, true_and] <;>
    first | omega | (by_cases h : 2 ^ (8 - 1) ≤ r % 2 ^ 8 <;> simp only [h, if_true, if_false] <;> omega) | (by_cases h : 2 ^ (16 - 1) ≤ r % 2 ^ 16 <;> simp only [h, if_true, if_false] <;> omega) | (by_cases h : 2 ^ (32 - 1) ≤ r % 2 ^ 32 <;> simp only [h, if_true, if_false] <;> omega) | (by_cases h : 2 ^ (64 - 1) ≤ r % 2 ^ 64 <;> simp only [h, if_true, if_false] <;> omega) | (by_cases h : 2 ^ (128 - 1) ≤ r % 2 ^ 128 <;> simp only [h, if_true, if_false] <;> omega)

theorem numToU128_of_range (y : Int) (h1 : -((2 ^ 127 : Nat) : Int) ≤ y) (h2 : y < ((2 ^ 128 : Nat) : Int)) :
    numToU128 y = some (asU128 y) := by
  unfold numToU128 asU128
  by_cases h : 0 ≤ y
  · rw [if_pos ⟨h, h2⟩]; congr 1; omega
  · rw [if_neg (by omega), if_pos (by omega)]; congr 1; omega

/-- the integer printed for a stored residue is in the range the deserializer accepts -/
theorem numToU128_toInt (st : ST) (r : Nat) :
    numToU128 (st.toInt r) = some (asU128 (st.toInt r)) :=
  numToU128_of_range _ (toInt_range st r).1 (toInt_range st r).2

/-- … and denotes the same residue modulo the width of the type -/
theorem asU128_toInt_mod (st : ST) (r : Nat) :
    asU128 (st.toInt r) % 2 ^ st.bits = r % 2 ^ st.bits := by
  cases st <;> simp only [ST.toInt, ST.signed, ST.bits, asU128, Bool.false_eq_true, false_and, if_false, true_and] <;>
    first | omega | (by_cases h : 2 ^ (8 - 1) ≤ r % 2 ^ 8 <;> simp only [h, if_true, if_false] <;> omega) | (by_cases h : 2 ^ (16 - 1) ≤ r % 2 ^ 16 <;> simp only [h, if_true, if_false] <;> omega) | (by_cases h : 2 ^ (32 - 1) ≤ r % 2 ^ 32 <;> simp only [h, if_true, if_false] <;> omega) | (by_cases h : 2 ^ (64 - 1) ≤ r % 2 ^ 64 <;> simp only [h, if_true, if_false] <;> omega) | (by_cases h : 2 ^ (128 - 1) ≤ r % 2 ^ 128 <;> simp only [h, if_true, if_false] <;> omega)


theorem asU128_ofNat (n : Nat) : asU128 ((n : Nat) : Int) = n % 2 ^ 128 := by
  simp only [asU128]; omega

theorem signPad_mod (st : ST) (R : Nat) (hR : R < 2 ^ st.bits) :
    signPad 128 st R % 2 ^ st.bits = R := by
  cases st <;> simp only [signPad, ST.byteLen, ST.bits, ST.signed, Bool.false_eq_true, false_and, if_false, true_and] at hR ⊢
  · omega
  · omega
  · have := or_mask R 8 128 (by omega) (by decide)
    simp at this ⊢; split <;> omega
  · omega
  · have := or_mask R 16 128 (by omega) (by decide)
    simp at this ⊢
    by_cases hh : R / 32768 = 1 <;> simp only [hh, if_true, if_false] <;> omega
  · omega
  · have := or_mask R 32 128 (by omega) (by decide)
    simp at this ⊢
    by_cases hh : R / 2147483648 = 1 <;> simp only [hh, if_true, if_false] <;> omega
  · omega
  · have := or_mask R 64 128 (by omega) (by decide)
    simp at this ⊢
    by_cases hh : R / 9223372036854775808 = 1 <;> simp only [hh, if_true, if_false] <;> omega
  · omega
  · simp; omega

theorem pow256_byteLen (st : ST) (h : st ≠ .bit) : 256 ^ st.byteLen = 2 ^ st.bits := by
  cases st <;> first | exact absurd rfl h | decide

theorem bytesEq_refl (n : Nat) (a : List Nat) : bytesEq n a a = true := by
  simp [bytesEq]

/-- one element, non-bit: decode `byteLen` bytes, print, parse, encode — the same bytes come back -/
theorem elem_back (st : ST) (h : st ≠ .bit) (c : List Nat) (hl : c.length = st.byteLen)
    (hb : ∀ b ∈ c, b < 256) :
    ∃ x, numToU128 (castTo st (signPad 128 st (fromLE (c.take (128 / 8))))) = some x ∧
      leBytes (asU128 ((x : Nat) : Int)) st.byteLen = c := by
  have hct : castTo st = st.toInt := by
    funext r; cases st <;> first | exact absurd rfl h | rfl
  have htake : c.take (128 / 8) = c := by
    apply List.take_of_length_le; rw [hl]; cases st <;> decide
  have hR : fromLE c < 2 ^ st.bits := by
    have := fromLE_lt c hb
    rw [hl, pow256_byteLen st h] at this; exact this
  refine ⟨_, by rw [hct]; exact numToU128_toInt st _, ?_⟩
  rw [htake, asU128_ofNat]
  have e1 := asU128_toInt_mod st (signPad 128 st (fromLE c))
  rw [signPad_mod st _ hR] at e1
  have e3 := leBytes_fromLE c hb
  rw [hl] at e3
  refine Eq.trans (leBytes_congr _ (fromLE c) _ ?_) e3
  rw [pow256_byteLen st h]
  have hlt : asU128 (st.toInt (signPad 128 st (fromLE c))) < 2 ^ 128 := by
    simp only [asU128]; omega
  have hbits : 2 ^ st.bits ∣ 2 ^ 128 := by
    cases st <;> first | exact absurd rfl h | (exact Nat.pow_dvd_pow 2 (by decide))
  rw [Nat.mod_mod_of_dvd _ hbits, e1, Nat.mod_eq_of_lt hR]

end CCV.TV
