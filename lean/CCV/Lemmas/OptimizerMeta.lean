import CCV.Lemmas.OptimizerPasses
/-
  Partial results about the meta-operation pass: it only appends non-Input nodes besides the copy
  of each source node, hence preserves the input interface.
-/
namespace CCV.Optimizer

/-- `out'` extends `out` by nodes that are neither Input nor randomising nor PRF nodes -/
def NoInputExt (out out' : List Node) : Prop :=
  ∃ ext, out' = out ++ ext ∧ ∀ n ∈ ext, n.op.isInput = false ∧ n.op.isRandom = false ∧ n.op.isPrf = false

theorem NoInputExt.refl (out : List Node) : NoInputExt out out := ⟨[], by simp, by simp⟩

theorem NoInputExt.trans {a b c : List Node} (h1 : NoInputExt a b) (h2 : NoInputExt b c) :
    NoInputExt a c := by
  obtain ⟨e1, rfl, g1⟩ := h1
  obtain ⟨e2, rfl, g2⟩ := h2
  exact ⟨e1 ++ e2, by simp, fun n hn => by
    rcases List.mem_append.mp hn with h | h
    · exact g1 n h
    · exact g2 n h⟩

theorem NoInputExt.snoc (out : List Node) (n : Node)
    (h : n.op.isInput = false ∧ n.op.isRandom = false ∧ n.op.isPrf = false) :
    NoInputExt out (out ++ [n]) := ⟨[n], rfl, by simpa using h⟩

theorem vget_ext : ∀ fuel : Nat,
    (∀ out p index idx r out', vget fuel out p index idx = some (r, out') → NoInputExt out out') ∧
    (∀ out vecs index idx acc r out', vgetAll fuel out vecs index idx acc = some (r, out') →
      NoInputExt out out') := by
  intro fuel
  induction fuel with
  | zero =>
    constructor
    · intro out p index idx r out' h; simp [vget] at h
    · intro out vecs index idx acc r out' h; simp [vgetAll] at h
  | succ f ih =>
    constructor
    · intro out p index idx r out' h
      unfold vget at h
      split at h
      · split at h
        · simp at h; obtain ⟨_, rfl⟩ := h; exact NoInputExt.refl _
        · cases h
      · split at h <;> simp at h <;> obtain ⟨_, rfl⟩ := h <;>
          exact NoInputExt.snoc _ _ (by simp [mkNode, Op.isInput, Op.isRandom, Op.isPrf])
      · simp at h; obtain ⟨_, rfl⟩ := h
        exact NoInputExt.snoc _ _ (by simp [mkNode, Op.isInput, Op.isRandom, Op.isPrf])
      · split at h
        · cases h
        · rename_i out1 hv
          simp at h; obtain ⟨_, rfl⟩ := h
          exact ih.2 _ _ _ _ _ _ _ hv
        · rename_i sl out1 hv
          simp at h; obtain ⟨_, rfl⟩ := h
          exact (ih.2 _ _ _ _ _ _ _ hv).trans (NoInputExt.snoc _ _ (by simp [mkNode, Op.isInput, Op.isRandom, Op.isPrf]))
      · simp at h; obtain ⟨_, rfl⟩ := h; exact NoInputExt.refl _
    · intro out vecs index idx acc r out' h
      unfold vgetAll at h
      split at h
      · simp at h; obtain ⟨_, rfl⟩ := h; exact NoInputExt.refl _
      · split at h
        · cases h
        · rename_i out1 hv
          simp at h; obtain ⟨_, rfl⟩ := h
          exact ih.1 _ _ _ _ _ _ hv
        · rename_i s out1 hv
          exact (ih.1 _ _ _ _ _ _ hv).trans (ih.2 _ _ _ _ _ _ _ h)

theorem applyMeta_ext (fuel : Nat) (out : List Node) (op : Op) (deps : List PN) (r : Option PN)
    (out' : List Node) (h : applyMeta fuel out op deps = some (r, out')) : NoInputExt out out' := by
  unfold applyMeta at h
  split at h
  all_goals (try (split at h))
  all_goals (try (split at h))
  all_goals first
    | (cases h; done)
    | (simp at h; obtain ⟨_, rfl⟩ := h; exact NoInputExt.refl _)
    | exact (vget_ext fuel).1 _ _ _ _ _ _ h

theorem inputsOf_append (a b : List Node) : inputsOf (a ++ b) = inputsOf a ++ inputsOf b := by
  simp [inputsOf]

theorem inputsOf_noInput (ext : List Node) (h : ∀ n ∈ ext, n.op.isInput = false) : inputsOf ext = [] := by
  induction ext with
  | nil => rfl
  | cons x r ih =>
    have hx := h x (by simp)
    simp only [inputsOf, List.filter, hx]
    exact ih (fun n hn => h n (by simp [hn]))

theorem NoInputExt.inputsOf {out out' : List Node} (h : NoInputExt out out') :
    inputsOf out' = inputsOf out := by
  obtain ⟨ext, rfl, g⟩ := h
  rw [inputsOf_append, inputsOf_noInput ext (fun n hn => (g n hn).1)]; simp

theorem inputsOf_modify (out : List Node) (k : Nat) (f : Node → Node)
    (hf : ∀ n, (f n).op = n.op ∧ (f n).name = n.name ∧ (f n).ty = n.ty) :
    inputsOf (out.modify k f) = inputsOf out := by
  induction out generalizing k with
  | nil => cases k <;> rfl
  | cons x r ih =>
    cases k with
    | zero =>
      simp only [List.modify_zero_cons]
      obtain ⟨h1, h2, h3⟩ := hf x
      simp only [inputsOf, List.filter, h1]
      cases x.op.isInput <;> simp [h1, h2, h3]
    | succ k =>
      simp only [List.modify_succ_cons]
      have := ih k
      simp only [inputsOf, List.filter] at this ⊢
      cases x.op.isInput <;> simp [this]

theorem inputsOf_addAnn (out : List Node) (k : Nat) (anns : List Nat) :
    inputsOf (addAnn out k anns) = inputsOf out := by
  unfold addAnn
  split
  · rfl
  · exact inputsOf_modify out k _ (fun n => ⟨rfl, rfl, rfl⟩)

theorem metaStep_inputs (fuel : Nat) (st st' : MSt) (n : Node)
    (h : metaStep fuel (some st) n = some st') :
    inputsOf st'.out = inputsOf st.out ++ inputsOf [n] ∧ st'.m.length = st.m.length + 1 := by
  unfold metaStep at h
  simp only at h
  split at h
  · cases h
  · rename_i mn out' heq
    simp only [Option.some.injEq] at h
    subst h
    refine ⟨?_, by simp⟩
    simp only [inputsOf_addAnn]
    have hext : NoInputExt (st.out ++ [(⟨n.op, n.deps.map (look st.m), [], n.name, n.ty⟩ : Node)])
        out' := by
      split at heq
      all_goals (try (split at heq))
      all_goals first
        | (cases heq; done)
        | (simp at heq; obtain ⟨_, rfl⟩ := heq; exact NoInputExt.refl _)
        | exact applyMeta_ext _ _ _ _ _ _ heq
    rw [hext.inputsOf, inputsOf_append]
    simp [inputsOf, List.filter]
    cases n.op.isInput <;> simp

theorem metaFold_inputs (fuel : Nat) : ∀ (l : List Node) (st st' : MSt),
    l.foldl (metaStep fuel) (some st) = some st' →
    inputsOf st'.out = inputsOf st.out ++ inputsOf l ∧ st'.m.length = st.m.length + l.length := by
  intro l
  induction l with
  | nil => intro st st' h; simp at h; subst h; simp [inputsOf]
  | cons n l ih =>
    intro st st' h
    simp only [List.foldl] at h
    cases hs : metaStep fuel (some st) n with
    | none =>
      rw [hs] at h
      have : ∀ l : List Node, l.foldl (metaStep fuel) none = none := by
        intro l; induction l with
        | nil => rfl
        | cons x r ih => simpa [List.foldl, metaStep] using ih
      rw [this] at h; cases h
    | some st1 =>
      rw [hs] at h
      obtain ⟨h1, h2⟩ := metaStep_inputs fuel st st1 n hs
      obtain ⟨h3, h4⟩ := ih st1 st' h
      refine ⟨?_, by rw [h4, h2]; simp; omega⟩
      rw [h3, h1, List.append_assoc, ← inputsOf_append]
      rfl

/-- meta pass, (2): the Input nodes are preserved in order with type and name, and every source
    node gets a mapping entry -/
theorem metaOps_inputs (g g' : Graph) (m : Mapping) (h : metaOps g = some (g', m)) :
    inputsOf g'.nodes = inputsOf g.nodes ∧ m.length = g.nodes.length := by
  unfold metaOps at h
  split at h
  · cases h
  · rename_i st hs
    simp only [Option.some.injEq, Prod.mk.injEq] at h
    obtain ⟨rfl, rfl⟩ := h
    have := metaFold_inputs (metaFuel g) g.nodes ⟨[], [], []⟩ st hs
    simpa [inputsOf] using this

/-- C04(b) for the meta pass: a getter resolved through a proxy may be mapped to a randomising
    node, so injectivity is among randomising / PRF / input nodes only -/
def SpecialInj (src out : List Node) (m : Mapping) : Prop :=
  (∀ i k n, Maps m i k → src[i]? = some n → Special n.op →
     (∃ n', out[k]? = some n' ∧ n'.op = n.op) ∧
     (∀ j nj, Maps m j k → src[j]? = some nj → Special nj.op → j = i) ∧
     -- the special node is the first node mapped to its image (later getters may be resolved to it)
     ∀ j, Maps m j k → i ≤ j) ∧
  (∀ k n', out[k]? = some n' → Special n'.op →
     ∃ i n, Maps m i k ∧ src[i]? = some n ∧ n.op = n'.op)

/- ---------------- closedness of the meta pass ---------------- -/

/-- every node id mentioned by a proxy is below `b` -/
inductive PBound (b : Nat) : Proxy → Prop where
  | number (c : Nat) : PBound b (.number c)
  | unknown : PBound b .unknown
  | a2v (arr : Nat) : arr < b → PBound b (.a2v arr)
  | tuple (es : List PN) : (∀ e ∈ es, PBound b e.1) → (∀ e ∈ es, e.2 < b) → PBound b (.tuple es)
  | named (es : List (Nat × PN)) : (∀ e ∈ es, PBound b e.2.1) → (∀ e ∈ es, e.2.2 < b) → PBound b (.named es)
  | zip (es : List PN) : (∀ e ∈ es, PBound b e.1) → (∀ e ∈ es, e.2 < b) → PBound b (.zip es)
  | vector (es : List PN) : (∀ e ∈ es, PBound b e.1) → (∀ e ∈ es, e.2 < b) → PBound b (.vector es)
  | a2b (n : Nat) : n < b → PBound b (.a2b n)
  | b2a (n : Nat) : n < b → PBound b (.b2a n)

def PNBound (b : Nat) (p : PN) : Prop := PBound b p.1 ∧ p.2 < b

theorem PBound.mono {b b' : Nat} (hb : b ≤ b') {p : Proxy} (h : PBound b p) : PBound b' p := by
  induction h with
  | number c => exact .number c
  | unknown => exact .unknown
  | a2v arr h => exact .a2v arr (by omega)
  | tuple es _ h2 ih => exact .tuple es ih (fun e he => by have := h2 e he; omega)
  | named es _ h2 ih => exact .named es ih (fun e he => by have := h2 e he; omega)
  | zip es _ h2 ih => exact .zip es ih (fun e he => by have := h2 e he; omega)
  | vector es _ h2 ih => exact .vector es ih (fun e he => by have := h2 e he; omega)
  | a2b n h => exact .a2b n (by omega)
  | b2a n h => exact .b2a n (by omega)

theorem PNBound.mono {b b' : Nat} (hb : b ≤ b') {p : PN} (h : PNBound b p) : PNBound b' p :=
  ⟨h.1.mono hb, by have := h.2; omega⟩

theorem closed_snoc' {out : List Node} (h : Closed out) (op : Op) (deps : List Nat) (ty : Ty)
    (hd : ∀ d ∈ deps, d < out.length) : Closed (out ++ [mkNode op deps ty]) :=
  closed_snoc h (by simpa [mkNode] using hd)

theorem vget_bound : ∀ fuel : Nat,
    (∀ out p index idx r out', Closed out → PNBound out.length p → idx < out.length →
      vget fuel out p index idx = some (r, out') →
      Closed out' ∧ out.length ≤ out'.length ∧ ∀ e, r = some e → PNBound out'.length e) ∧
    (∀ out vecs index idx acc r out', Closed out → (∀ v ∈ vecs, PNBound out.length v) →
      (∀ a ∈ acc, PNBound out.length a) → idx < out.length →
      vgetAll fuel out vecs index idx acc = some (r, out') →
      Closed out' ∧ out.length ≤ out'.length ∧ ∀ sl, r = some sl → ∀ e ∈ sl, PNBound out'.length e) := by
  intro fuel
  induction fuel with
  | zero =>
    constructor
    · intro out p index idx r out' _ _ _ h; simp [vget] at h
    · intro out vecs index idx acc r out' _ _ _ _ h; simp [vgetAll] at h
  | succ f ih =>
    constructor
    · intro out p index idx r out' hc hp hidx h
      have hp1 := hp.1
      have hp2 := hp.2
      unfold vget at h
      split at h
      · rename_i es heq
        rw [heq] at hp1
        split at h
        · rename_i e he
          simp at h; obtain ⟨rfl, rfl⟩ := h
          refine ⟨hc, Nat.le_refl _, ?_⟩
          intro e' he'; cases he'
          have hmem : e ∈ es := List.mem_of_getElem? he
          cases hp1 with
          | vector _ h1 h2 => exact ⟨h1 e hmem, h2 e hmem⟩
        · cases h
      · rename_i arr heq
        rw [heq] at hp1
        have harr : arr < out.length := by cases hp1 with | a2v _ h => exact h
        split at h <;> simp at h <;> obtain ⟨rfl, rfl⟩ := h <;>
          refine ⟨closed_snoc' hc _ _ _ (by simpa using harr), by simp, ?_⟩ <;>
          intro e he <;> cases he <;> exact ⟨.unknown, by simp⟩
      · simp at h; obtain ⟨rfl, rfl⟩ := h
        refine ⟨closed_snoc' hc _ _ _ (by
          intro d hd; simp at hd; rcases hd with rfl | rfl <;> assumption), by simp, ?_⟩
        intro e he; cases he; exact ⟨.unknown, by simp⟩
      · rename_i vecs heq
        rw [heq] at hp1
        have hv : ∀ v ∈ vecs, PNBound out.length v := by
          cases hp1 with | zip _ h1 h2 => exact fun v hv => ⟨h1 v hv, h2 v hv⟩
        split at h
        · cases h
        · rename_i out1 hv1
          simp at h; obtain ⟨rfl, rfl⟩ := h
          obtain ⟨h1, h2, _⟩ := ih.2 _ _ _ _ _ _ _ hc hv (by simp) hidx hv1
          exact ⟨h1, h2, fun e he => by cases he⟩
        · rename_i sl out1 hv1
          simp at h; obtain ⟨rfl, rfl⟩ := h
          obtain ⟨h1, h2, h3⟩ := ih.2 _ _ _ _ _ _ _ hc hv (by simp) hidx hv1
          have hsl := h3 sl rfl
          refine ⟨closed_snoc' h1 _ _ _ (by
            intro d hd; rw [List.mem_map] at hd; obtain ⟨e, he, rfl⟩ := hd
            exact (hsl e he).2), by simp; omega, ?_⟩
          intro e he; cases he
          refine ⟨.tuple sl (fun e he => (hsl e he).1.mono (by simp))
            (fun e he => by have := (hsl e he).2; simp; omega), by simp⟩
      · simp at h; obtain ⟨rfl, rfl⟩ := h
        exact ⟨hc, Nat.le_refl _, fun e he => by cases he⟩
    · intro out vecs index idx acc r out' hc hv ha hidx h
      unfold vgetAll at h
      split at h
      · simp at h; obtain ⟨rfl, rfl⟩ := h
        exact ⟨hc, Nat.le_refl _, fun sl hsl => by cases hsl; exact ha⟩
      · rename_i v vs
        split at h
        · cases h
        · rename_i out1 hv1
          simp at h; obtain ⟨rfl, rfl⟩ := h
          obtain ⟨h1, h2, _⟩ := ih.1 _ _ _ _ _ _ hc (hv v (by simp)) hidx hv1
          exact ⟨h1, h2, fun sl hsl => by cases hsl⟩
        · rename_i s out1 hv1
          obtain ⟨h1, h2, h3⟩ := ih.1 _ _ _ _ _ _ hc (hv v (by simp)) hidx hv1
          obtain ⟨h4, h5, h6⟩ := ih.2 _ _ _ _ _ _ _ h1
            (fun x hx => (hv x (by simp [hx])).mono h2)
            (fun a haa => by
              rcases List.mem_append.mp haa with haa | haa
              · exact (ha a haa).mono h2
              · simp at haa; subst haa; exact h3 _ rfl)
            (by omega) h
          exact ⟨h4, by omega, h6⟩

theorem namedGet_mem (nm : Nat) (es : List (Nat × PN)) (e : PN) (h : namedGet nm es = some e) :
    ∃ a, (a, e) ∈ es := by
  induction es with
  | nil => simp [namedGet] at h
  | cons x r ih =>
    obtain ⟨a, b⟩ := x
    simp only [namedGet] at h
    split at h
    · rename_i x' hx
      cases h
      obtain ⟨a', ha'⟩ := ih hx
      exact ⟨a', by simp [ha']⟩
    · split at h
      · cases h; exact ⟨a, by simp⟩
      · cases h

theorem applyMeta_bound (fuel : Nat) (out : List Node) (op : Op) (deps : List PN) (r : Option PN)
    (out' : List Node) (hc : Closed out) (hd : ∀ d ∈ deps, PNBound out.length d)
    (h : applyMeta fuel out op deps = some (r, out')) :
    Closed out' ∧ out.length ≤ out'.length ∧ ∀ e, r = some e → PNBound out'.length e := by
  have triv : ∀ {r : Option PN} {out' : List Node}, some ((none : Option PN), out) = some (r, out') →
      Closed out' ∧ out.length ≤ out'.length ∧ ∀ e, r = some e → PNBound out'.length e := by
    intro r out' h
    simp at h; obtain ⟨rfl, rfl⟩ := h
    exact ⟨hc, Nat.le_refl _, fun e he => by cases he⟩
  unfold applyMeta at h
  split at h
  · -- namedTupleGet nm, [d]
    rename_i nm d
    have hdb := hd d (by simp)
    split at h
    · rename_i es heq
      split at h
      · rename_i e he
        simp at h; obtain ⟨rfl, rfl⟩ := h
        refine ⟨hc, Nat.le_refl _, fun e' he' => ?_⟩
        cases he'
        obtain ⟨a, ha⟩ := namedGet_mem nm es e he
        have h1 := hdb.1; rw [heq] at h1
        cases h1 with | named _ h1 h2 => exact ⟨h1 _ ha, h2 _ ha⟩
      · cases h
    · exact triv h
  · cases h
  · -- tupleGet j, [d]
    rename_i j d
    have hdb := hd d (by simp)
    split at h
    · rename_i es heq
      split at h
      · rename_i e he
        simp at h; obtain ⟨rfl, rfl⟩ := h
        refine ⟨hc, Nat.le_refl _, fun e' he' => ?_⟩
        cases he'
        have hmem : e ∈ es := List.mem_of_getElem? he
        have h1 := hdb.1; rw [heq] at h1
        cases h1 with | tuple _ h1 h2 => exact ⟨h1 _ hmem, h2 _ hmem⟩
      · cases h
    · exact triv h
  · cases h
  · -- vectorGet, [v, i]
    rename_i v i
    split at h
    · exact (vget_bound fuel).1 _ _ _ _ _ _ hc (hd v (by simp)) (hd i (by simp)).2 h
    · exact triv h
  · cases h
  · exact triv h

theorem closed_addAnn {out : List Node} (h : Closed out) (k : Nat) (anns : List Nat) :
    Closed (addAnn out k anns) ∧ (addAnn out k anns).length = out.length := by
  unfold addAnn
  split
  · exact ⟨h, rfl⟩
  · refine ⟨?_, by simp⟩
    intro j n hj d hd
    rw [List.getElem?_modify] at hj
    cases hx : out[j]? with
    | none => rw [hx] at hj; simp at hj
    | some x =>
      rw [hx] at hj
      simp only [Option.map_eq_map, Option.map_some, Option.some.injEq] at hj
      have hdeps : n.deps = x.deps := by rw [← hj]; split <;> rfl
      rw [hdeps] at hd
      exact h j x hx d hd

theorem elems_bound (b : Nat) (deps : List Nat) (metaDeps : List (Option PN))
    (hd : ∀ d ∈ deps, d < b) (hm : ∀ p, some p ∈ metaDeps → PNBound b p) :
    ∀ e ∈ elems deps metaDeps, PNBound b e := by
  intro e he
  unfold elems at he
  rw [List.mem_map] at he
  obtain ⟨⟨d, md⟩, hmem, rfl⟩ := he
  have h1 := (List.of_mem_zip hmem).1
  have h2 := (List.of_mem_zip hmem).2
  cases md with
  | none => exact ⟨.unknown, hd d h1⟩
  | some p => exact hm p h2

structure MInv (st : MSt) : Prop where
  closed : Closed st.out
  mb : ∀ i, i < st.m.length → ∃ k, Maps st.m i k ∧ k < st.out.length
  pb : ∀ (i : Nat) (p : PN), st.px[i]? = some (some p) → PNBound st.out.length p

theorem metaStep_inv (fuel : Nat) (st st' : MSt) (n : Node) (I : MInv st)
    (hd : ∀ d ∈ n.deps, d < st.m.length) (h : metaStep fuel (some st) n = some st') : MInv st' := by
  have hdeps : ∀ d ∈ n.deps.map (look st.m), d < st.out.length := by
    intro d hd'
    rw [List.mem_map] at hd'
    obtain ⟨d0, h0, rfl⟩ := hd'
    obtain ⟨k, hk, hkb⟩ := I.mb d0 (hd d0 h0)
    rw [look_of_maps hk]; exact hkb
  have hc1 : Closed (st.out ++ [(⟨n.op, n.deps.map (look st.m), [], n.name, n.ty⟩ : Node)]) :=
    closed_snoc I.closed (by simpa using hdeps)
  have hdeps1 : ∀ d ∈ n.deps.map (look st.m), d <
      (st.out ++ [(⟨n.op, n.deps.map (look st.m), [], n.name, n.ty⟩ : Node)]).length := by
    intro d h'; have := hdeps d h'; simp; omega
  have hmd : ∀ p, some p ∈ n.deps.map (fun d => st.px.getD d none) → PNBound
      (st.out ++ [(⟨n.op, n.deps.map (look st.m), [], n.name, n.ty⟩ : Node)]).length p := by
    intro p hp
    rw [List.mem_map] at hp
    obtain ⟨d0, _, h1⟩ := hp
    rw [List.getD_eq_getElem?_getD] at h1
    cases hx : st.px[d0]? with
    | none => rw [hx] at h1; cases h1
    | some y =>
      rw [hx] at h1; simp at h1; subst h1
      exact (I.pb d0 p hx).mono (by simp)
  have hhead : (n.deps.map (look st.m)).headD 0 <
      (st.out ++ [(⟨n.op, n.deps.map (look st.m), [], n.name, n.ty⟩ : Node)]).length := by
    cases hl : n.deps.map (look st.m) with
    | nil => simp
    | cons x r => rw [hl] at hdeps1; simpa using hdeps1 x (by simp)
  have hsimple : st.out.length <
      (st.out ++ [(⟨n.op, n.deps.map (look st.m), [], n.name, n.ty⟩ : Node)]).length := by simp
  unfold metaStep at h
  simp only at h
  split at h
  · cases h
  · rename_i mn out' heq
    simp only [Option.some.injEq] at h
    subst h
    have fin : ∀ (e : PN), PNBound
        (st.out ++ [(⟨n.op, n.deps.map (look st.m), [], n.name, n.ty⟩ : Node)]).length e →
        ∀ {mn : Option PN} {out' : List Node},
        some (some e, st.out ++ [(⟨n.op, n.deps.map (look st.m), [], n.name, n.ty⟩ : Node)]) =
          some (mn, out') →
        Closed out' ∧ (st.out ++ [(⟨n.op, n.deps.map (look st.m), [], n.name, n.ty⟩ : Node)]).length ≤
          out'.length ∧ ∀ e', mn = some e' → PNBound out'.length e' := by
      intro e he mn out' h
      simp at h; obtain ⟨rfl, rfl⟩ := h
      exact ⟨hc1, Nat.le_refl _, fun e' he' => by cases he'; exact he⟩
    have fin0 : ∀ {mn : Option PN} {out' : List Node},
        some ((none : Option PN), st.out ++ [(⟨n.op, n.deps.map (look st.m), [], n.name, n.ty⟩ : Node)]) =
          some (mn, out') →
        Closed out' ∧ (st.out ++ [(⟨n.op, n.deps.map (look st.m), [], n.name, n.ty⟩ : Node)]).length ≤
          out'.length ∧ ∀ e', mn = some e' → PNBound out'.length e' := by
      intro mn out' h
      simp at h; obtain ⟨rfl, rfl⟩ := h
      exact ⟨hc1, Nat.le_refl _, fun e' he' => by cases he'⟩
    have core : Closed out' ∧
        (st.out ++ [(⟨n.op, n.deps.map (look st.m), [], n.name, n.ty⟩ : Node)]).length ≤ out'.length ∧
        ∀ e, mn = some e → PNBound out'.length e := by
      have hel := elems_bound _ _ _ hdeps1 hmd
      split at heq
      · -- constant
        split at heq
        · exact fin _ ⟨.number _, hsimple⟩ heq
        · exact fin0 heq
      · exact fin _ ⟨.a2v _ hhead, hsimple⟩ heq
      · -- a2b
        refine fin _ ⟨.a2b _ hhead, ?_⟩ heq
        split
        · rename_i bin x hm
          have : some (Proxy.b2a bin, x) ∈ n.deps.map (fun d => st.px.getD d none) := by
            cases hl : n.deps.map (fun d => st.px.getD d none) with
            | nil => rw [hl] at hm; simp at hm
            | cons y r => rw [hl] at hm; simp at hm; simp [hm]
          have := (hmd _ this).1
          cases this with | b2a _ h => exact h
        · exact hsimple
      · -- b2a
        refine fin _ ⟨.b2a _ hhead, ?_⟩ heq
        split
        · rename_i ar x hm
          have hmem : some (Proxy.a2b ar, x) ∈ n.deps.map (fun d => st.px.getD d none) := by
            cases hl : n.deps.map (fun d => st.px.getD d none) with
            | nil => rw [hl] at hm; simp at hm
            | cons y r => rw [hl] at hm; simp at hm; simp [hm]
          have hb := (hmd _ hmem).1
          have har : ar <
              (st.out ++ [(⟨n.op, n.deps.map (look st.m), [], n.name, n.ty⟩ : Node)]).length := by
            cases hb with | a2b _ h => exact h
          (repeat' split) <;> first | exact har | exact hsimple
        · exact hsimple
      · -- createNamedTuple
        refine fin _ ⟨.named _ (fun e he => (hel _ (List.of_mem_zip he).2).1)
          (fun e he => (hel _ (List.of_mem_zip he).2).2), hsimple⟩ heq
      · exact fin _ ⟨.tuple _ (fun e he => (hel e he).1) (fun e he => (hel e he).2), hsimple⟩ heq
      · exact fin _ ⟨.vector _ (fun e he => (hel e he).1) (fun e he => (hel e he).2), hsimple⟩ heq
      · exact fin _ ⟨.zip _ (fun e he => (hel e he).1) (fun e he => (hel e he).2), hsimple⟩ heq
      · split at heq
        · refine applyMeta_bound _ _ _ _ _ _ hc1 ?_ heq
          intro d hd'
          rw [List.mem_filterMap] at hd'
          obtain ⟨a, ha, ha'⟩ := hd'
          cases a with
          | none => cases ha'
          | some p => simp at ha'; subst ha'; exact hmd p ha
        · exact fin0 heq
    obtain ⟨hco, hle, hpn⟩ := core
    have hlo : st.out.length ≤ out'.length := by simp at hle; omega
    have key : ∀ newNode, newNode < out'.length →
        MInv { out := addAnn out' newNode n.ann, m := st.m ++ [some newNode], px := st.px ++ [mn] } := by
      intro newNode hnew
      obtain ⟨hca, hla⟩ := closed_addAnn hco newNode n.ann
      refine ⟨hca, ?_, ?_⟩
      · intro i hi
        simp only [List.length_append, List.length_cons, List.length_nil] at hi
        simp only [hla]
        rcases Nat.lt_or_ge i st.m.length with h' | h'
        · obtain ⟨k, hk, hkb⟩ := I.mb i h'
          exact ⟨k, maps_append_left hk, by omega⟩
        · have : i = st.m.length := by omega
          subst this
          exact ⟨_, maps_append_new _ _, hnew⟩
      · intro i p hp
        simp only [hla]
        rcases getElem?_snoc_cases hp with hp | ⟨_, hp⟩
        · exact (I.pb i p hp).mono hlo
        · exact hpn p hp
    apply key
    cases mn with
    | none => simp at hle ⊢; omega
    | some p => exact (hpn p rfl).2

theorem metaFold_none (fuel : Nat) (l : List Node) : l.foldl (metaStep fuel) none = none := by
  induction l with
  | nil => rfl
  | cons x r ih => simpa [List.foldl, metaStep] using ih

theorem metaFold_inv (fuel : Nat) : ∀ (l pre : List Node) (st st' : MSt),
    Closed (pre ++ l) → st.m.length = pre.length → MInv st →
    l.foldl (metaStep fuel) (some st) = some st' →
    MInv st' ∧ st'.m.length = pre.length + l.length := by
  intro l
  induction l with
  | nil => intro pre st st' _ hl I h; simp at h; subst h; exact ⟨I, by simpa using hl⟩
  | cons n l ih =>
    intro pre st st' hc hl I h
    simp only [List.foldl] at h
    cases hs : metaStep fuel (some st) n with
    | none => rw [hs, metaFold_none] at h; cases h
    | some st1 =>
      rw [hs] at h
      have hd : ∀ d ∈ n.deps, d < st.m.length := by rw [hl]; exact closed_deps_lt hc
      have I1 := metaStep_inv fuel st st1 n I hd hs
      have hl1 := (metaStep_inputs fuel st st1 n hs).2
      obtain ⟨h1, h2⟩ := ih (pre ++ [n]) st1 st' (by simpa using hc) (by simp [hl1, hl]) I1 h
      exact ⟨h1, by rw [h2]; simp; omega⟩

/-- meta pass, (3): the result is closed, every source node is mapped to a node of the result, the
    output is in range -/
theorem metaOps_closed (g g' : Graph) (m : Mapping) (hc : Closed g.nodes)
    (h : metaOps g = some (g', m)) :
    Closed g'.nodes ∧ (∀ i, i < g.nodes.length → ∃ k, Maps m i k ∧ k < g'.nodes.length) ∧
    (g.out < g.nodes.length → g'.out < g'.nodes.length) := by
  unfold metaOps at h
  split at h
  · cases h
  · rename_i st hs
    simp only [Option.some.injEq, Prod.mk.injEq] at h
    obtain ⟨rfl, rfl⟩ := h
    obtain ⟨I, hl⟩ := metaFold_inv (metaFuel g) g.nodes [] ⟨[], [], []⟩ st (by simpa using hc) rfl
      ⟨by intro k n h; simp at h, by intro i h; simp at h, by intro i p h; simp at h⟩ hs
    simp only [List.length_nil, Nat.zero_add] at hl
    refine ⟨I.closed, fun i hi => I.mb i (by omega), fun ho => ?_⟩
    obtain ⟨k, hk, hkb⟩ := I.mb g.out (by omega)
    simp only [look_of_maps hk]; exact hkb

/- ---------------- Input nodes stay dependency-free ---------------- -/

theorem Track.inputWF {c : Bool} {src out : List Node} {m : Mapping} (T : Track c src out m)
    (h : InputWF src) : InputWF out := by
  intro n' hn' hin
  obtain ⟨k, hk, hkn⟩ := List.getElem_of_mem hn'
  have hk' : out[k]? = some n' := by rw [List.getElem?_eq_getElem hk, hkn]
  obtain ⟨i, n, hi, hn, hop, _⟩ := T.special.2 k n' hk' (Or.inr (Or.inr hin))
  obtain ⟨n'', h1, h2⟩ := T.ref.img i k n hi hn
  rw [hk'] at h1; cases h1
  have hnd : n.deps = [] := h n (List.mem_of_getElem? hn) (by rw [hop]; exact hin)
  rcases h2 with ⟨_, h2, _⟩ | ⟨h2, _⟩
  · rw [h2, hnd]; rfl
  · exfalso; cases hx : n'.op <;> simp_all [Op.isConstant, Op.isInput]

theorem inputWF_append {a b : List Node} (ha : InputWF a) (hb : ∀ n ∈ b, n.op.isInput = false) :
    InputWF (a ++ b) := by
  intro n hn hin
  rcases List.mem_append.mp hn with h | h
  · exact ha n h hin
  · rw [hb n h] at hin; cases hin

theorem inputWF_addAnn {out : List Node} (h : InputWF out) (k : Nat) (anns : List Nat) :
    InputWF (addAnn out k anns) := by
  unfold addAnn
  split
  · exact h
  · intro n hn hin
    obtain ⟨j, hj, hjn⟩ := List.getElem_of_mem hn
    have hj' : (out.modify k fun n => { n with ann := n.ann ++ anns })[j]? = some n := by
      rw [List.getElem?_eq_getElem hj, hjn]
    rw [List.getElem?_modify] at hj'
    cases hx : out[j]? with
    | none => rw [hx] at hj'; simp at hj'
    | some x =>
      rw [hx] at hj'
      simp only [Option.map_eq_map, Option.map_some, Option.some.injEq] at hj'
      have h1 : n.deps = x.deps ∧ n.op = x.op := by rw [← hj']; split <;> exact ⟨rfl, rfl⟩
      rw [h1.1]
      exact h x (List.mem_of_getElem? hx) (by rw [← h1.2]; exact hin)

theorem metaStep_inputWF (fuel : Nat) (st st' : MSt) (n : Node) (hw : InputWF st.out)
    (hn : n.op.isInput = true → n.deps = []) (h : metaStep fuel (some st) n = some st') :
    InputWF st'.out := by
  unfold metaStep at h
  simp only at h
  split at h
  · cases h
  · rename_i mn out' heq
    simp only [Option.some.injEq] at h
    subst h
    apply inputWF_addAnn
    have hext : NoInputExt (st.out ++ [(⟨n.op, n.deps.map (look st.m), [], n.name, n.ty⟩ : Node)])
        out' := by
      split at heq
      all_goals (try (split at heq))
      all_goals first
        | (cases heq; done)
        | (simp at heq; obtain ⟨_, rfl⟩ := heq; exact NoInputExt.refl _)
        | exact applyMeta_ext _ _ _ _ _ _ heq
    obtain ⟨ext, rfl, hext⟩ := hext
    apply inputWF_append _ (fun n hn => (hext n hn).1)
    intro x hx hin
    rcases List.mem_append.mp hx with h | h
    · exact hw x h hin
    · simp at h; subst h
      simp only at hin ⊢
      rw [hn hin]; rfl

theorem metaOps_inputWF (g g' : Graph) (m : Mapping) (hw : InputWF g.nodes)
    (h : metaOps g = some (g', m)) : InputWF g'.nodes := by
  unfold metaOps at h
  split at h
  · cases h
  · rename_i st hs
    simp only [Option.some.injEq, Prod.mk.injEq] at h
    obtain ⟨rfl, rfl⟩ := h
    have gen : ∀ (l : List Node) (st st' : MSt), InputWF st.out → InputWF l →
        l.foldl (metaStep (metaFuel g)) (some st) = some st' → InputWF st'.out := by
      intro l
      induction l with
      | nil => intro st st' h1 _ h; simp at h; subst h; exact h1
      | cons n l ih =>
        intro st st' h1 h2 h
        simp only [List.foldl] at h
        cases hs : metaStep (metaFuel g) (some st) n with
        | none => rw [hs, metaFold_none] at h; cases h
        | some st1 =>
          rw [hs] at h
          exact ih st1 st' (metaStep_inputWF _ st st1 n h1 (h2 n (by simp)) hs)
            (fun x hx => h2 x (by simp [hx])) h
    exact gen g.nodes ⟨[], [], []⟩ st (by intro n hn; cases hn) hw hs

theorem metaOps_out (g g' : Graph) (m : Mapping) (h : metaOps g = some (g', m)) :
    g'.out = look m g.out := by
  unfold metaOps at h
  split at h
  · cases h
  · simp only [Option.some.injEq, Prod.mk.injEq] at h
    obtain ⟨rfl, rfl⟩ := h
    rfl

end CCV.Optimizer
