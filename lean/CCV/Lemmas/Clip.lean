import CCV.Lemmas.Adder
import CCV.Model.Clip
/- helper lemmas for clip.rs: values of concatenations / slices, the OR reduction, the sign bit. -/
namespace CCV.Adder

theorem val_append (l1 l2 : List Bool) : val (l1 ++ l2) = val l1 + 2 ^ l1.length * val l2 := by
  induction l1 with
  | nil => simp [val]
  | cons b t ih =>
    simp only [List.cons_append, val, ih, List.length_cons, Nat.pow_succ]
    rw [Nat.mul_add, Nat.mul_comm (2 ^ t.length) 2, Nat.mul_assoc]
    omega

theorem val_replicate_false (n : Nat) : val (List.replicate n false) = 0 := by
  induction n with
  | zero => rfl
  | succ n ih => simp [List.replicate_succ, val, ih]

theorem val_take_drop (x : List Bool) (k : Nat) (h : k ≤ x.length) :
    val x = val (x.take k) + 2 ^ k * val (x.drop k) := by
  have := val_append (x.take k) (x.drop k)
  rw [List.take_append_drop, List.length_take, Nat.min_eq_left h] at this
  exact this

theorem drop_last (x : List Bool) (h : 1 ≤ x.length) : x.drop (x.length - 1) = [msb x] := by
  induction x with
  | nil => simp at h
  | cons b t ih =>
    match t with
    | [] => simp [msb]
    | c :: t' =>
      have := ih (by simp)
      simp only [List.length_cons, Nat.add_sub_cancel] at this ⊢
      rw [List.drop_succ_cons, this]
      simp [msb]

/-- the sign bit is the top binary digit. -/
theorem val_msb (x : List Bool) (h : 1 ≤ x.length) :
    val x = val (x.take (x.length - 1)) + 2 ^ (x.length - 1) * (msb x).toNat := by
  rw [val_take_drop x (x.length - 1) (by omega), drop_last x h]
  simp [val]

theorem msb_iff (x : List Bool) (h : 1 ≤ x.length) : msb x = true ↔ 2 ^ (x.length - 1) ≤ val x := by
  have h1 := val_msb x h
  have h2 := val_lt (x.take (x.length - 1))
  rw [List.length_take, Nat.min_eq_left (by omega)] at h2
  cases hm : msb x <;> simp [hm] at h1 ⊢ <;> omega

end CCV.Adder

namespace CCV.Clip
open CCV.Adder CCV.Mux

theorem orBit_eq (a b : Bool) : orBit a b = (a || b) := by cases a <;> cases b <;> rfl

/-- the associative OR iteration over a bit string says whether its value is non-zero. -/
theorem foldl_orBit (l : List Bool) (b : Bool) : l.foldl orBit b = (b || decide (0 < val l)) := by
  induction l generalizing b with
  | nil => simp [val]
  | cons x l ih =>
    simp only [List.foldl_cons, ih, orBit_eq, val]
    have e : decide (0 < val l) = decide (0 < 0 + 2 * val l) := by
      apply decide_eq_decide.mpr; omega
    have e1 : decide (0 < 1 + 2 * val l) = true := by
      apply decide_eq_true; omega
    cases b <;> cases x <;> simp [e] <;> exact e1

theorem muxBits_eq (flag : Bool) (c1 c0 : List Bool) (h : c1.length = c0.length) :
    muxBits flag c1 c0 = if flag then c1 else c0 := by
  unfold muxBits
  induction c1 generalizing c0 with
  | nil => match c0, h with
    | [], _ => cases flag <;> rfl
  | cons x c1 ih => match c0, h with
    | y :: c0, h =>
      have := ih c0 (by simpa using h)
      cases flag <;> cases x <;> cases y <;> simp_all [muxBit]

/-- `Clip2K` on the unsigned reading: 0 if the sign bit is set, `2^k` if the value is at least `2^k`,
    the input otherwise. -/
theorem clipCore_val (k : Nat) (x : List Bool) (h : k + 2 ≤ x.length) :
    (clipCore k x).length = x.length ∧
    val (clipCore k x) = if msb x then 0 else if 2 ^ k ≤ val x then 2 ^ k else val x := by
  have hsplit := val_take_drop x k (by omega)
  have htl := val_lt (x.take k)
  rw [List.length_take, Nat.min_eq_left (by omega)] at htl
  have hm := msb_iff x (by omega)
  have hpow : 2 ^ k ≤ 2 ^ (x.length - 1) := Nat.pow_le_pow_right (by omega) (by omega)
  have hlen : (List.replicate k false ++ [muxBit (msb x) false true]
      ++ List.replicate (x.length - k - 1) false).length = x.length := by simp; omega
  have hcv : val (List.replicate k false ++ [muxBit (msb x) false true]
      ++ List.replicate (x.length - k - 1) false) = 2 ^ k * (muxBit (msb x) false true).toNat := by
    simp [val_append, val_replicate_false, val]
  simp only [clipCore, foldl_orBit, Bool.false_or]
  rw [show x.getD (x.length - 1) false = msb x from rfl, muxBits_eq _ _ _ hlen]
  by_cases hU : 0 < val (x.drop k)
  · have hge : 2 ^ k ≤ val x := by
      rw [hsplit]
      have : 2 ^ k * 1 ≤ 2 ^ k * val (x.drop k) := Nat.mul_le_mul_left _ hU
      omega
    simp only [hU, decide_true, if_true, hlen, hcv, true_and]
    cases hmx : msb x <;> simp [muxBit, hge]
  · have h0 : val (x.drop k) = 0 := by omega
    have hlt : val x < 2 ^ k := by rw [hsplit, h0]; omega
    have hnm : msb x = false := by
      cases hmx : msb x
      · rfl
      · have := hm.mp hmx; omega
    simp [hU, hnm, Nat.not_le.mpr hlt]

end CCV.Clip
