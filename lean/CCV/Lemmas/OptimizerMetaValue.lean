import CCV.Lemmas.OptimizerMeta
/-
  Value preservation of the meta-operation pass: the loop invariant "a proxy object denotes the
  value of its node" (`Den`), for nested proxies, and its maintenance by `vget` / `applyMeta` /
  `metaStep`.
-/
namespace CCV.Optimizer

variable {V : Type}

/- ---------------- evaluation facts ---------------- -/

section
variable (sem : Op → List V → V) (inp : Nat → V) (dv : V) (rnd : Nat → List V → V)

/-- value of node `k` of the graph `out` -/
def ev (out : List Node) (k : Nat) : V := (eval sem inp dv rnd out).getD k dv

theorem ev_append (out ext : List Node) (k : Nat) (hk : k < out.length) :
    ev sem inp dv rnd (out ++ ext) k = ev sem inp dv rnd out k :=
  eval_getD_append sem inp dv rnd out ext k hk

theorem ev_snoc (out : List Node) (n : Node) :
    ev sem inp dv rnd (out ++ [n]) out.length =
      nodeVal sem inp dv rnd (eval sem inp dv rnd out) (countIn out) out.length n := by
  unfold ev
  rw [eval_snoc, List.getD_eq_getElem?_getD,
    List.getElem?_append_right (by rw [eval_length]; exact Nat.le_refl _)]
  simp [eval_length]

theorem nodeVal_plain (env : List V) (nin idx : Nat) (n : Node) (h1 : n.op.isInput = false)
    (h2 : n.op.isRandom = false) :
    nodeVal sem inp dv rnd env nin idx n = sem n.op (n.deps.map fun d => env.getD d dv) := by
  unfold nodeVal
  cases h : n.op <;> simp_all [Op.isInput, Op.isRandom]

/-- value of a freshly appended non-input, non-randomising node -/
theorem ev_mk (out : List Node) (op : Op) (deps : List Nat) (ty : Ty) (h1 : op.isInput = false)
    (h2 : op.isRandom = false) :
    ev sem inp dv rnd (out ++ [mkNode op deps ty]) out.length =
      sem op (deps.map (ev sem inp dv rnd out)) := by
  rw [ev_snoc, nodeVal_plain _ _ _ _ _ _ _ _ (by simpa [mkNode] using h1) (by simpa [mkNode] using h2)]
  rfl

theorem countIn_congr : ∀ (l1 l2 : List Node), l1.map (·.op) = l2.map (·.op) → countIn l1 = countIn l2 := by
  intro l1
  induction l1 with
  | nil => intro l2 h; cases l2 <;> simp_all [countIn]
  | cons a r ih =>
    intro l2 h
    cases l2 with
    | nil => simp at h
    | cons b r2 =>
      simp only [List.map_cons, List.cons.injEq] at h
      have := ih r2 h.2
      simp only [countIn, List.filter] at this ⊢
      rw [h.1]
      cases b.op.isInput <;> simp [this]

theorem evalRev_congr : ∀ (l1 l2 : List Node),
    l1.map (fun n => (n.op, n.deps)) = l2.map (fun n => (n.op, n.deps)) →
    evalRev sem inp dv rnd l1 = evalRev sem inp dv rnd l2 := by
  intro l1
  induction l1 with
  | nil => intro l2 h; cases l2 <;> simp_all
  | cons a r ih =>
    intro l2 h
    cases l2 with
    | nil => simp at h
    | cons b r2 =>
      simp only [List.map_cons, List.cons.injEq, Prod.mk.injEq] at h
      obtain ⟨⟨hop, hdeps⟩, hr⟩ := h
      have e1 := ih r2 hr
      have hlen : r.length = r2.length := by
        have := congrArg List.length hr; simpa using this
      have hcnt : countIn r.reverse = countIn r2.reverse := by
        apply countIn_congr
        have : r.map (·.op) = r2.map (·.op) := by
          have := congrArg (List.map Prod.fst) hr
          simpa [List.map_map, Function.comp_def] using this
        rw [List.map_reverse, List.map_reverse, this]
      simp only [evalRev, e1, hcnt, hlen]
      congr 2
      unfold nodeVal
      rw [hop, hdeps]

theorem eval_congr (l1 l2 : List Node)
    (h : l1.map (fun n => (n.op, n.deps)) = l2.map (fun n => (n.op, n.deps))) :
    eval sem inp dv rnd l1 = eval sem inp dv rnd l2 := by
  unfold eval
  apply evalRev_congr
  rw [List.map_reverse, List.map_reverse, h]

theorem map_modify_eq {α β} (g : α → β) (f : α → α) (hf : ∀ x, g (f x) = g x) :
    ∀ (l : List α) (k : Nat), (l.modify k f).map g = l.map g := by
  intro l
  induction l with
  | nil => intro k; cases k <;> rfl
  | cons x r ih =>
    intro k
    cases k with
    | zero => simp [List.modify_zero_cons, hf]
    | succ k => simp [List.modify_succ_cons, ih k]

theorem eval_addAnn (out : List Node) (k : Nat) (anns : List Nat) :
    eval sem inp dv rnd (addAnn out k anns) = eval sem inp dv rnd out := by
  unfold addAnn
  split
  · rfl
  · apply eval_congr
    exact map_modify_eq (fun n : Node => (n.op, n.deps))
      (fun n : Node => { n with ann := n.ann ++ anns }) (fun x => rfl) out k

theorem ev_addAnn (out : List Node) (k : Nat) (anns : List Nat) :
    ev sem inp dv rnd (addAnn out k anns) = ev sem inp dv rnd out := by
  funext j; unfold ev; rw [eval_addAnn]

end

theorem getElem?_addAnn {out : List Node} {k j : Nat} {anns : List Nat} {n' : Node}
    (h : (addAnn out k anns)[j]? = some n') :
    ∃ n0, out[j]? = some n0 ∧ n'.op = n0.op ∧ n'.deps = n0.deps ∧ n'.ty = n0.ty ∧ n'.name = n0.name ∧
      (∀ a ∈ n0.ann, a ∈ n'.ann) ∧ (j = k → ∀ a ∈ anns, a ∈ n'.ann) := by
  unfold addAnn at h
  split at h
  · exact ⟨n', h, rfl, rfl, rfl, rfl, fun a ha => ha, fun _ a ha => by cases ha⟩
  · rw [List.getElem?_modify] at h
    cases hx : out[j]? with
    | none => rw [hx] at h; simp at h
    | some x =>
      rw [hx] at h
      simp only [Option.map_eq_map, Option.map_some, Option.some.injEq] at h
      refine ⟨x, rfl, ?_⟩
      subst h
      by_cases hjk : k = j
      · simp [hjk]
        exact ⟨fun a ha => Or.inl ha, fun a ha => Or.inr ha⟩
      · simp [hjk]
        intro h'; exact absurd h'.symm hjk

/- ---------------- denotation of proxy objects ---------------- -/

/-- `Den sem tyv e p v`: the proxy object `p` describes the value `v`, where `e k` is the value of the
    result-graph node `k`.  Elements of compound proxies are (proxy, node) pairs; each element proxy
    describes the value of its own node, recursively. -/
inductive Den (sem : Op → List V → V) (tyv : V → Ty) (e : Nat → V) : Proxy → V → Prop where
  | number (c vid : Nat) : Den sem tyv e (.number c) (sem (.constant vid (some c)) [])
  | unknown (v : V) : Den sem tyv e .unknown v
  | a2v (arr : Nat) : Den sem tyv e (.a2v arr) (sem .arrayToVector [e arr])
  | tuple (es : List PN) : (∀ x ∈ es, Den sem tyv e x.1 (e x.2)) →
      Den sem tyv e (.tuple es) (sem .createTuple (es.map fun x => e x.2))
  | named (es : List (Nat × PN)) : (es.map (·.1)).Nodup → (∀ x ∈ es, Den sem tyv e x.2.1 (e x.2.2)) →
      Den sem tyv e (.named es) (sem (.createNamedTuple (es.map (·.1))) (es.map fun x => e x.2.2))
  | zip (es : List PN) : (∀ x ∈ es, Den sem tyv e x.1 (e x.2)) →
      (∀ x ∈ es, ∃ t, tyv (e x.2) = .vec t) →
      Den sem tyv e (.zip es) (sem .zip (es.map fun x => e x.2))
  | vector (es : List PN) (t : Nat) : (∀ x ∈ es, Den sem tyv e x.1 (e x.2)) →
      Den sem tyv e (.vector es) (sem (.createVector t) (es.map fun x => e x.2))
  | a2b (n : Nat) : Den sem tyv e (.a2b n) (sem .a2b [e n])
  | b2a (n st : Nat) : Den sem tyv e (.b2a n) (sem (.b2a st) [e n])

section
variable {sem : Op → List V → V} {tyv : V → Ty}

theorem Den.mono {e e' : Nat → V} {b : Nat} (hag : ∀ k, k < b → e' k = e k) {p : Proxy} {v : V}
    (h : Den sem tyv e p v) : PBound b p → Den sem tyv e' p v := by
  induction h with
  | number c vid => intro _; exact .number c vid
  | unknown v => intro _; exact .unknown v
  | a2v arr =>
    intro hb; cases hb with | a2v _ h => rw [← hag arr h]; exact .a2v arr
  | tuple es _ ih =>
    intro hb
    cases hb with
    | tuple _ h1 h2 =>
      have : (es.map fun x => e x.2) = es.map fun x => e' x.2 :=
        List.map_congr_left fun x hx => (hag x.2 (h2 x hx)).symm
      rw [this]
      exact .tuple es fun x hx => by rw [hag x.2 (h2 x hx)]; exact ih x hx (h1 x hx)
  | named es hnd _ ih =>
    intro hb
    cases hb with
    | named _ h1 h2 =>
      have : (es.map fun x => e x.2.2) = es.map fun x => e' x.2.2 :=
        List.map_congr_left fun x hx => (hag x.2.2 (h2 x hx)).symm
      rw [this]
      exact .named es hnd fun x hx => by rw [hag x.2.2 (h2 x hx)]; exact ih x hx (h1 x hx)
  | zip es _ hv ih =>
    intro hb
    cases hb with
    | zip _ h1 h2 =>
      have : (es.map fun x => e x.2) = es.map fun x => e' x.2 :=
        List.map_congr_left fun x hx => (hag x.2 (h2 x hx)).symm
      rw [this]
      exact .zip es (fun x hx => by rw [hag x.2 (h2 x hx)]; exact ih x hx (h1 x hx))
        (fun x hx => by rw [hag x.2 (h2 x hx)]; exact hv x hx)
  | vector es t _ ih =>
    intro hb
    cases hb with
    | vector _ h1 h2 =>
      have : (es.map fun x => e x.2) = es.map fun x => e' x.2 :=
        List.map_congr_left fun x hx => (hag x.2 (h2 x hx)).symm
      rw [this]
      exact .vector es t fun x hx => by rw [hag x.2 (h2 x hx)]; exact ih x hx (h1 x hx)
  | a2b n => intro hb; cases hb with | a2b _ h => rw [← hag n h]; exact .a2b n
  | b2a n st => intro hb; cases hb with | b2a _ h => rw [← hag n h]; exact .b2a n st

/-- a (proxy, node) pair is sound: the proxy describes the value of the node -/
def DenPN (sem : Op → List V → V) (tyv : V → Ty) (e : Nat → V) (p : PN) : Prop := Den sem tyv e p.1 (e p.2)

theorem DenPN.mono {e e' : Nat → V} {b : Nat} (hag : ∀ k, k < b → e' k = e k) {p : PN}
    (h : DenPN sem tyv e p) (hb : PNBound b p) : DenPN sem tyv e' p := by
  unfold DenPN
  rw [hag p.2 hb.2]
  exact Den.mono hag h hb.1

theorem Den.tuple_inv {e : Nat → V} {es : List PN} {v : V} (h : Den sem tyv e (.tuple es) v) :
    v = sem .createTuple (es.map fun x => e x.2) ∧ ∀ x ∈ es, DenPN sem tyv e x := by
  generalize hp : Proxy.tuple es = p at h
  cases h <;> cases hp
  exact ⟨rfl, by assumption⟩

theorem Den.named_inv {e : Nat → V} {es : List (Nat × PN)} {v : V} (h : Den sem tyv e (.named es) v) :
    v = sem (.createNamedTuple (es.map (·.1))) (es.map fun x => e x.2.2) ∧ (es.map (·.1)).Nodup ∧
      ∀ x ∈ es, DenPN sem tyv e x.2 := by
  generalize hp : Proxy.named es = p at h
  cases h <;> cases hp
  exact ⟨rfl, by assumption, by assumption⟩

theorem Den.zip_inv {e : Nat → V} {es : List PN} {v : V} (h : Den sem tyv e (.zip es) v) :
    v = sem .zip (es.map fun x => e x.2) ∧ (∀ x ∈ es, DenPN sem tyv e x) ∧
      ∀ x ∈ es, ∃ t, tyv (e x.2) = .vec t := by
  generalize hp : Proxy.zip es = p at h
  cases h <;> cases hp
  exact ⟨rfl, by assumption, by assumption⟩

theorem Den.vector_inv {e : Nat → V} {es : List PN} {v : V} (h : Den sem tyv e (.vector es) v) :
    (∃ t, v = sem (.createVector t) (es.map fun x => e x.2)) ∧ ∀ x ∈ es, DenPN sem tyv e x := by
  generalize hp : Proxy.vector es = p at h
  cases h <;> cases hp
  exact ⟨⟨_, rfl⟩, by assumption⟩

theorem Den.a2v_inv {e : Nat → V} {arr : Nat} {v : V} (h : Den sem tyv e (.a2v arr) v) :
    v = sem .arrayToVector [e arr] := by
  generalize hp : Proxy.a2v arr = p at h
  cases h <;> cases hp
  rfl

theorem Den.a2b_inv {e : Nat → V} {n : Nat} {v : V} (h : Den sem tyv e (.a2b n) v) :
    v = sem .a2b [e n] := by
  generalize hp : Proxy.a2b n = p at h
  cases h <;> cases hp
  rfl

theorem Den.b2a_inv {e : Nat → V} {n : Nat} {v : V} (h : Den sem tyv e (.b2a n) v) :
    ∃ st, v = sem (.b2a st) [e n] := by
  generalize hp : Proxy.b2a n = p at h
  cases h <;> cases hp
  exact ⟨_, rfl⟩

theorem Den.number_inv {e : Nat → V} {c : Nat} {v : V} (h : Den sem tyv e (.number c) v) :
    ∃ vid, v = sem (.constant vid (some c)) [] := by
  generalize hp : Proxy.number c = p at h
  cases h <;> cases hp
  exact ⟨_, rfl⟩

end

/- ---------------- recorded types of the result graph ---------------- -/

section
variable (ok : V → Prop) (sem : Op → List V → V) (inp : Nat → V) (dv : V) (rnd : Nat → List V → V)
  (tyv : V → Ty)

local notation "𝓔" => ev sem inp dv rnd

/-- every node of the result graph records the type summary of its value, and evaluates
    successfully -/
def TyInv (out : List Node) : Prop :=
  ∀ k n', out[k]? = some n' → tyv (𝓔 out k) = n'.ty ∧ ok (𝓔 out k)

variable {ok sem inp dv rnd tyv}

theorem TyInv.snoc {out : List Node} (h : TyInv ok sem inp dv rnd tyv out) (n : Node)
    (hn : tyv (𝓔 (out ++ [n]) out.length) = n.ty) (hokn : ok (𝓔 (out ++ [n]) out.length)) :
    TyInv ok sem inp dv rnd tyv (out ++ [n]) := by
  intro k n' hk
  rcases getElem?_snoc_cases hk with hk | ⟨rfl, rfl⟩
  · rw [ev_append _ _ _ _ _ _ _ (lt_of_getElem?_some hk)]; exact h k n' hk
  · exact ⟨hn, hokn⟩

theorem TyInv.tyOf {out : List Node} (h : TyInv ok sem inp dv rnd tyv out) (k : Nat) (hk : k < out.length) :
    tyOf out k = tyv (𝓔 out k) := by
  unfold Optimizer.tyOf
  rw [List.getD_eq_getElem?_getD, List.getElem?_eq_getElem hk]
  exact (h k out[k] (List.getElem?_eq_getElem hk)).1.symm

theorem NoInputExt.ev {out out' : List Node} (h : NoInputExt out out') (k : Nat) (hk : k < out.length) :
    𝓔 out' k = 𝓔 out k := by
  obtain ⟨ext, rfl, _⟩ := h
  exact ev_append _ _ _ _ _ _ _ hk

theorem NoInputExt.le {out out' : List Node} (h : NoInputExt out out') : out.length ≤ out'.length := by
  obtain ⟨ext, rfl, _⟩ := h
  simp

/- ---------------- `maybe_vector_get` ---------------- -/

theorem vget_spec (L : MetaLaws ok sem tyv) : ∀ fuel : Nat,
    (∀ out p index idx r out' vid, Closed out → PNBound out.length p → idx < out.length →
      TyInv ok sem inp dv rnd tyv out → DenPN sem tyv (𝓔 out) p → (∃ t, tyv (𝓔 out p.2) = .vec t) →
      𝓔 out idx = sem (.constant vid (some index)) [] →
      ok (sem .vectorGet [𝓔 out p.2, 𝓔 out idx]) →
      vget fuel out p index idx = some (r, out') →
      TyInv ok sem inp dv rnd tyv out' ∧ ∀ e, r = some e →
        𝓔 out' e.2 = sem .vectorGet [𝓔 out p.2, 𝓔 out idx] ∧ DenPN sem tyv (𝓔 out') e) ∧
    (∀ out vecs index idx acc r out' vid, Closed out → (∀ v ∈ vecs, PNBound out.length v) →
      (∀ a ∈ acc, PNBound out.length a) → idx < out.length → TyInv ok sem inp dv rnd tyv out →
      (∀ v ∈ vecs, DenPN sem tyv (𝓔 out) v) → (∀ a ∈ acc, DenPN sem tyv (𝓔 out) a) →
      (∀ v ∈ vecs, ∃ t, tyv (𝓔 out v.2) = .vec t) →
      𝓔 out idx = sem (.constant vid (some index)) [] →
      (∀ v ∈ vecs, ok (sem .vectorGet [𝓔 out v.2, 𝓔 out idx])) →
      vgetAll fuel out vecs index idx acc = some (r, out') →
      TyInv ok sem inp dv rnd tyv out' ∧ ∀ sl, r = some sl →
        sl.map (fun x => 𝓔 out' x.2) = acc.map (fun x => 𝓔 out x.2) ++
          vecs.map (fun v => sem .vectorGet [𝓔 out v.2, 𝓔 out idx]) ∧
        ∀ a ∈ sl, DenPN sem tyv (𝓔 out') a) := by
  intro fuel
  induction fuel with
  | zero =>
    constructor
    · intro out p index idx r out' vid _ _ _ _ _ _ _ _ h; simp [vget] at h
    · intro out vecs index idx acc r out' vid _ _ _ _ _ _ _ _ _ _ h; simp [vgetAll] at h
  | succ f ih =>
    constructor
    · intro out p index idx r out' vid hc hp hidx hty hden hvec hcv hok h
      have hp1 := hp.1
      have hp2 := hp.2
      have hb := (vget_bound (f + 1)).1 _ _ _ _ _ _ hc hp hidx h
      unfold vget at h
      unfold DenPN at hden
      split at h
      · -- vector
        rename_i es heq
        rw [heq] at hden
        obtain ⟨⟨t, hv⟩, hch⟩ := hden.vector_inv
        split at h
        · rename_i e he
          simp at h; obtain ⟨rfl, rfl⟩ := h
          refine ⟨hty, fun e' he' => ?_⟩
          cases he'
          have hlt : index < es.length := lt_of_getElem?_some he
          have hee : es[index] = e := by
            have := List.getElem?_eq_getElem hlt; rw [he] at this; exact (Option.some.inj this).symm
          refine ⟨?_, hch e (List.mem_of_getElem? he)⟩
          rw [hv, hcv] at hok ⊢
          rw [L.vectorGet t _ vid index (by simpa using hlt) hok, List.getElem_map, hee]
        · cases h
      · -- array_to_vector
        rename_i arr heq
        rw [heq] at hden hp1
        have hv := hden.a2v_inv
        have harr : arr < out.length := by cases hp1 with | a2v _ h => exact h
        have hta := hty.tyOf arr harr
        have hok' : ok (sem .vectorGet [sem .arrayToVector [𝓔 out arr], sem (.constant vid (some index)) []]) := by
          rw [← hv, ← hcv]; exact hok
        have hlaw := L.a2vGet (𝓔 out arr) vid index hok'
        split at h
        · rename_i st hcase
          simp at h; obtain ⟨rfl, rfl⟩ := h
          rw [hta] at hcase
          have hval : 𝓔 (out ++ [mkNode (.get index) [arr] (.arr 0 st)]) out.length =
              sem (.get index) [𝓔 out arr] := by
            rw [ev_mk _ _ _ _ _ _ _ _ rfl rfl]; rfl
          have hokn : ok (sem (.get index) [𝓔 out arr]) := by
            have := hok'
            rw [hlaw, hcase] at this; exact this
          refine ⟨hty.snoc _ ?_ (by rw [hval]; exact hokn), fun e he => ?_⟩
          · rw [hval]; exact L.ty_get _ _ _ hcase hokn
          · cases he
            refine ⟨?_, .unknown _⟩
            rw [hval, hv, hcv, hlaw, hcase]
            rfl
        · rename_i nd st hne hcase
          simp at h; obtain ⟨rfl, rfl⟩ := h
          rw [hta] at hcase
          have hval : 𝓔 (out ++ [mkNode (.getSlice index) [arr] (.arr (nd - 1) st)]) out.length =
              sem (.getSlice index) [𝓔 out arr] := by
            rw [ev_mk _ _ _ _ _ _ _ _ rfl rfl]; rfl
          have hgs : sem .vectorGet [sem .arrayToVector [𝓔 out arr], sem (.constant vid (some index)) []] =
              sem (.getSlice index) [𝓔 out arr] := by
            rw [hlaw, hcase]
            split
            · rename_i st' hh
              cases hh
              exact absurd rfl hne
            · rfl
          refine ⟨hty.snoc _ ?_ (by rw [hval, ← hgs]; exact hok'), fun e he => ?_⟩
          · rw [hval, L.ty_getSlice _ _ (by rw [← hgs]; exact hok'), hcase]; rfl
          · cases he
            refine ⟨?_, .unknown _⟩
            rw [hval, hv, hcv, hgs]
        · rename_i hne1 hne2
          simp at h; obtain ⟨rfl, rfl⟩ := h
          have hval : 𝓔 (out ++ [mkNode (.getSlice index) [arr] .other]) out.length =
              sem (.getSlice index) [𝓔 out arr] := by
            rw [ev_mk _ _ _ _ _ _ _ _ rfl rfl]; rfl
          have hna : ∀ nd st, tyv (𝓔 out arr) ≠ .arr nd st := by
            intro nd st hh
            exact hne2 nd st (hta.trans hh)
          have hgs : sem .vectorGet [sem .arrayToVector [𝓔 out arr], sem (.constant vid (some index)) []] =
              sem (.getSlice index) [𝓔 out arr] := by
            rw [hlaw]
            split
            · rename_i st hh; exact absurd hh (hna 1 st)
            · rfl
          refine ⟨hty.snoc _ ?_ (by rw [hval, ← hgs]; exact hok'), fun e he => ?_⟩
          · rw [hval, L.ty_getSlice _ _ (by rw [← hgs]; exact hok')]
            split
            · rename_i nd st hh; exact absurd hh (hna nd st)
            · rfl
          · cases he
            refine ⟨?_, .unknown _⟩
            rw [hval, hv, hcv, hgs]
      · -- unknown
        simp at h; obtain ⟨rfl, rfl⟩ := h
        have hval : 𝓔 (out ++ [mkNode .vectorGet [p.2, idx] (elemTy (tyOf out p.2))]) out.length =
            sem .vectorGet [𝓔 out p.2, 𝓔 out idx] := by
          rw [ev_mk _ _ _ _ _ _ _ _ rfl rfl]; rfl
        refine ⟨hty.snoc _ ?_ (by rw [hval]; exact hok), fun e he => ?_⟩
        · obtain ⟨t, ht⟩ := hvec
          rw [hval, L.ty_vectorGet _ _ t ht hok, hty.tyOf p.2 hp2, ht]; rfl
        · cases he
          exact ⟨hval, .unknown _⟩
      · -- zip
        rename_i vecs heq
        rw [heq] at hden hp1
        obtain ⟨hv, hch, hcv'⟩ := hden.zip_inv
        have hvb : ∀ v ∈ vecs, PNBound out.length v := by
          cases hp1 with | zip _ h1 h2 => exact fun v hv => ⟨h1 v hv, h2 v hv⟩
        have hzl := L.zipGet (vecs.map fun x => 𝓔 out x.2) (𝓔 out idx) (by rw [← hv]; exact hok)
        have hokc : ∀ v ∈ vecs, ok (sem .vectorGet [𝓔 out v.2, 𝓔 out idx]) := by
          intro v hvm
          have := L.ok_createTuple _ (by rw [← hzl, ← hv]; exact hok)
          exact this _ (by
            rw [List.map_map]
            exact List.mem_map_of_mem (f := (fun v => sem .vectorGet [v, 𝓔 out idx]) ∘ fun x => 𝓔 out x.2) hvm)
        split at h
        · cases h
        · rename_i out1 hv1
          simp at h; obtain ⟨rfl, rfl⟩ := h
          obtain ⟨h1, _⟩ := ih.2 _ _ _ _ _ _ _ vid hc hvb (by simp) hidx hty hch (by simp) hcv' hcv hokc hv1
          exact ⟨h1, fun e he => by cases he⟩
        · rename_i sl out1 hv1
          simp at h; obtain ⟨rfl, rfl⟩ := h
          obtain ⟨h1, h2⟩ := ih.2 _ _ _ _ _ _ _ vid hc hvb (by simp) hidx hty hch (by simp) hcv' hcv hokc hv1
          obtain ⟨hmap, hsl⟩ := h2 sl rfl
          obtain ⟨_, _, hslb⟩ := (vget_bound f).2 _ _ _ _ _ _ _ hc hvb (by simp) hidx hv1
          have hslb := hslb sl rfl
          have hval : 𝓔 (out1 ++ [mkNode .createTuple (sl.map (·.2)) .other]) out1.length =
              sem .createTuple (sl.map fun x => 𝓔 out1 x.2) := by
            rw [ev_mk _ _ _ _ _ _ _ _ rfl rfl, List.map_map]; rfl
          have hag : ∀ k, k < out1.length →
              𝓔 (out1 ++ [mkNode .createTuple (sl.map (·.2)) .other]) k = 𝓔 out1 k :=
            fun k hk => ev_append _ _ _ _ _ _ _ hk
          have hnv : 𝓔 (out1 ++ [mkNode .createTuple (sl.map (·.2)) .other]) out1.length =
              sem .vectorGet [𝓔 out p.2, 𝓔 out idx] := by
            rw [hval, hmap, hv, hzl, List.map_map]
            rfl
          refine ⟨h1.snoc _ ?_ (by rw [hnv]; exact hok), fun e he => ?_⟩
          · rw [hval]; exact L.ty_createTuple _
          · cases he
            refine ⟨?_, ?_⟩
            · exact hnv
            · show Den sem tyv _ (.tuple sl) (𝓔 (out1 ++ [mkNode .createTuple (sl.map (·.2)) .other]) out1.length)
              rw [hval]
              have : (sl.map fun x => 𝓔 out1 x.2) =
                  sl.map fun x => 𝓔 (out1 ++ [mkNode .createTuple (sl.map (·.2)) .other]) x.2 :=
                List.map_congr_left fun x hx => (hag x.2 (hslb x hx).2).symm
              rw [this]
              exact .tuple sl fun x hx => (hsl x hx).mono hag (hslb x hx)
      · simp at h; obtain ⟨rfl, rfl⟩ := h
        exact ⟨hty, fun e he => by cases he⟩
    · intro out vecs index idx acc r out' vid hc hvb hab hidx hty hvd had hvt hcv hokv h
      unfold vgetAll at h
      split at h
      · simp at h; obtain ⟨rfl, rfl⟩ := h
        exact ⟨hty, fun sl hsl => by cases hsl; exact ⟨by simp, had⟩⟩
      · rename_i v vs
        split at h
        · cases h
        · rename_i out1 hv1
          simp at h; obtain ⟨rfl, rfl⟩ := h
          obtain ⟨h1, _⟩ := ih.1 _ _ _ _ _ _ vid hc (hvb v (by simp)) hidx hty (hvd v (by simp))
            (hvt v (by simp)) hcv (hokv v (by simp)) hv1
          exact ⟨h1, fun sl hsl => by cases hsl⟩
        · rename_i s out1 hv1
          obtain ⟨h1, h2⟩ := ih.1 _ _ _ _ _ _ vid hc (hvb v (by simp)) hidx hty (hvd v (by simp))
            (hvt v (by simp)) hcv (hokv v (by simp)) hv1
          obtain ⟨hs1, hs2⟩ := h2 s rfl
          obtain ⟨hc1, hle, hsb⟩ := (vget_bound f).1 _ _ _ _ _ _ hc (hvb v (by simp)) hidx hv1
          have hext := (vget_ext f).1 _ _ _ _ _ _ hv1
          have hag : ∀ k, k < out.length → 𝓔 out1 k = 𝓔 out k := fun k hk => hext.ev k hk
          have hvb1 : ∀ x ∈ vs, PNBound out1.length x := fun x hx => (hvb x (by simp [hx])).mono hle
          have hab1 : ∀ a ∈ acc ++ [s], PNBound out1.length a := by
            intro a haa
            rcases List.mem_append.mp haa with haa | haa
            · exact (hab a haa).mono hle
            · simp at haa; subst haa; exact hsb _ rfl
          obtain ⟨h3, h4⟩ := ih.2 _ _ _ _ _ _ _ vid hc1 hvb1 hab1 (by omega) h1
            (fun x hx => (hvd x (by simp [hx])).mono hag (hvb x (by simp [hx])))
            (fun a haa => by
              rcases List.mem_append.mp haa with haa | haa
              · exact (had a haa).mono hag (hab a haa)
              · simp at haa; subst haa; exact hs2)
            (fun x hx => by rw [hag x.2 (hvb x (by simp [hx])).2]; exact hvt x (by simp [hx]))
            (by rw [hag idx hidx]; exact hcv)
            (fun x hx => by rw [hag x.2 (hvb x (by simp [hx])).2, hag idx hidx]; exact hokv x (by simp [hx])) h
          refine ⟨h3, fun sl hsl => ?_⟩
          obtain ⟨h5, h6⟩ := h4 sl hsl
          refine ⟨?_, h6⟩
          rw [h5, List.map_append, List.append_assoc]
          congr 1
          · exact List.map_congr_left fun a ha => hag a.2 (hab a ha).2
          · simp only [List.map_cons, List.map_nil, List.cons_append, List.nil_append, hs1]
            congr 1
            apply List.map_congr_left
            intro x hx
            rw [hag x.2 (hvb x (by simp [hx])).2, hag idx hidx]

/- ---------------- getters on proxies ---------------- -/

theorem namedGet_spec (nm : Nat) : ∀ (es : List (Nat × PN)) (e : PN), namedGet nm es = some e →
    ∃ j : Nat, es[j]? = some (nm, e) := by
  intro es
  induction es with
  | nil => intro e h; simp [namedGet] at h
  | cons x r ih =>
    intro e h
    obtain ⟨a, b⟩ := x
    simp only [namedGet] at h
    split at h
    · rename_i x' hx
      cases h
      obtain ⟨j, hj⟩ := ih _ hx
      exact ⟨j + 1, by simpa using hj⟩
    · split at h
      · rename_i ha; cases h; subst ha; exact ⟨0, by simp⟩
      · cases h

theorem applyMeta_spec (L : MetaLaws ok sem tyv) (fuel : Nat) (out : List Node) (op : Op) (pds : List PN)
    (r : Option PN) (out' : List Node) (SI : V) (hokSI : ok SI)
    (hc : Closed out) (hty : TyInv ok sem inp dv rnd tyv out)
    (hb : ∀ d ∈ pds, PNBound out.length d) (hden : ∀ d ∈ pds, DenPN sem tyv (𝓔 out) d)
    (hSI : op.isInput = false → op.isRandom = false → SI = sem op (pds.map fun d => 𝓔 out d.2))
    (hvg : op = .vectorGet → ∀ d, pds.head? = some d → ∃ t, tyv (𝓔 out d.2) = .vec t)
    (h : applyMeta fuel out op pds = some (r, out')) :
    TyInv ok sem inp dv rnd tyv out' ∧ ∀ e, r = some e → 𝓔 out' e.2 = SI ∧ DenPN sem tyv (𝓔 out') e := by
  have triv : ∀ {r : Option PN} {out' : List Node}, some ((none : Option PN), out) = some (r, out') →
      TyInv ok sem inp dv rnd tyv out' ∧ ∀ e, r = some e → 𝓔 out' e.2 = SI ∧ DenPN sem tyv (𝓔 out') e := by
    intro r out' h
    simp at h; obtain ⟨rfl, rfl⟩ := h
    exact ⟨hty, fun e he => by cases he⟩
  unfold applyMeta at h
  split at h
  · -- namedTupleGet nm, [d]
    rename_i nm d
    have hdd := hden d (by simp)
    have hSI' := hSI rfl rfl
    split at h
    · rename_i es heq
      split at h
      · rename_i e he
        simp at h; obtain ⟨rfl, rfl⟩ := h
        refine ⟨hty, fun e' he' => ?_⟩
        cases he'
        unfold DenPN at hdd
        rw [heq] at hdd
        obtain ⟨hv, hnd, hch⟩ := hdd.named_inv
        obtain ⟨j, hj⟩ := namedGet_spec nm es e he
        have hjl : j < es.length := lt_of_getElem?_some hj
        have hej : es[j] = (nm, e) := by
          have := List.getElem?_eq_getElem hjl; rw [hj] at this; exact (Option.some.inj this).symm
        refine ⟨?_, hch _ (List.mem_of_getElem? hj)⟩
        have hnm : (es.map (·.1))[j]! = nm := by
          rw [List.getElem!_eq_getElem?_getD, List.getElem?_map, hj]; rfl
        have hokL : ok (sem (.namedTupleGet nm) [sem (.createNamedTuple (es.map (·.1)))
            (es.map fun x => 𝓔 out x.2.2)]) := by
          have := hokSI
          rw [hSI'] at this
          simp only [List.map_cons, List.map_nil] at this
          rw [hv] at this
          exact this
        have := L.namedGet (es.map (·.1)) (es.map fun x => 𝓔 out x.2.2) j (by simpa using hjl)
          (by simp) hnd (by rw [hnm]; exact hokL)
        rw [hnm, List.getElem_map, hej] at this
        rw [hSI']
        simp only [List.map_cons, List.map_nil]
        rw [hv, this]
      · cases h
    · exact triv h
  · cases h
  · -- tupleGet j, [d]
    rename_i j d
    have hdd := hden d (by simp)
    have hSI' := hSI rfl rfl
    split at h
    · rename_i es heq
      split at h
      · rename_i e he
        simp at h; obtain ⟨rfl, rfl⟩ := h
        refine ⟨hty, fun e' he' => ?_⟩
        cases he'
        unfold DenPN at hdd
        rw [heq] at hdd
        obtain ⟨hv, hch⟩ := hdd.tuple_inv
        have hjl : j < es.length := lt_of_getElem?_some he
        have hej : es[j] = e := by
          have := List.getElem?_eq_getElem hjl; rw [he] at this; exact (Option.some.inj this).symm
        refine ⟨?_, hch _ (List.mem_of_getElem? he)⟩
        have hokL : ok (sem (.tupleGet j) [sem .createTuple (es.map fun x => 𝓔 out x.2)]) := by
          have := hokSI
          rw [hSI'] at this
          simp only [List.map_cons, List.map_nil] at this
          rw [hv] at this
          exact this
        have := L.tupleGet (es.map fun x => 𝓔 out x.2) j (by simpa using hjl) hokL
        rw [List.getElem_map, hej] at this
        rw [hSI']
        simp only [List.map_cons, List.map_nil]
        rw [hv, this]
      · cases h
    · exact triv h
  · cases h
  · -- vectorGet, [v, i]
    rename_i v i
    have hSI' := hSI rfl rfl
    split at h
    · rename_i index heq
      have hdi := hden i (by simp)
      unfold DenPN at hdi
      rw [heq] at hdi
      obtain ⟨vid, hvid⟩ := hdi.number_inv
      obtain ⟨h1, h2⟩ := (vget_spec L fuel).1 _ _ _ _ _ _ vid hc (hb v (by simp)) (hb i (by simp)).2 hty
        (hden v (by simp)) (hvg rfl v rfl) hvid (by
          have := hokSI
          rw [hSI'] at this
          exact this) h
      refine ⟨h1, fun e he => ?_⟩
      obtain ⟨h3, h4⟩ := h2 e he
      refine ⟨?_, h4⟩
      rw [h3, hSI']
      rfl
    · exact triv h
  · cases h
  · exact triv h

/- ---------------- the proxy computation of one loop iteration ---------------- -/

/-- the `r` of `metaStep`: the proxy object (if any) and the result graph after the getters have
    been resolved; `out` already contains the simple copy at position `simple` -/
def metaR (fuel : Nat) (out : List Node) (simple : Nat) (op : Op) (deps : List Nat)
    (metaDeps : List (Option PN)) : Option (Option PN × List Node) :=
  match op with
  | .constant _ num =>
    match num with
    | some c => some (some (.number c, simple), out)
    | none => some (none, out)
  | .arrayToVector => some (some (.a2v (deps.headD 0), simple), out)
  | .a2b =>
    let node := match metaDeps.headD none with
      | some (.b2a bin, _) => bin
      | _ => simple
    some (some (.a2b (deps.headD 0), node), out)
  | .b2a st' =>
    let node := match metaDeps.headD none with
      | some (.a2b ar, _) =>
        (match tyOf out ar with
         | .arr _ s => if st' = s then ar else simple
         | _ => simple)
      | _ => simple
    some (some (.b2a (deps.headD 0), node), out)
  | .createNamedTuple names =>
    some (some (.named (names.zip (elems deps metaDeps)), simple), out)
  | .createTuple => some (some (.tuple (elems deps metaDeps), simple), out)
  | .createVector _ => some (some (.vector (elems deps metaDeps), simple), out)
  | .zip => some (some (.zip (elems deps metaDeps), simple), out)
  | op =>
    if metaDeps.all Option.isSome then
      applyMeta fuel out op (metaDeps.filterMap id)
    else some (none, out)

/-- `metaStep` is `metaR` followed by the bookkeeping (mapping entry, proxy entry, annotations) -/
theorem metaStep_eq (fuel : Nat) (st : MSt) (n : Node) :
    metaStep fuel (some st) n =
      match metaR fuel (st.out ++ [(⟨n.op, n.deps.map (look st.m), [], n.name, n.ty⟩ : Node)])
          st.out.length n.op (n.deps.map (look st.m))
          (n.deps.map fun d => st.px.getD d none) with
      | none => none
      | some (mn, out') =>
        some { out := addAnn out' (match mn with | some p => p.2 | none => st.out.length) n.ann,
               m := st.m ++ [some (match mn with | some p => p.2 | none => st.out.length)],
               px := st.px ++ [mn] } := by
  unfold metaStep metaR
  rfl

theorem filterMap_all_some (deps : List Nat) (f : Nat → V) (g : PN → V) :
    ∀ (mds : List (Option PN)), mds.length = deps.length → mds.all Option.isSome = true →
    (∀ (j d : Nat) (p : PN), deps[j]? = some d → mds[j]? = some (some p) → g p = f d) →
    (mds.filterMap id).map g = deps.map f := by
  induction deps with
  | nil => intro mds hl _ _; cases mds <;> simp_all
  | cons d ds ih =>
    intro mds hl hall h
    cases mds with
    | nil => simp at hl
    | cons md r =>
      simp only [List.all_cons, Bool.and_eq_true] at hall
      cases md with
      | none => simp at hall
      | some p =>
        simp only [List.filterMap_cons, id, List.map_cons]
        rw [h 0 d p (by simp) (by simp), ih r (by simpa using hl) hall.2
          (fun j d' p' h1 h2 => h (j + 1) d' p' (by simpa using h1) (by simpa using h2))]

theorem mem_filterMap_idx {p : PN} {mds : List (Option PN)} (h : p ∈ mds.filterMap id) :
    ∃ j : Nat, mds[j]? = some (some p) := by
  rw [List.mem_filterMap] at h
  obtain ⟨a, ha, ha'⟩ := h
  cases a with
  | none => cases ha'
  | some q =>
    simp at ha'; subst ha'
    exact List.mem_iff_getElem?.mp ha

theorem metaR_spec (L : MetaLaws ok sem tyv) (fuel : Nat) (out : List Node) (simple : Nat) (op : Op)
    (deps : List Nat) (metaDeps : List (Option PN)) (mn : Option PN) (out' : List Node) (SI : V)
    (hokSI : ok SI) (hc : Closed out) (hty : TyInv ok sem inp dv rnd tyv out)
    (hs : 𝓔 out simple = SI)
    (hSI : op.isInput = false → op.isRandom = false → SI = sem op (deps.map (𝓔 out)))
    (hlen : metaDeps.length = deps.length)
    (hmd : ∀ (j d : Nat) (p : PN), deps[j]? = some d → metaDeps[j]? = some (some p) →
      𝓔 out p.2 = 𝓔 out d ∧ DenPN sem tyv (𝓔 out) p ∧ PNBound out.length p)
    (hwf : arityOK op deps.length = true)
    (hvg : op = .vectorGet → ∀ d, deps.head? = some d → ∃ t, tyv (𝓔 out d) = .vec t)
    (hzp : op = .zip → ∀ d ∈ deps, ∃ t, tyv (𝓔 out d) = .vec t)
    (h : metaR fuel out simple op deps metaDeps = some (mn, out')) :
    TyInv ok sem inp dv rnd tyv out' ∧ ∀ p, mn = some p → 𝓔 out' p.2 = SI ∧ DenPN sem tyv (𝓔 out') p := by
  have fin : ∀ (e : PN), (𝓔 out e.2 = SI ∧ DenPN sem tyv (𝓔 out) e) →
      ∀ {mn : Option PN} {out' : List Node}, some (some e, out) = some (mn, out') →
      TyInv ok sem inp dv rnd tyv out' ∧ ∀ p, mn = some p → 𝓔 out' p.2 = SI ∧ DenPN sem tyv (𝓔 out') p := by
    intro e he mn out' h
    simp at h; obtain ⟨rfl, rfl⟩ := h
    exact ⟨hty, fun p hp => by cases hp; exact he⟩
  have fin0 : ∀ {mn : Option PN} {out' : List Node}, some ((none : Option PN), out) = some (mn, out') →
      TyInv ok sem inp dv rnd tyv out' ∧ ∀ p, mn = some p → 𝓔 out' p.2 = SI ∧ DenPN sem tyv (𝓔 out') p := by
    intro mn out' h
    simp at h; obtain ⟨rfl, rfl⟩ := h
    exact ⟨hty, fun p hp => by cases hp⟩
  -- the element list of a compound constructor
  have hel_len : (elems deps metaDeps).length = deps.length := by
    unfold elems; simp [List.length_zip, hlen]
  have hel_den : ∀ e ∈ elems deps metaDeps, DenPN sem tyv (𝓔 out) e := by
    intro e he
    unfold elems at he
    rw [List.mem_map] at he
    obtain ⟨⟨d, md⟩, hmem, rfl⟩ := he
    obtain ⟨j, hj⟩ := List.mem_iff_getElem?.mp hmem
    obtain ⟨h1, h2⟩ := List.getElem?_zip_eq_some.mp hj
    cases md with
    | none => exact .unknown _
    | some p => exact (hmd j d p h1 h2).2.1
  have hel_val : (elems deps metaDeps).map (fun x => 𝓔 out x.2) = deps.map (𝓔 out) := by
    unfold elems
    rw [List.map_map]
    have : ∀ x ∈ deps.zip metaDeps, ((fun x : PN => 𝓔 out x.2) ∘ fun (x : Nat × Option PN) =>
        match x with
        | (d, md) => match md with
          | some p => p
          | none => (Proxy.unknown, d)) x = (𝓔 out ∘ Prod.fst) x := by
      intro x hx
      obtain ⟨d, md⟩ := x
      obtain ⟨j, hj⟩ := List.mem_iff_getElem?.mp hx
      obtain ⟨h1, h2⟩ := List.getElem?_zip_eq_some.mp hj
      cases md with
      | none => rfl
      | some p => exact (hmd j d p h1 h2).1
    refine Eq.trans (List.map_congr_left (g := 𝓔 out ∘ Prod.fst) this) ?_
    rw [← List.map_map, List.map_fst_zip (by omega)]
  unfold metaR at h
  split at h
  · -- constant
    rename_i vid num
    have hd0 : deps = [] := by
      have : deps.length = 0 := by simpa [arityOK] using hwf
      exact List.eq_nil_of_length_eq_zero this
    split at h
    · rename_i c
      refine fin _ ⟨hs, ?_⟩ h
      unfold DenPN
      rw [hs, hSI rfl rfl, hd0]
      exact .number c vid
    · exact fin0 h
  · -- arrayToVector
    obtain ⟨d, hd1⟩ : ∃ d, deps = [d] := by
      have : deps.length = 1 := by simpa [arityOK] using hwf
      match deps, this with
      | [d], _ => exact ⟨d, rfl⟩
    refine fin _ ⟨hs, ?_⟩ h
    unfold DenPN
    rw [hs, hSI rfl rfl, hd1]
    exact .a2v d
  · -- a2b
    obtain ⟨d, hd1⟩ : ∃ d, deps = [d] := by
      have : deps.length = 1 := by simpa [arityOK] using hwf
      match deps, this with
      | [d], _ => exact ⟨d, rfl⟩
    obtain ⟨md, hm1⟩ : ∃ md, metaDeps = [md] := by
      rw [hd1] at hlen
      match metaDeps, hlen with
      | [md], _ => exact ⟨md, rfl⟩
    have hSI' : SI = sem .a2b [𝓔 out d] := by rw [hSI rfl rfl, hd1]; rfl
    have key : ∀ node, 𝓔 out node = SI → 𝓔 out node = SI ∧ DenPN sem tyv (𝓔 out) (.a2b (deps.headD 0), node) := by
      intro node hnode
      refine ⟨hnode, ?_⟩
      unfold DenPN
      rw [hnode, hSI', hd1]
      exact .a2b d
    refine fin _ (key _ ?_) h
    rw [hm1]
    simp only [List.headD_cons]
    split
    · rename_i bin x
      obtain ⟨h1, h2, _⟩ := hmd 0 d (.b2a bin, x) (by rw [hd1]; rfl) (by rw [hm1]; rfl)
      obtain ⟨st, hst⟩ := Den.b2a_inv h2
      have hokL : ok (sem .a2b [sem (.b2a st) [𝓔 out bin]]) := by
        have := hokSI
        rw [hSI', ← h1] at this
        simp only at hst
        rw [hst] at this
        exact this
      rw [hSI', ← h1]
      simp only at hst
      rw [hst, L.a2b_b2a _ _ hokL]
    · exact hs
  · -- b2a
    rename_i st'
    obtain ⟨d, hd1⟩ : ∃ d, deps = [d] := by
      have : deps.length = 1 := by simpa [arityOK] using hwf
      match deps, this with
      | [d], _ => exact ⟨d, rfl⟩
    obtain ⟨md, hm1⟩ : ∃ md, metaDeps = [md] := by
      rw [hd1] at hlen
      match metaDeps, hlen with
      | [md], _ => exact ⟨md, rfl⟩
    have hSI' : SI = sem (.b2a st') [𝓔 out d] := by rw [hSI rfl rfl, hd1]; rfl
    have key : ∀ node, 𝓔 out node = SI → 𝓔 out node = SI ∧ DenPN sem tyv (𝓔 out) (.b2a (deps.headD 0), node) := by
      intro node hnode
      refine ⟨hnode, ?_⟩
      unfold DenPN
      rw [hnode, hSI', hd1]
      exact .b2a d st'
    refine fin _ (key _ ?_) h
    rw [hm1]
    simp only [List.headD_cons]
    split
    · rename_i ar x
      obtain ⟨h1, h2, h3⟩ := hmd 0 d (.a2b ar, x) (by rw [hd1]; rfl) (by rw [hm1]; rfl)
      have har : ar < out.length := by
        have := h3.1; cases this with | a2b _ h => exact h
      have hv := Den.a2b_inv h2
      simp only at hv
      split
      · rename_i nd s hcase
        split
        · rename_i hst
          rw [hty.tyOf ar har] at hcase
          have hokL : ok (sem (.b2a s) [sem .a2b [𝓔 out ar]]) := by
            have := hokSI
            rw [hSI', ← h1, hv, hst] at this
            exact this
          rw [hSI', ← h1, hv, hst,
            L.b2a_a2b _ nd s hcase (hty ar _ (List.getElem?_eq_getElem har)).2 hokL]
        · exact hs
      · exact hs
    · exact hs
  · -- createNamedTuple
    rename_i names
    have hnm : names.Nodup ∧ names.length = deps.length := by
      simpa [arityOK] using hwf
    refine fin _ ⟨hs, ?_⟩ h
    unfold DenPN
    simp only
    rw [hs, hSI rfl rfl, ← hel_val]
    have e1 : (names.zip (elems deps metaDeps)).map (·.1) = names :=
      List.map_fst_zip (by omega)
    have e2 : (names.zip (elems deps metaDeps)).map (fun x => 𝓔 out x.2.2) =
        (elems deps metaDeps).map (fun x => 𝓔 out x.2) := by
      have : (names.zip (elems deps metaDeps)).map Prod.snd = elems deps metaDeps :=
        List.map_snd_zip (by omega)
      conv => rhs; rw [← this]
      rw [List.map_map]; rfl
    have := Den.named (sem := sem) (e := 𝓔 out) (names.zip (elems deps metaDeps)) (by rw [e1]; exact hnm.1)
      (fun x hx => hel_den x.2 (List.of_mem_zip (a := x.1) (b := x.2) hx).2)
    rw [e1, e2] at this
    exact this
  · -- createTuple
    refine fin _ ⟨hs, ?_⟩ h
    unfold DenPN
    simp only
    rw [hs, hSI rfl rfl, ← hel_val]
    exact .tuple _ hel_den
  · -- createVector
    rename_i t
    refine fin _ ⟨hs, ?_⟩ h
    unfold DenPN
    simp only
    rw [hs, hSI rfl rfl, ← hel_val]
    exact .vector _ t hel_den
  · -- zip
    refine fin _ ⟨hs, ?_⟩ h
    unfold DenPN
    simp only
    rw [hs, hSI rfl rfl, ← hel_val]
    refine .zip _ hel_den (fun x hx => ?_)
    have hmem : 𝓔 out x.2 ∈ (elems deps metaDeps).map (fun x => 𝓔 out x.2) := List.mem_map_of_mem hx
    rw [hel_val, List.mem_map] at hmem
    obtain ⟨d, hd, hde⟩ := hmem
    rw [← hde]; exact hzp rfl d hd
  · split at h
    · rename_i hall
      refine applyMeta_spec L fuel out _ (metaDeps.filterMap id) mn out' SI hokSI hc hty ?_ ?_ ?_ ?_ h
      · intro p hp
        obtain ⟨j, hj⟩ := mem_filterMap_idx hp
        have hjl : j < deps.length := by rw [← hlen]; exact lt_of_getElem?_some hj
        exact (hmd j deps[j] p (List.getElem?_eq_getElem hjl) hj).2.2
      · intro p hp
        obtain ⟨j, hj⟩ := mem_filterMap_idx hp
        have hjl : j < deps.length := by rw [← hlen]; exact lt_of_getElem?_some hj
        exact (hmd j deps[j] p (List.getElem?_eq_getElem hjl) hj).2.1
      · intro h1 h2
        rw [hSI h1 h2, filterMap_all_some deps (𝓔 out) (fun p => 𝓔 out p.2) metaDeps hlen hall
          (fun j d p hd hp => (hmd j d p hd hp).1)]
      · intro hop p hp
        have hmem : p ∈ metaDeps.filterMap id := List.mem_of_mem_head? hp
        have h0 : metaDeps[0]? = some (some p) := by
          cases hm : metaDeps with
          | nil => rw [hm] at hp; simp at hp
          | cons md r =>
            rw [hm] at hp hall
            simp only [List.all_cons, Bool.and_eq_true] at hall
            cases md with
            | none => simp at hall
            | some q => simp at hp; simp [hp]
        have h0l : 0 < deps.length := by rw [← hlen]; exact lt_of_getElem?_some h0
        obtain ⟨t, ht⟩ := hvg hop deps[0] (by
          rw [List.head?_eq_getElem?]; exact List.getElem?_eq_getElem h0l)
        exact ⟨t, by rw [(hmd 0 deps[0] p (List.getElem?_eq_getElem h0l) h0).1]; exact ht⟩
    · exact fin0 h

end

/- ---------------- shape of one loop iteration ---------------- -/

theorem metaR_ext (fuel : Nat) (out : List Node) (simple : Nat) (op : Op) (deps : List Nat)
    (mds : List (Option PN)) (mn : Option PN) (out' : List Node)
    (h : metaR fuel out simple op deps mds = some (mn, out')) : NoInputExt out out' := by
  unfold metaR at h
  split at h
  all_goals (try (split at h))
  all_goals first
    | (cases h; done)
    | (simp at h; obtain ⟨_, rfl⟩ := h; exact NoInputExt.refl _)
    | exact applyMeta_ext _ _ _ _ _ _ h

/-- a randomising / PRF / input node never gets a proxy object: it is mapped to its own copy -/
theorem metaR_special (fuel : Nat) (out : List Node) (simple : Nat) (op : Op) (deps : List Nat)
    (mds : List (Option PN)) (mn : Option PN) (out' : List Node) (hsp : Special op)
    (h : metaR fuel out simple op deps mds = some (mn, out')) : mn = none ∧ out' = out := by
  have : metaR fuel out simple op deps mds = some (none, out) := by
    rcases hsp with h' | h' | h' <;> cases op <;> simp [Op.isRandom, Op.isPrf, Op.isInput] at h' <;>
      simp [metaR, applyMeta]
  rw [this] at h
  simp at h
  exact ⟨h.1.symm, h.2.symm⟩

theorem countIn_eq_inputsOf (l : List Node) : countIn l = (inputsOf l).length := by
  simp [countIn, inputsOf]

/- ---------------- the loop invariant ---------------- -/

section
variable (ok : V → Prop) (sem : Op → List V → V) (inp : Nat → V) (dv : V) (rO rN : Nat → List V → V)
  (tyv : V → Ty) (src : List Node)

local notation "𝓔" => ev sem inp dv rN
local notation "𝓢" => ev sem inp dv rO src

/-- loop invariant of `optimize_graph_meta_operations` after the prefix `pre` of the source graph:
    a mapped node has the value of its source node; a proxy object describes the value of the
    node it stands for; recorded types of the result graph are right -/
structure VInv (pre : List Node) (st : MSt) : Prop where
  lenm : st.m.length = pre.length
  lenp : st.px.length = pre.length
  inv : MInv st
  cnt : countIn st.out = countIn pre
  vals : ∀ i k, Maps st.m i k → 𝓔 st.out k = 𝓢 i
  den : ∀ (i : Nat) (p : PN), st.px[i]? = some (some p) → Maps st.m i p.2 ∧ DenPN sem tyv (𝓔 st.out) p
  ty : TyInv ok sem inp dv rN tyv st.out

variable {ok sem inp dv rO rN tyv src}

theorem maps_fun {m : Mapping} {i k k' : Nat} (h : Maps m i k) (h' : Maps m i k') : k = k' := by
  unfold Maps at h h'; rw [h] at h'; simpa using h'

theorem metaStep_vinv (L : MetaLaws ok sem tyv) (hsrc : Closed src)
    (htyS : TyOK sem inp dv rO tyv src) (hokS : ValOK ok sem inp dv rO src)
    (fuel : Nat) (pre rest : List Node) (n : Node) (hsplit : src = pre ++ n :: rest) (st st' : MSt)
    (I : VInv ok sem inp dv rO rN tyv src pre st) (hwf : metaWF n = true)
    (hrand : n.op.isRandom = true → rN st.out.length = rO pre.length)
    (hvo : (n.op = .vectorGet → ∀ d, n.deps.head? = some d → ∃ t, tyv (𝓢 d) = .vec t) ∧
      (n.op = .zip → ∀ d ∈ n.deps, ∃ t, tyv (𝓢 d) = .vec t))
    (h : metaStep fuel (some st) n = some st') :
    VInv ok sem inp dv rO rN tyv src (pre ++ [n]) st' := by
  have hn : src[pre.length]? = some n := by rw [hsplit]; simp
  have hd : ∀ d ∈ n.deps, d < pre.length := closed_deps_lt (by rw [← hsplit]; exact hsrc)
  have hdm : ∀ d ∈ n.deps, d < st.m.length := by rw [I.lenm]; exact hd
  have I1 := metaStep_inv fuel st st' n I.inv hdm h
  have hin := metaStep_inputs fuel st st' n h
  -- the values of the dependencies
  have hlook : ∀ d ∈ n.deps, look st.m d < st.out.length ∧ 𝓔 st.out (look st.m d) = 𝓢 d := by
    intro d hdd
    obtain ⟨k, hk, hkb⟩ := I.inv.mb d (hdm d hdd)
    rw [look_of_maps hk]
    exact ⟨hkb, I.vals d k hk⟩
  have htake : src.take pre.length = pre := by rw [hsplit]; simp
  have hSspec : 𝓢 pre.length =
      nodeVal sem inp dv rO (eval sem inp dv rO src) (countIn pre) pre.length n := by
    have := eval_spec sem inp dv rO src hsrc pre.length n hn
    rw [htake] at this
    exact this
  rw [metaStep_eq] at h
  generalize hsn : (⟨n.op, n.deps.map (look st.m), [], n.name, n.ty⟩ : Node) = simpleNode at h
  have hargs : (simpleNode.deps.map fun d => (eval sem inp dv rN st.out).getD d dv) =
      n.deps.map fun d => (eval sem inp dv rO src).getD d dv := by
    rw [← hsn]
    simp only [List.map_map]
    apply List.map_congr_left
    intro d hdd
    exact (hlook d hdd).2
  have hs : 𝓔 (st.out ++ [simpleNode]) st.out.length = 𝓢 pre.length := by
    rw [ev_snoc, hSspec]
    unfold nodeVal
    rw [hargs]
    have hop : simpleNode.op = n.op := by rw [← hsn]
    rw [hop]
    cases hopn : n.op with
    | input t => simp only [I.cnt]
    | random t => simp only; rw [hrand (by rw [hopn]; rfl)]
    | _ => rfl
  have hc1 : Closed (st.out ++ [simpleNode]) := by
    apply closed_snoc I.inv.closed
    rw [← hsn]
    intro d hdd
    simp only [List.mem_map] at hdd
    obtain ⟨d0, hd0, rfl⟩ := hdd
    exact (hlook d0 hd0).1
  have hag1 : ∀ k, k < st.out.length → 𝓔 (st.out ++ [simpleNode]) k = 𝓔 st.out k :=
    fun k hk => ev_append _ _ _ _ _ _ _ hk
  have hty1 : TyInv ok sem inp dv rN tyv (st.out ++ [simpleNode]) := by
    refine I.ty.snoc _ ?_ (by rw [hs]; exact hokS pre.length (lt_of_getElem?_some hn))
    rw [hs, ← hsn]
    exact htyS pre.length n hn
  have hSI : n.op.isInput = false → n.op.isRandom = false →
      𝓢 pre.length = sem n.op ((n.deps.map (look st.m)).map (𝓔 (st.out ++ [simpleNode]))) := by
    intro h1 h2
    rw [hSspec, nodeVal_plain _ _ _ _ _ _ _ _ h1 h2, List.map_map]
    congr 1
    apply List.map_congr_left
    intro d hdd
    simp only [Function.comp]
    rw [hag1 _ (hlook d hdd).1]
    exact (hlook d hdd).2.symm
  have hmd : ∀ (j d : Nat) (p : PN), (n.deps.map (look st.m))[j]? = some d →
      (n.deps.map fun d => st.px.getD d none)[j]? = some (some p) →
      𝓔 (st.out ++ [simpleNode]) p.2 = 𝓔 (st.out ++ [simpleNode]) d ∧
        DenPN sem tyv (𝓔 (st.out ++ [simpleNode])) p ∧ PNBound (st.out ++ [simpleNode]).length p := by
    intro j d p h1 h2
    rw [List.getElem?_map] at h1 h2
    cases hdj : n.deps[j]? with
    | none => rw [hdj] at h1; cases h1
    | some d0 =>
      rw [hdj] at h1 h2
      simp only [Option.map_some, Option.some.injEq] at h1 h2
      rw [List.getD_eq_getElem?_getD] at h2
      have hpx : st.px[d0]? = some (some p) := by
        cases hx : st.px[d0]? with
        | none => rw [hx] at h2; cases h2
        | some y => rw [hx] at h2; simp at h2; rw [h2]
      obtain ⟨hmp, hdp⟩ := I.den d0 p hpx
      have hb := I.inv.pb d0 p hpx
      refine ⟨by rw [← h1, look_of_maps hmp], hdp.mono hag1 hb, hb.mono (by simp)⟩
  have hdv : ∀ d ∈ n.deps, 𝓔 (st.out ++ [simpleNode]) (look st.m d) = 𝓢 d := by
    intro d hdd
    rw [hag1 _ (hlook d hdd).1]; exact (hlook d hdd).2
  have hvg' : n.op = .vectorGet → ∀ d, (n.deps.map (look st.m)).head? = some d →
      ∃ t, tyv (𝓔 (st.out ++ [simpleNode]) d) = .vec t := by
    intro hop d hdh
    rw [List.head?_map] at hdh
    cases hh : n.deps.head? with
    | none => rw [hh] at hdh; cases hdh
    | some d0 =>
      rw [hh] at hdh
      simp only [Option.map_some, Option.some.injEq] at hdh
      obtain ⟨t, ht⟩ := hvo.1 hop d0 hh
      exact ⟨t, by rw [← hdh, hdv d0 (List.mem_of_mem_head? hh)]; exact ht⟩
  have hzp' : n.op = .zip → ∀ d ∈ n.deps.map (look st.m),
      ∃ t, tyv (𝓔 (st.out ++ [simpleNode]) d) = .vec t := by
    intro hop d hdm'
    rw [List.mem_map] at hdm'
    obtain ⟨d0, hd0, rfl⟩ := hdm'
    obtain ⟨t, ht⟩ := hvo.2 hop d0 hd0
    exact ⟨t, by rw [hdv d0 hd0]; exact ht⟩
  cases hR : metaR fuel (st.out ++ [simpleNode]) st.out.length n.op (n.deps.map (look st.m))
      (n.deps.map fun d => st.px.getD d none) with
  | none => rw [hR] at h; cases h
  | some r =>
    obtain ⟨mn, out'⟩ := r
    rw [hR] at h
    simp only [Option.some.injEq] at h
    obtain ⟨hty', hmn⟩ := metaR_spec (inp := inp) (dv := dv) (rnd := rN) L fuel _ _ _ _ _ mn out'
      (𝓢 pre.length) (hokS pre.length (lt_of_getElem?_some hn)) hc1 hty1 hs hSI (by simp) hmd (by simpa [metaWF] using hwf) hvg' hzp' hR
    have hext := metaR_ext _ _ _ _ _ _ _ _ hR
    have hag' : ∀ k, k < st.out.length → 𝓔 out' k = 𝓔 st.out k := by
      intro k hk
      rw [hext.ev k (by simp; omega), hag1 k hk]
    have hnew : 𝓔 out' (match (generalizing := false) mn with | some p => p.2 | none => st.out.length) = 𝓢 pre.length := by
      cases mn with
      | none => simp only; rw [hext.ev _ (by simp), hs]
      | some p => exact (hmn p rfl).1
    subst h
    have hlen' := I1.closed  -- keep
    refine ⟨by simp [I.lenm], by simp [I.lenp], I1, ?_, ?_, ?_, ?_⟩
    · rw [countIn_eq_inputsOf, hin.1, List.length_append, ← countIn_eq_inputsOf, ← countIn_eq_inputsOf,
        I.cnt, countIn_append]
    · intro i k hik
      simp only [ev_addAnn]
      rcases maps_append_cases hik with hik | ⟨hi, hx⟩
      · obtain ⟨k', hk', hkb⟩ := I.inv.mb i (maps_lt hik)
        have := maps_fun hik hk'
        subst this
        rw [hag' k hkb]; exact I.vals i k hik
      · cases hx
        rw [hi, I.lenm]; exact hnew
    · intro i p hp
      simp only [ev_addAnn]
      rcases getElem?_snoc_cases hp with hp | ⟨hi, hx⟩
      · obtain ⟨h1, h2⟩ := I.den i p hp
        exact ⟨maps_append_left h1, h2.mono hag' (I.inv.pb i p hp)⟩
      · subst hx
        refine ⟨?_, (hmn p rfl).2⟩
        rw [hi, I.lenp, ← I.lenm]
        exact maps_append_new _ _
    · intro k n' hk
      simp only [ev_addAnn]
      obtain ⟨n0, h0, _, _, hty0, _⟩ := getElem?_addAnn hk
      rw [hty0]; exact hty' k n0 h0

theorem metaStep_m (fuel : Nat) (st st' : MSt) (n : Node) (h : metaStep fuel (some st) n = some st') :
    ∃ x, st'.m = st.m ++ [some x] ∧ (Special n.op → x = st.out.length) := by
  rw [metaStep_eq] at h
  split at h
  · cases h
  · rename_i mn out' hR
    simp only [Option.some.injEq] at h
    subst h
    refine ⟨_, rfl, fun hsp => ?_⟩
    obtain ⟨rfl, _⟩ := metaR_special _ _ _ _ _ _ _ _ hsp hR
    rfl

theorem metaFold_m (fuel : Nat) : ∀ (l : List Node) (st st' : MSt),
    l.foldl (metaStep fuel) (some st) = some st' → ∃ r, st'.m = st.m ++ r := by
  intro l
  induction l with
  | nil => intro st st' h; simp at h; subst h; exact ⟨[], by simp⟩
  | cons n l ih =>
    intro st st' h
    simp only [List.foldl] at h
    cases hs : metaStep fuel (some st) n with
    | none => rw [hs, metaFold_none] at h; cases h
    | some st1 =>
      rw [hs] at h
      obtain ⟨x, hx, _⟩ := metaStep_m fuel st st1 n hs
      obtain ⟨r, hr⟩ := ih st1 st' h
      exact ⟨[some x] ++ r, by rw [hr, hx]; simp⟩

theorem metaFold_vinv (L : MetaLaws ok sem tyv) (hsrc : Closed src)
    (htyS : TyOK sem inp dv rO tyv src) (hokS : ValOK ok sem inp dv rO src)
    (hwf : MetaWF src) (hvo : VecOK sem inp dv rO tyv src) (fuel : Nat) : ∀ (l pre : List Node) (st st' : MSt), src = pre ++ l →
    VInv ok sem inp dv rO rN tyv src pre st → Compat src st'.m rO rN →
    l.foldl (metaStep fuel) (some st) = some st' → VInv ok sem inp dv rO rN tyv src src st' := by
  intro l
  induction l with
  | nil => intro pre st st' hs I _ h; simp at h hs; subst h; subst hs; exact I
  | cons n l ih =>
    intro pre st st' hs I hcomp h
    simp only [List.foldl] at h
    cases hst : metaStep fuel (some st) n with
    | none => rw [hst, metaFold_none] at h; cases h
    | some st1 =>
      rw [hst] at h
      have hn : src[pre.length]? = some n := by rw [hs]; simp
      have hrand : n.op.isRandom = true → rN st.out.length = rO pre.length := by
        intro hr
        obtain ⟨x, hx, hxs⟩ := metaStep_m fuel st st1 n hst
        obtain ⟨r, hr'⟩ := metaFold_m fuel l st1 st' h
        have hx' := hxs (Or.inl hr)
        subst hx'
        apply hcomp pre.length st.out.length n _ hn hr
        unfold Maps
        rw [hr', hx, ← I.lenm]
        simp
      have I1 := metaStep_vinv L hsrc htyS hokS fuel pre l n hs st st1 I
        (hwf n (by rw [hs]; simp)) hrand (hvo pre.length n hn) hst
      exact ih (pre ++ [n]) st1 st' (by rw [hs]; simp) I1 hcomp h

/-- value preservation of the meta pass -/
theorem metaOps_value (L : MetaLaws ok sem tyv) (g g' : Graph) (m : Mapping)
    (hc : Closed g.nodes)
    (hwf : MetaWF g.nodes) (h : metaOps g = some (g', m))
    (htyS : TyOK sem inp dv rO tyv g.nodes) (hokS : ValOK ok sem inp dv rO g.nodes) (hvo : VecOK sem inp dv rO tyv g.nodes)
    (hcomp : Compat g.nodes m rO rN) :
    (∀ i k, Maps m i k →
      (eval sem inp dv rN g'.nodes).getD k dv = (eval sem inp dv rO g.nodes).getD i dv) ∧
    TyOK sem inp dv rN tyv g'.nodes ∧ ValOK ok sem inp dv rN g'.nodes := by
  unfold metaOps at h
  split at h
  · cases h
  · rename_i st hs
    simp only [Option.some.injEq, Prod.mk.injEq] at h
    obtain ⟨rfl, rfl⟩ := h
    have I0 : VInv ok sem inp dv rO rN tyv g.nodes [] ⟨[], [], []⟩ :=
      ⟨rfl, rfl, ⟨by intro k n h; simp at h, by intro i h; simp at h, by intro i p h; simp at h⟩, rfl,
       by intro i k h; simp [Maps] at h, by intro i p h; simp at h, by intro k n' h; simp at h⟩
    have I := metaFold_vinv L hc htyS hokS hwf hvo (metaFuel g) g.nodes [] ⟨[], [], []⟩ st (by simp) I0 hcomp hs
    exact ⟨I.vals, fun i n hn => (I.ty i n hn).1, fun i hi => (I.ty i _ (List.getElem?_eq_getElem hi)).2⟩

end

/- ---------------- C04(b) and annotations ---------------- -/

theorem addAnn_length (out : List Node) (k : Nat) (anns : List Nat) :
    (addAnn out k anns).length = out.length := by
  unfold addAnn; split <;> simp

theorem addAnn_get {out : List Node} {k : Nat} {n0 : Node} (j : Nat) (anns : List Nat)
    (h : out[k]? = some n0) :
    ∃ n', (addAnn out j anns)[k]? = some n' ∧ n'.op = n0.op ∧ (∀ a ∈ n0.ann, a ∈ n'.ann) ∧
      (k = j → ∀ a ∈ anns, a ∈ n'.ann) := by
  have hk : k < (addAnn out j anns).length := by rw [addAnn_length]; exact lt_of_getElem?_some h
  have hg := List.getElem?_eq_getElem hk
  obtain ⟨n0', h0, hop, _, _, _, ha, hb⟩ := getElem?_addAnn hg
  rw [h] at h0; cases h0
  exact ⟨_, hg, hop, ha, hb⟩

/-- one loop iteration: the result graph grows by the simple copy and by non-special nodes, one
    node receives the annotations, the mapping grows by one entry -/
theorem metaStep_shape (fuel : Nat) (st st' : MSt) (n : Node)
    (h : metaStep fuel (some st) n = some st') :
    ∃ newNode ext, st'.m = st.m ++ [some newNode] ∧
      st'.out = addAnn (st.out ++ [(⟨n.op, n.deps.map (look st.m), [], n.name, n.ty⟩ : Node)] ++ ext)
        newNode n.ann ∧
      (∀ x ∈ ext, ¬ Special x.op) ∧ (Special n.op → newNode = st.out.length) := by
  rw [metaStep_eq] at h
  split at h
  · cases h
  · rename_i mn out' hR
    simp only [Option.some.injEq] at h
    subst h
    obtain ⟨ext, rfl, hext⟩ := metaR_ext _ _ _ _ _ _ _ _ hR
    refine ⟨_, ext, rfl, rfl, fun x hx hsp => ?_, fun hsp => ?_⟩
    · obtain ⟨h1, h2, h3⟩ := hext x hx
      rcases hsp with h' | h' | h' <;> simp_all
    · obtain ⟨rfl, _⟩ := metaR_special _ _ _ _ _ _ _ _ hsp hR
      rfl

structure SInv (pre : List Node) (st : MSt) : Prop where
  lenm : st.m.length = pre.length
  inv : MInv st
  sp1 : ∀ i k n, Maps st.m i k → pre[i]? = some n → Special n.op →
    (∃ n', st.out[k]? = some n' ∧ n'.op = n.op) ∧
    (∀ j nj, Maps st.m j k → pre[j]? = some nj → Special nj.op → j = i) ∧ ∀ j, Maps st.m j k → i ≤ j
  sp2 : ∀ k n', st.out[k]? = some n' → Special n'.op →
    ∃ i n, Maps st.m i k ∧ pre[i]? = some n ∧ n.op = n'.op
  ann : ∀ i k n, Maps st.m i k → pre[i]? = some n →
    ∃ n', st.out[k]? = some n' ∧ ∀ a ∈ n.ann, a ∈ n'.ann

theorem metaStep_sinv (fuel : Nat) (pre : List Node) (n : Node) (st st' : MSt) (I : SInv pre st)
    (hd : ∀ d ∈ n.deps, d < pre.length) (h : metaStep fuel (some st) n = some st') :
    SInv (pre ++ [n]) st' := by
  have I1 := metaStep_inv fuel st st' n I.inv (by rw [I.lenm]; exact hd) h
  obtain ⟨newNode, ext, hm, ho, hext, hsp⟩ := metaStep_shape fuel st st' n h
  generalize hsn : (⟨n.op, n.deps.map (look st.m), [], n.name, n.ty⟩ : Node) = simpleNode at ho
  have hopS : simpleNode.op = n.op := by rw [← hsn]
  have hbnd : ∀ i k, Maps st.m i k → k < st.out.length := by
    intro i k hik
    obtain ⟨k', hk', hkb⟩ := I.inv.mb i (maps_lt hik)
    rw [maps_fun hik hk']; exact hkb
  have hnew : newNode < (st.out ++ [simpleNode] ++ ext).length := by
    obtain ⟨k', hk', hkb⟩ := I1.mb st.m.length (by rw [hm]; simp)
    have : Maps st'.m st.m.length newNode := by rw [hm]; exact maps_append_new _ _
    rw [maps_fun this hk']
    rw [ho, addAnn_length] at hkb; exact hkb
  -- nodes of the old result graph survive, with at least their annotations
  have hold : ∀ (k : Nat) (n0 : Node), st.out[k]? = some n0 → ∃ n' : Node, st'.out[k]? = some n' ∧ n'.op = n0.op ∧
      ∀ a ∈ n0.ann, a ∈ n'.ann := by
    intro k n0 hk
    have : (st.out ++ [simpleNode] ++ ext)[k]? = some n0 := by
      rw [List.append_assoc]; exact getElem?_append_some _ hk
    obtain ⟨n', h1, h2, h3, _⟩ := addAnn_get newNode n.ann this
    exact ⟨n', by rw [ho]; exact h1, h2, h3⟩
  have hsimple : ∃ n', st'.out[st.out.length]? = some n' ∧ n'.op = n.op := by
    have : (st.out ++ [simpleNode] ++ ext)[st.out.length]? = some simpleNode := by
      rw [List.append_assoc]; simp
    obtain ⟨n', h1, h2, _⟩ := addAnn_get newNode n.ann this
    exact ⟨n', by rw [ho]; exact h1, by rw [h2, hopS]⟩
  have hpre : ∀ i, i < pre.length → (pre ++ [n])[i]? = pre[i]? := fun i hi =>
    List.getElem?_append_left hi
  have hlast : (pre ++ [n])[pre.length]? = some n := by simp
  refine ⟨by rw [hm]; simp [I.lenm], I1, ?_, ?_, ?_⟩
  · intro i k ni hik hni hspi
    rw [hm] at hik
    rcases maps_append_cases hik with hik | ⟨hi, hx⟩
    · have hil : i < pre.length := by rw [← I.lenm]; exact maps_lt hik
      rw [hpre i hil] at hni
      obtain ⟨⟨n', h1, h2⟩, h3, h4⟩ := I.sp1 i k ni hik hni hspi
      obtain ⟨n'', h5, h6, _⟩ := hold k n' h1
      refine ⟨⟨n'', h5, by rw [h6, h2]⟩, ?_, ?_⟩
      · intro j nj hjk hnj hspj
        rw [hm] at hjk
        rcases maps_append_cases hjk with hjk | ⟨hj, hx⟩
        · have hjl : j < pre.length := by rw [← I.lenm]; exact maps_lt hjk
          rw [hpre j hjl] at hnj
          exact h3 j nj hjk hnj hspj
        · exfalso
          rw [hj, I.lenm, hlast] at hnj
          cases hnj
          have := hsp hspj
          cases hx
          have := hbnd i _ hik
          omega
      · intro j hjk
        rw [hm] at hjk
        rcases maps_append_cases hjk with hjk | ⟨hj, _⟩
        · exact h4 j hjk
        · rw [hj, I.lenm]; omega
    · rw [hi, I.lenm, hlast] at hni
      cases hni
      cases hx
      have hnn := hsp hspi
      subst hnn
      refine ⟨hsimple, ?_, ?_⟩
      · intro j nj hjk hnj hspj
        rw [hm] at hjk
        rcases maps_append_cases hjk with hjk | ⟨hj, _⟩
        · have := hbnd j _ hjk; omega
        · rw [hj, hi]
      · intro j hjk
        rw [hm] at hjk
        rcases maps_append_cases hjk with hjk | ⟨hj, _⟩
        · have := hbnd j _ hjk; omega
        · rw [hj, hi]; exact Nat.le_refl _
  · intro k n' hk hspk
    rw [ho] at hk
    obtain ⟨n0, h0, hop, _⟩ := getElem?_addAnn hk
    rw [hop] at hspk
    rcases Nat.lt_or_ge k st.out.length with hlt | hge
    · rw [List.append_assoc, List.getElem?_append_left hlt] at h0
      obtain ⟨i, ni, h1, h2, h3⟩ := I.sp2 k n0 h0 hspk
      have hil : i < pre.length := by rw [← I.lenm]; exact maps_lt h1
      exact ⟨i, ni, by rw [hm]; exact maps_append_left h1, by rw [hpre i hil]; exact h2,
        by rw [h3, hop]⟩
    · rcases getElem?_snoc_cases (l := st.out) (x := simpleNode) (k := k) (y := n0) (by
          rcases Nat.lt_or_ge k (st.out ++ [simpleNode]).length with h' | h'
          · rw [List.getElem?_append_left h'] at h0; exact h0
          · exfalso
            rw [List.getElem?_append_right h'] at h0
            exact hext n0 (List.mem_of_getElem? h0) hspk) with h' | ⟨hk', hx⟩
      · have := lt_of_getElem?_some h'; omega
      · subst hx
        rw [hopS] at hspk
        refine ⟨pre.length, n, ?_, hlast, by rw [hop, hopS]⟩
        rw [hm, hk', ← hsp hspk, ← I.lenm]
        exact maps_append_new _ _
  · intro i k ni hik hni
    rw [hm] at hik
    rcases maps_append_cases hik with hik | ⟨hi, hx⟩
    · have hil : i < pre.length := by rw [← I.lenm]; exact maps_lt hik
      rw [hpre i hil] at hni
      obtain ⟨n', h1, h2⟩ := I.ann i k ni hik hni
      obtain ⟨n'', h5, _, h6⟩ := hold k n' h1
      exact ⟨n'', h5, fun a ha => h6 a (h2 a ha)⟩
    · rw [hi, I.lenm, hlast] at hni
      cases hni
      cases hx
      have hg := List.getElem?_eq_getElem hnew
      obtain ⟨n', h1, _, _, h2⟩ := addAnn_get newNode n.ann hg
      exact ⟨n', by rw [ho]; exact h1, h2 rfl⟩

theorem metaFold_sinv (fuel : Nat) : ∀ (l pre : List Node) (st st' : MSt), Closed (pre ++ l) →
    SInv pre st → l.foldl (metaStep fuel) (some st) = some st' → SInv (pre ++ l) st' := by
  intro l
  induction l with
  | nil => intro pre st st' _ I h; simp at h; subst h; simpa using I
  | cons n l ih =>
    intro pre st st' hc I h
    simp only [List.foldl] at h
    cases hs : metaStep fuel (some st) n with
    | none => rw [hs, metaFold_none] at h; cases h
    | some st1 =>
      rw [hs] at h
      have I1 := metaStep_sinv fuel pre n st st1 I (closed_deps_lt hc) hs
      have := ih (pre ++ [n]) st1 st' (by simpa using hc) I1 h
      simpa using this

/-- C04(b) and annotations for the meta pass -/
theorem metaOps_special (g g' : Graph) (m : Mapping) (hc : Closed g.nodes)
    (h : metaOps g = some (g', m)) :
    SpecialInj g.nodes g'.nodes m ∧
    ∀ i k n, Maps m i k → g.nodes[i]? = some n →
      ∃ n', g'.nodes[k]? = some n' ∧ ∀ a ∈ n.ann, a ∈ n'.ann := by
  unfold metaOps at h
  split at h
  · cases h
  · rename_i st hs
    simp only [Option.some.injEq, Prod.mk.injEq] at h
    obtain ⟨rfl, rfl⟩ := h
    have I0 : SInv [] ⟨[], [], []⟩ :=
      ⟨rfl, ⟨by intro k n h; simp at h, by intro i h; simp at h, by intro i p h; simp at h⟩,
       by intro i k n h; simp [Maps] at h, by intro k n' h; simp at h, by intro i k n h; simp [Maps] at h⟩
    have I := metaFold_sinv (metaFuel g) g.nodes [] ⟨[], [], []⟩ st (by simpa using hc) I0 hs
    simp only [List.nil_append] at I
    exact ⟨⟨I.sp1, I.sp2⟩, I.ann⟩

/-- because a randomising node is the first node mapped to its image, the transported oracle is
    compatible -/
theorem compat_transport_inj {src out : List Node} {m : Mapping} (S : SpecialInj src out m)
    (rO : Nat → List V → V) : Compat src m rO (transport m rO) := by
  intro i k n h hn hr
  obtain ⟨j, h1, h2⟩ := originAux_spec k m 0 i h
  have hle := (S.1 i k n h hn (Or.inl hr)).2.2 j h2
  -- `origin` is the first index mapped to k
  have hfirst : ∀ (m : Mapping) (p i : Nat), Maps m i k → originAux k m p ≤ p + i := by
    intro m
    induction m with
    | nil => intro p i h; simp [Maps] at h
    | cons x r ih =>
      intro p i h
      simp only [originAux]
      split
      · omega
      · rename_i hx
        cases i with
        | zero => simp [Maps] at h; exact absurd h hx
        | succ i =>
          have := ih (p + 1) i (by simpa [Maps] using h)
          omega
  have := hfirst m 0 i h
  unfold transport origin
  rw [h1] at this ⊢
  have : j = i := by omega
  rw [this]; simp

/- ---------------- the constants pass keeps recorded types and arities ---------------- -/

/-- every node of the constants-pass result was created for a source node with the same recorded
    type -/
structure TInv (pre : List Node) (st : CSt) : Prop where
  len : st.m.length = pre.length
  cr : ∀ (k : Nat) (n' : Node), st.out[k]? = some n' →
    ∃ (i : Nat) (n : Node), Maps st.m i k ∧ pre[i]? = some n ∧ n'.ty = n.ty

theorem TInv.keep {pre : List Node} {st st' : CSt} (I : TInv pre st) (n : Node) (x : Option Nat)
    (ho : st'.out = st.out) (hm : st'.m = st.m ++ [x]) : TInv (pre ++ [n]) st' := by
  refine ⟨by rw [hm]; simp [I.len], fun k n' hk => ?_⟩
  rw [ho] at hk
  obtain ⟨i, ni, h1, h2, h3⟩ := I.cr k n' hk
  exact ⟨i, ni, by rw [hm]; exact maps_append_left h1, getElem?_append_some _ h2, h3⟩

theorem TInv.push {pre : List Node} {st st' : CSt} (I : TInv pre st) (n nd : Node)
    (ho : st'.out = st.out ++ [nd]) (hty : nd.ty = n.ty) (hm : st'.m = st.m ++ [some st.out.length]) :
    TInv (pre ++ [n]) st' := by
  refine ⟨by rw [hm]; simp [I.len], fun k n' hk => ?_⟩
  rw [ho] at hk
  rcases getElem?_snoc_cases hk with hk | ⟨rfl, rfl⟩
  · obtain ⟨i, ni, h1, h2, h3⟩ := I.cr k n' hk
    exact ⟨i, ni, by rw [hm]; exact maps_append_left h1, getElem?_append_some _ h2, h3⟩
  · exact ⟨pre.length, n, by rw [hm, ← I.len]; exact maps_append_new _ _, by simp, hty⟩

theorem resolveConst_tinv (pre : List Node) (st : CSt) (n : Node) (c : Op) (vid : Nat)
    (I : TInv pre st) : TInv (pre ++ [n]) (resolveConst st c n.name n.ty vid) := by
  unfold resolveConst
  split
  · exact I.keep n _ rfl rfl
  · exact I.push n _ rfl rfl rfl

theorem constStep_tinv (oracle : Nat → Nat × Option Nat) (pre : List Node) (st : CSt) (n : Node)
    (I : TInv pre st) : TInv (pre ++ [n]) (constStep oracle st n) := by
  unfold constStep
  split
  · exact resolveConst_tinv pre st n _ _ I
  · split
    · exact resolveConst_tinv pre st n _ _ I
    · exact I.push n _ rfl rfl rfl

theorem constants_tinv (oracle : Nat → Nat × Option Nat) (g : Graph) (hc : Closed g.nodes) :
    TInv g.nodes (g.nodes.foldl (constStep oracle) ⟨[], [], [], []⟩) := by
  have := fold_inv (constStep oracle) TInv (fun pre st n I _ => constStep_tinv oracle pre st n I)
    g.nodes [] ⟨[], [], [], []⟩ (by simpa using hc) ⟨rfl, by intro k n' h; simp at h⟩
  simpa using this

theorem arityOK_constant {op : Op} (h : op.isConstant = true) : arityOK op 0 = true := by
  cases op <;> simp_all [Op.isConstant, arityOK]

/-- the constants pass preserves what the meta pass needs: recorded types describe the values,
    arities are respected -/
theorem constants_keeps (oracle : Nat → Nat × Option Nat) (g : Graph) (hc : Closed g.nodes)
    (hcw : ConstWF g.nodes) (hwf : MetaWF g.nodes)
    (sem : Op → List V → V) (inp : Nat → V) (dv : V) (r0 r1 : Nat → List V → V) (tyv : V → Ty)
    (hty : TyOK sem inp dv r0 tyv g.nodes)
    (hval : ∀ i k, Maps (constants oracle g).2 i k →
      (eval sem inp dv r1 (constants oracle g).1.nodes).getD k dv =
        (eval sem inp dv r0 g.nodes).getD i dv) :
    TyOK sem inp dv r1 tyv (constants oracle g).1.nodes ∧ MetaWF (constants oracle g).1.nodes ∧
    (VecOK sem inp dv r0 tyv g.nodes → VecOK sem inp dv r1 tyv (constants oracle g).1.nodes) := by
  have T := constants_tinv oracle g hc
  have C := constants_inv oracle g hc hcw
  refine ⟨?_, ?_, ?_⟩
  · intro k n' hk
    obtain ⟨i, n, h1, h2, h3⟩ := T.cr k n' hk
    rw [hval i k h1, h3]
    exact hty i n h2
  · intro n' hn'
    obtain ⟨k, hk⟩ := List.mem_iff_getElem?.mp hn'
    obtain ⟨i, hi⟩ := C.tr.surj k (lt_of_getElem?_some hk)
    have hil := (C.tr.ref.bound i k hi).1
    have hn : g.nodes[i]? = some g.nodes[i] := List.getElem?_eq_getElem hil
    obtain ⟨n'', h1, h2⟩ := C.tr.ref.img i k g.nodes[i] hi hn
    have : (g.nodes.foldl (constStep oracle) ⟨[], [], [], []⟩).out[k]? = some n' := hk
    rw [this] at h1; cases h1
    unfold metaWF
    rcases h2 with ⟨hop, hdeps, _⟩ | ⟨hconst, _, hd0, _⟩
    · rw [hop, hdeps, List.length_map]
      exact hwf g.nodes[i] (List.mem_of_getElem? hn)
    · rw [hd0]; exact arityOK_constant hconst
  · intro hvo k n' hk
    obtain ⟨i, hi⟩ := C.tr.surj k (lt_of_getElem?_some hk)
    have hil := (C.tr.ref.bound i k hi).1
    have hn : g.nodes[i]? = some g.nodes[i] := List.getElem?_eq_getElem hil
    obtain ⟨n'', h1, h2⟩ := C.tr.ref.img i k g.nodes[i] hi hn
    have : (g.nodes.foldl (constStep oracle) ⟨[], [], [], []⟩).out[k]? = some n' := hk
    rw [this] at h1; cases h1
    rcases h2 with ⟨hop, hdeps, hmp⟩ | ⟨hconst, _, hd0, _⟩
    · have hdv : ∀ d ∈ g.nodes[i].deps,
          (eval sem inp dv r1 (constants oracle g).1.nodes).getD (look (constants oracle g).2 d) dv =
            (eval sem inp dv r0 g.nodes).getD d dv := by
        intro d hd
        obtain ⟨kd, hkd⟩ := hmp d hd
        have : look (constants oracle g).2 d = kd := look_of_maps hkd
        rw [this]; exact hval d kd hkd
      refine ⟨fun hop' d hdh => ?_, fun hop' d hdm => ?_⟩
      · rw [hdeps, List.head?_map] at hdh
        cases hh : g.nodes[i].deps.head? with
        | none => rw [hh] at hdh; cases hdh
        | some d0 =>
          rw [hh] at hdh
          simp only [Option.map_some, Option.some.injEq] at hdh
          obtain ⟨t, ht⟩ := (hvo i g.nodes[i] hn).1 (by rw [← hop]; exact hop') d0 hh
          exact ⟨t, by rw [← hdh]; exact (congrArg tyv (hdv d0 (List.mem_of_mem_head? hh))).trans ht⟩
      · rw [hdeps, List.mem_map] at hdm
        obtain ⟨d0, hd0, rfl⟩ := hdm
        obtain ⟨t, ht⟩ := (hvo i g.nodes[i] hn).2 (by rw [← hop]; exact hop') d0 hd0
        exact ⟨t, (congrArg tyv (hdv d0 hd0)).trans ht⟩
    · refine ⟨fun hop' => ?_, fun hop' => ?_⟩ <;> (rw [hop'] at hconst; cases hconst)

/-- the constants pass preserves "every node evaluates successfully": every node of its result is
    the image of a source node with the same value -/
theorem constants_valok (oracle : Nat → Nat × Option Nat) (g : Graph) (hc : Closed g.nodes)
    (hcw : ConstWF g.nodes) (ok : V → Prop)
    (sem : Op → List V → V) (inp : Nat → V) (dv : V) (r0 r1 : Nat → List V → V)
    (hok : ValOK ok sem inp dv r0 g.nodes)
    (hval : ∀ i k, Maps (constants oracle g).2 i k →
      (eval sem inp dv r1 (constants oracle g).1.nodes).getD k dv =
        (eval sem inp dv r0 g.nodes).getD i dv) :
    ValOK ok sem inp dv r1 (constants oracle g).1.nodes := by
  have C := constants_inv oracle g hc hcw
  intro k hk
  obtain ⟨i, hi⟩ := C.tr.surj k hk
  rw [hval i k hi]
  exact hok i (C.tr.ref.bound i k hi).1

end CCV.Optimizer
