import CCV.Lemmas.Sort
/-
  Lemmas for C18, part 2: the validity tests of `InversePermutation` / `ApplyPermutation`,
  inversion and application of permutations.
-/
namespace CCV.Sort

/-! ### `sort_unstable(); dedup()` -/

theorem sortNat_perm (p : List Nat) : (sortNat p).Perm p := isort_perm _ _

theorem sortNat_sorted (p : List Nat) : (sortNat p).Pairwise (· ≤ ·) := by
  induction p with
  | nil => simp [sortNat, isort]
  | cons x xs ih =>
    show (insertBy _ x (isort _ xs)).Pairwise _
    apply pairwise_insertBy
    · intro a b c h1 h2; omega
    · exact ih
    · intro y _ h; simp only [decide_eq_true_eq] at h; omega
    · intro y _ h; simp only [decide_eq_false_iff_not] at h; omega

theorem dedupAdj_length_le (s : List Nat) : (dedupAdj s).length ≤ s.length := by
  induction s with
  | nil => simp [dedupAdj]
  | cons x t ih =>
    cases t with
    | nil => simp [dedupAdj]
    | cons y r =>
      simp only [dedupAdj]
      split
      · simp only [List.length_cons] at ih ⊢; omega
      · simp only [List.length_cons] at ih ⊢; omega

theorem dedupAdj_length_eq_iff (s : List Nat) (h : s.Pairwise (· ≤ ·)) :
    (dedupAdj s).length = s.length ↔ s.Nodup := by
  induction s with
  | nil => simp [dedupAdj]
  | cons x t ih =>
    cases t with
    | nil => simp [dedupAdj]
    | cons y r =>
      have hx := List.pairwise_cons.mp h
      have hy := List.pairwise_cons.mp hx.2
      have ih := ih hx.2
      have hle := dedupAdj_length_le (y :: r)
      simp only [dedupAdj]
      split
      · rename_i e
        subst e
        simp only [List.length_cons] at hle ⊢
        constructor
        · intro h'; omega
        · intro h'; simp at h'
      · rename_i ne
        simp only [List.length_cons, Nat.add_right_cancel_iff] at ih ⊢
        rw [List.nodup_cons, ← ih]
        constructor
        · intro h'
          refine ⟨?_, by simpa using h'⟩
          intro hm
          rcases List.mem_cons.mp hm with e | hm
          · exact ne e
          · have h1 := hx.1 y List.mem_cons_self
            have h2 := hy.1 x hm
            omega
        · intro h'; simpa using h'.2

theorem noDupTest_iff (p : List Nat) : noDupTest p = true ↔ p.Nodup := by
  unfold noDupTest
  rw [beq_iff_eq, ← (sortNat_perm p).length_eq, dedupAdj_length_eq_iff _ (sortNat_sorted p)]
  exact (sortNat_perm p).nodup_iff

theorem isPerm_iff (p : List Nat) : isPerm p = true ↔ p.Perm (List.range p.length) := by
  unfold isPerm
  rw [Bool.and_eq_true, noDupTest_iff, List.all_eq_true]
  constructor
  · rintro ⟨h1, h2⟩
    exact perm_range_of_nodup _ p h1 (fun x hx => by simpa using h2 x hx) rfl
  · intro h
    exact ⟨perm_range_nodup h, fun x hx => by simpa using perm_range_lt h x hx⟩

/-! ### `InversePermutation` -/

theorem inversePerm_spec {n : Nat} {p : List Nat} (hp : p.Perm (List.range n)) :
    ∃ q, inversePerm p = some q ∧ q.Perm (List.range n) ∧ InvRel p q ∧ InvRel q p := by
  have hlen := perm_range_length hp
  obtain ⟨q, hq⟩ := executeInverse_exists p (fun v hv => by rw [hlen]; exact perm_range_lt hp v hv)
  obtain ⟨h1, _, h3⟩ := executeInverse_spec p q hq
  have hrel := h3 (perm_range_nodup hp)
  obtain ⟨h4, h5⟩ := invRel_perm hp (by omega) hrel
  refine ⟨q, ?_, h4, hrel, h5⟩
  unfold inversePerm
  rw [(noDupTest_iff p).mpr (perm_range_nodup hp)]
  simpa using hq

theorem inversePerm_some {p q : List Nat} (h : inversePerm p = some q) :
    p.Perm (List.range p.length) := by
  unfold inversePerm at h
  split at h
  · rename_i hd
    obtain ⟨_, h2, _⟩ := executeInverse_spec p q h
    exact perm_range_of_nodup _ p ((noDupTest_iff p).mp hd) h2 rfl
  · cases h

theorem invRel_unique {n : Nat} {q p r : List Nat} (hq : q.Perm (List.range n))
    (hp : p.length = n) (hr : r.length = n) (h1 : InvRel q p) (h2 : InvRel q r) : p = r := by
  apply List.ext_getElem?
  intro v
  by_cases hv : v < n
  · obtain ⟨k, _, hk⟩ := perm_range_surj hq v hv
    rw [h1 k v hk, h2 k v hk]
  · rw [List.getElem?_eq_none (by omega), List.getElem?_eq_none (by omega)]

/-! ### `ApplyPermutation` -/

theorem distinctCount_le (l : List Nat) : distinctCount l ≤ l.length := by
  induction l with
  | nil => simp [distinctCount]
  | cons x xs ih =>
    simp only [distinctCount]
    split <;> simp only [List.length_cons] <;> omega

theorem distinctCount_eq_iff (l : List Nat) : distinctCount l = l.length ↔ l.Nodup := by
  induction l with
  | nil => simp [distinctCount]
  | cons x xs ih =>
    have hle := distinctCount_le xs
    simp only [distinctCount, List.nodup_cons, List.length_cons]
    split
    · rename_i hm
      constructor
      · intro h; omega
      · intro h; exact absurd hm h.1
    · rename_i hm
      rw [Nat.add_right_cancel_iff, ih]
      exact ⟨fun h => ⟨hm, h⟩, fun h => h.2⟩

theorem isPermApply_iff (n : Nat) (p : List Nat) (hl : p.length = n) :
    isPermApply n p = true ↔ p.Perm (List.range n) := by
  unfold isPermApply
  rw [beq_iff_eq]
  constructor
  · intro h
    have h1 := distinctCount_le (p.filter (· < n))
    have h2 : (p.filter (· < n)).length ≤ p.length := List.length_filter_le _ _
    have h3 : (p.filter (fun x => decide (x < n))).length = p.length := by omega
    have h4 := List.length_filter_eq_length_iff.mp h3
    have h5 : p.filter (fun x => decide (x < n)) = p := List.filter_eq_self.mpr h4
    rw [h5] at h
    exact perm_range_of_nodup n p ((distinctCount_eq_iff p).mp (by omega))
      (fun x hx => by simpa using h4 x hx) hl
  · intro h
    have h5 : p.filter (fun x => decide (x < n)) = p :=
      List.filter_eq_self.mpr (fun x hx => by simpa using perm_range_lt h x hx)
    rw [h5, (distinctCount_eq_iff p).mpr (perm_range_nodup h), hl]

theorem applyPerm_spec {α : Type} {p : List Nat} {a : List α} (hp : p.Perm (List.range a.length)) :
    ∃ b, applyPerm p a = some b ∧ b.length = a.length ∧
      ∀ k v : Nat, p[k]? = some v → b[k]? = a[v]? := by
  obtain ⟨b, hb⟩ := gather_exists a p (fun i hi => perm_range_lt hp i hi)
  refine ⟨b, ?_, ?_, ?_⟩
  · unfold applyPerm applyPermOp
    rw [(isPermApply_iff _ p (perm_range_length hp)).mpr hp]
    simpa using hb
  · rw [gather_length hb, perm_range_length hp]
  · intro k v hk
    exact (gather_get hb k v hk).1

theorem applyInversePerm_spec {α : Type} {p : List Nat} {a : List α}
    (hp : p.Perm (List.range a.length)) :
    ∃ b, applyInversePerm p a = some b ∧ b.length = a.length ∧
      ∀ k v : Nat, p[k]? = some v → b[v]? = a[k]? := by
  obtain ⟨q, hq, hqp, h1, h2⟩ := inversePerm_spec hp
  have hq' : executeInverse p = some q := by
    unfold inversePerm at hq
    rw [(noDupTest_iff p).mpr (perm_range_nodup hp)] at hq
    simpa using hq
  obtain ⟨b, hb⟩ := gather_exists a q (fun i hi => perm_range_lt hqp i hi)
  refine ⟨b, ?_, ?_, ?_⟩
  · unfold applyInversePerm applyPermOp
    rw [(isPermApply_iff _ p (perm_range_length hp)).mpr hp]
    simp [hq', hb]
  · rw [gather_length hb, perm_range_length hqp]
  · intro k v hk
    exact (gather_get hb v k (h1 k v hk)).1

theorem applyPermOp_some {α : Type} {inv : Bool} {p : List Nat} {a b : List α}
    (hl : p.length = a.length) (h : applyPermOp inv a p = some b) : p.Perm (List.range a.length) := by
  unfold applyPermOp at h
  split at h
  · rename_i hv
    exact (isPermApply_iff _ p hl).mp hv
  · cases h

end CCV.Sort
