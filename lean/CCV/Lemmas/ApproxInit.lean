/-
  Bit-derived initial approximations of ops/utils.rs (`inverse_initial_approximation`,
  `inverse_sqrt_initial_approximation`): the guesses bracket the target at full generality
  (every cap `c`, every divisor of the domain).
-/
import CCV.Model.Approx

namespace CCV.Approx

/-! ### `next_power_of_two` reaches the argument -/

theorem nextPow2Aux_ge (n : Nat) :
    ∀ (fuel p : Nat), n ≤ p * 2 ^ fuel → n ≤ nextPow2Aux n fuel p
  | 0, p, h => by simpa [nextPow2Aux] using h
  | fuel + 1, p, h => by
    unfold nextPow2Aux
    split
    · assumption
    · apply nextPow2Aux_ge n fuel (2 * p)
      have e : 2 * p * 2 ^ fuel = p * 2 ^ (fuel + 1) := by
        rw [Nat.pow_succ, Nat.mul_comm 2 p, Nat.mul_assoc, Nat.mul_comm 2]
      omega

theorem nextPow2_ge {n : Nat} (h : n ≤ 2 ^ 128) : n ≤ nextPow2 n := by
  unfold nextPow2
  exact nextPow2Aux_ge n 128 1 (by omega)

theorem nextPow2_ge_of_le_128 {n : Nat} (h : n ≤ 128) : n ≤ nextPow2 n :=
  nextPow2_ge (Nat.le_trans h (by decide))

example : nextPow2 10 = 16 := by decide
example : nextPow2 64 = 64 := by decide

/-! ### cumulative OR and the highest-one-bit indicator -/

theorem cumOr_eq {u c pow2 j : Nat} (hu : u < 2 ^ c) (hc : c ≤ j + pow2) :
    cumOr u pow2 j = decide (2 ^ j ≤ u) := by
  unfold cumOr
  have h1 : u < 2 ^ j * 2 ^ pow2 := by
    rw [← Nat.pow_add]
    exact Nat.lt_of_lt_of_le hu (Nat.pow_le_pow_right (by omega) hc)
  have h2 : u / 2 ^ j < 2 ^ pow2 := Nat.div_lt_of_lt_mul h1
  rw [Nat.mod_eq_of_lt h2]
  have hpos : 0 < 2 ^ j := Nat.two_pow_pos j
  rw [decide_eq_decide, Ne, Nat.div_eq_zero_iff]
  omega

theorem hob_eq {u c pow2 j : Nat} (hu : u < 2 ^ c) (hc : c ≤ j + pow2) :
    hob u pow2 j = decide (2 ^ j ≤ u ∧ u < 2 ^ (j + 1)) := by
  unfold hob
  rw [cumOr_eq hu hc, cumOr_eq hu (by omega : c ≤ j + 1 + pow2)]
  have hlt : 2 ^ j < 2 ^ (j + 1) := Nat.pow_lt_pow_right (by omega) (by omega)
  by_cases h1 : 2 ^ j ≤ u <;> by_cases h2 : 2 ^ (j + 1) ≤ u <;> simp [h1, h2] <;> omega

example : hob 5 4 2 = true ∧ hob 5 4 1 = false ∧ hob 5 4 0 = false := by decide

/-! ### Newton / Goldschmidt guess -/

theorem initSum_inv {u c pow2 : Nat} (hu : u < 2 ^ c) (hc : c ≤ pow2) :
    ∀ n, n ≤ c →
      (u < 2 ^ (c - n) → initSum (hob u pow2) c n = 0) ∧
      (2 ^ (c - n) ≤ u →
        2 ^ (c - 1) ≤ initSum (hob u pow2) c n * u ∧ initSum (hob u pow2) c n * u < 2 ^ c) := by
  intro n
  induction n with
  | zero =>
    intro _
    refine ⟨fun _ => rfl, fun h => ?_⟩
    simp at h; omega
  | succ n ih =>
    intro hn
    obtain ⟨ih0, ih1⟩ := ih (by omega)
    have hj1 : c - n = (c - 1 - n) + 1 := by omega
    have hj0 : c - (n + 1) = c - 1 - n := by omega
    rw [hj0]; rw [hj1] at ih0 ih1
    have hh := hob_eq (pow2 := pow2) (j := c - 1 - n) hu (by omega)
    have hp1 : 2 ^ (c - 1) = 2 ^ n * 2 ^ (c - 1 - n) := by
      rw [← Nat.pow_add]; congr 1; omega
    have hp2 : 2 ^ c = 2 ^ n * 2 ^ (c - 1 - n + 1) := by
      rw [← Nat.pow_add]; congr 1; omega
    have hlt : 2 ^ (c - 1 - n) < 2 ^ (c - 1 - n + 1) :=
      Nat.pow_lt_pow_right (by omega) (by omega)
    have hpn : 0 < 2 ^ n := Nat.two_pow_pos n
    simp only [initSum, hh, decide_eq_true_eq]
    generalize c - 1 - n = j at *
    by_cases a : 2 ^ j ≤ u ∧ u < 2 ^ (j + 1)
    · rw [if_pos a, ih0 a.2]
      refine ⟨fun h => by omega, fun _ => ?_⟩
      rw [hp1, hp2, Nat.zero_add]
      exact ⟨Nat.mul_le_mul_left _ a.1, Nat.mul_lt_mul_of_pos_left a.2 hpn⟩
    · rw [if_neg a, Nat.add_zero]
      refine ⟨fun h => ih0 (by omega), fun h => ih1 (by omega)⟩

theorem initSum_bracket {u c pow2 : Nat} (h0 : 0 < u) (hu : u < 2 ^ c) (hc : c ≤ pow2) :
    2 ^ (c - 1) ≤ initSum (hob u pow2) c c * u ∧ initSum (hob u pow2) c c * u < 2 ^ c := by
  have := (initSum_inv hu hc c (Nat.le_refl c)).2
  simp only [Nat.sub_self, Nat.pow_zero] at this
  exact this h0

theorem initSum_zero (c pow2 : Nat) : ∀ n, initSum (hob 0 pow2) c n = 0
  | 0 => rfl
  | n + 1 => by
    have : hob 0 pow2 (c - 1 - n) = false := by simp [hob, cumOr]
    simp [initSum, initSum_zero c pow2 n, this]

example : initSum (hob 3 16) 10 10 = 256 := by decide

/-! ### the model functions on denoted values -/

theorem residue_natCast {s u : Nat} (h : u < 2 ^ s) : residue s (u : Int) = u := by
  unfold residue
  have h' : (u : Int) < 2 ^ s := by exact_mod_cast h
  rw [Int.emod_eq_of_lt (Int.natCast_nonneg u) h']
  exact Int.toNat_natCast u

/-- `inverse_initial_approximation`: for every divisor `0 < d < 2^c` the guess `g` satisfies
    `2^(c-1) ≤ g·d < 2^c`, i.e. `g/2^c ∈ (1/(2d), 1/d]`. -/
theorem initInv_bracket {s c : Nat} {d : Int} (hcs : c ≤ s) (hs : s ≤ 128)
    (h0 : 0 < d) (hd : d < 2 ^ c) :
    2 ^ (c - 1) ≤ initInv s c d * d ∧ initInv s c d * d < 2 ^ c := by
  obtain ⟨u, rfl⟩ := Int.eq_ofNat_of_zero_le (Int.le_of_lt h0)
  have hu : u < 2 ^ c := by exact_mod_cast hd
  have hus : u < 2 ^ s := Nat.lt_of_lt_of_le hu (Nat.pow_le_pow_right (by omega) hcs)
  have hb := initSum_bracket (pow2 := nextPow2 c) (by exact_mod_cast h0) hu
    (nextPow2_ge_of_le_128 (by omega))
  unfold initInv
  simp only [residue_natCast hus]
  exact_mod_cast hb

theorem initInv_pos {s c : Nat} {d : Int} (hcs : c ≤ s) (hs : s ≤ 128)
    (h0 : 0 < d) (hd : d < 2 ^ c) : 0 < initInv s c d := by
  have hb := (initInv_bracket hcs hs h0 hd).1
  have hp : (0 : Int) < 2 ^ (c - 1) := Int.pow_pos (by omega)
  have hg : 0 ≤ initInv s c d := by unfold initInv; exact Int.natCast_nonneg _
  rcases Int.lt_or_eq_of_le hg with h | h
  · exact h
  · rw [← h, Int.zero_mul] at hb; omega

theorem initInv_zero (s c : Nat) : initInv s c 0 = 0 := by
  have : residue s 0 = 0 := by simp [residue]
  simp [initInv, this, initSum_zero]

example : initInv 64 10 3 = 256 := by decide
example : initInv 64 10 1023 = 1 := by decide
example : (2 : Int) ^ (10 - 1) ≤ initInv 64 10 3 * 3 ∧ initInv 64 10 3 * 3 < 2 ^ 10 :=
  initInv_bracket (by decide) (by decide) (by decide) (by decide)

/-! ### inverse square root guess -/

theorem xor_decide_aux {a b c u : Nat} (h1 : a < b) (h2 : b < c) :
    (decide (b ≤ u ∧ u < c) != decide (a ≤ u ∧ u < b)) = decide (a ≤ u ∧ u < c) := by
  rw [Bool.eq_iff_iff, bne_iff_ne, Ne, decide_eq_decide, decide_eq_true_eq]
  omega

/-- `hob[2k+1] + hob[2k]` is the indicator of `4^k ≤ u < 4^(k+1)`. -/
theorem hob_pair_eq {u c pow2 k : Nat} (hu : u < 2 ^ c) (hc : c ≤ 2 * k + pow2) :
    (hob u pow2 (2 * k + 1) != hob u pow2 (2 * k)) =
      decide (2 ^ (2 * k) ≤ u ∧ u < 2 ^ (2 * k + 2)) := by
  rw [hob_eq hu (by omega : c ≤ 2 * k + 1 + pow2), hob_eq hu hc]
  exact xor_decide_aux (Nat.pow_lt_pow_right (by omega) (by omega))
    (Nat.pow_lt_pow_right (by omega) (by omega))

theorem initSqrtSum_inv {u c pow2 : Nat} (hu : u < 2 ^ (2 * c)) (hc : 2 * c ≤ pow2) :
    ∀ n, n ≤ c →
      (u < 2 ^ (2 * (c - n)) → initSqrtSum (hob u pow2) c n = 0) ∧
      (2 ^ (2 * (c - n)) ≤ u →
        2 ^ (2 * (c - 1)) ≤ initSqrtSum (hob u pow2) c n * initSqrtSum (hob u pow2) c n * u ∧
        initSqrtSum (hob u pow2) c n * initSqrtSum (hob u pow2) c n * u < 2 ^ (2 * c)) := by
  intro n
  induction n with
  | zero =>
    intro _
    refine ⟨fun _ => rfl, fun h => ?_⟩
    simp at h; omega
  | succ n ih =>
    intro hn
    obtain ⟨ih0, ih1⟩ := ih (by omega)
    have hj1 : 2 * (c - n) = 2 * (c - 1 - n) + 2 := by omega
    have hj0 : 2 * (c - (n + 1)) = 2 * (c - 1 - n) := by omega
    have hi1 : 2 * c - 2 * n - 1 = 2 * (c - 1 - n) + 1 := by omega
    have hi0 : 2 * c - 2 * n - 2 = 2 * (c - 1 - n) := by omega
    rw [hj0]; rw [hj1] at ih0 ih1
    have hh := hob_pair_eq (pow2 := pow2) (k := c - 1 - n) hu (by omega)
    have hp1 : 2 ^ (2 * (c - 1)) = 2 ^ n * 2 ^ n * 2 ^ (2 * (c - 1 - n)) := by
      rw [← Nat.pow_add, ← Nat.pow_add]; congr 1; omega
    have hp2 : 2 ^ (2 * c) = 2 ^ n * 2 ^ n * 2 ^ (2 * (c - 1 - n) + 2) := by
      rw [← Nat.pow_add, ← Nat.pow_add]; congr 1; omega
    have hlt : 2 ^ (2 * (c - 1 - n)) < 2 ^ (2 * (c - 1 - n) + 2) :=
      Nat.pow_lt_pow_right (by omega) (by omega)
    have hpn : 0 < 2 ^ n * 2 ^ n := Nat.mul_pos (Nat.two_pow_pos n) (Nat.two_pow_pos n)
    simp only [initSqrtSum, hi1, hi0, hh, decide_eq_true_eq]
    generalize c - 1 - n = k at *
    by_cases a : 2 ^ (2 * k) ≤ u ∧ u < 2 ^ (2 * k + 2)
    · rw [if_pos a, ih0 a.2]
      refine ⟨fun h => by omega, fun _ => ?_⟩
      rw [hp1, hp2, Nat.zero_add]
      exact ⟨Nat.mul_le_mul_left _ a.1, Nat.mul_lt_mul_of_pos_left a.2 hpn⟩
    · rw [if_neg a, Nat.add_zero]
      refine ⟨fun h => ih0 (by omega), fun h => ih1 (by omega)⟩

/-- if `4^k ≤ u < 4^(k+1)` (`k < c`) the guess is `g = 2^(c-1-k)`; hence `4^(c-1) ≤ g²·u < 4^c`. -/
theorem initSqrtSum_bracket {u c pow2 : Nat} (h0 : 0 < u) (hu : u < 4 ^ c) (hc : 2 * c ≤ pow2) :
    4 ^ (c - 1) ≤ initSqrtSum (hob u pow2) c c * initSqrtSum (hob u pow2) c c * u ∧
      initSqrtSum (hob u pow2) c c * initSqrtSum (hob u pow2) c c * u < 4 ^ c := by
  have e : ∀ m : Nat, 4 ^ m = 2 ^ (2 * m) := fun m => by
    rw [Nat.pow_mul]
  rw [e] at hu
  rw [e, e]
  have := (initSqrtSum_inv hu hc c (Nat.le_refl c)).2
  simp only [Nat.sub_self, Nat.mul_zero, Nat.pow_zero] at this
  exact this h0

theorem initSqrtSum_zero (c pow2 : Nat) : ∀ n, initSqrtSum (hob 0 pow2) c n = 0
  | 0 => rfl
  | n + 1 => by
    have : ∀ j, hob 0 pow2 j = false := fun j => by simp [hob, cumOr]
    simp [initSqrtSum, initSqrtSum_zero c pow2 n, this]

example : initSqrtSum (hob 17 32) 10 10 = 128 := by decide

/-- `inverse_sqrt_initial_approximation`: for every `0 < d < 4^c` the guess `g` satisfies
    `4^(c-1) ≤ g²·d < 4^c`, i.e. `g/2^c ∈ (1/(2√d), 1/√d]`. -/
theorem initSqrt_bracket {s c : Nat} {d : Int} (hcs : 2 * c ≤ s) (hs : s ≤ 128)
    (h0 : 0 < d) (hd : d < 4 ^ c) :
    4 ^ (c - 1) ≤ initSqrt s c d * initSqrt s c d * d ∧
      initSqrt s c d * initSqrt s c d * d < 4 ^ c := by
  obtain ⟨u, rfl⟩ := Int.eq_ofNat_of_zero_le (Int.le_of_lt h0)
  have hu : u < 4 ^ c := by exact_mod_cast hd
  have hus : u < 2 ^ s := by
    have : (4 : Nat) ^ c = 2 ^ (2 * c) := by rw [Nat.pow_mul]
    rw [this] at hu
    exact Nat.lt_of_lt_of_le hu (Nat.pow_le_pow_right (by omega) hcs)
  have hb := initSqrtSum_bracket (pow2 := nextPow2 (2 * c)) (by exact_mod_cast h0) hu
    (nextPow2_ge_of_le_128 (by omega))
  unfold initSqrt
  simp only [residue_natCast hus]
  exact_mod_cast hb

theorem initSqrt_pos {s c : Nat} {d : Int} (hcs : 2 * c ≤ s) (hs : s ≤ 128)
    (h0 : 0 < d) (hd : d < 4 ^ c) : 0 < initSqrt s c d := by
  have hb := (initSqrt_bracket hcs hs h0 hd).1
  have hp : (0 : Int) < 4 ^ (c - 1) := Int.pow_pos (by omega)
  have hg : 0 ≤ initSqrt s c d := by unfold initSqrt; exact Int.natCast_nonneg _
  rcases Int.lt_or_eq_of_le hg with h | h
  · exact h
  · rw [← h, Int.zero_mul, Int.zero_mul] at hb; omega

theorem initSqrt_zero (s c : Nat) : initSqrt s c 0 = 0 := by
  have : residue s 0 = 0 := by simp [residue]
  simp [initSqrt, this, initSqrtSum_zero]

example : initSqrt 64 10 1000000 = 1 := by decide
example : initSqrt 64 10 17 = 128 := by decide
example : (4 : Int) ^ (10 - 1) ≤ initSqrt 64 10 17 * initSqrt 64 10 17 * 17 ∧
    initSqrt 64 10 17 * initSqrt 64 10 17 * 17 < 4 ^ 10 :=
  initSqrt_bracket (by decide) (by decide) (by decide) (by decide)

end CCV.Approx
