import CCV.Model.TypeInfer
/-
  Helper lemmas for C09 (type inference): the generic loop, `broadcast_shapes`.
-/
namespace CCV.TI
open CCV CCV.TV


theorem loopE_ok_iff {β : Type} (f : Nat → Except String β) : ∀ (k i : Nat) (r : List β),
    loopE f i k = .ok r ↔ (r.length = k ∧ ∀ j (h : j < r.length), f (i + j) = .ok r[j]) := by
  intro k
  induction k with
  | zero =>
    intro i r
    simp only [loopE]
    constructor
    · intro h
      cases h
      simp
    · intro ⟨h, _⟩
      cases r with
      | nil => rfl
      | cons a as => simp at h
  | succ k ih =>
    intro i r
    simp only [loopE]
    cases hf : f i with
    | error e =>
      simp only []
      constructor
      · intro h; cases h
      · intro ⟨hl, hj⟩
        cases r with
        | nil => simp at hl
        | cons a as =>
          have := hj 0 (by simp)
          simp [hf] at this
    | ok b =>
      simp only []
      cases hl : loopE f (i + 1) k with
      | error e =>
        simp only []
        constructor
        · intro h; cases h
        · intro ⟨hlen, hj⟩
          cases r with
          | nil => simp at hlen
          | cons a as =>
            have h2 : loopE f (i + 1) k = .ok as := by
              rw [ih]
              refine ⟨by simpa using hlen, ?_⟩
              intro j hjl
              have := hj (j + 1) (by simp; omega)
              simpa [Nat.add_assoc, Nat.add_comm 1 j] using this
            rw [hl] at h2
            cases h2
      | ok bs =>
        simp only []
        have hbs := (ih (i + 1) bs).mp hl
        constructor
        · intro h
          cases h
          refine ⟨by simp [hbs.1], ?_⟩
          intro j hjl
          cases j with
          | zero => simpa using hf
          | succ j =>
            have := hbs.2 j (by simpa using hjl)
            simpa [Nat.add_assoc, Nat.add_comm 1 j] using this
        · intro ⟨hlen, hj⟩
          cases r with
          | nil => simp at hlen
          | cons a as =>
            have h0 := hj 0 (by simp)
            simp [hf] at h0
            have h2 : loopE f (i + 1) k = .ok as := by
              rw [ih]
              refine ⟨by simpa using hlen, ?_⟩
              intro j hjl
              have := hj (j + 1) (by simp; omega)
              simpa [Nat.add_assoc, Nat.add_comm 1 j] using this
            rw [hl] at h2
            cases h2
            rw [h0]



theorem bcastDim_comm (a b : Nat) : bcastDim a b = bcastDim b a := by
  unfold bcastDim
  by_cases h : 1 < a ∧ 1 < b ∧ a ≠ b
  · have h' : 1 < b ∧ 1 < a ∧ b ≠ a := ⟨h.2.1, h.1, fun e => h.2.2 e.symm⟩
    rw [if_pos h, if_pos h']
  · have h' : ¬ (1 < b ∧ 1 < a ∧ b ≠ a) := fun x => h ⟨x.2.1, x.1, fun e => x.2.2 e.symm⟩
    rw [if_neg h, if_neg h']
    congr 1
    by_cases hab : a ≤ b <;> by_cases hba : b ≤ a <;> simp [hab, hba] <;> omega

theorem bcastDim_self (a : Nat) : bcastDim a a = .ok a := by
  unfold bcastDim
  simp

theorem bcastDim_ok {a b c : Nat} (h : bcastDim a b = .ok c) :
    ¬ (1 < a ∧ 1 < b ∧ a ≠ b) ∧ c = (if a ≤ b then b else a) := by
  unfold bcastDim at h
  by_cases hc : 1 < a ∧ 1 < b ∧ a ≠ b
  · rw [if_pos hc] at h; cases h
  · rw [if_neg hc] at h
    injection h with h
    exact ⟨hc, h.symm⟩

/-- for positive dimensions: each operand dimension is the result dimension or `1`. -/
theorem bcastDim_ok_pos {a b c : Nat} (ha : 0 < a) (hb : 0 < b) (h : bcastDim a b = .ok c) :
    (a = c ∨ a = 1) ∧ (b = c ∨ b = 1) ∧ 0 < c := by
  obtain ⟨h1, h2⟩ := bcastDim_ok h
  by_cases hab : a ≤ b
  · rw [if_pos hab] at h2
    rw [h2]
    refine ⟨?_, Or.inl rfl, hb⟩
    by_cases e : a = b
    · exact Or.inl e
    · right
      have : ¬ (1 < a ∧ 1 < b) := fun x => h1 ⟨x.1, x.2, e⟩
      omega
  · rw [if_neg hab] at h2
    rw [h2]
    refine ⟨Or.inl rfl, ?_, ha⟩
    right
    have : ¬ (1 < a ∧ 1 < b) := fun x => h1 ⟨x.1, x.2, by omega⟩
    omega

def maxLen (s1 s2 : List Nat) : Nat := if s1.length ≤ s2.length then s2.length else s1.length

theorem maxLen_comm (s1 s2 : List Nat) : maxLen s1 s2 = maxLen s2 s1 := by
  unfold maxLen; split <;> split <;> omega

theorem broadcastShapes_eq (s1 s2 : List Nat) : broadcastShapes s1 s2 =
    loopE (fun i => bcastDim (dimAt s1 (maxLen s1 s2 - s1.length) i) (dimAt s2 (maxLen s1 s2 - s2.length) i)) 0 (maxLen s1 s2) := rfl

theorem broadcastShapes_comm (s1 s2 : List Nat) : broadcastShapes s1 s2 = broadcastShapes s2 s1 := by
  rw [broadcastShapes_eq, broadcastShapes_eq, maxLen_comm s2 s1]
  congr 1
  funext i
  exact bcastDim_comm _ _



theorem broadcastShapes_ok_iff (s1 s2 r : List Nat) : broadcastShapes s1 s2 = .ok r ↔
    (r.length = maxLen s1 s2 ∧ ∀ j (h : j < r.length),
      bcastDim (dimAt s1 (maxLen s1 s2 - s1.length) j) (dimAt s2 (maxLen s1 s2 - s2.length) j) = .ok r[j]) := by
  rw [broadcastShapes_eq, loopE_ok_iff]
  simp only [Nat.zero_add]

theorem dimAt_zero_lt (s : List Nat) (j : Nat) (h : j < s.length) : dimAt s 0 j = s[j] := by
  unfold dimAt
  simp [List.getD_eq_getElem?_getD, h]

theorem dimAt_pos {s : List Nat} (hs : ∀ d ∈ s, 0 < d) (off j : Nat) : 0 < dimAt s off j := by
  unfold dimAt
  split
  · rw [List.getD_eq_getElem?_getD]
    cases h : s[j - off]? with
    | none => simp
    | some d =>
      simp only [Option.getD_some]
      exact hs d (List.mem_of_getElem? h)
  · exact Nat.one_pos

theorem dimAt_eq_getElem (s : List Nat) (off j : Nat) (h1 : off ≤ j) (h2 : j - off < s.length) :
    dimAt s off j = s[j - off] := by
  unfold dimAt
  simp [List.getD_eq_getElem?_getD, h1, h2]

theorem broadcastShapes_idem (s : List Nat) : broadcastShapes s s = .ok s := by
  rw [broadcastShapes_ok_iff]
  have hm : maxLen s s = s.length := by unfold maxLen; simp
  refine ⟨hm.symm, ?_⟩
  intro j h
  rw [hm, Nat.sub_self, dimAt_zero_lt s j h]
  exact bcastDim_self _

theorem broadcastShapes_length {s1 s2 r : List Nat} (h : broadcastShapes s1 s2 = .ok r) :
    r.length = maxLen s1 s2 := ((broadcastShapes_ok_iff s1 s2 r).mp h).1

/-- positive operand dimensions: every result dimension is positive and each (right-aligned, padded
    with 1) operand dimension is the result dimension or 1. -/
theorem broadcastShapes_dims {s1 s2 r : List Nat} (h1 : ∀ d ∈ s1, 0 < d) (h2 : ∀ d ∈ s2, 0 < d)
    (h : broadcastShapes s1 s2 = .ok r) (j : Nat) (hj : j < r.length) :
    (dimAt s1 (r.length - s1.length) j = r[j] ∨ dimAt s1 (r.length - s1.length) j = 1) ∧
    (dimAt s2 (r.length - s2.length) j = r[j] ∨ dimAt s2 (r.length - s2.length) j = 1) ∧ 0 < r[j] := by
  obtain ⟨hl, hd⟩ := (broadcastShapes_ok_iff s1 s2 r).mp h
  rw [hl]
  exact bcastDim_ok_pos (dimAt_pos h1 _ _) (dimAt_pos h2 _ _) (hd j hj)

theorem broadcastShapes_pos {s1 s2 r : List Nat} (h1 : ∀ d ∈ s1, 0 < d) (h2 : ∀ d ∈ s2, 0 < d)
    (h : broadcastShapes s1 s2 = .ok r) : ∀ d ∈ r, 0 < d := by
  intro d hd
  obtain ⟨j, hj, rfl⟩ := List.getElem_of_mem hd
  exact (broadcastShapes_dims h1 h2 h j hj).2.2



theorem mul_succ_cast (s : Int) (j : Nat) : s * ((j + 1 : Nat) : Int) = s * (j : Int) + s := by
  rw [Int.natCast_succ, Int.mul_add, Int.mul_one]

/-- invariant of the counting loop of `get_slice_shape_1d`: the loop visits exactly the indices
    `cur, cur + step, …` (`c - cnt` of them), all inside `[0, dim)` and strictly before `end_`
    (in the direction of `step`), and stops at the first index at or beyond `end_`. -/
theorem sliceLoop_spec (dim : Nat) (e s : Int) : ∀ (fuel : Nat) (cur : Int) (cnt c : Nat),
    sliceLoop dim e s fuel cur cnt = .ok c →
      cnt ≤ c ∧
      (∀ j : Nat, j < c - cnt →
        0 ≤ cur + s * (j : Int) ∧ cur + s * (j : Int) < dim ∧
        (0 < s → cur + s * (j : Int) < e) ∧ (s < 0 → e < cur + s * (j : Int))) ∧
      ((0 < s ∧ e ≤ cur + s * ((c - cnt : Nat) : Int)) ∨ (s < 0 ∧ cur + s * ((c - cnt : Nat) : Int) ≤ e)) := by
  intro fuel
  induction fuel with
  | zero => intro cur cnt c h; simp [sliceLoop] at h
  | succ fuel ih =>
    intro cur cnt c h
    unfold sliceLoop at h
    by_cases hstop : (0 < s ∧ e ≤ cur) ∨ (s < 0 ∧ cur ≤ e)
    · rw [if_pos hstop] at h
      injection h with h
      subst h
      refine ⟨Nat.le_refl _, ?_, ?_⟩
      · intro j hj; omega
      · simpa using hstop
    · rw [if_neg hstop] at h
      by_cases hoob : cur < 0 ∨ (dim : Int) ≤ cur
      · rw [if_pos hoob] at h; cases h
      · rw [if_neg hoob] at h
        obtain ⟨h1, h2, h3⟩ := ih (cur + s) (cnt + 1) c h
        refine ⟨by omega, ?_, ?_⟩
        · intro j hj
          cases j with
          | zero =>
            simp only [Int.natCast_zero, Int.mul_zero, Int.add_zero]
            omega
          | succ j =>
            have := h2 j (by omega)
            rw [mul_succ_cast]
            omega
        · have hc : c - cnt = (c - (cnt + 1)) + 1 := by omega
          rw [hc, mul_succ_cast]
          omega

/-- the number of loop iterations is bounded by the remaining in-range positions, so `dim + 1`
    units of fuel always suffice (the loop never runs out of fuel for an in-range start). -/
theorem sliceLoop_count_pos_step {dim : Nat} {e s : Int} {fuel : Nat} {b : Int} {c : Nat}
    (h : sliceLoop dim e s fuel b 0 = .ok c) (hs : 0 < s) (hc : 0 < c) :
    s * ((c : Int) - 1) < e - b ∧ e - b ≤ s * (c : Int) := by
  obtain ⟨_, h2, h3⟩ := sliceLoop_spec dim e s fuel b 0 c h
  have hl := h2 (c - 1) (by omega)
  have hc' : ((c - 1 : Nat) : Int) = (c : Int) - 1 := by omega
  rw [hc'] at hl
  simp only [Nat.sub_zero] at h3
  rcases h3 with ⟨_, h3⟩ | ⟨h3, _⟩
  · have := hl.2.2.1 hs
    omega
  · omega

theorem sliceLoop_count_neg_step {dim : Nat} {e s : Int} {fuel : Nat} {b : Int} {c : Nat}
    (h : sliceLoop dim e s fuel b 0 = .ok c) (hs : s < 0) (hc : 0 < c) :
    (-s) * ((c : Int) - 1) < b - e ∧ b - e ≤ (-s) * (c : Int) := by
  obtain ⟨_, h2, h3⟩ := sliceLoop_spec dim e s fuel b 0 c h
  have hl := h2 (c - 1) (by omega)
  have hc' : ((c - 1 : Nat) : Int) = (c : Int) - 1 := by omega
  rw [hc'] at hl
  simp only [Nat.sub_zero] at h3
  rw [Int.neg_mul, Int.neg_mul]
  rcases h3 with ⟨h3, _⟩ | ⟨_, h3⟩
  · omega
  · have := hl.2.2.2 hs
    omega



/-- documented slice length: `⌈(stop − start) / step⌉` for a positive step. -/
theorem ceil_pos_step {s d : Int} {c : Int} (hs : 0 < s) (h1 : s * (c - 1) < d) (h2 : d ≤ s * c) :
    c = (d + s - 1) / s := by
  have e1 : s * (c - 1) = c * s - s := by rw [Int.mul_sub, Int.mul_one, Int.mul_comm]
  have e2 : s * c = c * s := Int.mul_comm _ _
  have a1 : c ≤ (d + s - 1) / s := (Int.le_ediv_iff_mul_le hs).mpr (by omega)
  have a2 : (d + s - 1) / s < c + 1 := (Int.ediv_lt_iff_lt_mul hs).mpr (by rw [Int.add_mul, Int.one_mul]; omega)
  omega

/-- what `get_slice_shape_1d` returns for a `SubArray`: with `(begin, end, step)` the normalised
    triple, the count `c ≥ 1` is the documented `⌈(end − begin)/step⌉` (for a negative step
    `⌈(begin − end)/(−step)⌉`), and every `begin + step·j`, `j < c`, lies in `[0, dim)`. -/
theorem sliceShape1d_sub_spec {dim : Nat} {b e s : Option Int} {r : Option Nat}
    (h : sliceShape1d dim (.sub b e s) = .ok r) :
    ∃ bg en st c, normalizeSub dim b e s = .ok (bg, en, st) ∧ r = some c ∧ 0 < c ∧ st ≠ 0 ∧
      (∀ j : Nat, j < c → 0 ≤ bg + st * (j : Int) ∧ bg + st * (j : Int) < dim) ∧
      (0 < st → (c : Int) = (en - bg + st - 1) / st) ∧
      (st < 0 → (c : Int) = (bg - en + (-st) - 1) / (-st)) := by
  simp only [sliceShape1d] at h
  cases hn : normalizeSub dim b e s with
  | error err => rw [hn] at h; cases h
  | ok t =>
    obtain ⟨bg, en, st⟩ := t
    rw [hn] at h
    simp only [] at h
    cases hl : sliceLoop dim en st (dim + 1) bg 0 with
    | error err => rw [hl] at h; cases h
    | ok c =>
      rw [hl] at h
      simp only [] at h
      by_cases hc : c = 0
      · rw [if_pos hc] at h; cases h
      · rw [if_neg hc] at h
        injection h with h
        have hst : st ≠ 0 := by
          unfold normalizeSub at hn
          by_cases h0 : s.getD 1 = 0
          · simp [h0] at hn
          · simp only [h0, if_false] at hn
            injection hn with hn
            have := congrArg (fun t => t.2.2) hn
            simp only [] at this
            rw [← this]; exact h0
        refine ⟨bg, en, st, c, rfl, h.symm, by omega, hst, ?_, ?_, ?_⟩
        · intro j hj
          obtain ⟨_, h2, _⟩ := sliceLoop_spec dim en st (dim + 1) bg 0 c hl
          have := h2 j (by omega)
          exact ⟨this.1, this.2.1⟩
        · intro hs
          obtain ⟨a1, a2⟩ := sliceLoop_count_pos_step hl hs (by omega)
          exact ceil_pos_step hs a1 a2
        · intro hs
          obtain ⟨a1, a2⟩ := sliceLoop_count_neg_step hl hs (by omega)
          exact ceil_pos_step (by omega) a1 a2

/-- `slice_1d_index` maps every result position of an accepted 1-d slice into `[0, dim)`. -/
theorem slice1dIndex_in_range {dim : Nat} {b e s : Option Int} {c : Nat}
    (h : sliceShape1d dim (.sub b e s) = .ok (some c)) (j : Nat) (hj : j < c) :
    ∃ x, slice1dIndex dim b e s j = .ok x ∧ x < dim := by
  obtain ⟨bg, en, st, c', hn, hr, _, _, hrange, _, _⟩ := sliceShape1d_sub_spec h
  injection hr with hr
  subst hr
  obtain ⟨r1, r2⟩ := hrange j hj
  unfold slice1dIndex
  rw [hn]
  simp only []
  rw [if_neg (by omega)]
  exact ⟨_, rfl, by omega⟩



theorem sliceIndexGo_in_range (index : List Nat) : ∀ (shape : List Nat) (clean : List SliceEl) (rs : List Nat) (j : Nat),
    sliceShapeGo shape clean = .ok rs →
    j + rs.length ≤ index.length →
    (∀ i (h : i < rs.length), index.getD (j + i) 0 < rs[i]) →
    ∃ src, sliceIndexGo index shape clean j = .ok (src, j + rs.length) ∧ src.length = shape.length ∧
      ∀ i (h : i < src.length), src[i] < shape.getD i 0 := by
  intro shape
  induction shape with
  | nil =>
    intro clean rs j h hl hi
    simp only [sliceShapeGo] at h
    injection h with h
    subst h
    exact ⟨[], by simp [sliceIndexGo], rfl, by intro i h; simp at h⟩
  | cons d ds ih =>
    intro clean rs j h hl hi
    cases clean with
    | nil =>
      simp only [sliceShapeGo] at h
      cases hr : sliceShapeGo ds [] with
      | error err => rw [hr] at h; cases h
      | ok r' =>
        rw [hr] at h
        injection h with h
        subst h
        simp only [List.length_cons] at hl
        obtain ⟨src', hs1, hs2, hs3⟩ := ih [] r' (j + 1) hr (by omega) (by
          intro i h
          have := hi (i + 1) (by simp; omega)
          simpa [Nat.add_assoc, Nat.add_comm 1 i] using this)
        refine ⟨index.getD j 0 :: src', ?_, by simp [hs2], ?_⟩
        · simp only [sliceIndexGo]
          rw [if_neg (by omega), hs1]
          simp [Nat.add_assoc, Nat.add_comm 1]
        · intro i h
          cases i with
          | zero =>
            have := hi 0 (by simp)
            simpa using this
          | succ i =>
            have := hs3 i (by simpa using h)
            simpa using this
    | cons el els =>
      cases el with
      | ellipsis => simp [sliceShapeGo, sliceShape1d] at h
      | single ind =>
        simp only [sliceShapeGo] at h
        cases h1 : sliceShape1d d (.single ind) with
        | error err => rw [h1] at h; cases h
        | ok o =>
          rw [h1] at h
          simp only [sliceShape1d] at h1
          by_cases hb : (if ind < 0 then ind + (d : Int) else ind) < 0 ∨ (d : Int) ≤ (if ind < 0 then ind + (d : Int) else ind)
          · rw [if_pos hb] at h1; cases h1
          · rw [if_neg hb] at h1
            injection h1 with h1
            subst h1
            simp only [] at h
            obtain ⟨src', hs1, hs2, hs3⟩ := ih els rs j h hl hi
            have hreal : (if 0 ≤ ind then ind else ind + (d : Int)) = (if ind < 0 then ind + (d : Int) else ind) := by
              split <;> split <;> omega
            refine ⟨(if 0 ≤ ind then ind else ind + (d : Int)).toNat :: src', ?_, by simp [hs2], ?_⟩
            · simp only [sliceIndexGo]
              rw [if_neg (by rw [hreal]; omega), hs1]
            · intro i h
              cases i with
              | zero =>
                simp only [List.getElem_cons_zero, List.getD_cons_zero]
                rw [hreal]; omega
              | succ i =>
                have := hs3 i (by simpa using h)
                simpa using this
      | sub b e s =>
        simp only [sliceShapeGo] at h
        cases h1 : sliceShape1d d (.sub b e s) with
        | error err => rw [h1] at h; cases h
        | ok o =>
          rw [h1] at h
          cases o with
          | none =>
            obtain ⟨_, _, _, c, _, hr, _⟩ := sliceShape1d_sub_spec h1
            cases hr
          | some c =>
            simp only [] at h
            cases hr : sliceShapeGo ds els with
            | error err => rw [hr] at h; cases h
            | ok r' =>
              rw [hr] at h
              injection h with h
              subst h
              simp only [List.length_cons] at hl
              have h0 := hi 0 (by simp)
              simp only [Nat.add_zero, List.getElem_cons_zero] at h0
              obtain ⟨x, hx1, hx2⟩ := slice1dIndex_in_range h1 (index.getD j 0) h0
              obtain ⟨src', hs1, hs2, hs3⟩ := ih els r' (j + 1) hr (by omega) (by
                intro i h
                have := hi (i + 1) (by simp; omega)
                simpa [Nat.add_assoc, Nat.add_comm 1 i] using this)
              refine ⟨x :: src', ?_, by simp [hs2], ?_⟩
              · simp only [sliceIndexGo]
                rw [if_neg (by omega), hx1]
                simp only []
                rw [hs1]
                simp [Nat.add_assoc, Nat.add_comm 1]
              · intro i h
                cases i with
                | zero => simpa using hx2
                | succ i =>
                  have := hs3 i (by simpa using h)
                  simpa using this


theorem infer_ok_raw {op : Op} {tys : List Ty} {t : Ty} (h : infer op tys = .ok t) :
    inferRaw op tys = .ok t := by
  unfold infer at h
  by_cases hc : arityOk op tys.length = false
  · rw [if_pos hc] at h; cases h
  · rw [if_neg hc] at h
    cases hraw : inferRaw op tys with
    | error e => rw [hraw] at h; cases h
    | ok t' =>
      rw [hraw] at h
      simp only [] at h
      by_cases hv : registers op = true ∧ t'.isValid = false
      · rw [if_pos hv] at h; cases h
      · rw [if_neg hv] at h; exact h

theorem dropAxes_nil (s : List Nat) (k : Nat) : dropAxes [] s k = s := by
  induction s generalizing k with
  | nil => rfl
  | cons d ds ih => simp [dropAxes, ih]


/-- `dropAxes` keeps exactly the dimensions whose position is not a summed axis. -/
theorem dropAxes_spec (axes s : List Nat) (k : Nat) :
    dropAxes axes s k = ((s.zipIdx k).filter (fun p => !axes.contains p.2)).map (·.1) := by
  induction s generalizing k with
  | nil => rfl
  | cons d ds ih =>
    simp only [dropAxes, List.zipIdx_cons, List.filter_cons]
    by_cases h : k ∈ axes
    · simp [h, ih]
    · simp [h, ih]


theorem transposeShape_append (b : List Nat) (x y : Nat) (flag : Bool) :
    transposeShape (b ++ [x, y]) flag = b ++ (if flag then [y, x] else [x, y]) := by
  unfold transposeShape
  cases flag with
  | false => simp
  | true =>
    have l : (b ++ [x, y]).length = b.length + 2 := by simp
    simp [l, List.getD_eq_getElem?_getD]

/-- Gemm core: operands already in the orientation selected by the flags. -/
theorem gemm_core {ba bb : List Nat} {n k k' m : Nat} {st : ST} {t : Ty} (s0 s1 : List Nat)
    (e0 : s0 = ba ++ [n, k]) (e1 : s1 = bb ++ [k', m])
    (h : (if s0.getD (s0.length - 1) 0 ≠ s1.getD (s1.length - 2) 0 then (Except.error "Gemm with incompatible dimensions" : Except String Ty)
        else
          match broadcastShapes (s0.take (s0.length - 2)) (s1.take (s1.length - 2)) with
          | .error e => .error e
          | .ok batch => .ok (.array (batch ++ [s0.getD (s0.length - 2) 0, s1.getD (s1.length - 1) 0]) st)) = .ok t) :
    k = k' ∧ ∃ bc, broadcastShapes ba bb = .ok bc ∧ t = .array (bc ++ [n, m]) st := by
  subst e0 e1
  have l0 : (ba ++ [n, k]).length = ba.length + 2 := by simp
  have l1 : (bb ++ [k', m]).length = bb.length + 2 := by simp
  simp only [l0, l1, Nat.add_sub_cancel] at h
  have g0 : (ba ++ [n, k]).getD (ba.length + 2 - 1) 0 = k := by simp [List.getD_eq_getElem?_getD]
  have g1 : (bb ++ [k', m]).getD bb.length 0 = k' := by simp [List.getD_eq_getElem?_getD]
  have g2 : (ba ++ [n, k]).getD ba.length 0 = n := by simp [List.getD_eq_getElem?_getD]
  have g3 : (bb ++ [k', m]).getD (bb.length + 2 - 1) 0 = m := by simp [List.getD_eq_getElem?_getD]
  have t0 : (ba ++ [n, k]).take ba.length = ba := by simp
  have t1 : (bb ++ [k', m]).take bb.length = bb := by simp
  rw [g0, g1, g2, g3, t0, t1] at h
  by_cases hk : k = k'
  · rw [if_neg (by simpa using hk)] at h
    cases hb : broadcastShapes ba bb with
    | error e => rw [hb] at h; cases h
    | ok bc =>
      rw [hb] at h
      simp only [] at h
      injection h with h
      exact ⟨hk, bc, rfl, h.symm⟩
  · rw [if_pos (by simpa using hk)] at h; cases h


end CCV.TI
