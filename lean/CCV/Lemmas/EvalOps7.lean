import CCV.Lemmas.EvalOps6
/-
  Helper lemmas for the value-level half of C09, part 7: ApplyPermutation on arrays of any rank
  (`Ops.applyPermutation`: the validity check of the index array, the optional inversion, `gather`
  along axis 0) on a valid permutation; the validity test (`HashSet` counting) accepts exactly the
  permutations of `0..n-1`.
-/
namespace CCV.EvalOps
open CCV CCV.TV CCV.Shape
open CCV.TI hiding prod broadcastShapes transposeShape

theorem eraseDups_nodup (l : List Nat) (h : l.Nodup) : l.eraseDups = l := by
  induction l with
  | nil => simp
  | cons a l ih =>
    rw [List.eraseDups_cons]
    have hn := List.nodup_cons.mp h
    have hf : l.filter (fun b => !b == a) = l := by
      apply List.filter_eq_self.mpr
      intro b hb
      have : b ≠ a := fun e => hn.1 (e ▸ hb)
      simp [this]
    rw [hf, ih hn.2]

/-- **ApplyPermutation(inverse)** of the evaluator model on a permutation of `0..n-1` (`n` = first
    dimension): the validity check passes, the inversion (if requested) succeeds and stays in range,
    `gather` along axis 0 reads no row out of range; the result has the size of the input. -/
theorem applyPermutation_typed (st : ST) (inv : Bool) (d : Nat) (ds xs perm : List Nat) (hp : pos (d :: ds))
    (hx : flatOk st (prod (d :: ds)) xs) (hlen : perm.length = d) (hnd : perm.Nodup)
    (hlt : ∀ v ∈ perm, v < perm.length) :
    ∃ r, Ops.applyPermutation inv (d :: ds) xs perm = .ok r ∧ flatOk st (prod (d :: ds)) r := by
  have hlt' : ∀ v ∈ perm, v < d := fun v hv => hlen ▸ hlt v hv
  have hcheck : ((perm.filter (· < d)).eraseDups).length = d := by
    have hf : perm.filter (· < d) = perm :=
      List.filter_eq_self.mpr (fun a ha => by simpa using hlt' a ha)
    rw [hf, eraseDups_nodup perm hnd, hlen]
  -- gather along axis 0 with any in-range index list of length `d`
  have hg : ∀ p : List Nat, p.length = d → (∀ v ∈ p, v < d) →
      ∃ r, Ops.gather (d :: ds) xs p 0 = .ok r ∧ flatOk st (prod (d :: ds)) r := by
    intro p hpl hpr
    obtain ⟨r, hr, hok⟩ := (gather_typed st (d :: ds) xs p 0 (by simp) hp hx).1 (by simpa using hpr)
    refine ⟨r, hr, ?_⟩
    simpa [prod, hpl] using hok
  have hc : ¬ (((perm.filter (· < (d :: ds).headD 0)).eraseDups).length ≠ (d :: ds).headD 0) := fun h => h hcheck
  cases inv with
  | false =>
    obtain ⟨r, hr, hok⟩ := hg perm hlen hlt'
    refine ⟨r, ?_, hok⟩
    unfold Ops.applyPermutation
    simp only []
    rw [if_neg hc]
    simp only [Bool.false_eq_true, if_false]
    exact hr
  | true =>
    obtain ⟨r0, hr0, hrl, hri⟩ := Ops.inversePermutation_spec perm hnd hlt
    simp only [Ops.inversePermutation, hnd, not_true_eq_false, if_false] at hr0
    have hsurj := Ops.mem_of_nodup_lt rfl hnd hlt
    have hrlt : ∀ v ∈ r0, v < d := by
      intro v hv
      obtain ⟨k, hk, rfl⟩ := List.mem_iff_getElem.mp hv
      obtain ⟨j, hj, hjk⟩ := List.mem_iff_getElem.mp (hsurj k (hrl ▸ hk))
      have := hri j hj
      simp only [List.getD_eq_getElem?_getD, List.getElem?_eq_getElem hj, Option.getD_some, hjk,
        List.getElem?_eq_getElem hk] at this
      omega
    obtain ⟨r, hr, hok⟩ := hg r0 (by rw [hrl, hlen]) hrlt
    refine ⟨r, ?_, hok⟩
    unfold Ops.applyPermutation
    simp only []
    rw [if_neg hc]
    simp only [if_true, hr0]
    exact hr

/-! ### the validity test accepts exactly the permutations -/

theorem filter_eq_self_of_length {α : Type} (p : α → Bool) : ∀ (l : List α), (l.filter p).length = l.length →
    l.filter p = l
  | [], _ => rfl
  | a :: l, h => by
    have hle := List.length_filter_le p l
    by_cases hpa : p a = true
    · simp only [List.filter_cons, hpa, if_true, List.length_cons] at h ⊢
      rw [filter_eq_self_of_length p l (by omega)]
    · simp only [List.filter_cons, hpa, Bool.false_eq_true, if_false, List.length_cons] at h
      omega

/-- `HashSet` counting: the number of distinct entries is at most the length, with equality only for
    duplicate-free lists -/
theorem eraseDups_length : ∀ (n : Nat) (l : List Nat), l.length ≤ n →
    l.eraseDups.length ≤ l.length ∧ (l.eraseDups.length = l.length → l.Nodup)
  | _, [], _ => by simp
  | 0, _ :: _, h => by simp at h
  | n + 1, a :: l, h => by
    rw [List.eraseDups_cons]
    have hg := List.length_filter_le (fun b => !b == a) l
    obtain ⟨i1, i2⟩ := eraseDups_length n (l.filter fun b => !b == a) (by simp at h; omega)
    simp only [List.length_cons]
    refine ⟨by omega, ?_⟩
    intro he
    have hgl : (l.filter fun b => !b == a).length = l.length := by omega
    have hgeq := filter_eq_self_of_length _ l hgl
    have hnd := i2 (by omega)
    rw [hgeq] at hnd
    refine List.nodup_cons.mpr ⟨?_, hnd⟩
    intro hmem
    have := (List.filter_eq_self.mp hgeq) a hmem
    simp at this

/-- the validity test of ApplyPermutation (`filter(< n)` into a `HashSet`, count `= n`) on an index
    array of length `n` accepts exactly the permutations of `0..n-1` -/
theorem permCheck_iff (perm : List Nat) (d : Nat) (hlen : perm.length = d) :
    ((perm.filter (· < d)).eraseDups).length = d ↔ (perm.Nodup ∧ ∀ v ∈ perm, v < perm.length) := by
  constructor
  · intro h
    have hf := List.length_filter_le (fun x => decide (x < d)) perm
    obtain ⟨i1, i2⟩ := eraseDups_length _ (perm.filter (· < d)) (Nat.le_refl _)
    have hfl : (perm.filter (· < d)).length = perm.length := by omega
    have hfe := filter_eq_self_of_length _ perm hfl
    have hnd := i2 (by omega)
    rw [hfe] at hnd
    refine ⟨hnd, fun v hv => ?_⟩
    have := (List.filter_eq_self.mp hfe) v hv
    rw [hlen]
    simpa using this
  · rintro ⟨hnd, hlt⟩
    have hf : perm.filter (· < d) = perm :=
      List.filter_eq_self.mpr (fun a ha => by simpa [hlen] using hlt a ha)
    rw [hf, eraseDups_nodup perm hnd, hlen]

/-- ApplyPermutation on anything but a permutation: the documented run-time error -/
theorem applyPermutation_err (inv : Bool) (d : Nat) (ds xs perm : List Nat) (hlen : perm.length = d)
    (h : ¬ (perm.Nodup ∧ ∀ v ∈ perm, v < perm.length)) :
    Ops.applyPermutation inv (d :: ds) xs perm = .error "Argument 1 doesn't contain a valid permutation." := by
  have hc : ((perm.filter (· < (d :: ds).headD 0)).eraseDups).length ≠ (d :: ds).headD 0 :=
    fun he => h ((permCheck_iff perm d hlen).mp he)
  unfold Ops.applyPermutation
  simp only []
  rw [if_pos hc]

end CCV.EvalOps
