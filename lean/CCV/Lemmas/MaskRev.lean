import CCV.Model.MaskRev
import CCV.Lemmas.Mask
/- Soundness of the reveal-message analysis (output recipients). -/
set_option linter.unusedSectionVars false
namespace CCV.Mask
open CCV.Pivot
variable {R : Type} [AddCommGroup R]

theorem evalNode_congr (sem : Nat → List R → R) (own kn x ρ : Nat → R) (env env2 : List R) (n : Node)
    (h : ∀ d ∈ n.deps, env.getD d 0 = env2.getD d 0) :
    evalNode sem own kn x ρ env n = evalNode sem own kn x ρ env2 n := by
  unfold evalNode
  have : n.deps.map (fun d => env.getD d 0) = n.deps.map (fun d => env2.getD d 0) := List.map_congr_left h
  simp only [this]

theorem add_plusR_det (A B C A' B' C' : R) (h0 : A - C = A' - C') (h1 : B = B') :
    A + B - C = A' + B' - C' := by
  rw [h1]
  have e : A + B' - C = (A - C) + B' := by abel
  rw [e, h0]; abel

theorem add_det_plusR (A B C A' B' C' : R) (h0 : A = A') (h1 : B - C = B' - C') :
    A + B - C = A' + B' - C' := by
  rw [h0]
  have e : A' + B - C = A' + (B - C) := by abel
  rw [e, h1]; abel

theorem sub_plusR_det (A B C A' B' C' : R) (h0 : A - C = A' - C') (h1 : B = B') :
    A - B - C = A' - B' - C' := by
  rw [h1]
  have e : A - B' - C = (A - C) - B' := by abel
  rw [e, h0]; abel

theorem evalRun_prefix (sem : Nat → List R → R) (own kn x ρ : Nat → R) :
    ∀ (g : List Node) (env : List R) (i : Nat), i < env.length →
      (evalRun sem own kn x ρ g env).getD i 0 = env.getD i 0
  | [], _, _, _ => rfl
  | n :: g, env, i, h => by
    simp only [evalRun]
    rw [evalRun_prefix sem own kn x ρ g _ i (by simp; omega), getD_append_lt env _ _ i h]

theorem evalRun_length (sem : Nat → List R → R) (own kn x ρ : Nat → R) :
    ∀ (g : List Node) (env : List R), (evalRun sem own kn x ρ g env).length = env.length + g.length
  | [], env => by simp [evalRun]
  | n :: g, env => by simp [evalRun, evalRun_length sem own kn x ρ g]; omega

section
variable (sem : Nat → List R → R) (own kn : Nat → R) (x x' ρ ρ' : Nat → R) (msgs : List Nat)
variable (fin fin' : List R)

/-- invariant of the view analysis: marked positions carry equal values in the two runs; both partial
    environments are prefixes of the final ones -/
structure VInv (vb : List Bool) (env env' : List R) : Prop where
  l1 : env.length = vb.length
  l2 : env'.length = vb.length
  eqv : ∀ i, i < vb.length → vb.getD i false = true → env.getD i 0 = env'.getD i 0

theorem view_step (hmsg : ∀ j ∈ msgs, fin.getD j 0 = fin'.getD j 0)
    (vb : List Bool) (env env' : List R) (hI : VInv vb env env') (n : Node) (g : List Node)
    (hf : evalRun sem own kn x ρ (n :: g) env = fin) (hf' : evalRun sem own kn x' ρ' (n :: g) env' = fin')
    (hsc : ∀ d ∈ n.deps, d < vb.length) :
    VInv (vb ++ [viewNode msgs vb.length vb n]) (env ++ [evalNode sem own kn x ρ env n])
      (env' ++ [evalNode sem own kn x' ρ' env' n]) := by
  refine ⟨by simp [hI.l1], by simp [hI.l2], ?_⟩
  intro i hi hv
  simp only [List.length_append, List.length_singleton] at hi
  by_cases hlt : i < vb.length
  · rw [getD_append_lt vb _ _ i hlt] at hv
    rw [getD_append_lt env _ _ i (by rw [hI.l1]; exact hlt), getD_append_lt env' _ _ i (by rw [hI.l2]; exact hlt)]
    exact hI.eqv i hlt hv
  · have e : i = vb.length := by omega
    subst e
    rw [getD_append_eq] at hv
    have e2 : (env ++ [evalNode sem own kn x ρ env n]).getD vb.length 0 = evalNode sem own kn x ρ env n := by
      rw [← hI.l1]; exact getD_append_eq _ _ _
    have e3 : (env' ++ [evalNode sem own kn x' ρ' env' n]).getD vb.length 0 = evalNode sem own kn x' ρ' env' n := by
      rw [← hI.l2]; exact getD_append_eq _ _ _
    rw [e2, e3]
    unfold viewNode at hv
    by_cases hm : msgs.contains vb.length = true
    · -- a message node: equal by the assumption on the view
      have hmem : vb.length ∈ msgs := by simpa using hm
      have := hmsg _ hmem
      have f1 : fin.getD vb.length 0 = evalNode sem own kn x ρ env n := by
        rw [← hf]; simp only [evalRun]
        rw [evalRun_prefix sem own kn x ρ g _ vb.length (by simp [hI.l1]), ← hI.l1, getD_append_eq]
      have f2 : fin'.getD vb.length 0 = evalNode sem own kn x' ρ' env' n := by
        rw [← hf']; simp only [evalRun]
        rw [evalRun_prefix sem own kn x' ρ' g _ vb.length (by simp [hI.l2]), ← hI.l2, getD_append_eq]
      rw [← f1, ← f2]; exact this
    · simp only [hm, Bool.false_or] at hv
      have hargs : n.deps.all (fun j => vb.getD j false) = true →
          n.deps.map (fun d => env.getD d 0) = n.deps.map (fun d => env'.getD d 0) := by
        intro h
        apply List.map_congr_left
        intro d hd
        exact hI.eqv d (hsc d hd) (List.all_eq_true.mp h d hd)
      unfold evalNode
      cases hk : n.k with
      | hid i => rw [hk] at hv; exact absurd hv (by simp)
      | tapeU w => rw [hk] at hv; exact absurd hv (by simp)
      | own i => rfl
      | tapeK w => rfl
      | nop => rw [hk] at hv; simp only [] at hv ⊢; rw [hargs hv]
      | add => rw [hk] at hv; simp only [] at hv ⊢; rw [hargs hv]
      | sub => rw [hk] at hv; simp only [] at hv ⊢; rw [hargs hv]
      | op tag => rw [hk] at hv; simp only [] at hv ⊢; rw [hargs hv]

theorem view_run (hmsg : ∀ j ∈ msgs, fin.getD j 0 = fin'.getD j 0) :
    ∀ (g : List Node) (vb : List Bool) (env env' : List R), VInv vb env env' →
    evalRun sem own kn x ρ g env = fin → evalRun sem own kn x' ρ' g env' = fin' →
    wellScoped g vb.length = true →
    ∀ i, (viewRun msgs g vb).getD i false = true → fin.getD i 0 = fin'.getD i 0
  | [], vb, env, env', hI, hf, hf', _, i, h => by
    simp only [viewRun, evalRun] at *
    subst hf; subst hf'
    by_cases hi : i < vb.length
    · exact hI.eqv i hi h
    · have : vb.getD i false = false := by
        simp [List.getD_eq_getElem?_getD, List.getElem?_eq_none (by omega : vb.length ≤ i)]
      rw [this] at h; exact absurd h (by decide)
  | n :: g, vb, env, env', hI, hf, hf', hw, i, h => by
    obtain ⟨hsc, hw'⟩ := wellScoped_cons n g _ hw
    simp only [viewRun] at h
    exact view_run hmsg g _ _ _
      (view_step sem own kn x x' ρ ρ' msgs fin fin' hmsg vb env env' hI n g hf hf' hsc)
      (by simpa [evalRun] using hf) (by simpa [evalRun] using hf') (by simpa using hw') i h

end

/-- value of node `m` in the run on (x, ρ) -/
def val (sem : Nat → List R → R) (own kn : Nat → R) (g : List Node) (m : Nat) (x ρ : Nat → R) : R :=
  (evalRun sem own kn x ρ g []).getD m 0

/-- **view-determined nodes**: if all message nodes carry equal values in two runs, so does every node
    marked by `viewRun` -/
theorem view_det (sem : Nat → List R → R) (own kn : Nat → R) (g : List Node) (msgs : List Nat)
    (hw : wellScoped g 0 = true) (x x' ρ ρ' : Nat → R)
    (hmsg : ∀ j ∈ msgs, val sem own kn g j x ρ = val sem own kn g j x' ρ')
    (m : Nat) (hm : (viewRun msgs g []).getD m false = true) :
    val sem own kn g m x ρ = val sem own kn g m x' ρ' :=
  view_run sem own kn x x' ρ ρ' msgs _ _ hmsg g [] [] [] ⟨rfl, rfl, fun _ h => absurd h (by simp)⟩ rfl rfl
    (by simpa using hw) m hm

/- the reveal analysis -/

section
variable (sem : Nat → List R → R) (own kn : Nat → R) (g0 : List Node) (msgs : List Nat) (r : Nat)
variable (x x' ρ ρ' : Nat → R)

/-- meaning of the classes, relative to two runs whose views agree: `det` = equal values;
    `plusR` = the difference to the reveal message r is equal in both runs -/
def RRel (fin fin' : List R) : RCls → Nat → Prop
  | .det, i => fin.getD i 0 = fin'.getD i 0
  | .plusR, i => fin.getD i 0 - fin.getD r 0 = fin'.getD i 0 - fin'.getD r 0
  | .other, _ => True

end

/-- all nodes of a run, as an unfolding equation: node `i` is computed from the FINAL values of its
    dependencies -/
theorem evalRun_unfold (sem : Nat → List R → R) (own kn x ρ : Nat → R) :
    ∀ (g : List Node) (env : List R), wellScoped g env.length = true →
    ∀ (k : Nat) (hk : k < g.length),
      (evalRun sem own kn x ρ g env).getD (env.length + k) 0
        = evalNode sem own kn x ρ (evalRun sem own kn x ρ g env) g[k]
  | [], _, _, k, hk => absurd hk (by simp)
  | n :: g, env, hw, k, hk => by
    obtain ⟨hsc, hw'⟩ := wellScoped_cons n g _ hw
    have hw'' : wellScoped g (env ++ [evalNode sem own kn x ρ env n]).length = true := by simpa using hw'
    simp only [evalRun]
    cases k with
    | zero =>
      simp only [Nat.add_zero, List.getElem_cons_zero]
      rw [evalRun_prefix sem own kn x ρ g _ env.length (by simp), getD_append_eq]
      -- evalNode reads only dependencies < env.length, where the final list agrees with env
      apply evalNode_congr
      intro d hd
      rw [evalRun_prefix sem own kn x ρ g _ d (by simp; have := hsc d hd; omega),
        getD_append_lt env _ _ d (hsc d hd)]
    | succ k =>
      have := evalRun_unfold sem own kn x ρ g (env ++ [evalNode sem own kn x ρ env n]) hw'' k
        (by simpa using hk)
      simp only [List.length_append, List.length_singleton] at this
      simp only [List.getElem_cons_succ]
      rw [show env.length + (k + 1) = env.length + 1 + k by omega]
      exact this

theorem rclsRun_length (r : Nat) (view : List Bool) : ∀ (g : List Node) (env : List RCls),
    (rclsRun r view g env).length = env.length + g.length
  | [], env => by simp [rclsRun]
  | n :: g, env => by simp [rclsRun, rclsRun_length r view g]; omega

theorem rclsRun_prefix (r : Nat) (view : List Bool) : ∀ (g : List Node) (env : List RCls) (i : Nat),
    i < env.length → (rclsRun r view g env).getD i .other = env.getD i .other
  | [], _, _, _ => rfl
  | n :: g, env, i, h => by
    simp only [rclsRun]
    rw [rclsRun_prefix r view g _ i (by simp; omega), getD_append_lt env _ _ i h]

theorem rclsRun_at (r : Nat) (view : List Bool) : ∀ (g : List Node) (env : List RCls) (k : Nat) (hk : k < g.length),
    (rclsRun r view g env).getD (env.length + k) .other
      = rclsNode r view (env.length + k) ((rclsRun r view g env).take (env.length + k)) g[k]
  | [], _, k, hk => absurd hk (by simp)
  | n :: g, env, k, hk => by
    simp only [rclsRun]
    cases k with
    | zero =>
      simp only [Nat.add_zero, List.getElem_cons_zero]
      rw [rclsRun_prefix r view g _ env.length (by simp), getD_append_eq]
      have : (rclsRun r view g (env ++ [rclsNode r view env.length env n])).take env.length = env := by
        apply List.ext_getElem?
        intro i
        by_cases hi : i < env.length
        · rw [List.getElem?_take_of_lt hi]
          have := rclsRun_prefix r view g (env ++ [rclsNode r view env.length env n]) i (by simp; omega)
          simp only [List.getD_eq_getElem?_getD] at this
          have hl : i < (rclsRun r view g (env ++ [rclsNode r view env.length env n])).length := by
            rw [rclsRun_length]; simp; omega
          rw [List.getElem?_eq_getElem hl, List.getElem?_eq_getElem hi]
          rw [List.getElem?_eq_getElem hl, List.getElem?_append_left hi, List.getElem?_eq_getElem hi] at this
          simpa using this
        · rw [List.getElem?_eq_none (by simp; omega), List.getElem?_eq_none (by omega)]
      rw [this]
    | succ k =>
      have := rclsRun_at r view g (env ++ [rclsNode r view env.length env n]) k (by simpa using hk)
      simp only [List.length_append, List.length_singleton] at this
      simp only [List.getElem_cons_succ]
      rw [show env.length + (k + 1) = env.length + 1 + k by omega]
      exact this

/-- **soundness of the reveal analysis**, by strong induction on the node index -/
theorem rcls_sound (sem : Nat → List R → R) (own kn : Nat → R) (g : List Node) (msgs : List Nat) (r : Nat)
    (hw : wellScoped g 0 = true) (x x' ρ ρ' : Nat → R)
    (hmsg : ∀ j ∈ msgs, val sem own kn g j x ρ = val sem own kn g j x' ρ') :
    ∀ (i : Nat), i < g.length →
      RRel r (evalRun sem own kn x ρ g []) (evalRun sem own kn x' ρ' g [])
        ((rclsRun r (viewRun msgs g []) g []).getD i .other) i := by
  intro i
  induction i using Nat.strongRecOn with
  | _ i ih =>
    intro hi
    have hat := rclsRun_at r (viewRun msgs g []) g [] i hi
    simp only [List.length_nil, Nat.zero_add] at hat
    rw [hat]
    unfold rclsNode
    by_cases hr : i = r
    · subst hr; simp [RRel]
    · simp only [hr, if_false]
      by_cases hv : (viewRun msgs g []).getD i false = true
      · simp only [hv, if_true, RRel]
        exact view_det sem own kn g msgs hw x x' ρ ρ' hmsg i hv
      · simp only [hv, Bool.false_eq_true, if_false]
        -- unfold the values of node i in both runs
        have u1 := evalRun_unfold sem own kn x ρ g [] (by simpa using hw) i hi
        have u2 := evalRun_unfold sem own kn x' ρ' g [] (by simpa using hw) i hi
        simp only [List.length_nil, Nat.zero_add] at u1 u2
        -- classes of dependencies come from the induction hypothesis; the truncated class list agrees
        -- with the full one below i
        have hsc : ∀ d ∈ g[i].deps, d < i := by
          have : ∀ (g : List Node) (k : Nat), wellScoped g k = true → ∀ (j : Nat) (hj : j < g.length),
              ∀ d ∈ g[j].deps, d < k + j := by
            intro g
            induction g with
            | nil => intro k _ j hj; exact absurd hj (by simp)
            | cons n g ihg =>
              intro k hwk j hj d hd
              obtain ⟨h1, h2⟩ := wellScoped_cons n g k hwk
              cases j with
              | zero => simpa using h1 d (by simpa using hd)
              | succ j =>
                have := ihg (k + 1) h2 j (by simpa using hj) d (by simpa using hd)
                omega
          intro d hd
          simpa using this g 0 hw i hi d hd
        have hcls : ∀ d, d < i →
            ((rclsRun r (viewRun msgs g []) g []).take i).getD d .other
              = (rclsRun r (viewRun msgs g []) g []).getD d .other := by
          intro d hd
          simp [List.getD_eq_getElem?_getD, List.getElem?_take_of_lt hd]
        have hlen : (rclsRun r (viewRun msgs g []) g []).length = g.length := by
          rw [rclsRun_length]; simp
        cases hk : g[i].k with
        | hid _ => simp [RRel]
        | own _ => simp [RRel]
        | tapeU _ => simp [RRel]
        | tapeK _ => simp [RRel]
        | op _ => simp [RRel]
        | nop =>
          simp only []
          by_cases h1 : g[i].deps.length = 1
          · simp only [h1, if_true]
            match hd : g[i].deps, h1 with
            | [d0], _ =>
              have hd0 : d0 < i := hsc d0 (by rw [hd]; simp)
              have ihd := ih d0 hd0 (by omega)
              simp only [List.getD_cons_zero]
              rw [hcls d0 hd0]
              have e1 : (evalRun sem own kn x ρ g []).getD i 0 = (evalRun sem own kn x ρ g []).getD d0 0 := by
                rw [u1]; unfold evalNode; rw [hk, hd]; simp
              have e2 : (evalRun sem own kn x' ρ' g []).getD i 0 = (evalRun sem own kn x' ρ' g []).getD d0 0 := by
                rw [u2]; unfold evalNode; rw [hk, hd]; simp
              generalize (rclsRun r (viewRun msgs g []) g []).getD d0 .other = c at ihd ⊢
              cases c <;> simp only [RRel] at ihd ⊢ <;> first | trivial | (rw [e1, e2]; exact ihd)
          · simp only [h1, if_false, RRel]
        | add =>
          simp only []
          by_cases h2 : g[i].deps.length = 2
          · simp only [h2, if_true]
            match hd : g[i].deps, h2 with
            | [d0, d1], _ =>
              have hd0 : d0 < i := hsc d0 (by rw [hd]; simp)
              have hd1 : d1 < i := hsc d1 (by rw [hd]; simp)
              have ih0 := ih d0 hd0 (by omega)
              have ih1 := ih d1 hd1 (by omega)
              simp only [List.getD_cons_zero, List.getD_cons_succ]
              rw [hcls d0 hd0, hcls d1 hd1]
              have e1 : (evalRun sem own kn x ρ g []).getD i 0
                  = (evalRun sem own kn x ρ g []).getD d0 0 + (evalRun sem own kn x ρ g []).getD d1 0 := by
                rw [u1]; unfold evalNode; rw [hk, hd]; simp
              have e2 : (evalRun sem own kn x' ρ' g []).getD i 0
                  = (evalRun sem own kn x' ρ' g []).getD d0 0 + (evalRun sem own kn x' ρ' g []).getD d1 0 := by
                rw [u2]; unfold evalNode; rw [hk, hd]; simp
              generalize (rclsRun r (viewRun msgs g []) g []).getD d0 .other = c0 at ih0 ⊢
              generalize (rclsRun r (viewRun msgs g []) g []).getD d1 .other = c1 at ih1 ⊢
              cases c0 <;> cases c1 <;> simp only [rclsAdd, RRel] at ih0 ih1 ⊢ <;>
                first
                | trivial
                | (rw [e1, e2, ih0, ih1])
                | (rw [e1, e2]; exact add_plusR_det _ _ _ _ _ _ ih0 ih1)
                | (rw [e1, e2]; exact add_det_plusR _ _ _ _ _ _ ih0 ih1)
          · simp only [h2, if_false, RRel]
        | sub =>
          simp only []
          by_cases h2 : g[i].deps.length = 2
          · simp only [h2, if_true]
            match hd : g[i].deps, h2 with
            | [d0, d1], _ =>
              have hd0 : d0 < i := hsc d0 (by rw [hd]; simp)
              have hd1 : d1 < i := hsc d1 (by rw [hd]; simp)
              have ih0 := ih d0 hd0 (by omega)
              have ih1 := ih d1 hd1 (by omega)
              simp only [List.getD_cons_zero, List.getD_cons_succ]
              rw [hcls d0 hd0, hcls d1 hd1]
              have e1 : (evalRun sem own kn x ρ g []).getD i 0
                  = (evalRun sem own kn x ρ g []).getD d0 0 - (evalRun sem own kn x ρ g []).getD d1 0 := by
                rw [u1]; unfold evalNode; rw [hk, hd]; simp
              have e2 : (evalRun sem own kn x' ρ' g []).getD i 0
                  = (evalRun sem own kn x' ρ' g []).getD d0 0 - (evalRun sem own kn x' ρ' g []).getD d1 0 := by
                rw [u2]; unfold evalNode; rw [hk, hd]; simp
              generalize (rclsRun r (viewRun msgs g []) g []).getD d0 .other = c0 at ih0 ⊢
              generalize (rclsRun r (viewRun msgs g []) g []).getD d1 .other = c1 at ih1 ⊢
              cases c0 <;> cases c1 <;> simp only [RRel] at ih0 ih1 ⊢ <;>
                first
                | trivial
                | (rw [e1, e2, ih0, ih1])
                | (rw [e1, e2]; exact sub_plusR_det _ _ _ _ _ _ ih0 ih1)
          · simp only [h2, if_false, RRel]

end CCV.Mask
