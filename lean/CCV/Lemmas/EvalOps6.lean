import CCV.Lemmas.EvalOps5
/-
  Helper lemmas for the value-level half of C09, part 6: compound values (tuples, named tuples,
  vectors) — constructors, accessors, Zip, Repeat and Reshape (`flatten_value` / `unflatten_value`).
-/
namespace CCV.EvalOps
open CCV CCV.TV CCV.Shape
open CCV.TI hiding prod broadcastShapes transposeShape

/-! ### `Type == Type` is equality -/

mutual
theorem Ty.eq_of_beq : ∀ (a b : Ty), Ty.beq a b = true → a = b
  | .scalar a, .scalar b, h => by simp only [Ty.beq, beq_iff_eq] at h; rw [h]
  | .array s a, .array s' b, h => by
    simp only [Ty.beq, Bool.and_eq_true, beq_iff_eq] at h; rw [h.1, h.2]
  | .vector n t, .vector n' t', h => by
    simp only [Ty.beq, Bool.and_eq_true, beq_iff_eq] at h
    rw [h.1, Ty.eq_of_beq t t' h.2]
  | .tuple ts, .tuple ts', h => by
    simp only [Ty.beq] at h; rw [eqL_of_beqL ts ts' h]
  | .named fs, .named fs', h => by
    simp only [Ty.beq] at h; rw [eqN_of_beqN fs fs' h]
  | .scalar _, .array _ _, h | .scalar _, .vector _ _, h | .scalar _, .tuple _, h | .scalar _, .named _, h
  | .array _ _, .scalar _, h | .array _ _, .vector _ _, h | .array _ _, .tuple _, h | .array _ _, .named _, h
  | .vector _ _, .scalar _, h | .vector _ _, .array _ _, h | .vector _ _, .tuple _, h | .vector _ _, .named _, h
  | .tuple _, .scalar _, h | .tuple _, .array _ _, h | .tuple _, .vector _ _, h | .tuple _, .named _, h
  | .named _, .scalar _, h | .named _, .array _ _, h | .named _, .vector _ _, h | .named _, .tuple _, h => by
    simp [Ty.beq] at h
theorem eqL_of_beqL : ∀ (as bs : List Ty), beqL as bs = true → as = bs
  | [], [], _ => rfl
  | a :: as, b :: bs, h => by
    simp only [beqL, Bool.and_eq_true] at h
    rw [Ty.eq_of_beq a b h.1, eqL_of_beqL as bs h.2]
  | [], _ :: _, h => by simp [beqL] at h
  | _ :: _, [], h => by simp [beqL] at h
theorem eqN_of_beqN : ∀ (as bs : List (String × Ty)), beqN as bs = true → as = bs
  | [], [], _ => rfl
  | (n, a) :: as, (m, b) :: bs, h => by
    simp only [beqN, Bool.and_eq_true, beq_iff_eq] at h
    rw [h.1.1, Ty.eq_of_beq a b h.1.2, eqN_of_beqN as bs h.2]
  | [], _ :: _, h => by simp [beqN] at h
  | _ :: _, [], h => by simp [beqN] at h
end

/-! ### lists of typed values -/

theorem hasTypeL_length : ∀ (ts : List Ty) (vs : List EV), hasTypeL ts vs → vs.length = ts.length
  | [], [], _ => rfl
  | [], _ :: _, h => by simp [hasTypeL] at h
  | _ :: _, [], h => by simp [hasTypeL] at h
  | _ :: ts, _ :: vs, h => by
    simp only [hasTypeL] at h
    simp [hasTypeL_length ts vs h.2]

theorem hasTypeL_append : ∀ (as : List Ty) (xs : List EV) (bs : List Ty) (ys : List EV),
    hasTypeL as xs → hasTypeL bs ys → hasTypeL (as ++ bs) (xs ++ ys)
  | [], [], _, _, _, h2 => h2
  | [], _ :: _, _, _, h, _ => by simp [hasTypeL] at h
  | _ :: _, [], _, _, h, _ => by simp [hasTypeL] at h
  | a :: as, x :: xs, bs, ys, h1, h2 => by
    simp only [hasTypeL] at h1
    simp only [List.cons_append, hasTypeL]
    exact ⟨h1.1, hasTypeL_append as xs bs ys h1.2 h2⟩

/-- splitting a typed list at the length of the first block of types -/
theorem hasTypeL_split : ∀ (as bs : List Ty) (xs : List EV), hasTypeL (as ++ bs) xs →
    ∃ ys zs, xs = ys ++ zs ∧ hasTypeL as ys ∧ hasTypeL bs zs
  | [], bs, xs, h => ⟨[], xs, rfl, trivial, h⟩
  | a :: as, bs, [], h => by simp [hasTypeL] at h
  | a :: as, bs, x :: xs, h => by
    simp only [List.cons_append, hasTypeL] at h
    obtain ⟨ys, zs, rfl, h1, h2⟩ := hasTypeL_split as bs xs h.2
    exact ⟨x :: ys, zs, rfl, ⟨h.1, h1⟩, h2⟩

theorem hasTypeL_getElem : ∀ (ts : List Ty) (cs : List EV) (i : Nat) (t : Ty), hasTypeL ts cs →
    ts[i]? = some t → ∃ c, cs[i]? = some c ∧ hasType t c
  | [], _, i, t, _, h => by simp at h
  | _ :: _, [], _, _, h, _ => by simp [hasTypeL] at h
  | a :: ts, c :: cs, 0, t, h, hi => by
    simp only [hasTypeL] at h
    simp only [List.getElem?_cons_zero, Option.some.injEq] at hi
    exact ⟨c, rfl, hi ▸ h.1⟩
  | a :: ts, c :: cs, i + 1, t, h, hi => by
    simp only [hasTypeL] at h
    simp only [List.getElem?_cons_succ] at hi ⊢
    exact hasTypeL_getElem ts cs i t h.2 hi

theorem hasTypeN_getElem : ∀ (fs : List (String × Ty)) (cs : List EV) (i : Nat) (n : String) (t : Ty),
    hasTypeN fs cs → fs[i]? = some (n, t) → ∃ c, cs[i]? = some c ∧ hasType t c
  | [], _, i, _, t, _, h => by simp at h
  | _ :: _, [], _, _, _, h, _ => by simp [hasTypeN] at h
  | (m, a) :: fs, c :: cs, 0, n, t, h, hi => by
    simp only [hasTypeN] at h
    simp only [List.getElem?_cons_zero, Option.some.injEq, Prod.mk.injEq] at hi
    exact ⟨c, rfl, hi.2 ▸ h.1⟩
  | (m, a) :: fs, c :: cs, i + 1, n, t, h, hi => by
    simp only [hasTypeN] at h
    simp only [List.getElem?_cons_succ] at hi ⊢
    exact hasTypeN_getElem fs cs i n t h.2 hi

/-- NamedTupleGet: the first field called `name` exists at the position the evaluator finds, and
    the child at that position has the field's type -/
theorem hasTypeN_lookup (name : String) : ∀ (fs : List (String × Ty)) (cs : List EV) (t : Ty),
    hasTypeN fs cs → lookupField name fs = some t →
    ∃ k c, fieldIdx name fs = some k ∧ cs[k]? = some c ∧ hasType t c
  | [], _, t, _, h => by simp [lookupField] at h
  | _ :: _, [], _, h, _ => by simp [hasTypeN] at h
  | (m, a) :: fs, c :: cs, t, h, hl => by
    simp only [hasTypeN] at h
    simp only [lookupField] at hl
    by_cases hm : m = name
    · rw [if_pos hm] at hl
      injection hl with hl
      exact ⟨0, c, by simp [fieldIdx, hm], rfl, hl ▸ h.1⟩
    · rw [if_neg hm] at hl
      obtain ⟨k, c', e1, e2, e3⟩ := hasTypeN_lookup name fs cs t h.2 hl
      exact ⟨k + 1, c', by simp [fieldIdx, hm, e1], by simpa using e2, e3⟩

/-- CreateNamedTuple -/
theorem hasTypeN_zip : ∀ (names : List String) (tys : List Ty) (vs : List EV), tys.length = names.length →
    hasTypeL tys vs → hasTypeN (names.zip tys) vs
  | [], [], [], _, _ => trivial
  | [], [], _ :: _, _, h => by simp [hasTypeL] at h
  | [], _ :: _, _, hl, _ => by simp at hl
  | _ :: _, [], _, hl, _ => by simp at hl
  | _ :: _, _ :: _, [], _, h => by simp [hasTypeL] at h
  | n :: names, t :: tys, v :: vs, hl, h => by
    simp only [hasTypeL] at h
    simp only [List.zip_cons_cons, hasTypeN]
    exact ⟨h.1, hasTypeN_zip names tys vs (by simpa using hl) h.2⟩

/-- CreateVector -/
theorem hasTypeL_const (et : Ty) : ∀ (tys : List Ty) (vs : List EV), (∀ ty ∈ tys, ty = et) → hasTypeL tys vs →
    vs.length = tys.length ∧ ∀ v ∈ vs, hasType et v
  | [], [], _, _ => ⟨rfl, by simp⟩
  | [], _ :: _, _, h => by simp [hasTypeL] at h
  | _ :: _, [], _, h => by simp [hasTypeL] at h
  | t :: tys, v :: vs, he, h => by
    simp only [hasTypeL] at h
    obtain ⟨i1, i2⟩ := hasTypeL_const et tys vs (fun ty hty => he ty (by simp [hty])) h.2
    refine ⟨by simp [i1], ?_⟩
    intro w hw
    rcases List.mem_cons.mp hw with rfl | hw
    · exact he t (by simp) ▸ h.1
    · exact i2 w hw

/-! ### Zip -/

theorem zipGo_facts : ∀ (tys : List Ty) (lo : Option Nat) (n : Nat) (ets : List Ty),
    zipGo tys lo = .ok (n, ets) → tys = ets.map (fun et => .vector n et) ∧ ∀ l, lo = some l → l = n
  | [], some len, n, ets, h => by
    simp only [zipGo] at h
    injection h with h
    injection h with h1 h2
    subst h1; subst h2
    exact ⟨rfl, fun l hl => by injection hl with hl; exact hl.symm⟩
  | [], none, n, ets, h => by simp [zipGo] at h
  | .vector l et :: ts, lo, n, ets, h => by
    simp only [zipGo] at h
    split at h; · cases h
    rename_i hlen
    have hlen : lo.getD l = l := Classical.byContradiction fun hne => hlen hne
    cases hz : zipGo ts (some l) with
    | error e => rw [hz] at h; cases h
    | ok r =>
      obtain ⟨n', ets'⟩ := r
      rw [hz] at h
      injection h with h
      injection h with h1 h2
      subst h1; subst h2
      obtain ⟨i1, i2⟩ := zipGo_facts ts (some l) n' ets' hz
      have hl : l = n' := i2 l rfl
      subst hl
      refine ⟨by simp [← i1], ?_⟩
      intro l' hl'
      subst hl'
      simpa using hlen
  | .scalar _ :: _, _, _, _, h => by simp [zipGo] at h
  | .array _ _ :: _, _, _, _, h => by simp [zipGo] at h
  | .tuple _ :: _, _, _, _, h => by simp [zipGo] at h
  | .named _ :: _, _, _, _, h => by simp [zipGo] at h

/-- the columns of Zip: column `k` has `n` entries of type `ets[k]` -/
def colsOK (n : Nat) : List Ty → List (List EV) → Prop
  | [], [] => True
  | et :: ets, c :: cs => (c.length = n ∧ ∀ v ∈ c, hasType et v) ∧ colsOK n ets cs
  | _, _ => False

theorem colsOf_typed (n : Nat) : ∀ (ets : List Ty) (vs : List EV),
    hasTypeL (ets.map fun et => .vector n et) vs → ∃ cols, colsOf vs = some cols ∧ colsOK n ets cols
  | [], [], _ => ⟨[], rfl, trivial⟩
  | [], _ :: _, h => by simp [hasTypeL] at h
  | _ :: _, [], h => by simp [hasTypeL] at h
  | et :: ets, v :: vs, h => by
    simp only [List.map_cons, hasTypeL] at h
    obtain ⟨cols, hc, hok⟩ := colsOf_typed n ets vs h.2
    cases v with
    | arr xs => simp [hasType] at h
    | vec cs =>
      have h1 := h.1
      simp only [hasType] at h1
      exact ⟨cs :: cols, by simp [colsOf, hc], ⟨h1, hok⟩⟩

theorem row_typed (n i : Nat) (hi : i < n) (d : EV) : ∀ (ets : List Ty) (cols : List (List EV)), colsOK n ets cols →
    hasTypeL ets (cols.map fun col => col.getD i d)
  | [], [], _ => trivial
  | [], _ :: _, h => by simp [colsOK] at h
  | _ :: _, [], h => by simp [colsOK] at h
  | et :: ets, c :: cs, h => by
    simp only [colsOK] at h
    simp only [List.map_cons, hasTypeL]
    refine ⟨?_, row_typed n i hi d ets cs h.2⟩
    have hic : i < c.length := by rw [h.1.1]; exact hi
    have e : c.getD i d = c[i] := by simp [List.getD_eq_getElem?_getD, hic]
    rw [e]
    exact h.1.2 _ (List.getElem_mem hic)

theorem minLen_const (n : Nat) : ∀ (cs : List (List EV)), (∀ c ∈ cs, c.length = n) →
    cs.foldl (fun m c' => if c'.length ≤ m then c'.length else m) n = n
  | [], _ => rfl
  | c :: cs, h => by
    simp only [List.foldl_cons, h c (by simp), Nat.le_refl, if_true]
    exact minLen_const n cs (fun c' hc' => h c' (by simp [hc']))

theorem colsOK_length (n : Nat) : ∀ (ets : List Ty) (cols : List (List EV)), colsOK n ets cols →
    ∀ c ∈ cols, c.length = n
  | [], [], _ => by simp
  | [], _ :: _, h => by simp [colsOK] at h
  | _ :: _, [], h => by simp [colsOK] at h
  | et :: ets, c :: cs, h => by
    simp only [colsOK] at h
    intro c' hc'
    rcases List.mem_cons.mp hc' with rfl | hc'
    · exact h.1.1
    · exact colsOK_length n ets cs h.2 c' hc'

/-- **Zip**: the rows have the type `Vector(n, Tuple(ets))` -/
theorem zipRows_typed (n : Nat) (ets : List Ty) (cols : List (List EV)) (h : colsOK n ets cols)
    (hne : ets ≠ []) : hasType (.vector n (.tuple ets)) (.vec (zipRows cols)) := by
  cases cols with
  | nil =>
    cases ets with
    | nil => exact absurd rfl hne
    | cons _ _ => simp [colsOK] at h
  | cons c cs =>
    have hl := colsOK_length n ets (c :: cs) h
    have hc : c.length = n := hl c (by simp)
    have hmin := minLen_const n cs (fun c' hc' => hl c' (by simp [hc']))
    simp only [zipRows, hc, hmin, hasType, List.length_map, List.length_range, true_and]
    intro v hv
    obtain ⟨i, hi, rfl⟩ := List.mem_map.mp hv
    have hi := List.mem_range.mp hi
    simp only [hasType]
    exact row_typed n i hi (.arr []) ets (c :: cs) h

/-! ### Reshape: `flatten_value` -/

theorem flattenRep_typed (T : List Ty) : ∀ (vs : List EV), (∀ v ∈ vs, hasTypeL T (flattenEV v)) →
    hasTypeL (List.replicate vs.length T).flatten (flattenEVL vs)
  | [], _ => trivial
  | v :: vs, h => by
    simp only [List.length_cons, List.replicate_succ, List.flatten_cons, flattenEVL]
    exact hasTypeL_append _ _ _ _ (h v (by simp)) (flattenRep_typed T vs (fun w hw => h w (by simp [hw])))

mutual
/-- the leaves of a value of type `t` have the types `flatten_type(t)` -/
theorem flattenEV_typed : ∀ (t : Ty) (v : EV), hasType t v → hasTypeL (flattenTy t) (flattenEV v)
  | .scalar st, .arr xs, h => by
    simp only [flattenTy, flattenEV, hasTypeL]; exact ⟨h, trivial⟩
  | .scalar st, .vec _, h => by simp [hasType] at h
  | .array s st, .arr xs, h => by
    simp only [flattenTy, flattenEV, hasTypeL]; exact ⟨h, trivial⟩
  | .array s st, .vec _, h => by simp [hasType] at h
  | .vector n t, .vec vs, h => by
    simp only [hasType] at h
    obtain ⟨hn, hall⟩ := h
    subst hn
    simp only [flattenTy, flattenEV]
    exact flattenRep_typed (flattenTy t) vs (fun v hv => flattenEV_typed t v (hall v hv))
  | .vector n t, .arr _, h => by simp [hasType] at h
  | .tuple ts, .vec vs, h => by
    simp only [hasType] at h
    simp only [flattenTy, flattenEV]
    exact flattenEVL_typed ts vs h
  | .tuple ts, .arr _, h => by simp [hasType] at h
  | .named fs, .vec vs, h => by
    simp only [hasType] at h
    simp only [flattenTy, flattenEV]
    exact flattenEVN_typed fs vs h
  | .named fs, .arr _, h => by simp [hasType] at h
theorem flattenEVL_typed : ∀ (ts : List Ty) (vs : List EV), hasTypeL ts vs → hasTypeL (flattenL ts) (flattenEVL vs)
  | [], [], _ => trivial
  | [], _ :: _, h => by simp [hasTypeL] at h
  | _ :: _, [], h => by simp [hasTypeL] at h
  | t :: ts, v :: vs, h => by
    simp only [hasTypeL] at h
    simp only [flattenL, flattenEVL]
    exact hasTypeL_append _ _ _ _ (flattenEV_typed t v h.1) (flattenEVL_typed ts vs h.2)
theorem flattenEVN_typed : ∀ (fs : List (String × Ty)) (vs : List EV), hasTypeN fs vs →
    hasTypeL (flattenN fs) (flattenEVL vs)
  | [], [], _ => trivial
  | [], _ :: _, h => by simp [hasTypeN] at h
  | _ :: _, [], h => by simp [hasTypeN] at h
  | (_, t) :: fs, v :: vs, h => by
    simp only [hasTypeN] at h
    simp only [flattenN, flattenEVL]
    exact hasTypeL_append _ _ _ _ (flattenEV_typed t v h.1) (flattenEVN_typed fs vs h.2)
end

/-! ### Reshape: `can_atomic_reshape` -/

theorem canAtomic_flat {a b : Ty} (h : canAtomicReshape a b = true) : isFlat a = true ∧ isFlat b = true := by
  cases a <;> cases b <;> simp [canAtomicReshape, stOf] at h <;> exact ⟨rfl, rfl⟩

/-- a leaf of type `a` is also a value of every type `b` it can be atomically reshaped into (same
    scalar type, same number of entries) -/
theorem atomic_hasType {a b : Ty} {v : EV} (h : canAtomicReshape a b = true) (hv : hasType a v) :
    hasType b v := by
  obtain ⟨fa, fb⟩ := canAtomic_flat h
  obtain ⟨xs, rfl, hx⟩ := hasType_flat_arr fa hv
  refine (hasType_flat fb xs).mpr ?_
  have e : stE a = stE b ∧ prod (dimsE a) = prod (dimsE b) := by
    rcases isFlat_cases fa with ⟨sa, rfl⟩ | ⟨s, sa, rfl⟩ <;>
    rcases isFlat_cases fb with ⟨sb, rfl⟩ | ⟨s', sb, rfl⟩ <;>
    · simp only [canAtomicReshape, stOf, dimsOf, Bool.and_eq_true, beq_iff_eq] at h
      refine ⟨by simp only [stE, stOf, Option.getD_some]; exact h.1.1.1, ?_⟩
      have := h.2
      simpa [dimsE, prod, prod_eq, TI.prod] using this
  rw [← e.1, ← e.2]
  exact hx

theorem allAtomic_hasTypeL : ∀ (as bs : List Ty) (xs : List EV), allAtomic as bs = true →
    as.length = bs.length → hasTypeL as xs → hasTypeL bs xs
  | [], [], xs, _, _, h => h
  | [], _ :: _, _, _, hl, _ => by simp at hl
  | _ :: _, [], _, _, hl, _ => by simp at hl
  | _ :: _, _ :: _, [], _, _, h => by simp [hasTypeL] at h
  | a :: as, b :: bs, x :: xs, ha, hl, h => by
    simp only [allAtomic, Bool.and_eq_true] at ha
    simp only [hasTypeL] at h ⊢
    exact ⟨atomic_hasType ha.1 h.1, allAtomic_hasTypeL as bs xs ha.2 (by simpa using hl) h.2⟩

/-! ### Reshape: `unflatten_value` -/

theorem repM_typed (t : Ty) (T : List Ty) (f : List EV → Option (EV × List EV))
    (hf : ∀ (restT : List Ty) (xs : List EV), hasTypeL (T ++ restT) xs →
      ∃ v r, f xs = some (v, r) ∧ hasType t v ∧ hasTypeL restT r) :
    ∀ (n : Nat) (restT : List Ty) (xs : List EV), hasTypeL ((List.replicate n T).flatten ++ restT) xs →
      ∃ vs r, repM f n xs = some (vs, r) ∧ vs.length = n ∧ (∀ v ∈ vs, hasType t v) ∧ hasTypeL restT r
  | 0, restT, xs, h => ⟨[], xs, rfl, rfl, by simp, by simpa using h⟩
  | n + 1, restT, xs, h => by
    rw [List.replicate_succ, List.flatten_cons, List.append_assoc] at h
    obtain ⟨v, r, e1, e2, e3⟩ := hf _ xs h
    obtain ⟨vs, r', g1, g2, g3, g4⟩ := repM_typed t T f hf n restT r e3
    refine ⟨v :: vs, r', by simp [repM, e1, g1], by simp [g2], ?_, g4⟩
    intro w hw
    rcases List.mem_cons.mp hw with rfl | hw
    · exact e2
    · exact g3 w hw

mutual
/-- `unflatten_value` never indexes out of range on leaves typed by `flatten_type(t)` (followed by
    anything), rebuilds a value of type `t` and leaves the rest -/
theorem unflat_typed : ∀ (t : Ty) (restT : List Ty) (xs : List EV), hasTypeL (flattenTy t ++ restT) xs →
    ∃ v r, unflat t xs = some (v, r) ∧ hasType t v ∧ hasTypeL restT r
  | .scalar st, restT, xs, h => by
    cases xs with
    | nil => simp [flattenTy, hasTypeL] at h
    | cons x r =>
      simp only [flattenTy, List.cons_append, List.nil_append, hasTypeL] at h
      exact ⟨x, r, rfl, h.1, h.2⟩
  | .array s st, restT, xs, h => by
    cases xs with
    | nil => simp [flattenTy, hasTypeL] at h
    | cons x r =>
      simp only [flattenTy, List.cons_append, List.nil_append, hasTypeL] at h
      exact ⟨x, r, rfl, h.1, h.2⟩
  | .vector n t, restT, xs, h => by
    simp only [flattenTy] at h
    obtain ⟨vs, r, e1, e2, e3, e4⟩ :=
      repM_typed t (flattenTy t) (unflat t) (fun restT xs h => unflat_typed t restT xs h) n restT xs h
    refine ⟨.vec vs, r, by simp only [unflat, e1], ?_, e4⟩
    simp only [hasType]
    exact ⟨e2, e3⟩
  | .tuple ts, restT, xs, h => by
    simp only [flattenTy] at h
    obtain ⟨vs, r, e1, e2, e3⟩ := unflatL_typed ts restT xs h
    refine ⟨.vec vs, r, by simp only [unflat, e1], ?_, e3⟩
    simp only [hasType]
    exact e2
  | .named fs, restT, xs, h => by
    simp only [flattenTy] at h
    obtain ⟨vs, r, e1, e2, e3⟩ := unflatN_typed fs restT xs h
    refine ⟨.vec vs, r, by simp only [unflat, e1], ?_, e3⟩
    simp only [hasType]
    exact e2
theorem unflatL_typed : ∀ (ts : List Ty) (restT : List Ty) (xs : List EV), hasTypeL (flattenL ts ++ restT) xs →
    ∃ vs r, unflatL ts xs = some (vs, r) ∧ hasTypeL ts vs ∧ hasTypeL restT r
  | [], restT, xs, h => ⟨[], xs, rfl, trivial, by simpa [flattenL] using h⟩
  | t :: ts, restT, xs, h => by
    simp only [flattenL, List.append_assoc] at h
    obtain ⟨v, r, e1, e2, e3⟩ := unflat_typed t _ xs h
    obtain ⟨vs, r', g1, g2, g3⟩ := unflatL_typed ts restT r e3
    exact ⟨v :: vs, r', by simp [unflatL, e1, g1], ⟨e2, g2⟩, g3⟩
theorem unflatN_typed : ∀ (fs : List (String × Ty)) (restT : List Ty) (xs : List EV),
    hasTypeL (flattenN fs ++ restT) xs →
    ∃ vs r, unflatN fs xs = some (vs, r) ∧ hasTypeN fs vs ∧ hasTypeL restT r
  | [], restT, xs, h => ⟨[], xs, rfl, trivial, by simpa [flattenN] using h⟩
  | (_, t) :: fs, restT, xs, h => by
    simp only [flattenN, List.append_assoc] at h
    obtain ⟨v, r, e1, e2, e3⟩ := unflat_typed t _ xs h
    obtain ⟨vs, r', g1, g2, g3⟩ := unflatN_typed fs restT r e3
    exact ⟨v :: vs, r', by simp [unflatN, e1, g1], ⟨e2, g2⟩, g3⟩
end

end CCV.EvalOps
