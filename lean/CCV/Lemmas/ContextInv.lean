import CCV.Lemmas.Context
/-
  C11: the well-formedness invariant `Inv` of a context state and its preservation by every
  mutator of `CCV.Context` (one lemma per mutator).  Core only.
-/
set_option linter.unusedSimpArgs false
namespace CCV.Context

/-- node `j` of graph `i` is well formed w.r.t. the graph list `gs` -/
structure NodeOk (gs : List Graph) (i j : Nat) (nd : Node) : Prop where
  /-- ids are positions (dense, creation order) -/
  id : nd.id = j
  /-- the node passed the type verdict (has a valid cached type) -/
  typed : nd.typed = true
  /-- every dependency is an earlier node of the same graph -/
  deps : ∀ d ∈ nd.deps, d.1 = i ∧ d.2 < j
  /-- every graph dependency is an older, finalized graph of this context -/
  gdeps : ∀ gd ∈ nd.gdeps, gd < i ∧ ∃ cg : Graph, gs[gd]? = some cg ∧ cg.finalized = true

structure GraphOk (gs : List Graph) (i : Nat) (g : Graph) : Prop where
  id : g.id = i
  nodes : ∀ j nd, g.nodes[j]? = some nd → NodeOk gs i j nd
  /-- the output node is a node of this graph -/
  output : ∀ o, g.output = some o → o < g.nodes.length
  /-- a finalized graph has an output -/
  fin : g.finalized = true → g.output.isSome = true

/-- `(g, n)` is an existing node -/
def InRange (gs : List Graph) (g n : Nat) : Prop :=
  ∃ gr : Graph, gs[g]? = some gr ∧ n < gr.nodes.length

structure Inv (s : State) : Prop where
  graphs : ∀ (i : Nat) (g : Graph), s.graphs[i]? = some g → GraphOk s.graphs i g
  /-- the main graph is a finalized graph of this context -/
  main : ∀ m, s.main = some m → ∃ g : Graph, s.graphs[m]? = some g ∧ g.finalized = true
  /-- a finalized context has a main graph and only finalized graphs -/
  fin : s.finalized = true →
    s.main.isSome = true ∧ ∀ (i : Nat) (g : Graph), s.graphs[i]? = some g → g.finalized = true
  /-- the two graph-name tables are inverse to each other -/
  gnames : ∀ id nm, tget s.gnames id = some nm ↔ tget s.gnamesInv nm = some id
  gnamesRange : ∀ id nm, tget s.gnames id = some nm → id < s.graphs.length
  /-- the two node-name tables are inverse to each other (per graph) -/
  nnames : ∀ g n nm, tget s.nnames (g, n) = some nm ↔ tget s.nnamesInv (g, nm) = some n
  nnamesRange : ∀ g n nm, tget s.nnames (g, n) = some nm → InRange s.graphs g n
  nannotRange : ∀ g n v, tget s.nannot (g, n) = some v → InRange s.graphs g n
  gannotRange : ∀ g v, tget s.gannot g = some v → g < s.graphs.length
  /-- no table holds two entries for one key -/
  nodup : (keys s.gnames).Nodup ∧ (keys s.gnamesInv).Nodup ∧ (keys s.nnames).Nodup ∧
          (keys s.nnamesInv).Nodup ∧ (keys s.nannot).Nodup ∧ (keys s.gannot).Nodup
  total : s.total ≤ maxTotal

/-! ### monotonicity of the graph-level predicates -/

/-- finalized graphs of `gs` are still there and finalized in `gs'` -/
abbrev FinMono (gs gs' : List Graph) : Prop :=
  ∀ (i : Nat) (cg : Graph), gs[i]? = some cg → cg.finalized = true →
    ∃ cg' : Graph, gs'[i]? = some cg' ∧ cg'.finalized = true

theorem NodeOk.mono {gs gs' : List Graph} {i j : Nat} {nd : Node} (h : NodeOk gs i j nd)
    (hm : FinMono gs gs') : NodeOk gs' i j nd :=
  ⟨h.id, h.typed, h.deps, fun gd hgd =>
    let ⟨h1, cg, h2, h3⟩ := h.gdeps gd hgd
    ⟨h1, hm gd cg h2 h3⟩⟩

theorem GraphOk.mono {gs gs' : List Graph} {i : Nat} {g : Graph} (h : GraphOk gs i g)
    (hm : FinMono gs gs') : GraphOk gs' i g :=
  ⟨h.id, fun j nd hj => (h.nodes j nd hj).mono hm, h.output, h.fin⟩

theorem finMono_append (gs : List Graph) (x : Graph) : FinMono gs (gs ++ [x]) := by
  intro i cg h1 h2
  refine ⟨cg, ?_, h2⟩
  have hi : i < gs.length := by
    have := (List.getElem?_eq_some_iff.1 h1).1
    exact this
  rw [List.getElem?_append_left hi]; exact h1

theorem finMono_set (gs : List Graph) (g : Nat) (gr gr' : Graph) (hg : gs[g]? = some gr)
    (hf : gr.finalized = true → gr'.finalized = true) : FinMono gs (gs.set g gr') := by
  intro i cg h1 h2
  have hlt : g < gs.length := (List.getElem?_eq_some_iff.1 hg).1
  by_cases hi : g = i
  · subst hi
    refine ⟨gr', ?_, ?_⟩
    · simp [List.getElem?_set, hlt]
    · rw [hg] at h1; cases h1; exact hf h2
  · exact ⟨cg, by simp [List.getElem?_set, hi, h1], h2⟩

theorem inRange_set {gs : List Graph} {g : Nat} {gr gr' : Graph} (hg : gs[g]? = some gr)
    (hl : gr.nodes.length ≤ gr'.nodes.length) {a n : Nat} (h : InRange gs a n) :
    InRange (gs.set g gr') a n := by
  obtain ⟨x, h1, h2⟩ := h
  have hlt : g < gs.length := (List.getElem?_eq_some_iff.1 hg).1
  by_cases hi : g = a
  · subst hi
    refine ⟨gr', by simp [List.getElem?_set, hlt], ?_⟩
    rw [hg] at h1; cases h1; omega
  · exact ⟨x, by simp [List.getElem?_set, hi, h1], h2⟩

theorem inRange_append {gs : List Graph} (x : Graph) {a n : Nat} (h : InRange gs a n) :
    InRange (gs ++ [x]) a n := by
  obtain ⟨y, h1, h2⟩ := h
  have hi : a < gs.length := (List.getElem?_eq_some_iff.1 h1).1
  exact ⟨y, by rw [List.getElem?_append_left hi]; exact h1, h2⟩

/-! ### the generic graph update -/

/-- replacing graph `g` by a well-formed successor keeps the invariant -/
theorem inv_setGraph {s : State} {g : Nat} {gr gr' : Graph} (h : Inv s)
    (hg : s.graphs[g]? = some gr)
    (hfin : gr.finalized = true → gr'.finalized = true)
    (hlen : gr.nodes.length ≤ gr'.nodes.length)
    (hok : GraphOk (s.graphs.set g gr') g gr') : Inv (setGraph s g gr') := by
  have hlt : g < s.graphs.length := (List.getElem?_eq_some_iff.1 hg).1
  have hmono := finMono_set s.graphs g gr gr' hg hfin
  refine ⟨?_, ?_, ?_, h.gnames, ?_, h.nnames, ?_, ?_, ?_, h.nodup, h.total⟩
  · intro i x hx
    simp only [setGraph, List.getElem?_set] at hx
    by_cases hi : g = i
    · subst hi
      simp [hlt] at hx; subst hx; exact hok
    · simp [hi] at hx
      exact (h.graphs i x hx).mono hmono
  · intro m hm
    obtain ⟨x, h1, h2⟩ := h.main m hm
    exact hmono m x h1 h2
  · intro hf
    have := h.fin hf
    refine ⟨this.1, ?_⟩
    intro i x hx
    simp only [setGraph, List.getElem?_set] at hx
    by_cases hi : g = i
    · subst hi
      simp [hlt] at hx; subst hx
      exact hfin (this.2 g gr hg)
    · simp [hi] at hx; exact this.2 i x hx
  · intro id nm hh
    simp only [setGraph, List.length_set]; exact h.gnamesRange id nm hh
  · intro a n nm hh
    exact inRange_set hg hlen (h.nnamesRange a n nm hh)
  · intro a n v hh
    exact inRange_set hg hlen (h.nannotRange a n v hh)
  · intro a v hh
    simp only [setGraph, List.length_set]; exact h.gannotRange a v hh

/-! ### mutators that only touch context-level tables and flags -/

theorem createGraph_inv {s : State} (h : Inv s) : Inv (createGraph s).1 := by
  unfold createGraph
  split
  · exact h
  · rename_i hf
    have hf' : s.finalized = false := by simpa using hf
    refine ⟨?_, ?_, ?_, h.gnames, ?_, h.nnames, ?_, ?_, ?_, h.nodup, h.total⟩
    · intro i x hx
      simp only [List.getElem?_append] at hx
      split at hx
      · exact (h.graphs i x hx).mono (finMono_append _ _)
      · rename_i hlt
        have : i = s.graphs.length := by
          by_cases hh : i - s.graphs.length = 0
          · omega
          · have : ([({ id := s.graphs.length, finalized := false, nodes := [], output := none } : Graph)])[i - s.graphs.length]? = none := by
              apply List.getElem?_eq_none; simp; omega
            rw [this] at hx; cases hx
        subst this
        simp at hx; subst hx
        exact ⟨rfl, by intro j nd hj; simp at hj, by intro o ho; simp at ho, by intro hh; simp at hh⟩
    · intro m hm
      obtain ⟨x, h1, h2⟩ := h.main m hm
      exact finMono_append _ _ m x h1 h2
    · intro hh; simp [hf'] at hh
    · intro id nm hh
      have := h.gnamesRange id nm hh
      simp; omega
    · intro a n nm hh; exact inRange_append _ (h.nnamesRange a n nm hh)
    · intro a n v hh; exact inRange_append _ (h.nannotRange a n v hh)
    · intro a v hh
      have := h.gannotRange a v hh
      simp; omega

theorem setGraphName_inv {s : State} (r : GRef) (name : Nat) (h : Inv s) :
    Inv (setGraphName s r name).1 := by
  unfold setGraphName
  split; · exact h
  split; · exact h
  split; · exact h
  split; · exact h
  split; · exact h
  rename_i h1 h2 h3 h4 h5
  have h4' : tget s.gnames r.g = none := by simpa using h4
  have h5' : tget s.gnamesInv name = none := by simpa using h5
  obtain ⟨gr, hgr⟩ : ∃ gr, s.graphs[r.g]? = some gr := by
    cases hh : s.graphs[r.g]? with
    | none => simp [hh] at h3
    | some gr => exact ⟨gr, rfl⟩
  have hlt : r.g < s.graphs.length := (List.getElem?_eq_some_iff.1 hgr).1
  refine ⟨h.graphs, h.main, h.fin, ?_, ?_, h.nnames, h.nnamesRange, h.nannotRange, h.gannotRange, ?_, h.total⟩
  · intro id nm
    simp only [tget_tinsert]
    have hb := h.gnames
    by_cases c1 : r.g = id <;> by_cases c2 : name = nm
    · simp [c1, c2]
    · subst c1
      rw [if_pos rfl, if_neg c2]
      constructor
      · intro hh; exact absurd (Option.some.inj hh) c2
      · intro hh; rw [← hb] at hh; rw [h4'] at hh; cases hh
    · subst c2
      rw [if_neg c1, if_pos rfl]
      constructor
      · intro hh; rw [hb] at hh; rw [h5'] at hh; cases hh
      · intro hh; exact absurd (Option.some.inj hh) c1
    · simp only [c1, c2, if_false]; exact hb id nm
  · intro id nm
    simp only [tget_tinsert]
    split
    · rename_i c; subst c; intro _; exact hlt
    · exact h.gnamesRange id nm
  · obtain ⟨n1, n2, n3, n4, n5, n6⟩ := h.nodup
    exact ⟨nodup_keys_tinsert _ _ _ n1, nodup_keys_tinsert _ _ _ n2, n3, n4, n5, n6⟩

theorem hasNode_inRange {s : State} {r : NRef} (h : hasNode s r = true) : InRange s.graphs r.g r.n := by
  unfold hasNode at h
  split at h
  · rename_i gr hgr; exact ⟨gr, hgr, by simpa using h⟩
  · cases h

theorem setNodeName_inv {s : State} (r : NRef) (name : Nat) (h : Inv s) :
    Inv (setNodeName s r name).1 := by
  unfold setNodeName
  split; · exact h
  split; · exact h
  split; · exact h
  split; · exact h
  split; · exact h
  rename_i h1 h2 h3 h4 h5
  have h3' : hasNode s r = true := by simpa using h3
  have h4' : tget s.nnames (r.g, r.n) = none := by simpa using h4
  have h5' : tget s.nnamesInv (r.g, name) = none := by simpa using h5
  refine ⟨h.graphs, h.main, h.fin, h.gnames, h.gnamesRange, ?_, ?_, h.nannotRange, h.gannotRange, ?_, h.total⟩
  · intro g n nm
    simp only [tget_tinsert]
    have hb := h.nnames
    by_cases c1 : (r.g, r.n) = (g, n) <;> by_cases c2 : (r.g, name) = (g, nm)
    · simp only [c1, c2, if_true, Option.some.injEq]
      simp only [Prod.mk.injEq] at c1 c2
      constructor <;> intro _
      · exact c1.2
      · exact c2.2
    · simp only [c1, c2, if_true, if_false, Option.some.injEq]
      simp only [Prod.mk.injEq] at c1 c2
      obtain ⟨e1, e2⟩ := c1
      subst e1; subst e2
      constructor
      · intro hh; exact absurd ⟨rfl, hh⟩ c2
      · intro hh; rw [← hb] at hh; rw [h4'] at hh; cases hh
    · simp only [c1, c2, if_true, if_false, Option.some.injEq]
      simp only [Prod.mk.injEq] at c1 c2
      obtain ⟨e1, e2⟩ := c2
      subst e1; subst e2
      constructor
      · intro hh; rw [hb] at hh; rw [h5'] at hh; cases hh
      · intro hh; exact absurd ⟨rfl, hh⟩ c1
    · simp only [c1, c2, if_false]; exact hb g n nm
  · intro g n nm
    simp only [tget_tinsert]
    split
    · rename_i c
      simp only [Prod.mk.injEq] at c
      obtain ⟨e1, e2⟩ := c
      subst e1; subst e2
      intro _; exact hasNode_inRange h3'
    · exact h.nnamesRange g n nm
  · obtain ⟨n1, n2, n3, n4, n5, n6⟩ := h.nodup
    exact ⟨n1, n2, nodup_keys_tinsert _ _ _ n3, nodup_keys_tinsert _ _ _ n4, n5, n6⟩

theorem addNodeAnnotation_inv {s : State} (r : NRef) (a : Nat) (h : Inv s) :
    Inv (addNodeAnnotation s r a).1 := by
  unfold addNodeAnnotation
  split; · exact h
  split; · exact h
  split; · exact h
  rename_i h1 h2 h3
  have h3' : hasNode s r = true := by simpa using h3
  refine ⟨h.graphs, h.main, h.fin, h.gnames, h.gnamesRange, h.nnames, h.nnamesRange, ?_, h.gannotRange, ?_, h.total⟩
  · intro g n v
    simp only [tget_tpush]
    split
    · rename_i c
      simp only [Prod.mk.injEq] at c
      obtain ⟨e1, e2⟩ := c
      subst e1; subst e2
      intro _; exact hasNode_inRange h3'
    · exact h.nannotRange g n v
  · obtain ⟨n1, n2, n3, n4, n5, n6⟩ := h.nodup
    exact ⟨n1, n2, n3, n4, nodup_keys_tpush _ _ _ n5, n6⟩

theorem addGraphAnnotation_inv {s : State} (r : GRef) (a : Nat) (h : Inv s) :
    Inv (addGraphAnnotation s r a).1 := by
  unfold addGraphAnnotation
  split; · exact h
  split; · exact h
  split; · exact h
  rename_i h1 h2 h3
  obtain ⟨gr, hgr⟩ : ∃ gr, s.graphs[r.g]? = some gr := by
    cases hh : s.graphs[r.g]? with
    | none => simp [hh] at h3
    | some gr => exact ⟨gr, rfl⟩
  have hlt : r.g < s.graphs.length := (List.getElem?_eq_some_iff.1 hgr).1
  refine ⟨h.graphs, h.main, h.fin, h.gnames, h.gnamesRange, h.nnames, h.nnamesRange, h.nannotRange, ?_, ?_, h.total⟩
  · intro g v
    simp only [tget_tpush]
    split
    · rename_i c; subst c; intro _; exact hlt
    · exact h.gannotRange g v
  · obtain ⟨n1, n2, n3, n4, n5, n6⟩ := h.nodup
    exact ⟨n1, n2, n3, n4, n5, nodup_keys_tpush _ _ _ n6⟩

theorem setMain_inv {s : State} (r : GRef) (h : Inv s) : Inv (setMain s r).1 := by
  unfold setMain
  split; · exact h
  split; · exact h
  split; · exact h
  split; · exact h
  rename_i _ hm hc _ gr hgr hf
  have hf' : gr.finalized = true := by simpa using hf
  refine ⟨h.graphs, ?_, ?_, h.gnames, h.gnamesRange, h.nnames, h.nnamesRange, h.nannotRange, h.gannotRange, h.nodup, h.total⟩
  · intro m hm'
    simp at hm'; subst hm'
    exact ⟨gr, hgr, hf'⟩
  · intro hh
    exact ⟨rfl, (h.fin hh).2⟩

theorem finalizeContext_inv {s : State} (h : Inv s) : Inv (finalizeContext s).1 := by
  unfold finalizeContext
  split; · exact h
  split
  · rename_i hall _ m hm
    have hall' : s.graphs.all (·.finalized) = true := by simpa using hall
    refine ⟨h.graphs, h.main, ?_, h.gnames, h.gnamesRange, h.nnames, h.nnamesRange, h.nannotRange, h.gannotRange, h.nodup, h.total⟩
    intro _
    refine ⟨by simp [hm], ?_⟩
    intro i g hg
    have := List.all_eq_true.1 hall' g (List.mem_of_getElem? hg)
    simpa using this
  · exact h

/-! ### mutators of one graph -/

theorem setOutput_inv {s : State} (g : Nat) (r : NRef) (h : Inv s) : Inv (setOutput s g r).1 := by
  unfold setOutput
  split; · exact h
  split; · exact h
  split; · exact h
  split; · exact h
  rename_i _ gr hgr _ hout hc hn
  have hn' : hasNode s r = true := by simpa using hn
  have hrg : r.g = g := by
    by_cases e : r.g = g
    · exact e
    · simp [e] at hc
  have hok := h.graphs g gr hgr
  refine inv_setGraph (gr' := { gr with output := some r.n }) h hgr (fun hf => hf) (Nat.le_refl _) ?_
  refine ⟨hok.id, ?_, ?_, ?_⟩
  · intro j nd hj
    exact (hok.nodes j nd hj).mono (finMono_set _ _ _ _ hgr (fun hf => hf))
  · intro o ho
    simp at ho; subst ho
    obtain ⟨x, h1, h2⟩ := hasNode_inRange hn'
    rw [hrg, hgr] at h1; cases h1; exact h2
  · intro _; rfl

theorem finalizeGraph_inv {s : State} (g : Nat) (h : Inv s) : Inv (finalizeGraph s g).1 := by
  unfold finalizeGraph
  split; · exact h
  split
  · rename_i _ gr hgr _ o ho
    have hok := h.graphs g gr hgr
    refine inv_setGraph (gr' := { gr with finalized := true }) h hgr (fun _ => rfl) (Nat.le_refl _) ?_
    refine ⟨hok.id, ?_, hok.output, ?_⟩
    · intro j nd hj
      exact (hok.nodes j nd hj).mono (finMono_set _ _ _ _ hgr (fun _ => rfl))
    · intro _; simp [ho]
  · exact h

/-! ### add_node and its roll-back -/

theorem set_self {α} (l : List α) (i : Nat) (a : α) (h : l[i]? = some a) : l.set i a = l := by
  apply List.ext_getElem?
  intro j
  rw [List.getElem?_set]
  split
  · rename_i e; subst e
    obtain ⟨hlt, hv⟩ := List.getElem?_eq_some_iff.1 h
    simp [hlt, hv]
  · rfl

theorem removeLast_push {s : State} (h : Inv s) {g : Nat} {gr : Graph} (hg : s.graphs[g]? = some gr)
    (hnf : gr.finalized = false) (nd : Node) :
    removeLastNode (setGraph s g { gr with nodes := gr.nodes ++ [nd] }) g = s := by
  have hlt : g < s.graphs.length := (List.getElem?_eq_some_iff.1 hg).1
  have hsf : s.finalized = false := by
    cases hh : s.finalized with
    | false => rfl
    | true => have := (h.fin hh).2 g gr hg; rw [hnf] at this; cases this
  have hn1 : tget s.nnames (g, gr.nodes.length) = none := by
    cases hh : tget s.nnames (g, gr.nodes.length) with
    | none => rfl
    | some nm =>
      obtain ⟨x, h1, h2⟩ := h.nnamesRange _ _ _ hh
      rw [hg] at h1; cases h1; omega
  have hn2 : tget s.nannot (g, gr.nodes.length) = none := by
    cases hh : tget s.nannot (g, gr.nodes.length) with
    | none => rfl
    | some nm =>
      obtain ⟨x, h1, h2⟩ := h.nannotRange _ _ _ hh
      rw [hg] at h1; cases h1; omega
  unfold removeLastNode
  simp only [setGraph, List.getElem?_set, hlt, if_true, hsf]
  simp [hn1, hn2, tremove_of_tget_none, set_self _ _ _ hg]
  cases s; simp_all

theorem inv_total {s : State} (h : Inv s) (n : Nat) (hn : n ≤ maxTotal) : Inv { s with total := n } :=
  ⟨h.graphs, h.main, h.fin, h.gnames, h.gnamesRange, h.nnames, h.nnamesRange, h.nannotRange,
   h.gannotRange, h.nodup, hn⟩

theorem push_inv {s : State} (h : Inv s) {g : Nat} {gr : Graph} (hg : s.graphs[g]? = some gr)
    (hnf : gr.finalized = false) (op : Nat) (deps : List NRef) (gdeps : List GRef)
    (hd : deps.all (depOk g gr.nodes.length) = true) (hgd : gdeps.all (gdepOk s g) = true) :
    Inv (setGraph s g { gr with nodes := gr.nodes ++
      [{ id := gr.nodes.length, op := op, deps := deps.map (fun d => (d.g, d.n)),
         gdeps := gdeps.map (·.g), typed := true }] }) := by
  have hok := h.graphs g gr hg
  have hlt : g < s.graphs.length := (List.getElem?_eq_some_iff.1 hg).1
  refine inv_setGraph h hg (fun hf => hf) (by simp) ?_
  have hmono := finMono_set s.graphs g gr { gr with nodes := gr.nodes ++
      [{ id := gr.nodes.length, op := op, deps := deps.map (fun d => (d.g, d.n)),
         gdeps := gdeps.map (·.g), typed := true }] } hg (fun hf => hf)
  refine ⟨hok.id, ?_, ?_, ?_⟩
  · intro j x hj
    simp only [List.getElem?_append] at hj
    split at hj
    · exact (hok.nodes j x hj).mono hmono
    · rename_i hjl
      have hj' : j = gr.nodes.length := by
        by_cases hh : j - gr.nodes.length = 0
        · omega
        · rw [List.getElem?_eq_none (by simp; omega)] at hj; cases hj
      subst hj'
      simp at hj; subst hj
      refine ⟨rfl, rfl, ?_, ?_⟩
      · intro d hdm
        simp only [List.mem_map] at hdm
        obtain ⟨r, hr, rfl⟩ := hdm
        have := List.all_eq_true.1 hd r hr
        simp [depOk] at this
        exact ⟨this.1.2, this.2⟩
      · intro gd hgm
        simp only [List.mem_map] at hgm
        obtain ⟨r, hr, rfl⟩ := hgm
        have := List.all_eq_true.1 hgd r hr
        simp only [gdepOk, Bool.and_eq_true, decide_eq_true_eq] at this
        obtain ⟨_, h2⟩ := this
        split at h2
        · rename_i cg hcg
          simp only [Bool.and_eq_true, decide_eq_true_eq] at h2
          refine ⟨h2.2, cg, ?_, h2.1⟩
          have : g ≠ r.g := by omega
          simp [List.getElem?_set, this, hcg]
        · cases h2
  · intro o ho
    have := hok.output o ho
    simp; omega
  · intro hf; simp [hnf] at hf

theorem addNodeInternal_inv {s : State} (g op : Nat) (deps : List NRef) (gdeps : List GRef)
    (tv : Bool) (sz : Option Nat) (h : Inv s) :
    Inv (addNodeInternal s g op deps gdeps tv sz).1 := by
  unfold addNodeInternal
  split; · exact h
  split; · exact h
  dsimp only
  split; · exact h
  split; · exact h
  rename_i _ gr hg hf hd hgd
  have hnf : gr.finalized = false := by simpa using hf
  have hd' : deps.all (depOk g gr.nodes.length) = true := by simpa using hd
  have hgd' : gdeps.all (gdepOk s g) = true := by simpa using hgd
  split
  · rw [removeLast_push h hg hnf]; exact h
  · rename_i htv
    have htv' : tv = true := by simpa using htv
    subst htv'
    have hp := push_inv h hg hnf op deps gdeps hd' hgd'
    split
    · exact hp
    · split
      · rw [removeLast_push h hg hnf]; exact h
      · rename_i hle
        exact inv_total hp _ (by simp only [setGraph] at hle ⊢; omega)

/-! ### failure atomicity -/

theorem createGraph_err {s : State} (he : (createGraph s).2 = .err) : (createGraph s).1 = s := by
  unfold createGraph at he ⊢
  split <;> simp_all

theorem setGraphName_err {s : State} (r : GRef) (name : Nat) (he : (setGraphName s r name).2 = .err) :
    (setGraphName s r name).1 = s := by
  unfold setGraphName at he ⊢
  repeat' split <;> simp_all

theorem setNodeName_err {s : State} (r : NRef) (name : Nat) (he : (setNodeName s r name).2 = .err) :
    (setNodeName s r name).1 = s := by
  unfold setNodeName at he ⊢
  repeat' split <;> simp_all

theorem addNodeAnnotation_err {s : State} (r : NRef) (a : Nat) (he : (addNodeAnnotation s r a).2 = .err) :
    (addNodeAnnotation s r a).1 = s := by
  unfold addNodeAnnotation at he ⊢
  repeat' split <;> simp_all

theorem addGraphAnnotation_err {s : State} (r : GRef) (a : Nat) (he : (addGraphAnnotation s r a).2 = .err) :
    (addGraphAnnotation s r a).1 = s := by
  unfold addGraphAnnotation at he ⊢
  repeat' split <;> simp_all

theorem setOutput_err {s : State} (g : Nat) (r : NRef) (he : (setOutput s g r).2 = .err) :
    (setOutput s g r).1 = s := by
  unfold setOutput at he ⊢
  repeat' split <;> simp_all

theorem finalizeGraph_err {s : State} (g : Nat) (he : (finalizeGraph s g).2 = .err) :
    (finalizeGraph s g).1 = s := by
  unfold finalizeGraph at he ⊢
  repeat' split <;> simp_all

theorem setMain_err {s : State} (r : GRef) (he : (setMain s r).2 = .err) : (setMain s r).1 = s := by
  unfold setMain at he ⊢
  repeat' split <;> simp_all

theorem finalizeContext_err {s : State} (he : (finalizeContext s).2 = .err) : (finalizeContext s).1 = s := by
  unfold finalizeContext at he ⊢
  repeat' split <;> simp_all

theorem addNodeInternal_cases {s : State} (g op : Nat) (deps : List NRef) (gdeps : List GRef)
    (tv : Bool) (sz : Option Nat) (h : Inv s) :
    addNodeInternal s g op deps gdeps tv sz = (s, .err) ∨
    ∃ s' p, addNodeInternal s g op deps gdeps tv sz = (s', .ok p) := by
  unfold addNodeInternal
  split; · exact Or.inl rfl
  split; · exact Or.inl rfl
  rename_i _ gr hg hf
  have hnf : gr.finalized = false := by simpa using hf
  dsimp only
  split; · exact Or.inl rfl
  split; · exact Or.inl rfl
  split
  · left; rw [removeLast_push h hg hnf]
  · split
    · exact Or.inr ⟨_, _, rfl⟩
    · split
      · left; rw [removeLast_push h hg hnf]
      · exact Or.inr ⟨_, _, rfl⟩

theorem addNodeInternal_err {s : State} (g op : Nat) (deps : List NRef) (gdeps : List GRef)
    (tv : Bool) (sz : Option Nat) (h : Inv s) (he : (addNodeInternal s g op deps gdeps tv sz).2 = .err) :
    (addNodeInternal s g op deps gdeps tv sz).1 = s := by
  rcases addNodeInternal_cases g op deps gdeps tv sz h with h1 | ⟨s', p, h1⟩
  · rw [h1]
  · rw [h1] at he; cases he

end CCV.Context
