import CCV.Model.Join
namespace CCV.Join

theorem hasEmpty_eq_not_live (ks : List Nat) (r : Row) : hasEmpty ks r = !live ks r := by
  unfold hasEmpty live
  cases r.null <;> simp [List.any_eq_not_all_not]

theorem lookup_insertKey (m : List (List Int × Row)) (k' k : List Int) (r : Row) :
    lookup (insertKey m k' r) k = if k' = k then some r else lookup m k := by
  induction m with
  | nil => simp [insertKey, lookup]
  | cons p t ih =>
    obtain ⟨k'', r''⟩ := p
    simp only [insertKey]
    split <;> simp [lookup, *] <;> grind

@[simp] theorem findMatch_nil (ks : List Nat) (k : List Int) : findMatch ks [] k = none := rfl

theorem findMatch_cons (ks : List Nat) (r : Row) (T : Table) (k : List Int) :
    findMatch ks (r :: T) k =
      if live ks r = true ∧ rowKey ks r = k then some r else findMatch ks T k := by
  simp [findMatch, List.find?_cons]
  split <;> simp_all

@[simp] theorem liveKeys_nil (ks : List Nat) : liveKeys ks [] = [] := rfl

theorem liveKeys_cons (ks : List Nat) (r : Row) (T : Table) :
    liveKeys ks (r :: T) = if live ks r then rowKey ks r :: liveKeys ks T else liveKeys ks T := by
  simp [liveKeys, List.filter_cons]; split <;> simp

theorem liveKeys_append (ks : List Nat) (S T : Table) :
    liveKeys ks (S ++ T) = liveKeys ks S ++ liveKeys ks T := by
  simp [liveKeys]

theorem mem_liveKeys {ks : List Nat} {T : Table} {k : List Int} :
    k ∈ liveKeys ks T ↔ ∃ r ∈ T, live ks r = true ∧ rowKey ks r = k := by
  simp [liveKeys, and_assoc]

theorem findMatch_eq_none_iff {ks : List Nat} {T : Table} {k : List Int} :
    findMatch ks T k = none ↔ k ∉ liveKeys ks T := by
  simp [findMatch, mem_liveKeys]

theorem findMatch_some {ks : List Nat} {T : Table} {k : List Int} {r : Row}
    (h : findMatch ks T k = some r) : r ∈ T ∧ live ks r = true ∧ rowKey ks r = k := by
  unfold findMatch at h
  have h1 := List.mem_of_find?_eq_some h
  have h2 := List.find?_some h
  simp at h2
  exact ⟨h1, h2⟩

/-- one insertion step of `get_hashmap_from_key_columns` -/
def buildStep (ks : List Nat) (m : List (List Int × Row)) (r : Row) : List (List Int × Row) :=
  if hasEmpty ks r then m else insertKey m (rowKey ks r) r

theorem buildMap_eq (ks : List Nat) (B : Table) : buildMap ks B = B.foldl (buildStep ks) [] := rfl

theorem lookup_foldl (ks : List Nat) (k : List Int) (B : Table) :
    ∀ m : List (List Int × Row),
      (∀ r ∈ B, live ks r = true → lookup m (rowKey ks r) = none) → UniqueLive ks B →
      lookup (B.foldl (buildStep ks) m) k = (lookup m k).or (findMatch ks B k) := by
  induction B with
  | nil => intro m _ _; simp
  | cons r B ih =>
    intro m hm hu
    simp only [List.foldl_cons]
    unfold UniqueLive at hu
    rw [liveKeys_cons] at hu
    cases hl : live ks r
    · simp only [hl] at hu
      have hs : buildStep ks m r = m := by simp [buildStep, hasEmpty_eq_not_live, hl]
      rw [hs, ih m (fun r' hr' => hm r' (List.mem_cons_of_mem _ hr')) hu, findMatch_cons]
      simp [hl]
    · simp only [hl, if_true, List.nodup_cons] at hu
      have hmr := hm r (List.mem_cons_self) hl
      have hs : buildStep ks m r = insertKey m (rowKey ks r) r := by
        simp [buildStep, hasEmpty_eq_not_live, hl]
      rw [hs, ih _ ?_ hu.2, findMatch_cons, lookup_insertKey]
      · by_cases hk : rowKey ks r = k
        · subst hk; simp [hl, hmr]
        · simp [hk]
      · intro r' hr' hl'
        rw [lookup_insertKey]
        have : rowKey ks r ≠ rowKey ks r' := by
          intro e; apply hu.1; rw [e]; exact mem_liveKeys.2 ⟨r', hr', hl', rfl⟩
        simp [this]; exact hm r' (List.mem_cons_of_mem _ hr') hl'

/-- **key lemma**: with unique live keys the hash map finds the first live row with that key -/
theorem lookup_buildMap (ks : List Nat) (B : Table) (k : List Int) (h : UniqueLive ks B) :
    lookup (buildMap ks B) k = findMatch ks B k := by
  rw [buildMap_eq, lookup_foldl ks k B [] (fun _ _ _ => rfl) h]
  simp [lookup]


theorem live_null {ks : List Nat} {r : Row} (h : live ks r = true) : r.null = true := by
  simp [live] at h; exact h.1

theorem matchOf_of_not_live {P : Plan} {a : Row} (B : Table) (h : live P.k0 a = false) :
    matchOf P B a = none := by simp [matchOf, h]

theorem matchOf_of_live {P : Plan} {a : Row} (B : Table) (h : live P.k0 a = true) :
    matchOf P B a = findMatch P.k1 B (rowKey P.k0 a) := by simp [matchOf, h]

theorem impl_eq_spec_inner (P : Plan) (A B : Table) (h : UniqueLive P.k1 B) :
    implInner P A B = specInner P A B := by
  unfold implInner specInner
  apply List.map_congr_left
  intro a _
  simp only [hasEmpty_eq_not_live, lookup_buildMap _ _ _ h]
  cases hl : live P.k0 a
  · simp [matchOf_of_not_live B hl]
  · have hn := live_null hl
    rw [matchOf_of_live B hl]
    cases findMatch P.k1 B (rowKey P.k0 a) <;> simp [merged, hn]

theorem impl_eq_spec_left (P : Plan) (A B : Table) (h : UniqueLive P.k1 B) :
    implLeft P A B = specLeft P A B := by
  unfold implLeft specLeft
  apply List.map_congr_left
  intro a _
  simp only [hasEmpty_eq_not_live, lookup_buildMap _ _ _ h]
  cases hn : a.null
  · simp
  · cases hl : live P.k0 a
    · simp [matchOf_of_not_live B hl, padded]
    · rw [matchOf_of_live B hl]
      cases findMatch P.k1 B (rowKey P.k0 a) <;> simp [merged, padded]

theorem impl_eq_spec_unionG (P : Plan) (s : Bool) (A B : Table) (h : UniqueLive P.k1 B) :
    implUnionG P s A B = specUnionG P s A B := by
  unfold implUnionG specUnionG notInInner
  dsimp only
  congr 1
  · apply List.map_congr_left
    intro a _
    simp only [hasEmpty_eq_not_live, lookup_buildMap _ _ _ h]
    cases hn : a.null
    · simp
    · cases hl : live P.k0 a
      · simp [matchOf_of_not_live B hl, padded]
      · rw [matchOf_of_live B hl]
        cases findMatch P.k1 B (rowKey P.k0 a) <;> simp [padded]
  · apply List.map_congr_left
    intro b _
    cases b.null <;> simp

/-! ### row counts -/

theorem spec_length (t : JoinType) (P : Plan) (A B : Table) :
    (spec t P A B).length = inferredRows t A.length B.length := by
  cases t <;> simp [spec, specInner, specLeft, specUnion, specUnionG, specFull, notInInner, inferredRows]

theorem impl_length (t : JoinType) (P : Plan) (A B : Table) :
    (impl t P A B).length = inferredRows t A.length B.length := by
  cases t <;> simp [impl, implInner, implLeft, implUnion, implUnionG, implFull, inferredRows]

/-! ### null flags -/
@[simp] theorem zeroRow_null (ws : List Nat) : (zeroRow ws).null = false := rfl
@[simp] theorem merged_null (P : Plan) (a b : Row) : (merged P a b).null = true := rfl
@[simp] theorem padded_null (P : Plan) (a : Row) : (padded P a).null = true := rfl
@[simp] theorem liftRow_null (P : Plan) (s : Bool) (b : Row) : (liftRow P s b).null = true := rfl
@[simp] theorem mergedB_null (P : Plan) (b : Row) (a : Option Row) : (mergedB P b a).null = true := rfl

@[simp] theorem live_zeroRow (ks ws : List Nat) : live ks (zeroRow ws) = false := by simp [live]


/-! ### cells -/

@[simp] theorem copyCell_mask (w : Nat) (c : Cell) : (copyCell w c).mask = c.mask := by
  unfold copyCell; split <;> simp_all [zeroCell]

theorem copyCell_of_mask {w : Nat} {c : Cell} (h : c.mask = true) : copyCell w c = c := by
  simp [copyCell, h]

@[simp] theorem copyCell_zeroCell (w w' : Nat) : copyCell w (zeroCell w') = zeroCell w := by
  simp [copyCell, zeroCell]

@[simp] theorem copyCell_copyCell (w w' : Nat) (c : Cell) :
    copyCell w (copyCell w' c) = copyCell w c := by
  cases h : c.mask
  · simp [copyCell, h, zeroCell]
  · simp [copyCell_of_mask h]

theorem wf_length {ws : List Nat} {T : Table} (h : WellFormed ws T) {r : Row} (hr : r ∈ T) :
    r.cells.length = ws.length := by
  have := congrArg List.length (h r hr)
  simpa using this

theorem cellAt_copyRow_append (ws : List Nat) (a : Row) (n : Bool) (X : List Cell) (j : Nat)
    (h1 : j < ws.length) (h2 : j < a.cells.length) :
    cellAt ⟨n, copyRow ws a ++ X⟩ j = copyCell (widthAt ws j) (cellAt a j) := by
  have hl : j < (List.zipWith copyCell ws a.cells).length := by simp; omega
  simp [cellAt, copyRow, widthAt, List.getD_eq_getElem?_getD, List.getElem?_append_left hl,
    List.getElem?_zipWith, h1, h2]

theorem cellAt_copyRow_append_right (ws : List Nat) (a : Row) (n : Bool) (X : List Cell) (i : Nat)
    (h : a.cells.length = ws.length) :
    cellAt ⟨n, copyRow ws a ++ X⟩ (i + ws.length) = X.getD i ⟨false, []⟩ := by
  have hl : (List.zipWith copyCell ws a.cells).length ≤ i + ws.length := by simp; omega
  simp [cellAt, copyRow, List.getD_eq_getElem?_getD, List.getElem?_append_right hl, h]

theorem cellAt_rangeMap_append (n : Bool) (m : Nat) (F : Nat → Cell) (X : List Cell) (j : Nat)
    (h : j < m) : cellAt ⟨n, (List.range m).map F ++ X⟩ j = F j := by
  have hl : j < ((List.range m).map F).length := by simpa using h
  simp [cellAt, List.getD_eq_getElem?_getD, List.getElem?_append_left hl, h]

/-! ### `posOf` -/

theorem posOf_eq_none_iff {j : Nat} {ks : List Nat} : posOf j ks = none ↔ j ∉ ks := by
  induction ks with
  | nil => simp [posOf]
  | cons k ks ih =>
    simp only [posOf]
    split
    · simp_all
    · simp [ih]; omega

theorem posOf_some {j i : Nat} {ks : List Nat} (h : posOf j ks = some i) :
    ∃ h : i < ks.length, ks[i] = j := by
  induction ks generalizing i with
  | nil => simp [posOf] at h
  | cons k ks ih =>
    simp only [posOf] at h
    split at h
    · cases h; simp_all
    · cases hp : posOf j ks with
      | none => simp [hp] at h
      | some i' =>
        simp [hp] at h; subst h
        obtain ⟨h1, h2⟩ := ih hp
        exact ⟨by simpa using h1, by simpa using h2⟩

theorem posOf_getElem {ks : List Nat} (hnd : ks.Nodup) {i : Nat} (h : i < ks.length) :
    posOf ks[i] ks = some i := by
  induction ks generalizing i with
  | nil => simp at h
  | cons k ks ih =>
    rw [List.nodup_cons] at hnd
    cases i with
    | zero => simp [posOf]
    | succ i =>
      have hi : i < ks.length := by simpa using h
      have hne : k ≠ ks[i] := by
        intro e; apply hnd.1; rw [e]; exact List.getElem_mem hi
      simp [posOf, hne, ih hnd.2 hi]

/-! ### key correspondence -/

theorem keyCells_aux (r r' : Row) : ∀ (ks ks' : List Nat), ks.length = ks'.length →
    (∀ i (h : i < ks.length) (h' : i < ks'.length),
        ∃ w, cellAt r ks[i] = copyCell w (cellAt r' ks'[i])) →
    ks.all (fun j => (cellAt r j).mask) = ks'.all (fun j => (cellAt r' j).mask) ∧
    (ks'.all (fun j => (cellAt r' j).mask) = true →
      ks.flatMap (fun j => (cellAt r j).data) = ks'.flatMap (fun j => (cellAt r' j).data))
  | [], [], _, _ => by simp
  | [], _ :: _, h, _ => by simp at h
  | _ :: _, [], h, _ => by simp at h
  | j :: ks, j' :: ks', h, hc => by
    obtain ⟨w, hw⟩ := hc 0 (by simp) (by simp)
    simp only [List.getElem_cons_zero] at hw
    have ih := keyCells_aux r r' ks ks' (by simpa using h) (fun i hi hi' => by
      have := hc (i+1) (by simpa using hi) (by simpa using hi')
      simp only [List.getElem_cons_succ] at this
      exact this)
    refine ⟨by simp [hw, ih.1], ?_⟩
    intro hall
    simp only [List.all_cons, Bool.and_eq_true] at hall
    simp only [List.flatMap_cons]
    rw [ih.2 hall.2, hw, copyCell_of_mask hall.1]

/-- rows whose key cells are copies (`copyCell`) of the key cells of another row have the same
    liveness and, when live, the same row key -/
theorem live_rowKey_of_cells (ks ks' : List Nat) (r r' : Row) (hn : r.null = r'.null)
    (hlen : ks.length = ks'.length)
    (hc : ∀ i (h : i < ks.length) (h' : i < ks'.length),
        ∃ w, cellAt r ks[i] = copyCell w (cellAt r' ks'[i])) :
    live ks r = live ks' r' ∧ (live ks' r' = true → rowKey ks r = rowKey ks' r') := by
  have := keyCells_aux r r' ks ks' hlen hc
  refine ⟨by simp [live, hn, this.1], ?_⟩
  intro hl
  simp only [live, Bool.and_eq_true] at hl
  exact this.2 hl.2

/-- (K1) a result row that starts with the copied columns of `a` is live at `k0` iff `a` is, with
    the same key -/
theorem live_rowKey_copyRow (ks ws : List Nat) (a : Row) (X : List Cell)
    (hk : ∀ j ∈ ks, j < ws.length) (ha : a.cells.length = ws.length) (hn : a.null = true) :
    live ks ⟨true, copyRow ws a ++ X⟩ = live ks a ∧
      (live ks a = true → rowKey ks ⟨true, copyRow ws a ++ X⟩ = rowKey ks a) := by
  apply live_rowKey_of_cells ks ks _ a (by simp [hn]) rfl
  intro i h _
  have := hk ks[i] (List.getElem_mem h)
  exact ⟨_, cellAt_copyRow_append ws a true X ks[i] this (by omega)⟩

/-- (K2) a result row made from a row `b` of the second table (key columns taken from the paired
    key columns of `b`) is live at `k0` iff `b` is live at `k1`, with the same key -/
theorem live_rowKey_fromB (P : Plan) (hP : P.ok) (b : Row) (F : Nat → Cell) (X : List Cell)
    (hF : ∀ j i, posOf j P.k0 = some i →
      F j = copyCell (widthAt P.w0 j) (cellAt b (P.k1.getD i 0)))
    (hn : b.null = true) :
    live P.k0 ⟨true, (List.range P.w0.length).map F ++ X⟩ = live P.k1 b ∧
      (live P.k1 b = true →
        rowKey P.k0 ⟨true, (List.range P.w0.length).map F ++ X⟩ = rowKey P.k1 b) := by
  obtain ⟨hlen, h0, _, hnd⟩ := hP
  apply live_rowKey_of_cells P.k0 P.k1 _ b (by simp [hn]) hlen
  intro i h h'
  have hj := h0 P.k0[i] (List.getElem_mem h)
  refine ⟨widthAt P.w0 P.k0[i], ?_⟩
  rw [cellAt_rangeMap_append _ _ _ _ _ hj, hF _ i (posOf_getElem hnd h)]
  simp [List.getD_eq_getElem?_getD, h']


/-! ### live keys and matches under a row-wise map -/

theorem liveKeys_map_sublist (ks : List Nat) (g : Row → Row) (A : Table)
    (h : ∀ a ∈ A, live ks (g a) = true → live ks a = true ∧ rowKey ks (g a) = rowKey ks a) :
    (liveKeys ks (A.map g)).Sublist (liveKeys ks A) := by
  induction A with
  | nil => simp
  | cons a A ih =>
    have ih' := ih (fun a' ha' => h a' (List.mem_cons_of_mem _ ha'))
    have ha := h a List.mem_cons_self
    rw [List.map_cons, liveKeys_cons, liveKeys_cons]
    cases hg : live ks (g a)
    · cases hl : live ks a
      · simpa using ih'
      · simpa using ih'.trans (List.sublist_cons_self _ _)
    · obtain ⟨h1, h2⟩ := ha hg
      simp [h1, h2, ih']

theorem liveKeys_map_eq (ks ks' : List Nat) (g : Row → Row) (T : Table)
    (h : ∀ r ∈ T, live ks (g r) = live ks' r ∧
      (live ks' r = true → rowKey ks (g r) = rowKey ks' r)) :
    liveKeys ks (T.map g) = liveKeys ks' T := by
  induction T with
  | nil => simp
  | cons r T ih =>
    have ih' := ih (fun a' ha' => h a' (List.mem_cons_of_mem _ ha'))
    obtain ⟨h1, h2⟩ := h r List.mem_cons_self
    rw [List.map_cons, liveKeys_cons, liveKeys_cons, h1, ih']
    cases hl : live ks' r
    · simp
    · simp [h2 hl]

theorem findMatch_map (ks ks' : List Nat) (g : Row → Row) (T : Table) (k : List Int)
    (h : ∀ r ∈ T, live ks (g r) = live ks' r ∧
      (live ks' r = true → rowKey ks (g r) = rowKey ks' r)) :
    findMatch ks (T.map g) k = (findMatch ks' T k).map g := by
  induction T with
  | nil => simp
  | cons r T ih =>
    have ih' := ih (fun a' ha' => h a' (List.mem_cons_of_mem _ ha'))
    obtain ⟨h1, h2⟩ := h r List.mem_cons_self
    rw [List.map_cons, findMatch_cons, findMatch_cons, h1, ih']
    cases hl : live ks' r
    · simp
    · simp [h2 hl]; split <;> simp

/-! ### the rows of the left join -/

/-- one row of `specLeft` -/
def leftRow (P : Plan) (B : Table) (a : Row) : Row :=
  if a.null then
    match matchOf P B a with
    | some b => merged P a b
    | none => padded P a
  else zeroRow (resW P)

theorem specLeft_eq_map (P : Plan) (A B : Table) : specLeft P A B = A.map (leftRow P B) := rfl

theorem leftRow_key (P : Plan) (B : Table) (a : Row) (hk : ∀ j ∈ P.k0, j < P.w0.length)
    (ha : a.cells.length = P.w0.length) :
    live P.k0 (leftRow P B a) = live P.k0 a ∧
      (live P.k0 a = true → rowKey P.k0 (leftRow P B a) = rowKey P.k0 a) := by
  unfold leftRow
  cases hn : a.null
  · simp [live, hn]
  · cases matchOf P B a with
    | none => simpa [padded] using live_rowKey_copyRow P.k0 P.w0 a (zerosExtra P) hk ha hn
    | some b => simpa [merged] using live_rowKey_copyRow P.k0 P.w0 a (copyNonkey P b) hk ha hn

theorem liveKeys_specLeft (P : Plan) (A B : Table) (hk : ∀ j ∈ P.k0, j < P.w0.length)
    (hA : WellFormed P.w0 A) : liveKeys P.k0 (specLeft P A B) = liveKeys P.k0 A := by
  rw [specLeft_eq_map]
  exact liveKeys_map_eq _ _ _ _ (fun a ha => leftRow_key P B a hk (wf_length hA ha))

theorem findMatch_specLeft (P : Plan) (A B : Table) (k : List Int)
    (hk : ∀ j ∈ P.k0, j < P.w0.length) (hA : WellFormed P.w0 A) :
    findMatch P.k0 (specLeft P A B) k = (findMatch P.k0 A k).map (leftRow P B) := by
  rw [specLeft_eq_map]
  exact findMatch_map _ _ _ _ _ (fun a ha => leftRow_key P B a hk (wf_length hA ha))

theorem uniqueLive_specLeft (P : Plan) (A B : Table) (hk : ∀ j ∈ P.k0, j < P.w0.length)
    (hA : WellFormed P.w0 A) (hu : UniqueLive P.k0 A) : UniqueLive P.k0 (specLeft P A B) := by
  unfold UniqueLive; rw [liveKeys_specLeft P A B hk hA]; exact hu

theorem uniqueLive_specInner (P : Plan) (A B : Table) (hk : ∀ j ∈ P.k0, j < P.w0.length)
    (hA : WellFormed P.w0 A) (hu : UniqueLive P.k0 A) : UniqueLive P.k0 (specInner P A B) := by
  unfold UniqueLive specInner
  refine List.Sublist.nodup (liveKeys_map_sublist P.k0 _ A ?_) hu
  intro a ha
  cases hm : matchOf P B a with
  | none => simp
  | some b =>
    have hl : live P.k0 a = true := by
      cases hl : live P.k0 a
      · simp [matchOf_of_not_live B hl] at hm
      · rfl
    have := live_rowKey_copyRow P.k0 P.w0 a (copyNonkey P b) hk (wf_length hA ha) (live_null hl)
    simp only [merged]
    intro _
    exact ⟨hl, this.2 hl⟩

/-! ### the first part of union / full join -/

theorem mem_liveKeys_notInInner (P : Plan) (A B : Table) (hk : ∀ j ∈ P.k0, j < P.w0.length)
    (hA : WellFormed P.w0 A) {k : List Int} (h : k ∈ liveKeys P.k0 (notInInner P A B)) :
    k ∈ liveKeys P.k0 A ∧ k ∉ liveKeys P.k1 B := by
  obtain ⟨r, hr, hl, hkk⟩ := mem_liveKeys.1 h
  unfold notInInner at hr
  obtain ⟨a, ha, rfl⟩ := List.mem_map.1 hr
  split at hl
  · rename_i hc
    simp only [Bool.and_eq_true, Option.isNone_iff_eq_none] at hc
    have hc' := hc
    simp only [hc', Bool.and_self, Option.isNone_none, if_true] at hkk
    have key := live_rowKey_copyRow P.k0 P.w0 a (zerosExtra P) hk (wf_length hA ha) hc.1
    simp only [padded] at hl hkk
    rw [key.1] at hl
    rw [key.2 hl] at hkk
    subst hkk
    refine ⟨mem_liveKeys.2 ⟨a, ha, hl, rfl⟩, ?_⟩
    have := hc.2
    rw [matchOf_of_live B hl] at this
    exact findMatch_eq_none_iff.1 this
  · simp at hl

theorem uniqueLive_notInInner (P : Plan) (A B : Table) (hk : ∀ j ∈ P.k0, j < P.w0.length)
    (hA : WellFormed P.w0 A) (hu : UniqueLive P.k0 A) : UniqueLive P.k0 (notInInner P A B) := by
  unfold UniqueLive notInInner
  refine List.Sublist.nodup (liveKeys_map_sublist P.k0 _ A ?_) hu
  intro a ha
  split
  · rename_i hc
    simp only [Bool.and_eq_true] at hc
    have key := live_rowKey_copyRow P.k0 P.w0 a (zerosExtra P) hk (wf_length hA ha) hc.1
    simp only [padded]
    intro hl
    rw [key.1] at hl
    exact ⟨hl, key.2 hl⟩
  · simp

/-- shape shared by union and full join: the part of `A` outside the inner join, then one row per
    row of the second table carrying that row's key -/
theorem uniqueLive_notInInner_append (P : Plan) (A B : Table) (g : Row → Row)
    (hk : ∀ j ∈ P.k0, j < P.w0.length) (hA : WellFormed P.w0 A)
    (hg : ∀ b ∈ B, live P.k0 (g b) = live P.k1 b ∧
      (live P.k1 b = true → rowKey P.k0 (g b) = rowKey P.k1 b))
    (hu0 : UniqueLive P.k0 A) (hu1 : UniqueLive P.k1 B) :
    UniqueLive P.k0 (notInInner P A B ++ B.map g) := by
  unfold UniqueLive
  rw [liveKeys_append, liveKeys_map_eq P.k0 P.k1 g B hg, List.nodup_append]
  refine ⟨uniqueLive_notInInner P A B hk hA hu0, hu1, ?_⟩
  intro k h1 k' h2 e
  subst e
  exact (mem_liveKeys_notInInner P A B hk hA h1).2 h2

theorem liftRow_key (P : Plan) (hP : P.ok) (s : Bool) (b : Row) :
    live P.k0 (if b.null then liftRow P s b else zeroRow (resW P)) = live P.k1 b ∧
      (live P.k1 b = true →
        rowKey P.k0 (if b.null then liftRow P s b else zeroRow (resW P)) = rowKey P.k1 b) := by
  cases hn : b.null
  · simp [live, hn]
  · simp only [if_true, liftRow]
    apply live_rowKey_fromB P hP b _ _ _ hn
    intro j i hp
    simp [src0, hp]

theorem mergedB_key (P : Plan) (hP : P.ok) (oa : Row → Option Row) (b : Row) :
    live P.k0 (if b.null then mergedB P b (oa b) else zeroRow (resW P)) = live P.k1 b ∧
      (live P.k1 b = true →
        rowKey P.k0 (if b.null then mergedB P b (oa b) else zeroRow (resW P)) = rowKey P.k1 b) := by
  cases hn : b.null
  · simp [live, hn]
  · simp only [if_true, mergedB]
    apply live_rowKey_fromB P hP b _ _ _ hn
    intro j i hp
    simp [hp]

theorem uniqueLive_specUnionG (P : Plan) (s : Bool) (A B : Table) (hP : P.ok)
    (hA : WellFormed P.w0 A) (hu0 : UniqueLive P.k0 A) (hu1 : UniqueLive P.k1 B) :
    UniqueLive P.k0 (specUnionG P s A B) :=
  uniqueLive_notInInner_append P A B _ hP.2.1 hA (fun b _ => liftRow_key P hP s b) hu0 hu1

theorem uniqueLive_specFull (P : Plan) (A B : Table) (hP : P.ok)
    (hA : WellFormed P.w0 A) (hu0 : UniqueLive P.k0 A) (hu1 : UniqueLive P.k1 B) :
    UniqueLive P.k0 (specFull P A B) :=
  uniqueLive_notInInner_append P A B _ hP.2.1 hA
    (fun b _ => mergedB_key P hP (matchOf P.swap A) b) hu0 hu1


/-! ### full join = union (shared form) of `a` and `left(b, a)` -/

theorem mem_nonkey {ks ws : List Nat} {j : Nat} : j ∈ nonkey ks ws ↔ j < ws.length ∧ j ∉ ks := by
  simp [nonkey]

theorem copyNonkey_copyRow (P : Plan) (b : Row) (X : List Cell) (hb : b.cells.length = P.w1.length) :
    copyNonkey P ⟨true, copyRow P.w1 b ++ X⟩ = copyNonkey P b := by
  unfold copyNonkey
  apply List.map_congr_left
  intro j hj
  have hj' := (mem_nonkey.1 hj).1
  rw [cellAt_copyRow_append P.w1 b true X j hj' (by omega), copyCell_copyCell]

/-- the columns that `left(b, a)` appends behind the columns of `b` -/
def leftExtra (P : Plan) : Option Row → List Cell
  | some a => copyNonkey P.swap a
  | none => zerosExtra P.swap

theorem leftExtra_getD (P : Plan) (oa : Option Row) (i : Nat) (h : i < (nonkey P.k0 P.w0).length) :
    (leftExtra P oa).getD i ⟨false, []⟩ =
      match oa with
      | some a => copyCell (widthAt P.w0 (nonkey P.k0 P.w0)[i]) (cellAt a (nonkey P.k0 P.w0)[i])
      | none => zeroCell (widthAt P.w0 (nonkey P.k0 P.w0)[i]) := by
  cases oa <;>
    simp [leftExtra, copyNonkey, zerosExtra, extraW, Plan.swap, List.getD_eq_getElem?_getD, h]

theorem liftRow_left_eq (P : Plan) (hP : P.ok) (b : Row) (hb : b.cells.length = P.w1.length)
    (oa : Option Row) :
    liftRow P true ⟨true, copyRow P.w1 b ++ leftExtra P oa⟩ = mergedB P b oa := by
  obtain ⟨hlen, h0, h1, hnd⟩ := hP
  unfold liftRow mergedB
  rw [copyNonkey_copyRow P b _ hb]
  congr 2
  apply List.map_congr_left
  intro j hj
  have hj' : j < P.w0.length := by simpa using hj
  cases hp : posOf j P.k0 with
  | some i =>
    obtain ⟨hi, _⟩ := posOf_some hp
    have hi' : i < P.k1.length := by omega
    have hpw := h1 P.k1[i] (List.getElem_mem hi')
    have hg : P.k1.getD i 0 = P.k1[i] := by simp [List.getD_eq_getElem?_getD, hi']
    simp only [src0, hp, hg]
    rw [cellAt_copyRow_append P.w1 b true _ _ hpw (by omega), copyCell_copyCell]
  | none =>
    have hnk : j ∈ nonkey P.k0 P.w0 := mem_nonkey.2 ⟨hj', posOf_eq_none_iff.1 hp⟩
    cases hq : posOf j (nonkey P.k0 P.w0) with
    | none => exact absurd hnk (posOf_eq_none_iff.1 hq)
    | some i =>
      obtain ⟨hi, hij⟩ := posOf_some hq
      simp only [src0, hp, hq, if_true, Option.map_some]
      rw [cellAt_copyRow_append_right P.w1 b true _ i hb, leftExtra_getD P oa i hi, hij]
      cases oa <;> simp

theorem leftRow_swap_eq (P : Plan) (A : Table) (b : Row) (hn : b.null = true) :
    leftRow P.swap A b = ⟨true, copyRow P.w1 b ++ leftExtra P (matchOf P.swap A b)⟩ := by
  unfold leftRow
  simp only [hn, if_true]
  cases matchOf P.swap A b <;> simp [merged, padded, leftExtra, Plan.swap]

theorem notInInner_specLeft_swap (P : Plan) (A B : Table) (h1 : ∀ j ∈ P.k1, j < P.w1.length)
    (hB : WellFormed P.w1 B) :
    notInInner P A (specLeft P.swap B A) = notInInner P A B := by
  unfold notInInner
  apply List.map_congr_left
  intro a _
  have : (matchOf P (specLeft P.swap B A) a).isNone = (matchOf P B a).isNone := by
    cases hl : live P.k0 a
    · simp [matchOf_of_not_live _ hl]
    · rw [matchOf_of_live _ hl, matchOf_of_live _ hl]
      have := findMatch_specLeft P.swap B A (rowKey P.k0 a) h1 hB
      simp only [Plan.swap] at this
      simp only [Plan.swap]
      rw [this]; simp
  rw [this]

theorem full_eq_union_left (P : Plan) (A B : Table) (hP : P.ok) (hB : WellFormed P.w1 B) :
    specFull P A B = specUnionG P true A (specLeft P.swap B A) := by
  unfold specFull specUnionG
  rw [notInInner_specLeft_swap P A B hP.2.2.1 hB]
  congr 1
  rw [specLeft_eq_map, List.map_map]
  apply List.map_congr_left
  intro b hb
  simp only [Function.comp]
  cases hn : b.null
  · simp [leftRow, hn]
  · rw [leftRow_swap_eq P A b hn]
    simp only [if_true]
    exact (liftRow_left_eq P hP b (wf_length hB hb) _).symm

theorem impl_eq_spec_full (P : Plan) (A B : Table) (hP : P.ok) (hB : WellFormed P.w1 B)
    (hu0 : UniqueLive P.k0 A) (hu1 : UniqueLive P.k1 B) : implFull P A B = specFull P A B := by
  unfold implFull
  rw [impl_eq_spec_left P.swap B A hu0, full_eq_union_left P A B hP hB]
  apply impl_eq_spec_unionG
  exact uniqueLive_specLeft P.swap B A hP.2.2.1 hB hu1


/-! ### structural facts about the specification -/

theorem findMatch_filter_live (ks : List Nat) (T : Table) (k : List Int) :
    findMatch ks (T.filter (live ks)) k = findMatch ks T k := by
  induction T with
  | nil => rfl
  | cons r T ih =>
    rw [List.filter_cons]
    cases hl : live ks r
    · simp [findMatch_cons, hl, ih]
    · simp [findMatch_cons, hl, ih]

theorem matchOf_filter_live (P : Plan) (B : Table) (a : Row) :
    matchOf P (B.filter (live P.k1)) a = matchOf P B a := by
  simp [matchOf, findMatch_filter_live]

theorem specInner_filter_live (P : Plan) (A B : Table) :
    specInner P A (B.filter (live P.k1)) = specInner P A B := by
  simp [specInner, matchOf_filter_live]

theorem specLeft_filter_live (P : Plan) (A B : Table) :
    specLeft P A (B.filter (live P.k1)) = specLeft P A B := by
  simp [specLeft, matchOf_filter_live]

theorem notInInner_filter_live (P : Plan) (A B : Table) :
    notInInner P A (B.filter (live P.k1)) = notInInner P A B := by
  simp [notInInner, matchOf_filter_live]

theorem specInner_cons (P : Plan) (a : Row) (A B : Table) :
    specInner P (a :: A) B =
      (match matchOf P B a with | some b => merged P a b | none => zeroRow (resW P))
        :: specInner P A B := rfl

theorem notInInner_cons (P : Plan) (a : Row) (A B : Table) :
    notInInner P (a :: A) B =
      (if a.null && (matchOf P B a).isNone then padded P a else zeroRow (resW P))
        :: notInInner P A B := rfl

theorem specInner_filter_null (P : Plan) (A B : Table) :
    (specInner P A B).filter (·.null) = A.filterMap (fun a => (matchOf P B a).map (merged P a)) := by
  induction A with
  | nil => rfl
  | cons a A ih =>
    rw [specInner_cons, List.filter_cons, List.filterMap_cons]
    cases matchOf P B a with
    | none => simpa using ih
    | some b => simpa using ih

theorem specInner_map_null (P : Plan) (A B : Table) :
    (specInner P A B).map (·.null) = A.map (fun a => (matchOf P B a).isSome) := by
  simp only [specInner, List.map_map]
  apply List.map_congr_left
  intro a _
  simp only [Function.comp]
  cases matchOf P B a <;> simp

theorem specLeft_map_null (P : Plan) (A B : Table) :
    (specLeft P A B).map (·.null) = A.map (·.null) := by
  simp only [specLeft, List.map_map]
  apply List.map_congr_left
  intro a _
  simp only [Function.comp]
  cases hn : a.null
  · simp
  · cases matchOf P B a <;> simp

theorem specLeft_getElem? (P : Plan) (A B : Table) (i : Nat) :
    (specLeft P A B)[i]? = A[i]?.map (fun a =>
      if a.null then
        (⟨true, copyRow P.w0 a ++
          (match matchOf P B a with | some b => copyNonkey P b | none => zerosExtra P)⟩ : Row)
      else zeroRow (resW P)) := by
  simp only [specLeft, List.getElem?_map]
  cases A[i]? with
  | none => rfl
  | some a =>
    simp only [Option.map_some]
    cases a.null
    · simp
    · cases matchOf P B a <;> simp [merged, padded]

theorem notInInner_filter_null (P : Plan) (A B : Table) :
    (notInInner P A B).filter (·.null) =
      (A.filter (fun a => a.null && (matchOf P B a).isNone)).map (padded P) := by
  induction A with
  | nil => rfl
  | cons a A ih =>
    rw [notInInner_cons, List.filter_cons, List.filter_cons]
    cases hc : (a.null && (matchOf P B a).isNone)
    · simpa using ih
    · simpa using ih

theorem notInInner_getElem?_matched (P : Plan) (A B : Table) (i : Nat) (a b : Row)
    (ha : A[i]? = some a) (hm : matchOf P B a = some b) :
    (notInInner P A B)[i]? = some (zeroRow (resW P)) := by
  simp [notInInner, List.getElem?_map, ha, hm]


/-! ### example tables (non-vacuity instances of `CCV.C19`)

  first table: key column 0 (1 element), data column (2 elements);
  second table: data column (1 element), key column 1 (1 element).
  `exA`: key 1, a null row, a row whose key is masked (same key data 1), key 3 with masked data.
  `exB`: key 1 (overlap), a null row with key 1, key 5, a row whose key 3 is masked. -/

def exP : Plan := ⟨[0], [1], [1, 2], [1, 1]⟩

def exA : Table :=
  [⟨true, [⟨true, [1]⟩, ⟨true, [10, 11]⟩]⟩,
   ⟨false, [⟨true, [2]⟩, ⟨true, [20, 21]⟩]⟩,
   ⟨true, [⟨false, [1]⟩, ⟨true, [30, 31]⟩]⟩,
   ⟨true, [⟨true, [3]⟩, ⟨false, [40, 41]⟩]⟩]

def exB : Table :=
  [⟨true, [⟨true, [7]⟩, ⟨true, [1]⟩]⟩,
   ⟨false, [⟨true, [8]⟩, ⟨true, [1]⟩]⟩,
   ⟨true, [⟨true, [9]⟩, ⟨true, [5]⟩]⟩,
   ⟨true, [⟨true, [6]⟩, ⟨false, [3]⟩]⟩]

/-- two live rows with the same key 1: violates the documented precondition -/
def exBdup : Table :=
  [⟨true, [⟨true, [7]⟩, ⟨true, [1]⟩]⟩,
   ⟨true, [⟨true, [8]⟩, ⟨true, [1]⟩]⟩]

theorem ex_hyps : exP.ok ∧ WellFormed exP.w0 exA ∧ WellFormed exP.w1 exB ∧
    UniqueLive exP.k0 exA ∧ UniqueLive exP.k1 exB := by
  unfold Plan.ok WellFormed; decide

end CCV.Join
