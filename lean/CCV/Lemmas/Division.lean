import CCV.Lemmas.Clip
import CCV.Model.Division
import Mathlib.Tactic.Ring
/- helper lemmas for long_division.rs: two's complement, the restoring iteration and its invariant. -/
namespace CCV.Division
open CCV.Adder CCV.Mux CCV.Clip

@[simp] theorem invertBits_length (x : List Bool) : (invertBits x).length = x.length := by
  simp [invertBits]

theorem val_invertBits (x : List Bool) : val (invertBits x) + val x + 1 = 2 ^ x.length := by
  induction x with
  | nil => simp [invertBits, val]
  | cons b t ih =>
    simp only [invertBits, List.map_cons, val, List.length_cons, Nat.pow_succ] at ih ⊢
    cases b <;> simp [notBit] <;> omega

theorem val_one (n : Nat) : val (true :: List.replicate n false) = 1 := by
  simp [val, val_replicate_false]

theorem addOne_spec (m : Nat) (x : List Bool) (h : x.length = 2 ^ m) :
    (addOne x).length = 2 ^ m ∧ val (addOne x) = (val x + 1) % 2 ^ (2 ^ m) := by
  have hp : 1 ≤ 2 ^ m := Nat.two_pow_pos m
  have h1 : (true :: List.replicate (x.length - 1) false).length = 2 ^ m := by simp; omega
  refine ⟨addCore_length false x _ m h h1, ?_⟩
  have := (addCore_spec false x _ m h h1).1
  rw [val_one] at this
  exact this

theorem negative_spec (m : Nat) (x : List Bool) (h : x.length = 2 ^ m) :
    (negative x).length = 2 ^ m ∧ val (negative x) = (2 ^ (2 ^ m) - val x) % 2 ^ (2 ^ m) := by
  have hi := val_invertBits x
  have hs := addOne_spec m (invertBits x) (by simp [h])
  refine ⟨hs.1, ?_⟩
  unfold negative
  rw [hs.2, ← h]
  congr 1
  omega

/-- one restoring step (with the dropped remainder bit taken into account): no guard on the divisor. -/
theorem singleIteration_spec (m : Nat) (M rem : List Bool) (bit : Bool) (D : Nat)
    (hM : M.length = 2 ^ m) (hr : rem.length = 2 ^ m) (hD0 : 0 < D) (hD : D < 2 ^ (2 ^ m))
    (hMv : val M = 2 ^ (2 ^ m) - D) (hrv : val rem < D) :
    (singleIteration M rem bit).1.length = 2 ^ m ∧
    2 * val rem + bit.toNat = (singleIteration M rem bit).2.toNat * D + val (singleIteration M rem bit).1 ∧
    val (singleIteration M rem bit).1 < D := by
  have hp : 1 ≤ 2 ^ m := Nat.two_pow_pos m
  have hpw : 2 ^ (2 ^ m) = 2 * 2 ^ (2 ^ m - 1) := by
    rw [← Nat.pow_succ']; congr 1; omega
  have hsl : (bit :: rem.dropLast).length = 2 ^ m := by simp [hr]; omega
  have hsplit := val_msb rem (by omega)
  rw [← List.dropLast_eq_take, hr] at hsplit
  have hlo := val_lt rem.dropLast
  rw [List.length_dropLast, hr] at hlo
  have hsv : val (bit :: rem.dropLast) = bit.toNat + 2 * val rem.dropLast := by simp only [val]
  have hadd := addCore_spec true (bit :: rem.dropLast) M m hsl hM
  have hlen := addCore_length true (bit :: rem.dropLast) M m hsl hM
  rw [hsv, hMv] at hadd
  simp only [singleIteration, orBit_eq]
  generalize addCore true (bit :: rem.dropLast) M = res at *
  obtain ⟨h1, h2⟩ := hadd
  simp only [if_true] at h2
  rw [h2]
  simp only [Option.getD_some]
  generalize hP : 2 ^ (2 ^ m) = P at *
  generalize hH : 2 ^ (2 ^ m - 1) = H at *
  generalize hlov : val rem.dropLast = lo at *
  have hbit : bit.toNat ≤ 1 := by cases bit <;> simp
  cases hmsb : msb rem
  · -- no bit dropped: as in the guarded version
    simp only [hmsb, Bool.toNat_false, Nat.mul_zero, Nat.add_zero] at hsplit
    simp only [Bool.false_or]
    by_cases hge : D ≤ bit.toNat + 2 * lo
    · have e : bit.toNat + 2 * lo + (P - D) = (bit.toNat + 2 * lo - D) + P * 1 := by omega
      have hlt : bit.toNat + 2 * lo - D < P := by omega
      have hdiv : (bit.toNat + 2 * lo + (P - D)) / P = 1 := by
        rw [e, Nat.add_mul_div_left _ _ (by omega), Nat.div_eq_of_lt hlt]
      have hmod : (bit.toNat + 2 * lo + (P - D)) % P = bit.toNat + 2 * lo - D := by
        rw [e, Nat.add_mul_mod_self_left, Nat.mod_eq_of_lt hlt]
      rw [hmod] at h1
      rw [hdiv]
      simp only [decide_true, Bool.toNat_true]
      rw [muxBits_eq _ _ _ (by rw [hlen, hsl])]
      simp only [if_true]
      refine ⟨hlen, ?_, ?_⟩ <;> omega
    · have hlt : bit.toNat + 2 * lo + (P - D) < P := by omega
      have hdiv : (bit.toNat + 2 * lo + (P - D)) / P = 0 := Nat.div_eq_of_lt hlt
      rw [hdiv]
      simp only [Nat.zero_ne_one, decide_false, Bool.toNat_false]
      rw [muxBits_eq _ _ _ (by rw [hlen, hsl])]
      simp only [Bool.false_eq_true, if_false, hsv]
      refine ⟨hsl, ?_, ?_⟩ <;> omega
  · -- the dropped bit is set: the shifted remainder is at least 2^w > D, subtract
    simp only [hmsb, Bool.toNat_true, Nat.mul_one] at hsplit
    simp only [Bool.true_or, Bool.toNat_true]
    rw [muxBits_eq _ _ _ (by rw [hlen, hsl])]
    simp only [if_true]
    have hlt : bit.toNat + 2 * lo + (P - D) < P := by omega
    rw [Nat.mod_eq_of_lt hlt] at h1
    refine ⟨hlen, ?_, ?_⟩ <;> omega

/-- loop invariant of the restoring division: after consuming the dividend bits `bs` (most significant
    first), `2^|bs| · r₀ + bs = q · D + r` with `0 ≤ r < D`. -/
theorem iterateBits_spec (m : Nat) (M : List Bool) (D : Nat)
    (hM : M.length = 2 ^ m) (hD0 : 0 < D) (hD : D < 2 ^ (2 ^ m)) (hMv : val M = 2 ^ (2 ^ m) - D) :
    ∀ (bs rem : List Bool), rem.length = 2 ^ m → val rem < D →
      (iterateBits M rem bs).1.length = 2 ^ m ∧ (iterateBits M rem bs).2.length = bs.length ∧
      2 ^ bs.length * val rem + val bs.reverse
        = val (iterateBits M rem bs).2.reverse * D + val (iterateBits M rem bs).1 ∧
      val (iterateBits M rem bs).1 < D := by
  intro bs
  induction bs with
  | nil =>
    intro rem hr hv
    simp [iterateBits, val, hr, hv]
  | cons b bs ih =>
    intro rem hr hv
    obtain ⟨s1, s2, s3⟩ := singleIteration_spec m M rem b D hM hr hD0 hD hMv hv
    obtain ⟨r1, r2, r3, r4⟩ := ih (singleIteration M rem b).1 s1 s3
    simp only [iterateBits, List.length_cons, List.reverse_cons, val_append, List.length_reverse, r2]
    refine ⟨r1, trivial, ?_, r4⟩
    simp only [val, Nat.mul_zero, Nat.add_zero]
    generalize val (iterateBits M (singleIteration M rem b).1 bs).2.reverse = Q at *
    generalize val (iterateBits M (singleIteration M rem b).1 bs).1 = r' at *
    generalize val (singleIteration M rem b).1 = r1v at *
    generalize (singleIteration M rem b).2.toNat = q at *
    generalize val bs.reverse = V at *
    generalize val rem = R at *
    generalize b.toNat = bn at *
    rw [Nat.pow_succ]
    generalize 2 ^ bs.length = P at *
    calc P * 2 * R + (V + P * bn) = P * (2 * R + bn) + V := by ring
      _ = P * (q * D + r1v) + V := by rw [s2]
      _ = P * q * D + (P * r1v + V) := by ring
      _ = P * q * D + (Q * D + r') := by rw [r3]
      _ = (Q + P * q) * D + r' := by ring

/-- the whole loop on magnitudes: quotient and remainder of `A / D`. -/
theorem divLoop_spec (m : Nat) (absA absD : List Bool) (hd : absD.length = 2 ^ m)
    (hD0 : 0 < val absD) :
    let res := iterateBits (negative absD) (List.replicate absD.length false) absA.reverse
    res.1.length = 2 ^ m ∧ res.2.reverse.length = absA.length ∧
    val res.2.reverse = val absA / val absD ∧ val res.1 = val absA % val absD := by
  have hn := negative_spec m absD hd
  have hlt := val_lt absD
  rw [hd] at hlt
  have hMv : val (negative absD) = 2 ^ (2 ^ m) - val absD := by
    rw [hn.2, Nat.mod_eq_of_lt (by omega)]
  obtain ⟨r1, r2, r3, r4⟩ := iterateBits_spec m (negative absD) (val absD) hn.1 hD0 hlt hMv absA.reverse
    (List.replicate absD.length false) (by simp [hd]) (by rw [val_replicate_false]; exact hD0)
  simp only [val_replicate_false, Nat.mul_zero, Nat.zero_add, List.reverse_reverse] at r3
  refine ⟨r1, by simpa using r2, ?_, ?_⟩
  · rw [r3, Nat.mul_comm, Nat.mul_add_div hD0, Nat.div_eq_of_lt r4, Nat.add_zero]
  · rw [r3, Nat.mul_comm, Nat.mul_add_mod, Nat.mod_eq_of_lt r4]

end CCV.Division
