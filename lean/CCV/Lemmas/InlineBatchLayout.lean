import CCV.Model.InlineBatch
import CCV.Lemmas.Shape
import CCV.Lemmas.OpsPerm
import CCV.Lemmas.OpsStruct
/-
  Array-layout steps of the batched small-state inliner model (`CCV.InlineBatch`): stacking
  (`vectorToArray`), `permuteAxes` with the rotated permutations, `get`.  Every result is described
  entrywise through `flat` positions.
-/
namespace CCV.InlineBatch
open CCV CCV.Shape CCV.Ops CCV.Inline

/-! ### generic list facts -/

theorem flatMap_length_const {α β : Type} (l : List α) (f : α → List β) (n : Nat)
    (h : ∀ a ∈ l, (f a).length = n) : (l.flatMap f).length = l.length * n := by
  induction l with
  | nil => simp
  | cons a l ih =>
    simp only [List.flatMap_cons, List.length_append, List.length_cons]
    rw [ih (fun b hb => h b (List.mem_cons_of_mem _ hb)), h a List.mem_cons_self, Nat.add_mul]
    omega

/-- reading a list at consecutive positions -/
theorem map_getD_range' (L : List Nat) (a n : Nat) (h : a + n ≤ L.length) :
    ((List.range' a n).map fun j => L.getD j 0) = (L.drop a).take n := by
  apply List.ext_getElem
  · simp; omega
  · intro i h1 h2
    simp only [List.length_map, List.length_range'] at h1
    simp [List.getD_eq_getElem?_getD, List.getElem?_eq_getElem (show a + i < L.length by omega)]

theorem permuteAxes_length (values shape perm out : List Nat) :
    (permuteAxes values shape perm out).length = values.length := by
  simp only [permuteAxes]
  rw [foldl_set_length]
  simp

/-- `permuteAxes` read entrywise (flat positions) -/
theorem permuteAxes_read (values shape perm I : List Nat) (hlen : values.length = prod shape)
    (hpos : pos shape) (hpl : perm.length = shape.length) (hnd : perm.Nodup)
    (hlt : ∀ j ∈ perm, j < shape.length) (hI : validIdx I shape) :
    (permuteAxes values shape perm (permShape shape perm)).getD
        (flat (perm.map fun j => I.getD j 0) (permShape shape perm)) 0
      = values.getD (flat I shape) 0 :=
  permuteAxes_spec values shape perm hlen hpos hpl hnd hlt I hI

theorem pos_append {s1 s2 : List Nat} (h1 : pos s1) (h2 : pos s2) : pos (s1 ++ s2) := by
  intro d hd
  rcases List.mem_append.mp hd with h | h
  · exact h1 d h
  · exact h2 d h

theorem two_pow_pos' (K : Nat) : 0 < 2 ^ K := Nat.pos_of_ne_zero (by simp)

/-! ### the three permutations are permutations -/

theorem nodup_permInitial (r : Nat) : (List.range' 2 r ++ [0, 1]).Nodup := by
  simp only [List.nodup_cons, List.nodup_append, List.mem_range'_1,
    List.mem_cons, List.not_mem_nil, or_false, List.nodup_nil, not_false_eq_true, and_true]
  refine ⟨List.nodup_range', by omega, ?_⟩
  intro a ha b hb
  omega

theorem lt_permInitial (r : Nat) : ∀ j ∈ List.range' 2 r ++ [0, 1], j < r + 2 := by
  intro j hj
  simp only [List.mem_cons, List.mem_append, List.mem_range'_1, List.not_mem_nil, or_false] at hj
  omega

theorem nodup_permMasks (r : Nat) : (List.range' 1 r ++ [0, r + 1]).Nodup := by
  simp only [List.nodup_cons, List.nodup_append, List.mem_range'_1,
    List.mem_cons, List.not_mem_nil, or_false, List.nodup_nil, not_false_eq_true, and_true]
  refine ⟨List.nodup_range', by omega, ?_⟩
  intro a ha b hb
  omega

theorem lt_permMasks (r : Nat) : ∀ j ∈ List.range' 1 r ++ [0, r + 1], j < r + 2 := by
  intro j hj
  simp only [List.mem_cons, List.mem_append, List.mem_range'_1, List.not_mem_nil, or_false] at hj
  omega

theorem nodup_permStack (r : Nat) : (0 :: (List.range' 3 r ++ [1, 2])).Nodup := by
  simp only [List.nodup_cons, List.nodup_append, List.mem_append, List.mem_range'_1,
    List.mem_cons, List.not_mem_nil, or_false, List.nodup_nil, not_false_eq_true, and_true]
  refine ⟨by omega, List.nodup_range', by omega, ?_⟩
  intro a ha b hb
  omega

theorem lt_permStack (r : Nat) : ∀ j ∈ 0 :: (List.range' 3 r ++ [1, 2]), j < r + 3 := by
  intro j hj
  simp only [List.mem_cons, List.mem_append, List.mem_range'_1, List.not_mem_nil, or_false] at hj
  omega

/-! ### P2: `permuteInitial` -/

theorem permuteInitial_spec (B : List Nat) (K : Nat) (oh : List Nat) (hB : pos B)
    (hlen : oh.length = 2 ^ K * prod B) :
    (permuteInitial B K oh).length = prod (B ++ [1, 2 ^ K]) ∧
    ∀ β j, validIdx β B → j < 2 ^ K →
      (permuteInitial B K oh).getD (flat (β ++ [0, j]) (B ++ [1, 2 ^ K])) 0
        = oh.getD (flat (j :: β) (2 ^ K :: B)) 0 := by
  have hperm : rotl (List.range (1 :: 2 ^ K :: B).length) 2 = List.range' 2 B.length ++ [0, 1] := by
    simp [rotl, List.range_eq_range', List.range'_succ]
  have hsh : permShape (1 :: 2 ^ K :: B) (List.range' 2 B.length ++ [0, 1]) = B ++ [1, 2 ^ K] := by
    simp only [permShape, List.map_append]
    rw [map_getD_range' _ _ _ (by simp only [List.length_cons]; omega)]
    simp
  constructor
  · simp only [permuteInitial, permuteAxes_length, hlen, prod_append, prod]
    simp [Nat.mul_comm]
  · intro β j hβ hj
    have hβl := validIdx_length hβ
    simp only [permuteInitial]
    rw [hperm]
    have hI : validIdx (0 :: j :: β) (1 :: 2 ^ K :: B) := ⟨by omega, hj, hβ⟩
    have hpos : pos (1 :: 2 ^ K :: B) := by
      intro d hd
      simp only [List.mem_cons] at hd
      rcases hd with rfl | rfl | hd
      · omega
      · exact two_pow_pos' K
      · exact hB d hd
    have key := permuteAxes_read oh (1 :: 2 ^ K :: B) (List.range' 2 B.length ++ [0, 1])
      (0 :: j :: β) (by simp [prod, hlen]) hpos (by simp)
      (nodup_permInitial _) (by simpa using lt_permInitial B.length) hI
    rw [hsh] at key ⊢
    have hm : ((List.range' 2 B.length ++ [0, 1]).map fun i => (0 :: j :: β).getD i 0) = β ++ [0, j] := by
      rw [List.map_append, map_getD_range' _ _ _ (by simp; omega)]
      simp [← hβl]
    rw [hm] at key
    rw [key]
    simp [flat]

/-! ### P3: `masksArr` -/

theorem swapAt_append_pair (M : List Nat) (x y : Nat) :
    swapAt (M ++ [x, y]) M.length (M.length + 1) = M ++ [y, x] := by
  induction M with
  | nil => simp [swapAt]
  | cons a M ih => simp [swapAt] at ih ⊢

theorem masksArr_perm (r : Nat) :
    swapAt (rotl (List.range (r + 2)) 1) ((rotl (List.range (r + 2)) 1).length - 2)
        ((rotl (List.range (r + 2)) 1).length - 1) = List.range' 1 r ++ [0, r + 1] := by
  have h0 : rotl (List.range (r + 2)) 1 = List.range' 1 r ++ [r + 1, 0] := by
    have : List.range' 1 (r + 1) = List.range' 1 r ++ [r + 1] := by
      rw [List.range'_concat]; simp [Nat.add_comm]
    simp only [rotl, List.range_eq_range']
    rw [List.range'_succ]
    simp [this]
  rw [h0]
  have hl : (List.range' 1 r ++ [r + 1, 0]).length = r + 2 := by simp
  rw [hl]
  have := swapAt_append_pair (List.range' 1 r) (r + 1) 0
  simpa using this

theorem masksArr_spec (B : List Nat) (K : Nat) (hB : pos B) (hK : 1 ≤ K)
    (hmc : ∀ mc ∈ maskConstants B K, mc.length = prod (B ++ [K])) :
    (masksArr B K).length = prod (B ++ [2 ^ K, K]) ∧
    ∀ β m k, validIdx β B → m < 2 ^ K → k < K →
      (masksArr B K).getD (flat (β ++ [m, k]) (B ++ [2 ^ K, K])) 0
        = ((maskConstants B K).getD m []).getD (flat (β ++ [k]) (B ++ [K])) 0 := by
  have hshl : (2 ^ K :: (B ++ [K])).length = B.length + 2 := by simp
  have hmcl : (maskConstants B K).length = 2 ^ K := by simp [maskConstants]
  have harr : (vectorToArray (maskConstants B K)).length = prod (2 ^ K :: (B ++ [K])) := by
    simp only [vectorToArray]
    rw [flatMap_length_const _ id _ hmc, hmcl]
    simp [prod]
  have hsh : permShape (2 ^ K :: (B ++ [K])) (List.range' 1 B.length ++ [0, B.length + 1])
      = B ++ [2 ^ K, K] := by
    simp only [permShape, List.map_append]
    rw [map_getD_range' _ _ _ (by simp only [List.length_cons, List.length_append]; omega)]
    simp
  constructor
  · simp only [masksArr, permuteAxes_length, harr, prod_append, prod]
    simp [Nat.mul_comm, Nat.mul_left_comm, Nat.mul_assoc]
  · intro β m k hβ hm hk
    have hβl := validIdx_length hβ
    simp only [masksArr]
    rw [hshl, masksArr_perm]
    have hβk : validIdx (β ++ [k]) (B ++ [K]) := validIdx_append hβ (by simpa [validIdx] using hk)
    have hI : validIdx (m :: (β ++ [k])) (2 ^ K :: (B ++ [K])) := ⟨hm, hβk⟩
    have hpos : pos (2 ^ K :: (B ++ [K])) := by
      intro d hd
      simp only [List.mem_cons, List.mem_append, List.not_mem_nil, or_false] at hd
      rcases hd with rfl | hd | rfl
      · exact two_pow_pos' K
      · exact hB d hd
      · omega
    have key := permuteAxes_read (vectorToArray (maskConstants B K)) (2 ^ K :: (B ++ [K]))
      (List.range' 1 B.length ++ [0, B.length + 1])
      (m :: (β ++ [k])) harr hpos (by simp)
      (nodup_permMasks _) (by simpa using lt_permMasks B.length) hI
    rw [hsh] at key ⊢
    have hmap : ((List.range' 1 B.length ++ [0, B.length + 1]).map
        fun i => (m :: (β ++ [k])).getD i 0) = β ++ [m, k] := by
      rw [List.map_append, map_getD_range' _ _ _ (by simp; omega)]
      simp [← hβl]
    rw [hmap] at key
    rw [key]
    simp only [flat, vectorToArray]
    rw [flatMap_getD_const _ id _ hmc m _ (by omega) (flat_lt hβk) []]
    rfl

/-! ### P1: `stackMappings` -/

theorem get_block_length (n : Nat) (rest xs : List Nat) (i : Nat) (hi : i < n)
    (hlen : xs.length = n * prod rest) : (get (n :: rest) xs [i]).length = prod rest := by
  simp only [Ops.get, List.length_singleton, List.drop_succ_cons, List.drop_zero]
  apply slice_length
  have h1 : indexToNumber [i] (List.take 1 (n :: rest)) = i := by
    simp [indexToNumber, i2nAux, Nat.mod_eq_of_lt hi]
  rw [h1, hlen]
  have := Nat.mul_le_mul_right (prod rest) (show i + 1 ≤ n by omega)
  rw [Nat.add_mul] at this
  omega

theorem get_block_read (n : Nat) (rest xs : List Nat) (i : Nat) (hi : i < n) (J : List Nat)
    (hJ : validIdx J rest) :
    (get (n :: rest) xs [i]).getD (flat J rest) 0 = xs.getD (flat (i :: J) (n :: rest)) 0 := by
  have := get_spec (n :: rest) xs [i] J (by simp) (by simpa [validIdx] using hi) (by simpa using hJ)
  simpa [Spec.get, Spec.ofFlat] using this

theorem stackMappings_spec (B : List Nat) (K : Nat) (ohs : List (List (List Nat))) (hB : pos B)
    (hrow : ∀ row ∈ ohs, row.length = 2 ^ K ∧ ∀ oh ∈ row, oh.length = 2 ^ K * prod B) :
    (stackMappings B K ohs).length = ohs.length ∧
    ∀ i, i < ohs.length →
      ((stackMappings B K ohs).getD i []).length = prod (B ++ [2 ^ K, 2 ^ K]) ∧
      ∀ β m j, validIdx β B → m < 2 ^ K → j < 2 ^ K →
        ((stackMappings B K ohs).getD i []).getD (flat (β ++ [m, j]) (B ++ [2 ^ K, 2 ^ K])) 0
          = (((ohs.getD i []).getD m []).getD (flat (j :: β) (2 ^ K :: B)) 0) := by
  refine ⟨by simp [stackMappings], ?_⟩
  intro i hi
  -- the permutation and the permuted shape
  have hperm : 0 :: rotl (List.range' 1 (([ohs.length, 2 ^ K, 2 ^ K] ++ B).length - 1)) 2
      = 0 :: (List.range' 3 B.length ++ [1, 2]) := by
    simp [rotl, List.range'_succ]
  have hsh : permShape (ohs.length :: 2 ^ K :: 2 ^ K :: B) (0 :: (List.range' 3 B.length ++ [1, 2]))
      = ohs.length :: (B ++ [2 ^ K, 2 ^ K]) := by
    simp only [permShape, List.map_cons, List.map_append]
    rw [map_getD_range' _ _ _ (by simp only [List.length_cons]; omega)]
    simp
  -- the stacked array
  have hinner : ∀ row ∈ ohs, (vectorToArray row).length = 2 ^ K * (2 ^ K * prod B) := by
    intro row hr
    obtain ⟨h1, h2⟩ := hrow row hr
    simp only [vectorToArray]
    rw [flatMap_length_const _ id _ h2, h1]
  have hinner' : ∀ a ∈ ohs.map vectorToArray, (id a).length = 2 ^ K * (2 ^ K * prod B) := by
    intro a ha
    obtain ⟨row, hr, rfl⟩ := List.mem_map.mp ha
    exact hinner row hr
  have harr : (vectorToArray (ohs.map vectorToArray)).length
      = prod (ohs.length :: 2 ^ K :: 2 ^ K :: B) := by
    simp only [vectorToArray] at hinner' ⊢
    rw [flatMap_length_const _ id _ hinner']
    simp [prod]
  have hpos : pos (ohs.length :: 2 ^ K :: 2 ^ K :: B) := by
    intro d hd
    simp only [List.mem_cons] at hd
    rcases hd with rfl | rfl | rfl | hd
    · omega
    · exact two_pow_pos' K
    · exact two_pow_pos' K
    · exact hB d hd
  have hget : (stackMappings B K ohs).getD i []
      = get (ohs.length :: (B ++ [2 ^ K, 2 ^ K]))
          (permuteAxes (vectorToArray (ohs.map vectorToArray)) (ohs.length :: 2 ^ K :: 2 ^ K :: B)
            (0 :: (List.range' 3 B.length ++ [1, 2])) (ohs.length :: (B ++ [2 ^ K, 2 ^ K]))) [i] := by
    simp only [stackMappings]
    rw [hperm]
    simp only [List.cons_append, List.nil_append]
    rw [hsh]
    simp [List.getD_eq_getElem?_getD, hi]
  rw [hget]
  constructor
  · apply get_block_length _ _ _ _ hi
    rw [permuteAxes_length, harr]
    simp only [prod, prod_append]
    simp [Nat.mul_comm, Nat.mul_assoc]
  · intro β m j hβ hm hj
    have hβl := validIdx_length hβ
    have hJ : validIdx (β ++ [m, j]) (B ++ [2 ^ K, 2 ^ K]) :=
      validIdx_append hβ ⟨hm, hj, trivial⟩
    rw [get_block_read _ _ _ _ hi _ hJ]
    have hI : validIdx (i :: m :: j :: β) (ohs.length :: 2 ^ K :: 2 ^ K :: B) := ⟨hi, hm, hj, hβ⟩
    have key := permuteAxes_read (vectorToArray (ohs.map vectorToArray))
      (ohs.length :: 2 ^ K :: 2 ^ K :: B) (0 :: (List.range' 3 B.length ++ [1, 2]))
      (i :: m :: j :: β) harr hpos (by simp)
      (nodup_permStack _) (by simpa using lt_permStack B.length) hI
    rw [hsh] at key
    have hmap : ((0 :: (List.range' 3 B.length ++ [1, 2])).map
        fun t => (i :: m :: j :: β).getD t 0) = i :: (β ++ [m, j]) := by
      rw [List.map_cons, List.map_append, map_getD_range' _ _ _ (by simp; omega)]
      simp [← hβl]
    rw [hmap] at key
    rw [key]
    -- the two nested `flatMap`s
    have hvj : validIdx (j :: β) (2 ^ K :: B) := ⟨hj, hβ⟩
    have hlt2 : flat (j :: β) (2 ^ K :: B) < 2 ^ K * prod B := by
      have := flat_lt hvj; simpa [prod] using this
    have hrowi : (ohs.getD i []) ∈ ohs := getD_mem ohs i hi []
    obtain ⟨hr1, hr2⟩ := hrow _ hrowi
    have hlt1 : m * (2 ^ K * prod B) + flat (j :: β) (2 ^ K :: B) < 2 ^ K * (2 ^ K * prod B) := by
      have := Nat.mul_le_mul_right (2 ^ K * prod B) (show m + 1 ≤ 2 ^ K by omega)
      rw [Nat.add_mul] at this
      omega
    have e : flat (i :: m :: j :: β) (ohs.length :: 2 ^ K :: 2 ^ K :: B)
        = i * (2 ^ K * (2 ^ K * prod B)) + (m * (2 ^ K * prod B) + flat (j :: β) (2 ^ K :: B)) := by
      simp [flat, prod]
    rw [e]
    simp only [vectorToArray] at hinner' ⊢
    rw [flatMap_getD_const _ id _ hinner' i _ (by simpa using hi) hlt1 []]
    have e2 : (List.map vectorToArray ohs).getD i [] = (ohs.getD i []).flatMap id := by
      simp [List.getD_eq_getElem?_getD, hi, vectorToArray]
    simp only [id]
    rw [e2, flatMap_getD_const _ id _ hr2 m _ (by omega) hlt2 []]
    rfl

/-! ### the hypothesis of `masksArr_spec` holds -/

theorem maskConstants_lengths (B : List Nat) (K : Nat) :
    ∀ mc ∈ maskConstants B K, mc.length = prod (B ++ [K]) := by
  intro mc h
  simp only [maskConstants, List.mem_map, List.mem_range] at h
  obtain ⟨m, _, rfl⟩ := h
  simp [maskToValue]

theorem masksArr_spec' (B : List Nat) (K : Nat) (hB : pos B) (hK : 1 ≤ K) :
    (masksArr B K).length = prod (B ++ [2 ^ K, K]) ∧
    ∀ β m k, validIdx β B → m < 2 ^ K → k < K →
      (masksArr B K).getD (flat (β ++ [m, k]) (B ++ [2 ^ K, K])) 0
        = ((maskConstants B K).getD m []).getD (flat (β ++ [k]) (B ++ [K])) 0 :=
  masksArr_spec B K hB hK (maskConstants_lengths B K)

/-! ### every entry of a result is an entry of an input (0/1 transfer) -/

/-- every position of an array of shape `B ++ [a, b]` is the flat position of an index `β ++ [m, j]` -/
theorem exists_idx_of_lt (B : List Nat) (a b : Nat) (hpos : pos (B ++ [a, b])) (p : Nat)
    (hp : p < prod (B ++ [a, b])) :
    ∃ β m j, validIdx β B ∧ m < a ∧ j < b ∧ p = flat (β ++ [m, j]) (B ++ [a, b]) := by
  have hv := numberToIndex_valid hpos hp
  have hf := flat_numberToIndex hpos hp
  generalize numberToIndex p (B ++ [a, b]) = I at hv hf
  have hl : I.length = B.length + 2 := by simpa using validIdx_length hv
  have hsplit : I = I.take B.length ++ I.drop B.length := (List.take_append_drop _ _).symm
  have hdl : (I.drop B.length).length = 2 := by simp [hl]
  obtain ⟨m, j, hmj⟩ : ∃ m j, I.drop B.length = [m, j] := by
    match h : I.drop B.length, hdl with
    | [m, j], _ => exact ⟨m, j, rfl⟩
  rw [hmj] at hsplit
  rw [hsplit] at hv hf
  obtain ⟨h1, h2⟩ := validIdx_append_inv (by simp [hl]) hv
  simp only [validIdx, and_true] at h2
  exact ⟨_, m, j, h1, h2.1, h2.2, hf.symm⟩

theorem getD_lt_two_of_ge (l : List Nat) (p : Nat) (h : l.length ≤ p) : l.getD p 0 < 2 := by
  simp [List.getD_eq_getElem?_getD, List.getElem?_eq_none h]

theorem permuteInitial_bits (B : List Nat) (K : Nat) (oh : List Nat) (hB : pos B)
    (hlen : oh.length = 2 ^ K * prod B) (hbit : ∀ p, oh.getD p 0 < 2) :
    ∀ p, (permuteInitial B K oh).getD p 0 < 2 := by
  intro p
  obtain ⟨hl, hs⟩ := permuteInitial_spec B K oh hB hlen
  by_cases hp : p < prod (B ++ [1, 2 ^ K])
  · have hpos : pos (B ++ [1, 2 ^ K]) := pos_append hB (by
      intro d hd
      simp only [List.mem_cons, List.not_mem_nil, or_false] at hd
      rcases hd with rfl | rfl
      · omega
      · exact two_pow_pos' K)
    obtain ⟨β, m, j, hβ, hm, hj, rfl⟩ := exists_idx_of_lt B 1 (2 ^ K) hpos p hp
    obtain rfl : m = 0 := by omega
    rw [hs β j hβ hj]
    exact hbit _
  · exact getD_lt_two_of_ge _ _ (by omega)

theorem maskConstants_bits (B : List Nat) (K : Nat) (m q : Nat) :
    ((maskConstants B K).getD m []).getD q 0 < 2 := by
  have h : ∀ x ∈ (maskConstants B K).getD m [], x < 2 := by
    intro x hx
    by_cases hm : m < (maskConstants B K).length
    · have hmem := getD_mem (maskConstants B K) m hm []
      generalize (maskConstants B K).getD m [] = mc at hx hmem
      simp only [maskConstants, List.mem_map, List.mem_range] at hmem
      obtain ⟨m', _, rfl⟩ := hmem
      simp only [maskToValue, List.mem_map, List.mem_range] at hx
      obtain ⟨i, _, rfl⟩ := hx
      exact Nat.mod_lt _ (by omega)
    · simp [List.getD_eq_getElem?_getD, List.getElem?_eq_none (Nat.le_of_not_lt hm)] at hx
  by_cases hq : q < ((maskConstants B K).getD m []).length
  · exact h _ (getD_mem _ q hq 0)
  · exact getD_lt_two_of_ge _ _ (Nat.le_of_not_lt hq)

theorem masksArr_bits (B : List Nat) (K : Nat) (hB : pos B) (hK : 1 ≤ K) :
    ∀ p, (masksArr B K).getD p 0 < 2 := by
  intro p
  obtain ⟨hl, hs⟩ := masksArr_spec' B K hB hK
  by_cases hp : p < prod (B ++ [2 ^ K, K])
  · have hpos : pos (B ++ [2 ^ K, K]) := pos_append hB (by
      intro d hd
      simp only [List.mem_cons, List.not_mem_nil, or_false] at hd
      rcases hd with rfl | rfl
      · exact two_pow_pos' K
      · omega)
    obtain ⟨β, m, k, hβ, hm, hk, rfl⟩ := exists_idx_of_lt B (2 ^ K) K hpos p hp
    rw [hs β m k hβ hm hk]
    exact maskConstants_bits B K m _
  · exact getD_lt_two_of_ge _ _ (by omega)

theorem stackMappings_bits (B : List Nat) (K : Nat) (ohs : List (List (List Nat))) (hB : pos B)
    (hrow : ∀ row ∈ ohs, row.length = 2 ^ K ∧ ∀ oh ∈ row, oh.length = 2 ^ K * prod B)
    (hbit : ∀ row ∈ ohs, ∀ oh ∈ row, ∀ p, oh.getD p 0 < 2) :
    ∀ i, i < ohs.length → ∀ p, ((stackMappings B K ohs).getD i []).getD p 0 < 2 := by
  intro i hi p
  obtain ⟨hl, hs⟩ := (stackMappings_spec B K ohs hB hrow).2 i hi
  by_cases hp : p < prod (B ++ [2 ^ K, 2 ^ K])
  · have hpos : pos (B ++ [2 ^ K, 2 ^ K]) := pos_append hB (by
      intro d hd
      simp only [List.mem_cons, List.not_mem_nil, or_false] at hd
      rcases hd with rfl | rfl <;> exact two_pow_pos' K)
    obtain ⟨β, m, j, hβ, hm, hj, rfl⟩ := exists_idx_of_lt B (2 ^ K) (2 ^ K) hpos p hp
    rw [hs β m j hβ hm hj]
    have hrowi : (ohs.getD i []) ∈ ohs := getD_mem ohs i hi []
    have hm' : m < (ohs.getD i []).length := by rw [(hrow _ hrowi).1]; exact hm
    exact hbit _ hrowi _ (getD_mem _ m hm' []) _
  · exact getD_lt_two_of_ge _ _ (by omega)

end CCV.InlineBatch
