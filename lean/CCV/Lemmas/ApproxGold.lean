import CCV.Lemmas.ApproxSqrt
/-
  C20: the n-step QUOTIENT bound of GoldschmidtDivision (ops/goldschmidt_division.rs), model
  `goldStep` / `goldIter` / `goldschmidt`.  Over ℤ with denominators cleared: `P = 2^c`; the pair
  `(x, b)` is (numerator, denominator) after some rounds, started at `(a·w₀, d·w₀)`;
  `G = a·b − x·d` measures how far the pair has drifted from the exact ratio `a/d` (it is 0 at the
  start and only moves through the two truncations per round), `E = P − b` is the denominator error.
  The returned quotient `x` satisfies `x·d − a·P = −(G + a·E)`.
-/
namespace CCV.Approx

/-- algebraic core of one Goldschmidt round with the two truncation remainders `rx`, `rb`.
    Drift bound normalised by the denominator: `G·P ≤ 4·i·d·b` is kept with `i+1` (each round adds
    at most `d` to `G·P/b·…`, and `b ≥ P/2`), likewise `−G·P ≤ 4·i·a·b`. -/
theorem gold_core {P a d x b x' b' rx rb i : Int} (hP : 4 ≤ P) (ha : 0 ≤ a) (hd : 0 < d) (hx : 0 ≤ x)
    (hb0 : P ≤ 2 * b) (hb1 : b ≤ P)
    (hx' : x' * P + rx = x * (2 * P - b)) (hrx0 : 0 ≤ rx) (hrx1 : rx < P)
    (hb' : b' * P + rb = b * (2 * P - b)) (hrb0 : 0 ≤ rb) (hrb1 : rb < P)
    (hi0 : 0 ≤ i) (hi : 4 * i ≤ P)
    (hU : (a * b - x * d) * P ≤ 4 * i * d * b) (hL : (x * d - a * b) * P ≤ 4 * i * a * b) :
    0 ≤ x' ∧ P ≤ 2 * b' ∧ b' ≤ P ∧ P * (P - b') = (P - b) ^ 2 + rb ∧
      (a * b' - x' * d) * P ≤ 4 * (i + 1) * d * b' ∧ (x' * d - a * b') * P ≤ 4 * (i + 1) * a * b' := by
  have hP0 : 0 < P := by linarith
  have hw0 : 0 ≤ 2 * P - b := by linarith
  have hE : P * (P - b') = (P - b) ^ 2 + rb := by nlinarith
  have hx'0 : 0 ≤ x' := by
    have h1 : 0 ≤ x * (2 * P - b) := mul_nonneg hx hw0
    have h2 : -1 * P < x' * P := by linarith
    have := lt_of_mul_lt_mul_right h2 (le_of_lt hP0)
    linarith
  have hb'1 : b' ≤ P := by
    have : 0 ≤ P * (P - b') := by rw [hE]; positivity
    have := nonneg_of_mul_nonneg_right this hP0
    linarith
  have hb'0 : P ≤ 2 * b' := by
    have h1 : (2 * (P - b)) * (2 * (P - b)) ≤ P * P := mul_self_le_mul_self (by linarith) (by linarith)
    have h2 : P * (4 * (P - b')) < P * (P + 4) := by nlinarith
    have := lt_of_mul_lt_mul_left h2 (le_of_lt hP0)
    linarith
  refine ⟨hx'0, hb'0, hb'1, hE, ?_, ?_⟩
  · -- upper drift
    have e : (a * b' - x' * d) * P = (a * b - x * d) * (2 * P - b) - a * rb + rx * d := by
      have : (a * b' - x' * d) * P = a * (b' * P) - (x' * P) * d := by ring
      rw [this, show b' * P = b * (2 * P - b) - rb by linarith, show x' * P = x * (2 * P - b) - rx by linarith]
      ring
    have h1 : (a * b' - x' * d) * P ≤ (a * b - x * d) * (2 * P - b) + P * d := by
      rw [e]
      have : 0 ≤ a * rb := mul_nonneg ha hrb0
      have : rx * d ≤ P * d := mul_le_mul_of_nonneg_right (le_of_lt hrx1) (le_of_lt hd)
      linarith
    have h2 : ((a * b - x * d) * P) * (2 * P - b) ≤ (4 * i * d * b) * (2 * P - b) :=
      mul_le_mul_of_nonneg_right hU hw0
    have h3 : (4 * i * d * b) * (2 * P - b) = 4 * i * d * (b' * P + rb) := by rw [hb']; ring
    have h4 : 4 * i * d * rb ≤ 4 * i * d * P :=
      mul_le_mul_of_nonneg_left (le_of_lt hrb1) (by positivity)
    -- P * lhs ≤ P * (4 i d b' + 4 i d + P d)
    have h5 : P * ((a * b' - x' * d) * P) ≤ P * (4 * i * d * b' + 4 * i * d + P * d) := by nlinarith
    have h6 := le_of_mul_le_mul_left h5 hP0
    have h7 : 4 * i * d ≤ P * d := mul_le_mul_of_nonneg_right hi (le_of_lt hd)
    have h8 : P * d ≤ 2 * b' * d := mul_le_mul_of_nonneg_right hb'0 (le_of_lt hd)
    nlinarith
  · -- lower drift
    have e : (x' * d - a * b') * P = (x * d - a * b) * (2 * P - b) + a * rb - rx * d := by
      have : (x' * d - a * b') * P = (x' * P) * d - a * (b' * P) := by ring
      rw [this, show b' * P = b * (2 * P - b) - rb by linarith, show x' * P = x * (2 * P - b) - rx by linarith]
      ring
    have h1 : (x' * d - a * b') * P ≤ (x * d - a * b) * (2 * P - b) + P * a := by
      rw [e]
      have : 0 ≤ rx * d := mul_nonneg hrx0 (le_of_lt hd)
      have : a * rb ≤ a * P := mul_le_mul_of_nonneg_left (le_of_lt hrb1) ha
      linarith
    have h2 : ((x * d - a * b) * P) * (2 * P - b) ≤ (4 * i * a * b) * (2 * P - b) :=
      mul_le_mul_of_nonneg_right hL hw0
    have h3 : (4 * i * a * b) * (2 * P - b) = 4 * i * a * (b' * P + rb) := by rw [hb']; ring
    have h4 : 4 * i * a * rb ≤ 4 * i * a * P :=
      mul_le_mul_of_nonneg_left (le_of_lt hrb1) (by positivity)
    have h5 : P * ((x' * d - a * b') * P) ≤ P * (4 * i * a * b' + 4 * i * a + P * a) := by nlinarith
    have h6 := le_of_mul_le_mul_left h5 hP0
    have h7 : 4 * i * a ≤ P * a := mul_le_mul_of_nonneg_right hi ha
    have h8 : P * a ≤ 2 * b' * a := mul_le_mul_of_nonneg_right hb'0 ha
    nlinarith

/-- invariant after `i` Goldschmidt rounds on the pair `ab = (x, b)` started from `(a·w₀, d·w₀)`:
    `b ∈ [2^(c-1), 2^c]`, two-sided drift bound `−4·i·a·b ≤ (a·b − x·d)·2^c ≤ 4·i·d·b`, and the
    denominator error `2^(2^i)·(2^c − b) ≤ 2^c + 4·2^(2^i)` (`e_i ≤ 2^(-2^i) + 4/2^c`). -/
def GoldInv (c : Nat) (a d : Int) (i : Nat) (ab : Int × Int) : Prop :=
  0 ≤ ab.1 ∧ 2 ^ c ≤ 2 * ab.2 ∧ ab.2 ≤ 2 ^ c ∧
  (a * ab.2 - ab.1 * d) * 2 ^ c ≤ 4 * (i : Int) * d * ab.2 ∧
  (ab.1 * d - a * ab.2) * 2 ^ c ≤ 4 * (i : Int) * a * ab.2 ∧
  2 ^ (2 ^ i) * (2 ^ c - ab.2) ≤ 2 ^ c + 4 * 2 ^ (2 ^ i)

/-- the numerator stays below `M` whenever `a·(2^c + 4n) ≤ d·M` (it approximates `a·2^c/d`). -/
theorem goldInv_num_le {c i n : Nat} {a d M : Int} {ab : Int × Int} (ha : 0 ≤ a) (hd : 0 < d)
    (hin : i ≤ n) (hM : a * (2 ^ c + 4 * (n : Int)) ≤ d * M) (h : GoldInv c a d i ab) : ab.1 ≤ M := by
  obtain ⟨hx, hb0, hb1, _, hL, _⟩ := h
  have hP : (0:Int) < 2 ^ c := two_pow_pos' c
  have hin' : (i : Int) ≤ (n : Int) := by exact_mod_cast hin
  have hi0 : (0:Int) ≤ (i : Int) := Int.natCast_nonneg _
  generalize (2:Int) ^ c = P at *
  generalize (i : Int) = I at *
  generalize (n : Int) = N at *
  obtain ⟨x, b⟩ := ab
  simp only at *
  -- x d P ≤ a b (P + 4 I) ≤ a P (P + 4 N) ≤ d M P
  have hb0' : 0 ≤ b := by linarith
  have h1 : x * d * P ≤ a * b * (P + 4 * I) := by nlinarith
  have h2 : a * b * (P + 4 * I) ≤ a * P * (P + 4 * N) := by
    have : a * b ≤ a * P := mul_le_mul_of_nonneg_left hb1 ha
    have h3 : a * b * (P + 4 * I) ≤ a * P * (P + 4 * I) := mul_le_mul_of_nonneg_right this (by linarith)
    have h4 : a * P * (P + 4 * I) ≤ a * P * (P + 4 * N) :=
      mul_le_mul_of_nonneg_left (by linarith) (mul_nonneg ha (le_of_lt hP))
    linarith
  have h3 : (d * P) * x ≤ (d * P) * M := by nlinarith
  exact le_of_mul_le_mul_left h3 (by positivity)

theorem goldInv_step (sg : Bool) {c i n : Nat} {a d M : Int} {ab : Int × Int} (hc4 : 4 ≤ c) (hc : c ≤ 30)
    (ha : 0 ≤ a) (hd : 0 < d) (hin : i + 1 ≤ n) (hn : 4 * (n : Int) ≤ 2 ^ c)
    (hM : a * (2 ^ c + 4 * (n : Int)) ≤ d * M) (hM63 : M * 2 ^ (c + 1) < 2 ^ 63)
    (h : GoldInv c a d i ab) : GoldInv c a d (i + 1) (goldStep sg 64 c ab) := by
  have hxM := goldInv_num_le ha hd (show i ≤ n by omega) hM h
  obtain ⟨hx, hb0, hb1, hU, hL, hE⟩ := h
  obtain ⟨x, b⟩ := ab
  simp only at hx hb0 hb1 hU hL hE hxM
  have hP : (0:Int) < 2 ^ c := two_pow_pos' c
  have hP2 : (0:Int) < 2 ^ (c + 1) := two_pow_pos' _
  have hsucc : (2:Int) ^ (c + 1) = 2 * 2 ^ c := by rw [pow_succ]; ring
  have hP16 : (16:Int) ≤ 2 ^ c := by
    have : (2:Int) ^ 4 ≤ 2 ^ c := pow_le_pow_right₀ (by decide) hc4
    simpa using this
  have hb00 : 0 ≤ b := by linarith
  have hx63 : x * 2 ^ (c + 1) < 2 ^ 63 :=
    lt_of_le_of_lt (mul_le_mul_of_nonneg_right hxM (le_of_lt hP2)) hM63
  rw [goldStep_eq sg hc hb00 hb1 hx hx63]
  have h1 := Int.mul_ediv_add_emod (x * (2 ^ (c + 1) - b)) (2 ^ c)
  have h2 := Int.mul_ediv_add_emod (b * (2 ^ (c + 1) - b)) (2 ^ c)
  have hi : 4 * (i : Int) ≤ 2 ^ c := by
    have : (i : Int) ≤ (n : Int) := by exact_mod_cast (show i ≤ n by omega)
    linarith
  rw [hsucc] at h1 h2 ⊢
  obtain ⟨g1, g2, g3, g4, g5, g6⟩ := gold_core (P := 2 ^ c) (i := (i : Int)) (by linarith) ha hd hx hb0 hb1
    (x' := x * (2 * 2 ^ c - b) / 2 ^ c) (rx := x * (2 * 2 ^ c - b) % 2 ^ c) (by linarith)
    (Int.emod_nonneg _ (ne_of_gt hP)) (Int.emod_lt_of_pos _ hP)
    (b' := b * (2 * 2 ^ c - b) / 2 ^ c) (rb := b * (2 * 2 ^ c - b) % 2 ^ c) (by linarith)
    (Int.emod_nonneg _ (ne_of_gt hP)) (Int.emod_lt_of_pos _ hP)
    (Int.natCast_nonneg _) hi hU hL
  refine ⟨g1, g2, g3, by push_cast; exact g5, by push_cast; exact g6, ?_⟩
  simp only
  have hrb := Int.emod_lt_of_pos (b * (2 * 2 ^ c - b)) hP
  have hrec : 2 ^ c * (2 ^ c - b * (2 * 2 ^ c - b) / 2 ^ c) ≤ (2 ^ c - b) ^ 2 + 2 ^ c * 1 := by
    rw [g4]; linarith
  have hBB : (2:Int) ^ (2 ^ (i + 1)) = 2 ^ (2 ^ i) * 2 ^ (2 ^ i) := by
    rw [pow_succ, pow_mul, sq]
  rw [hBB]
  rcases Nat.eq_zero_or_pos i with hi0 | hi0
  · subst hi0
    norm_num
    -- first round: E ≤ P/2  ⇒  4 E' ≤ P + 4
    generalize b * (2 * 2 ^ c - b) / 2 ^ c = b' at *
    generalize (2:Int) ^ c = P at *
    have h1 : (2 * (P - b)) * (2 * (P - b)) ≤ P * P := mul_self_le_mul_self (by linarith) (by linarith)
    have h2 : P * (4 * (P - b')) ≤ P * (P + 4) := by nlinarith
    have := le_of_mul_le_mul_left h2 hP
    linarith
  · have hB4 : (4:Int) ≤ 2 ^ (2 ^ i) := by
      have : (2:Int) ^ 2 ≤ 2 ^ (2 ^ i) :=
        pow_le_pow_right₀ (by decide) (by
          calc 2 = 2 ^ 1 := rfl
            _ ≤ 2 ^ i := Nat.pow_le_pow_right (by decide) hi0)
      simpa using this
    have hB0 : (0:Int) < 2 ^ (2 ^ i) := two_pow_pos' _
    have := quad_inv_step (Q := 2 ^ c) (R := 1) (B := 2 ^ (2 ^ i)) (E := 2 ^ c - b)
      (E' := 2 ^ c - b * (2 * 2 ^ c - b) / 2 ^ c) hP (by norm_num) (by linarith) hB4
      (by have : 0 ≤ 2 ^ (2 ^ i) * (2 ^ c - b) := mul_nonneg (le_of_lt hB0) (by linarith)
          nlinarith) (by linarith) hrec
    linarith


theorem goldInv_iter (sg : Bool) {c n : Nat} {a d M : Int} (hc4 : 4 ≤ c) (hc : c ≤ 30)
    (ha : 0 ≤ a) (hd : 0 < d) (hn : 4 * (n : Int) ≤ 2 ^ c)
    (hM : a * (2 ^ c + 4 * (n : Int)) ≤ d * M) (hM63 : M * 2 ^ (c + 1) < 2 ^ 63) :
    ∀ (m i : Nat) (ab : Int × Int), i + m ≤ n → GoldInv c a d i ab →
      GoldInv c a d (i + m) (goldIter sg 64 c m ab) := by
  intro m
  induction m with
  | zero => intro i ab _ h; simpa [goldIter] using h
  | succ m ih =>
    intro i ab him h
    have := ih (i + 1) (goldStep sg 64 c ab) (by omega)
      (goldInv_step sg hc4 hc ha hd (by omega) hn hM hM63 h)
    simpa [goldIter, Nat.add_assoc, Nat.add_comm 1 m] using this

/-- the start pair `(a·w₀, d·w₀)` for any initial reciprocal guess with `2^(c-1) ≤ d·w₀ ≤ 2^c`:
    no drift yet. -/
theorem goldInv_start {c : Nat} {a d w : Int} (ha : 0 ≤ a) (hw : 0 ≤ w)
    (hlo : 2 ^ c ≤ 2 * (d * w)) (hhi : d * w ≤ 2 ^ c) : GoldInv c a d 0 (a * w, d * w) := by
  refine ⟨mul_nonneg ha hw, hlo, hhi, ?_, ?_, ?_⟩
  · simp only; rw [show a * (d * w) - a * w * d = 0 by ring]; simp
  · simp only; rw [show a * w * d - a * (d * w) = 0 by ring]; simp
  · simp only; norm_num; linarith

/-- what `GoldInv` says about the returned quotient `x` (cleared of denominators):
    `x·d − a·2^c ≤ 4·n·a` and `B·(a·2^c − x·d) ≤ 4·n·d·B + a·(2^c + 4·B)`, `B = 2^(2^n)`. -/
theorem goldInv_quotient {c n : Nat} {a d : Int} {ab : Int × Int} (ha : 0 ≤ a) (hd : 0 < d)
    (h : GoldInv c a d n ab) :
    ab.1 * d - a * 2 ^ c ≤ 4 * (n : Int) * a ∧
    2 ^ (2 ^ n) * (a * 2 ^ c - ab.1 * d) ≤ 4 * (n : Int) * d * 2 ^ (2 ^ n) + a * (2 ^ c + 4 * 2 ^ (2 ^ n)) := by
  obtain ⟨hx, hb0, hb1, hU, hL, hE⟩ := h
  obtain ⟨x, b⟩ := ab
  simp only at *
  have hP : (0:Int) < 2 ^ c := two_pow_pos' c
  have hB : (0:Int) < 2 ^ (2 ^ n) := two_pow_pos' _
  have hn0 : (0:Int) ≤ (n : Int) := Int.natCast_nonneg _
  generalize (2:Int) ^ c = P at *
  generalize (2:Int) ^ (2 ^ n) = B at *
  generalize (n : Int) = N at *
  have hb00 : 0 ≤ b := by linarith
  constructor
  · -- (x d − a b) P ≤ 4 N a b ≤ 4 N a P
    have h1 : 4 * N * a * b ≤ 4 * N * a * P := mul_le_mul_of_nonneg_left hb1 (by positivity)
    have h2 : P * (x * d - a * b) ≤ P * (4 * N * a) := by nlinarith
    have h3 := le_of_mul_le_mul_left h2 hP
    have h4 : 0 ≤ a * (P - b) := mul_nonneg ha (by linarith)
    nlinarith
  · have h1 : 4 * N * d * b ≤ 4 * N * d * P := mul_le_mul_of_nonneg_left hb1 (by positivity)
    have h2 : P * (a * b - x * d) ≤ P * (4 * N * d) := by nlinarith
    have h3 := le_of_mul_le_mul_left h2 hP
    have h4 : a * (B * (P - b)) ≤ a * (P + 4 * B) := mul_le_mul_of_nonneg_left hE ha
    have h5 : B * (a * b - x * d) ≤ B * (4 * N * d) := mul_le_mul_of_nonneg_left h3 (le_of_lt hB)
    nlinarith

/-- **n-step quotient bound of GoldschmidtDivision** with a supplied (or any) initial reciprocal
    guess `w` with `2^(c-1) ≤ d·w ≤ 2^c`: caps `4 ≤ c ≤ 30`, dividend `a ≥ 0`, divisor `d > 0`,
    `iters = n + 1` with `n ≥ 0` loop rounds, `4n ≤ 2^c`, and the no-wrap guard `M·2^(c+1) < 2^63` for
    some `M ≥ a·(2^c + 4n)/d` (`M` bounds every intermediate numerator; `≈ a·2^c/d`). -/
theorem gold_nstep (sg : Bool) {c n : Nat} {a d w M : Int} (hc4 : 4 ≤ c) (hc : c ≤ 30)
    (ha : 0 ≤ a) (hd : 0 < d) (hw : 0 ≤ w) (hlo : 2 ^ c ≤ 2 * (d * w)) (hhi : d * w ≤ 2 ^ c)
    (hn : 4 * (n : Int) ≤ 2 ^ c)
    (hM : a * (2 ^ c + 4 * (n : Int)) ≤ d * M) (hM63 : M * 2 ^ (c + 1) < 2 ^ 63) :
    ∃ q, goldschmidt sg 64 c (n + 1) a d (some w) = some q ∧ ∃ b, GoldInv c a d n (q, b) := by
  have hP : (0:Int) < 2 ^ c := two_pow_pos' c
  have hP2 : (0:Int) < 2 ^ (c + 1) := two_pow_pos' _
  have h0 := goldInv_start (c := c) ha hw hlo hhi
  have haw := goldInv_num_le ha hd (Nat.zero_le n) hM h0
  simp only at haw
  have hM0 : 0 ≤ M := le_trans (mul_nonneg ha hw) haw
  have hM' : M < 2 ^ 63 := by
    have : M * 1 ≤ M * 2 ^ (c + 1) := mul_le_mul_of_nonneg_left (by linarith) hM0
    linarith
  have hP30 : (2:Int) ^ c ≤ 2 ^ 30 := pow_le_pow_right₀ (by decide) hc
  have e1 : mul sg 64 a w = a * w := by
    unfold mul; exact wrap64_nonneg sg (mul_nonneg ha hw) (by linarith)
  have e2 : mul sg 64 d w = d * w := by
    unfold mul; exact wrap64_nonneg sg (by linarith) (by
      have : (2:Int) ^ 30 < 2 ^ 63 := by norm_num
      linarith)
  have hit := goldInv_iter sg hc4 hc ha hd hn hM hM63 n 0 _ (by omega) h0
  rw [Nat.zero_add] at hit
  refine ⟨(goldIter sg 64 c n (a * w, d * w)).1, ?_, (goldIter sg 64 c n (a * w, d * w)).2, hit⟩
  unfold goldschmidt
  rw [if_neg (by omega)]
  simp only [e1, e2, Nat.add_sub_cancel]

/-- the same WITHOUT a supplied approximation: the bit-derived guess satisfies the start condition
    for every `0 < d < 2^c`. -/
theorem gold_bits_nstep (sg : Bool) {c n : Nat} {a d M : Int} (hc4 : 4 ≤ c) (hc : c ≤ 30)
    (ha : 0 ≤ a) (hd : 0 < d) (hdc : d < 2 ^ c) (hn : 4 * (n : Int) ≤ 2 ^ c)
    (hM : a * (2 ^ c + 4 * (n : Int)) ≤ d * M) (hM63 : M * 2 ^ (c + 1) < 2 ^ 63) :
    ∃ q, goldschmidt sg 64 c (n + 1) a d none = some q ∧ ∃ b, GoldInv c a d n (q, b) := by
  have hb := initInv_bracket (s := 64) (c := c) (d := d) (by omega) (by decide) hd hdc
  have hpos := initInv_pos (s := 64) (c := c) (d := d) (by omega) (by decide) hd hdc
  have hpred : (2:Int) ^ c = 2 * 2 ^ (c - 1) := two_pow_pred c (by omega)
  have := gold_nstep sg (w := initInv 64 c d) hc4 hc ha hd (le_of_lt hpos)
    (by rw [mul_comm d]; linarith [hb.1]) (by rw [mul_comm d]; exact le_of_lt hb.2) hn hM hM63
  simpa [goldschmidt] using this


end CCV.Approx
