import CCV.Model.MaskTy
import CCV.Lemmas.Mask
import CCV.Lemmas.MaskRev
import CCV.Lemmas.PivotTyped
/- Well-typedness of the evaluation of an exported graph: with `tyOk`, every node value lies in the
   type of its tag, hence every certified message lies in the type of its pivot. -/
set_option linter.unusedSectionVars false
namespace CCV.Mask
open CCV.Pivot
variable {R : Type} [AddCommGroup R]

/-- types by tag: predicates on `R` closed under 0, +, − (subgroups) -/
structure TagTypes (R : Type) [AddCommGroup R] where
  P : Nat → R → Prop
  zero : ∀ t, P t 0
  add : ∀ t a b, P t a → P t b → P t (a + b)
  neg : ∀ t a, P t a → P t (-a)

theorem TagTypes.sub (T : TagTypes R) (t : Nat) (a b : R) (ha : T.P t a) (hb : T.P t b) : T.P t (a - b) := by
  rw [sub_eq_add_neg]; exact T.add t a (-b) ha (T.neg t b hb)

/-- the types of the tape variables induced by the variable-type table -/
def TagTypes.vars (T : TagTypes R) (vty : List Nat) : Types R :=
  ⟨fun v => T.P (vty.getD v 0), fun _ => T.zero _, fun _ => T.add _, fun _ => T.neg _⟩

/-- the parameters of the semantics respect the type tags: the observer's own inputs, the masks it
    knows, and the results of all non-additive operations (this is type soundness of the evaluator,
    C09, for the operations of the graph) -/
def LeafOK (T : TagTypes R) (sem : Nat → List R → R) (own kn : Nat → R) (tys : List Nat) (idx : Nat)
    (n : Node) : Prop :=
  match n.k with
  | .own i => T.P (tys.getD idx 0) (own i)
  | .tapeK v => T.P (tys.getD idx 0) (kn v)
  | .op tag => ∀ args, T.P (tys.getD idx 0) (sem tag args)
  | _ => True

/-- the secrets respect the type tags -/
def SecretOK (T : TagTypes R) (x : Nat → R) (tys : List Nat) (idx : Nat) (n : Node) : Prop :=
  match n.k with
  | .hid i => T.P (tys.getD idx 0) (x i)
  | _ => True

section
variable (T : TagTypes R) (sem : Nat → List R → R) (own kn : Nat → R) (x ρ : Nat → R)
variable (tys vty : List Nat)

theorem arg_typed (env : List R) (deps : List Nat) (t : Nat)
    (hsc : ∀ d ∈ deps, d < env.length)
    (henv : ∀ j, j < env.length → T.P (tys.getD j 0) (env.getD j 0))
    (hall : deps.all (fun d => tys.getD d 0 == t) = true) (j : Nat) :
    T.P t ((deps.map (fun d => env.getD d 0)).getD j 0) := by
  by_cases hj : j < deps.length
  · have e : (deps.map (fun d => env.getD d 0)).getD j 0 = env.getD deps[j] 0 := by
      simp [List.getD_eq_getElem?_getD, hj]
    rw [e]
    have hmem : deps[j] ∈ deps := List.getElem_mem hj
    have ht : tys.getD deps[j] 0 = t := by
      have := List.all_eq_true.mp hall _ hmem
      simpa using this
    rw [← ht]
    exact henv _ (hsc _ hmem)
  · have e : (deps.map (fun d => env.getD d 0)).getD j 0 = 0 := by
      simp [List.getD_eq_getElem?_getD, List.getElem?_eq_none (by simpa using Nat.le_of_not_lt hj)]
    rw [e]; exact T.zero t

theorem node_typed (env : List R) (n : Node)
    (hsc : ∀ d ∈ n.deps, d < env.length)
    (henv : ∀ j, j < env.length → T.P (tys.getD j 0) (env.getD j 0))
    (hty : tyNodeOk tys vty env.length n = true)
    (hleaf : LeafOK T sem own kn tys env.length n) (hsec : SecretOK T x tys env.length n)
    (hρ : TypedTape (T.vars vty) ρ) :
    T.P (tys.getD env.length 0) (evalNode sem own kn x ρ env n) := by
  unfold tyNodeOk at hty
  unfold LeafOK at hleaf
  unfold SecretOK at hsec
  unfold evalNode
  cases hk : n.k with
  | hid i => rw [hk] at hsec; exact hsec
  | own i => rw [hk] at hleaf; exact hleaf
  | tapeK v => rw [hk] at hleaf; exact hleaf
  | op tag => rw [hk] at hleaf; exact hleaf _
  | tapeU v =>
    rw [hk] at hty
    simp only [Bool.and_eq_true, decide_eq_true_eq, beq_iff_eq] at hty
    have := hρ v
    show T.P (tys.getD env.length 0) (ρ v)
    rw [← hty.2]; exact this
  | nop =>
    rw [hk] at hty
    exact arg_typed T tys env n.deps _ hsc henv hty 0
  | add =>
    rw [hk] at hty
    exact T.add _ _ _ (arg_typed T tys env n.deps _ hsc henv hty 0) (arg_typed T tys env n.deps _ hsc henv hty 1)
  | sub =>
    rw [hk] at hty
    exact T.sub _ _ _ (arg_typed T tys env n.deps _ hsc henv hty 0) (arg_typed T tys env n.deps _ hsc henv hty 1)

theorem run_typed (hρ : TypedTape (T.vars vty) ρ) : ∀ (g : List Node) (env : List R),
    tyRunOk tys vty g env.length = true → wellScoped g env.length = true →
    (∀ j, j < env.length → T.P (tys.getD j 0) (env.getD j 0)) →
    (∀ j n, g[j]? = some n → LeafOK T sem own kn tys (env.length + j) n ∧ SecretOK T x tys (env.length + j) n) →
    ∀ j, j < (evalRun sem own kn x ρ g env).length →
      T.P (tys.getD j 0) ((evalRun sem own kn x ρ g env).getD j 0)
  | [], env, _, _, henv, _ => by simpa [evalRun] using henv
  | n :: g, env, hty, hw, henv, hleaf => by
    obtain ⟨hsc, hw'⟩ := wellScoped_cons n g _ hw
    simp only [tyRunOk, Bool.and_eq_true] at hty
    simp only [evalRun]
    have h0 := hleaf 0 n (by simp)
    have hv := node_typed T sem own kn x ρ tys vty env n hsc henv hty.1 (by simpa using h0.1) (by simpa using h0.2) hρ
    apply run_typed hρ g (env ++ [evalNode sem own kn x ρ env n])
    · simpa using hty.2
    · simpa using hw'
    · intro j hj
      simp only [List.length_append, List.length_singleton] at hj
      by_cases hlt : j < env.length
      · rw [getD_append_lt env _ _ j hlt]; exact henv j hlt
      · have e : j = env.length := by omega
        subst e
        rw [getD_append_eq]; exact hv
    · intro j n' hn'
      have := hleaf (j + 1) n' (by simpa using hn')
      simpa [Nat.add_assoc, Nat.add_comm 1 j] using this

end

/-- all the type hypotheses about the semantics of one exported graph -/
def SemOK (T : TagTypes R) (sem : Nat → List R → R) (own kn : Nat → R) (g : List Node) (tys : List Nat) : Prop :=
  ∀ j n, g[j]? = some n → LeafOK T sem own kn tys j n

/-- admissible secrets -/
def SecOK (T : TagTypes R) (g : List Node) (tys : List Nat) (x : Nat → R) : Prop :=
  ∀ j n, g[j]? = some n → SecretOK T x tys j n

/-- **every node value lies in the type of its tag** -/
theorem eval_typed (T : TagTypes R) (sem : Nat → List R → R) (own kn : Nat → R) (g : List Node)
    (tys vty : List Nat) (cert : Cert) (h : tyOk g tys vty cert = true) (hw : wellScoped g 0 = true)
    (hsem : SemOK T sem own kn g tys) (x ρ : Nat → R) (hx : SecOK T g tys x)
    (hρ : TypedTape (T.vars vty) ρ) (m : Nat) (hm : m < g.length) :
    T.P (tys.getD m 0) ((evalRun sem own kn x ρ g []).getD m 0) := by
  simp only [tyOk, Bool.and_eq_true, decide_eq_true_eq] at h
  apply run_typed T sem own kn x ρ tys vty hρ g [] (by simpa using h.1.2) (by simpa using hw)
    (fun _ hj => absurd hj (by simp))
  · intro j n hn
    exact ⟨by simpa using hsem j n hn, by simpa using hx j n hn⟩
  · rw [evalRun_length]; simpa using hm

/-- **certified messages take their values in the type of their pivot** -/
theorem cert_msgs_typed (T : TagTypes R) (sem : Nat → List R → R) (own kn : Nat → R) (g : List Node)
    (tys vty : List Nat) (cert : Cert) (h : tyOk g tys vty cert = true) (hd : discOk g cert = true)
    (hsem : SemOK T sem own kn g tys) :
    ∀ m ∈ cert.map (toMsg sem own kn g), MsgTyped (T.vars vty) (SecOK T g tys) m := by
  intro m hm
  obtain ⟨mv, hmv, rfl⟩ := List.mem_map.mp hm
  intro x ρ hx hρ
  have hd' := hd
  simp only [discOk, Bool.and_eq_true, List.all_eq_true, decide_eq_true_eq] at hd'
  have hlt : mv.1 < g.length := hd'.1.2 mv hmv
  have hc := h
  simp only [tyOk, Bool.and_eq_true, List.all_eq_true, decide_eq_true_eq] at hc
  have hmvt := hc.2 mv hmv
  simp only [Bool.and_eq_true, decide_eq_true_eq, beq_iff_eq] at hmvt
  have := eval_typed T sem own kn g tys vty cert h hd'.1.1 hsem x ρ hx hρ mv.1 hlt
  show T.P (vty.getD mv.2 0) ((evalRun sem own kn x ρ g []).getD mv.1 0)
  rw [← hmvt.2]; exact this

end CCV.Mask
