import CCV.Model.Ops
/-
  Kernel lemmas: the modular kernels of bytes.rs (`add_u128`, `multiply_u128`,
  `subtract_vectors_u128`, their u64 variants, and the dot / sum folds) compute integer
  arithmetic modulo `2^w` on the integers denoted by the stored residues.
-/
namespace CCV.Ops
open CCV

/-! ### basic facts about widths -/

theorem bits_le (st : ST) : st.bits ≤ 128 := by cases st <;> decide

theorem pow_bits_dvd (st : ST) : 2 ^ st.bits ∣ 2 ^ 128 := Nat.pow_dvd_pow 2 (bits_le st)

theorem pow_bits_pos (st : ST) : 0 < 2 ^ st.bits := Nat.pow_pos (by decide)

/-- reducing mod 2^128 first does not change the low `w` bits -/
theorem mod128_mod (st : ST) (x : Nat) : x % 2 ^ 128 % 2 ^ st.bits = x % 2 ^ st.bits :=
  Nat.mod_mod_of_dvd x (pow_bits_dvd st)

/-- sign extension does not change the residue -/
theorem ext_mod (st : ST) (r : Nat) : ext st r % 2 ^ st.bits = r % 2 ^ st.bits := by
  cases st <;> simp only [ext, ST.bits, ST.signed, Bool.false_eq_true, false_and, if_false] <;>
    first | rfl | (split <;> omega)

/-- the integer denoted: `toInt r ≡ r (mod 2^w)` -/
theorem toInt_emod (st : ST) (r : Nat) :
    st.toInt r % ((2 ^ st.bits : Nat) : Int) = ((r % 2 ^ st.bits : Nat) : Int) := by
  cases st <;> simp only [ST.toInt, ST.bits, ST.signed, Bool.false_eq_true, false_and, if_false] <;>
    first | omega | (split <;> omega)

/-- residue of a natural number -/
theorem ofInt_natCast (st : ST) (n : Nat) : st.ofInt (n : Int) = n % 2 ^ st.bits := by
  unfold ST.ofInt
  rw [← Int.natCast_emod, Int.toNat_natCast]

example : ext .i8 200 = 2 ^ 128 - 56 ∧ ST.i8.toInt 200 = -56 ∧ ST.i8.ofInt (-56) = 200 := by decide

/-! ### congruences -/

/-- `ofInt` only depends on the residue class -/
theorem ofInt_congr (st : ST) (x y : Int)
    (h : x % ((2 ^ st.bits : Nat) : Int) = y % ((2 ^ st.bits : Nat) : Int)) :
    st.ofInt x = st.ofInt y := by
  unfold ST.ofInt; rw [h]

theorem low_eq_ofInt (st : ST) (n : Nat) : low st n = st.ofInt (n : Int) :=
  (ofInt_natCast st n).symm

theorem add_congr (W a a' b b' : Int) (ha : a % W = a' % W) (hb : b % W = b' % W) :
    (a + b) % W = (a' + b') % W := by
  rw [Int.add_emod, ha, hb, ← Int.add_emod]

theorem sub_congr (W a a' b b' : Int) (ha : a % W = a' % W) (hb : b % W = b' % W) :
    (a - b) % W = (a' - b') % W := by
  rw [Int.sub_emod, ha, hb, ← Int.sub_emod]

theorem mul_congr (W a a' b b' : Int) (ha : a % W = a' % W) (hb : b % W = b' % W) :
    (a * b) % W = (a' * b') % W := by
  rw [Int.mul_emod, ha, hb, ← Int.mul_emod]

/-- `toInt r ≡ ext r (mod 2^w)` -/
theorem toInt_ext (st : ST) (r : Nat) :
    st.toInt r % ((2 ^ st.bits : Nat) : Int) = ((ext st r : Nat) : Int) % ((2 ^ st.bits : Nat) : Int) := by
  rw [toInt_emod, ← ext_mod, Int.natCast_emod]

/-- `toInt r ≡ r (mod 2^w)` -/
theorem toInt_nat (st : ST) (r : Nat) :
    st.toInt r % ((2 ^ st.bits : Nat) : Int) = (r : Int) % ((2 ^ st.bits : Nat) : Int) := by
  rw [toInt_emod, Int.natCast_emod]

/-! ### the u128 kernels modulo `2^w` (Nat residues) -/

theorem modulus_cases (st : ST) : modulus st = none ∨ modulus st = some (2 ^ st.bits) := by
  unfold modulus; split
  · exact Or.inl rfl
  · exact Or.inr rfl

theorem addU128_mod (st : ST) (x y : Nat) :
    addU128 x y (modulus st) % 2 ^ st.bits = (x + y) % 2 ^ st.bits := by
  rcases modulus_cases st with h | h <;> rw [h] <;> simp only [addU128]
  · exact mod128_mod st _
  · rw [Nat.mod_mod]; exact mod128_mod st _

theorem mulU128_mod (st : ST) (x y : Nat) :
    mulU128 x y (modulus st) % 2 ^ st.bits = (x * y) % 2 ^ st.bits := by
  rcases modulus_cases st with h | h <;> rw [h] <;> simp only [mulU128]
  · exact mod128_mod st _
  · rw [Nat.mod_mod]; exact mod128_mod st _

theorem subU128_mod (st : ST) (x y : Nat) :
    subU128 x y (modulus st) % 2 ^ st.bits = (x + (2 ^ 128 - y % 2 ^ 128)) % 2 ^ st.bits := by
  rcases modulus_cases st with h | h <;> rw [h] <;> simp only [subU128]
  · exact mod128_mod st _
  · rw [Nat.mod_mod]; exact mod128_mod st _

/-! ### the u128 kernels modulo `2^w` (as integers) -/

theorem cast_congr (W n k : Nat) (h : n % W = k % W) : (n : Int) % (W : Int) = (k : Int) % (W : Int) := by
  rw [← Int.natCast_emod, ← Int.natCast_emod, h]

theorem addU128_emod (st : ST) (x y : Nat) :
    ((addU128 x y (modulus st) : Nat) : Int) % ((2 ^ st.bits : Nat) : Int)
      = ((x : Int) + y) % ((2 ^ st.bits : Nat) : Int) := by
  rw [cast_congr _ _ _ (addU128_mod st x y), Int.natCast_add]

theorem mulU128_emod (st : ST) (x y : Nat) :
    ((mulU128 x y (modulus st) : Nat) : Int) % ((2 ^ st.bits : Nat) : Int)
      = ((x : Int) * y) % ((2 ^ st.bits : Nat) : Int) := by
  rw [cast_congr _ _ _ (mulU128_mod st x y), Int.natCast_mul]

theorem subU128_emod (st : ST) (x y : Nat) :
    ((subU128 x y (modulus st) : Nat) : Int) % ((2 ^ st.bits : Nat) : Int)
      = ((x : Int) - y) % ((2 ^ st.bits : Nat) : Int) := by
  rw [cast_congr _ _ _ (subU128_mod st x y), Int.natCast_add,
    Int.ofNat_sub (Nat.le_of_lt (Nat.mod_lt _ (by decide))), Int.natCast_emod]
  have hd : ((2 ^ st.bits : Nat) : Int) ∣ ((2 ^ 128 : Nat) : Int) := Int.natCast_dvd_natCast.mpr (pow_bits_dvd st)
  have h1 : ((2 ^ 128 : Nat) : Int) % ((2 ^ st.bits : Nat) : Int) = 0 % ((2 ^ st.bits : Nat) : Int) := by
    rw [Int.emod_eq_zero_of_dvd hd, Int.zero_emod]
  have h2 : ((y : Int) % ((2 ^ 128 : Nat) : Int)) % ((2 ^ st.bits : Nat) : Int)
      = (y : Int) % ((2 ^ st.bits : Nat) : Int) := Int.emod_emod_of_dvd _ hd
  rw [add_congr _ _ _ _ _ rfl (sub_congr _ _ _ _ _ h1 h2)]
  congr 1; omega

/-! ### element kernels -/

/-- u128 path, all 11 scalar types: the three evaluator kernels are integer arithmetic mod 2^w -/
theorem add_kernel (st : ST) (a b : Nat) :
    low st (addU128 (ext st a) (ext st b) (modulus st)) = st.ofInt (st.toInt a + st.toInt b) := by
  rw [low_eq_ofInt]
  apply ofInt_congr
  rw [addU128_emod]
  exact (add_congr _ _ _ _ _ (toInt_ext st a) (toInt_ext st b)).symm

theorem sub_kernel (st : ST) (a b : Nat) :
    low st (subU128 (ext st a) (ext st b) (modulus st)) = st.ofInt (st.toInt a - st.toInt b) := by
  rw [low_eq_ofInt]
  apply ofInt_congr
  rw [subU128_emod]
  exact (sub_congr _ _ _ _ _ (toInt_ext st a) (toInt_ext st b)).symm

theorem mul_kernel (st : ST) (a b : Nat) :
    low st (mulU128 (ext st a) (ext st b) (modulus st)) = st.ofInt (st.toInt a * st.toInt b) := by
  rw [low_eq_ofInt]
  apply ofInt_congr
  rw [mulU128_emod]
  exact (mul_congr _ _ _ _ _ (toInt_ext st a) (toInt_ext st b)).symm

/-- MixedMultiply: second operand is a bit, not sign-extended -/
theorem mixed_mul_kernel (st : ST) (a b : Nat) :
    low st (mulU128 (ext st a) b (modulus st)) = st.ofInt (st.toInt a * (b : Int)) := by
  rw [low_eq_ofInt]
  apply ofInt_congr
  rw [mulU128_emod]
  exact (mul_congr _ _ _ _ _ (toInt_ext st a) rfl).symm

/-- non-vacuity: i8 `3 - 5 = -2 ↦ 254`; u128 with values ≥ 2^64; i128 `-1 * -1 = 1`; i16 add -/
example : low .i8 (subU128 (ext .i8 3) (ext .i8 5) (modulus .i8)) = 254 := by decide
example : low .u128 (mulU128 (ext .u128 (2 ^ 64 + 3)) (ext .u128 (2 ^ 64 + 5)) (modulus .u128))
    = 8 * 2 ^ 64 + 15 := by decide
example : low .i128 (mulU128 (ext .i128 (2 ^ 128 - 1)) (ext .i128 (2 ^ 128 - 1)) (modulus .i128)) = 1 := by
  decide
example : low .i16 (addU128 (ext .i16 65535) (ext .i16 65535) (modulus .i16)) = 65534 := by decide
example : low .i32 (mulU128 (ext .i32 (2 ^ 32 - 7)) 1 (modulus .i32)) = 2 ^ 32 - 7 := by decide

/-! ### u64 kernels -/

/-- u64 path with an explicit modulus `m` (any modulus) and the wrapping path -/
theorem addU64_some (a b m : Nat) : addU64 a b (some m) = (((a : Int) + b) % m).toNat := by
  simp only [addU64]
  rw [← Int.natCast_add, ← Int.natCast_emod, Int.toNat_natCast]

theorem addU64_none (a b : Nat) :
    addU64 a b none = (((a : Int) + b) % ((2 ^ 64 : Nat) : Int)).toNat := by
  simp only [addU64]
  rw [← Int.natCast_add, ← Int.natCast_emod, Int.toNat_natCast]

theorem mulU64_some (a b m : Nat) : mulU64 a b (some m) = (((a : Int) * b) % m).toNat := by
  simp only [mulU64]
  rw [← Int.natCast_mul, ← Int.natCast_emod, Int.toNat_natCast]

theorem mulU64_none (a b : Nat) :
    mulU64 a b none = (((a : Int) * b) % ((2 ^ 64 : Nat) : Int)).toNat := by
  simp only [mulU64]
  rw [← Int.natCast_mul, ← Int.natCast_emod, Int.toNat_natCast]

/-- `(a + (m - b % m)) % m` is `a - b` modulo `m` -/
theorem sub_mod_cast (a b m : Nat) (hm : 0 < m) :
    (((a + (m - b % m)) % m : Nat) : Int) = ((a : Int) - b) % (m : Int) := by
  rw [Int.natCast_emod, Int.natCast_add, Int.ofNat_sub (Nat.le_of_lt (Nat.mod_lt _ hm)),
    Int.natCast_emod]
  have h1 : (m : Int) % (m : Int) = 0 % (m : Int) := by rw [Int.emod_self, Int.zero_emod]
  have h2 : ((b : Int) % (m : Int)) % (m : Int) = (b : Int) % (m : Int) := Int.emod_emod_of_dvd _ (Int.dvd_refl _)
  rw [add_congr _ _ _ _ _ rfl (sub_congr _ _ _ _ _ h1 h2)]
  congr 1; omega

/-- the `m - v % m` subtraction is subtraction mod m (also when `v % m = 0`) -/
theorem subU64_some (a b m : Nat) (hm : 0 < m) :
    subU64 a b (some m) = (((a : Int) - b) % m).toNat := by
  simp only [subU64]
  rw [← sub_mod_cast a b m hm, Int.toNat_natCast]

theorem subU64_none (a b : Nat) :
    subU64 a b none = (((a : Int) - b) % ((2 ^ 64 : Nat) : Int)).toNat := by
  simp only [subU64]
  rw [← sub_mod_cast a b (2 ^ 64) (by decide), Int.toNat_natCast]

example : subU64 5 14 (some 7) = 5 := by decide
example : subU64 5 14 none = 2 ^ 64 - 9 := by decide
example : addU64 (2 ^ 64 - 1) 2 none = 1 ∧ addU64 6 5 (some 7) = 4 := by decide
example : mulU64 (2 ^ 63) 2 none = 0 ∧ mulU64 6 5 (some 7) = 2 := by decide

/-! ### folds -/

/-- invariant of the dot-product loop with an arbitrary accumulator -/
theorem dotFold_inv (st : ST) (ps : List (Nat × Nat)) (acc : Nat) :
    low st ((ps.map fun p => (ext st p.1, ext st p.2)).foldl
        (fun res p => addU128 res (mulU128 p.1 p.2 (modulus st)) (modulus st)) acc)
      = st.ofInt ((acc : Int) + (ps.map fun p => st.toInt p.1 * st.toInt p.2).sum) := by
  induction ps generalizing acc with
  | nil => simp only [List.map_nil, List.foldl_nil, List.sum_nil, Int.add_zero]; exact low_eq_ofInt st acc
  | cons p ps ih =>
    simp only [List.map_cons, List.foldl_cons, List.sum_cons]
    rw [ih]
    apply ofInt_congr
    rw [← Int.add_assoc]
    apply add_congr _ _ _ _ _ _ rfl
    rw [addU128_emod]
    apply add_congr _ _ _ _ _ rfl
    rw [mulU128_emod]
    exact (mul_congr _ _ _ _ _ (toInt_ext st p.1) (toInt_ext st p.2)).symm

/-- folds: dot product and sum accumulate to the integer dot product / sum mod 2^w -/
theorem dotFold_spec (st : ST) (ps : List (Nat × Nat)) :
    low st (dotFold addU128 mulU128 (modulus st) (ps.map fun p => (ext st p.1, ext st p.2)))
      = st.ofInt ((ps.map fun p => st.toInt p.1 * st.toInt p.2).sum) := by
  unfold dotFold
  rw [dotFold_inv]
  congr 1
  simp only [Int.natCast_zero, Int.zero_add]

theorem sumFold_inv (st : ST) (xs : List Nat) (acc : Nat) :
    low st ((xs.map (ext st)).foldl (fun res v => addU128 res v (modulus st)) acc)
      = st.ofInt ((acc : Int) + (xs.map st.toInt).sum) := by
  induction xs generalizing acc with
  | nil => simp only [List.map_nil, List.foldl_nil, List.sum_nil, Int.add_zero]; exact low_eq_ofInt st acc
  | cons x xs ih =>
    simp only [List.map_cons, List.foldl_cons, List.sum_cons]
    rw [ih]
    apply ofInt_congr
    rw [← Int.add_assoc]
    apply add_congr _ _ _ _ _ _ rfl
    rw [addU128_emod]
    exact add_congr _ _ _ _ _ rfl (toInt_ext st x).symm

theorem sumFold_spec (st : ST) (xs : List Nat) :
    low st ((xs.map (ext st)).foldl (fun res v => addU128 res v (modulus st)) 0)
      = st.ofInt ((xs.map st.toInt).sum) := by
  rw [sumFold_inv]
  congr 1
  simp only [Int.natCast_zero, Int.zero_add]

/-- invariant of the u64 dot-product loop -/
theorem dotU64_inv (ps : List (Nat × Nat)) (m : Nat) (acc : Nat) :
    ((ps.foldl (fun res p => addU64 res (mulU64 p.1 p.2 (some m)) (some m)) acc : Nat) : Int) % (m : Int)
      = ((acc : Int) + (ps.map fun p => (p.1 : Int) * p.2).sum) % (m : Int) := by
  induction ps generalizing acc with
  | nil => simp only [List.foldl_nil, List.map_nil, List.sum_nil, Int.add_zero]
  | cons p ps ih =>
    simp only [List.map_cons, List.foldl_cons, List.sum_cons]
    rw [ih, ← Int.add_assoc]
    apply add_congr _ _ _ _ _ _ rfl
    simp only [addU64, mulU64]
    rw [Int.natCast_emod, Int.emod_emod_of_dvd _ (Int.dvd_refl _), Int.natCast_add]
    apply add_congr _ _ _ _ _ rfl
    rw [Int.natCast_emod, Int.emod_emod_of_dvd _ (Int.dvd_refl _), Int.natCast_mul]

/-- every partial result of the u64 loops is already reduced -/
theorem foldl_lt {α : Type} (f : Nat → α → Nat) (m : Nat) (hf : ∀ r x, f r x < m) (l : List α)
    (acc : Nat) (hacc : acc < m) : l.foldl f acc < m := by
  induction l generalizing acc with
  | nil => exact hacc
  | cons x l ih => exact ih _ (hf _ _)

theorem toNat_emod_of_lt (n m : Nat) (x : Int) (hn : n < m) (h : (n : Int) % (m : Int) = x % (m : Int)) :
    n = (x % (m : Int)).toNat := by
  rw [← h, ← Int.natCast_emod, Int.toNat_natCast, Nat.mod_eq_of_lt hn]

/-- u64 dot product with an explicit modulus -/
theorem dotU64_fold_some (ps : List (Nat × Nat)) (m : Nat) (hm : 0 < m) :
    dotFold addU64 mulU64 (some m) ps = (((ps.map fun p => (p.1 : Int) * p.2).sum) % m).toNat := by
  unfold dotFold
  apply toNat_emod_of_lt
  · exact foldl_lt _ m (fun r x => Nat.mod_lt _ hm) ps 0 hm
  · rw [dotU64_inv ps m 0]
    simp only [Int.natCast_zero, Int.zero_add]

theorem sumU64_inv (xs : List Nat) (m : Nat) (acc : Nat) :
    ((xs.foldl (fun res a => addU64 res a (some m)) acc : Nat) : Int) % (m : Int)
      = ((acc : Int) + (xs.map fun (x : Nat) => (x : Int)).sum) % (m : Int) := by
  induction xs generalizing acc with
  | nil => simp only [List.foldl_nil, List.map_nil, List.sum_nil, Int.add_zero]
  | cons x xs ih =>
    simp only [List.map_cons, List.foldl_cons, List.sum_cons]
    rw [ih, ← Int.add_assoc]
    apply add_congr _ _ _ _ _ _ rfl
    simp only [addU64]
    rw [Int.natCast_emod, Int.emod_emod_of_dvd _ (Int.dvd_refl _), Int.natCast_add]

theorem sumU64_some (xs : List Nat) (m : Nat) (hm : 0 < m) :
    sumU64 xs (some m) = (((xs.map fun (x : Nat) => (x : Int)).sum) % m).toNat := by
  unfold sumU64
  apply toNat_emod_of_lt
  · exact foldl_lt _ m (fun r x => Nat.mod_lt _ hm) xs 0 hm
  · rw [sumU64_inv xs m 0]
    simp only [Int.natCast_zero, Int.zero_add]

/-- non-vacuity: i8 dot `(-1)·2 + 3·(-4) = -14 ↦ 242`; u128 dot above 2^64; sums -/
example : low .i8 (dotFold addU128 mulU128 (modulus .i8)
    ([(255, 2), (3, 252)].map fun p => (ext .i8 p.1, ext .i8 p.2))) = 242 := by decide
example : low .u128 (dotFold addU128 mulU128 (modulus .u128)
    ([(2 ^ 64, 2 ^ 63), (2 ^ 127, 1)].map fun p => (ext .u128 p.1, ext .u128 p.2))) = 0 := by decide
example : low .i16 (([65535, 65535, 5].map (ext .i16)).foldl
    (fun res v => addU128 res v (modulus .i16)) 0) = 3 := by decide
example : dotFold addU64 mulU64 (some 7) [(3, 4), (5, 6)] = 0 := by decide
example : sumU64 [5, 6, 10] (some 7) = 0 := by decide

end CCV.Ops
