import CCV.Model.CompareArr
import CCV.Lemmas.Compare
import CCV.Lemmas.Shape
import CCV.Lemmas.OpsPerm
import CCV.Lemmas.OpsMat
import CCV.Lemmas.TypeInfer
import CCV.Lemmas.EvalOps
/-
  Helper lemmas for the array layer of C16 (`CCV.Model.CompareArr`): shapes produced by
  `expand_to_same_dims` / `pull_out_bits`, the data movement of `pull_out_bits` (a column of the
  bit-first array is the bit string of the operand), broadcasting of the padded shapes, and the
  three broadcasting GF(2) operations of `Mux`.
-/
namespace CCV.CompareArr
open CCV CCV.Shape CCV.Compare

/-! ### `expand_dims` -/

theorem expandDimsLoop_nil_axes (it : Nat) (s : List Nat) : expandDimsLoop it s [] = s := by
  induction s generalizing it with
  | nil => simp [expandDimsLoop]
  | cons d ds ih => simp [expandDimsLoop, skipAxes, ih]

theorem skipAxes_range' (k it : Nat) : skipAxes it (List.range' it k) = (it + k, []) := by
  induction k generalizing it with
  | zero => simp [skipAxes]
  | succ k ih =>
    rw [List.range'_succ, skipAxes, if_pos (Nat.le_refl _), ih]
    simp only [Prod.mk.injEq, and_true]
    omega

theorem expandDimsLoop_range' (k it : Nat) (s : List Nat) :
    expandDimsLoop it s (List.range' it k) = List.replicate k 1 ++ s := by
  cases s with
  | nil => simp [expandDimsLoop, List.map_const']
  | cons d ds =>
    simp only [expandDimsLoop, skipAxes_range', expandDimsLoop_nil_axes, Nat.add_sub_cancel_left]

/-- `expand_dims(x, 0..k)` prepends `k` axes of size 1 -/
theorem expandDims_range (k : Nat) (s : List Nat) :
    expandDims s (List.range k) = List.replicate k 1 ++ s := by
  unfold expandDims
  cases k with
  | zero => simp
  | succ k =>
    rw [if_neg (by simp [List.range_succ])]
    rw [List.range_eq_range', expandDimsLoop_range']

/-! ### `expand_to_same_dims` -/

/-- right-aligned padding with axes of size 1 up to rank `N` -/
def pad (N : Nat) (s : List Nat) : List Nat := List.replicate (N - s.length) 1 ++ s

theorem pad_length (N : Nat) (s : List Nat) (h : s.length ≤ N) : (pad N s).length = N := by
  simp [pad]; omega

theorem expandToSameDims_eq (ra rb : List Nat) (w : Nat) :
    expandToSameDims (ra ++ [w]) (rb ++ [w]) =
      (pad (max ra.length rb.length) ra ++ [w], pad (max ra.length rb.length) rb ++ [w]) := by
  have h1 : max (ra.length + 1) (rb.length + 1) - (ra.length + 1) = max ra.length rb.length - ra.length := by
    simp only [Nat.max_def]; split <;> split <;> omega
  have h2 : max (ra.length + 1) (rb.length + 1) - (rb.length + 1) = max ra.length rb.length - rb.length := by
    simp only [Nat.max_def]; split <;> split <;> omega
  simp only [expandToSameDims, expandDims_range, List.length_append, List.length_singleton, h1, h2, pad,
    List.append_assoc]

/-! ### `pull_out_bits` -/

theorem map_getD_append_range (r t : List Nat) :
    ((List.range r.length).map fun j => (r ++ t).getD j 0) = r := by
  conv => rhs; rw [← Ops.map_getD_range r]
  apply List.map_congr_left
  intro j hj
  simp [List.getD_eq_getElem?_getD, List.getElem?_append_left (List.mem_range.mp hj)]

theorem getD_append_length (r : List Nat) (w : Nat) : (r ++ [w]).getD r.length 0 = w := by
  simp [List.getD_eq_getElem?_getD]

/-- shape after `pull_out_bits`: the bit axis comes first -/
theorem pullOutBits_shape (r : List Nat) (w : Nat) (xs : List Nat) :
    (pullOutBits (r ++ [w]) xs).1 = w :: r := by
  unfold pullOutBits
  cases r with
  | nil => simp
  | cons d ds =>
    rw [if_neg (by simp)]
    simp only [List.length_append, List.length_singleton, Nat.add_sub_cancel, List.map_cons]
    rw [map_getD_append_range, getD_append_length]

/-- data movement of `pull_out_bits`: entry `(k, J)` of the result is entry `(J, k)` of the operand -/
theorem pullOutBits_getD (r : List Nat) (w : Nat) (xs : List Nat) (hlen : xs.length = prod (r ++ [w]))
    (hpos : pos (r ++ [w])) (J : List Nat) (hJ : validIdx J r) (k : Nat) (hk : k < w) :
    (pullOutBits (r ++ [w]) xs).2.getD (k * prod r + flat J r) 0
      = xs.getD (flat (J ++ [k]) (r ++ [w])) 0 := by
  cases r with
  | nil =>
    cases J with
    | nil => simp [pullOutBits, flat, prod]
    | cons x xs => simp [validIdx] at hJ
  | cons d ds =>
    have hI : validIdx (J ++ [k]) ((d :: ds) ++ [w]) := validIdx_append hJ ⟨hk, trivial⟩
    have hJl := validIdx_length hJ
    have hsp := Ops.permuteAxes_spec xs ((d :: ds) ++ [w])
      ((((d :: ds) ++ [w]).length - 1) :: List.range (((d :: ds) ++ [w]).length - 1)) hlen hpos
      (by simp) (by simp [List.nodup_range]) (by
        intro j hj
        simp only [List.length_append, List.length_singleton, Nat.add_sub_cancel, List.mem_cons,
          List.mem_range] at hj
        simp only [List.length_append, List.length_singleton]
        omega) (J ++ [k]) hI
    simp only [Spec.ofFlat] at hsp
    unfold pullOutBits
    rw [if_neg (by simp)]
    simp only [List.length_append, List.length_singleton, Nat.add_sub_cancel, List.map_cons] at hsp ⊢
    rw [map_getD_append_range, getD_append_length] at hsp ⊢
    rw [← hJl, map_getD_append_range, getD_append_length] at hsp
    rw [hJl] at hsp
    simp only [flat] at hsp
    exact hsp

/-- a column of the bit-first array is the bit string of the operand at that position -/
theorem column_pullOutBits (r : List Nat) (w : Nat) (xs : List Nat) (hlen : xs.length = prod (r ++ [w]))
    (hpos : pos (r ++ [w])) (J : List Nat) (hJ : validIdx J r) :
    column w (prod r) (pullOutBits (r ++ [w]) xs).2 (flat J r) = strAt r w xs J := by
  unfold column strAt
  apply List.map_congr_left
  intro k hk
  rw [pullOutBits_getD r w xs hlen hpos J hJ k (List.mem_range.mp hk)]

/-! ### padding with axes of size 1 -/

theorem prod_replicate_one (n : Nat) (s : List Nat) : prod (List.replicate n 1 ++ s) = prod s := by
  induction n with
  | zero => simp
  | succ n ih => simp [List.replicate_succ, prod, ih]

theorem prod_pad (N : Nat) (s : List Nat) : prod (pad N s) = prod s := prod_replicate_one _ _

theorem flat_replicate (n : Nat) (K s : List Nat) :
    flat (List.replicate n 0 ++ K) (List.replicate n 1 ++ s) = flat K s := by
  induction n with
  | zero => simp
  | succ n ih => simp [List.replicate_succ, flat, ih]

theorem validIdx_replicate (n : Nat) (K s : List Nat) (h : validIdx K s) :
    validIdx (List.replicate n 0 ++ K) (List.replicate n 1 ++ s) := by
  induction n with
  | zero => simpa using h
  | succ n ih => simp [List.replicate_succ, validIdx, ih]

theorem pos_replicate (n : Nat) (s : List Nat) (h : pos s) : pos (List.replicate n 1 ++ s) := by
  intro d hd
  rcases List.mem_append.mp hd with h1 | h1
  · rw [(List.mem_replicate.mp h1).2]; exact Nat.one_pos
  · exact h d h1

/-- the evaluator's `index_to_number` (with its `% d`) ignores the digits of leading size-1 axes -/
theorem indexToNumber_replicate (n : Nat) (J s : List Nat) :
    indexToNumber J (List.replicate n 1 ++ s) = indexToNumber (J.drop n) s := by
  induction n generalizing J with
  | zero => simp
  | succ n ih =>
    cases J with
    | nil =>
      have := ih []
      simp only [List.drop_nil] at this ⊢
      rw [← this]
      simp [List.replicate_succ, indexToNumber, i2nAux]
    | cons x xs =>
      simp only [List.replicate_succ, List.cons_append, indexToNumber_cons, Nat.mod_one, Nat.zero_mul,
        Nat.zero_add, List.drop_succ_cons]
      exact ih xs

/-- a column of the pulled-out, padded operand is the bit string of the operand -/
theorem column_pulled_pad (N : Nat) (ra : List Nat) (w : Nat) (xs : List Nat)
    (hlen : xs.length = prod (ra ++ [w])) (hpos : pos (ra ++ [w])) (K : List Nat) (hK : validIdx K ra) :
    column w (prod (pad N ra)) (pullOutBits (pad N ra ++ [w]) xs).2 (flat K ra) = strAt ra w xs K := by
  have hlen' : xs.length = prod (pad N ra ++ [w]) := by
    rw [hlen, prod_append, prod_append, prod_pad]
  have hpos' : pos (pad N ra ++ [w]) := by
    unfold pad
    rw [List.append_assoc]
    exact pos_replicate _ _ hpos
  have h := column_pullOutBits (pad N ra) w xs hlen' hpos' (List.replicate (N - ra.length) 0 ++ K)
    (validIdx_replicate _ _ _ hK)
  unfold pad at h ⊢
  rw [flat_replicate] at h
  rw [h]
  unfold strAt
  apply List.map_congr_left
  intro k _
  rw [List.append_assoc, List.append_assoc, flat_replicate]

/-! ### broadcasting of the bit-first shapes -/

theorem loopE_congr {β : Type} (f g : Nat → Except String β) : ∀ (k i i' : Nat),
    (∀ j, j < k → f (i + j) = g (i' + j)) → TI.loopE f i k = TI.loopE g i' k := by
  intro k
  induction k with
  | zero => intro i i' _; rfl
  | succ k ih =>
    intro i i' h
    have h0 := h 0 (Nat.succ_pos _)
    simp only [Nat.add_zero] at h0
    have h1 := ih (i + 1) (i' + 1) (fun j hj => by
      have := h (j + 1) (by omega)
      rw [Nat.add_assoc, Nat.add_comm 1 j, Nat.add_assoc, Nat.add_comm 1 j]
      exact this)
    simp only [TI.loopE, h0, h1]

theorem dimAt_cons_pad (w N : Nat) (s : List Nat) (j : Nat) :
    TI.dimAt (w :: pad N s) 0 (1 + j) = TI.dimAt s (N - s.length) j := by
  unfold TI.dimAt pad
  rw [if_pos (Nat.zero_le _)]
  have e : 1 + j - 0 = j + 1 := by omega
  rw [e, List.getD_cons_succ]
  by_cases hj : N - s.length ≤ j
  · rw [if_pos hj]
    simp [List.getD_eq_getElem?_getD, List.getElem?_append_right, hj]
  · rw [if_neg hj]
    have : j < N - s.length := by omega
    simp [List.getD_eq_getElem?_getD, List.getElem?_append_left, this]

theorem maxLen_eq_max (s1 s2 : List Nat) : TI.maxLen s1 s2 = max s1.length s2.length := by
  unfold TI.maxLen
  simp only [Nat.max_def]

/-- broadcasting the bit-first, padded shapes = the bit axis followed by the broadcast of the
    operand shapes without their bit axes -/
theorem broadcastShapes_pulled (w : Nat) (ra rb : List Nat) :
    TI.broadcastShapes (w :: pad (max ra.length rb.length) ra) (w :: pad (max ra.length rb.length) rb)
      = (match TI.broadcastShapes ra rb with
         | .ok r => .ok (w :: r)
         | .error e => .error e) := by
  have hla : ra.length ≤ max ra.length rb.length := Nat.le_max_left _ _
  have hlb : rb.length ≤ max ra.length rb.length := Nat.le_max_right _ _
  rw [TI.broadcastShapes_eq, TI.broadcastShapes_eq, maxLen_eq_max, maxLen_eq_max]
  simp only [List.length_cons, pad_length _ _ hla, pad_length _ _ hlb, Nat.max_self, Nat.sub_self]
  rw [TI.loopE]
  have h0 : TI.dimAt (w :: pad (max ra.length rb.length) ra) 0 0 = w := by simp [TI.dimAt]
  have h0' : TI.dimAt (w :: pad (max ra.length rb.length) rb) 0 0 = w := by simp [TI.dimAt]
  simp only [h0, h0', TI.bcastDim_self, Nat.zero_add]
  rw [loopE_congr _ (fun i => TI.bcastDim (TI.dimAt ra (max ra.length rb.length - ra.length) i)
      (TI.dimAt rb (max ra.length rb.length - rb.length) i)) (max ra.length rb.length) 1 0
      (fun j _ => by simp only [dimAt_cons_pad, Nat.zero_add])]
  cases TI.loopE _ 0 (max ra.length rb.length) <;> rfl

/-! ### the comparison operations on whole arrays -/

theorem bitOf_le_one (o : Option Bool) : bitOf o ≤ 1 := by
  cases o with
  | none => simp [bitOf]
  | some b => cases b <;> simp [bitOf]

theorem bitOf_some (b : Bool) : (bitOf (some b) == 1) = b := by
  cases b <;> rfl

theorem strAt_length (r : List Nat) (w : Nat) (xs K : List Nat) : (strAt r w xs K).length = w := by
  simp [strAt]

/-- on strings the code accepts, `compare` answers -/
theorem compare_some (op : Op) (signed : Bool) (a b : List Bool) (h : a.length = b.length)
    (h1 : 1 ≤ a.length) (hs : signed = true → 2 ≤ a.length) : ∃ c, compare op signed a b = some c := by
  have hna : a ≠ [] := by intro e; simp [e] at h1
  have hnb : b ≠ [] := by
    intro e; rw [e] at h; have : a.length = 0 := by simpa using h
    omega
  cases signed with
  | false =>
    obtain ⟨s, hs', _⟩ := foldJ_good a b h hna
    exact ⟨op.post s, by simp [Compare.compare, h, build_eq_foldJ, hs']⟩
  | true =>
    have h2 := hs rfl
    have hl : (flipMsb a).length = (flipMsb b).length := by
      rw [flipMsb_length a hna, flipMsb_length b hnb, h]
    have hnf : flipMsb a ≠ [] := by
      intro e; have := flipMsb_length a hna; rw [e] at this; simp at this; omega
    obtain ⟨s, hs', _⟩ := foldJ_good (flipMsb a) (flipMsb b) hl hnf
    have hlt : ¬ a.length < 2 := by omega
    exact ⟨op.post s, by simp [Compare.compare, h, build_eq_foldJ, hs']; omega⟩

theorem all_pos_of_pos (s : List Nat) (h : pos s) : (s.all fun x => decide (0 < x)) = true := by
  simp only [List.all_eq_true, decide_eq_true_eq]
  exact h

theorem pos_concat (r : List Nat) (w : Nat) (hr : pos r) (hw : 0 < w) : pos (r ++ [w]) := by
  intro d hd
  rcases List.mem_append.mp hd with h | h
  · exact hr d h
  · rw [List.mem_singleton.mp h]; exact hw

/-- `cmpArr` on operands of shapes `ra ++ [w]`, `rb ++ [w]` whose leading shapes broadcast to `rr`:
    accepted, result shape `rr`, and entry `J` is the single-pair `compare` of the two bit strings at
    the broadcast positions of `J`. -/
theorem cmpArr_spec (op : Op) (signed : Bool) (ra rb rr : List Nat) (w : Nat) (xs ys : List Nat)
    (hw : 0 < w) (hs : signed = true → 2 ≤ w) (hpa : pos ra) (hpb : pos rb)
    (hla : xs.length = prod (ra ++ [w])) (hlb : ys.length = prod (rb ++ [w]))
    (hbc : TI.broadcastShapes ra rb = .ok rr) :
    ∃ out, cmpArr op signed (ra ++ [w]) xs (rb ++ [w]) ys = .ok (rr, out) ∧ out.length = prod rr ∧
      (∀ J, validIdx J rr → out.getD (flat J rr) 0
        = bitOf (compare op signed (strAt ra w xs (bcIdx ra J)) (strAt rb w ys (bcIdx rb J)))) ∧
      ∀ x ∈ out, x ≤ 1 := by
  have hpa' := pos_concat ra w hpa hw
  have hpb' := pos_concat rb w hpb hw
  have hbl := EvalOps.bcOK_left hpa hpb hbc
  have hbr := EvalOps.bcOK_right hpa hpb hbc
  have hrl : rr.length = max ra.length rb.length := by
    rw [TI.broadcastShapes_length hbc, maxLen_eq_max]
  have hla' : ra.length ≤ max ra.length rb.length := Nat.le_max_left _ _
  have hlb' : rb.length ≤ max ra.length rb.length := Nat.le_max_right _ _
  refine ⟨cmpPulled op signed w (pad (max ra.length rb.length) ra)
      (pullOutBits (pad (max ra.length rb.length) ra ++ [w]) xs).2 (pad (max ra.length rb.length) rb)
      (pullOutBits (pad (max ra.length rb.length) rb ++ [w]) ys).2 rr, ?_, ?_, ?_, ?_⟩
  · unfold cmpArr
    have hsig : ¬ (signed = true ∧ w < 2) := fun ⟨h1, h2⟩ => by have := hs h1; omega
    have hea : (ra ++ [w]).isEmpty = false := by simp
    have heb : (rb ++ [w]).isEmpty = false := by simp
    simp only [List.getLastD_concat, hea, heb, Bool.false_eq_true,
      all_pos_of_pos _ hpa', all_pos_of_pos _ hpb', not_true_eq_false, or_self, if_false, ne_eq,
      hsig]
    rw [expandToSameDims_eq]
    simp only [pullOutBits_shape, broadcastShapes_pulled, hbc, List.tail_cons]
  · simp [cmpPulled]
  · intro J hJ
    unfold cmpPulled
    rw [getD_map_range _ _ _ (flat_lt hJ)]
    simp only [numberToIndex_flat hJ]
    have ha : indexToNumber (J.drop (rr.length - (pad (max ra.length rb.length) ra).length))
        (pad (max ra.length rb.length) ra) = flat (bcIdx ra J) ra := by
      rw [pad_length _ _ hla', hrl, Nat.sub_self, List.drop_zero]
      unfold pad
      rw [indexToNumber_replicate, ← hrl]
      exact (broadcast_index_law hbl hJ).1
    have hb : indexToNumber (J.drop (rr.length - (pad (max ra.length rb.length) rb).length))
        (pad (max ra.length rb.length) rb) = flat (bcIdx rb J) rb := by
      rw [pad_length _ _ hlb', hrl, Nat.sub_self, List.drop_zero]
      unfold pad
      rw [indexToNumber_replicate, ← hrl]
      exact (broadcast_index_law hbr hJ).1
    rw [ha, hb, column_pulled_pad _ ra w xs hla hpa' _ (broadcast_index_law hbl hJ).2,
      column_pulled_pad _ rb w ys hlb hpb' _ (broadcast_index_law hbr hJ).2]

  · intro x hx
    unfold cmpPulled at hx
    obtain ⟨i, _, rfl⟩ := List.mem_map.mp hx
    exact bitOf_le_one _

/-- shapes that do not broadcast are rejected -/
theorem cmpArr_err (op : Op) (signed : Bool) (ra rb : List Nat) (w : Nat) (xs ys : List Nat) (e : String)
    (hbc : TI.broadcastShapes ra rb = .error e) :
    ∃ e', cmpArr op signed (ra ++ [w]) xs (rb ++ [w]) ys = .error e' := by
  unfold cmpArr
  simp only [List.getLastD_concat]
  split
  · exact ⟨_, rfl⟩
  · split
    · exact ⟨_, rfl⟩
    · split
      · exact ⟨_, rfl⟩
      · rw [expandToSameDims_eq]
        simp only [pullOutBits_shape, broadcastShapes_pulled, hbc]
        exact ⟨_, rfl⟩

/-! ### shapes with the bit axis last -/

theorem dimAt_concat_lt (s : List Nat) (d N j : Nat) (hs : s.length ≤ N) (hj : j < N) :
    TI.dimAt (s ++ [d]) (N + 1 - (s.length + 1)) j = TI.dimAt s (N - s.length) j := by
  unfold TI.dimAt
  have e : N + 1 - (s.length + 1) = N - s.length := by omega
  rw [e]
  by_cases h : N - s.length ≤ j
  · rw [if_pos h, if_pos h]
    have : j - (N - s.length) < s.length := by omega
    simp [List.getD_eq_getElem?_getD, List.getElem?_append_left this]
  · rw [if_neg h, if_neg h]

theorem dimAt_concat_last (s : List Nat) (d N : Nat) (hs : s.length ≤ N) :
    TI.dimAt (s ++ [d]) (N + 1 - (s.length + 1)) N = d := by
  unfold TI.dimAt
  have e : N + 1 - (s.length + 1) = N - s.length := by omega
  rw [e, if_pos (Nat.sub_le _ _)]
  have : N - (N - s.length) = s.length := by omega
  simp [List.getD_eq_getElem?_getD, this]

theorem maxLen_concat (s1 s2 : List Nat) (d1 d2 : Nat) :
    TI.maxLen (s1 ++ [d1]) (s2 ++ [d2]) = TI.maxLen s1 s2 + 1 := by
  unfold TI.maxLen
  simp only [List.length_append, List.length_singleton]
  split <;> split <;> omega

theorem le_maxLen_left (s1 s2 : List Nat) : s1.length ≤ TI.maxLen s1 s2 := by
  unfold TI.maxLen; split <;> omega

theorem le_maxLen_right (s1 s2 : List Nat) : s2.length ≤ TI.maxLen s1 s2 := by
  unfold TI.maxLen; split <;> omega

/-- broadcasting shapes that carry one more (last) axis -/
theorem broadcastShapes_concat {s1 s2 r : List Nat} {d1 d2 d : Nat}
    (h : TI.broadcastShapes s1 s2 = .ok r) (hd : TI.bcastDim d1 d2 = .ok d) :
    TI.broadcastShapes (s1 ++ [d1]) (s2 ++ [d2]) = .ok (r ++ [d]) := by
  obtain ⟨hl, hj⟩ := (TI.broadcastShapes_ok_iff s1 s2 r).mp h
  rw [TI.broadcastShapes_ok_iff, maxLen_concat]
  refine ⟨by simp [hl], ?_⟩
  intro j hjl
  simp only [List.length_append, List.length_singleton]
  by_cases hlt : j < r.length
  · rw [dimAt_concat_lt s1 d1 _ j (le_maxLen_left s1 s2) (hl ▸ hlt),
      dimAt_concat_lt s2 d2 _ j (le_maxLen_right s1 s2) (hl ▸ hlt), hj j hlt]
    simp [List.getElem_append_left hlt]
  · have hje : j = TI.maxLen s1 s2 := by
      simp only [List.length_append, List.length_singleton] at hjl
      omega
    subst hje
    rw [dimAt_concat_last s1 d1 _ (le_maxLen_left s1 s2),
      dimAt_concat_last s2 d2 _ (le_maxLen_right s1 s2), hd]
    simp [← hl]

theorem bcastDim_one_left (w : Nat) (hw : 0 < w) : TI.bcastDim 1 w = .ok w := by
  unfold TI.bcastDim
  rw [if_neg (by omega), if_pos (show 1 ≤ w from hw)]

/-- an operand shape broadcast against the common result shape gives the result shape -/
theorem broadcastShapes_absorb {s1 s2 r : List Nat} (h1 : pos s1) (h2 : pos s2)
    (h : TI.broadcastShapes s1 s2 = .ok r) : TI.broadcastShapes s1 r = .ok r := by
  have hl := TI.broadcastShapes_length h
  have hle : s1.length ≤ r.length := hl ▸ le_maxLen_left s1 s2
  have hm : TI.maxLen s1 r = r.length := by unfold TI.maxLen; split <;> omega
  rw [TI.broadcastShapes_ok_iff, hm]
  refine ⟨rfl, ?_⟩
  intro j hj
  rw [Nat.sub_self, TI.dimAt_zero_lt r j hj]
  obtain ⟨hd, _, hp⟩ := TI.broadcastShapes_dims h1 h2 h j hj
  rcases hd with hd | hd
  · rw [hd]; exact TI.bcastDim_self _
  · rw [hd]; exact bcastDim_one_left _ hp

/-! ### broadcast indices -/

theorem bcIdx_self {I s : List Nat} (h : validIdx I s) : bcIdx s I = I := by
  unfold bcIdx
  rw [validIdx_length h, Nat.sub_self, List.drop_zero]
  induction s generalizing I with
  | nil => cases I with
    | nil => rfl
    | cons x xs => simp [validIdx] at h
  | cons d ds ih =>
    cases I with
    | nil => simp [validIdx] at h
    | cons x xs =>
      simp only [validIdx] at h
      simp only [List.zipWith_cons_cons, ih h.2]
      by_cases hd : d = 1
      · simp [hd]; omega
      · simp [hd]

theorem zipWith_concat {α β γ : Type} (f : α → β → γ) (l1 : List α) (l2 : List β) (a : α) (b : β)
    (h : l1.length = l2.length) : List.zipWith f (l1 ++ [a]) (l2 ++ [b]) = List.zipWith f l1 l2 ++ [f a b] := by
  rw [List.zipWith_append h]
  rfl

theorem bcIdx_concat (s J : List Nat) (d k : Nat) (h : s.length ≤ J.length) :
    bcIdx (s ++ [d]) (J ++ [k]) = bcIdx s J ++ [if d = 1 then 0 else k] := by
  unfold bcIdx
  simp only [List.length_append, List.length_singleton]
  have e : J.length + 1 - (s.length + 1) = J.length - s.length := by omega
  rw [e, List.drop_append_of_le_length (by omega)]
  rw [zipWith_concat _ _ _ _ _ (by simp; omega)]

/-- for a valid last digit the size-1 rule changes nothing -/
theorem bcIdx_concat_lt (s J : List Nat) (w k : Nat) (h : s.length ≤ J.length) (hk : k < w) :
    bcIdx (s ++ [w]) (J ++ [k]) = bcIdx s J ++ [k] := by
  rw [bcIdx_concat s J w k h]
  by_cases hw : w = 1
  · have : k = 0 := by omega
    simp [hw, this]
  · simp [hw]

/-! ### the broadcasting GF(2) operations and `Mux` -/

theorem bit_add (a b : Nat) : ST.bit.ofInt (ST.bit.toInt a + ST.bit.toInt b) = (a + b) % 2 := by
  simp only [ST.toInt, ST.ofInt, ST.signed, ST.bits, Bool.false_eq_true, false_and, if_false]
  omega

theorem bit_mul (a b : Nat) : ST.bit.ofInt (ST.bit.toInt a * ST.bit.toInt b) = (a * b) % 2 := by
  simp only [ST.toInt, ST.ofInt, ST.signed, ST.bits, Bool.false_eq_true, false_and, if_false]
  have h : ((a % 2 ^ 1 : Nat) : Int) * ((b % 2 ^ 1 : Nat) : Int) = (((a % 2) * (b % 2) : Nat) : Int) := by
    simp
  rw [h]
  have h2 : (a % 2) * (b % 2) % 2 = (a * b) % 2 := (Nat.mul_mod a b 2).symm
  omega

/-- one broadcasting operation at scalar type BIT: accepted with the broadcast shape; entry `I` is
    the integer operation of the entries at the broadcast positions, modulo 2 -/
theorem gf2_spec (op : Ops.Arith) (s1 xs s2 ys sr : List Nat) (h1 : pos s1) (h2 : pos s2)
    (h : TI.broadcastShapes s1 s2 = .ok sr) :
    ∃ r, gf2 op s1 xs s2 ys = .ok (sr, r) ∧ r.length = prod sr ∧
      ∀ I, validIdx I sr → r.getD (flat I sr) 0 =
        ST.bit.ofInt (op.int (ST.bit.toInt (xs.getD (flat (bcIdx s1 I) s1) 0))
          (ST.bit.toInt (ys.getD (flat (bcIdx s2 I) s2) 0))) := by
  obtain ⟨r, hr, hl, he⟩ := Ops.arith_spec op .bit s1 xs s2 ys sr (EvalOps.bcOK_left h1 h2 h)
    (EvalOps.bcOK_right h1 h2 h)
  refine ⟨r, by simp [gf2, h, hr], hl, ?_⟩
  intro I hI
  rw [he I hI]
  rfl

/-- the bit formula of `Mux` on 0/1 values -/
theorem mux_bits (a b f : Nat) (ha : a ≤ 1) (hb : b ≤ 1) (hf : f ≤ 1) :
    ((a + (f * ((a + b) % 2)) % 2) % 2 == 1) = mux (f == 1) (b == 1) (a == 1) := by
  have h1 : a = 0 ∨ a = 1 := by omega
  have h2 : b = 0 ∨ b = 1 := by omega
  have h3 : f = 0 ∨ f = 1 := by omega
  rcases h1 with rfl | rfl <;> rcases h2 with rfl | rfl <;> rcases h3 with rfl | rfl <;> rfl

theorem getD_le_one (xs : List Nat) (h : ∀ x ∈ xs, x ≤ 1) (i : Nat) : xs.getD i 0 ≤ 1 := by
  rw [List.getD_eq_getElem?_getD]
  cases hx : xs[i]? with
  | none => simp
  | some x => simpa using h x (List.mem_of_getElem? hx)

/-- `Mux` on arrays: flag of shape `rr ++ [1]` (a normalised comparison result), choices of shapes
    `r1 ++ [w]`, `r0 ++ [w]` whose leading shapes broadcast to `rr`: result shape `rr ++ [w]`, and bit
    `k` of the string at `J` is `mux` of the flag at `J` and of bit `k` of the two choices at the
    broadcast positions of `J`. -/
theorem muxArr_spec (rr r1 r0 : List Nat) (w : Nat) (fs c1 c0 : List Nat) (hw : 0 < w)
    (hp1 : pos r1) (hp0 : pos r0) (hbc : TI.broadcastShapes r0 r1 = .ok rr)
    (hf : ∀ x ∈ fs, x ≤ 1) (h1 : ∀ x ∈ c1, x ≤ 1) (h0 : ∀ x ∈ c0, x ≤ 1) :
    ∃ out, muxArr (rr ++ [1]) fs (r1 ++ [w]) c1 (r0 ++ [w]) c0 = .ok (rr ++ [w], out) ∧
      out.length = prod (rr ++ [w]) ∧
      ∀ J, validIdx J rr → strAt rr w out J =
        List.zipWith (fun x1 x0 => mux (fs.getD (flat J rr) 0 == 1) x1 x0)
          (strAt r1 w c1 (bcIdx r1 J)) (strAt r0 w c0 (bcIdx r0 J)) := by
  have hprr : pos rr := TI.broadcastShapes_pos hp0 hp1 hbc
  have hp1' := pos_concat r1 w hp1 hw
  have hp0' := pos_concat r0 w hp0 hw
  have hprr' := pos_concat rr w hprr hw
  have hprr1 := pos_concat rr 1 hprr Nat.one_pos
  have hl := TI.broadcastShapes_length hbc
  have hle0 : r0.length ≤ rr.length := hl ▸ le_maxLen_left r0 r1
  have hle1 : r1.length ≤ rr.length := hl ▸ le_maxLen_right r0 r1
  -- the three result shapes
  have hs1 : TI.broadcastShapes (r0 ++ [w]) (r1 ++ [w]) = .ok (rr ++ [w]) :=
    broadcastShapes_concat hbc (TI.bcastDim_self w)
  have hs2 : TI.broadcastShapes (rr ++ [1]) (rr ++ [w]) = .ok (rr ++ [w]) :=
    broadcastShapes_concat (TI.broadcastShapes_idem rr) (bcastDim_one_left w hw)
  have hs3 : TI.broadcastShapes (r0 ++ [w]) (rr ++ [w]) = .ok (rr ++ [w]) :=
    broadcastShapes_concat (broadcastShapes_absorb hp0 hp1 hbc) (TI.bcastDim_self w)
  obtain ⟨t1, e1, l1, g1⟩ := gf2_spec .add (r0 ++ [w]) c0 (r1 ++ [w]) c1 _ hp0' hp1' hs1
  obtain ⟨t2, e2, l2, g2⟩ := gf2_spec .mul (rr ++ [1]) fs (rr ++ [w]) t1 _ hprr1 hprr' hs2
  obtain ⟨t3, e3, l3, g3⟩ := gf2_spec .add (r0 ++ [w]) c0 (rr ++ [w]) t2 _ hp0' hprr' hs3
  refine ⟨t3, by simp only [muxArr, e1, e2, e3], l3, ?_⟩
  intro J hJ
  have hJl := validIdx_length hJ
  unfold strAt
  rw [List.zipWith_map, List.zipWith_self]
  apply List.map_congr_left
  intro k hk
  have hk' := List.mem_range.mp hk
  have hI : validIdx (J ++ [k]) (rr ++ [w]) := validIdx_append hJ ⟨hk', trivial⟩
  rw [g3 _ hI, bcIdx_self hI, g2 _ hI, bcIdx_self hI, g1 _ hI]
  rw [bcIdx_concat_lt r0 J w k (by omega) hk', bcIdx_concat_lt r1 J w k (by omega) hk']
  have hfl : bcIdx (rr ++ [1]) (J ++ [k]) = J ++ [0] := by
    rw [bcIdx_concat rr J 1 k (by omega), bcIdx_self hJ]; simp
  have hff : flat (J ++ [0]) (rr ++ [1]) = flat J rr := by
    rw [flat_append hJl]; simp [flat, prod]
  rw [hfl, hff]
  simp only [Ops.Arith.int, bit_add, bit_mul]
  exact mux_bits _ _ _ (getD_le_one c0 h0 _) (getD_le_one c1 h1 _) (getD_le_one fs hf _)

/-! ### Min / Max on whole arrays -/

/-- `Min` on whole arrays: accepted with shape `rr ++ [w]`; the output string at `J` is `minBits` of
    the operand strings at the broadcast positions of `J`. -/
theorem minArr_spec (signed : Bool) (ra rb rr : List Nat) (w : Nat) (xs ys : List Nat)
    (hw : 0 < w) (hs : signed = true → 2 ≤ w) (hpa : pos ra) (hpb : pos rb)
    (hla : xs.length = prod (ra ++ [w])) (hlb : ys.length = prod (rb ++ [w]))
    (hxa : ∀ x ∈ xs, x ≤ 1) (hxb : ∀ x ∈ ys, x ≤ 1)
    (hbc : TI.broadcastShapes ra rb = .ok rr) :
    ∃ out, minArr signed (ra ++ [w]) xs (rb ++ [w]) ys = .ok (rr ++ [w], out) ∧
      out.length = prod (rr ++ [w]) ∧
      ∀ J, validIdx J rr →
        minBits signed (strAt ra w xs (bcIdx ra J)) (strAt rb w ys (bcIdx rb J)) = some (strAt rr w out J) := by
  obtain ⟨c, hc, _, hce, hc1⟩ := cmpArr_spec .gt signed ra rb rr w xs ys hw hs hpa hpb hla hlb hbc
  obtain ⟨out, ho, hol, hoe⟩ := muxArr_spec rr rb ra w c ys xs hw hpb hpa hbc hc1 hxb hxa
  refine ⟨out, by simp only [minArr, hc, normalizeCmp, ho], hol, ?_⟩
  intro J hJ
  obtain ⟨b, hb⟩ := compare_some .gt signed (strAt ra w xs (bcIdx ra J)) (strAt rb w ys (bcIdx rb J))
    (by simp [strAt_length]) (by simp [strAt_length]; omega) (by simpa [strAt_length] using hs)
  rw [hoe J hJ, hce J hJ]
  simp only [minBits, hb, Option.map_some, bitOf_some]

/-- `Max` on whole arrays. -/
theorem maxArr_spec (signed : Bool) (ra rb rr : List Nat) (w : Nat) (xs ys : List Nat)
    (hw : 0 < w) (hs : signed = true → 2 ≤ w) (hpa : pos ra) (hpb : pos rb)
    (hla : xs.length = prod (ra ++ [w])) (hlb : ys.length = prod (rb ++ [w]))
    (hxa : ∀ x ∈ xs, x ≤ 1) (hxb : ∀ x ∈ ys, x ≤ 1)
    (hbc : TI.broadcastShapes ra rb = .ok rr) :
    ∃ out, maxArr signed (ra ++ [w]) xs (rb ++ [w]) ys = .ok (rr ++ [w], out) ∧
      out.length = prod (rr ++ [w]) ∧
      ∀ J, validIdx J rr →
        maxBits signed (strAt ra w xs (bcIdx ra J)) (strAt rb w ys (bcIdx rb J)) = some (strAt rr w out J) := by
  obtain ⟨c, hc, _, hce, hc1⟩ := cmpArr_spec .gt signed ra rb rr w xs ys hw hs hpa hpb hla hlb hbc
  have hbc' : TI.broadcastShapes rb ra = .ok rr := by rw [TI.broadcastShapes_comm]; exact hbc
  obtain ⟨out, ho, hol, hoe⟩ := muxArr_spec rr ra rb w c xs ys hw hpa hpb hbc' hc1 hxa hxb
  refine ⟨out, by simp only [maxArr, hc, normalizeCmp, ho], hol, ?_⟩
  intro J hJ
  obtain ⟨b, hb⟩ := compare_some .gt signed (strAt ra w xs (bcIdx ra J)) (strAt rb w ys (bcIdx rb J))
    (by simp [strAt_length]) (by simp [strAt_length]; omega) (by simpa [strAt_length] using hs)
  rw [hoe J hJ, hce J hJ]
  simp only [maxBits, hb, Option.map_some, bitOf_some]

/-! ### `put_in_bits` -/


theorem map_getD_cons_range' (w : Nat) (r : List Nat) :
    ((List.range' 1 r.length).map fun j => (w :: r).getD j 0) = r := by
  rw [List.range'_eq_map_range, List.map_map]
  conv => rhs; rw [← Ops.map_getD_range r]
  apply List.map_congr_left
  intro j _
  simp [Nat.add_comm 1 j]

theorem putInBits_shape (r : List Nat) (w : Nat) (xs : List Nat) :
    (putInBits (w :: r) xs).1 = r ++ [w] := by
  unfold putInBits
  cases r with
  | nil => simp
  | cons d ds =>
    rw [if_neg (by simp)]
    simp only [List.length_cons, Nat.add_sub_cancel, List.map_append, List.map_cons, List.map_nil]
    have := map_getD_cons_range' w (d :: ds)
    simp only [List.length_cons] at this
    rw [this]
    simp

/-- data movement of `put_in_bits`: entry `(J, k)` of the result is entry `(k, J)` of the operand -/
theorem putInBits_getD (r : List Nat) (w : Nat) (xs : List Nat) (hlen : xs.length = prod (w :: r))
    (hpos : pos (w :: r)) (J : List Nat) (hJ : validIdx J r) (k : Nat) (hk : k < w) :
    (putInBits (w :: r) xs).2.getD (flat (J ++ [k]) (r ++ [w])) 0
      = xs.getD (flat (k :: J) (w :: r)) 0 := by
  cases r with
  | nil =>
    cases J with
    | nil => simp [putInBits]
    | cons x xs => simp [validIdx] at hJ
  | cons d ds =>
    have hI : validIdx (k :: J) (w :: d :: ds) := ⟨hk, hJ⟩
    have hJl := validIdx_length hJ
    have hsp := Ops.permuteAxes_spec xs (w :: d :: ds)
      (List.range' 1 ((w :: d :: ds).length - 1) ++ [0]) hlen hpos
      (by simp) (by
        rw [List.nodup_append]
        refine ⟨List.nodup_range', by simp, ?_⟩
        intro a ha b hb
        simp only [List.mem_range'_1] at ha
        simp only [List.mem_singleton] at hb
        omega) (by
        intro j hj
        simp only [List.length_cons, Nat.add_sub_cancel, List.mem_append, List.mem_range'_1,
          List.mem_singleton] at hj
        simp only [List.length_cons]
        omega) (k :: J) hI
    simp only [Spec.ofFlat] at hsp
    unfold putInBits
    rw [if_neg (by simp)]
    simp only [List.length_cons, Nat.add_sub_cancel, List.map_append, List.map_cons, List.map_nil] at hsp ⊢
    have e1 := map_getD_cons_range' w (d :: ds)
    have e2 := map_getD_cons_range' k J
    simp only [List.length_cons] at e1
    rw [hJl] at e2
    simp only [List.length_cons] at e2
    rw [e1, e2] at hsp
    rw [e1]
    simpa using hsp



theorem permuteAxes_length (values s perm out : List Nat) :
    (Ops.permuteAxes values s perm out).length = values.length := by
  unfold Ops.permuteAxes
  rw [Ops.foldl_set_length]
  simp

theorem pullOutBits_length (s xs : List Nat) : (pullOutBits s xs).2.length = xs.length := by
  unfold pullOutBits
  split
  · rfl
  · exact permuteAxes_length _ _ _ _


end CCV.CompareArr
