import CCV.Model.Ops
import CCV.Lemmas.OpsPerm
import CCV.Lemmas.OpsStruct
import CCV.Lemmas.OpsMisc
/-!
  ApplyPermutation on payloads of any rank (rows permuted along axis 0) and the round trips
  `apply (inverse p) ∘ apply p = id`, `apply_inverse p ∘ apply p = id`, `apply p ∘ apply_inverse p = id`.
-/
namespace CCV.Ops
open CCV CCV.Shape

/-- row `k` of a flat array with rows of `R` elements -/
def rowOf (xs : List Nat) (R k : Nat) : List Nat := slice xs (k * R) R

theorem rowOf_length (xs : List Nat) (R d k : Nat) (hx : xs.length = d * R) (hk : k < d) :
    (rowOf xs R k).length = R := by
  apply slice_length
  have := Nat.mul_le_mul_right R (Nat.succ_le_of_lt hk)
  rw [Nat.succ_mul] at this
  omega

/-- `gather` along axis 0 = the selected rows, in order -/
theorem gather_axis0 (d : Nat) (rest xs p : List Nat) (hlt : ∀ v ∈ p, v < d) :
    gather (d :: rest) xs p 0 = .ok (p.flatMap (rowOf xs (prod rest))) := by
  have hL : ((List.range 1).flatMap fun ai => p.map fun ie =>
      if d ≤ ie then (Except.error "Incorrect index" : Except String (List Nat))
      else Except.ok (slice xs ((ai * d + ie) * prod rest) (prod rest)))
      = (p.map (rowOf xs (prod rest))).map Except.ok := by
    rw [show List.range 1 = [0] from rfl, List.flatMap_cons, List.flatMap_nil, List.append_nil,
      List.map_map]
    apply List.map_congr_left
    intro ie hie
    have h := hlt ie hie
    simp only [Nat.not_le.mpr h, if_false, Function.comp, Nat.zero_mul, Nat.zero_add, rowOf]
  have e : gather (d :: rest) xs p 0 = (((List.range 1).flatMap fun ai => p.map fun ie =>
      if d ≤ ie then (Except.error "Incorrect index" : Except String (List Nat))
      else Except.ok (slice xs ((ai * d + ie) * prod rest) (prod rest))).mapM id).map (·.flatMap id) := rfl
  rw [e, hL, mapM_id_map_ok]
  show Except.ok ((p.map (rowOf xs (prod rest))).flatMap id) = _
  rw [List.flatMap_map]
  rfl

/-- block `t` of a concatenation of blocks of equal length -/
theorem slice_flatMap {α : Type} (l : List α) (f : α → List Nat) (n : Nat) (hf : ∀ a ∈ l, (f a).length = n)
    (t : Nat) (ht : t < l.length) : slice (l.flatMap f) (t * n) n = f l[t] := by
  induction l generalizing t with
  | nil => simp at ht
  | cons a l ih =>
    have ha := hf a List.mem_cons_self
    cases t with
    | zero =>
      simp only [slice, Nat.zero_mul, List.drop_zero, List.flatMap_cons, List.getElem_cons_zero]
      rw [← ha, List.take_left']
      rfl
    | succ t =>
      simp only [List.flatMap_cons, List.getElem_cons_succ]
      rw [← ih (fun b hb => hf b (List.mem_cons_of_mem _ hb)) t (by simpa using ht)]
      unfold slice
      have hd : List.drop ((t + 1) * n) (f a ++ List.flatMap f l) = List.drop (t * n) (List.flatMap f l) := by
        rw [Nat.succ_mul, Nat.add_comm (t * n) n, List.drop_append, List.drop_of_length_le (by omega),
          List.nil_append]
        congr 1
        omega
      rw [hd]

/-- the rows of an array, concatenated, are the array -/
theorem flatMap_rowOf_range (xs : List Nat) (R d : Nat) (hx : d * R ≤ xs.length) :
    (List.range d).flatMap (rowOf xs R) = xs.take (d * R) := by
  induction d with
  | zero => simp
  | succ d ih =>
    have h1 : d * R ≤ xs.length := by rw [Nat.succ_mul] at hx; omega
    rw [List.range_succ, List.flatMap_append, ih h1, List.flatMap_cons, List.flatMap_nil, List.append_nil,
      Nat.succ_mul, List.take_add]
    rfl

/-- row `k` of the selected rows is the `a[k]`-th row -/
theorem rowOf_flatMap (xs : List Nat) (R d : Nat) (a : List Nat) (hx : xs.length = d * R)
    (ha : ∀ v ∈ a, v < d) (k : Nat) (hk : k < a.length) :
    rowOf (a.flatMap (rowOf xs R)) R k = rowOf xs R (a.getD k 0) := by
  show slice (a.flatMap (rowOf xs R)) (k * R) R = _
  rw [slice_flatMap a (rowOf xs R) R (fun v hv => rowOf_length xs R d v hx (ha v hv)) k hk]
  simp [List.getD_eq_getElem?_getD, hk]

/-- rows selected by `b` from the rows selected by `a` = rows selected by `a ∘ b` -/
theorem gather_rows_compose (xs : List Nat) (R d : Nat) (a b : List Nat) (hx : xs.length = d * R)
    (ha : ∀ v ∈ a, v < d) (hb : ∀ v ∈ b, v < a.length) :
    b.flatMap (rowOf (a.flatMap (rowOf xs R)) R) = b.flatMap (fun k => rowOf xs R (a.getD k 0)) := by
  apply flatMap_congr'
  intro k hk
  exact rowOf_flatMap xs R d a hx ha k (hb k hk)

/-- if `a[b[k]] = k` for all `k`, selecting with `a` and then with `b` gives the array back -/
theorem gather_rows_inverse (xs : List Nat) (R d : Nat) (a b : List Nat) (hx : xs.length = d * R)
    (hal : a.length = d) (hbl : b.length = d) (ha : ∀ v ∈ a, v < d) (hb : ∀ v ∈ b, v < d)
    (hab : ∀ k, k < d → a.getD (b.getD k 0) 0 = k) :
    b.flatMap (rowOf (a.flatMap (rowOf xs R)) R) = xs := by
  rw [gather_rows_compose xs R d a b hx ha (by rw [hal]; exact hb)]
  have hmap : b.map (fun k => a.getD k 0) = List.range d := by
    apply List.ext_getElem
    · simp [hbl]
    · intro i h1 h2
      have hi : i < d := by simpa using h2
      have := hab i hi
      simp only [List.getD_eq_getElem?_getD, List.getElem?_eq_getElem (hbl ▸ hi), Option.getD_some] at this
      simp [List.getD_eq_getElem?_getD, this]
  have : b.flatMap (fun k => rowOf xs R (a.getD k 0)) = (b.map (fun k => a.getD k 0)).flatMap (rowOf xs R) := by
    rw [List.flatMap_map]
  rw [this, hmap, flatMap_rowOf_range xs R d (by omega), ← hx, List.take_length]

/-- the check `ApplyPermutation` performs on its index array accepts a permutation of `0..n-1` -/
theorem perm_check (p : List Nat) (n : Nat) (hpl : p.length = n) (hnd : p.Nodup) (hlt : ∀ v ∈ p, v < n) :
    ((p.filter (· < n)).eraseDups).length = n := by
  have hf : p.filter (· < n) = p := List.filter_eq_self.mpr (fun a ha => by simpa using hlt a ha)
  rw [hf, eraseDups_of_nodup p hnd, hpl]

/-- the inverse of a permutation is a permutation, and inverts on both sides -/
theorem inversePermutation_perm (p : List Nat) (hnd : p.Nodup) (hlt : ∀ v ∈ p, v < p.length) :
    ∃ q, inversePermutation p = .ok q ∧ q.length = p.length ∧ q.Nodup ∧ (∀ v ∈ q, v < p.length) ∧
      (∀ i, i < p.length → q.getD (p.getD i 0) 0 = i) ∧ (∀ k, k < p.length → p.getD (q.getD k 0) 0 = k) := by
  obtain ⟨q, hq, hql, hqi⟩ := inversePermutation_spec p hnd hlt
  have hsurj := mem_of_nodup_lt rfl hnd hlt
  have hpq : ∀ k, k < p.length → q.getD k 0 < p.length ∧ p.getD (q.getD k 0) 0 = k := by
    intro k hk
    obtain ⟨j, hj, hjk⟩ := List.mem_iff_getElem.mp (hsurj k hk)
    have h1 := hqi j hj
    have : p.getD j 0 = k := by simp [List.getD_eq_getElem?_getD, hj, hjk]
    rw [this] at h1
    rw [h1]
    exact ⟨hj, this⟩
  have hqlt : ∀ v ∈ q, v < p.length := by
    intro v hv
    obtain ⟨k, hk, rfl⟩ := List.mem_iff_getElem.mp hv
    have := (hpq k (hql ▸ hk)).1
    simpa [List.getD_eq_getElem?_getD, hk] using this
  refine ⟨q, hq, hql, ?_, hqlt, hqi, fun k hk => (hpq k hk).2⟩
  apply List.pairwise_iff_getElem.mpr
  intro i j hi hj hij e
  have h1 := (hpq i (hql ▸ hi)).2
  have h2 := (hpq j (hql ▸ hj)).2
  simp only [List.getD_eq_getElem?_getD, List.getElem?_eq_getElem hi, List.getElem?_eq_getElem hj,
    Option.getD_some, e] at h1 h2
  omega

theorem applyPermutation_unfold (inv : Bool) (d : Nat) (rest xs perm : List Nat) :
    applyPermutation inv (d :: rest) xs perm =
      if ((perm.filter (· < d)).eraseDups).length ≠ d then
        .error "Argument 1 doesn't contain a valid permutation."
      else
        match (if inv then executeInversePermutation perm else .ok perm) with
        | .error e => .error e
        | .ok p => gather (d :: rest) xs p 0 := rfl

/-- **ApplyPermutation on a payload of any rank** (`p` a permutation of `0..d-1`, rows of
    `Π rest` elements): plain: row `i` of the result is row `p[i]` of the input; inverse: row `p[i]`
    of the result is row `i` of the input; and the three round trips. -/
theorem applyPermutation_rows (d : Nat) (rest xs p : List Nat) (hx : xs.length = d * prod rest)
    (hpl : p.length = d) (hnd : p.Nodup) (hlt : ∀ v ∈ p, v < d) :
    ∃ q ys zs, inversePermutation p = .ok q ∧
      applyPermutation false (d :: rest) xs p = .ok ys ∧ ys.length = xs.length ∧
      (∀ i, i < d → rowOf ys (prod rest) i = rowOf xs (prod rest) (p.getD i 0)) ∧
      applyPermutation true (d :: rest) xs p = .ok zs ∧ zs.length = xs.length ∧
      (∀ i, i < d → rowOf zs (prod rest) (p.getD i 0) = rowOf xs (prod rest) i) ∧
      applyPermutation false (d :: rest) ys q = .ok xs ∧
      applyPermutation true (d :: rest) ys p = .ok xs ∧
      applyPermutation false (d :: rest) zs p = .ok xs := by
  subst hpl
  obtain ⟨q, hq, hql, hqnd, hqlt, hqp, hpq⟩ := inversePermutation_perm p hnd hlt
  have hexec : executeInversePermutation p = .ok q := by
    simpa only [inversePermutation, hnd, not_true_eq_false, if_false] using hq
  have hcp := perm_check p p.length rfl hnd hlt
  have hcq := perm_check q p.length hql hqnd hqlt
  have hrows : ∀ (a : List Nat), a.length = p.length → (∀ v ∈ a, v < p.length) →
      (a.flatMap (rowOf xs (prod rest))).length = xs.length ∧
      ∀ i, i < p.length → rowOf (a.flatMap (rowOf xs (prod rest))) (prod rest) i = rowOf xs (prod rest) (a.getD i 0) := by
    intro a hal ha
    have hf : ∀ v ∈ a, (rowOf xs (prod rest) v).length = prod rest :=
      fun v hv => rowOf_length xs _ _ v hx (ha v hv)
    constructor
    · rw [length_flatMap_const a _ _ hf, hal, hx]
    · intro i hi
      exact rowOf_flatMap xs _ _ a hx ha i (hal ▸ hi)
  have hap : ∀ (inv : Bool) (a : List Nat) (w : List Nat), ((a.filter (· < p.length)).eraseDups).length = p.length →
      (if inv then executeInversePermutation a else Except.ok a) = Except.ok w → (∀ v ∈ w, v < p.length) →
      ∀ ws, applyPermutation inv (p.length :: rest) ws a = .ok (w.flatMap (rowOf ws (prod rest))) := by
    intro inv a w hc hw hwlt ws
    have hne : ¬ ((a.filter (· < p.length)).eraseDups).length ≠ p.length := fun h => h hc
    rw [applyPermutation_unfold, if_neg hne, hw]
    exact gather_axis0 p.length rest ws w hwlt
  refine ⟨q, p.flatMap (rowOf xs (prod rest)), q.flatMap (rowOf xs (prod rest)), hq,
    hap false p p hcp rfl hlt xs, (hrows p rfl hlt).1, (hrows p rfl hlt).2,
    hap true p q hcp (by simpa using hexec) hqlt xs, (hrows q hql hqlt).1, ?_, ?_, ?_, ?_⟩
  · intro i hi
    have := (hrows q hql hqlt).2 (p.getD i 0) (hlt _ (getD_mem p i hi 0))
    rw [this, hqp i hi]
  · rw [hap false q q hcq rfl hqlt]
    exact congrArg Except.ok (gather_rows_inverse xs _ _ p q hx rfl hql hlt hqlt hpq)
  · rw [hap true p q hcp (by simpa using hexec) hqlt]
    exact congrArg Except.ok (gather_rows_inverse xs _ _ p q hx rfl hql hlt hqlt hpq)
  · rw [hap false p p hcp rfl hlt]
    exact congrArg Except.ok (gather_rows_inverse xs _ _ q p hx hql rfl hqlt hlt hqp)

example : applyPermutation false [3, 2] [1, 2, 3, 4, 5, 6] [2, 0, 1] = .ok [5, 6, 1, 2, 3, 4] := by rfl
example : applyPermutation true [3, 2] [5, 6, 1, 2, 3, 4] [2, 0, 1] = .ok [1, 2, 3, 4, 5, 6] := by rfl

end CCV.Ops
