import CCV.Lemmas.OptimizerEvalDefs
import CCV.Lemmas.OpsMisc
import CCV.Lemmas.EvalOps4
import CCV.Lemmas.TypeInfer
/-
  The A2B / B2A cancellation laws of the optimiser for the evaluator instance `semE`
  (`OptimizerEvalDefs.lean`): `A2B(B2A_st(x)) = x` and `B2A_st(A2B(x)) = x` preserve value AND type
  whenever the left-hand side evaluates.

  `a2b_b2a_law` holds as stated.  `b2a_a2b_law` as first stated is FALSE: the (invalid) type
  `array [] st` is accepted by `a2b_type_inference` (which does not check validity of its argument),
  its summary is `.arr 0 st` like a scalar, and `B2A_st(A2B(x))` re-types it as `scalar st`
  (`b2a_a2b_counterexample`).  `b2a_a2b_law'` adds the weakest hypothesis excluding this (the type of
  `x` is not a dimensionless array); `b2a_a2b_law_valid` derives it from validity of the type of `x`.
-/
namespace CCV.OptEval
open CCV CCV.TV CCV.TI CCV.EvalOps

/-! ### inversion of `allSome` / `liftE` / `hasTypeB` -/

theorem okE_some {v : VE} (h : okE v) : ∃ r, v = some r := by
  cases v with
  | none => simp [okE] at h
  | some r => exact ⟨r, rfl⟩

theorem allSome_one {α : Type} {v : Option α} {ws : List α} (h : allSome [v] = some ws) :
    ∃ w, v = some w ∧ ws = [w] := by
  cases v with
  | none => simp [allSome] at h
  | some w =>
    simp only [allSome, Option.some.injEq] at h
    exact ⟨w, rfl, h.symm⟩

/-- a successful unary node: the argument succeeded, checks against its type, the node is accepted
    by `process_node` and evaluates -/
theorem liftE_one_inv {op : TI.Op} {v : VE} {r : TV.Ty × EV} (h : liftE op [v] = some r) :
    ∃ t e, v = some (t, e) ∧ hasTypeB t e = true ∧ infer op [t] = .ok r.1 ∧
      evalOp op [t] [e] = .ok r.2 := by
  unfold liftE at h
  split at h
  · cases h
  · rename_i ws hws
    obtain ⟨w, rfl, rfl⟩ := allSome_one hws
    split at h
    · rename_i hty
      simp only [List.all_cons, List.all_nil, Bool.and_true] at hty
      simp only [List.map_cons, List.map_nil] at h
      split at h
      · rename_i t' v' hi he
        injection h with h
        subst h
        exact ⟨w.1, w.2, rfl, hty, hi, he⟩
      · cases h
    · cases h

theorem liftE_one_intro {op : TI.Op} {t t' : TV.Ty} {e e' : EV} (hty : hasTypeB t e = true)
    (hi : infer op [t] = .ok t') (he : evalOp op [t] [e] = .ok e') :
    liftE op [some (t, e)] = some (t', e') := by
  simp [liftE, allSome, hty, hi, he]

theorem hasTypeB_array {s : List Nat} {st : ST} {e : EV} (h : hasTypeB (.array s st) e = true) :
    ∃ xs, e = .arr xs ∧ xs.length = Shape.prod s ∧ ∀ x ∈ xs, x < 2 ^ st.bits := by
  cases e with
  | arr xs =>
    simp only [hasTypeB, Bool.and_eq_true, beq_iff_eq, List.all_eq_true, decide_eq_true_eq] at h
    exact ⟨xs, rfl, h.1, h.2⟩
  | vec vs => simp [hasTypeB] at h

theorem hasTypeB_scalar {st : ST} {e : EV} (h : hasTypeB (.scalar st) e = true) :
    ∃ xs, e = .arr xs ∧ xs.length = 1 ∧ ∀ x ∈ xs, x < 2 ^ st.bits := by
  cases e with
  | arr xs =>
    simp only [hasTypeB, Bool.and_eq_true, beq_iff_eq, List.all_eq_true, decide_eq_true_eq] at h
    exact ⟨xs, rfl, h.1, h.2⟩
  | vec vs => simp [hasTypeB] at h

/-! ### the kernels -/

theorem range_bits_eq_unpackN (n x : Nat) :
    ((List.range n).map fun k => x / 2 ^ k % 2) = Bytes.unpackN x n := by
  induction n generalizing x with
  | zero => simp [Bytes.unpackN]
  | succ n ih =>
    rw [List.range_succ_eq_map, List.map_cons, List.map_map, Bytes.unpackN, ← ih]
    simp only [Nat.pow_zero, Nat.div_one, List.cons.injEq, true_and]
    apply List.map_congr_left
    intro k _
    simp only [Function.comp, Nat.pow_succ, Nat.mul_comm (2 ^ k) 2, Nat.div_div_eq_div_mul]

/-- the bits of `packBits c` are `c` -/
theorem bits_packBits (c : List Nat) (hc : ∀ b ∈ c, b < 2) :
    ((List.range c.length).map fun k => Bytes.packBits c / 2 ^ k % 2) = c := by
  rw [range_bits_eq_unpackN,
    Bytes.unpackN_packBits c (fun y hy => Nat.le_of_lt_succ (hc y hy)) c.length (Nat.le_refl _)]
  simp

/-- `B2A` then `A2B` on a flat array of `d × w` bits is the identity -/
theorem a2b_of_b2a (st : ST) (hst : st ≠ .bit) (d : Nat) (bits : List Nat)
    (hl : bits.length = d * st.bits) (hb : ∀ b ∈ bits, b < 2) :
    ∃ r, Ops.b2a st bits = .ok r ∧ Ops.a2b st r = .ok bits := by
  let cs : List (List Nat) := (List.range d).map fun i => Ops.slice bits (i * st.bits) st.bits
  have hcs : cs.flatMap id = bits := by
    simp only [cs, List.flatMap_map, id]
    exact Ops.flatMap_slices _ _ _ hl
  have hc : ∀ c ∈ cs, c.length = st.bits ∧ ∀ b ∈ c, b < 2 := by
    intro c hc
    obtain ⟨i, hi, rfl⟩ := List.mem_map.mp hc
    have hi := List.mem_range.mp hi
    refine ⟨?_, fun b hbm => hb b (mem_slice hbm)⟩
    apply Ops.slice_length
    rw [hl]
    have := Nat.mul_le_mul_right st.bits hi
    rw [Nat.succ_mul] at this
    exact this
  have h := Ops.b2a_spec st hst cs hc
  rw [hcs] at h
  refine ⟨_, h, ?_⟩
  rw [Ops.a2b_spec st hst]
  · congr 1
    rw [List.flatMap_map]
    conv => rhs; rw [← hcs]
    apply Bytes.flatMap_congr'
    intro c hcm
    have := bits_packBits c (hc c hcm).2
    rw [(hc c hcm).1] at this
    exact this
  · intro x hx
    obtain ⟨c, hcm, rfl⟩ := List.mem_map.mp hx
    have := Ops.packBits_lt c (hc c hcm).2
    rw [(hc c hcm).1] at this
    exact this

/-! ### unfolding `evalOp` / `infer` of the two operations -/

theorem evalOp_b2a_arr {st : ST} {t t1 : TV.Ty} (xs : List Nat) (hi : infer (.b2a st) [t] = .ok t1) :
    evalOp (.b2a st) [t] [.arr xs] = okArr (Ops.b2a st xs) := by
  simp only [evalOp, hi, un]

theorem evalOp_a2b_arr {t t1 : TV.Ty} (xs : List Nat) (hi : infer .a2b [t] = .ok t1) :
    evalOp .a2b [t] [.arr xs] = okArr (Ops.a2b (stE t) xs) := by
  simp only [evalOp, hi, un]

theorem okArr_ok {r : Except String (List Nat)} {ys : List Nat} {e : EV} (h : r = .ok ys)
    (he : okArr r = .ok e) : e = .arr ys := by
  subst h
  simp only [okArr, Except.ok.injEq] at he
  exact he.symm

/-- what `b2a_type_inference` accepts -/
theorem b2aInfer_inv {s : List Nat} {ast st : ST} {t1 : TV.Ty} (h : b2aInfer (.array s ast) st = .ok t1) :
    ast = .bit ∧ st ≠ .bit ∧ s ≠ [] ∧ s.getD (s.length - 1) 0 = st.bits ∧
      t1 = if s.length = 1 then .scalar st else .array (dropLast s) st := by
  unfold b2aInfer at h
  split at h; · cases h
  rename_i hval
  simp only [] at h
  split at h; · cases h
  rename_i hbit
  have hbit : ast = .bit := Classical.byContradiction fun hne => hbit hne
  subst hbit
  split at h; · cases h
  rename_i hst
  split at h; · cases h
  rename_i hlast
  have hlast : s.getD (s.length - 1) 0 = st.bits := Classical.byContradiction fun hne => hlast hne
  have hvalid : (Ty.array s .bit).isValid = true := by
    cases hb : (Ty.array s .bit).isValid with
    | true => rfl
    | false => exact absurd hb hval
  refine ⟨rfl, hst, (valid_array hvalid).1, hlast, ?_⟩
  split at h <;> rename_i h1
  · injection h with h; rw [if_pos h1]; exact h.symm
  · injection h with h; rw [if_neg h1]; exact h.symm

theorem a2bInfer_scalar_inv {st : ST} {t1 : TV.Ty} (h : a2bInfer (.scalar st) = .ok t1) :
    st ≠ .bit ∧ t1 = .array [st.bits] .bit := by
  simp only [a2bInfer] at h
  split at h; · cases h
  rename_i hst
  injection h with h
  exact ⟨hst, h.symm⟩

theorem a2bInfer_array_inv {s : List Nat} {st : ST} {t1 : TV.Ty} (h : a2bInfer (.array s st) = .ok t1) :
    st ≠ .bit ∧ t1 = .array (s ++ [st.bits]) .bit := by
  simp only [a2bInfer] at h
  split at h; · cases h
  rename_i hst
  injection h with h
  exact ⟨hst, h.symm⟩

theorem infer_b2a_raw {st : ST} {t t1 : TV.Ty} (h : infer (.b2a st) [t] = .ok t1) :
    b2aInfer t st = .ok t1 := by
  have hr := infer_ok_raw h
  simpa only [inferRaw, inferUn] using hr

theorem infer_a2b_raw {t t1 : TV.Ty} (h : infer .a2b [t] = .ok t1) : a2bInfer t = .ok t1 := by
  have hr := infer_ok_raw h
  simpa only [inferRaw, inferUn] using hr

theorem dropLast_append_last (s : List Nat) (h : s ≠ []) :
    dropLast s ++ [s.getD (s.length - 1) 0] = s := by
  rcases List.eq_nil_or_concat s with h0 | ⟨l, b, rfl⟩
  · exact absurd h0 h
  · simp [dropLast]

theorem dropLast_concat (s : List Nat) (b : Nat) : dropLast (s ++ [b]) = s := by
  simp [dropLast]

/-! ### the laws -/

/-- **A2B ∘ B2A**: cancelling `A2B(B2A_st(x))` to `x` preserves value and type -/
theorem a2b_b2a_law (T : Tab) (x : VE) (st : Nat)
    (hok : okE (semE T .a2b [semE T (.b2a st) [x]])) :
    semE T .a2b [semE T (.b2a st) [x]] = x := by
  obtain ⟨r, hr⟩ := okE_some hok
  rw [hr]
  change liftE .a2b [liftE (.b2a (T.st st)) [x]] = some r at hr
  generalize T.st st = st' at hr
  obtain ⟨t1, e1, h1, hty1, hi2, he2⟩ := liftE_one_inv hr
  obtain ⟨t, e, rfl, hty, hi1, he1⟩ := liftE_one_inv h1
  obtain ⟨rt, rv⟩ := r
  simp only [] at hi2 he2 hi1 he1
  have hb := infer_b2a_raw hi1
  cases t with
  | array s ast =>
    obtain ⟨rfl, hst, hne, hlast, rfl⟩ := b2aInfer_inv hb
    have hp := prod_dropLast s hne
    rw [hlast] at hp
    obtain ⟨xs, rfl, hlen, hbits⟩ := hasTypeB_array hty
    obtain ⟨ys, hys, hya⟩ := a2b_of_b2a st' hst _ xs (hlen.trans hp) hbits
    rw [evalOp_b2a_arr xs hi1] at he1
    have e1eq := okArr_ok hys he1
    subst e1eq
    rw [evalOp_a2b_arr ys hi2] at he2
    have ha := infer_a2b_raw hi2
    by_cases h1 : s.length = 1
    · rw [if_pos h1] at ha he2
      obtain ⟨_, rfl⟩ := a2bInfer_scalar_inv ha
      have e : stE (.scalar st') = st' := rfl
      rw [e] at he2
      have := okArr_ok hya he2
      subst this
      obtain ⟨d, rfl⟩ := List.length_eq_one_iff.mp h1
      simp only [List.length_cons, List.length_nil, Nat.zero_add, Nat.sub_self, List.getD_cons_zero] at hlast
      rw [hlast]
    · rw [if_neg h1] at ha he2
      obtain ⟨_, rfl⟩ := a2bInfer_array_inv ha
      have e : stE (.array (dropLast s) st') = st' := rfl
      rw [e] at he2
      have := okArr_ok hya he2
      subst this
      have := dropLast_append_last s hne
      rw [hlast] at this
      rw [this]
  | scalar _ => simp only [b2aInfer] at hb; split at hb <;> cases hb
  | vector _ _ => simp only [b2aInfer] at hb; split at hb <;> cases hb
  | tuple _ => simp only [b2aInfer] at hb; split at hb <;> cases hb
  | named _ => simp only [b2aInfer] at hb; split at hb <;> cases hb

/-- the result of `B2A_st(A2B(x))` for `x` of scalar type `st` -/
theorem b2a_a2b_core {x : VE} {st0 : ST} {r : TV.Ty × EV}
    (hr : liftE (.b2a st0) [liftE .a2b [x]] = some r)
    (hx : (∃ e, x = some (.scalar st0, e)) ∨ (∃ s e, s ≠ [] ∧ x = some (.array s st0, e))) :
    some r = x := by
  obtain ⟨t1, e1, h1, hty1, hi2, he2⟩ := liftE_one_inv hr
  obtain ⟨t, e, hxe, hty, hi1, he1⟩ := liftE_one_inv h1
  obtain ⟨rt, rv⟩ := r
  simp only [] at hi2 he2 hi1 he1
  have ha := infer_a2b_raw hi1
  have hb := infer_b2a_raw hi2
  rcases hx with ⟨e', hx⟩ | ⟨s, e', hs, hx⟩
  · rw [hx] at hxe
    injection hxe with hxe
    injection hxe with ht he
    subst ht he hx
    obtain ⟨hst, rfl⟩ := a2bInfer_scalar_inv ha
    obtain ⟨xs, rfl, hlen, hlt⟩ := hasTypeB_scalar hty
    obtain ⟨bits, hbits, hback⟩ := Ops.b2a_a2b st0 hst xs hlt
    rw [evalOp_a2b_arr xs hi1] at he1
    have e : stE (.scalar st0) = st0 := rfl
    rw [e] at he1
    have := okArr_ok hbits he1
    subst this
    rw [evalOp_b2a_arr bits hi2] at he2
    have := okArr_ok hback he2
    subst this
    obtain ⟨_, _, _, _, rfl⟩ := b2aInfer_inv hb
    rfl
  · rw [hx] at hxe
    injection hxe with hxe
    injection hxe with ht he
    subst ht he hx
    obtain ⟨hst, rfl⟩ := a2bInfer_array_inv ha
    obtain ⟨xs, rfl, hlen, hlt⟩ := hasTypeB_array hty
    obtain ⟨bits, hbits, hback⟩ := Ops.b2a_a2b st0 hst xs hlt
    rw [evalOp_a2b_arr xs hi1] at he1
    have e : stE (.array s st0) = st0 := rfl
    rw [e] at he1
    have := okArr_ok hbits he1
    subst this
    rw [evalOp_b2a_arr bits hi2] at he2
    have := okArr_ok hback he2
    subst this
    obtain ⟨_, _, _, _, rfl⟩ := b2aInfer_inv hb
    have hl : ¬ (s ++ [st0.bits]).length = 1 := by
      have : 0 < s.length := List.length_pos_iff.mpr hs
      simp only [List.length_append, List.length_cons, List.length_nil]
      omega
    rw [if_neg hl, dropLast_concat]

/-- **B2A ∘ A2B** (corrected, see `b2a_a2b_counterexample`): cancelling `B2A_st(A2B(x))` to `x`, for `x`
    of scalar type `st`, preserves value and type provided the type of `x` is not the (invalid)
    dimensionless array type `array [] st'` -/
theorem b2a_a2b_law' (T : Tab) (hst : ∀ s, T.st (T.stc s) = s) (x : VE) (nd st : Nat)
    (h : tyvE T x = .arr nd st) (hne : ∀ st' e, x ≠ some (.array [] st', e))
    (hok : okE (semE T (.b2a st) [semE T .a2b [x]])) :
    semE T (.b2a st) [semE T .a2b [x]] = x := by
  obtain ⟨r, hr⟩ := okE_some hok
  rw [hr]
  change liftE (.b2a (T.st st)) [liftE .a2b [x]] = some r at hr
  apply b2a_a2b_core hr
  cases x with
  | none => simp [tyvE] at h
  | some p =>
    obtain ⟨t, e⟩ := p
    simp only [tyvE] at h
    cases t with
    | scalar st0 =>
      simp only [sumTy, Optimizer.Ty.arr.injEq] at h
      rw [← h.2, hst]
      exact .inl ⟨e, rfl⟩
    | array s st0 =>
      simp only [sumTy, Optimizer.Ty.arr.injEq] at h
      rw [← h.2, hst]
      refine .inr ⟨s, e, ?_, rfl⟩
      intro hs
      subst hs
      exact hne st0 e rfl
    | vector _ _ => simp [sumTy] at h
    | tuple _ => simp [sumTy] at h
    | named _ => simp [sumTy] at h

/-- `b2a_a2b_law` for values of a valid type (what `SimpleEvaluator` sees) -/
theorem b2a_a2b_law_valid (T : Tab) (hst : ∀ s, T.st (T.stc s) = s) (x : VE) (nd st : Nat)
    (h : tyvE T x = .arr nd st) (hv : ∀ t e, x = some (t, e) → t.isValid = true)
    (hok : okE (semE T (.b2a st) [semE T .a2b [x]])) :
    semE T (.b2a st) [semE T .a2b [x]] = x := by
  apply b2a_a2b_law' T hst x nd st h _ hok
  intro st' e hx
  have := hv _ _ hx
  simp [Ty.isValid, isValidShape] at this

/-! ### the counterexample to the unrestricted `B2A ∘ A2B` law -/

def stcX : ST → Nat
  | .bit => 0 | .u8 => 1 | .i8 => 2 | .u16 => 3 | .i16 => 4 | .u32 => 5 | .i32 => 6
  | .u64 => 7 | .i64 => 8 | .u128 => 9 | .i128 => 10

def stX : Nat → ST
  | 0 => .bit | 1 => .u8 | 2 => .i8 | 3 => .u16 | 4 => .i16 | 5 => .u32 | 6 => .i32
  | 7 => .u64 | 8 => .i64 | 9 => .u128 | _ => .i128

def tabX : Tab :=
  { nm := fun _ => "", ty := fun _ => .scalar .bit, st := stX, stc := stcX, cst := fun _ => none,
    op := fun _ => .nop }

/-- `x = (array [] u8, [5])`, `st = u8`: the summary type of `x` is `.arr 0 u8`, the left-hand side
    evaluates to `(scalar u8, [5])`, a different type. So `b2a_a2b_law` without the extra hypothesis
    of `b2a_a2b_law'` is false. -/
theorem b2a_a2b_counterexample :
    (∀ s, tabX.st (tabX.stc s) = s) ∧
    tyvE tabX (some (.array [] .u8, .arr [5])) = .arr 0 1 ∧
    semE tabX (.b2a 1) [semE tabX .a2b [some (.array [] .u8, .arr [5])]]
      = some (.scalar .u8, .arr [5]) ∧
    semE tabX (.b2a 1) [semE tabX .a2b [some (.array [] .u8, .arr [5])]]
      ≠ some (.array [] .u8, .arr [5]) := by
  have ha : semE tabX .a2b [some (.array [] .u8, .arr [5])]
      = some (.array [8] .bit, .arr [1, 0, 1, 0, 0, 0, 0, 0]) := by
    show liftE .a2b [some (.array [] .u8, .arr [5])] = _
    exact liftE_one_intro (by simp [hasTypeB, Shape.prod, ST.bits]) (by rfl) (by rfl)
  have hb : semE tabX (.b2a 1) [some (.array [8] .bit, .arr [1, 0, 1, 0, 0, 0, 0, 0])]
      = some (.scalar .u8, .arr [5]) := by
    show liftE (.b2a .u8) [some (.array [8] .bit, .arr [1, 0, 1, 0, 0, 0, 0, 0])] = _
    have hk : Ops.b2a .u8 [1, 0, 1, 0, 0, 0, 0, 0] = .ok [5] := by
      have := Ops.b2a_spec .u8 (by decide) [[1, 0, 1, 0, 0, 0, 0, 0]] (by
        intro c hc
        simp only [List.mem_singleton] at hc
        subst hc
        exact ⟨rfl, by decide⟩)
      simpa [Bytes.packBits] using this
    have hi : infer (.b2a .u8) [.array [8] .bit] = .ok (.scalar .u8) := by rfl
    exact liftE_one_intro (by simp [hasTypeB, Shape.prod, ST.bits]) hi
      (by rw [evalOp_b2a_arr _ hi, hk]; rfl)
  have h3 : semE tabX (.b2a 1) [semE tabX .a2b [some (.array [] .u8, .arr [5])]]
      = some (.scalar .u8, .arr [5]) := by rw [ha, hb]
  refine ⟨fun s => by cases s <;> rfl, rfl, h3, ?_⟩
  rw [h3]
  intro h
  injection h with h
  injection h with h1 _
  cases h1

/-- the law as first stated (without `hne`) is refuted -/
theorem b2a_a2b_law_unrestricted_false :
    ¬ (∀ (T : Tab) (_ : ∀ s, T.st (T.stc s) = s) (x : VE) (nd st : Nat)
        (_ : tyvE T x = .arr nd st) (_ : okE (semE T (.b2a st) [semE T .a2b [x]])),
        semE T (.b2a st) [semE T .a2b [x]] = x) := by
  intro hall
  obtain ⟨h1, h2, h3, h4⟩ := b2a_a2b_counterexample
  exact h4 (hall tabX h1 _ 0 1 h2 (by rw [h3]; rfl))

end CCV.OptEval
