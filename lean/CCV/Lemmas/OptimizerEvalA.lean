import CCV.Lemmas.OptimizerEvalDefs
import CCV.Lemmas.EvalOps6
/-
  Laws of the evaluator instance `semE` of the optimiser-IR semantics, part A: the algebraic laws of
  the meta-operation pass (TupleGet∘CreateTuple, NamedTupleGet∘CreateNamedTuple,
  VectorGet∘CreateVector, VectorGet∘Zip) and the type-summary facts it uses, each under the side
  condition "the left-hand side evaluates successfully".
-/
namespace CCV.OptEval
open CCV CCV.TV CCV.TI CCV.EvalOps

/-! ### `allSome` / `liftE`: inversion and construction -/

theorem allSome_inv {α : Type} : ∀ (vs : List (Option α)) (ws : List α),
    allSome vs = some ws → vs = ws.map some
  | [], ws, h => by
    simp only [allSome, Option.some.injEq] at h
    subst h; rfl
  | none :: _, ws, h => by simp [allSome] at h
  | some a :: r, ws, h => by
    simp only [allSome] at h
    cases hr : allSome r with
    | none => rw [hr] at h; cases h
    | some l =>
      rw [hr] at h
      injection h with h
      subst h
      simp [allSome_inv r l hr]

theorem allSome_map_some {α : Type} : ∀ ws : List α, allSome (ws.map some) = some ws
  | [] => rfl
  | a :: ws => by simp [allSome, allSome_map_some ws]

theorem okE_iff {v : VE} : okE v ↔ ∃ r, v = some r := by
  cases v with
  | none => simp [okE]
  | some r => simp [okE]

/-- inversion of a successful `liftE` -/
theorem liftE_inv {op : TI.Op} {vs : List VE} {r : TV.Ty × EV} (h : liftE op vs = some r) :
    ∃ ws : List (TV.Ty × EV), vs = ws.map some ∧ ws.all (fun w => hasTypeB w.1 w.2) = true ∧
      infer op (ws.map (·.1)) = .ok r.1 ∧ evalOp op (ws.map (·.1)) (ws.map (·.2)) = .ok r.2 := by
  unfold liftE at h
  cases ha : allSome vs with
  | none => rw [ha] at h; cases h
  | some ws =>
    rw [ha] at h
    simp only [] at h
    by_cases hall : ws.all (fun w => hasTypeB w.1 w.2) = true
    · rw [if_pos hall] at h
      cases hi : infer op (ws.map (·.1)) with
      | error e => rw [hi] at h; cases h
      | ok t =>
        cases he : evalOp op (ws.map (·.1)) (ws.map (·.2)) with
        | error e => rw [hi, he] at h; cases h
        | ok v =>
          rw [hi, he] at h
          injection h with h
          subst h
          exact ⟨ws, allSome_inv vs ws ha, hall, hi, he⟩
    · rw [if_neg hall] at h; cases h

/-- construction of a successful `liftE` -/
theorem liftE_mk {op : TI.Op} {ws : List (TV.Ty × EV)} {t : TV.Ty} {v : EV}
    (hall : ws.all (fun w => hasTypeB w.1 w.2) = true)
    (hi : infer op (ws.map (·.1)) = .ok t) (he : evalOp op (ws.map (·.1)) (ws.map (·.2)) = .ok v) :
    liftE op (ws.map some) = some (t, v) := by
  unfold liftE
  rw [allSome_map_some]
  simp only []
  rw [if_pos hall, hi, he]

/-- a failed argument makes `liftE` fail -/
theorem liftE_ok_args {op : TI.Op} {vs : List VE} (h : okE (liftE op vs)) : ∀ v ∈ vs, okE v := by
  obtain ⟨r, hr⟩ := okE_iff.mp h
  obtain ⟨ws, rfl, _⟩ := liftE_inv hr
  intro v hv
  obtain ⟨w, _, rfl⟩ := List.mem_map.mp hv
  rfl

/-- `infer` from `inferRaw` -/
theorem infer_of_raw {op : TI.Op} {tys : List TV.Ty} {t : TV.Ty} (ha : arityOk op tys.length = true)
    (hr : inferRaw op tys = .ok t) (hv : t.isValid = true) : infer op tys = .ok t := by
  unfold infer
  rw [if_neg (by simp [ha]), hr]
  simp only []
  rw [if_neg (by simp [hv])]

theorem map_some_one {α : Type} {a : Option α} {ws : List α} (h : [a] = ws.map some) :
    ∃ w, ws = [w] ∧ a = some w := by
  match ws, h with
  | [w], h => exact ⟨w, rfl, by simpa using h⟩

theorem map_some_two {α : Type} {a b : Option α} {ws : List α} (h : [a, b] = ws.map some) :
    ∃ w1 w2, ws = [w1, w2] ∧ a = some w1 ∧ b = some w2 := by
  match ws, h with
  | [w1, w2], h => exact ⟨w1, w2, rfl, by simpa using h⟩

theorem pair_of_getElem? {us : List (TV.Ty × EV)} {j : Nat} {r : TV.Ty × EV} (hj : j < us.length)
    (h1 : (us.map (·.1))[j]? = some r.1) (h2 : (us.map (·.2))[j]? = some r.2) :
    some r = (us.map some)[j]'(by simpa using hj) := by
  simp only [List.getElem?_map, List.getElem?_eq_getElem hj, Option.map_some, Option.some.injEq] at h1 h2
  simp only [List.getElem_map, Option.some.injEq]
  exact (Prod.ext h1 h2).symm

/-! ### constructors -/

theorem createTuple_inv {vs : List VE} {w : TV.Ty × EV} (h : liftE .createTuple vs = some w) :
    ∃ us : List (TV.Ty × EV), vs = us.map some ∧ us.all (fun w => hasTypeB w.1 w.2) = true ∧
      allValid (us.map (·.1)) = true ∧ w = (.tuple (us.map (·.1)), .vec (us.map (·.2))) := by
  obtain ⟨us, rfl, hall, hi, he⟩ := liftE_inv h
  obtain ⟨t, v⟩ := w
  have hv := infer_result_valid hi rfl
  have hr := infer_ok_raw hi
  simp only [inferRaw] at hr
  injection hr with hr
  simp only [evalOp, hi] at he
  injection he with he
  simp only [] at hr he hv
  subst hr; subst he
  exact ⟨us, rfl, hall, by simpa [Ty.isValid] using hv, rfl⟩

theorem createTuple_mk {us : List (TV.Ty × EV)} (hall : us.all (fun w => hasTypeB w.1 w.2) = true)
    (hv : allValid (us.map (·.1)) = true) :
    liftE .createTuple (us.map some) = some (.tuple (us.map (·.1)), .vec (us.map (·.2))) := by
  have hi : infer .createTuple (us.map (·.1)) = .ok (.tuple (us.map (·.1))) :=
    infer_of_raw rfl (by simp only [inferRaw]) (by simpa [Ty.isValid] using hv)
  exact liftE_mk hall hi (by simp only [evalOp, hi])

theorem createNamedTuple_inv {names : List String} {vs : List VE} {w : TV.Ty × EV}
    (h : liftE (.createNamedTuple names) vs = some w) :
    ∃ us : List (TV.Ty × EV), vs = us.map some ∧ us.all (fun w => hasTypeB w.1 w.2) = true ∧
      w = (.named (names.zip (us.map (·.1))), .vec (us.map (·.2))) := by
  obtain ⟨us, rfl, hall, hi, he⟩ := liftE_inv h
  obtain ⟨t, v⟩ := w
  have hr := infer_ok_raw hi
  simp only [inferRaw] at hr
  split at hr; · cases hr
  split at hr; · cases hr
  injection hr with hr
  simp only [evalOp, hi] at he
  injection he with he
  subst hr; subst he
  exact ⟨us, rfl, hall, rfl⟩

theorem createVector_inv {et : TV.Ty} {vs : List VE} {w : TV.Ty × EV}
    (h : liftE (.createVector et) vs = some w) :
    ∃ us : List (TV.Ty × EV), vs = us.map some ∧ us.all (fun w => hasTypeB w.1 w.2) = true ∧
      (∀ u ∈ us, u.1 = et) ∧ w = (.vector us.length et, .vec (us.map (·.2))) := by
  obtain ⟨us, rfl, hall, hi, he⟩ := liftE_inv h
  obtain ⟨t, v⟩ := w
  have hr := infer_ok_raw hi
  simp only [inferRaw] at hr
  split at hr
  · rename_i hbeq
    injection hr with hr
    simp only [evalOp, hi] at he
    injection he with he
    simp only [List.length_map] at hr he
    subst hr; subst he
    refine ⟨us, rfl, hall, ?_, rfl⟩
    intro u hu
    exact Ty.eq_of_beq _ _ (List.all_eq_true.mp hbeq u.1 (List.mem_map.mpr ⟨u, hu, rfl⟩))
  · cases hr

/-! ### accessors -/

theorem tupleGet_inv {j : Nat} {ts : List TV.Ty} {cs : List EV} {r : TV.Ty × EV}
    (h : liftE (.tupleGet j) [some (.tuple ts, .vec cs)] = some r) :
    ts[j]? = some r.1 ∧ cs[j]? = some r.2 := by
  obtain ⟨ws, hws, _, hi, he⟩ := liftE_inv h
  obtain ⟨w, rfl, hw⟩ := map_some_one hws
  injection hw with hw
  subst hw
  simp only [List.map] at hi he
  have hr := infer_ok_raw hi
  simp only [inferRaw, inferTupleGet] at hr
  simp only [evalOp, hi] at he
  cases hg : ts[j]? with
  | none => rw [hg] at hr; cases hr
  | some t' =>
    rw [hg] at hr
    injection hr with hr
    cases hc : cs[j]? with
    | none => rw [hc] at he; cases he
    | some c =>
      rw [hc] at he
      injection he with he
      rw [hr, he]
      exact ⟨rfl, rfl⟩

theorem namedTupleGet_inv {nm : String} {fs : List (String × TV.Ty)} {cs : List EV} {r : TV.Ty × EV}
    (h : liftE (.namedTupleGet nm) [some (.named fs, .vec cs)] = some r) :
    lookupField nm fs = some r.1 ∧ ∃ k, fieldIdx nm fs = some k ∧ cs[k]? = some r.2 := by
  obtain ⟨ws, hws, _, hi, he⟩ := liftE_inv h
  obtain ⟨w, rfl, hw⟩ := map_some_one hws
  injection hw with hw
  subst hw
  simp only [List.map] at hi he
  have hr := infer_ok_raw hi
  simp only [inferRaw, inferNamedTupleGet] at hr
  simp only [evalOp, hi] at he
  cases hg : lookupField nm fs with
  | none => rw [hg] at hr; cases hr
  | some t' =>
    rw [hg] at hr
    injection hr with hr
    cases hk : fieldIdx nm fs with
    | none => rw [hk] at he; cases he
    | some k =>
      rw [hk] at he
      simp only [] at he
      cases hc : cs[k]? with
      | none => rw [hc] at he; cases he
      | some c =>
        rw [hc] at he
        injection he with he
        rw [hr]
        exact ⟨rfl, k, rfl, he ▸ hc⟩

theorem hasTypeBAll_getElem (t : TV.Ty) : ∀ (cs : List EV) (x : Nat) (hx : x < cs.length),
    hasTypeBAll t cs = true → hasTypeB t cs[x] = true
  | [], x, hx, _ => by simp at hx
  | c :: cs, 0, _, h => by
    simp only [hasTypeBAll, Bool.and_eq_true] at h
    exact h.1
  | c :: cs, x + 1, hx, h => by
    simp only [hasTypeBAll, Bool.and_eq_true] at h
    simpa using hasTypeBAll_getElem t cs x (by simpa using hx) h.2

/-- inversion of a successful VectorGet -/
theorem vectorGet_inv {v i : VE} {r : TV.Ty × EV} (h : liftE .vectorGet [v, i] = some r) :
    ∃ n cs ti x, v = some (.vector n r.1, .vec cs) ∧ i = some (ti, .arr [x]) ∧
      (ti = .scalar .u64 ∨ ti = .scalar .u32) ∧ hasTypeB ti (.arr [x]) = true ∧
      cs.length = n ∧ hasTypeBAll r.1 cs = true ∧ x < n ∧ cs[x]? = some r.2 ∧ r.1.isValid = true := by
  obtain ⟨ws, hws, hall, hi, he⟩ := liftE_inv h
  obtain ⟨⟨t1, e1⟩, ⟨t2, e2⟩, rfl, rfl, rfl⟩ := map_some_two hws
  simp only [List.map] at hi he
  simp only [List.all_cons, List.all_nil, Bool.and_true, Bool.and_eq_true] at hall
  have hv := infer_result_valid hi rfl
  have hr := infer_ok_raw hi
  simp only [inferRaw, inferVectorGet] at hr
  split at hr; · cases hr
  rename_i hidx
  have hb : t2 = .scalar .u64 ∨ t2 = .scalar .u32 := by
    by_cases h64 : Ty.beq t2 (.scalar .u64) = true
    · exact Or.inl (Ty.eq_of_beq _ _ h64)
    · by_cases h32 : Ty.beq t2 (.scalar .u32) = true
      · exact Or.inr (Ty.eq_of_beq _ _ h32)
      · exact absurd ⟨by simpa using h64, by simpa using h32⟩ hidx
  cases t1 with
  | vector n et =>
    simp only [] at hr
    injection hr with hr
    subst hr
    cases e1 with
    | arr xs => simp [hasTypeB] at hall
    | vec cs =>
      have h1 := hall.1
      simp only [hasTypeB, Bool.and_eq_true, beq_iff_eq] at h1
      have h2 := hall.2
      cases e2 with
      | vec _ => rcases hb with rfl | rfl <;> simp [hasTypeB] at h2
      | arr xs =>
        have hxs : xs.length = 1 := by
          rcases hb with rfl | rfl <;> simp only [hasTypeB, Bool.and_eq_true, beq_iff_eq] at h2 <;> exact h2.1
        obtain ⟨x, rfl⟩ := List.length_eq_one_iff.mp hxs
        simp only [evalOp, hi] at he
        split at he; · cases he
        rename_i hlt
        cases hc : cs[x]? with
        | none => rw [hc] at he; cases he
        | some c =>
          rw [hc] at he
          injection he with he
          subst he
          exact ⟨n, cs, t2, x, rfl, rfl, hb, h2, h1.1, h1.2, Nat.not_le.mp hlt, hc, hv⟩
  | scalar sa => simp at hr
  | array s sa => simp at hr
  | tuple ts => simp at hr
  | named fs => simp at hr

/-- construction of a successful VectorGet -/
theorem vectorGet_mk {n : Nat} {et ti : TV.Ty} {cs : List EV} {x : Nat}
    (hti : ti = .scalar .u64 ∨ ti = .scalar .u32) (hx : hasTypeB ti (.arr [x]) = true)
    (hl : cs.length = n) (hcs : hasTypeBAll et cs = true) (hxn : x < n) (hv : et.isValid = true) :
    liftE .vectorGet [some (.vector n et, .vec cs), some (ti, .arr [x])] = some (et, cs[x]'(by omega)) := by
  have hi : infer .vectorGet [.vector n et, ti] = .ok et :=
    infer_of_raw rfl (by rcases hti with rfl | rfl <;> simp [inferRaw, inferVectorGet, Ty.beq]) hv
  have hxc : x < cs.length := by omega
  refine liftE_mk (ws := [(.vector n et, .vec cs), (ti, .arr [x])]) ?_ hi ?_
  · have h1 : hasTypeB (.vector n et) (.vec cs) = true := by simp [hasTypeB, hl, hcs]
    simp [h1, hx]
  · simp only [List.map, evalOp, hi, if_neg (Nat.not_le.mpr hxn), List.getElem?_eq_getElem hxc]

/-! ### the laws: TupleGet, NamedTupleGet, VectorGet of a constructor -/

theorem tupleGet_law (T : Tab) (vs : List VE) (j : Nat) (h : j < vs.length)
    (hok : okE (semE T (.tupleGet j) [semE T .createTuple vs])) :
    semE T (.tupleGet j) [semE T .createTuple vs] = vs[j] := by
  simp only [semE] at hok ⊢
  obtain ⟨r, hr⟩ := okE_iff.mp hok
  have harg := liftE_ok_args hok (liftE .createTuple vs) (by simp)
  obtain ⟨w, hw⟩ := okE_iff.mp harg
  obtain ⟨us, rfl, _, _, rfl⟩ := createTuple_inv hw
  rw [hw] at hr
  obtain ⟨h1, h2⟩ := tupleGet_inv hr
  rw [hw, hr]
  exact pair_of_getElem? (by simpa using h) h1 h2

/-- the first field called `f names[j]` of `zip (map f names) tys` is field `j` (names pairwise
    different, `f` injective) -/
theorem lookup_zip (f : Nat → String) (hf : Function.Injective f) :
    ∀ (names : List Nat) (tys : List TV.Ty) (j : Nat) (hj : j < names.length), names.Nodup →
      names.length = tys.length →
      lookupField (f names[j]) ((names.map f).zip tys) = tys[j]? ∧
      fieldIdx (f names[j]) ((names.map f).zip tys) = some j
  | [], _, j, hj, _, _ => by simp at hj
  | _ :: _, [], _, _, _, hl => by simp at hl
  | n :: ns, t :: ts, 0, _, _, _ => by
    simp [lookupField, fieldIdx]
  | n :: ns, t :: ts, j + 1, hj, hnd, hl => by
    have hj' : j < ns.length := by simpa using hj
    have hnd' := List.nodup_cons.mp hnd
    have hne : ¬ f n = f ns[j] := by
      intro he
      have := hf he
      exact hnd'.1 (this ▸ List.getElem_mem hj')
    obtain ⟨i1, i2⟩ := lookup_zip f hf ns ts j hj' hnd'.2 (by simpa using hl)
    simp only [List.getElem_cons_succ, List.map_cons, List.zip_cons_cons, lookupField, fieldIdx,
      if_neg hne, i1, i2, List.getElem?_cons_succ]
    exact ⟨trivial, trivial⟩

theorem namedGet_law (T : Tab) (hinj : Function.Injective T.nm) (names : List Nat) (vs : List VE) (j : Nat)
    (h : j < vs.length) (hl : names.length = vs.length) (hnd : names.Nodup)
    (hok : okE (semE T (.namedTupleGet names[j]!) [semE T (.createNamedTuple names) vs])) :
    semE T (.namedTupleGet names[j]!) [semE T (.createNamedTuple names) vs] = vs[j] := by
  have hjn : j < names.length := by omega
  rw [getElem!_pos names j hjn] at hok ⊢
  simp only [semE] at hok ⊢
  obtain ⟨r, hr⟩ := okE_iff.mp hok
  have harg := liftE_ok_args hok (liftE (.createNamedTuple (names.map T.nm)) vs) (by simp)
  obtain ⟨w, hw⟩ := okE_iff.mp harg
  obtain ⟨us, rfl, _, rfl⟩ := createNamedTuple_inv hw
  rw [hw] at hr
  obtain ⟨h1, k, hk, h2⟩ := namedTupleGet_inv hr
  obtain ⟨i1, i2⟩ := lookup_zip T.nm hinj names (us.map (·.1)) j hjn hnd (by simpa using hl)
  rw [i1] at h1
  rw [i2] at hk
  injection hk with hk
  subst hk
  rw [hw, hr]
  exact pair_of_getElem? (by simpa using h) h1 h2

theorem vectorGet_law (T : Tab) (t : Nat) (vs : List VE) (vid c : Nat) (h : c < vs.length)
    (hok : okE (semE T .vectorGet [semE T (.createVector t) vs, semE T (.constant vid (some c)) []])) :
    semE T .vectorGet [semE T (.createVector t) vs, semE T (.constant vid (some c)) []] = vs[c] := by
  simp only [semE] at hok ⊢
  obtain ⟨r, hr⟩ := okE_iff.mp hok
  rw [hr]
  obtain ⟨n, cs, ti, x, hv, hi, _, _, _, _, _, hget, _⟩ := vectorGet_inv hr
  obtain ⟨us, rfl, _, het, hw⟩ := createVector_inv hv
  simp only [Prod.mk.injEq, Ty.vector.injEq, EV.vec.injEq] at hw
  obtain ⟨⟨hn, het'⟩, hcs⟩ := hw
  subst hcs
  have hc : c < us.length := by simpa using h
  by_cases hc64 : c < 2 ^ 64
  · rw [if_pos hc64] at hi
    simp only [Option.some.injEq, Prod.mk.injEq, EV.arr.injEq, List.cons.injEq, and_true] at hi
    obtain ⟨_, hi⟩ := hi
    subst hi
    refine pair_of_getElem? hc ?_ hget
    rw [List.getElem?_map, List.getElem?_eq_getElem hc, Option.map_some, het _ (List.getElem_mem hc), het']
  · rw [if_neg hc64] at hi; cases hi

/-! ### type summaries -/

theorem ty_vectorGet_law (T : Tab) (v i : VE) (e : Optimizer.Ty) (h : tyvE T v = .vec e)
    (hok : okE (semE T .vectorGet [v, i])) : tyvE T (semE T .vectorGet [v, i]) = e := by
  simp only [semE] at hok ⊢
  obtain ⟨r, hr⟩ := okE_iff.mp hok
  obtain ⟨n, cs, ti, x, rfl, _⟩ := vectorGet_inv hr
  rw [hr]
  simp only [tyvE, sumTy, Optimizer.Ty.vec.injEq] at h
  obtain ⟨t, v⟩ := r
  exact h

theorem ty_createTuple_law (T : Tab) (vs : List VE) : tyvE T (semE T .createTuple vs) = .other := by
  simp only [semE]
  cases hw : liftE .createTuple vs with
  | none => rfl
  | some w =>
    obtain ⟨us, _, _, _, rfl⟩ := createTuple_inv hw
    rfl

theorem ok_createTuple_law (T : Tab) (vs : List VE) (h : okE (semE T .createTuple vs)) :
    ∀ v ∈ vs, okE v := by
  simp only [semE] at h
  exact liftE_ok_args h

/-! ### VectorGet of Zip -/

theorem zip_inv {vs : List VE} {w : TV.Ty × EV} (h : liftE .zip vs = some w) :
    ∃ (us : List (TV.Ty × EV)) (n : Nat) (ets : List TV.Ty) (cols : List (List EV)),
      vs = us.map some ∧ us.all (fun w => hasTypeB w.1 w.2) = true ∧
      us.map (·.1) = ets.map (fun et => TV.Ty.vector n et) ∧ colsOf (us.map (·.2)) = some cols ∧
      us ≠ [] ∧ w = (.vector n (.tuple ets), .vec (zipRows cols)) := by
  obtain ⟨us, rfl, hall, hi, he⟩ := liftE_inv h
  obtain ⟨t, v⟩ := w
  have hr := infer_ok_raw hi
  simp only [inferRaw, inferZip] at hr
  split at hr; · cases hr
  rename_i hlen
  cases hz : zipGo (us.map (·.1)) none with
  | error e => rw [hz] at hr; cases hr
  | ok p =>
    obtain ⟨n, ets⟩ := p
    rw [hz] at hr
    injection hr with hr
    obtain ⟨htys, _⟩ := zipGo_facts _ none n ets hz
    simp only [evalOp, hi] at he
    cases hc : colsOf (us.map (·.2)) with
    | none => rw [hc] at he; cases he
    | some cols =>
      rw [hc] at he
      injection he with he
      subst hr; subst he
      refine ⟨us, n, ets, cols, rfl, hall, htys, hc, ?_, rfl⟩
      intro hnil
      subst hnil
      simp at hlen

theorem zipRows_getElem? (n x : Nat) (hx : x < n) : ∀ (cols : List (List EV)), cols ≠ [] →
    (∀ c ∈ cols, c.length = n) →
    (zipRows cols)[x]? = some (.vec (cols.map fun col => col.getD x (.arr [])))
  | [], h, _ => absurd rfl h
  | c :: cs, _, hl => by
    have hc : c.length = n := hl c (by simp)
    have hmin := minLen_const n cs (fun c' hc' => hl c' (by simp [hc']))
    simp only [zipRows, hc, hmin]
    simp [hx]

/-- VectorGet of every argument of an accepted Zip, at an index in range -/
theorem zip_cols (n x : Nat) (ti : TV.Ty) (hti : ti = .scalar .u64 ∨ ti = .scalar .u32)
    (hx : hasTypeB ti (.arr [x]) = true) (hxn : x < n) :
    ∀ (us : List (TV.Ty × EV)) (ets : List TV.Ty) (cols : List (List EV)),
      us.map (·.1) = ets.map (fun et => TV.Ty.vector n et) → colsOf (us.map (·.2)) = some cols →
      us.all (fun w => hasTypeB w.1 w.2) = true → allValid ets = true →
      ∃ ws : List (TV.Ty × EV),
        us.map (fun u => liftE .vectorGet [some u, some (ti, .arr [x])]) = ws.map some ∧
        ws.map (·.1) = ets ∧ ws.map (·.2) = cols.map (fun col => col.getD x (.arr [])) ∧
        ws.all (fun w => hasTypeB w.1 w.2) = true ∧ (∀ c ∈ cols, c.length = n) ∧
        cols.length = us.length
  | [], ets, cols, h1, h2, _, _ => by
    cases ets with
    | nil =>
      simp only [List.map_nil, colsOf, Option.some.injEq] at h2
      subst h2
      exact ⟨[], rfl, rfl, rfl, rfl, by simp, rfl⟩
    | cons _ _ => simp at h1
  | (t, e) :: us, ets, cols, h1, h2, h3, h4 => by
    cases ets with
    | nil => simp at h1
    | cons et ets =>
      simp only [List.map_cons, List.cons.injEq] at h1
      obtain ⟨ht, h1⟩ := h1
      subst ht
      simp only [List.all_cons, Bool.and_eq_true] at h3
      cases e with
      | arr xs => simp [hasTypeB] at h3
      | vec c =>
        simp only [List.map_cons, colsOf] at h2
        cases hc : colsOf (us.map (·.2)) with
        | none => rw [hc] at h2; cases h2
        | some cols' =>
          rw [hc] at h2
          injection h2 with h2
          subst h2
          simp only [allValid, Bool.and_eq_true] at h4
          have hb := h3.1
          simp only [hasTypeB, Bool.and_eq_true, beq_iff_eq] at hb
          obtain ⟨ws, e1, e2, e3, e4, e5, e6⟩ := zip_cols n x ti hti hx hxn us ets cols' h1 hc h3.2 h4.2
          have hxc : x < c.length := by omega
          refine ⟨(et, c[x]) :: ws, ?_, ?_, ?_, ?_, ?_, ?_⟩
          · simp only [List.map_cons, e1, vectorGet_mk hti hx hb.1 hb.2 hxn h4.1]
          · simp [e2]
          · simp [e3, hxc]
          · simp only [List.all_cons, e4, Bool.and_true]
            exact hasTypeBAll_getElem et c x hxc hb.2
          · intro c' hc'
            rcases List.mem_cons.mp hc' with rfl | hc'
            · exact hb.1
            · exact e5 c' hc'
          · simp [e6]

theorem zipGet_law (T : Tab) (vs : List VE) (i : VE)
    (hok : okE (semE T .vectorGet [semE T .zip vs, i])) :
    semE T .vectorGet [semE T .zip vs, i] =
      semE T .createTuple (vs.map fun v => semE T .vectorGet [v, i]) := by
  simp only [semE] at hok ⊢
  obtain ⟨r, hr⟩ := okE_iff.mp hok
  rw [hr]
  obtain ⟨n, cs, ti, x, hv, rfl, hti, hx, _, _, hxn, hget, hval⟩ := vectorGet_inv hr
  obtain ⟨us, n', ets, cols, rfl, hall, htys, hcols, hne, hw⟩ := zip_inv hv
  simp only [Prod.mk.injEq, Ty.vector.injEq, EV.vec.injEq] at hw
  obtain ⟨⟨hn, hr1⟩, hcs⟩ := hw
  subst hn; subst hcs
  have hvalid : allValid ets = true := by
    rw [hr1] at hval
    simpa [Ty.isValid] using hval
  obtain ⟨ws, e1, e2, e3, e4, e5, e6⟩ := zip_cols n x ti hti hx hxn us ets cols htys hcols hall hvalid
  have hcne : cols ≠ [] := by
    intro hnil
    subst hnil
    cases us with
    | nil => exact hne rfl
    | cons _ _ => simp at e6
  rw [zipRows_getElem? n x hxn cols hcne e5] at hget
  injection hget with hget
  rw [List.map_map]
  have hfun : (fun v => liftE .vectorGet [v, some (ti, .arr [x])]) ∘ some =
      fun u => liftE .vectorGet [some u, some (ti, .arr [x])] := rfl
  rw [hfun, e1, createTuple_mk e4 (by rw [e2]; exact hvalid), e2, e3]
  obtain ⟨t, v⟩ := r
  simp only [] at hr1 hget
  subst hr1; subst hget
  rfl

end CCV.OptEval
