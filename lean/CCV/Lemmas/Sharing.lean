import CCV.Model.Sharing
/-
  Helper lemmas for C14.  Everything about trees is reduced to one element-wise principle:
  a term built from `gsub` / `gadd` over three trees of one type equals `map3` of its
  element-wise reading (`evalV_eq_map3`), so two such terms are equal as soon as they agree
  element-wise on residues (`tm_ext`).
-/
namespace CCV.Sharing
open CCV

/-! ### elements -/

theorem subRes_eq (st : ST) (a b : Nat) (ha : a < 2 ^ st.bits) (hb : b < 2 ^ st.bits) :
    subRes st a b = (a + 2 ^ st.bits - b) % 2 ^ st.bits := by
  cases st <;> simp only [subRes, low, reduce, wrappingSub, ext, ST.bits, ST.signed] at * <;>
    simp <;> (try split) <;> (try split) <;> omega

theorem addRes_eq (st : ST) (a b : Nat) (ha : a < 2 ^ st.bits) (hb : b < 2 ^ st.bits) :
    addRes st a b = (a + b) % 2 ^ st.bits := by
  cases st <;> simp only [addRes, low, reduce, wrappingAdd, ext, ST.bits, ST.signed] at * <;>
    simp <;> (try split) <;> (try split) <;> omega

theorem subRes_lt (st : ST) (a b : Nat) : subRes st a b < 2 ^ st.bits :=
  Nat.mod_lt _ (Nat.pow_pos (by decide))

theorem addRes_lt (st : ST) (a b : Nat) : addRes st a b < 2 ^ st.bits :=
  Nat.mod_lt _ (Nat.pow_pos (by decide))

/-! ### ternary map and terms -/

def zip3 (f : Nat → Nat → Nat → Nat) : List Nat → List Nat → List Nat → List Nat
  | x :: xs, y :: ys, z :: zs => f x y z :: zip3 f xs ys zs
  | _, _, _ => []

mutual
def map3 (f : ST → Nat → Nat → Nat → Nat) : Val → Val → Val → Val
  | .leaf st xs, .leaf _ ys, .leaf _ zs => .leaf st (zip3 (f st) xs ys zs)
  | .node as, .node bs, .node cs => .node (map3L f as bs cs)
  | _, _, _ => .node []
def map3L (f : ST → Nat → Nat → Nat → Nat) : List Val → List Val → List Val → List Val
  | a :: as, b :: bs, c :: cs => map3 f a b c :: map3L f as bs cs
  | _, _, _ => []
end

/-- terms over three variables -/
inductive Tm where
  | x | y | z
  | sub (a b : Tm)
  | add (a b : Tm)

def Tm.evalN : Tm → ST → Nat → Nat → Nat → Nat
  | .x, _, a, _, _ => a
  | .y, _, _, b, _ => b
  | .z, _, _, _, c => c
  | .sub s t, st, a, b, c => subRes st (s.evalN st a b c) (t.evalN st a b c)
  | .add s t, st, a, b, c => addRes st (s.evalN st a b c) (t.evalN st a b c)

def Tm.evalV : Tm → Val → Val → Val → Val
  | .x, a, _, _ => a
  | .y, _, b, _ => b
  | .z, _, _, c => c
  | .sub s t, a, b, c => gsub (s.evalV a b c) (t.evalV a b c)
  | .add s t, a, b, c => gadd (s.evalV a b c) (t.evalV a b c)

theorem zip3_comp (f : Nat → Nat → Nat) (g h : Nat → Nat → Nat → Nat) :
    ∀ xs ys zs, List.zipWith f (zip3 g xs ys zs) (zip3 h xs ys zs)
      = zip3 (fun a b c => f (g a b c) (h a b c)) xs ys zs
  | [], _, _ => by simp [zip3]
  | _ :: _, [], _ => by simp [zip3]
  | _ :: _, _ :: _, [] => by simp [zip3]
  | x :: xs, y :: ys, z :: zs => by simp [zip3, zip3_comp f g h xs ys zs]

theorem map3_comp (f : ST → Nat → Nat → Nat) (g h : ST → Nat → Nat → Nat → Nat) (a b c : Val) :
    map2 f (map3 g a b c) (map3 h a b c)
      = map3 (fun st p q r => f st (g st p q r) (h st p q r)) a b c := by
  apply map3.induct (motive_1 := fun a b c => map2 f (map3 g a b c) (map3 h a b c)
      = map3 (fun st p q r => f st (g st p q r) (h st p q r)) a b c)
    (motive_2 := fun as bs cs => map2L f (map3L g as bs cs) (map3L h as bs cs)
      = map3L (fun st p q r => f st (g st p q r) (h st p q r)) as bs cs)
  · intro st xs _ ys _ zs
    simp [map3, map2, zip3_comp]
  · intro as bs cs ih
    simp [map3, map2, ih]
  · intro a b c h1 h2
    rw [map3.eq_3 _ _ _ _ h1 h2, map3.eq_3 _ _ _ _ h1 h2, map3.eq_3 _ _ _ _ h1 h2]
    simp [map2, map2L]
  · intro a as b bs c cs ih1 ih2
    simp [map3L, map2L, ih1, ih2]
  · intro as bs cs h1
    rw [map3L.eq_2 _ _ _ _ h1, map3L.eq_2 _ _ _ _ h1, map3L.eq_2 _ _ _ _ h1]
    simp [map2L]

/-- three trees of one type, all elements residues -/
def Ok3 (a b c : Val) : Prop :=
  wf a = true ∧ wf b = true ∧ wf c = true ∧ like a b = true ∧ like a c = true

theorem zip3_congr (w : Nat) (f g : Nat → Nat → Nat → Nat)
    (hfg : ∀ p q r, p < w → q < w → r < w → f p q r = g p q r) :
    ∀ xs ys zs, (∀ x ∈ xs, x < w) → (∀ x ∈ ys, x < w) → (∀ x ∈ zs, x < w) →
      zip3 f xs ys zs = zip3 g xs ys zs
  | [], _, _ => by simp [zip3]
  | _ :: _, [], _ => by simp [zip3]
  | _ :: _, _ :: _, [] => by simp [zip3]
  | x :: xs, y :: ys, z :: zs => by
    intro hx hy hz
    simp only [List.mem_cons, forall_eq_or_imp] at hx hy hz
    simp [zip3, hfg x y z hx.1 hy.1 hz.1, zip3_congr w f g hfg xs ys zs hx.2 hy.2 hz.2]

theorem zip3_lt (w : Nat) (f : Nat → Nat → Nat → Nat)
    (hf : ∀ p q r, p < w → q < w → r < w → f p q r < w) :
    ∀ xs ys zs, (∀ x ∈ xs, x < w) → (∀ x ∈ ys, x < w) → (∀ x ∈ zs, x < w) →
      ∀ x ∈ zip3 f xs ys zs, x < w
  | [], _, _ => by simp [zip3]
  | _ :: _, [], _ => by simp [zip3]
  | _ :: _, _ :: _, [] => by simp [zip3]
  | x :: xs, y :: ys, z :: zs => by
    intro hx hy hz
    simp only [List.mem_cons, forall_eq_or_imp] at hx hy hz
    simp only [zip3, List.mem_cons, forall_eq_or_imp]
    exact ⟨hf x y z hx.1 hy.1 hz.1, zip3_lt w f hf xs ys zs hx.2 hy.2 hz.2⟩

theorem zip3_length (f : Nat → Nat → Nat → Nat) :
    ∀ xs ys zs, xs.length = ys.length → xs.length = zs.length → (zip3 f xs ys zs).length = xs.length
  | [], _, _ => by simp [zip3]
  | _ :: _, [], _ => by simp
  | _ :: _, _ :: _, [] => by simp
  | x :: xs, y :: ys, z :: zs => by
    intro h1 h2
    simp only [List.length_cons, Nat.add_right_cancel_iff] at h1 h2
    simp [zip3, zip3_length f xs ys zs h1 h2]

theorem zip3_proj1 : ∀ xs ys zs : List Nat, xs.length = ys.length → xs.length = zs.length →
    zip3 (fun p _ _ => p) xs ys zs = xs
  | [], _, _ => by simp [zip3]
  | _ :: _, [], _ => by simp
  | _ :: _, _ :: _, [] => by simp
  | x :: xs, y :: ys, z :: zs => by
    intro h1 h2
    simp only [List.length_cons, Nat.add_right_cancel_iff] at h1 h2
    simp [zip3, zip3_proj1 xs ys zs h1 h2]

theorem zip3_proj2 : ∀ xs ys zs : List Nat, xs.length = ys.length → xs.length = zs.length →
    zip3 (fun _ q _ => q) xs ys zs = ys
  | [], [], _ => by simp [zip3]
  | [], _ :: _, _ => by simp
  | _ :: _, [], _ => by simp
  | _ :: _, _ :: _, [] => by simp
  | x :: xs, y :: ys, z :: zs => by
    intro h1 h2
    simp only [List.length_cons, Nat.add_right_cancel_iff] at h1 h2
    simp [zip3, zip3_proj2 xs ys zs h1 h2]

theorem zip3_proj3 : ∀ xs ys zs : List Nat, xs.length = ys.length → xs.length = zs.length →
    zip3 (fun _ _ r => r) xs ys zs = zs
  | [], _, [] => by simp [zip3]
  | [], _, _ :: _ => by simp
  | _ :: _, [], _ => by simp
  | _ :: _, _ :: _, [] => by simp
  | x :: xs, y :: ys, z :: zs => by
    intro h1 h2
    simp only [List.length_cons, Nat.add_right_cancel_iff] at h1 h2
    simp [zip3, zip3_proj3 xs ys zs h1 h2]

/-- the shape of the statements proved by `map3.induct` below: a property of three trees of one
    type, and its list version -/
theorem ok3_induct (P : Val → Val → Val → Prop) (PL : List Val → List Val → List Val → Prop)
    (leaf : ∀ st xs ys zs, xs.length = ys.length → xs.length = zs.length →
      (∀ x ∈ xs, x < 2 ^ st.bits) → (∀ x ∈ ys, x < 2 ^ st.bits) → (∀ x ∈ zs, x < 2 ^ st.bits) →
      P (.leaf st xs) (.leaf st ys) (.leaf st zs))
    (node : ∀ as bs cs, PL as bs cs → P (.node as) (.node bs) (.node cs))
    (nil : PL [] [] [])
    (cons : ∀ a as b bs c cs, P a b c → PL as bs cs → PL (a :: as) (b :: bs) (c :: cs))
    (a b c : Val) (h : Ok3 a b c) : P a b c := by
  revert h
  apply map3.induct
    (motive_1 := fun a b c => Ok3 a b c → P a b c)
    (motive_2 := fun as bs cs => wfL as = true → wfL bs = true → wfL cs = true →
      likeL as bs = true → likeL as cs = true → PL as bs cs)
  · intro st xs st' ys st'' zs h
    simp only [Ok3, wf, like, List.all_eq_true, decide_eq_true_eq, Bool.and_eq_true] at h
    obtain ⟨h1, h2, h3, ⟨rfl, h4⟩, ⟨rfl, h5⟩⟩ := h
    exact leaf st xs ys zs h4 h5 h1 h2 h3
  · intro as bs cs ih h
    simp only [Ok3, wf, like] at h
    exact node as bs cs (ih h.1 h.2.1 h.2.2.1 h.2.2.2.1 h.2.2.2.2)
  · intro a b c h1 h2 h
    exfalso
    cases a <;> cases b <;> cases c <;>
      first | exact h1 _ _ _ _ _ _ rfl rfl rfl | exact h2 _ _ _ rfl rfl rfl | simp [Ok3, like] at h
  · intro a as b bs c cs ih1 ih2 h1 h2 h3 h4 h5
    simp only [wfL, likeL, Bool.and_eq_true] at h1 h2 h3 h4 h5
    exact cons a as b bs c cs (ih1 ⟨h1.1, h2.1, h3.1, h4.1, h5.1⟩) (ih2 h1.2 h2.2 h3.2 h4.2 h5.2)
  · intro as bs cs hne h1 h2 h3 h4 h5
    cases as <;> cases bs <;> cases cs <;>
      first | exact nil | exact absurd rfl (hne _ _ _ _ _ _ rfl rfl) | (exfalso; simp [likeL] at h4 h5; done)

theorem map3_congr (f g : ST → Nat → Nat → Nat → Nat)
    (hfg : ∀ st p q r, p < 2 ^ st.bits → q < 2 ^ st.bits → r < 2 ^ st.bits → f st p q r = g st p q r)
    (a b c : Val) (h : Ok3 a b c) : map3 f a b c = map3 g a b c := by
  apply ok3_induct (fun a b c => map3 f a b c = map3 g a b c)
    (fun as bs cs => map3L f as bs cs = map3L g as bs cs) _ _ _ _ a b c h
  · intro st xs ys zs _ _ h1 h2 h3
    simp [map3, zip3_congr (2 ^ st.bits) (f st) (g st) (hfg st) xs ys zs h1 h2 h3]
  · intro as bs cs ih; simp [map3, ih]
  · simp [map3L]
  · intro a as b bs c cs ih1 ih2; simp [map3L, ih1, ih2]

theorem map3_proj1 (a b c : Val) (h : Ok3 a b c) : map3 (fun _ p _ _ => p) a b c = a := by
  apply ok3_induct (fun a b c => map3 (fun _ p _ _ => p) a b c = a)
    (fun as bs cs => map3L (fun _ p _ _ => p) as bs cs = as) _ _ _ _ a b c h
  · intro st xs ys zs h1 h2 _ _ _; simp [map3, zip3_proj1 xs ys zs h1 h2]
  · intro as bs cs ih; simp [map3, ih]
  · simp [map3L]
  · intro a as b bs c cs ih1 ih2; simp [map3L, ih1, ih2]

theorem map3_proj2 (a b c : Val) (h : Ok3 a b c) : map3 (fun _ _ q _ => q) a b c = b := by
  apply ok3_induct (fun a b c => map3 (fun _ _ q _ => q) a b c = b)
    (fun as bs cs => map3L (fun _ _ q _ => q) as bs cs = bs) _ _ _ _ a b c h
  · intro st xs ys zs h1 h2 _ _ _; simp [map3, zip3_proj2 xs ys zs h1 h2]
  · intro as bs cs ih; simp [map3, ih]
  · simp [map3L]
  · intro a as b bs c cs ih1 ih2; simp [map3L, ih1, ih2]

theorem map3_proj3 (a b c : Val) (h : Ok3 a b c) : map3 (fun _ _ _ r => r) a b c = c := by
  apply ok3_induct (fun a b c => map3 (fun _ _ _ r => r) a b c = c)
    (fun as bs cs => map3L (fun _ _ _ r => r) as bs cs = cs) _ _ _ _ a b c h
  · intro st xs ys zs h1 h2 _ _ _; simp [map3, zip3_proj3 xs ys zs h1 h2]
  · intro as bs cs ih; simp [map3, ih]
  · simp [map3L]
  · intro a as b bs c cs ih1 ih2; simp [map3L, ih1, ih2]

/-- `map3` of a residue-valued function gives a well-formed tree of the same type -/
theorem map3_ok (f : ST → Nat → Nat → Nat → Nat)
    (hf : ∀ st p q r, p < 2 ^ st.bits → q < 2 ^ st.bits → r < 2 ^ st.bits → f st p q r < 2 ^ st.bits)
    (a b c : Val) (h : Ok3 a b c) : wf (map3 f a b c) = true ∧ like a (map3 f a b c) = true := by
  apply ok3_induct (fun a b c => wf (map3 f a b c) = true ∧ like a (map3 f a b c) = true)
    (fun as bs cs => wfL (map3L f as bs cs) = true ∧ likeL as (map3L f as bs cs) = true) _ _ _ _ a b c h
  · intro st xs ys zs h1 h2 h3 h4 h5
    simp only [map3, wf, like, List.all_eq_true, decide_eq_true_eq, Bool.and_eq_true, true_and]
    exact ⟨zip3_lt _ _ (hf st) xs ys zs h3 h4 h5, (zip3_length _ xs ys zs h1 h2).symm⟩
  · intro as bs cs ih; simpa [map3, wf, like] using ih
  · simp [map3L, wfL, likeL]
  · intro a as b bs c cs ih1 ih2; simp [map3L, wfL, likeL, ih1, ih2]

theorem Tm.evalN_lt (t : Tm) (st : ST) (p q r : Nat)
    (hp : p < 2 ^ st.bits) (hq : q < 2 ^ st.bits) (hr : r < 2 ^ st.bits) :
    t.evalN st p q r < 2 ^ st.bits := by
  cases t <;> simp [Tm.evalN, subRes_lt, addRes_lt, *]

theorem Tm.evalV_eq_map3 (t : Tm) (a b c : Val) (h : Ok3 a b c) :
    t.evalV a b c = map3 t.evalN a b c := by
  induction t with
  | x => exact (map3_proj1 a b c h).symm
  | y => exact (map3_proj2 a b c h).symm
  | z => exact (map3_proj3 a b c h).symm
  | sub s t ihs iht => simp only [Tm.evalV, gsub, ihs, iht, map3_comp]; rfl
  | add s t ihs iht => simp only [Tm.evalV, gadd, ihs, iht, map3_comp]; rfl

/-- **Element-wise principle.** Two `gsub`/`gadd` terms over three well-formed trees of one type
    are equal if they agree element-wise on residues. -/
theorem tm_ext (t1 t2 : Tm) (a b c : Val) (h : Ok3 a b c)
    (he : ∀ st p q r, p < 2 ^ st.bits → q < 2 ^ st.bits → r < 2 ^ st.bits →
      t1.evalN st p q r = t2.evalN st p q r) :
    t1.evalV a b c = t2.evalV a b c := by
  rw [Tm.evalV_eq_map3 t1 a b c h, Tm.evalV_eq_map3 t2 a b c h]
  exact map3_congr _ _ he a b c h

/-- every term over well-formed trees of one type is a well-formed tree of that type -/
theorem tm_ok (t : Tm) (a b c : Val) (h : Ok3 a b c) :
    wf (t.evalV a b c) = true ∧ like a (t.evalV a b c) = true := by
  rw [Tm.evalV_eq_map3 t a b c h]
  exact map3_ok _ (fun st p q r => t.evalN_lt st p q r) a b c h

/-! ### element-wise identities (all 11 scalar types) -/

theorem mod_pow_lt (x w : Nat) : x % 2 ^ w < 2 ^ w := Nat.mod_lt _ (Nat.pow_pos (by decide))

/-- proves `∀ st p q r, p,q,r < 2^bits → t1.evalN st p q r = t2.evalN st p q r` for concrete terms -/
syntax "elem_tac" : tactic
macro_rules
  | `(tactic| elem_tac) => `(tactic| (
      intro st p q r hp hq hr
      simp only [Tm.evalN]
      simp only [subRes_eq, addRes_eq, mod_pow_lt, hp, hq, hr]
      cases st <;> simp only [ST.bits] at * <;> omega))

theorem zipWith_zipWith_eq_zip3 (f g : Nat → Nat → Nat) :
    ∀ xs ys zs : List Nat, List.zipWith f xs (List.zipWith g ys zs) = zip3 (fun x y z => f x (g y z)) xs ys zs
  | [], _, _ => by simp [zip3]
  | _ :: _, [], _ => by simp [zip3]
  | _ :: _, _ :: _, [] => by simp [zip3]
  | x :: xs, y :: ys, z :: zs => by simp [zip3, zipWith_zipWith_eq_zip3 f g xs ys zs]

/-- one element of `share_vector`'s third share is `x − (a + b)` in the sense of
    `generalized_subtract` / `generalized_add` -/
theorem shareVector_elem (st : ST) (x a b : Nat) (hx : x < 2 ^ st.bits) (ha : a < 2 ^ st.bits)
    (hb : b < 2 ^ st.bits) :
    low st (reduce st (wrappingSub (ext st x) (reduce st (wrappingAdd (ext st a) (ext st b)))))
      = subRes st x (addRes st a b) := by
  rw [subRes_eq st x _ hx (addRes_lt ..), addRes_eq st a b ha hb]
  cases st <;> simp only [low, reduce, wrappingSub, wrappingAdd, ext, ST.bits, ST.signed] at * <;>
    simp <;> (try split) <;> (try split) <;> (try split) <;> omega

theorem ok3_leaf (st : ST) (xs ys zs : List Nat)
    (hx : ∀ x ∈ xs, x < 2 ^ st.bits) (hy : ∀ x ∈ ys, x < 2 ^ st.bits) (hz : ∀ x ∈ zs, x < 2 ^ st.bits)
    (h1 : xs.length = ys.length) (h2 : xs.length = zs.length) :
    Ok3 (.leaf st xs) (.leaf st ys) (.leaf st zs) := by
  simp only [Ok3, wf, like, List.all_eq_true, decide_eq_true_eq, Bool.and_eq_true, true_and]
  exact ⟨hx, hy, hz, h1, h2⟩

theorem shareVector_eq (st : ST) (xs r0 r1 : List Nat)
    (hx : ∀ x ∈ xs, x < 2 ^ st.bits) (h0 : ∀ x ∈ r0, x < 2 ^ st.bits) (h1 : ∀ x ∈ r1, x < 2 ^ st.bits)
    :
    shareVector st xs r0 r1 = ⟨.leaf st r0, .leaf st r1,
      gsub (.leaf st xs) (gadd (.leaf st r0) (.leaf st r1))⟩ := by
  simp only [shareVector, gsub, gadd, map2, T3.mk.injEq, true_and, Val.leaf.injEq]
  rw [zipWith_zipWith_eq_zip3, zipWith_zipWith_eq_zip3]
  exact zip3_congr (2 ^ st.bits) _ _ (fun p q r hp hq hr => shareVector_elem st p q r hp hq hr)
    xs r0 r1 hx h0 h1
