import CCV.Model.EvalOps
import CCV.Lemmas.TypeInfer
import CCV.Lemmas.Shape
import CCV.Lemmas.Kernels
import CCV.Lemmas.OpsMat
import CCV.Lemmas.OpsPerm
import CCV.Lemmas.OpsStruct
import CCV.Lemmas.OpsMisc
import CCV.Lemmas.OpsGemm
import CCV.Lemmas.Slices
/-
  Helper lemmas for the value-level half of C09 (Proofs/C09Values.lean), part 1:
  bridges between the vocabulary of the type-inference model (`CCV.TI`) and that of the evaluator
  model (`CCV.Shape`, `CCV.Ops`), destructuring of `hasType`, and the "typing" lemma of each
  `CCV.Ops` function (length of the result, every entry below `2^bits`).
-/
namespace CCV.EvalOps
open CCV CCV.TV CCV.Shape
open CCV.TI hiding prod broadcastShapes transposeShape

/-! ### bridges -/

theorem prod_eq (s : List Nat) : TI.prod s = Shape.prod s := by
  induction s with
  | nil => rfl
  | cons d ds ih => simp [TI.prod, Shape.prod, ih]

theorem validShape_pos {s : List Nat} (h : isValidShape s = true) : s ≠ [] ∧ pos s := by
  unfold isValidShape at h
  simp only [Bool.and_eq_true, List.all_eq_true, decide_eq_true_eq] at h
  refine ⟨?_, fun d hd => h.1.2 d hd⟩
  intro e
  subst e
  simp at h

theorem bcAligned_of_getD : ∀ (s rs : List Nat), s.length = rs.length →
    (∀ i, i < s.length → s.getD i 0 = 1 ∨ s.getD i 0 = rs.getD i 0) → bcAligned s rs
  | [], [], _, _ => trivial
  | d :: ds, r :: rs, hl, h =>
    ⟨by simpa using h 0 (by simp),
     bcAligned_of_getD ds rs (by simpa using hl) (fun i hi => by simpa using h (i + 1) (by simp; omega))⟩
  | [], _ :: _, hl, _ => by simp at hl
  | _ :: _, [], hl, _ => by simp at hl

theorem bcOK_left {s1 s2 r : List Nat} (h1 : pos s1) (h2 : pos s2)
    (h : TI.broadcastShapes s1 s2 = .ok r) : bcOK s1 r := by
  have hl := broadcastShapes_length h
  have hle : s1.length ≤ r.length := by rw [hl]; unfold maxLen; split <;> omega
  refine ⟨hle, bcAligned_of_getD _ _ (by simp; omega) ?_⟩
  intro i hi
  have hj : r.length - s1.length + i < r.length := by omega
  have hd := (broadcastShapes_dims h1 h2 h _ hj).1
  have e1 : dimAt s1 (r.length - s1.length) (r.length - s1.length + i) = s1.getD i 0 := by
    unfold dimAt
    rw [if_pos (by omega)]
    simp [List.getD_eq_getElem?_getD, hi]
  have e2 : (r.drop (r.length - s1.length)).getD i 0 = r[r.length - s1.length + i] := by
    simp [List.getD_eq_getElem?_getD, hj]
  rw [e1] at hd
  rw [e2]
  rcases hd with hd | hd
  · exact Or.inr hd
  · exact Or.inl hd

theorem bcOK_right {s1 s2 r : List Nat} (h1 : pos s1) (h2 : pos s2)
    (h : TI.broadcastShapes s1 s2 = .ok r) : bcOK s2 r :=
  bcOK_left h2 h1 (by rw [broadcastShapes_comm]; exact h)

theorem bcOK_refl (s : List Nat) : bcOK s s := by
  refine ⟨Nat.le_refl _, ?_⟩
  rw [Nat.sub_self, List.drop_zero]
  exact bcAligned_of_getD s s rfl (fun _ _ => Or.inr rfl)

theorem bcOK_one {s : List Nat} (h : s ≠ []) : bcOK [1] s := by
  have hl : 0 < s.length := List.length_pos_iff.mpr h
  refine ⟨hl, bcAligned_of_getD _ _ (by simp; omega) ?_⟩
  intro i hi
  simp at hi
  subst hi
  exact Or.inl rfl

/-! ### destructuring `hasType` -/

theorem isFlat_cases {t : Ty} (h : isFlat t = true) : (∃ st, t = .scalar st) ∨ ∃ s st, t = .array s st := by
  cases t with
  | scalar st => exact Or.inl ⟨st, rfl⟩
  | array s st => exact Or.inr ⟨s, st, rfl⟩
  | vector n t => simp [isFlat, isArr, isSc] at h
  | tuple ts => simp [isFlat, isArr, isSc] at h
  | named fs => simp [isFlat, isArr, isSc] at h

/-- for scalar / array types `hasType` is `flatOk` at the evaluator's dimensions -/
theorem hasType_flat {t : Ty} (h : isFlat t = true) (xs : List Nat) :
    hasType t (.arr xs) ↔ flatOk (stE t) (prod (dimsE t)) xs := by
  rcases isFlat_cases h with ⟨st, rfl⟩ | ⟨s, st, rfl⟩
  · simp [hasType, stE, stOf, dimsE, prod]
  · simp [hasType, stE, stOf, dimsE]

theorem hasType_flat_arr {t : Ty} (h : isFlat t = true) {v : EV} (hv : hasType t v) :
    ∃ xs, v = .arr xs ∧ flatOk (stE t) (prod (dimsE t)) xs := by
  cases v with
  | arr xs => exact ⟨xs, rfl, (hasType_flat h xs).mp hv⟩
  | vec vs =>
    rcases isFlat_cases h with ⟨st, rfl⟩ | ⟨s, st, rfl⟩ <;> simp [hasType] at hv

theorem hasTypeL_one {t : Ty} {vs : List EV} (h : hasTypeL [t] vs) : ∃ v, vs = [v] ∧ hasType t v := by
  match vs, h with
  | [v], h => exact ⟨v, rfl, by simpa [hasTypeL] using h⟩
  | [], h => simp [hasTypeL] at h
  | _ :: _ :: _, h => simp [hasTypeL] at h

theorem hasTypeL_two {t1 t2 : Ty} {vs : List EV} (h : hasTypeL [t1, t2] vs) :
    ∃ v1 v2, vs = [v1, v2] ∧ hasType t1 v1 ∧ hasType t2 v2 := by
  match vs, h with
  | [v1, v2], h => exact ⟨v1, v2, rfl, by simpa [hasTypeL] using h⟩
  | [], h => simp [hasTypeL] at h
  | [_], h => simp [hasTypeL] at h
  | _ :: _ :: _ :: _, h => simp [hasTypeL] at h

/-! ### arity -/

theorem infer_arity {op : Op} {tys : List Ty} {t : Ty} (h : infer op tys = .ok t) {k : Nat}
    (hk : numDeps op = some k) : tys.length = k := by
  unfold infer at h
  by_cases hc : arityOk op tys.length = false
  · rw [if_pos hc] at h; cases h
  · simp only [arityOk, hk, Bool.not_eq_false] at hc
    simpa using hc

theorem infer_arity1 {op : Op} {tys : List Ty} {t : Ty} (h : infer op tys = .ok t)
    (hk : numDeps op = some 1) : ∃ a, tys = [a] :=
  List.length_eq_one_iff.mp (infer_arity h hk)

theorem infer_arity2 {op : Op} {tys : List Ty} {t : Ty} (h : infer op tys = .ok t)
    (hk : numDeps op = some 2) : ∃ a b, tys = [a, b] :=
  match tys, infer_arity h hk with
  | [a, b], _ => ⟨a, b, rfl⟩

/-- `register_result`: an accepted result type is valid -/
theorem infer_result_valid {op : Op} {tys : List Ty} {t : Ty} (h : infer op tys = .ok t)
    (hr : registers op = true) : t.isValid = true := by
  unfold infer at h
  by_cases hc : arityOk op tys.length = false
  · rw [if_pos hc] at h; cases h
  · rw [if_neg hc] at h
    cases hraw : inferRaw op tys with
    | error e => rw [hraw] at h; cases h
    | ok t' =>
      rw [hraw] at h
      simp only [] at h
      by_cases hv : registers op = true ∧ t'.isValid = false
      · rw [if_pos hv] at h; cases h
      · rw [if_neg hv] at h
        injection h with h
        subst h
        cases hb : t'.isValid with
        | true => rfl
        | false => exact absurd ⟨hr, hb⟩ hv

/-! ### bounds -/

theorem low_lt (st : ST) (x : Nat) : Ops.low st x < 2 ^ st.bits :=
  Nat.mod_lt _ (Ops.pow_bits_pos st)

theorem map_low_bound (st : ST) (l : List Nat) : ∀ x ∈ l.map (Ops.low st), x < 2 ^ st.bits := by
  intro x hx
  obtain ⟨y, _, rfl⟩ := List.mem_map.mp hx
  exact low_lt st y

theorem getD_bound {P : Nat → Prop} (l : List Nat) (k : Nat) (h0 : P 0) (h : ∀ x ∈ l, P x) : P (l.getD k 0) := by
  rw [List.getD_eq_getElem?_getD]
  cases hk : l[k]? with
  | none => simpa using h0
  | some v => simpa using h v (List.mem_of_getElem? hk)

/-! ### Add / Subtract / Multiply / MixedMultiply -/

theorem arith_typed (op : Ops.Arith) (st : ST) (s1 xs s2 ys sr : List Nat) (h1 : bcOK s1 sr) (h2 : bcOK s2 sr) :
    ∃ r, Ops.arith op st s1 xs s2 ys sr = .ok r ∧ flatOk st (prod sr) r := by
  obtain ⟨r, hr, hl, _⟩ := Ops.arith_spec op st s1 xs s2 ys sr h1 h2
  refine ⟨r, hr, hl, ?_⟩
  unfold Ops.arith at hr
  simp only [] at hr
  split at hr
  · cases hr
  · injection hr with hr
    subst hr
    exact map_low_bound st _

theorem mixedMultiply_typed (st : ST) (s1 xs s2 ys sr : List Nat) (h1 : bcOK s1 sr) (h2 : bcOK s2 sr) :
    ∃ r, Ops.mixedMultiply st s1 xs s2 ys sr = .ok r ∧ flatOk st (prod sr) r := by
  obtain ⟨r, hr, hl, _⟩ := Ops.mixedMultiply_spec st s1 xs s2 ys sr h1 h2
  refine ⟨r, hr, hl, ?_⟩
  unfold Ops.mixedMultiply at hr
  simp only [] at hr
  split at hr
  · cases hr
  · injection hr with hr
    subst hr
    exact map_low_bound st _

/-! ### generic loop invariants -/

theorem foldl_length_inv {α : Type} (f : List Nat → α → List Nat)
    (hf : ∀ out a, (f out a).length = out.length) (l : List α) (init : List Nat) :
    (l.foldl f init).length = init.length := by
  induction l generalizing init with
  | nil => rfl
  | cons a l ih => simp only [List.foldl_cons]; rw [ih, hf]

theorem foldl_all_inv {α : Type} (P : Nat → Prop) (f : List Nat → α → List Nat)
    (hf : ∀ out a, (∀ x ∈ out, P x) → ∀ x ∈ f out a, P x) (l : List α) (init : List Nat)
    (h : ∀ x ∈ init, P x) : ∀ x ∈ l.foldl f init, P x := by
  induction l generalizing init with
  | nil => exact h
  | cons a l ih => simp only [List.foldl_cons]; exact ih _ (hf init a h)

theorem mem_set_P {P : Nat → Prop} {out : List Nat} {k v : Nat} (ho : ∀ x ∈ out, P x) (hv : P v) :
    ∀ x ∈ out.set k v, P x := by
  intro x hx
  rcases List.mem_or_eq_of_mem_set hx with h | h
  · exact ho x h
  · exact h ▸ hv

theorem length_flatMap_const {α β : Type} (l : List α) (f : α → List β) (n : Nat)
    (h : ∀ a ∈ l, (f a).length = n) : (l.flatMap f).length = l.length * n := by
  induction l with
  | nil => simp
  | cons a l ih =>
    rw [List.flatMap_cons, List.length_append, h a (by simp), ih (fun b hb => h b (by simp [hb])),
      List.length_cons, Nat.succ_mul]
    omega

theorem mem_slice {l : List Nat} {a n x : Nat} (h : x ∈ Ops.slice l a n) : x ∈ l :=
  List.mem_of_mem_drop (List.mem_of_mem_take h)

theorem pow_pos2 (st : ST) : 0 < 2 ^ st.bits := Ops.pow_bits_pos st

/-! ### Dot / Matmul -/

theorem dot_typed (st : ST) (s0 xs s1 ys sr : List Nat) :
    (s0.length = 1 ∧ s1.length = 1 → flatOk st 1 (Ops.dot st s0 xs s1 ys sr)) ∧
    (¬ (s0.length = 1 ∧ s1.length = 1) → flatOk st (Shape.prod sr) (Ops.dot st s0 xs s1 ys sr)) := by
  constructor
  · intro h
    simp only [Ops.dot, if_pos h]
    exact ⟨rfl, by intro x hx; simp only [List.mem_singleton] at hx; subst hx; exact low_lt st _⟩
  · intro h
    simp only [Ops.dot, if_neg h]
    refine ⟨by simp, ?_⟩
    intro x hx
    obtain ⟨i, _, rfl⟩ := List.mem_map.mp hx
    exact low_lt st _

theorem matmul_typed (st : ST) (s0 xs s1 ys sr : List Nat) :
    (s0.length = 1 ∧ s1.length = 1 → flatOk st 1 (Ops.matmul st s0 xs s1 ys sr)) ∧
    (¬ (s0.length = 1 ∧ s1.length = 1) → flatOk st (Shape.prod sr) (Ops.matmul st s0 xs s1 ys sr)) := by
  constructor
  · intro h
    simp only [Ops.matmul, if_pos h]
    exact ⟨rfl, by intro x hx; simp only [List.mem_singleton] at hx; subst hx; exact low_lt st _⟩
  · intro h
    simp only [Ops.matmul, if_neg h]
    refine ⟨by simp, ?_⟩
    intro x hx
    obtain ⟨i, _, rfl⟩ := List.mem_map.mp hx
    exact low_lt st _

/-! ### Truncate / Sum / CumSum / PermuteAxes -/

theorem truncElem_lt (st : ST) (d r : Nat) : Ops.truncElem st d r < 2 ^ st.bits := by
  unfold Ops.truncElem
  simp only []
  split
  · split <;> exact low_lt st _
  · exact low_lt st _

theorem truncate_typed (st : ST) (d : Nat) (xs : List Nat) : flatOk st xs.length (Ops.truncate st d xs) := by
  refine ⟨by simp [Ops.truncate], ?_⟩
  intro x hx
  obtain ⟨y, _, rfl⟩ := List.mem_map.mp hx
  exact truncElem_lt st d y

theorem sum_typed (st : ST) (shape xs axes : List Nat) :
    flatOk st 1 (Ops.sum st shape xs axes none) ∧
    ∀ rs, (axes = [] → flatOk st (Shape.prod rs) xs) →
      flatOk st (Shape.prod rs) (Ops.sum st shape xs axes (some rs)) := by
  constructor
  · simp only [Ops.sum]
    exact ⟨rfl, by intro x hx; simp only [List.mem_singleton] at hx; subst hx; exact low_lt st _⟩
  · intro rs h0
    simp only [Ops.sum]
    by_cases he : axes.isEmpty = true
    · rw [if_pos he]
      exact h0 (List.isEmpty_iff.mp he)
    · rw [if_neg he]
      refine ⟨?_, map_low_bound st _⟩
      rw [List.length_map, foldl_length_inv _ (fun out a => by simp)]
      simp

theorem cumSum_typed (st : ST) (shape xs : List Nat) (axis : Nat) :
    flatOk st xs.length (Ops.cumSum st shape xs axis) := by
  simp only [Ops.cumSum]
  refine ⟨?_, map_low_bound st _⟩
  rw [List.length_map, foldl_length_inv _ (fun out a => by split <;> simp)]
  simp

theorem permuteAxes_typed (st : ST) (values cur perm out : List Nat) (h : ∀ x ∈ values, x < 2 ^ st.bits) :
    flatOk st values.length (Ops.permuteAxes values cur perm out) := by
  simp only [Ops.permuteAxes]
  refine ⟨?_, ?_⟩
  · rw [foldl_length_inv _ (fun out a => by simp)]
    simp
  · apply foldl_all_inv (fun x => x < 2 ^ st.bits)
    · intro out a ho
      exact mem_set_P ho (getD_bound (P := fun x => x < 2 ^ st.bits) values a (pow_pos2 st) h)
    · intro x hx
      rw [List.mem_replicate] at hx
      rw [hx.2]
      exact pow_pos2 st

/-! ### Get / Stack -/

theorem allLt_validIdx : ∀ (idx os : List Nat), idx.length ≤ os.length → allLt idx os = true →
    validIdx idx (os.take idx.length)
  | [], _, _, _ => by simp [validIdx]
  | x :: xs, [], hl, _ => by simp at hl
  | x :: xs, d :: ds, hl, h => by
    simp only [allLt, Bool.and_eq_true, decide_eq_true_eq] at h
    simp only [List.length_cons, List.take_succ_cons, validIdx]
    exact ⟨h.1, allLt_validIdx xs ds (by simpa using hl) h.2⟩

theorem get_typed (st : ST) (shape xs sub : List Nat) (hk : sub.length ≤ shape.length)
    (hs : validIdx sub (shape.take sub.length)) (hx : flatOk st (Shape.prod shape) xs) :
    flatOk st (Shape.prod (shape.drop sub.length)) (Ops.get shape xs sub) := by
  simp only [Ops.get]
  refine ⟨?_, fun x h => hx.2 x (mem_slice h)⟩
  apply Ops.slice_length
  have hn : indexToNumber sub (shape.take sub.length) < Shape.prod (shape.take sub.length) := by
    rw [indexToNumber_eq_flat hs]; exact flat_lt hs
  have hp : Shape.prod shape = Shape.prod (shape.take sub.length) * Shape.prod (shape.drop sub.length) := by
    rw [← prod_append, List.take_append_drop]
  rw [hx.1, hp]
  have := Nat.mul_le_mul_right (Shape.prod (shape.drop sub.length)) hn
  rw [Nat.succ_mul] at this
  exact this

theorem broadcastToShape_bound {P : Nat → Prop} (arr s sr : List Nat) (h0 : P 0) (h : ∀ x ∈ arr, P x) :
    ∀ x ∈ broadcastToShape arr s sr, P x := by
  intro x hx
  simp only [broadcastToShape] at hx
  obtain ⟨i, _, rfl⟩ := List.mem_map.mp hx
  exact getD_bound arr _ h0 h

theorem stack_typed (st : ST) (outer full : List Nat) (inputs : List (List Nat × List Nat))
    (hb : ∀ p ∈ inputs, ∀ x ∈ p.2, x < 2 ^ st.bits) :
    flatOk st (inputs.length * Shape.prod (if full = outer then [1] else full.drop outer.length))
      (Ops.stack outer inputs full) := by
  simp only [Ops.stack]
  refine ⟨length_flatMap_const _ _ _ (fun p _ => broadcastToShape_length _ _ _), ?_⟩
  intro x hx
  obtain ⟨p, hp, hxp⟩ := List.mem_flatMap.mp hx
  exact broadcastToShape_bound (P := fun x => x < 2 ^ st.bits) _ _ _ (pow_pos2 st) (hb p hp) x hxp

end CCV.EvalOps
