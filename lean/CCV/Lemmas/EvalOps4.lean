import CCV.Lemmas.EvalOps3
/-
  Helper lemmas for the value-level half of C09, part 4: facts extracted from the accepted typing
  rules of Stack / Concatenate / B2A (in the vocabulary of the evaluator model), and the payload
  extraction `payloads` of `evalOp` on well-typed dependency values.
-/
namespace CCV.EvalOps
open CCV CCV.TV CCV.Shape
open CCV.TI hiding prod broadcastShapes transposeShape

/-! ### broadcasting of a list of scalar / array types (Stack) -/

/-- without any validity assumption: operands and result are scalars / arrays of one scalar type -/
theorem broadcastPair_flat {t1 t2 t : Ty} (h : broadcastPair t1 t2 = .ok t) :
    isFlat t1 = true ∧ isFlat t2 = true ∧ isFlat t = true ∧ stE t1 = stE t ∧ stE t2 = stE t := by
  cases t1 with
  | scalar a =>
    cases t2 with
    | scalar b =>
      simp only [broadcastPair] at h
      split at h
      · injection h with h; subst h; rename_i hab; subst hab
        exact ⟨rfl, rfl, rfl, rfl, rfl⟩
      · cases h
    | array s b =>
      simp only [broadcastPair] at h
      split at h
      · injection h with h; subst h; rename_i hab; subst hab
        exact ⟨rfl, rfl, rfl, rfl, rfl⟩
      · cases h
    | vector n e => simp [broadcastPair] at h
    | tuple ts => simp [broadcastPair] at h
    | named fs => simp [broadcastPair] at h
  | array s a =>
    cases t2 with
    | scalar b =>
      simp only [broadcastPair] at h
      split at h
      · injection h with h; subst h; rename_i hab; subst hab
        exact ⟨rfl, rfl, rfl, rfl, rfl⟩
      · cases h
    | array s2 b =>
      simp only [broadcastPair] at h
      split at h
      · rename_i hab; subst hab
        split at h
        · injection h with h; subst h
          exact ⟨rfl, rfl, rfl, rfl, rfl⟩
        · cases h
      · cases h
    | vector n e => simp [broadcastPair] at h
    | tuple ts => simp [broadcastPair] at h
    | named fs => simp [broadcastPair] at h
  | vector n e => simp [broadcastPair] at h
  | tuple ts => simp [broadcastPair] at h
  | named fs => simp [broadcastPair] at h

theorem bcastFold_flat : ∀ (ts : List Ty) (acc t : Ty), bcastFold acc ts = .ok t → isFlat acc = true →
    isFlat t = true ∧ stE acc = stE t ∧ ∀ ty ∈ ts, isFlat ty = true ∧ stE ty = stE t
  | [], acc, t, h, hf => by
    simp only [bcastFold] at h
    injection h with h; subst h
    exact ⟨hf, rfl, by simp⟩
  | x :: ts, acc, t, h, _ => by
    simp only [bcastFold] at h
    cases hp : broadcastPair acc x with
    | error e => rw [hp] at h; cases h
    | ok r =>
      rw [hp] at h
      obtain ⟨_, f2, f3, e1, e2⟩ := broadcastPair_flat hp
      obtain ⟨g1, g2, g3⟩ := bcastFold_flat ts r t h f3
      refine ⟨g1, e1.trans g2, ?_⟩
      intro ty hty
      rcases List.mem_cons.mp hty with rfl | hty
      · exact ⟨f2, e2.trans g2⟩
      · exact g3 ty hty

theorem bcastAdmissible_flat {t : Ty} (h : bcastAdmissible t = true) : isFlat t = true := by
  cases t <;> simp [bcastAdmissible] at h <;> rfl

theorem broadcastArrays_flat {tys : List Ty} {t : Ty} (h : broadcastArrays tys = .ok t) :
    isFlat t = true ∧ ∀ ty ∈ tys, isFlat ty = true ∧ stE ty = stE t := by
  cases tys with
  | nil => simp [broadcastArrays] at h
  | cons a ts =>
    simp only [broadcastArrays] at h
    split at h
    · rename_i hall
      have fa : isFlat a = true :=
        bcastAdmissible_flat (by simpa using (List.all_eq_true.mp hall) a (by simp))
      obtain ⟨g1, g2, g3⟩ := bcastFold_flat ts a t h fa
      refine ⟨g1, ?_⟩
      intro ty hty
      rcases List.mem_cons.mp hty with rfl | hty
      · exact ⟨fa, g2⟩
      · exact g3 ty hty
    · cases h

/-- **Stack**, what an accepted node says: the result is an array `full` of the common scalar type,
    there are `prod outer` inputs, all scalars / arrays of that scalar type, and the evaluator's inner
    shape (`[1]` when `full = outer`) times `prod outer` is the size of the result. -/
theorem inferStack_facts {outer : List Nat} {tys : List Ty} {t : Ty} (h : inferStack outer tys = .ok t) :
    ∃ st full, t = .array full st ∧ tys.length = prod outer ∧
      tys.length * prod (if full = outer then [1] else full.drop outer.length) = prod full ∧
      ∀ ty ∈ tys, isFlat ty = true ∧ stE ty = st := by
  unfold inferStack at h
  split at h; · cases h
  split at h; · cases h
  rename_i hlen
  have hlen : tys.length = prod outer := by
    rw [← prod_eq]
    exact Classical.byContradiction fun hne => hlen hne
  cases hb : broadcastArrays tys with
  | error e => rw [hb] at h; cases h
  | ok bt =>
    rw [hb] at h
    obtain ⟨_, hall⟩ := broadcastArrays_flat hb
    cases bt with
    | scalar st =>
      simp only [] at h
      injection h with h; subst h
      refine ⟨st, outer, rfl, hlen, ?_, hall⟩
      rw [if_pos rfl, hlen]
      simp [prod]
    | array s st =>
      simp only [] at h
      injection h with h; subst h
      refine ⟨st, outer ++ s, rfl, hlen, ?_, hall⟩
      rw [hlen, prod_append]
      by_cases hs : s = []
      · subst hs
        rw [if_pos (List.append_nil _)]
        simp [prod]
      · rw [if_neg (by simpa using hs), List.drop_left]
    | vector n e => cases h
    | tuple ts => cases h
    | named fs => cases h

/-! ### payload extraction -/

/-- the dependency values of scalar / array types of scalar type `st` are payloads
    `(dimensions, entries)` with `prod dimensions` entries below `2^bits` -/
theorem payloads_typed (st : ST) : ∀ (tys : List Ty) (vs : List EV), hasTypeL tys vs →
    (∀ ty ∈ tys, isFlat ty = true ∧ stE ty = st) →
    ∃ ps, payloads tys vs = some ps ∧ ps.length = tys.length ∧ ps.map (·.1) = tys.map dimsE ∧
      ∀ p ∈ ps, flatOk st (prod p.1) p.2
  | [], [], _, _ => ⟨[], rfl, rfl, rfl, by simp⟩
  | [], _ :: _, h, _ => by simp [hasTypeL] at h
  | _ :: _, [], h, _ => by simp [hasTypeL] at h
  | ty :: tys, v :: vs, h, hf => by
    simp only [hasTypeL] at h
    obtain ⟨f1, e1⟩ := hf ty (by simp)
    obtain ⟨xs, rfl, hx⟩ := hasType_flat_arr f1 h.1
    obtain ⟨ps, hps, hl, hm, hok⟩ := payloads_typed st tys vs h.2 (fun t ht => hf t (by simp [ht]))
    refine ⟨(dimsE ty, xs) :: ps, by simp [payloads, hps], by simp [hl], by simp [hm], ?_⟩
    intro p hp
    rcases List.mem_cons.mp hp with rfl | hp
    · exact e1 ▸ hx
    · exact hok p hp

/-! ### Concatenate -/

theorem getD_set_self (l : List Nat) (k v : Nat) (h : k < l.length) : (l.set k v).getD k 0 = v := by
  simp [List.getD_eq_getElem?_getD, h]

theorem getD_set_ne (l : List Nat) (k i v : Nat) (h : i ≠ k) : (l.set k v).getD i 0 = l.getD i 0 := by
  simp [List.getD_eq_getElem?_getD, List.getElem?_set_ne (Ne.symm h)]

/-- the loop of Concatenate: the accumulated shape keeps its rank and every dimension but `axis`,
    the `axis` dimension grows by the `axis` dimensions of the inputs, and every input is an array
    of scalar type `st` agreeing with the accumulated shape off the axis -/
theorem concatGo_facts (axis : Nat) (st : ST) : ∀ (ts : List Ty) (acc rs : List Nat),
    concatGo axis st acc ts = .ok rs → axis < acc.length →
    rs.length = acc.length ∧ (∀ i, i ≠ axis → rs.getD i 0 = acc.getD i 0) ∧
    rs.getD axis 0 = acc.getD axis 0 + (ts.map fun ty => (dimsE ty).getD axis 0).sum ∧
    ∀ ty ∈ ts, ∃ s, ty = .array s st ∧ s.length = acc.length ∧ ∀ i, i ≠ axis → s.getD i 0 = acc.getD i 0
  | [], acc, rs, h, _ => by
    simp only [concatGo] at h
    injection h with h; subst h
    exact ⟨rfl, fun _ _ => rfl, by simp, by simp⟩
  | ty :: ts, acc, rs, h, hax => by
    cases ty with
    | array s st' =>
      simp only [concatGo] at h
      split at h; · cases h
      rename_i hst
      have hst : st' = st := Classical.byContradiction fun hne => hst hne
      subst hst
      split at h; · cases h
      rename_i hlen
      have hlen : acc.length = s.length := Classical.byContradiction fun hne => hlen hne
      split at h; · cases h
      rename_i hall
      have hall : ∀ i, i ≠ axis → s.getD i 0 = acc.getD i 0 := by
        intro i hi
        by_cases hil : i < s.length
        · have hall' : ((List.range s.length).all fun i => acc.getD i 0 == s.getD i 0 || i == axis) = true := by
            cases hb : ((List.range s.length).all fun i => acc.getD i 0 == s.getD i 0 || i == axis) with
            | true => rfl
            | false => exact absurd hb hall
          have := (List.all_eq_true.mp hall') i (List.mem_range.mpr hil)
          simp only [Bool.or_eq_true, beq_iff_eq] at this
          rcases this with h1 | h1
          · exact h1.symm
          · exact absurd h1 hi
        · simp [List.getD_eq_getElem?_getD, List.getElem?_eq_none (Nat.le_of_not_lt hil),
            List.getElem?_eq_none (hlen ▸ Nat.le_of_not_lt hil)]
      obtain ⟨g1, g2, g3, g4⟩ := concatGo_facts axis st' ts _ rs h (by simpa using hax)
      refine ⟨by simpa using g1, ?_, ?_, ?_⟩
      · intro i hi
        rw [g2 i hi, getD_set_ne _ _ _ _ hi]
      · rw [g3, getD_set_self _ _ _ hax]
        simp [dimsE, Nat.add_assoc]
      · intro ty hty
        rcases List.mem_cons.mp hty with rfl | hty
        · exact ⟨s, rfl, hlen.symm, hall⟩
        · obtain ⟨s', e1, e2, e3⟩ := g4 ty hty
          refine ⟨s', e1, by simpa using e2, ?_⟩
          intro i hi
          rw [e3 i hi, getD_set_ne _ _ _ _ hi]
    | scalar sa => simp [concatGo] at h
    | vector n e => simp [concatGo] at h
    | tuple fs => simp [concatGo] at h
    | named fs => simp [concatGo] at h

theorem getElem?_eq_of_getD {s r : List Nat} (hl : s.length = r.length) {i : Nat}
    (h : s.getD i 0 = r.getD i 0) : s[i]? = r[i]? := by
  by_cases hi : i < s.length
  · have hi' : i < r.length := hl ▸ hi
    simp only [List.getD_eq_getElem?_getD, List.getElem?_eq_getElem hi, List.getElem?_eq_getElem hi',
      Option.getD_some] at h
    rw [List.getElem?_eq_getElem hi, List.getElem?_eq_getElem hi', h]
  · rw [List.getElem?_eq_none (Nat.le_of_not_lt hi), List.getElem?_eq_none (hl ▸ Nat.le_of_not_lt hi)]

theorem take_drop_eq_of_getD {s r : List Nat} {axis : Nat} (hl : s.length = r.length)
    (h : ∀ i, i ≠ axis → s.getD i 0 = r.getD i 0) :
    s.take axis = r.take axis ∧ s.drop (axis + 1) = r.drop (axis + 1) := by
  constructor
  · apply List.ext_getElem?
    intro i
    rw [List.getElem?_take, List.getElem?_take]
    split
    · exact getElem?_eq_of_getD hl (h i (by omega))
    · rfl
  · apply List.ext_getElem?
    intro i
    rw [List.getElem?_drop, List.getElem?_drop]
    exact getElem?_eq_of_getD hl (h _ (by omega))

/-- **Concatenate**, what an accepted node says, in the form `concatenate_typed` needs -/
theorem inferConcatenate_facts {axis : Nat} {tys : List Ty} {t : Ty} (h : inferConcatenate axis tys = .ok t) :
    ∃ st rs, t = .array rs st ∧ axis < rs.length ∧
      rs.getD axis 0 = (tys.map fun ty => (dimsE ty).getD axis 0).sum ∧
      ∀ ty ∈ tys, isFlat ty = true ∧ stE ty = st ∧
        prod (dimsE ty) = prod (rs.take axis) * (dimsE ty).getD axis 0 * prod (rs.drop (axis + 1)) := by
  unfold inferConcatenate at h
  split at h; · cases h
  split at h; · cases h
  cases tys with
  | nil => cases h
  | cons a rest =>
    cases a with
    | array s0 st =>
      simp only [] at h
      split at h; · cases h
      rename_i hax
      have hax : axis < s0.length := by omega
      cases hg : concatGo axis st s0 rest with
      | error e => rw [hg] at h; cases h
      | ok rs =>
        rw [hg] at h
        injection h with h; subst h
        obtain ⟨g1, g2, g3, g4⟩ := concatGo_facts axis st rest s0 rs hg hax
        refine ⟨st, rs, rfl, by omega, by rw [g3]; simp [dimsE], ?_⟩
        have key : ∀ s : List Nat, s.length = s0.length → (∀ i, i ≠ axis → s.getD i 0 = s0.getD i 0) →
            prod s = prod (rs.take axis) * s.getD axis 0 * prod (rs.drop (axis + 1)) := by
          intro s hl hd
          obtain ⟨e1, e2⟩ := take_drop_eq_of_getD (s := s) (r := rs) (axis := axis) (by omega)
            (fun i hi => by rw [hd i hi, g2 i hi])
          rw [prod_split_axis s axis (by omega), e1, e2]
        intro ty hty
        rcases List.mem_cons.mp hty with rfl | hty
        · exact ⟨rfl, rfl, key s0 rfl (fun _ _ => rfl)⟩
        · obtain ⟨s', rfl, e2, e3⟩ := g4 ty hty
          exact ⟨rfl, rfl, key s' e2 e3⟩
    | scalar sa => cases h
    | vector n e => cases h
    | tuple fs => cases h
    | named fs => cases h

/-! ### B2A -/

theorem prod_dropLast (s : List Nat) (h : s ≠ []) :
    prod s = prod (dropLast s) * s.getD (s.length - 1) 0 := by
  have hl : 0 < s.length := List.length_pos_iff.mpr h
  have e := prod_split_axis s (s.length - 1) (by omega)
  have hd : s.drop (s.length - 1 + 1) = [] := by
    apply List.drop_of_length_le; omega
  rw [hd] at e
  simpa [dropLast, prod] using e

/-- **B2A**, what an accepted node says: the input is a bit array whose last dimension is the width
    of `st`; the result has `prod (all other dimensions)` entries of scalar type `st ≠ BIT` -/
theorem b2aInfer_facts {a t : Ty} {st : ST} (h : b2aInfer a st = .ok t) :
    ∃ s, a = .array s .bit ∧ st ≠ .bit ∧ isFlat t = true ∧ stE t = st ∧
      prod s = prod (dimsE t) * st.bits := by
  unfold b2aInfer at h
  split at h; · cases h
  rename_i hval
  cases a with
  | array s ast =>
    simp only [] at h
    split at h; · cases h
    rename_i hbit
    have hbit : ast = .bit := Classical.byContradiction fun hne => hbit hne
    subst hbit
    split at h; · cases h
    rename_i hst
    split at h; · cases h
    rename_i hlast
    have hlast : s.getD (s.length - 1) 0 = st.bits := Classical.byContradiction fun hne => hlast hne
    have hvalid : (Ty.array s .bit).isValid = true := by
      cases hb : (Ty.array s .bit).isValid with
      | true => rfl
      | false => exact absurd hb hval
    have hne := (valid_array hvalid).1
    have hp := prod_dropLast s hne
    rw [hlast] at hp
    split at h
    · rename_i h1
      injection h with h; subst h
      refine ⟨s, rfl, hst, rfl, rfl, ?_⟩
      obtain ⟨d, rfl⟩ := List.length_eq_one_iff.mp h1
      simp [dimsE, prod] at hp ⊢
      simpa [dropLast, prod] using hp
    · injection h with h; subst h
      exact ⟨s, rfl, hst, rfl, rfl, hp⟩
  | scalar sa => simp at h
  | vector n e => simp at h
  | tuple fs => simp at h
  | named fs => simp at h

end CCV.EvalOps
