import CCV.Lemmas.InlineBatchDefs
import CCV.Lemmas.Inline
import CCV.Lemmas.Shape
import CCV.Lemmas.EvalOps
import CCV.Lemmas.OpsMat
import CCV.Lemmas.OpsStruct
import CCV.Lemmas.Slices
/-
  Elementwise specifications of `maskToValue` and `oneHotEncode` (model of `mask_to_value` and
  `one_hot_encode` of exponential_inliner.rs on flat arrays).
-/
namespace CCV.InlineBatch
open CCV CCV.Shape CCV.Ops CCV.Slices CCV.Inline

/-! ### generic helpers -/

theorem elem_getD_map_range_lt (n : Nat) (f : Nat → Nat) (hf : ∀ i, f i < 2) (p : Nat) :
    ((List.range n).map f).getD p 0 < 2 := by
  by_cases h : p < n
  · rw [getD_map_range n f p h]; exact hf p
  · simp [List.getD, h]

theorem elem_flat_snoc {β B : List Nat} (hl : β.length = B.length) (k K : Nat) :
    flat (β ++ [k]) (B ++ [K]) = flat β B * K + k := by
  rw [flat_append hl]
  simp [flat, prod]

theorem elem_validIdx_snoc {β B : List Nat} (h : validIdx β B) {k K : Nat} (hk : k < K) :
    validIdx (β ++ [k]) (B ++ [K]) :=
  validIdx_append h (by simp [validIdx, hk])

theorem elem_pos_snoc {B : List Nat} (hB : pos B) {K : Nat} (hK : 1 ≤ K) : pos (B ++ [K]) := by
  intro d hd
  rcases List.mem_append.mp hd with h | h
  · exact hB d h
  · simp at h; omega

/-! ### E1: `maskToValue` -/

set_option linter.unusedVariables false in
theorem maskToValue_spec (B : List Nat) (K m : Nat) (hB : pos B) (hK : 1 ≤ K) :
    (maskToValue (B ++ [K]) K m).length = prod (B ++ [K]) ∧
    (∀ p, (maskToValue (B ++ [K]) K m).getD p 0 < 2) ∧
    ∀ β k, validIdx β B → k < K →
      (maskToValue (B ++ [K]) K m).getD (flat (β ++ [k]) (B ++ [K])) 0 = (m.testBit k).toNat := by
  refine ⟨by simp [maskToValue], ?_, ?_⟩
  · intro p
    unfold maskToValue
    exact elem_getD_map_range_lt _ _ (fun i => Nat.mod_lt _ (by omega)) p
  · intro β k hβ hk
    have hv := elem_validIdx_snoc hβ hk
    unfold maskToValue
    rw [getD_map_range _ _ _ (flat_lt hv)]
    simp only [numberToIndex_flat hv]
    have hsi : (if K = 1 then 0 else (β ++ [k]).getD ((β ++ [k]).length - 1) 0) = k := by
      by_cases h1 : K = 1
      · rw [if_pos h1]; omega
      · rw [if_neg h1]; simp
    rw [hsi, Nat.toNat_testBit, Nat.shiftRight_eq_div_pow]

/-- flat-position form of `maskToValue_spec` -/
theorem elem_maskToValue_getD (B : List Nat) (K m : Nat) (hB : pos B) (hK : 1 ≤ K) {q k : Nat}
    (hq : q < prod B) (hk : k < K) :
    (maskToValue (B ++ [K]) K m).getD (q * K + k) 0 = (m.testBit k).toNat := by
  have hv := numberToIndex_valid hB hq
  have := (maskToValue_spec B K m hB hK).2.2 _ k hv hk
  rwa [elem_flat_snoc (validIdx_length hv), flat_numberToIndex hB hq] at this

/-! ### BIT arithmetic on arrays of the same shape -/

theorem elem_bcIdx_self : ∀ {s I : List Nat}, validIdx I s → bcIdx s I = I := by
  intro s I h
  unfold bcIdx
  rw [validIdx_length h, Nat.sub_self, List.drop_zero]
  induction s generalizing I with
  | nil => cases I with
    | nil => rfl
    | cons x xs => simp [validIdx] at h
  | cons d ds ih =>
    cases I with
    | nil => simp [validIdx] at h
    | cons x xs =>
      simp only [validIdx] at h
      simp only [List.zipWith_cons_cons, ih h.2]
      by_cases hd : d = 1
      · rw [if_pos hd]; congr 1; omega
      · rw [if_neg hd]

theorem elem_bit_add (a b : Nat) (ha : a < 2) (hb : b < 2) :
    ST.bit.ofInt (Arith.int .add (ST.bit.toInt a) (ST.bit.toInt b)) = (a + b) % 2 := by
  have ha' : a = 0 ∨ a = 1 := by omega
  have hb' : b = 0 ∨ b = 1 := by omega
  rcases ha' with rfl | rfl <;> rcases hb' with rfl | rfl <;> decide

theorem elem_bit_mul (a b : Nat) (ha : a < 2) (hb : b < 2) :
    ST.bit.ofInt (Arith.int .mul (ST.bit.toInt a) (ST.bit.toInt b)) = a * b := by
  have ha' : a = 0 ∨ a = 1 := by omega
  have hb' : b = 0 ∨ b = 1 := by omega
  rcases ha' with rfl | rfl <;> rcases hb' with rfl | rfl <;> decide

theorem elem_arith_getD (op : Arith) (s a b : List Nat) (hs : pos s) :
    ∃ r, arith op .bit s a s b s = .ok r ∧ r.length = prod s ∧
      ∀ p, p < prod s →
        r.getD p 0 = ST.bit.ofInt (op.int (ST.bit.toInt (a.getD p 0)) (ST.bit.toInt (b.getD p 0))) := by
  obtain ⟨r, h1, h2, h3⟩ := arith_spec op .bit s a s b s (EvalOps.bcOK_refl s) (EvalOps.bcOK_refl s)
  refine ⟨r, h1, h2, ?_⟩
  intro p hp
  have hv := numberToIndex_valid hs hp
  have := h3 _ hv
  rw [flat_numberToIndex hs hp] at this
  rw [this]
  simp only [Spec.arith, Spec.ofFlat, elem_bcIdx_self hv, flat_numberToIndex hs hp]

theorem elem_getD_ge {l : List Nat} {p : Nat} (h : l.length ≤ p) : l.getD p 0 = 0 := by
  simp [List.getD, h]

theorem bitAdd_spec (s a b : List Nat) (hs : pos s) (ha : ∀ p, a.getD p 0 < 2)
    (hb : ∀ p, b.getD p 0 < 2) :
    (bitAdd s a b).length = prod s ∧ (∀ p, (bitAdd s a b).getD p 0 < 2) ∧
    ∀ p, p < prod s → (bitAdd s a b).getD p 0 = (a.getD p 0 + b.getD p 0) % 2 := by
  obtain ⟨r, h1, h2, h3⟩ := elem_arith_getD .add s a b hs
  have e : bitAdd s a b = r := by unfold bitAdd; rw [h1]; rfl
  rw [e]
  have h4 : ∀ p, p < prod s → r.getD p 0 = (a.getD p 0 + b.getD p 0) % 2 := by
    intro p hp; rw [h3 p hp, elem_bit_add _ _ (ha p) (hb p)]
  refine ⟨h2, ?_, h4⟩
  intro p
  by_cases hp : p < prod s
  · rw [h4 p hp]; omega
  · rw [elem_getD_ge (by omega)]; omega

theorem bitMul_spec (s a b : List Nat) (hs : pos s) (ha : ∀ p, a.getD p 0 < 2)
    (hb : ∀ p, b.getD p 0 < 2) :
    (bitMul s a b).length = prod s ∧ (∀ p, (bitMul s a b).getD p 0 < 2) ∧
    ∀ p, p < prod s → (bitMul s a b).getD p 0 = a.getD p 0 * b.getD p 0 := by
  obtain ⟨r, h1, h2, h3⟩ := elem_arith_getD .mul s a b hs
  have e : bitMul s a b = r := by unfold bitMul; rw [h1]; rfl
  rw [e]
  have h4 : ∀ p, p < prod s → r.getD p 0 = a.getD p 0 * b.getD p 0 := by
    intro p hp; rw [h3 p hp, elem_bit_mul _ _ (ha p) (hb p)]
  refine ⟨h2, ?_, h4⟩
  intro p
  by_cases hp : p < prod s
  · rw [h4 p hp]
    have := ha p; have := hb p
    have ha' : a.getD p 0 = 0 ∨ a.getD p 0 = 1 := by omega
    rcases ha' with h | h <;> rw [h] <;> omega
  · rw [elem_getD_ge (by omega)]; omega

/-! ### the column slice `[..., k]` -/

theorem elem_slice1dIndex_full (d x : Nat) : slice1dIndex d none none none x = .ok x := by
  simp [slice1dIndex, normalizeSubarray]

theorem elem_sliceIndexLoop (K k : Nat) (rest : List Nat) :
    ∀ (B β : List Nat) (j : Nat), β.length = B.length →
      sliceIndexLoop (B ++ [K])
        (List.replicate B.length (SE.sub none none none) ++ [SE.single (Int.ofNat k)]) (β ++ rest) j
        = .ok (β ++ [k], j + B.length) := by
  intro B
  induction B with
  | nil =>
    intro β j hl
    cases β with
    | cons x xs => simp at hl
    | nil =>
      simp [sliceIndexLoop]
  | cons d ds ih =>
    intro β j hl
    cases β with
    | nil => simp at hl
    | cons x xs =>
      simp only [List.length_cons, Nat.succ.injEq] at hl
      simp only [List.cons_append, List.length_cons, List.replicate_succ, sliceIndexLoop,
        elem_slice1dIndex_full, ih xs (j + 1) hl]
      congr 2
      omega

theorem elem_mapM_ok {α : Type} (f : α → Except String Nat) (g : α → Nat) :
    ∀ (l : List α), (∀ a ∈ l, f a = .ok (g a)) → l.mapM f = .ok (l.map g) := by
  intro l
  induction l with
  | nil => intro _; rfl
  | cons a l ih =>
    intro h
    rw [List.mapM_cons, h a List.mem_cons_self, ih (fun x hx => h x (List.mem_cons_of_mem _ hx))]
    rfl

theorem elem_prod_dimsOf (B : List Nat) : prod (dimsOf B) = prod B := by
  unfold dimsOf
  by_cases h : B = []
  · rw [if_pos h, h]; rfl
  · rw [if_neg h]

theorem elem_pos_dimsOf {B : List Nat} (hB : pos B) : pos (dimsOf B) := by
  unfold dimsOf
  by_cases h : B = []
  · rw [if_pos h]; intro d hd; simp at hd; omega
  · rw [if_neg h]; exact hB

theorem elem_sliceIndex_col (B : List Nat) (K k i : Nat) (hB : pos B) (hi : i < prod B) :
    sliceIndex (B ++ [K]) [.ellipsis, .single (Int.ofNat k)] (numberToIndex i (dimsOf B))
      = .ok (numberToIndex i B ++ [k]) := by
  have hclean : getCleanSlice (B ++ [K]).length [.ellipsis, .single (Int.ofNat k)]
      = .ok (List.replicate B.length (SE.sub none none none) ++ [SE.single (Int.ofNat k)]) := by
    have := getCleanSlice_ellipsis (B.length + 1) [] [.single (Int.ofNat k)] (by simp) (by simp)
      (by simp)
    simpa using this
  unfold sliceIndex
  rw [hclean]
  dsimp only
  by_cases hn : B = []
  · subst hn
    simp only [prod] at hi
    have hi0 : i = 0 := by omega
    subst hi0
    have e : numberToIndex 0 (dimsOf []) = [] ++ [0] := by decide
    rw [e, elem_sliceIndexLoop K k [0] [] [] 0 rfl]
    simp [numberToIndex, n2iAux]
  · have hd : dimsOf B = B := by unfold dimsOf; rw [if_neg hn]
    have hv := numberToIndex_valid hB hi
    have hl := validIdx_length hv
    have hlen : B.length ≠ 0 := by
      intro h; exact hn (List.length_eq_zero_iff.mp h)
    rw [hd]
    have := elem_sliceIndexLoop K k [] B (numberToIndex i B) 0 hl
    rw [List.append_nil] at this
    rw [this]
    simp only [Nat.zero_add]
    rw [if_neg (by intro h; exact hlen h.1), if_neg (by rw [hl]; simp)]

/-- column `k` of an array of shape `B ++ [K]`: `x[..., k]`, entry `q` is entry `q * K + k` -/
theorem getSlice_column (B : List Nat) (K k : Nat) (xs : List Nat) (hB : pos B) (hk : k < K) :
    ∃ r, getSlice (B ++ [K]) xs [.ellipsis, .single (Int.ofNat k)] (dimsOf B) = .ok r ∧
      r.length = prod B ∧ ∀ q, q < prod B → r.getD q 0 = xs.getD (q * K + k) 0 := by
  refine ⟨(List.range (prod B)).map fun q => xs.getD (q * K + k) 0, ?_, by simp, ?_⟩
  · unfold getSlice
    rw [elem_prod_dimsOf]
    apply elem_mapM_ok
    intro i hi
    have hi' : i < prod B := List.mem_range.mp hi
    rw [elem_sliceIndex_col B K k i hB hi']
    have hv := numberToIndex_valid hB hi'
    simp only
    rw [indexToNumber_eq_flat (elem_validIdx_snoc hv hk), elem_flat_snoc (validIdx_length hv),
      flat_numberToIndex hB hi']
  · intro q hq
    rw [getD_map_range _ _ _ hq]

/-! ### `natOfBits` against `testBit` -/

theorem elem_natOfBits_congr : ∀ (K : Nat) (f g : Nat → Bool), (∀ k, k < K → f k = g k) →
    natOfBits K f = natOfBits K g
  | 0, _, _, _ => rfl
  | K + 1, f, g, h => by
    simp only [natOfBits]
    rw [h 0 (by omega), elem_natOfBits_congr K _ _ (fun k hk => h (k + 1) (by omega))]

theorem elem_natOfBits_lt : ∀ (K : Nat) (f : Nat → Bool), natOfBits K f < 2 ^ K
  | 0, _ => by simp [natOfBits]
  | K + 1, f => by
    have := elem_natOfBits_lt K (fun b => f (b + 1))
    simp only [natOfBits]
    rw [Nat.pow_succ]
    cases f 0 <;> simp <;> omega

theorem elem_testBit_natOfBits : ∀ (K : Nat) (f : Nat → Bool) (k : Nat), k < K →
    (natOfBits K f).testBit k = f k
  | 0, _, _, h => by omega
  | K + 1, f, 0, _ => by
    simp only [natOfBits, Nat.testBit_zero]
    cases f 0 <;> simp
  | K + 1, f, k + 1, h => by
    simp only [natOfBits, Nat.testBit_succ]
    have e : ((f 0).toNat + 2 * natOfBits K fun b => f (b + 1)) / 2 = natOfBits K fun b => f (b + 1) := by
      cases f 0
      · simp
      · simp; omega
    rw [e, elem_testBit_natOfBits K _ k (by omega)]

theorem natOfBits_eq_iff (K : Nat) (f : Nat → Bool) (j : Nat) (hj : j < 2 ^ K) :
    natOfBits K f = j ↔ ∀ k, k < K → f k = j.testBit k := by
  constructor
  · intro h k hk
    rw [← h, elem_testBit_natOfBits K f k hk]
  · intro h
    rw [elem_natOfBits_congr K f (fun b => j.testBit b) h, natOfBits_testBit K j hj]

theorem elem_testBit_compl (K j k : Nat) (hk : k < K) :
    ((2 ^ K - 1) ^^^ j).testBit k = !j.testBit k := by
  rw [Nat.testBit_xor, Nat.testBit_two_pow_sub_one]
  simp [hk]

/-! ### the product of the columns -/

theorem elem_foldl_mul (d : List Nat) (hd : pos d) :
    ∀ (cs : List (List Nat)) (acc : List Nat), acc.length = prod d → (∀ p, acc.getD p 0 < 2) →
      (∀ c ∈ cs, ∀ p, c.getD p 0 < 2) →
      (cs.foldl (fun eq c => bitMul d eq c) acc).length = prod d ∧
      (∀ p, (cs.foldl (fun eq c => bitMul d eq c) acc).getD p 0 < 2) ∧
      ∀ q, q < prod d → ((cs.foldl (fun eq c => bitMul d eq c) acc).getD q 0 = 1 ↔
        acc.getD q 0 = 1 ∧ ∀ c ∈ cs, c.getD q 0 = 1) := by
  intro cs
  induction cs with
  | nil => intro acc hl hb _; exact ⟨hl, hb, fun q _ => by simp⟩
  | cons c cs ih =>
    intro acc hl hb hc
    obtain ⟨m1, m2, m3⟩ := bitMul_spec d acc c hd hb (hc c List.mem_cons_self)
    obtain ⟨r1, r2, r3⟩ := ih (bitMul d acc c) m1 m2 (fun x hx => hc x (List.mem_cons_of_mem _ hx))
    simp only [List.foldl_cons]
    refine ⟨r1, r2, ?_⟩
    intro q hq
    rw [r3 q hq, m3 q hq]
    have h1 := hb q
    have h2 := hc c List.mem_cons_self q
    have : acc.getD q 0 * c.getD q 0 = 1 ↔ acc.getD q 0 = 1 ∧ c.getD q 0 = 1 := by
      have ha' : acc.getD q 0 = 0 ∨ acc.getD q 0 = 1 := by omega
      rcases ha' with h | h <;> rw [h] <;> omega
    rw [this]
    simp only [List.mem_cons, forall_eq_or_imp]
    exact and_assoc

/-- the row of `oneHotEncode` for one mask -/
def oneHotRow (B : List Nat) (K : Nat) (val : List Nat) (mask : Nat) : List Nat :=
  let shape := B ++ [K]
  let columnId := maskToValue shape K ((2 ^ K - 1) ^^^ mask)
  let bitDiff := bitAdd shape val columnId
  let cols := (List.range K).map fun (k : Nat) =>
    okD (getSlice shape bitDiff [.ellipsis, .single (Int.ofNat k)] (dimsOf B))
  (cols.drop 1).foldl (fun eq c => bitMul (dimsOf B) eq c) (cols.headD [])

theorem oneHotEncode_eq_rows (B : List Nat) (K : Nat) (val : List Nat) :
    oneHotEncode B K val = vectorToArray ((List.range (2 ^ K)).map (oneHotRow B K val)) := rfl

theorem elem_lt_mul {q n k K : Nat} (hq : q < n) (hk : k < K) : q * K + k < n * K := by
  have : (q + 1) * K ≤ n * K := Nat.mul_le_mul_right K hq
  rw [Nat.add_mul] at this
  omega

/-- per-mask row: entry `q` is 1 iff the `K` bits of row `q` of `val` spell the mask `j` -/
theorem oneHotRow_spec (B : List Nat) (K : Nat) (val : List Nat) (j : Nat) (hB : pos B) (hK : 1 ≤ K)
    (hwf : WF (B ++ [K]) val) (hj : j < 2 ^ K) :
    (oneHotRow B K val j).length = prod B ∧
    (∀ p, (oneHotRow B K val j).getD p 0 < 2) ∧
    ∀ q, q < prod B → (oneHotRow B K val j).getD q 0 =
      (natOfBits K (fun k => val.getD (q * K + k) 0 == 1) == j).toNat := by
  have hsh := elem_pos_snoc hB hK
  have hmv := maskToValue_spec B K ((2 ^ K - 1) ^^^ j) hB hK
  obtain ⟨a1, a2, a3⟩ := bitAdd_spec (B ++ [K]) val (maskToValue (B ++ [K]) K ((2 ^ K - 1) ^^^ j))
    hsh hwf.2 hmv.2.1
  have hprod : prod (B ++ [K]) = prod B * K := by rw [prod_append]; simp [prod]
  -- the columns
  have hcol : ∀ k, k < K →
      (okD (getSlice (B ++ [K]) (bitAdd (B ++ [K]) val (maskToValue (B ++ [K]) K ((2 ^ K - 1) ^^^ j)))
        [.ellipsis, .single (Int.ofNat k)] (dimsOf B))).length = prod B ∧
      (∀ p, (okD (getSlice (B ++ [K]) (bitAdd (B ++ [K]) val (maskToValue (B ++ [K]) K ((2 ^ K - 1) ^^^ j)))
        [.ellipsis, .single (Int.ofNat k)] (dimsOf B))).getD p 0 < 2) ∧
      ∀ q, q < prod B →
        ((okD (getSlice (B ++ [K]) (bitAdd (B ++ [K]) val (maskToValue (B ++ [K]) K ((2 ^ K - 1) ^^^ j)))
          [.ellipsis, .single (Int.ofNat k)] (dimsOf B))).getD q 0 = 1 ↔
          (val.getD (q * K + k) 0 == 1) = j.testBit k) := by
    intro k hk
    obtain ⟨r, g1, g2, g3⟩ := getSlice_column B K k
      (bitAdd (B ++ [K]) val (maskToValue (B ++ [K]) K ((2 ^ K - 1) ^^^ j))) hB hk
    rw [g1]
    simp only [okD]
    refine ⟨g2, ?_, ?_⟩
    · intro p
      by_cases hp : p < prod B
      · rw [g3 p hp]; exact a2 _
      · rw [elem_getD_ge (by omega)]; omega
    · intro q hq
      rw [g3 q hq, a3 _ (by rw [hprod]; exact elem_lt_mul hq hk),
        elem_maskToValue_getD B K _ hB hK hq hk, elem_testBit_compl K j k hk]
      have hv := hwf.2 (q * K + k)
      have hv' : val.getD (q * K + k) 0 = 0 ∨ val.getD (q * K + k) 0 = 1 := by omega
      rcases hv' with h | h <;> rw [h] <;> cases j.testBit k <;> decide
  -- the fold
  unfold oneHotRow
  simp only
  generalize hcs : ((List.range K).map fun (k : Nat) =>
    okD (getSlice (B ++ [K]) (bitAdd (B ++ [K]) val (maskToValue (B ++ [K]) K ((2 ^ K - 1) ^^^ j)))
      [.ellipsis, .single (Int.ofNat k)] (dimsOf B))) = cols
  have hmem : ∀ c ∈ cols, ∃ k, k < K ∧ c = okD (getSlice (B ++ [K])
      (bitAdd (B ++ [K]) val (maskToValue (B ++ [K]) K ((2 ^ K - 1) ^^^ j)))
      [.ellipsis, .single (Int.ofNat k)] (dimsOf B)) := by
    intro c hc
    rw [← hcs] at hc
    obtain ⟨k, hk, rfl⟩ := List.mem_map.mp hc
    exact ⟨k, List.mem_range.mp hk, rfl⟩
  have hmem' : ∀ k, k < K → okD (getSlice (B ++ [K])
      (bitAdd (B ++ [K]) val (maskToValue (B ++ [K]) K ((2 ^ K - 1) ^^^ j)))
      [.ellipsis, .single (Int.ofNat k)] (dimsOf B)) ∈ cols := by
    intro k hk
    rw [← hcs]
    exact List.mem_map.mpr ⟨k, List.mem_range.mpr hk, rfl⟩
  have hne : cols ≠ [] := by
    intro h
    have := hmem' 0 (by omega)
    rw [h] at this
    cases this
  cases cols with
  | nil => exact absurd rfl hne
  | cons c0 cs =>
    simp only [List.drop_one, List.tail_cons, List.headD_cons]
    have hc0 : c0.length = prod (dimsOf B) ∧ ∀ p, c0.getD p 0 < 2 := by
      obtain ⟨k, hk, rfl⟩ := hmem c0 List.mem_cons_self
      rw [elem_prod_dimsOf]
      exact ⟨(hcol k hk).1, (hcol k hk).2.1⟩
    have hcs' : ∀ c ∈ cs, ∀ p, c.getD p 0 < 2 := by
      intro c hc
      obtain ⟨k, hk, rfl⟩ := hmem c (List.mem_cons_of_mem _ hc)
      exact (hcol k hk).2.1
    obtain ⟨f1, f2, f3⟩ := elem_foldl_mul (dimsOf B) (elem_pos_dimsOf hB) cs c0 hc0.1 hc0.2 hcs'
    rw [elem_prod_dimsOf] at f1 f3
    refine ⟨f1, f2, ?_⟩
    intro q hq
    have hiff : (List.foldl (fun eq c => bitMul (dimsOf B) eq c) c0 cs).getD q 0 = 1 ↔
        natOfBits K (fun k => val.getD (q * K + k) 0 == 1) = j := by
      rw [f3 q hq, natOfBits_eq_iff K _ j hj]
      constructor
      · intro h k hk
        have hm := hmem' k hk
        have h1 : (okD (getSlice (B ++ [K])
            (bitAdd (B ++ [K]) val (maskToValue (B ++ [K]) K ((2 ^ K - 1) ^^^ j)))
            [.ellipsis, .single (Int.ofNat k)] (dimsOf B))).getD q 0 = 1 := by
          rcases List.mem_cons.mp hm with e | e
          · rw [e]; exact h.1
          · exact h.2 _ e
        exact ((hcol k hk).2.2 q hq).mp h1
      · intro h
        have hall : ∀ c ∈ c0 :: cs, c.getD q 0 = 1 := by
          intro c hc
          obtain ⟨k, hk, rfl⟩ := hmem c hc
          exact ((hcol k hk).2.2 q hq).mpr (h k hk)
        exact ⟨hall c0 List.mem_cons_self, fun c hc => hall c (List.mem_cons_of_mem _ hc)⟩
    have hb := f2 q
    by_cases hh : natOfBits K (fun k => val.getD (q * K + k) 0 == 1) = j
    · rw [hiff.mpr hh, hh]; simp
    · have : (List.foldl (fun eq c => bitMul (dimsOf B) eq c) c0 cs).getD q 0 ≠ 1 :=
        fun h => hh (hiff.mp h)
      have h0 : (List.foldl (fun eq c => bitMul (dimsOf B) eq c) c0 cs).getD q 0 = 0 := by omega
      rw [h0, beq_eq_false_iff_ne.mpr hh]; rfl

/-! ### E2: `oneHotEncode` -/

theorem elem_flatMap_id_length (n : Nat) : ∀ (l : List (List Nat)), (∀ a ∈ l, a.length = n) →
    (l.flatMap id).length = l.length * n := by
  intro l
  induction l with
  | nil => intro _; simp
  | cons a l ih =>
    intro h
    rw [List.flatMap_cons, List.length_append, ih (fun x hx => h x (List.mem_cons_of_mem _ hx))]
    simp only [id, h a List.mem_cons_self, List.length_cons, Nat.add_mul]
    omega

theorem oneHotEncode_spec (B : List Nat) (K : Nat) (val : List Nat) (hB : pos B) (hK : 1 ≤ K)
    (hwf : WF (B ++ [K]) val) :
    (oneHotEncode B K val).length = 2 ^ K * prod B ∧
    (∀ p, (oneHotEncode B K val).getD p 0 < 2) ∧
    ∀ j β, j < 2 ^ K → validIdx β B →
      (oneHotEncode B K val).getD (flat (j :: β) (2 ^ K :: B)) 0 = (rowNat B K val β == j).toNat := by
  rw [oneHotEncode_eq_rows]
  unfold vectorToArray
  have hrows : ∀ a ∈ (List.range (2 ^ K)).map (oneHotRow B K val), a.length = prod B := by
    intro a ha
    obtain ⟨j, hj, rfl⟩ := List.mem_map.mp ha
    exact (oneHotRow_spec B K val j hB hK hwf (List.mem_range.mp hj)).1
  have hlen := elem_flatMap_id_length (prod B) _ hrows
  simp only [List.length_map, List.length_range] at hlen
  have hget : ∀ j q, j < 2 ^ K → q < prod B →
      (((List.range (2 ^ K)).map (oneHotRow B K val)).flatMap id).getD (j * prod B + q) 0
        = (oneHotRow B K val j).getD q 0 := by
    intro j q hj hq
    rw [flatMap_getD_const _ id (prod B) hrows j q (by simpa using hj) hq []]
    simp [List.getD, hj]
  refine ⟨hlen, ?_, ?_⟩
  · intro p
    have hpB := prod_pos hB
    by_cases hp : p < 2 ^ K * prod B
    · have hdiv : p / prod B < 2 ^ K := by
        rw [Nat.div_lt_iff_lt_mul hpB]; exact hp
      have hmod : p % prod B < prod B := Nat.mod_lt _ hpB
      have e : p = p / prod B * prod B + p % prod B := by
        rw [Nat.mul_comm]; exact (Nat.div_add_mod p (prod B)).symm
      rw [e, hget _ _ hdiv hmod]
      exact (oneHotRow_spec B K val _ hB hK hwf hdiv).2.1 _
    · rw [elem_getD_ge (by omega)]; omega
  · intro j β hj hβ
    have e : flat (j :: β) (2 ^ K :: B) = j * prod B + flat β B := rfl
    rw [e, hget j _ hj (flat_lt hβ), (oneHotRow_spec B K val j hB hK hwf hj).2.2 _ (flat_lt hβ)]
    unfold rowNat
    simp only [elem_flat_snoc (validIdx_length hβ)]

example : oneHotEncode [2] 2 [1, 0, 0, 1] = [0, 0, 1, 0, 0, 1, 0, 0] := by decide
example : oneHotEncode [] 2 [1, 1] = [0, 0, 0, 1] := by decide

end CCV.InlineBatch
