import CCV.Model.InlineFresh
/-
  Helper lemmas for Proofs/C07Fresh.lean: the association-list mappings behave like finite maps,
  one assign / inline / unassign cycle of the inliner appends exactly `copySpec (rename …) body`.
-/
namespace CCV.InlineFresh

/-! ### mappings -/

theorem lookup_mInsert (m : Mapping) (k : Key) (v : Nat) (k' : Key) :
    (mInsert m k v).lookup k' = if k' = k then some v else m.lookup k' := by
  unfold mInsert
  rw [List.lookup_cons]
  by_cases h : k' = k
  · subst h; simp
  · have : (k' == k) = false := by simpa using h
    simp [this, h]

theorem lookup_mRemove (m : Mapping) (k k' : Key) :
    (mRemove m k).lookup k' = if k' = k then none else m.lookup k' := by
  unfold mRemove
  induction m with
  | nil => simp
  | cons e rest ih =>
    by_cases hk : k' = k
    · subst hk
      simp only [if_true] at ih ⊢
      by_cases he : e.1 = k'
      · simp [List.filter_cons, he, ih]
      · have : (e.1 == k') = false := by simpa using he
        simp only [List.filter_cons, this, Bool.not_false, if_true]
        rw [List.lookup_cons]
        have : (k' == e.1) = false := by simpa using fun h => he h.symm
        simp [this, ih]
    · simp only [hk, if_false] at ih ⊢
      by_cases he : e.1 = k
      · have h1 : (e.1 == k) = true := by simpa using he
        have h2 : (k' == e.1) = false := by simpa [he] using hk
        simp only [List.filter_cons, h1, Bool.not_true]
        rw [List.lookup_cons, h2]
        simpa using ih
      · have h1 : (e.1 == k) = false := by simpa using he
        simp only [List.filter_cons, h1, Bool.not_false, if_true]
        rw [List.lookup_cons, List.lookup_cons, ih]

theorem getNode_eq (c : ICtx) (k : Key) :
    c.getNode k = match c.eph.lookup k with
      | some v => v
      | none => (c.cm.lookup k).getD 0 := by
  unfold ICtx.getNode mContains mGet
  cases c.eph.lookup k <;> simp

theorem getNode_of_eph {c : ICtx} {k : Key} {v : Nat} (h : c.eph.lookup k = some v) :
    c.getNode k = v := by rw [getNode_eq, h]

theorem insertNode_eph_ne (c : ICtx) (k : Key) (v : Nat) (k' : Key) (h : k' ≠ k) :
    (c.insertNode k v).eph.lookup k' = c.eph.lookup k' := by
  unfold ICtx.insertNode
  split
  · simp [lookup_mInsert, h]
  · rfl

theorem insertNode_getNode (c : ICtx) (k : Key) (v : Nat) (hk : c.eph.lookup k = none) (k' : Key) :
    (c.insertNode k v).getNode k' = if k' = k then v else c.getNode k' := by
  unfold ICtx.insertNode
  split
  · rw [getNode_eq, getNode_eq]
    simp only [lookup_mInsert]
    by_cases h : k' = k <;> simp [h]
  · rw [getNode_eq, getNode_eq]
    simp only [lookup_mInsert]
    by_cases h : k' = k
    · subst h; simp [hk]
    · simp [h]

/-! ### counting -/

theorem rank_append (a b : List Node) : rank (a ++ b) = rank a + rank b := by
  simp [rank, List.filter_append]

theorem inCount_append (a b : List Node) : inCount (a ++ b) = inCount a + inCount b := by
  simp [inCount, List.filter_append]

theorem randomCount_append (a b : List Node) : randomCount (a ++ b) = randomCount a + randomCount b := by
  simp [randomCount, List.filter_append]

theorem copySpec_append (ρ : Nat → Nat) (a b : List Node) :
    copySpec ρ (a ++ b) = copySpec ρ a ++ copySpec ρ b := by
  simp [copySpec, List.filter_append]

theorem copySpec_length (ρ : Nat → Nat) (l : List Node) : (copySpec ρ l).length = rank l := by
  simp [copySpec, rank]

theorem randomCount_copySpec (ρ : Nat → Nat) (l : List Node) :
    randomCount (copySpec ρ l) = randomCount l := by
  induction l with
  | nil => rfl
  | cons nd rest ih =>
    have e1 : copySpec ρ (nd :: rest) = copySpec ρ [nd] ++ copySpec ρ rest := copySpec_append ρ [nd] rest
    have e2 : randomCount (nd :: rest) = randomCount [nd] + randomCount rest := randomCount_append [nd] rest
    rw [e1, randomCount_append, ih, e2]
    congr 1
    by_cases h : nd.tag = .input
    · simp [copySpec, randomCount, h]
    · by_cases h2 : nd.tag = .random <;> simp [copySpec, randomCount, h, h2]

/-- well-formed body: dependencies point to earlier nodes -/
def WF (g : Graph) : Prop := ∀ (k : Nat) (nd : Node), g[k]? = some nd → ∀ d ∈ nd.deps, d < k

/-! ### assign_input_nodes -/

theorem assignLoop_spec (gid : Nat) :
    ∀ (l : List Node) (i : Nat) (vals : List Nat) (c : ICtx), inCount l ≤ vals.length →
      (assignLoop gid (inputIdsFrom l i) vals c).cm = c.cm ∧
      (∀ key : Key, key.1 ≠ gid → (assignLoop gid (inputIdsFrom l i) vals c).eph.lookup key = c.eph.lookup key) ∧
      (∀ k, k < i → (assignLoop gid (inputIdsFrom l i) vals c).eph.lookup (gid, k) = c.eph.lookup (gid, k)) ∧
      (∀ j, (assignLoop gid (inputIdsFrom l i) vals c).eph.lookup (gid, i + j) =
        match l[j]? with
        | some nd => if nd.tag = .input then some ((vals[inCount (l.take j)]?).getD 0)
                     else c.eph.lookup (gid, i + j)
        | none => c.eph.lookup (gid, i + j)) := by
  intro l
  induction l with
  | nil => intro i vals c _; simp [inputIdsFrom, assignLoop]
  | cons nd rest ih =>
    intro i vals c hlen
    by_cases hin : nd.tag = .input
    · have hc : inCount (nd :: rest) = inCount rest + 1 := by simp [inCount, List.filter_cons, hin]
      match vals, hlen with
      | [], hlen => simp [hc] at hlen
      | v :: vs, hlen =>
        have hlen' : inCount rest ≤ vs.length := by simp [hc] at hlen; omega
        simp only [inputIdsFrom, hin, if_true, assignLoop]
        obtain ⟨h1, h0, h2, h3⟩ := ih (i + 1) vs { c with eph := mInsert c.eph (gid, i) v } hlen'
        refine ⟨h1, ?_, ?_, ?_⟩
        · intro key hkey
          rw [h0 key hkey]
          simp only [lookup_mInsert]
          have : key ≠ (gid, i) := fun h => hkey (by rw [h])
          simp [this]
        · intro k hk
          rw [h2 k (by omega)]
          simp only [lookup_mInsert]
          have : (gid, k) ≠ (gid, i) := by intro h; injection h with _ h; omega
          simp [this]
        · intro j
          cases j with
          | zero =>
            rw [Nat.add_zero, h2 i (by omega)]
            simp [lookup_mInsert, hin, inCount]
          | succ j =>
            have e : i + (j + 1) = i + 1 + j := by omega
            rw [e, h3 j]
            have hne : (gid, i + 1 + j) ≠ (gid, i) := by intro h; injection h with _ h; omega
            have ht : inCount ((nd :: rest).take (j + 1)) = inCount (rest.take j) + 1 := by
              simp [inCount, List.take_succ_cons, List.filter_cons, hin]
            simp only [List.getElem?_cons_succ, ht, List.getElem?_cons_succ, lookup_mInsert, hne, if_false]
    · have hc : inCount (nd :: rest) = inCount rest := by simp [inCount, List.filter_cons, hin]
      simp only [inputIdsFrom, hin, if_false]
      obtain ⟨h1, h0, h2, h3⟩ := ih (i + 1) vals c (by omega)
      refine ⟨h1, h0, fun k hk => h2 k (by omega), ?_⟩
      intro j
      cases j with
      | zero =>
        rw [Nat.add_zero, h2 i (by omega)]
        simp [hin]
      | succ j =>
        have e : i + (j + 1) = i + 1 + j := by omega
        have ht : inCount ((nd :: rest).take (j + 1)) = inCount (rest.take j) := by
          simp [inCount, List.take_succ_cons, List.filter_cons, hin]
        rw [e, h3 j]
        simp only [List.getElem?_cons_succ, ht]

/-! ### unassign_nodes -/

theorem unassignLoop_spec (gid : Nat) :
    ∀ (l : List Node) (i : Nat) (c : ICtx),
      (unassignLoop gid l i c).cm = c.cm ∧
      (∀ key : Key, key.1 ≠ gid → (unassignLoop gid l i c).eph.lookup key = c.eph.lookup key) ∧
      (∀ k, (unassignLoop gid l i c).eph.lookup (gid, k) =
        if i ≤ k ∧ k < i + l.length then none else c.eph.lookup (gid, k)) := by
  intro l
  induction l with
  | nil => intro i c; simp [unassignLoop]; intro k h1 h2; omega
  | cons nd rest ih =>
    intro i c
    simp only [unassignLoop]
    obtain ⟨h1, h0, h2⟩ := ih (i + 1)
      (if mContains c.eph (gid, i) then { c with eph := mRemove c.eph (gid, i) } else c)
    have hstep : ∀ key : Key,
        (if mContains c.eph (gid, i) then { c with eph := mRemove c.eph (gid, i) } else c).eph.lookup key
          = if key = (gid, i) then none else c.eph.lookup key := by
      intro key
      by_cases hm : mContains c.eph (gid, i) = true
      · simp [hm, lookup_mRemove]
      · have hmf : mContains c.eph (gid, i) = false := by simpa using hm
        have hn : c.eph.lookup (gid, i) = none := by
          unfold mContains at hmf
          cases h : c.eph.lookup (gid, i) with
          | none => rfl
          | some v => simp [h] at hmf
        simp only [hmf, Bool.false_eq_true, ↓reduceIte]
        by_cases hk : key = (gid, i)
        · subst hk
          simp only [↓reduceIte]
          exact hn
        · simp [hk]
    refine ⟨?_, ?_, ?_⟩
    · rw [h1]; split <;> rfl
    · intro key hkey
      rw [h0 key hkey, hstep]
      have : key ≠ (gid, i) := fun h => hkey (by rw [h])
      simp [this]
    · intro k
      rw [h2 k, hstep]
      by_cases hk : k = i
      · subst hk; simp
      · have hne : (gid, k) ≠ (gid, i) := by intro h; injection h with _ h; exact hk h
        simp only [hne, if_false, List.length_cons]
        by_cases hr : i + 1 ≤ k ∧ k < i + 1 + rest.length
        · have : i ≤ k ∧ k < i + (rest.length + 1) := by omega
          simp [hr, this]
        · have : ¬ (i ≤ k ∧ k < i + (rest.length + 1)) := by omega
          simp [hr, this]

/-! ### recursively_inline_graph on a flat body -/

theorem inlineNodes_spec (gid : Nat) (g : Graph) (ρ : Nat → Nat) (base : Nat)
    (hρ : ∀ k nd, g[k]? = some nd → nd.tag ≠ .input → ρ k = base + rank (g.take k))
    (hwf : WF g) :
    ∀ (suf pre : List Node) (out : Graph) (c : ICtx),
      g = pre ++ suf →
      out.length = base + rank pre →
      (∀ k nd, g[k]? = some nd → nd.tag = .input → c.eph.lookup (gid, k) = some (ρ k)) →
      (∀ k, pre.length ≤ k → (∀ nd, g[k]? = some nd → nd.tag ≠ .input) → c.eph.lookup (gid, k) = none) →
      (∀ k nd, k < pre.length → g[k]? = some nd → nd.tag ≠ .input → c.getNode (gid, k) = ρ k) →
      (inlineNodes gid suf pre.length (out, c)).1 = out ++ copySpec ρ suf ∧
      (∀ k nd, g[k]? = some nd → (inlineNodes gid suf pre.length (out, c)).2.getNode (gid, k) = ρ k) ∧
      (∀ k, g.length ≤ k → (inlineNodes gid suf pre.length (out, c)).2.eph.lookup (gid, k) = none) ∧
      (∀ key : Key, key.1 ≠ gid →
        (inlineNodes gid suf pre.length (out, c)).2.eph.lookup key = c.eph.lookup key ∧
        (inlineNodes gid suf pre.length (out, c)).2.getNode key = c.getNode key) := by
  intro suf
  induction suf with
  | nil =>
    intro pre out c hg hlen hb hc hd
    simp only [List.append_nil] at hg
    subst hg
    refine ⟨by simp [inlineNodes, copySpec], ?_, ?_, fun _ _ => ⟨rfl, rfl⟩⟩
    · intro k nd hk
      by_cases hin : nd.tag = .input
      · exact getNode_of_eph (hb k nd hk hin)
      · have hlt : k < g.length := by
          rcases Nat.lt_or_ge k g.length with h | h
          · exact h
          · rw [List.getElem?_eq_none h] at hk; cases hk
        exact hd k nd hlt hk hin
    · intro k hk
      apply hc k hk
      intro nd hnd
      rw [List.getElem?_eq_none hk] at hnd; cases hnd
  | cons nd rest ih =>
    intro pre out c hg hlen hb hc hd
    have hgi : g[pre.length]? = some nd := by
      rw [hg, List.getElem?_append_right (Nat.le_refl _)]; simp
    have hg' : g = (pre ++ [nd]) ++ rest := by rw [hg]; simp
    have hplen : (pre ++ [nd]).length = pre.length + 1 := by simp
    by_cases hin : nd.tag = .input
    · -- assigned input: skipped
      have hm : mContains c.eph (gid, pre.length) = true := by
        unfold mContains; rw [hb _ _ hgi hin]; rfl
      have hcs : copySpec ρ (nd :: rest) = copySpec ρ rest := by
        simp [copySpec, List.filter_cons, hin]
      simp only [inlineNodes, hm, ↓reduceIte, hcs]
      have hr : rank (pre ++ [nd]) = rank pre := by simp [rank_append, rank, hin]
      have := ih (pre ++ [nd]) out c hg' (by rw [hr]; exact hlen) hb
        (fun k hk hn => hc k (by rw [hplen] at hk; omega) hn)
        (fun k nd' hk hgk hn => by
          rw [hplen] at hk
          by_cases hkk : k = pre.length
          · subst hkk; rw [hgi] at hgk; cases hgk; exact absurd hin hn
          · exact hd k nd' (by omega) hgk hn)
      rw [hplen] at this
      exact this
    · have hm : mContains c.eph (gid, pre.length) = false := by
        unfold mContains
        rw [hc _ (Nat.le_refl _) (fun nd' h => by rw [hgi] at h; cases h; exact hin)]; rfl
      have hnone : c.eph.lookup (gid, pre.length) = none :=
        hc _ (Nat.le_refl _) (fun nd' h => by rw [hgi] at h; cases h; exact hin)
      have hcs : copySpec ρ (nd :: rest) = ⟨nd.tag, nd.deps.map ρ⟩ :: copySpec ρ rest := by
        simp [copySpec, List.filter_cons, hin]
      have hdeps : nd.deps.map (fun d => c.getNode (gid, d)) = nd.deps.map ρ := by
        apply List.map_congr_left
        intro d hdm
        have hlt : d < pre.length := hwf _ _ hgi d hdm
        have hdl : d < g.length := by rw [hg]; simp; omega
        have hgd : g[d]? = some g[d] := List.getElem?_eq_getElem hdl
        by_cases hdi : (g[d]).tag = .input
        · exact getNode_of_eph (hb d _ hgd hdi)
        · exact hd d _ hlt hgd hdi
      simp only [inlineNodes, hm, hcs, hdeps, Bool.false_eq_true, ↓reduceIte]
      have hr : rank (pre ++ [nd]) = rank pre + 1 := by simp [rank_append, rank, hin]
      have hρi : ρ pre.length = out.length := by
        rw [hρ _ _ hgi hin, hlen, hg, List.take_left']
        rfl
      have := ih (pre ++ [nd]) (out ++ [⟨nd.tag, nd.deps.map ρ⟩]) (c.insertNode (gid, pre.length) out.length) hg'
        (by rw [hr]; simp; omega)
        (fun k nd' hgk hn => by
          have hne : (gid, k) ≠ (gid, pre.length) := by
            intro h; injection h with _ h; subst h; rw [hgi] at hgk; cases hgk; exact hin hn
          rw [insertNode_eph_ne _ _ _ _ hne]; exact hb k nd' hgk hn)
        (fun k hk hn => by
          rw [hplen] at hk
          have hne : (gid, k) ≠ (gid, pre.length) := by intro h; injection h with _ h; omega
          rw [insertNode_eph_ne _ _ _ _ hne]; exact hc k (by omega) hn)
        (fun k nd' hk hgk hn => by
          rw [hplen] at hk
          rw [insertNode_getNode _ _ _ hnone]
          by_cases hkk : k = pre.length
          · subst hkk; simp [hρi]
          · have hne : (gid, k) ≠ (gid, pre.length) := by intro h; injection h with _ h; exact hkk h
            simp only [hne, if_false]
            exact hd k nd' (by omega) hgk hn)
      rw [hplen] at this
      obtain ⟨t1, t2, t3, t4⟩ := this
      refine ⟨by rw [t1]; simp, t2, t3, ?_⟩
      intro key hkey
      have hne : key ≠ (gid, pre.length) := fun h => hkey (by rw [h])
      obtain ⟨u1, u2⟩ := t4 key hkey
      refine ⟨by rw [u1, insertNode_eph_ne _ _ _ _ hne], ?_⟩
      rw [u2, insertNode_getNode _ _ _ hnone]
      simp [hne]

/-! ### one assign / inline / unassign cycle -/

/-- the ephemeral mapping has no entry for a node of graph `gid` (holds between copies) -/
def Clean (gid : Nat) (c : ICtx) : Prop := ∀ k, c.eph.lookup (gid, k) = none

theorem getNode_congr {c c' : ICtx} {k : Key} (h1 : c.eph.lookup k = c'.eph.lookup k)
    (h2 : c.cm.lookup k = c'.cm.lookup k) : c.getNode k = c'.getNode k := by
  rw [getNode_eq, getNode_eq, h1, h2]

theorem rename_nonInput {g : Graph} {base : Nat} {vals : List Nat} {k : Nat} {nd : Node}
    (hk : g[k]? = some nd) (hn : nd.tag ≠ .input) : rename g base vals k = base + rank (g.take k) := by
  simp [rename, hk, hn]

theorem rename_input {g : Graph} {base : Nat} {vals : List Nat} {k : Nat} {nd : Node}
    (hk : g[k]? = some nd) (hn : nd.tag = .input) :
    rename g base vals k = (vals[inCount (g.take k)]?).getD 0 := by
  simp [rename, hk, hn]

theorem inlineCall_spec (gid : Nat) (g : Graph) (outId : Nat) (vals : List Nat) (s : St)
    (hwf : WF g) (hvals : inCount g ≤ vals.length) (hclean : Clean gid s.2) :
    (inlineCall gid g outId vals s).1.1 = s.1 ++ copySpec (rename g s.1.length vals) g ∧
    (outId < g.length → (inlineCall gid g outId vals s).2 = rename g s.1.length vals outId) ∧
    Clean gid (inlineCall gid g outId vals s).1.2 ∧
    (∀ key : Key, key.1 ≠ gid →
      (inlineCall gid g outId vals s).1.2.eph.lookup key = s.2.eph.lookup key ∧
      (inlineCall gid g outId vals s).1.2.getNode key = s.2.getNode key) := by
  obtain ⟨out, c⟩ := s
  obtain ⟨a1, a0, _, a3⟩ := assignLoop_spec gid g 0 vals c hvals
  have hb : ∀ k nd, g[k]? = some nd → nd.tag = .input →
      (assignInputNodes gid g vals c).eph.lookup (gid, k) = some (rename g out.length vals k) := by
    intro k nd hk hn
    have := a3 k
    rw [Nat.zero_add, hk] at this
    simp only [hn, if_true] at this
    unfold assignInputNodes
    rw [this, rename_input hk hn]
  have hc : ∀ k, 0 ≤ k → (∀ nd, g[k]? = some nd → nd.tag ≠ .input) →
      (assignInputNodes gid g vals c).eph.lookup (gid, k) = none := by
    intro k _ hn
    have := a3 k
    rw [Nat.zero_add] at this
    unfold assignInputNodes
    rw [this]
    cases hk : g[k]? with
    | none => exact hclean k
    | some nd => simp only [hn nd hk, if_false]; exact hclean k
  obtain ⟨t1, t2, t3, t4⟩ := inlineNodes_spec gid g (rename g out.length vals) out.length
    (fun k nd hk hn => rename_nonInput hk hn) hwf g [] out (assignInputNodes gid g vals c)
    (by simp) (by simp [rank]) hb hc (fun k nd hk => by simp at hk)
  obtain ⟨u1, u0, u2⟩ := unassignLoop_spec gid g 0
    (inlineNodes gid g 0 (out, assignInputNodes gid g vals c)).2
  refine ⟨t1, ?_, ?_, ?_⟩
  · intro ho
    exact t2 outId g[outId] (List.getElem?_eq_getElem ho)
  · intro k
    have h := u2 k
    have h' : (if 0 ≤ k ∧ k < 0 + g.length then none
        else (inlineNodes gid g 0 (out, assignInputNodes gid g vals c)).2.eph.lookup (gid, k)) = none := by
      by_cases hk : 0 ≤ k ∧ k < 0 + g.length
      · rw [if_pos hk]
      · rw [if_neg hk]
        exact t3 k (by omega)
    exact h.trans h'
  · intro key hkey
    obtain ⟨v1, v2⟩ := t4 key hkey
    refine ⟨(u0 key hkey).trans (v1.trans (a0 key hkey)), ?_⟩
    exact (getNode_congr (u0 key hkey) (congrArg (fun m => List.lookup key m) u1)).trans
      (v2.trans (getNode_congr (a0 key hkey) (congrArg (fun m => List.lookup key m) a1)))

/-! ### closed form of the `inline_iterate_simple` loop -/

/-- number of nodes one step appends: Constant, VectorGet, the copy, TupleGet(0), TupleGet(1) -/
def stepLen (g : Graph) : Nat := rank g + 4

/-- the state node fed to copy `i`: the initial state, then TupleGet(0) of the previous step -/
def stateAt (g : Graph) (base init : Nat) : Nat → Nat
  | 0 => init
  | i + 1 => base + i * stepLen g + 2 + rank g

/-- renaming of copy `i`: inputs ↦ [state of step i, VectorGet of step i], the r-th non-input node
    ↦ `base + i * stepLen + 2 + r` -/
def stepRename (g : Graph) (base init i : Nat) : Nat → Nat :=
  rename g (base + i * stepLen g + 2) [stateAt g base init i, base + i * stepLen g + 1]

def stepBlock (g : Graph) (outId inp base init i : Nat) : Graph :=
  [⟨.const i, []⟩, ⟨.vectorGet, [inp, base + i * stepLen g]⟩] ++ copySpec (stepRename g base init i) g ++
    [⟨.tupleGet 0, [stepRename g base init i outId]⟩, ⟨.tupleGet 1, [stepRename g base init i outId]⟩]

def stepBlocks (g : Graph) (outId inp base init : Nat) : Nat → Nat → Graph
  | 0, _ => []
  | fuel + 1, i => stepBlock g outId inp base init i ++ stepBlocks g outId inp base init fuel (i + 1)

theorem stepBlock_length (g : Graph) (outId inp base init i : Nat) :
    (stepBlock g outId inp base init i).length = stepLen g := by
  simp [stepBlock, copySpec_length, stepLen]

theorem stepBlocks_length (g : Graph) (outId inp base init : Nat) :
    ∀ fuel i, (stepBlocks g outId inp base init fuel i).length = fuel * stepLen g := by
  intro fuel
  induction fuel with
  | zero => intro i; simp [stepBlocks]
  | succ fuel ih => intro i; simp [stepBlocks, stepBlock_length, ih, Nat.succ_mul]; omega

theorem iterSimpleLoop_spec (gid : Nat) (g : Graph) (outId inp base init : Nat)
    (hwf : WF g) (h2 : inCount g ≤ 2) (ho : outId < g.length) :
    ∀ (fuel i state : Nat) (outs : List Nat) (out : Graph) (c : ICtx),
      out.length = base + i * stepLen g → state = stateAt g base init i → Clean gid c →
      (iterSimpleLoop gid g outId inp fuel i state outs (out, c)).1.1
        = out ++ stepBlocks g outId inp base init fuel i ∧
      (iterSimpleLoop gid g outId inp fuel i state outs (out, c)).2.1 = stateAt g base init (i + fuel) ∧
      (iterSimpleLoop gid g outId inp fuel i state outs (out, c)).2.2
        = outs ++ (List.range' i fuel).map (fun j => base + j * stepLen g + 3 + rank g) ∧
      Clean gid (iterSimpleLoop gid g outId inp fuel i state outs (out, c)).1.2 := by
  intro fuel
  induction fuel with
  | zero => intro i state outs out c _ hs hc; simp [iterSimpleLoop, stepBlocks, hs, hc]
  | succ fuel ih =>
    intro i state outs out c hlen hs hclean
    obtain ⟨e1, e2, e3, _⟩ := inlineCall_spec gid g outId [state, (out ++ [(Node.mk (Tag.const i) [])]).length]
      (out ++ [(Node.mk (Tag.const i) [])] ++ [(Node.mk (Tag.vectorGet) [inp, out.length])], c) hwf (by simpa using h2) hclean
    have hρ : rename g (out ++ [(Node.mk (Tag.const i) [])] ++ [(Node.mk (Tag.vectorGet) [inp, out.length])]).length
        [state, (out ++ [(Node.mk (Tag.const i) [])]).length] = stepRename g base init i := by
      simp [stepRename, hlen, hs]
    simp only [hρ] at e1 e2
    have e2 := e2 ho
    simp only [iterSimpleLoop, addNode]
    generalize inlineCall gid g outId [state, (out ++ [(Node.mk (Tag.const i) [])]).length]
      (out ++ [(Node.mk (Tag.const i) [])] ++ [(Node.mk (Tag.vectorGet) [inp, out.length])], c) = r at e1 e2 e3 ⊢
    obtain ⟨⟨out3, c3⟩, res⟩ := r
    simp only at e1 e2 e3 ⊢
    have hl3 : out3.length = base + i * stepLen g + 2 + rank g := by
      rw [e1]; simp [copySpec_length]; omega
    obtain ⟨f1, f2, f3, f4⟩ := ih (i + 1) out3.length (outs ++ [(out3 ++ [(Node.mk (Tag.tupleGet 0) [res])]).length])
      (out3 ++ [(Node.mk (Tag.tupleGet 0) [res])] ++ [(Node.mk (Tag.tupleGet 1) [res])]) c3
      (by simp [hl3, Nat.succ_mul, stepLen]; omega) (by rw [hl3]; rfl) e3
    refine ⟨?_, ?_, ?_, f4⟩
    · rw [f1, e1, e2, hlen]
      simp [stepBlocks, stepBlock]
    · rw [f2]; congr 1; omega
    · rw [f3]
      simp [List.range'_succ, hl3]
      omega

/-! ### positions inside a copy -/

theorem split_at {g : Graph} {k : Nat} {nd : Node} (hk : g[k]? = some nd) :
    g = g.take k ++ nd :: g.drop (k + 1) := by
  have hlt : k < g.length := by
    rcases Nat.lt_or_ge k g.length with h | h
    · exact h
    · rw [List.getElem?_eq_none h] at hk; cases hk
  have hnd : g[k] = nd := by
    rw [List.getElem?_eq_getElem hlt] at hk; exact Option.some.inj hk
  conv => lhs; rw [← List.take_append_drop k g]
  rw [List.drop_eq_getElem_cons hlt, hnd]

theorem rank_take_lt {g : Graph} {k : Nat} {nd : Node} (hk : g[k]? = some nd) (hn : nd.tag ≠ .input) :
    rank (g.take k) < rank g := by
  have h := congrArg rank (split_at hk)
  rw [rank_append] at h
  have : rank (nd :: g.drop (k + 1)) = rank (g.drop (k + 1)) + 1 := by simp [rank, List.filter_cons, hn]
  omega

theorem inCount_take_lt {g : Graph} {k : Nat} {nd : Node} (hk : g[k]? = some nd) (hn : nd.tag = .input) :
    inCount (g.take k) < inCount g := by
  have h := congrArg inCount (split_at hk)
  rw [inCount_append] at h
  have : inCount (nd :: g.drop (k + 1)) = inCount (g.drop (k + 1)) + 1 := by simp [inCount, List.filter_cons, hn]
  omega

theorem rank_take_strict {g : Graph} {k k' : Nat} {nd : Node} (hk : g[k]? = some nd) (hn : nd.tag ≠ .input)
    (hlt : k < k') : rank (g.take k) < rank (g.take k') := by
  have h1 : (g.take k')[k]? = some nd := by rw [List.getElem?_take_of_lt hlt]; exact hk
  have h2 := rank_take_lt h1 hn
  rw [List.take_take, Nat.min_eq_left (Nat.le_of_lt hlt)] at h2
  exact h2

theorem copySpec_get (ρ : Nat → Nat) {g : Graph} {k : Nat} {nd : Node} (hk : g[k]? = some nd)
    (hn : nd.tag ≠ .input) : (copySpec ρ g)[rank (g.take k)]? = some ⟨nd.tag, nd.deps.map ρ⟩ := by
  have h := split_at hk
  have e : copySpec ρ g = copySpec ρ (g.take k) ++ (⟨nd.tag, nd.deps.map ρ⟩ :: copySpec ρ (g.drop (k + 1))) := by
    conv => lhs; rw [h]
    rw [copySpec_append]
    congr 1
    simp [copySpec, List.filter_cons, hn]
  rw [e, List.getElem?_append_right (by rw [copySpec_length]; exact Nat.le_refl _), copySpec_length]
  simp

theorem stepBlocks_get (g : Graph) (outId inp base init : Nat) :
    ∀ (fuel i0 j off : Nat), j < fuel → off < stepLen g →
      (stepBlocks g outId inp base init fuel i0)[j * stepLen g + off]?
        = (stepBlock g outId inp base init (i0 + j))[off]? := by
  intro fuel
  induction fuel with
  | zero => intro i0 j off hj; omega
  | succ fuel ih =>
    intro i0 j off hj hoff
    simp only [stepBlocks]
    cases j with
    | zero =>
      rw [Nat.zero_mul, Nat.zero_add,
        List.getElem?_append_left (by rw [stepBlock_length]; exact hoff)]
      rfl
    | succ j =>
      have e : (j + 1) * stepLen g + off = stepLen g + (j * stepLen g + off) := by
        rw [Nat.succ_mul]; omega
      rw [e, List.getElem?_append_right (by rw [stepBlock_length]; omega), stepBlock_length,
        Nat.add_sub_cancel_left, ih (i0 + 1) j off (by omega) hoff]
      congr 2; omega

theorem stepBlock_get (g : Graph) (outId inp base init i r : Nat) (hr : r < rank g) :
    (stepBlock g outId inp base init i)[2 + r]? = (copySpec (stepRename g base init i) g)[r]? := by
  unfold stepBlock
  rw [List.append_assoc, List.getElem?_append_right (by simp)]
  simp only [List.length_cons, List.length_nil, Nat.zero_add, Nat.add_sub_cancel_left]
  rw [List.getElem?_append_left (by rw [copySpec_length]; exact hr)]

theorem randomCount_stepBlocks (g : Graph) (outId inp base init : Nat) :
    ∀ fuel i, randomCount (stepBlocks g outId inp base init fuel i) = fuel * randomCount g := by
  intro fuel
  induction fuel with
  | zero => intro i; simp [stepBlocks, randomCount]
  | succ fuel ih =>
    intro i
    simp only [stepBlocks, stepBlock, randomCount_append, ih, randomCount_copySpec, Nat.succ_mul]
    simp [randomCount]
    omega

/-- `x` is a node of copy `j` of the simple Iterate inliner -/
def InCopy (g : Graph) (base j x : Nat) : Prop :=
  base + j * stepLen g + 2 ≤ x ∧ x < base + j * stepLen g + 2 + rank g

theorem mul_stepLen_lt {g : Graph} {i j : Nat} (h : i < j) : i * stepLen g + stepLen g ≤ j * stepLen g := by
  rw [← Nat.succ_mul]; exact Nat.mul_le_mul_right _ h

theorem inCopy_disjoint {g : Graph} {base i j x : Nat} (hi : InCopy g base i x) (hj : InCopy g base j x) :
    i = j := by
  unfold InCopy at hi hj
  rcases Nat.lt_trichotomy i j with h | h | h
  · have := mul_stepLen_lt (g := g) h; unfold stepLen at *; omega
  · exact h
  · have := mul_stepLen_lt (g := g) h; unfold stepLen at *; omega

theorem stepRename_inCopy {g : Graph} {base init i k : Nat} {nd : Node} (hk : g[k]? = some nd)
    (hn : nd.tag ≠ .input) : InCopy g base i (stepRename g base init i k) := by
  unfold InCopy stepRename
  rw [rename_nonInput hk hn]
  have := rank_take_lt hk hn
  omega

theorem stateAt_not_inCopy {g : Graph} {base init : Nat} (hinit : init < base) (i j : Nat) :
    ¬ InCopy g base j (stateAt g base init i) := by
  unfold InCopy
  cases i with
  | zero => simp only [stateAt]; omega
  | succ i =>
    simp only [stateAt]
    rcases Nat.lt_or_ge i j with h | h
    · have := mul_stepLen_lt (g := g) h; unfold stepLen at *; omega
    · have := Nat.mul_le_mul_right (stepLen g) h; omega

theorem vget_not_inCopy {g : Graph} {base : Nat} (i j : Nat) :
    ¬ InCopy g base j (base + i * stepLen g + 1) := by
  unfold InCopy
  rcases Nat.lt_or_ge j i with h | h
  · have := mul_stepLen_lt (g := g) h; unfold stepLen at *; omega
  · have := Nat.mul_le_mul_right (stepLen g) h; omega

/-- a sequence of `inline_call`s of the same body with the given argument lists -/
def callSeq (gid : Nat) (g : Graph) (outId : Nat) : List (List Nat) → St → St
  | [], s => s
  | a :: as, s => callSeq gid g outId as (inlineCall gid g outId a s).1

/-- example body: inputs s, x; one Random node used twice (by two operations); new state and
    output both depend on it -/
def exBody : Graph :=
  [⟨.input, []⟩, ⟨.input, []⟩, ⟨.random, []⟩, ⟨.op 0, [0, 2]⟩, ⟨.op 2, [1, 2]⟩, ⟨.createTuple, [3, 4]⟩]

/-- example start state: main graph inputs (state, vector) already copied -/
def exStart : St := ([⟨.input, []⟩, ⟨.input, []⟩], ⟨[((0, 0), 0), ((0, 1), 1)], []⟩)

theorem exBody_wf : WF exBody := by
  intro k nd hk d hd
  unfold exBody at hk
  rcases k with _ | _ | _ | _ | _ | _ | k <;> simp at hk <;> subst hk <;> simp at hd <;> omega

theorem exStart_clean : Clean 1 exStart.2 := by intro k; rfl

end CCV.InlineFresh
